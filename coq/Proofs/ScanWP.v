(* Weakest-precondition calculus for the scanner monad over the BUFFERED input of any capacity >= 8, and the
   contracts ("specs") of the scanner's entry points used to prove that the whole scanner never panics:
   no lookahead-contract violation (peek beyond the buffer, lookahead beyond the capacity, skip beyond the buffer,
   push into a full buffer) and none of the skeleton panics (empty simple-key / indent stacks, token insertion
   out of range, token-number underflow). *)
From Coq Require Import List NArith ZArith Bool Arith Lia.
Import ListNotations.
Require Import Parser SBase SPrim SDir SScalar SFetch SBuf.
Local Open Scope nat_scope.

Section WP.
Variable cap : nat.
Hypothesis cap_ge : 8 <= cap.
Definition bops := buf_ops cap.
Notation st := (sc bufin).
Notation M := (@M bufin).

(* buffered length *)
Definition bl (s : st) : nat := length (b_buf (sc_in s)).

(* never Panic; an error or exhausted fuel ends the run and is not a panic *)
Definition wp {A} (m : M A) (Q : A -> st -> Prop) (s : st) : Prop :=
  match m s with
  | Ok (a, s') => Q a s'
  | Err _ _ => True
  | OutOfFuel => True
  | Panic _ => False
  end.

Lemma wp_ret {A} (a : A) (Q : A -> st -> Prop) s : Q a s -> wp (ret a) Q s.
Proof. auto. Qed.
Lemma wp_bind {A B} (m : M A) (f : A -> M B) (Q : B -> st -> Prop) s :
  wp m (fun a s' => wp (f a) Q s') s -> wp (bind m f) Q s.
Proof. unfold wp, bind. destruct (m s) as [[a s']| | |]; auto. Qed.
Lemma wp_mono {A} (m : M A) (Q Q' : A -> st -> Prop) s :
  wp m Q s -> (forall a s', Q a s' -> Q' a s') -> wp m Q' s.
Proof. unfold wp. destruct (m s) as [[a s']| | |]; auto. Qed.
Lemma wp_fail {A} site mk (Q : A -> st -> Prop) s : wp (@fail bufin A site mk) Q s.
Proof. exact I. Qed.
Lemma wp_oof {A} (Q : A -> st -> Prop) s : wp (@oof bufin A) Q s.
Proof. exact I. Qed.
Lemma wp_get (Q : st -> st -> Prop) s : Q s s -> wp get Q s.
Proof. auto. Qed.
Lemma wp_gets {A} (f : st -> A) (Q : A -> st -> Prop) s : Q (f s) s -> wp (gets f) Q s.
Proof. auto. Qed.
Lemma wp_put s0 (Q : unit -> st -> Prop) s : Q tt s0 -> wp (put s0) Q s.
Proof. auto. Qed.
Lemma wp_modify f (Q : unit -> st -> Prop) s : Q tt (f s) -> wp (modify f) Q s.
Proof. auto. Qed.
(* a panic site is only acceptable where it is unreachable *)
Lemma wp_panic_absurd {A} site (Q : A -> st -> Prop) s : False -> wp (@panic bufin A site) Q s.
Proof. tauto. Qed.

(* ---------------- input primitives: only the buffered length matters ---------------- *)
Lemma take_pad_length n s : length (fst (take_pad n s)) = n.
Proof.
  revert s; induction n as [|n IH]; intros s; cbn [take_pad]; [reflexivity|].
  destruct s as [|c s]; [specialize (IH [])|specialize (IH s)]; destruct (take_pad n _); cbn in *; lia.
Qed.

(* all fields other than the input are untouched by an input operation *)
Definition same_but_input (s s' : st) : Prop := s' = set_in (sc_in s') s.

(* i-th buffered character (0 beyond the buffer) *)
Definition bnth (s : st) (i : nat) : chr := nth i (b_buf (sc_in s)) 0%N.

Lemma wp_look n (Q : unit -> st -> Prop) s :
  n <= cap ->
  (forall s', same_but_input s s' -> n <= bl s' -> bl s <= bl s' -> (forall i, i < bl s -> bnth s' i = bnth s i) -> Q tt s') ->
  wp (look bops n) Q s.
Proof.
  intros Hn HQ. unfold wp, look, bops. cbn [lookahead buf_ops].
  destruct (Nat.leb n (length (b_buf (sc_in s)))) eqn:E1.
  - apply HQ; unfold bl, same_but_input, bnth; cbn; [destruct s; reflexivity | apply Nat.leb_le in E1; lia | lia | reflexivity].
  - destruct (Nat.ltb cap n) eqn:E2; [apply Nat.ltb_lt in E2; lia|].
    pose proof (take_pad_length (n - length (b_buf (sc_in s))) (b_rest (sc_in s))) as HL.
    destruct (take_pad _ _) as [a r]. cbn [fst] in HL. apply Nat.leb_gt in E1.
    apply HQ; unfold bl, same_but_input, bnth; cbn;
      [reflexivity | rewrite app_length; lia | rewrite app_length; lia | intros i Hi; apply app_nth1; exact Hi].
Qed.

Lemma wp_peekn_val n (Q : chr -> st -> Prop) s : n < bl s -> Q (bnth s n) s -> wp (peekn bops n) Q s.
Proof.
  intros Hn HQ. unfold wp, peekn, bops. cbn [peek_nth buf_ops]. unfold bl in Hn.
  destruct (nth_error (b_buf (sc_in s)) n) eqn:E; [|apply nth_error_None in E; lia].
  unfold bnth in HQ. rewrite (nth_error_nth _ _ _ E) in HQ. exact HQ.
Qed.
Lemma wp_peekn n (Q : chr -> st -> Prop) s : n < bl s -> (forall c, Q c s) -> wp (peekn bops n) Q s.
Proof. intros Hn HQ. apply wp_peekn_val; auto. Qed.
Lemma wp_peek (Q : chr -> st -> Prop) s : 1 <= bl s -> (forall c, Q c s) -> wp (SPrim.peek bops) Q s.
Proof. intros H HQ. apply wp_peekn; [lia|exact HQ]. Qed.
Lemma wp_peek_val (Q : chr -> st -> Prop) s : 1 <= bl s -> Q (bnth s 0) s -> wp (SPrim.peek bops) Q s.
Proof. intros H HQ. apply wp_peekn_val; [lia|exact HQ]. Qed.

Lemma wp_look_ch (Q : chr -> st -> Prop) s :
  (forall c s', same_but_input s s' -> 1 <= bl s' -> bl s <= bl s' -> Q c s') -> wp (look_ch bops) Q s.
Proof.
  intros HQ. unfold look_ch. apply wp_bind. apply wp_look; [lia|]. intros s' Hs H1 H2 _.
  apply wp_peek; [exact H1|]. intros c. apply HQ; assumption.
Qed.

Lemma wp_look_ch_val (Q : chr -> st -> Prop) s :
  (forall s', same_but_input s s' -> 1 <= bl s' -> bl s <= bl s' -> (forall i, i < bl s -> bnth s' i = bnth s i) -> Q (bnth s' 0) s') ->
  wp (look_ch bops) Q s.
Proof.
  intros HQ. unfold look_ch. apply wp_bind. apply wp_look; [lia|]. intros s' Hs H1 H2 H3.
  apply wp_peek_val; [exact H1|]. apply HQ; assumption.
Qed.

Lemma wp_in_skip (Q : unit -> st -> Prop) s :
  (forall s', same_but_input s s' -> bl s' = bl s - 1 -> Q tt s') -> wp (in_skip bops) Q s.
Proof.
  intros HQ. unfold wp, in_skip, modify, bops. cbn [skip1 buf_ops]. apply HQ; unfold bl, same_but_input; cbn.
  - reflexivity.
  - destruct (b_buf (sc_in s)); cbn; lia.
Qed.

Lemma wp_in_skip_n n (Q : unit -> st -> Prop) s :
  n <= bl s -> (forall s', same_but_input s s' -> bl s' = bl s - n -> Q tt s') -> wp (in_skip_n bops n) Q s.
Proof.
  intros Hn HQ. unfold wp, in_skip_n, bops. cbn [skip_n buf_ops]. unfold bl in *.
  destruct (Nat.ltb _ n) eqn:E; [apply Nat.ltb_lt in E; lia|].
  apply HQ; unfold same_but_input; cbn; [reflexivity | rewrite skipn_length; reflexivity].
Qed.

(* raw_read_non_breakz pushes a break back into the buffer: only legal when there is room; the scanner calls it
   with an EMPTY buffer *)
Lemma wp_raw_read (Q : option chr -> st -> Prop) s :
  bl s = 0 -> (forall c s', same_but_input s s' -> bl s' <= 1 -> (c <> None -> bl s' = 0) -> Q c s') -> wp (raw_read bops) Q s.
Proof.
  intros H0 HQ. unfold wp, raw_read, bops. cbn [raw_read_non_breakz buf_ops]. unfold bl in *.
  destruct (b_rest (sc_in s)) as [|c r]; [apply HQ; unfold same_but_input; cbn; [destruct s; reflexivity|lia|congruence]|].
  destruct (is_breakz c).
  - destruct (Nat.leb cap (length (b_buf (sc_in s)))) eqn:E; [apply Nat.leb_le in E; lia|].
    apply HQ; unfold same_but_input; cbn; [reflexivity | rewrite app_length; cbn; lia | congruence].
  - apply HQ; unfold same_but_input; cbn; [reflexivity | lia | lia].
Qed.

Lemma wp_buf_is_empty (Q : bool -> st -> Prop) s : Q (Nat.eqb (bl s) 0) s -> wp (buf_is_empty bops) Q s.
Proof. intros H. exact H. Qed.

Lemma wp_assert_buflen n site (Q : unit -> st -> Prop) s : n <= bl s -> Q tt s -> wp (assert_buflen bops n site) Q s.
Proof.
  intros Hn HQ. unfold wp, assert_buflen, bops. cbn [buflen buf_ops]. unfold bl in Hn.
  destruct (Nat.ltb _ n) eqn:E; [apply Nat.ltb_lt in E; lia|exact HQ].
Qed.

(* ---------------- the skeleton: what the character-level scanners must leave alone ---------------- *)
Definition keeps (s s' : st) : Prop :=
  sc_sks s' = sc_sks s /\ sc_flow_level s' = sc_flow_level s /\ sc_tokens s' = sc_tokens s
  /\ sc_tokens_parsed s' = sc_tokens_parsed s /\ sc_stream_start s' = sc_stream_start s
  /\ sc_stream_end s' = sc_stream_end s /\ sc_ifms s' = sc_ifms s
  /\ ((sc_indent s' = sc_indent s /\ sc_indents s' = sc_indents s)
      \/ (sc_indent s', sc_indents s') = unroll_nb (sc_indents s) (sc_indent s)).

Lemma keeps_refl s : keeps s s.
Proof. unfold keeps. repeat split; auto. Qed.

Lemma unroll_nb_idem l ind : unroll_nb (snd (unroll_nb l ind)) (fst (unroll_nb l ind)) = unroll_nb l ind.
Proof.
  revert ind; induction l as [|i r IH]; intros ind; cbn [unroll_nb]; [reflexivity|].
  destruct (in_needs_block_end i) eqn:E; cbn [fst snd unroll_nb]; [rewrite E; reflexivity|apply IH].
Qed.

Lemma keeps_trans s1 s2 s3 : keeps s1 s2 -> keeps s2 s3 -> keeps s1 s3.
Proof.
  unfold keeps. intros (A1 & A2 & A3 & A4 & A5 & A6 & A7 & A9) (B1 & B2 & B3 & B4 & B5 & B6 & B7 & B9).
  repeat split; try congruence.
  destruct A9 as [[Ai Al]|Au], B9 as [[Bi Bl]|Bu].
  - left; split; congruence.
  - right. rewrite Bu, Ai, Al. reflexivity.
  - right. rewrite Bi, Bl. exact Au.
  - right. rewrite Bu.
    assert (Hi : sc_indent s2 = fst (unroll_nb (sc_indents s1) (sc_indent s1))) by (rewrite <- Au; reflexivity).
    assert (Hl : sc_indents s2 = snd (unroll_nb (sc_indents s1) (sc_indent s1))) by (rewrite <- Au; reflexivity).
    rewrite Hi, Hl. apply unroll_nb_idem.
Qed.

Lemma keeps_input s s' : same_but_input s s' -> keeps s s'.
Proof. unfold same_but_input. intros ->. unfold keeps. cbn. repeat split; auto. Qed.

(* ---------------- the skeleton invariant ---------------- *)
(* I2: the indent stack is strictly increasing towards the top and bottoms out at -1 *)
Fixpoint sorted_from (top : Z) (l : list indent_rec) : Prop :=
  match l with
  | [] => top = (-1)%Z
  | i :: r => (in_indent i < top)%Z /\ sorted_from (in_indent i) r
  end.
(* I3: a possible simple key points into (or just past) the token queue *)
Definition sk_in_range (s : st) (k : simple_key) : Prop :=
  sk_possible k = true ->
  (sc_tokens_parsed s <= sk_token_number k)%N
  /\ (sk_token_number k <= sc_tokens_parsed s + N.of_nat (length (sc_tokens s)))%N.

Definition SInv (s : st) : Prop :=
  (if sc_stream_start s then N.of_nat (length (sc_sks s)) = (sc_flow_level s + 1)%N
   else sc_sks s = [] /\ sc_flow_level s = 0%N)
  /\ sorted_from (sc_indent s) (sc_indents s)
  /\ Forall (sk_in_range s) (sc_sks s).

Lemma sorted_from_ge l : forall top, sorted_from top l -> (-1 <= top)%Z.
Proof. induction l as [|i r IH]; intros top H; cbn in H; [lia|]. destruct H as [H1 H2]. specialize (IH _ H2). lia. Qed.

Lemma sorted_unroll_nb l : forall ind, sorted_from ind l ->
  sorted_from (fst (unroll_nb l ind)) (snd (unroll_nb l ind)).
Proof.
  induction l as [|i r IH]; intros ind H; cbn [unroll_nb]; [exact H|].
  destruct (in_needs_block_end i); cbn [fst snd]; [exact H|]. destruct H as [_ H]. apply IH. exact H.
Qed.

Lemma sinv_keeps s s' : keeps s s' -> SInv s -> SInv s'.
Proof.
  intros (A1 & A2 & A3 & A4 & A5 & A6 & A7 & A9) (I1 & I2 & I3). unfold SInv.
  rewrite A1, A2, A5. split; [exact I1|]. split.
  - destruct A9 as [[-> ->]|Au]; [exact I2|].
    pose proof (sorted_unroll_nb _ _ I2) as H. rewrite <- Au in H. exact H.
  - eapply Forall_impl; [|exact I3]. intros k Hk. unfold sk_in_range in *. rewrite A3, A4. exact Hk.
Qed.

(* ---------------- contracts of the entry points (proved in the ScanSafe*.v files) ----------------
   Convention: [F] is the fuel parameter of the model and arbitrary.  Every contract says: from a state satisfying
   the stated buffer precondition the function does not panic and, when it returns normally, it has left the
   skeleton alone ([keeps]) and re-established the stated buffer postcondition. *)
Definition post_keeps (s : st) (k : nat) {A} : A -> st -> Prop := fun _ s' => keeps s s' /\ k <= bl s'.

Definition spec_skip_to_next_token : Prop := forall F s, wp (skip_to_next_token bops F) (post_keeps s 1) s.
Definition spec_skip_ws_to_eol : Prop := forall F stb s, wp (skip_ws_to_eol bops F stb) (post_keeps s 1) s.
Definition spec_skip_yaml_whitespace : Prop := forall F s, wp (skip_yaml_whitespace bops F) (post_keeps s 1) s.
Definition spec_skip_linebreak : Prop := forall s, 2 <= bl s -> wp (skip_linebreak bops) (post_keeps s 0) s.
Definition spec_scan_directive : Prop := forall F s, 1 <= bl s -> wp (scan_directive bops F) (post_keeps s 0) s.
Definition spec_scan_tag : Prop := forall F s, wp (scan_tag bops F) (post_keeps s 0) s.
Definition spec_scan_anchor : Prop := forall F alias s, 1 <= bl s -> wp (scan_anchor bops F alias) (post_keeps s 0) s.
Definition spec_scan_flow_scalar : Prop := forall F single s, 1 <= bl s -> wp (scan_flow_scalar bops F single) (post_keeps s 0) s.
Definition spec_scan_plain_scalar : Prop := forall F s, wp (scan_plain_scalar bops F) (post_keeps s 0) s.
Definition spec_scan_block_scalar : Prop := forall F literal s, 1 <= bl s -> wp (scan_block_scalar bops F literal) (post_keeps s 0) s.

(* mark primitives *)
Lemma wp_skip_blank (Q : unit -> st -> Prop) s :
  (forall s', keeps s s' -> bl s' = bl s - 1 -> Q tt s') -> wp (skip_blank bops) Q s.
Proof.
  intros HQ. unfold skip_blank. apply wp_bind. apply wp_in_skip. intros s1 H1 B1.
  unfold adv_mark. apply wp_modify. apply HQ.
  - eapply keeps_trans; [apply keeps_input; exact H1|]. unfold keeps; cbn; repeat split; auto.
  - exact B1.
Qed.
Lemma wp_skip_non_blank (Q : unit -> st -> Prop) s :
  (forall s', keeps s s' -> bl s' = bl s - 1 -> Q tt s') -> wp (skip_non_blank bops) Q s.
Proof.
  intros HQ. unfold skip_non_blank. apply wp_bind. apply wp_in_skip. intros s1 H1 B1.
  apply wp_bind. unfold adv_mark. apply wp_modify. apply wp_modify. apply HQ.
  - eapply keeps_trans; [apply keeps_input; exact H1|]. unfold keeps; cbn; repeat split; auto.
  - exact B1.
Qed.
Lemma wp_skip_n_non_blank n (Q : unit -> st -> Prop) s :
  n <= bl s -> (forall s', keeps s s' -> bl s' = bl s - n -> Q tt s') -> wp (skip_n_non_blank bops n) Q s.
Proof.
  intros Hn HQ. unfold skip_n_non_blank. apply wp_bind. apply wp_in_skip_n; [exact Hn|]. intros s1 H1 B1.
  apply wp_bind. unfold adv_mark. apply wp_modify. apply wp_modify. apply HQ.
  - eapply keeps_trans; [apply keeps_input; exact H1|]. unfold keeps; cbn; repeat split; auto.
  - exact B1.
Qed.
Lemma wp_skip_nl (Q : unit -> st -> Prop) s :
  (forall s', keeps s s' -> bl s' = bl s - 1 -> Q tt s') -> wp (skip_nl bops) Q s.
Proof.
  intros HQ. unfold skip_nl. apply wp_bind. apply wp_in_skip. intros s1 H1 B1.
  apply wp_modify. apply HQ.
  - eapply keeps_trans; [apply keeps_input; exact H1|]. unfold keeps; cbn; repeat split; auto.
  - exact B1.
Qed.
Lemma wp_adv_mark n (Q : unit -> st -> Prop) s : (forall s', keeps s s' -> bl s' = bl s -> Q tt s') -> wp (adv_mark n) Q s.
Proof. intros HQ. unfold adv_mark. apply wp_modify. apply HQ; [unfold keeps; cbn; repeat split; auto|reflexivity]. Qed.
Lemma wp_mark (Q : marker -> st -> Prop) s : Q (sc_mark s) s -> wp mark Q s.
Proof. auto. Qed.

(* ---------------- Input default methods (input.rs) ---------------- *)
Lemma wp_next_char_is c (Q : bool -> st -> Prop) s : 1 <= bl s -> (forall r, Q r s) -> wp (next_char_is bops c) Q s.
Proof. intros H HQ. unfold next_char_is. apply wp_bind. apply wp_peek; [exact H|]. intros x. apply wp_ret, HQ. Qed.
Lemma wp_nth_char_is n c (Q : bool -> st -> Prop) s : n < bl s -> (forall r, Q r s) -> wp (nth_char_is bops n c) Q s.
Proof. intros H HQ. unfold nth_char_is. apply wp_bind. apply wp_peekn; [exact H|]. intros x. apply wp_ret, HQ. Qed.
Lemma wp_next_is p (Q : bool -> st -> Prop) s : 1 <= bl s -> (forall r, Q r s) -> wp (next_is bops p) Q s.
Proof. intros H HQ. unfold next_is. apply wp_bind. apply wp_peek; [exact H|]. intros x. apply wp_ret, HQ. Qed.
Lemma wp_next_2_are a b (Q : bool -> st -> Prop) s : 2 <= bl s -> (forall r, Q r s) -> wp (next_2_are bops a b) Q s.
Proof.
  intros H HQ. unfold next_2_are. apply wp_bind. apply wp_assert_buflen; [exact H|].
  apply wp_bind. apply wp_peek; [lia|]. intros x. apply wp_bind. apply wp_peekn; [lia|]. intros y. apply wp_ret, HQ.
Qed.
Lemma wp_next_3_are a b c (Q : bool -> st -> Prop) s : 3 <= bl s -> (forall r, Q r s) -> wp (next_3_are bops a b c) Q s.
Proof.
  intros H HQ. unfold next_3_are. apply wp_bind. apply wp_assert_buflen; [exact H|].
  apply wp_bind. apply wp_peek; [lia|]. intros x. apply wp_bind. apply wp_peekn; [lia|]. intros y.
  apply wp_bind. apply wp_peekn; [lia|]. intros z. apply wp_ret, HQ.
Qed.
Lemma wp_next_is_document_indicator (Q : bool -> st -> Prop) s : 4 <= bl s -> (forall r, Q r s) -> wp (next_is_document_indicator bops) Q s.
Proof.
  intros H HQ. unfold next_is_document_indicator. apply wp_bind. apply wp_assert_buflen; [exact H|].
  apply wp_bind. apply wp_peekn; [lia|]. intros c3. destruct (is_blank_or_breakz c3); [|apply wp_ret, HQ].
  apply wp_bind. apply wp_next_3_are; [lia|]. intros d. destruct d; [apply wp_ret, HQ|]. apply wp_next_3_are; [lia|exact HQ].
Qed.
Lemma wp_next_is_document_start (Q : bool -> st -> Prop) s : 4 <= bl s -> (forall r, Q r s) -> wp (next_is_document_start bops) Q s.
Proof.
  intros H HQ. unfold next_is_document_start. apply wp_bind. apply wp_assert_buflen; [exact H|].
  apply wp_bind. apply wp_next_3_are; [lia|]. intros d. destruct d; [|apply wp_ret, HQ].
  apply wp_bind. apply wp_peekn; [lia|]. intros c3. apply wp_ret, HQ.
Qed.
Lemma wp_next_is_document_end (Q : bool -> st -> Prop) s : 4 <= bl s -> (forall r, Q r s) -> wp (next_is_document_end bops) Q s.
Proof.
  intros H HQ. unfold next_is_document_end. apply wp_bind. apply wp_assert_buflen; [exact H|].
  apply wp_bind. apply wp_next_3_are; [lia|]. intros d. destruct d; [|apply wp_ret, HQ].
  apply wp_bind. apply wp_peekn; [lia|]. intros c3. apply wp_ret, HQ.
Qed.
Lemma wp_next_can_be_plain_scalar fl (Q : bool -> st -> Prop) s : 2 <= bl s -> (forall r, Q r s) -> wp (next_can_be_plain_scalar bops fl) Q s.
Proof.
  intros H HQ. unfold next_can_be_plain_scalar. apply wp_bind. apply wp_peekn; [lia|]. intros nc.
  apply wp_bind. apply wp_peek; [lia|]. intros c.
  destruct ((c =? 58)%N && (is_blank_or_breakz nc || fl && is_flow nc)); [apply wp_ret, HQ|].
  destruct (fl && is_flow c); apply wp_ret, HQ.
Qed.

(* line breaks: the scanner always has two characters buffered when it consumes a break *)
Lemma wp_skip_linebreak (Q : unit -> st -> Prop) s :
  2 <= bl s -> (forall s', keeps s s' -> bl s - 2 <= bl s' -> Q tt s') -> wp (skip_linebreak bops) Q s.
Proof.
  intros H HQ. unfold skip_linebreak. apply wp_bind. apply wp_next_2_are; [exact H|]. intros crlf. destruct crlf.
  - apply wp_bind. apply wp_skip_blank. intros s1 K1 B1. apply wp_skip_nl. intros s2 K2 B2.
    apply HQ; [eapply keeps_trans; eauto|lia].
  - apply wp_bind. apply wp_peek; [lia|]. intros c. destruct (is_break c).
    + apply wp_skip_nl. intros s1 K1 B1. apply HQ; [exact K1|lia].
    + apply wp_ret. apply HQ; [apply keeps_refl|lia].
Qed.
Lemma wp_skip_break (Q : unit -> st -> Prop) s :
  2 <= bl s -> is_break (bnth s 0) = true ->
  (forall s', keeps s s' -> bl s - 2 <= bl s' -> Q tt s') -> wp (skip_break bops) Q s.
Proof.
  intros H Hb HQ. unfold skip_break.
  apply wp_bind. apply wp_peek_val; [lia|]. apply wp_bind. apply wp_peekn; [lia|]. intros nc.
  rewrite Hb. apply wp_bind. apply wp_ret.
  apply wp_bind. destruct ((bnth s 0 =? 13)%N && (nc =? 10)%N).
  - apply wp_skip_blank. intros s1 K1 B1. apply wp_skip_nl. intros s2 K2 B2. apply HQ; [eapply keeps_trans; eauto|lia].
  - apply wp_ret. apply wp_skip_nl. intros s1 K1 B1. apply HQ; [exact K1|lia].
Qed.
End WP.
