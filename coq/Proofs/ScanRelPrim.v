(* Joint proof "the scanner over the buffered input computes what the scanner over the string input computes"
   (see SCANREL.md): the PRIMITIVES family - every derived primitive of Model/SPrim.v as a relational rule, the
   bulk input loops, and the four contracts

     skip_linebreak_ok, skip_ws_to_eol_ok, skip_to_next_token_ok, skip_yaml_whitespace_ok.

   ======================================================================================================
   HOW TO USE (other families: [Require Import ScanRel ScanRelPrim.])

   Conventions.  [s1 t1 : st1] string side, [s2 t2 : st2] buffered side.  Every rule keeps [SR], tracks the
   buffered length [bl2] of the buffered side and says how the string side's remaining text [rem1] moved; the
   characters read are those of the STRING side ([rn1 s1 i]) on BOTH sides.
   * Rules that do not mention the input back-end (skeleton accessors, [rwp_bind_rpost], [rwp_mark_fail] ...) are
     stated OUTSIDE the section: use them as they are ([apply rwp_push_tok]).
   * Rules about functions taking [ops] are stated INSIDE [Section RelPrim] and ALL of them take [cap cap_ge] as
     their first two arguments after the section closes: [apply (rwp_skip_blank cap cap_ge)].

   Tactics (exported):
     rel_skel      closes [SR (f s1) (f s2)] when [SR s1 s2] is a hypothesis and [f] is the same composition of the
                   setters set_mark set_tokens set_ska set_lws set_fms set_adj set_ta set_ss set_se set_sks
                   set_indent set_fl set_tp set_ifms (set_flags set_struct upd) on both sides; the values stored may
                   be built from the fields of [s1] resp. [s2] (e.g. [set_tokens (sc_tokens s ++ [t]) s],
                   [set_mark (adv n (sc_mark s)) s]).  A [match]/[let '(a,b) := ..] whose scrutinee is stuck must be
                   [destruct]ed first (rewrite the scrutinee with [sr_sync] to make both sides the same).
     rel_eq        closes [x1 = x2] where x2 is x1 with the skeleton fields of s1 replaced by those of s2
                   (e.g. [sc_mark s1 = sc_mark s2], [(0 <? sc_flow_level s1) = (0 <? sc_flow_level s2)]).
     sr_fields H   H : SR s1 s2; adds the 15 field equalities [sc_X s1 = sc_X s2] to the context.
     sr_sync H     H : SR s1 s2; rewrites every skeleton field of s2 in the goal into the field of s1
                   (use after [rwp_get]: the two continuations then test the same values).
     rel_if        goal [rwp (if b1 then _ else _) (if b2 then _ else _) Q s1 s2]: proves b2 = b1 with [rel_eq] and
                   destructs b1 (with [eqn:]); two goals remain, both sides in the same branch.

   Skeleton lemmas: SR_fields, SR_tokens SR_sks SR_ska SR_indent SR_indents SR_flow_level SR_tokens_parsed SR_lws
     SR_fms SR_ifms SR_adjacent SR_token_available SR_stream_start SR_stream_end (and SR_mark of ScanRel.v):
     [SR s1 s2 -> sc_X s1 = sc_X s2].  SR_erase_l : SR t1 t2 -> erase t1 = erase s1 -> SR s1 s2' ... see below.
   List/position helpers: rn1_eq rn1_tl rn1_skipn (how [rn1] moves with [rem1]), tl_skipn, nth_skipn.

   Generic rules (no cap):
     rwp_bind_rpost   rwp m1 m2 (rpost k) s1 s2 -> (forall a t1 t2, SR t1 t2 -> k <= bl2 t2 -> rwp (f1 a) (f2 a) Q t1 t2)
                      -> rwp (bind m1 f1) (bind m2 f2) Q s1 s2              (calling a contract)
     rwp_rpost_weaken rwp m1 m2 (rpost k) s1 s2 -> k' <= k -> rwp m1 m2 (rpost k') s1 s2
     rwp_ret_rpost    SR s1 s2 -> k <= bl2 s2 -> rwp (ret a) (ret a) (rpost k) s1 s2
     rwp_gets_skel    SR s1 s2 -> f1 s1 = f2 s2 -> Q (f1 s1) s1 (f1 s1) s2 -> rwp (gets f1) (gets f2) Q s1 s2
                      (second premise: [rel_eq])
     rwp_modify_skel  SR (f1 s1) (f2 s2) -> rem1 (f1 s1) = rem1 s1 -> bl2 (f2 s2) = bl2 s2 ->
                      (forall t1 t2, SR t1 t2 -> rem1 t1 = rem1 s1 -> bl2 t2 = bl2 s2 -> Q tt t1 tt t2)
                      -> rwp (modify f1) (modify f2) Q s1 s2        (premises: [rel_skel], [reflexivity], [reflexivity])
     rwp_put_skel     same for [put u1] / [put u2]
     rwp_fail_sr      SR s1 s2 -> rwp (fail site (sc_mark s1)) (fail site (sc_mark s2)) Q s1 s2
     rwp_mark_fail    SR s1 s2 -> rwp (m <- mark ;; fail site m) (m <- mark ;; fail site m) Q s1 s2
     rwp_mark         SR s1 s2 -> Q (sc_mark s1) s1 (sc_mark s1) s2 -> rwp mark mark Q s1 s2
     rwp_adv_mark n   SR s1 s2 -> (forall t1 t2, SR t1 t2 -> rem1 t1 = rem1 s1 -> bl2 t2 = bl2 s2 -> Q tt t1 tt t2) -> ..
     rwp_push_tok tk1 tk2, rwp_insert_token p1 p2 tk1 tk2 (premises tk1 = tk2, p1 = p2: [rel_eq]),
     rwp_allow_simple_key, rwp_disallow_simple_key                       - same shape as rwp_adv_mark
     rwp_flow_level   SR s1 s2 -> Q (sc_flow_level s1) s1 (sc_flow_level s1) s2 -> ..
     rwp_in_flow      SR s1 s2 -> Q (0 <? sc_flow_level s1)%N s1 (0 <? sc_flow_level s1)%N s2 -> ..
     rwp_is_within_block  SR s1 s2 -> Q (within_block1 s1) s1 (within_block1 s1) s2 -> ..

   Rules of the section (all take [cap cap_ge]; [Q] annotated [_ -> st1 -> _ -> st2 -> Prop]):
     rwp_next_char_is c   SR s1 s2 -> 1 <= bl2 s2 -> Q (rn1 s1 0 =? c)%N s1 (rn1 s1 0 =? c)%N s2 -> ..
     rwp_nth_char_is n c  SR s1 s2 -> n < bl2 s2 -> Q (rn1 s1 n =? c)%N s1 (same) s2 -> ..
     rwp_next_is p        SR s1 s2 -> 1 <= bl2 s2 -> Q (p (rn1 s1 0)) s1 (same) s2 -> ..
     rwp_next_2_are a b   SR s1 s2 -> 2 <= bl2 s2 -> Q (n2are s1 a b) s1 (same) s2 -> ..
     rwp_next_3_are a b c SR s1 s2 -> 3 <= bl2 s2 -> Q (n3are s1 a b c) s1 (same) s2 -> ..
     rwp_next_is_document_indicator / _start / _end
                          SR s1 s2 -> 4 <= bl2 s2 -> Q (docind_val s1 | docstart_val s1 | docend_val s1) s1 (same) s2 -> ..
     rwp_next_can_be_plain_scalar fl   SR s1 s2 -> 2 <= bl2 s2 -> Q (plain_ok_val fl s1) s1 (same) s2 -> ..
     rwp_skip_blank / rwp_skip_non_blank / rwp_skip_nl
                          SR s1 s2 -> 1 <= bl2 s2 ->
                          (forall t1 t2, SR t1 t2 -> rem1 t1 = tl (rem1 s1) -> bl2 t2 = bl2 s2 - 1 -> Q tt t1 tt t2) -> ..
     rwp_skip_n_non_blank n   SR s1 s2 -> n <= bl2 s2 ->
                          (forall t1 t2, SR t1 t2 -> rem1 t1 = skipn n (rem1 s1) -> bl2 t2 = bl2 s2 - n -> Q tt t1 tt t2) -> ..
     rwp_skip_linebreak   SR s1 s2 -> 2 <= bl2 s2 ->
                          (forall t1 t2, SR t1 t2 -> rem1 t1 = skipn (lb_len s1) (rem1 s1) -> bl2 t2 = bl2 s2 - lb_len s1 ->
                                         Q tt t1 tt t2) -> ..        ([lb_len s1] = 2 for CR LF, 1 for a break, else 0;
                                                                      [lb_len_le2], [lb_len_break])
     rwp_skip_break       SR s1 s2 -> 2 <= bl2 s2 ->
                          (forall t1 t2, SR t1 t2 -> is_break (rn1 s1 0) = true -> rem1 t1 = skipn (lb_len s1) (rem1 s1) ->
                                         bl2 t2 = bl2 s2 - lb_len s1 -> Q tt t1 tt t2) -> ..
     rwp_in_skip_while F p    SR s1 s2 ->
                          (forall k t1 t2, SR t1 t2 -> erase t1 = erase s1 -> 1 <= bl2 t2 -> p (rn1 t1 0) = false ->
                             rem1 t1 = skipn (N.to_nat k) (rem1 s1) -> (forall i, i < N.to_nat k -> p (rn1 s1 i) = true) ->
                             Q k t1 k t2) -> ..
     rwp_in_skip_while_non_breakz F, rwp_in_skip_while_blank F     the instances ([is_breakz (rn1 t1 0) = true] resp.
                                                                    [is_blank (rn1 t1 0) = false] at the exit)
     rwp_in_fetch_while_alpha F acc   SR s1 s2 ->
                          (forall r t1 t2, SR t1 t2 -> erase t1 = erase s1 -> 1 <= bl2 t2 -> is_alpha (rn1 t1 0) = false ->
                             rem1 t1 = skipn (N.to_nat (snd r)) (rem1 s1) ->
                             (forall i, i < N.to_nat (snd r) -> is_alpha (rn1 s1 i) = true) -> Q r t1 r t2) -> ..
     rwp_in_skip_ws_to_eol F stb tab ws n   SR s1 s2 ->
                          (forall r j t1 t2, SR t1 t2 -> erase t1 = erase s1 -> 1 <= bl2 t2 ->
                             fst r = (n + N.of_nat j)%N -> rem1 t1 = skipn j (rem1 s1) -> Q r t1 r t2) -> ..
   No rule that skips characters is applicable without knowing that they are buffered ([1 <= bl2 s2], [n <= bl2 s2]):
   that is exactly the obligation of the relational proof at each call site. *)
From Coq Require Import List NArith ZArith Bool Arith Lia.
Import ListNotations.
Require Import Parser SBase SPrim SDir SScalar SFetch SBuf InputRefine ScanRel.
Local Open Scope nat_scope.

(* ---------------- lists: how [tl] / [skipn] / [nth] interact ---------------- *)
Lemma tl_skipn {A} n (l : list A) : tl (skipn n l) = skipn (S n) l.
Proof.
  revert l; induction n as [|n IH]; intros l; [destruct l; reflexivity|].
  destruct l as [|a l]; [reflexivity|]. change (skipn (S (S n)) (a :: l)) with (skipn (S n) l).
  change (skipn (S n) (a :: l)) with (skipn n l). apply IH.
Qed.
Lemma nth_skipn {A} n i (l : list A) d : nth i (skipn n l) d = nth (n + i) l d.
Proof.
  revert l; induction n as [|n IH]; intros l; [reflexivity|].
  destruct l as [|a l]; [destruct i; reflexivity|]. change (skipn (S n) (a :: l)) with (skipn n l).
  change (nth (S n + i) (a :: l) d) with (nth (n + i) l d). apply IH.
Qed.
Lemma skipn_add {A} a b (l : list A) : skipn a (skipn b l) = skipn (b + a) l.
Proof.
  revert l; induction b as [|b IH]; intros l; [reflexivity|].
  destruct l as [|x l]; [destruct a; reflexivity|]. change (skipn (S b) (x :: l)) with (skipn b l).
  change (skipn (S b + a) (x :: l)) with (skipn (b + a) l). apply IH.
Qed.

Lemma rn1_eq (t1 s1 : st1) i : rem1 t1 = rem1 s1 -> rn1 t1 i = rn1 s1 i.
Proof. unfold rn1. intros ->. reflexivity. Qed.
Lemma rn1_tl (t1 s1 : st1) i : rem1 t1 = tl (rem1 s1) -> rn1 t1 i = rn1 s1 (S i).
Proof. unfold rn1. intros ->. destruct (rem1 s1); [destruct i; reflexivity|reflexivity]. Qed.
Lemma rn1_skipn (t1 s1 : st1) n i : rem1 t1 = skipn n (rem1 s1) -> rn1 t1 i = rn1 s1 (n + i).
Proof. unfold rn1. intros ->. apply nth_skipn. Qed.

(* ---------------- the skeleton under [SR] ---------------- *)
Lemma SR_fields s1 s2 : SR s1 s2 ->
  sc_mark s1 = sc_mark s2 /\ sc_tokens s1 = sc_tokens s2 /\ sc_stream_start s1 = sc_stream_start s2
  /\ sc_stream_end s1 = sc_stream_end s2 /\ sc_adjacent s1 = sc_adjacent s2 /\ sc_ska s1 = sc_ska s2
  /\ sc_sks s1 = sc_sks s2 /\ sc_indent s1 = sc_indent s2 /\ sc_indents s1 = sc_indents s2
  /\ sc_flow_level s1 = sc_flow_level s2 /\ sc_tokens_parsed s1 = sc_tokens_parsed s2
  /\ sc_token_available s1 = sc_token_available s2 /\ sc_lws s1 = sc_lws s2 /\ sc_fms s1 = sc_fms s2
  /\ sc_ifms s1 = sc_ifms s2.
Proof. intros H. apply erase_fields. apply SR_erase. exact H. Qed.

Lemma SR_tokens s1 s2 : SR s1 s2 -> sc_tokens s1 = sc_tokens s2.
Proof. intros H. apply SR_fields in H. tauto. Qed.
Lemma SR_stream_start s1 s2 : SR s1 s2 -> sc_stream_start s1 = sc_stream_start s2.
Proof. intros H. apply SR_fields in H. tauto. Qed.
Lemma SR_stream_end s1 s2 : SR s1 s2 -> sc_stream_end s1 = sc_stream_end s2.
Proof. intros H. apply SR_fields in H. tauto. Qed.
Lemma SR_adjacent s1 s2 : SR s1 s2 -> sc_adjacent s1 = sc_adjacent s2.
Proof. intros H. apply SR_fields in H. tauto. Qed.
Lemma SR_ska s1 s2 : SR s1 s2 -> sc_ska s1 = sc_ska s2.
Proof. intros H. apply SR_fields in H. tauto. Qed.
Lemma SR_sks s1 s2 : SR s1 s2 -> sc_sks s1 = sc_sks s2.
Proof. intros H. apply SR_fields in H. tauto. Qed.
Lemma SR_indent s1 s2 : SR s1 s2 -> sc_indent s1 = sc_indent s2.
Proof. intros H. apply SR_fields in H. tauto. Qed.
Lemma SR_indents s1 s2 : SR s1 s2 -> sc_indents s1 = sc_indents s2.
Proof. intros H. apply SR_fields in H. tauto. Qed.
Lemma SR_flow_level s1 s2 : SR s1 s2 -> sc_flow_level s1 = sc_flow_level s2.
Proof. intros H. apply SR_fields in H. tauto. Qed.
Lemma SR_tokens_parsed s1 s2 : SR s1 s2 -> sc_tokens_parsed s1 = sc_tokens_parsed s2.
Proof. intros H. apply SR_fields in H. tauto. Qed.
Lemma SR_token_available s1 s2 : SR s1 s2 -> sc_token_available s1 = sc_token_available s2.
Proof. intros H. apply SR_fields in H. tauto. Qed.
Lemma SR_lws s1 s2 : SR s1 s2 -> sc_lws s1 = sc_lws s2.
Proof. intros H. apply SR_fields in H. tauto. Qed.
Lemma SR_fms s1 s2 : SR s1 s2 -> sc_fms s1 = sc_fms s2.
Proof. intros H. apply SR_fields in H. tauto. Qed.
Lemma SR_ifms s1 s2 : SR s1 s2 -> sc_ifms s1 = sc_ifms s2.
Proof. intros H. apply SR_fields in H. tauto. Qed.

(* [sr_fields H]: H : SR s1 s2; the 15 field equalities *)
Ltac sr_fields H :=
  let E := fresh "E" in
  pose proof (SR_fields _ _ H) as E; decompose [and] E; clear E.

(* [sr_sync H]: H : SR s1 s2; every skeleton field of s2 in the goal becomes the field of s1 *)
Ltac sr_sync H :=
  rewrite <- ?(SR_mark _ _ H), <- ?(SR_tokens _ _ H), <- ?(SR_stream_start _ _ H), <- ?(SR_stream_end _ _ H),
          <- ?(SR_adjacent _ _ H), <- ?(SR_ska _ _ H), <- ?(SR_sks _ _ H), <- ?(SR_indent _ _ H),
          <- ?(SR_indents _ _ H), <- ?(SR_flow_level _ _ H), <- ?(SR_tokens_parsed _ _ H),
          <- ?(SR_token_available _ _ H), <- ?(SR_lws _ _ H), <- ?(SR_fms _ _ H), <- ?(SR_ifms _ _ H).

Ltac skel_cbn :=
  cbn [sc_in sc_mark sc_tokens sc_stream_start sc_stream_end sc_adjacent sc_ska sc_sks sc_indent sc_indents
       sc_flow_level sc_tokens_parsed sc_token_available sc_lws sc_fms sc_ifms
       upd set_in set_mark set_tokens set_flags set_ska set_lws set_fms set_adj set_ta set_ss set_se
       set_struct set_sks set_indent set_fl set_tp set_ifms].

(* [sr_fwd H]: H : SR s1 s2; every skeleton field of s1 in the goal becomes the field of s2 *)
Ltac sr_fwd H :=
  rewrite ?(SR_mark _ _ H), ?(SR_tokens _ _ H), ?(SR_stream_start _ _ H), ?(SR_stream_end _ _ H),
          ?(SR_adjacent _ _ H), ?(SR_ska _ _ H), ?(SR_sks _ _ H), ?(SR_indent _ _ H),
          ?(SR_indents _ _ H), ?(SR_flow_level _ _ H), ?(SR_tokens_parsed _ _ H),
          ?(SR_token_available _ _ H), ?(SR_lws _ _ H), ?(SR_fms _ _ H), ?(SR_ifms _ _ H).

(* [rel_eq]: x1 = x2, the same expression over the skeleton fields of two related states.
   (No [congruence]/[f_equal] on the 16-field record: it takes minutes.) *)
Ltac rel_eq_with H := skel_cbn; sr_fwd H; reflexivity.
Ltac rel_eq :=
  first [ reflexivity
        | match goal with H : SR _ _ |- _ = _ => solve [rel_eq_with H] end ].

(* [rel_skel]: SR (f s1) (f s2) from a hypothesis SR s1 s2, f the same composition of setters *)
Ltac rel_skel_with H :=
  split; [ exact (SR_rel _ _ H) | unfold erase; skel_cbn; sr_fwd H; reflexivity ].
Ltac rel_skel :=
  match goal with
  | H : SR ?a ?b |- SR ?a ?b => exact H
  | H : SR _ _ |- SR _ _ => solve [rel_skel_with H]
  end.

(* [rel_if]: both sides branch on the same test *)
Ltac rel_if :=
  match goal with
  | |- rwp (if ?b1 then _ else _) (if ?b2 then _ else _) _ _ _ =>
      first [ constr_eq b1 b2 | replace b2 with b1 by rel_eq ];
      let Eb := fresh "Eb" in destruct b1 eqn:Eb
  end.

(* a related pair of states is one skeleton with two inputs *)
Definition with_in {I} (i : I) (u : sc unit) : sc I :=
  {| sc_in := i; sc_mark := sc_mark u; sc_tokens := sc_tokens u;
     sc_stream_start := sc_stream_start u; sc_stream_end := sc_stream_end u; sc_adjacent := sc_adjacent u;
     sc_ska := sc_ska u; sc_sks := sc_sks u; sc_indent := sc_indent u; sc_indents := sc_indents u;
     sc_flow_level := sc_flow_level u; sc_tokens_parsed := sc_tokens_parsed u;
     sc_token_available := sc_token_available u; sc_lws := sc_lws u; sc_fms := sc_fms u; sc_ifms := sc_ifms u |}.
Lemma with_in_erase {I} (s : sc I) : s = with_in (sc_in s) (erase s).
Proof. destruct s; reflexivity. Qed.
(* last resort when [rel_skel] does not apply: after
     [destruct (SR_split _ _ H) as (i1 & i2 & u & -> & -> & R)]
   both states are [with_in _ u] and every skeleton computation is literally the same term on both sides *)
Lemma SR_split s1 s2 : SR s1 s2 -> exists i1 i2 u, s1 = with_in i1 u /\ s2 = with_in i2 u /\ Rel i1 i2.
Proof.
  intros [R E]. exists (sc_in s1), (sc_in s2), (erase s1). split; [apply with_in_erase|].
  split; [rewrite E; apply with_in_erase|exact R].
Qed.
Lemma SR_with_in i1 i2 u : Rel i1 i2 -> SR (with_in i1 u) (with_in i2 u).
Proof. intros R. split; [exact R|reflexivity]. Qed.

(* ---------------- generic rules ---------------- *)
(* calling a contract *)
Lemma rwp_bind_rpost {A B1 B2} k (m1 : M1 A) (m2 : M2 A) (f1 : A -> M1 B1) (f2 : A -> M2 B2)
  (Q : B1 -> st1 -> B2 -> st2 -> Prop) s1 s2 :
  rwp m1 m2 (rpost k) s1 s2 ->
  (forall a t1 t2, SR t1 t2 -> k <= bl2 t2 -> rwp (f1 a) (f2 a) Q t1 t2) ->
  rwp (bind m1 f1) (bind m2 f2) Q s1 s2.
Proof.
  intros H HK. apply rwp_bind_e. eapply rwp_mono; [exact H|].
  intros a1 t1 a2 t2 [E [HS HB]]. split; [exact E|]. apply HK; assumption.
Qed.
Lemma rwp_rpost_weaken {A} k k' (m1 : M1 A) (m2 : M2 A) s1 s2 :
  rwp m1 m2 (rpost k) s1 s2 -> k' <= k -> rwp m1 m2 (rpost k') s1 s2.
Proof.
  intros H Hk. eapply rwp_mono; [exact H|]. intros a1 t1 a2 t2 [E [HS HB]]. split; [exact E|]. split; [exact HS|lia].
Qed.
Lemma rwp_ret_rpost {A} k (a : A) s1 s2 : SR s1 s2 -> k <= bl2 s2 -> rwp (ret a) (ret a) (rpost k) s1 s2.
Proof. intros HS HB. apply rwp_ret. split; [reflexivity|]. split; assumption. Qed.

(* the same skeleton read on both sides (second premise: [rel_eq]) *)
Lemma rwp_gets_skel {A} (f1 : st1 -> A) (f2 : st2 -> A) (Q : A -> st1 -> A -> st2 -> Prop) s1 s2 :
  SR s1 s2 -> f1 s1 = f2 s2 -> Q (f1 s1) s1 (f1 s1) s2 -> rwp (gets f1) (gets f2) Q s1 s2.
Proof. intros _ E HQ. apply rwp_gets. rewrite <- E. exact HQ. Qed.

(* the same skeleton update on both sides (premises: [rel_skel], [reflexivity], [reflexivity]) *)
Lemma rwp_modify_skel (f1 : st1 -> st1) (f2 : st2 -> st2) (Q : unit -> st1 -> unit -> st2 -> Prop) s1 s2 :
  SR (f1 s1) (f2 s2) -> rem1 (f1 s1) = rem1 s1 -> bl2 (f2 s2) = bl2 s2 ->
  (forall t1 t2, SR t1 t2 -> rem1 t1 = rem1 s1 -> bl2 t2 = bl2 s2 -> Q tt t1 tt t2) ->
  rwp (modify f1) (modify f2) Q s1 s2.
Proof. intros HS HR HB HQ. apply rwp_modify. apply HQ; assumption. Qed.
Lemma rwp_put_skel (u1 : st1) (u2 : st2) (Q : unit -> st1 -> unit -> st2 -> Prop) s1 s2 :
  SR u1 u2 -> rem1 u1 = rem1 s1 -> bl2 u2 = bl2 s2 ->
  (forall t1 t2, SR t1 t2 -> rem1 t1 = rem1 s1 -> bl2 t2 = bl2 s2 -> Q tt t1 tt t2) ->
  rwp (put u1) (put u2) Q s1 s2.
Proof. intros HS HR HB HQ. apply rwp_put. apply HQ; assumption. Qed.

(* errors are reported at the mark, which is the same on both sides *)
Lemma rwp_fail_sr {A1 A2} site (Q : A1 -> st1 -> A2 -> st2 -> Prop) s1 s2 :
  SR s1 s2 -> rwp (@fail strin A1 site (sc_mark s1)) (@fail bufin A2 site (sc_mark s2)) Q s1 s2.
Proof. intros HS. apply rwp_fail. apply SR_mark. exact HS. Qed.

(* ---------------- mark / token queue / flags: primitives that do not touch the input ---------------- *)
(* mark: the same marker on both sides *)
Lemma rwp_mark (Q : marker -> st1 -> marker -> st2 -> Prop) s1 s2 :
  SR s1 s2 -> Q (sc_mark s1) s1 (sc_mark s1) s2 -> rwp mark mark Q s1 s2.
Proof. intros HS HQ. unfold mark. apply rwp_gets_skel; [exact HS|rel_eq|exact HQ]. Qed.

(* m <- mark ;; fail site m : the same error *)
Lemma rwp_mark_fail {A1 A2} site (Q : A1 -> st1 -> A2 -> st2 -> Prop) s1 s2 :
  SR s1 s2 ->
  rwp (bind mark (fun m => @fail strin A1 site m)) (bind mark (fun m => @fail bufin A2 site m)) Q s1 s2.
Proof. intros HS. apply rwp_bind. apply rwp_mark; [exact HS|]. apply rwp_fail. reflexivity. Qed.

(* adv_mark n: only the mark moves *)
Lemma rwp_adv_mark n (Q : unit -> st1 -> unit -> st2 -> Prop) s1 s2 :
  SR s1 s2 ->
  (forall t1 t2, SR t1 t2 -> rem1 t1 = rem1 s1 -> bl2 t2 = bl2 s2 -> Q tt t1 tt t2) ->
  rwp (adv_mark n) (adv_mark n) Q s1 s2.
Proof. intros HS HQ. unfold adv_mark. apply rwp_modify_skel; [rel_skel|reflexivity|reflexivity|exact HQ]. Qed.

(* push_tok: the same token appended on both sides *)
Lemma rwp_push_tok tk1 tk2 (Q : unit -> st1 -> unit -> st2 -> Prop) s1 s2 :
  SR s1 s2 -> tk1 = tk2 ->
  (forall t1 t2, SR t1 t2 -> rem1 t1 = rem1 s1 -> bl2 t2 = bl2 s2 -> Q tt t1 tt t2) ->
  rwp (push_tok tk1) (push_tok tk2) Q s1 s2.
Proof.
  intros HS <- HQ. unfold push_tok. apply rwp_modify_skel; [rel_skel|reflexivity|reflexivity|exact HQ].
Qed.

(* insert_token: the same insertion, or the same out-of-range panic *)
Lemma rwp_insert_token p1 p2 tk1 tk2 (Q : unit -> st1 -> unit -> st2 -> Prop) s1 s2 :
  SR s1 s2 -> p1 = p2 -> tk1 = tk2 ->
  (forall t1 t2, SR t1 t2 -> rem1 t1 = rem1 s1 -> bl2 t2 = bl2 s2 -> Q tt t1 tt t2) ->
  rwp (insert_token p1 tk1) (insert_token p2 tk2) Q s1 s2.
Proof.
  intros HS <- <- HQ. unfold rwp, insert_token. rewrite <- (SR_tokens _ _ HS).
  destruct (insert_at (N.to_nat p1) tk1 (sc_tokens s1)) as [l|]; [|exact I].
  apply HQ; [rel_skel|reflexivity|reflexivity].
Qed.

(* allow_simple_key / disallow_simple_key: only a flag moves *)
Lemma rwp_allow_simple_key (Q : unit -> st1 -> unit -> st2 -> Prop) s1 s2 :
  SR s1 s2 ->
  (forall t1 t2, SR t1 t2 -> rem1 t1 = rem1 s1 -> bl2 t2 = bl2 s2 -> Q tt t1 tt t2) ->
  rwp allow_simple_key allow_simple_key Q s1 s2.
Proof. intros HS HQ. unfold allow_simple_key. apply rwp_modify_skel; [rel_skel|reflexivity|reflexivity|exact HQ]. Qed.
Lemma rwp_disallow_simple_key (Q : unit -> st1 -> unit -> st2 -> Prop) s1 s2 :
  SR s1 s2 ->
  (forall t1 t2, SR t1 t2 -> rem1 t1 = rem1 s1 -> bl2 t2 = bl2 s2 -> Q tt t1 tt t2) ->
  rwp disallow_simple_key disallow_simple_key Q s1 s2.
Proof. intros HS HQ. unfold disallow_simple_key. apply rwp_modify_skel; [rel_skel|reflexivity|reflexivity|exact HQ]. Qed.

(* flow_level / in_flow / is_within_block: the same value on both sides *)
Lemma rwp_flow_level (Q : N -> st1 -> N -> st2 -> Prop) s1 s2 :
  SR s1 s2 -> Q (sc_flow_level s1) s1 (sc_flow_level s1) s2 -> rwp flow_level flow_level Q s1 s2.
Proof. intros HS HQ. unfold flow_level. apply rwp_gets_skel; [exact HS|rel_eq|exact HQ]. Qed.
Lemma rwp_in_flow (Q : bool -> st1 -> bool -> st2 -> Prop) s1 s2 :
  SR s1 s2 -> Q (0 <? sc_flow_level s1)%N s1 (0 <? sc_flow_level s1)%N s2 -> rwp in_flow in_flow Q s1 s2.
Proof.
  intros HS HQ. unfold in_flow. apply rwp_bind. apply rwp_flow_level; [exact HS|]. apply rwp_ret. exact HQ.
Qed.
Definition within_block1 (s1 : st1) : bool := match sc_indents s1 with [] => false | _ => true end.
Lemma rwp_is_within_block (Q : bool -> st1 -> bool -> st2 -> Prop) s1 s2 :
  SR s1 s2 -> Q (within_block1 s1) s1 (within_block1 s1) s2 -> rwp is_within_block is_within_block Q s1 s2.
Proof.
  intros HS HQ. unfold is_within_block. apply rwp_gets_skel; [exact HS| |exact HQ].
  rewrite (SR_indents _ _ HS). reflexivity.
Qed.
