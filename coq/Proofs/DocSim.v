(* C15, parser half, ingredient (A) of Proofs/DocIndep.v.

   Two parsers that differ only in the tail of their token streams — one ends with a StreamEnd token [se], the other
   continues with a DocumentEnd token [de] and arbitrary tokens [rest] — do the same thing step by step ([sim_step]:
   same event; the span may differ when the event is derived from the final token), until the first one emits
   StreamEnd.  At that point the second one is about to start the document(s) of [rest] from the boundary parser
   [pB]: empty anchor table, empty tag table, document-start state.

   The parser never tells StreamEnd from DocumentEnd except in the three document-level state functions, which is why
   the simulation goes through; the state [SFlowSequenceEntryMappingEnd m] stores a marker taken from a token span, so
   states are compared up to that marker ([st_eq]). *)
From Coq Require Import List NArith Bool Lia.
Import ListNotations.
Require Import Parser C02base C02rest DocReset DocShift.
Local Open Scope N_scope.

Section Sim.
Variables sps spd : span.
Variable rest : list token.
Notation se := (sps, TStreamEnd).
Notation de := (spd, TDocumentEnd).

Definition nonSE (t : token) : Prop := snd t <> TStreamEnd.
Definition okst (s : pstate) : Prop := s <> SStreamStart /\ s <> SImplicitDocumentStart /\ s <> SDocumentStart /\ s <> SEnd.
Definition st_eq (s1 s2 : pstate) : Prop :=
  match s1 with
  | SFlowSequenceEntryMappingEnd _ => exists m, s2 = SFlowSequenceEntryMappingEnd m
  | _ => s2 = s1
  end.
Lemma st_eq_refl s : st_eq s s.
Proof. destruct s; cbn; eauto. Qed.
Lemma st_eq_fsem m1 m2 : st_eq (SFlowSequenceEntryMappingEnd m1) (SFlowSequenceEntryMappingEnd m2).
Proof. cbn. eauto. Qed.

Inductive phase (p1 p2 : parser) : Prop :=
| PhBody l : p_token p2 = p_token p1 -> (forall t, p_token p1 = Some t -> nonSE t) -> Forall nonSE l ->
             p_toks p1 = l ++ [se] -> p_toks p2 = l ++ de :: rest -> phase p1 p2
| PhEnd : p_token p1 = Some se -> p_token p2 = Some de -> p_toks p1 = [] -> p_toks p2 = rest -> phase p1 p2
| PhPast : p_token p1 = None -> p_token p2 = None -> p_toks p1 = [] -> p_toks p2 = rest -> phase p1 p2.

Definition R (p1 p2 : parser) : Prop :=
  st_eq (p_state p1) (p_state p2) /\ Forall2 st_eq (p_states p1) (p_states p2)
  /\ p_anchors p2 = p_anchors p1 /\ p_anchor_id p2 = p_anchor_id p1 /\ p_tags p2 = p_tags p1
  /\ p_keep_tags p1 = false /\ p_keep_tags p2 = false
  /\ phase p1 p2 /\ Forall okst (p_states p1).

(* what the first parser knows in the document-level states *)
Definition DL (p : parser) : Prop :=
  p_state p <> SEnd /\
  match p_state p with
  | SStreamStart | SImplicitDocumentStart => p_anchors p = [] /\ p_tags p = []
  | SDocumentStart => p_anchors p = [] /\ p_tags p = []
                      /\ exists t, p_token p = Some t /\ snd t <> TDocumentEnd /\ snd t <> TStreamEnd
  | _ => True
  end.
Lemma DL_okst p : okst (p_state p) -> DL p.
Proof. unfold DL, okst. destruct (p_state p); intros (A & B & C & D); (split; [try discriminate; congruence|]); try exact I; congruence. Qed.

Definition RR (r1 r2 : res ((event * span) * parser)) : Prop :=
  forall e sp q1, r1 = Ok ((e, sp), q1) -> exists sp' q2, r2 = Ok ((e, sp'), q2) /\ R q1 q2 /\ DL q1.
Lemma RR_err e r2 : RR (Err e) r2.
Proof. intros ? ? ? H; discriminate. Qed.
Lemma RR_panic n r2 : RR (Panic n) r2.
Proof. intros ? ? ? H; discriminate. Qed.
Lemma RR_ok e sp1 sp2 q1 q2 : R q1 q2 -> DL q1 -> RR (Ok ((e, sp1), q1)) (Ok ((e, sp2), q2)).
Proof. intros HR HD e0 sp0 q0 H. inversion H; subst. eauto. Qed.

(* ---- primitives ---- *)
Lemma R_set_state q1 q2 s1 s2 : R q1 q2 -> st_eq s1 s2 -> R (set_state q1 s1) (set_state q2 s2).
Proof.
  intros (A & B & C & D & E & G & H & P & K) HS. unfold R; cbn. repeat split; auto.
  destruct P as [l P1 P2 P3 P4 P5|P1 P2 P3 P4|P1 P2 P3 P4]; [eapply PhBody|apply PhEnd|apply PhPast]; cbn; eauto.
Qed.
Lemma R_push_state q1 q2 s1 s2 : R q1 q2 -> st_eq s1 s2 -> okst s1 -> R (push_state q1 s1) (push_state q2 s2).
Proof.
  intros (A & B & C & D & E & G & H & P & K) HS HO. unfold R; cbn. repeat split; auto.
  destruct P as [l P1 P2 P3 P4 P5|P1 P2 P3 P4|P1 P2 P3 P4]; [eapply PhBody|apply PhEnd|apply PhPast]; cbn; eauto.
Qed.
Lemma R_skip q1 q2 : R q1 q2 -> R (skip q1) (skip q2).
Proof.
  intros (A & B & C & D & E & G & H & P & K). unfold R; cbn. repeat split; auto.
  destruct P as [l P1 P2 P3 P4 P5|P1 P2 P3 P4|P1 P2 P3 P4].
  - eapply PhBody; cbn; eauto. intros t Ht; discriminate.
  - apply PhPast; cbn; auto.
  - apply PhPast; cbn; auto.
Qed.
Lemma R_set_tags q1 q2 t : R q1 q2 -> R (set_tags q1 t) (set_tags q2 t).
Proof.
  intros (A & B & C & D & E & G & H & P & K). unfold R; cbn. repeat split; auto.
  destruct P as [l P1 P2 P3 P4 P5|P1 P2 P3 P4|P1 P2 P3 P4]; [eapply PhBody|apply PhEnd|apply PhPast]; cbn; eauto.
Qed.
Lemma R_set_anchors q1 q2 a n : R q1 q2 -> R (set_anchors q1 a n) (set_anchors q2 a n).
Proof.
  intros (A & B & C & D & E & G & H & P & K). unfold R; cbn. repeat split; auto.
  destruct P as [l P1 P2 P3 P4 P5|P1 P2 P3 P4|P1 P2 P3 P4]; [eapply PhBody|apply PhEnd|apply PhPast]; cbn; eauto.
Qed.
Lemma R_register_anchor q1 q2 name :
  R q1 q2 -> fst (register_anchor q2 name) = fst (register_anchor q1 name)
             /\ R (snd (register_anchor q1 name)) (snd (register_anchor q2 name)).
Proof.
  intros HR. pose proof HR as (A & B & C & D & E & G & H & P & K). unfold register_anchor; cbn [fst snd].
  split; [exact D|]. rewrite C, D. apply R_set_anchors. exact HR.
Qed.
Lemma R_resolve_tag q1 q2 m h s : R q1 q2 -> resolve_tag q2 m h s = resolve_tag q1 m h s.
Proof. intros (A & B & C & D & E & _). unfold resolve_tag. rewrite E. reflexivity. Qed.

Lemma R_pop q1 q2 q1' : R q1 q2 -> pop_state q1 = Ok q1' ->
  exists q2', pop_state q2 = Ok q2' /\ R q1' q2' /\ okst (p_state q1').
Proof.
  intros (A & B & C & D & E & G & H & P & K). unfold pop_state.
  destruct (p_states q1) as [|s1 r1] eqn:E1; [discriminate|]. intros X; inversion X; subst; clear X.
  inversion B as [|? s2 ? r2 HS HB E2 E3]; subst. eexists; split; [reflexivity|].
  inversion K; subst. split; [|cbn; assumption].
  unfold R; cbn. repeat split; auto.
  destruct P as [l P1 P2 P3 P4 P5|P1 P2 P3 P4|P1 P2 P3 P4]; [eapply PhBody|apply PhEnd|apply PhPast]; cbn; eauto.
Qed.

Lemma peek_R p1 p2 t1 q1 : R p1 p2 -> peek p1 = Ok (t1, q1) ->
  exists t2 q2, peek p2 = Ok (t2, q2) /\ R q1 q2 /\ p_state q1 = p_state p1 /\ p_token q1 = Some t1
                /\ p_token q2 = Some t2 /\ ((t2 = t1 /\ nonSE t1) \/ (t1 = se /\ t2 = de)).
Proof.
  intros HR. pose proof HR as (A & B & C & D & E & G & H & P & K). unfold peek.
  destruct P as [l P1 P2 P3 P4 P5|P1 P2 P3 P4|P1 P2 P3 P4].
  - rewrite P1. destruct (p_token p1) as [t|] eqn:ET.
    + intros X; inversion X; subst. exists t1, p2.
      split; [reflexivity|]. split; [exact HR|]. split; [reflexivity|]. split; [exact ET|]. split; [exact P1|].
      left. split; [reflexivity|apply P2; reflexivity].
    + rewrite P4, P5. destruct l as [|t l']; cbn [app]; intros X; inversion X; subst; clear X.
      * exists de, (set_tok p2 rest (Some de)).
        split; [reflexivity|]. split; [|split; [reflexivity|split; [reflexivity|split; [reflexivity|right; auto]]]].
        unfold R; cbn. repeat split; auto. apply PhEnd; reflexivity.
      * inversion P3; subst. exists t1, (set_tok p2 (l' ++ de :: rest) (Some t1)).
        split; [reflexivity|]. split; [|split; [reflexivity|split; [reflexivity|split; [reflexivity|left; auto]]]].
        unfold R; cbn. repeat split; auto. eapply PhBody; cbn; eauto. intros t Ht; inversion Ht; subst; assumption.
  - rewrite P1, P2. intros X; inversion X; subst. exists de, p2.
    split; [reflexivity|]. split; [exact HR|]. split; [reflexivity|]. split; [exact P1|]. split; [exact P2|]. right; auto.
  - rewrite P1, P3. discriminate.
Qed.

Lemma R_toks_len p1 p2 : R p1 p2 -> (length (p_toks p1) <= length (p_toks p2))%nat.
Proof.
  intros (_ & _ & _ & _ & _ & _ & _ & P & _).
  destruct P as [l P1 P2 P3 P4 P5|P1 P2 P3 P4|P1 P2 P3 P4]; rewrite ?P3, ?P4, ?P5, ?app_length; cbn; lia.
Qed.

(* ---- tactics ---- *)
Ltac st_eq_tac := first [apply st_eq_refl | apply st_eq_fsem].
Ltac okst_tac := unfold okst; repeat split; discriminate.
Ltac solveR1 :=
  match goal with
  | H : R ?a ?b |- R ?a ?b => exact H
  | |- R (skip _) (skip _) => apply R_skip
  | |- R (set_state _ _) (set_state _ _) => apply R_set_state; [|st_eq_tac]
  | |- R (push_state _ _) (push_state _ _) => apply R_push_state; [|st_eq_tac|okst_tac]
  | |- R (set_tags _ _) (set_tags _ _) => apply R_set_tags
  | |- R (set_anchors _ _ _) (set_anchors _ _ _) => apply R_set_anchors
  end.
Ltac solveR := repeat solveR1.
Ltac dl_tac := first [apply DL_okst; assumption | (unfold DL; cbn; split; [discriminate|exact I])].

(* one peek on both sides *)
Ltac rpeek :=
  match goal with
  | Ht1 : p_token ?a = Some ?t1, Ht2 : p_token ?b = Some ?t2 |- RR ?X ?Y =>
    match X with context [peek a] =>
    match Y with context [peek b] =>
      rewrite (peek_cached a t1 Ht1), (peek_cached b t2 Ht2); cbv beta iota
    end end
  | |- RR ?X ?Y =>
    match X with context [peek ?a] =>
    match Y with context [peek ?b] =>
      let HR := fresh "HR" in let E1 := fresh "E" in let E2 := fresh "E" in
      let t1 := fresh "t" in let q1 := fresh "q" in let t2 := fresh "t" in let q2 := fresh "q" in
      let Hs := fresh "Hs" in let Ht := fresh "Ht" in let Ht' := fresh "Ht" in let Hn := fresh "Hn" in
      let sp := fresh "sp" in let tk := fresh "tk" in
      assert (HR : R a b) by solveR;
      destruct (peek a) as [[t1 q1]| |] eqn:E1; [|cbv beta iota; apply RR_err|cbv beta iota; apply RR_panic];
      destruct (peek_R _ _ _ _ HR E1) as (t2 & q2 & E2 & ? & Hs & Ht & Ht' & [[-> Hn]|[-> ->]]); rewrite E2; clear E2;
      [ destruct t1 as [sp tk]; cbv beta iota;
        try match goal with |- context [match tk with _ => _ end] =>
              destruct tk; try (exfalso; apply Hn; reflexivity); cbv beta iota end
      | cbv beta iota ]
    end end
  end.
Ltac rleaf := apply RR_ok; [solveR|dl_tac].

Lemma RR_pop q1 q2 e sp1 sp2 (k : parser -> parser) :
  R q1 q2 -> (forall a b, R a b -> R (k a) (k b)) -> (forall a, p_state (k a) = p_state a) ->
  RR (do p <- pop_state q1; Ok ((e, sp1), k p)) (do p <- pop_state q2; Ok ((e, sp2), k p)).
Proof.
  intros HR Hk Hs. destruct (pop_state q1) as [q1'| |] eqn:E; [|apply RR_err|apply RR_panic].
  destruct (R_pop _ _ _ HR E) as (q2' & -> & HR' & HO). apply RR_ok; [apply Hk; exact HR'|].
  apply DL_okst. rewrite Hs. exact HO.
Qed.
Ltac rpop :=
  first [ apply (RR_pop _ _ _ _ _ (fun p => p)); [solveR|auto|auto]
        | apply (RR_pop _ _ _ _ _ skip); [solveR|exact R_skip|reflexivity] ].

(* ---- parse_node ---- *)
Lemma empty_or_err_R q1 q2 aid tg sp1 sp2 : R q1 q2 -> RR (empty_or_err q1 aid tg sp1) (empty_or_err q2 aid tg sp2).
Proof. intros HR. unfold empty_or_err. destruct (has_props aid tg); [rpop|apply RR_err]. Qed.

Lemma node_content_R q1 q2 aid tg b i : R q1 q2 -> RR (node_content q1 aid tg b i) (node_content q2 aid tg b i).
Proof.
  intros HR. unfold node_content. rpeek; try (apply empty_or_err_R; assumption); try rleaf.
  - destruct b; [rleaf|apply empty_or_err_R; assumption].
  - destruct b; [rleaf|apply empty_or_err_R; assumption].
  - destruct i; [rleaf|apply empty_or_err_R; assumption].
  - rpop.
Qed.

Definition RP (r1 r2 : res (N * option tag * parser)) : Prop :=
  forall aid tg q1, r1 = Ok (aid, tg, q1) -> exists q2, r2 = Ok (aid, tg, q2) /\ R q1 q2.

Ltac rp_leaf := intros ?aid ?tg ?q ?H; first [discriminate | match goal with H : _ = Ok _ |- _ => inversion H; subst end; eexists; split; [reflexivity|solveR]].
Lemma node_props_R q1 q2 t1 t2 : R q1 q2 -> ((t2 = t1 /\ nonSE t1) \/ (t1 = se /\ t2 = de)) ->
  RP (node_props q1 t1) (node_props q2 t2).
Proof.
  intros HR [[-> Hn]|[-> ->]]; [|rp_leaf].
  unfold node_props. destruct t1 as [sp tk]. destruct tk; try (rp_leaf; fail).
  - (* anchor *)
    destruct (R_register_anchor _ _ n (R_skip _ _ HR)) as [EF ER].
    destruct (register_anchor (skip q1) n) as [id1 r1]. destruct (register_anchor (skip q2) n) as [id2 r2].
    cbn [fst snd] in EF, ER. subst id2.
    destruct (peek r1) as [[t1 r1']| |] eqn:E1; [|intros ? ? ? H; discriminate|intros ? ? ? H; discriminate].
    destruct (peek_R _ _ _ _ ER E1) as (t2 & r2' & -> & HR' & _ & _ & _ & [[-> Hn']|[-> ->]]);
      [|rp_leaf].
    destruct t1 as [sp2 tk2]. destruct tk2; try (rp_leaf; fail).
    rewrite (R_resolve_tag _ _ _ _ _ (R_skip _ _ HR')).
    destruct (resolve_tag (skip r1') (sp_start sp) h s); rp_leaf.
  - (* tag *)
    rewrite (R_resolve_tag _ _ _ _ _ (R_skip _ _ HR)).
    destruct (resolve_tag (skip q1) (sp_start sp) h s) as [tg0| |]; [|intros ? ? ? H; discriminate|intros ? ? ? H; discriminate].
    destruct (peek (skip q1)) as [[t1 r1']| |] eqn:E1; [|intros ? ? ? H; discriminate|intros ? ? ? H; discriminate].
    destruct (peek_R _ _ _ _ (R_skip _ _ HR) E1) as (t2 & r2' & -> & HR' & _ & _ & _ & [[-> Hn']|[-> ->]]);
      [|rp_leaf].
    destruct t1 as [sp2 tk2]. destruct tk2; try (rp_leaf; fail).
    destruct (R_register_anchor _ _ n (R_skip _ _ HR')) as [EF ER].
    destruct (register_anchor (skip r1') n) as [id1 x1]. destruct (register_anchor (skip r2') n) as [id2 x2].
    cbn [fst snd] in EF, ER. subst id2. rp_leaf.
Qed.

Lemma parse_node_R q1 q2 b i : R q1 q2 -> RR (parse_node q1 b i) (parse_node q2 b i).
Proof.
  intros HR0. unfold parse_node.
  destruct (peek q1) as [[t1 r1]| |] eqn:E1; [|apply RR_err|apply RR_panic].
  destruct (peek_R _ _ _ _ HR0 E1) as (t2 & r2 & -> & HR & _ & _ & _ & Hc).
  assert (G : RR (do (aid, tg, p) <- node_props r1 t1; node_content p aid tg b i)
                 (do (aid, tg, p) <- node_props r2 t2; node_content p aid tg b i)).
  { pose proof (node_props_R _ _ _ _ HR Hc) as HP.
    destruct (node_props r1 t1) as [[[aid tg] x1]| |]; [|apply RR_err|apply RR_panic].
    destruct (HP _ _ _ eq_refl) as (x2 & -> & HX). apply node_content_R. exact HX. }
  destruct Hc as [[-> Hn]|[-> ->]]; [|exact G].
  destruct t1 as [sp tk]. destruct tk; try exact G.
  (* alias *)
  destruct (pop_state r1) as [x1| |] eqn:EP; [|apply RR_err|apply RR_panic].
  destruct (R_pop _ _ _ HR EP) as (x2 & -> & HX & HO).
  pose proof HX as (_ & _ & EA & _). cbn [p_anchors skip set_tok]. rewrite EA.
  destruct (assoc n (p_anchors x1)); [|apply RR_err]. apply RR_ok; [apply R_skip; exact HX|apply DL_okst; exact HO].
Qed.

Ltac rnode := apply parse_node_R; solveR.
Ltac rauto1 :=
  lazymatch goal with
  | |- RR (Ok _) (Ok _) => rleaf
  | |- RR (Err _) _ => apply RR_err
  | |- RR (parse_node _ _ _) (parse_node _ _ _) => rnode
  | |- RR (match pop_state _ with _ => _ end) _ => rpop
  | |- RR _ _ => rpeek
  end.
Ltac rauto := repeat rauto1.

Lemma block_mapping_key_R p1 p2 first : R p1 p2 -> RR (block_mapping_key p1 first) (block_mapping_key p2 first).
Proof. intros HR. unfold block_mapping_key. destruct first; cbv beta iota; rauto. Qed.
Lemma block_mapping_value_R p1 p2 : R p1 p2 -> RR (block_mapping_value p1) (block_mapping_value p2).
Proof. intros HR. unfold block_mapping_value. rauto. Qed.
Lemma flow_mapping_key_R p1 p2 first : R p1 p2 -> RR (flow_mapping_key p1 first) (flow_mapping_key p2 first).
Proof. intros HR. unfold flow_mapping_key. destruct first; cbv beta iota; rauto. Qed.
Lemma flow_mapping_value_R p1 p2 empty : R p1 p2 -> RR (flow_mapping_value p1 empty) (flow_mapping_value p2 empty).
Proof. intros HR. unfold flow_mapping_value. destruct empty; cbv beta iota; rauto. Qed.
Lemma flow_sequence_entry_R p1 p2 first : R p1 p2 -> RR (flow_sequence_entry p1 first) (flow_sequence_entry p2 first).
Proof. intros HR. unfold flow_sequence_entry. destruct first; cbv beta iota; rauto. Qed.
Lemma indentless_sequence_entry_R p1 p2 : R p1 p2 -> RR (indentless_sequence_entry p1) (indentless_sequence_entry p2).
Proof. intros HR. unfold indentless_sequence_entry. rauto. Qed.
Lemma block_sequence_entry_R p1 p2 first : R p1 p2 -> RR (block_sequence_entry p1 first) (block_sequence_entry p2 first).
Proof. intros HR. unfold block_sequence_entry. destruct first; cbv beta iota; rauto. Qed.
Lemma fsem_key_R p1 p2 : R p1 p2 -> RR (flow_sequence_entry_mapping_key p1) (flow_sequence_entry_mapping_key p2).
Proof. intros HR. unfold flow_sequence_entry_mapping_key. rauto. Qed.
Lemma fsem_value_R p1 p2 : R p1 p2 -> RR (flow_sequence_entry_mapping_value p1) (flow_sequence_entry_mapping_value p2).
Proof. intros HR. unfold flow_sequence_entry_mapping_value. rauto. Qed.
Lemma stream_start_R p1 p2 : R p1 p2 -> DL p1 -> p_state p1 = SStreamStart -> RR (stream_start p1) (stream_start p2).
Proof.
  intros HR HD ES. unfold stream_start. rpeek; try apply RR_err.
  apply RR_ok; [solveR|]. unfold DL in *. rewrite ES in HD. cbn. split; [discriminate|].
  apply peek_other_fields in E. destruct E as (EA & ET & _). rewrite EA, ET. apply HD.
Qed.


(* ================================================================================================ *)
(* the document-level states: here StreamEnd and DocumentEnd differ                                  *)
(* ================================================================================================ *)
Definition restp (p : parser) : parser := set_tok p rest None.
(* the parser at the boundary: about to start the documents of [rest] with nothing left of the earlier ones *)
Definition pB (stk : list pstate) (n : N) : parser :=
  {| p_toks := rest; p_token := None; p_states := stk; p_state := SImplicitDocumentStart;
     p_anchors := []; p_anchor_id := n; p_tags := []; p_keep_tags := false |}.

Lemma restp_peek p t q : peek p = Ok (t, q) -> restp q = restp p.
Proof.
  unfold peek. destruct (p_token p); [intros H; inversion H; reflexivity|].
  destruct (p_toks p); [discriminate|]. intros H; inversion H; reflexivity.
Qed.

Lemma process_directives_R f1 : forall p1 p2 vs tags q1 f2,
  R p1 p2 -> process_directives f1 p1 vs tags = Ok q1 -> (f1 <= f2)%nat ->
  exists q2, process_directives f2 p2 vs tags = Ok q2 /\ R q1 q2 /\ p_state q1 = p_state p1.
Proof.
  induction f1 as [|f1 IH]; intros p1 p2 vs tags q1 f2 HR H Hf; [discriminate|].
  destruct f2 as [|f2]; [lia|]. cbn [process_directives] in *.
  destruct (peek p1) as [[t1 x1]| |] eqn:E1; try discriminate.
  destruct (peek_R _ _ _ _ HR E1) as (t2 & x2 & -> & HX & Hs & _ & _ & Hc).
  assert (ET : p_tags x2 = p_tags x1) by apply HX.
  destruct Hc as [[-> Hn]|[-> ->]].
  - destruct t1 as [sp tk]. destruct tk;
      try (inversion H; subst; eexists; split; [rewrite ET; reflexivity|split; [apply R_set_tags; exact HX|exact Hs]]).
    + destruct vs; [discriminate|]. destruct (IH _ _ _ _ _ f2 (R_skip _ _ HX) H ltac:(lia)) as (q2 & E & HQ & HS).
      exists q2. split; [exact E|]. split; [exact HQ|]. rewrite HS. exact Hs.
    + destruct (_ && _); [discriminate|]. destruct (IH _ _ _ _ _ f2 (R_skip _ _ HX) H ltac:(lia)) as (q2 & E & HQ & HS).
      exists q2. split; [exact E|]. split; [exact HQ|]. rewrite HS. exact Hs.
  - inversion H; subst. eexists; split; [rewrite ET; reflexivity|split; [apply R_set_tags; exact HX|exact Hs]].
Qed.

Lemma sde_fuel f : forall f' p, (tmeasure p < f)%nat -> (tmeasure p < f')%nat ->
  skip_document_ends f p = skip_document_ends f' p.
Proof.
  induction f as [|f IH]; intros f' p H H'; [lia|]. destruct f' as [|f']; [lia|]. cbn [skip_document_ends].
  destruct (peek p) as [[[sp tk] q]| |] eqn:E; try reflexivity. destruct tk; try reflexivity.
  pose proof (peek_measure _ _ _ E) as [M T]. pose proof (skip_measure q _ T). apply IH; lia.
Qed.

Lemma sde_R f1 : forall p1 p2 q1 f2,
  R p1 p2 -> skip_document_ends f1 p1 = Ok q1 -> (tmeasure p2 < f2)%nat ->
  (exists q2, skip_document_ends f2 p2 = Ok q2 /\ R q1 q2 /\ p_state q1 = p_state p1
              /\ exists t, p_token q1 = Some t /\ p_token q2 = Some t /\ nonSE t /\ snd t <> TDocumentEnd)
  \/ (p_token q1 = Some se /\ p_state q1 = p_state p1 /\ p_anchor_id q1 = p_anchor_id p1
      /\ exists f2', skip_document_ends f2 p2 = skip_document_ends f2' (restp p2) /\ (length rest < f2')%nat).
Proof.
  induction f1 as [|f1 IH]; intros p1 p2 q1 f2 HR H Hf; [discriminate|].
  destruct f2 as [|f2]; [lia|]. cbn [skip_document_ends] in *.
  destruct (peek p1) as [[t1 x1]| |] eqn:E1; try discriminate.
  destruct (peek_R _ _ _ _ HR E1) as (t2 & x2 & E2 & HX & Hs & Ht & Ht' & Hc). rewrite E2.
  pose proof (peek_measure _ _ _ E2) as [M2 T2]. pose proof (peek_other_fields _ _ _ E1) as (_ & _ & EI & _).
  destruct Hc as [[-> Hn]|[-> ->]].
  - destruct t1 as [sp tk].
    destruct tk; try (inversion H; subst; left; exists x2; split; [reflexivity|]; split; [exact HX|]; split; [exact Hs|];
                      eexists; split; [exact Ht|]; split; [exact Ht'|]; split; [exact Hn|discriminate]).
    (* a DocumentEnd token of the first stream: skipped on both sides *)
    pose proof (skip_measure x2 _ T2) as M3.
    destruct (IH _ _ _ f2 (R_skip _ _ HX) H ltac:(lia)) as [(q2 & E & HQ & HS & HT)|(A1 & A2 & A3 & f2' & A4 & A5)].
    + left. exists q2. split; [exact E|]. split; [exact HQ|]. split; [rewrite HS; exact Hs|exact HT].
    + right. split; [exact A1|]. split; [rewrite A2; exact Hs|]. split; [rewrite A3; exact EI|].
      exists f2'. split; [|exact A5]. rewrite A4. f_equal.
      transitivity (restp x2); [reflexivity|apply (restp_peek _ _ _ E2)].
  - inversion H; subst. right. split; [exact Ht|]. split; [exact Hs|]. split; [exact EI|].
    exists f2. split; [|].
    + f_equal. pose proof HX as (_ & _ & _ & _ & _ & _ & _ & P & _).
      destruct P as [l P1 P2 P3 P4 P5|P1 P2 P3 P4|P1 P2 P3 P4]; [|clear P1|congruence].
      * exfalso. apply (P2 _ Ht). reflexivity.
      * transitivity (restp x2); [unfold skip, restp; rewrite P4; reflexivity|apply (restp_peek _ _ _ E2)].
    + pose proof HX as (_ & _ & _ & _ & _ & _ & _ & P & _).
      destruct P as [l P1 P2 P3 P4 P5|P1 P2 P3 P4|P1 P2 P3 P4]; [exfalso; apply (P2 _ Ht); reflexivity| |congruence].
      unfold tmeasure in *. rewrite P4, P2 in M2. lia.
Qed.

Lemma sde_cached f p t : p_token p = Some t -> snd t <> TDocumentEnd -> skip_document_ends (S f) p = Ok p.
Proof.
  intros Ht Hn. cbn [skip_document_ends]. rewrite (peek_cached _ _ Ht). destruct t as [sp tk]. destruct tk; try reflexivity.
  exfalso; apply Hn; reflexivity.
Qed.

Lemma explicit_document_start_R p1 p2 : R p1 p2 -> RR (explicit_document_start p1) (explicit_document_start p2).
Proof.
  intros HR. unfold explicit_document_start.
  destruct (process_directives _ p1 false []) as [x1| |] eqn:EP; [|apply RR_err|apply RR_panic].
  destruct (process_directives_R _ _ _ _ _ _ (S (S (length (p_toks p2)))) HR EP) as (x2 & -> & HX & _).
  { pose proof (R_toks_len _ _ HR). lia. }
  rauto.
Qed.

Lemma document_start_R p1 p2 imp e sp p1' :
  R p1 p2 ->
  (imp = false -> exists t, p_token p1 = Some t /\ snd t <> TDocumentEnd /\ snd t <> TStreamEnd) ->
  document_start p1 imp = Ok ((e, sp), p1') ->
  (exists sp' p2', document_start p2 imp = Ok ((e, sp'), p2') /\ R p1' p2' /\ DL p1')
  \/ (imp = true /\ e = EStreamEnd /\ sp = sps /\ p_state p1' = SEnd /\ p_anchor_id p1' = p_anchor_id p1
      /\ document_start p2 imp = document_start (restp p2) imp).
Proof.
  intros HR Himp. unfold document_start.
  destruct (skip_document_ends _ p1) as [x1| |] eqn:ES; try discriminate.
  destruct (sde_R _ _ _ _ (S (S (length (p_toks p2)))) HR ES (tmeasure_bound p2))
    as [(x2 & -> & HX & Hs & t & Ht1 & Ht2 & Hn & Hd)|(A1 & A2 & A3 & f2' & A4 & A5)].
  - (* the next token belongs to the first stream *)
    intros H. left. revert e sp p1' H.
    change (RR (do (t, p) <- peek x1;
                match t with
                | (sp, TStreamEnd) => Ok ((EStreamEnd, sp), skip (set_state p SEnd))
                | (_, TVersionDirective _ _) | (_, TTagDirective _ _) | (_, TDocumentStart) => explicit_document_start p
                | (sp, _) => if imp
                             then do p <- process_directives (S (S (length (p_toks p)))) p false [];
                                  Ok ((EDocumentStart false, sp), set_state (push_state p SDocumentEnd) SBlockNode)
                             else explicit_document_start p
                end)
               (do (t, p) <- peek x2;
                match t with
                | (sp, TStreamEnd) => Ok ((EStreamEnd, sp), skip (set_state p SEnd))
                | (_, TVersionDirective _ _) | (_, TTagDirective _ _) | (_, TDocumentStart) => explicit_document_start p
                | (sp, _) => if imp
                             then do p <- process_directives (S (S (length (p_toks p)))) p false [];
                                  Ok ((EDocumentStart false, sp), set_state (push_state p SDocumentEnd) SBlockNode)
                             else explicit_document_start p
                end)).
    rewrite (peek_cached _ _ Ht1), (peek_cached _ _ Ht2). cbv beta iota.
    destruct t as [spt tk].
    destruct tk; try (exfalso; apply Hn; reflexivity); try (apply explicit_document_start_R; exact HX);
      (destruct imp; [|apply explicit_document_start_R; exact HX]);
      (destruct (process_directives _ x1 false []) as [y1| |] eqn:EP; [|apply RR_err|apply RR_panic]);
      (destruct (process_directives_R _ _ _ _ _ _ (S (S (length (p_toks x2)))) HX EP) as (y2 & -> & HY & _);
        [pose proof (R_toks_len _ _ HX); lia|]); rleaf.
  - (* the first stream is over *)
    assert (Ei : imp = true).
    { destruct imp; [reflexivity|]. destruct (Himp eq_refl) as (t & Ht & Hd & Hn).
      rewrite (sde_cached _ _ _ Ht Hd) in ES. inversion ES; subst. rewrite Ht in A1. inversion A1; subst. exfalso; apply Hn; reflexivity. }
    rewrite (peek_cached _ _ A1). cbv beta iota. intros H; inversion H; subst. right.
    split; [reflexivity|]. split; [reflexivity|]. split; [reflexivity|]. split; [reflexivity|]. split; [exact A3|]. rewrite A4.
    cbn [p_toks restp set_tok].
    rewrite (sde_fuel f2' (S (S (length rest))) (restp p2)); [reflexivity| |]; unfold tmeasure; cbn; lia.
Qed.

Lemma document_content_R p1 p2 : R p1 p2 -> RR (document_content p1) (document_content p2).
Proof. intros HR. unfold document_content. rauto. Qed.

Lemma document_end_R p1 p2 e sp p1' :
  R p1 p2 -> document_end p1 = Ok ((e, sp), p1') ->
  (exists sp' p2', document_end p2 = Ok ((e, sp'), p2') /\ R p1' p2' /\ DL p1')
  \/ (e = EDocumentEnd /\ p_state p1' = SDocumentStart /\ p_token p1' = Some se
      /\ p_anchor_id p1' = p_anchor_id p1 /\ p_states p1' = p_states p1
      /\ exists sp', document_end p2 = Ok ((EDocumentEnd, sp'), pB (p_states p2) (p_anchor_id p2))).
Proof.
  intros HR. rewrite !document_end_eq.
  destruct (peek p1) as [[t1 x1]| |] eqn:E1; try discriminate.
  destruct (peek_R _ _ _ _ HR E1) as (t2 & x2 & E2 & HX & Hs & Ht & Ht' & Hc). rewrite E2.
  pose proof HX as (_ & _ & EA & EI & ET & K1 & K2 & P & _).
  pose proof (peek_other_fields _ _ _ E1) as (_ & _ & EI1 & _). pose proof (peek_fields _ _ _ E1) as (_ & ES1).
  pose proof (peek_other_fields _ _ _ E2) as (_ & _ & EI2 & _). pose proof (peek_fields _ _ _ E2) as (_ & ES2).
  destruct Hc as [[-> Hn]|[-> ->]].
  - destruct t1 as [sp0 tk].
    destruct tk; try (exfalso; apply Hn; reflexivity); unfold doc_end_tail; cbn [p_keep_tags skip set_tok p_anchor_id];
      rewrite K1, K2, EI.
    all: try (intros H; inversion H; subst; left; eexists _, _; split; [reflexivity|split; [solveR|unfold DL; cbn; split; [discriminate|auto]]]; fail).
    all: pose proof Ht as C1; pose proof Ht' as C2;
         change (p_token x1) with (p_token (set_anchors (set_tags x1 []) [] (p_anchor_id x1))) in C1;
         change (p_token x2) with (p_token (set_anchors (set_tags x2 []) [] (p_anchor_id x1))) in C2;
         rewrite (peek_cached _ _ C1), (peek_cached _ _ C2); cbv beta iota; intros H;
         first [ discriminate H
               | inversion H; subst; left; eexists _, _; (split; [reflexivity|split; [solveR|]]);
                 unfold DL; cbn; split; [discriminate|]; repeat split; auto; eexists; repeat split; [eassumption|discriminate|discriminate] ].
  - unfold doc_end_tail; cbn [p_keep_tags skip set_tok p_anchor_id]. rewrite K1, K2.
    assert (C1 : p_token (set_anchors (set_tags x1 []) [] (p_anchor_id x1)) = Some se) by exact Ht.
    rewrite (peek_cached _ _ C1). cbv beta iota. intros H; inversion H; subst. right.
    split; [reflexivity|]. split; [reflexivity|]. split; [exact Ht|]. split; [exact EI1|]. split; [exact ES1|].
    eexists. f_equal. f_equal.
    destruct P as [l P1 P2 P3 P4 P5|P1 P2 P3 P4|P1 P2 P3 P4]; [exfalso; apply (P2 _ Ht); reflexivity| |congruence].
    rewrite <- ES2, <- EI2. unfold pB. clear - P4 K2. destruct x2; cbn in *. subst. reflexivity.
Qed.

Theorem sim_step p1 p2 e sp p1' :
  R p1 p2 -> DL p1 -> state_machine p1 = Ok ((e, sp), p1') ->
  (exists sp' p2', state_machine p2 = Ok ((e, sp'), p2') /\ R p1' p2' /\ DL p1')
  \/ (e = EStreamEnd /\ sp = sps /\ p_state p1 = SImplicitDocumentStart /\ p_state p1' = SEnd
      /\ p_anchor_id p1' = p_anchor_id p1 /\ state_machine p2 = state_machine (restp p2))
  \/ (e = EDocumentEnd /\ p_state p1 = SDocumentEnd /\ p_state p1' = SDocumentStart /\ p_token p1' = Some se
      /\ p_anchor_id p1' = p_anchor_id p1 /\ p_states p1' = p_states p1
      /\ exists sp', state_machine p2 = Ok ((EDocumentEnd, sp'), pB (p_states p2) (p_anchor_id p2))).
Proof.
  intros HR HD0. pose proof HR as (A & _). unfold state_machine. pose proof HD0 as [_ HD]. 
  destruct (p_state p1) eqn:ES; cbn [st_eq] in A;
    try (rewrite A; intros H; left;
         first [ apply (stream_start_R _ _ HR) in H; [exact H|exact HD0|exact ES]
               | apply (document_content_R _ _ HR) in H; exact H
               | apply (parse_node_R _ _ _ _ HR) in H; exact H
               | apply (block_mapping_key_R _ _ _ HR) in H; exact H
               | apply (block_mapping_value_R _ _ HR) in H; exact H
               | apply (block_sequence_entry_R _ _ _ HR) in H; exact H
               | apply (indentless_sequence_entry_R _ _ HR) in H; exact H
               | apply (flow_sequence_entry_R _ _ _ HR) in H; exact H
               | apply (flow_mapping_key_R _ _ _ HR) in H; exact H
               | apply (flow_mapping_value_R _ _ _ HR) in H; exact H
               | apply (fsem_key_R _ _ HR) in H; exact H
               | apply (fsem_value_R _ _ HR) in H; exact H ]; fail).
  - (* implicit document start *)
    rewrite A. intros H. apply (document_start_R _ _ _ _ _ _ HR) in H; [|discriminate].
    destruct H as [H|(_ & E1 & E1' & E2 & E3 & E4)]; [left; exact H|right; left].
    split; [exact E1|]. split; [exact E1'|]. split; [reflexivity|]. split; [exact E2|]. split; [exact E3|].
    cbn [p_state restp set_tok]. rewrite ?A. exact E4.
  - (* explicit document start: the next token is cached and belongs to the first stream *)
    rewrite A. intros H. apply (document_start_R _ _ _ _ _ _ HR) in H; [|intros _; apply HD].
    destruct H as [H|(E0 & _)]; [left; exact H|discriminate].
  - (* document end *)
    rewrite A. intros H. apply (document_end_R _ _ _ _ _ HR) in H.
    destruct H as [H|(H1 & H2)]; [left; exact H|right; right; split; [exact H1|split; [reflexivity|exact H2]]].
  - (* the state that stores a marker *)
    destruct A as [m' ->]. unfold flow_sequence_entry_mapping_end. intros H; inversion H; subst. left.
    eexists _, _. split; [reflexivity|]. split; [solveR|unfold DL; cbn; split; [discriminate|exact I]].
  - discriminate.
Qed.

End Sim.
