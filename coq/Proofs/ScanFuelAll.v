(* C01, bounded work: the nine character-level fuel contracts (ScanFuelPrim/Dir/Flow/Plain/Block.v) plugged into the
   skeleton and top-level theorems of ScanFuelTop.v.  Nothing is proved here but the instantiation. *)
From Coq Require Import List NArith Bool.
Import ListNotations.
Require Import Parser SBase SFetch Pipe ScanFuel ScanFuelFetch ScanFuelTop.
Require ScanFuelPrim ScanFuelDir ScanFuelFlow ScanFuelPlain ScanFuelBlock ScanSafeStrTop.
Local Open Scope nat_scope.

Definition H_ws := ScanFuelPrim.skip_ws_to_eol_ok.

Lemma scanner_never_out_of_fuel : forall orig : list chr,
  let F := 2 * length orig + 10 in
  snd (scan_all str_ops F (4 * F + 20) (init_sc {| si_chars := orig; si_look := 0 |}) []) <> SFuel.
Proof.
  exact (scan_all_never_out_of_fuel ScanFuelPrim.skip_to_next_token_ok H_ws ScanFuelPrim.skip_yaml_whitespace_ok
    (ScanFuelDir.scan_directive_ok H_ws) ScanFuelDir.scan_tag_ok ScanFuelDir.scan_anchor_ok
    (ScanFuelFlow.scan_flow_scalar_ok H_ws) ScanFuelPlain.scan_plain_scalar_ok (ScanFuelBlock.scan_block_scalar_ok H_ws)).
Qed.

Lemma pipeline_never_out_of_fuel : forall orig : list N, snd (run_str orig) <> PFuel.
Proof.
  exact (run_str_never_out_of_fuel ScanFuelPrim.skip_to_next_token_ok H_ws ScanFuelPrim.skip_yaml_whitespace_ok
    (ScanFuelDir.scan_directive_ok H_ws) ScanFuelDir.scan_tag_ok ScanFuelDir.scan_anchor_ok
    (ScanFuelFlow.scan_flow_scalar_ok H_ws) ScanFuelPlain.scan_plain_scalar_ok (ScanFuelBlock.scan_block_scalar_ok H_ws)).
Qed.

Lemma fetch_next_token_progress : forall (F : nat) (s : fst_), fuel_ok F s -> fwp (fetch_next_token str_ops F) (fnt_post s) s.
Proof.
  exact (fetch_next_token_never_out_of_fuel ScanFuelPrim.skip_to_next_token_ok H_ws ScanFuelPrim.skip_yaml_whitespace_ok
    (ScanFuelDir.scan_directive_ok H_ws) ScanFuelDir.scan_tag_ok ScanFuelDir.scan_anchor_ok
    (ScanFuelFlow.scan_flow_scalar_ok H_ws) ScanFuelPlain.scan_plain_scalar_ok (ScanFuelBlock.scan_block_scalar_ok H_ws)).
Qed.

(* total correctness of the string pipeline: every run ends properly *)
Definition proper_pend (e : pend) : Prop :=
  match e with PDone | PScanErr _ _ | PParseErr _ _ => True | PPanic _ | PFuel => False end.
Lemma pipeline_ends_properly : forall orig : list N, proper_pend (snd (run_str orig)).
Proof.
  intros orig. pose proof (pipeline_never_out_of_fuel orig) as NF.
  pose proof (ScanSafeStrTop.pipeline_never_panics_str orig) as NP.
  destruct (snd (run_str orig)); cbn; auto. exact (NP _ eq_refl).
Qed.
