(* C15 tail independence of the scanner (see ScanShift.v): the family of QUOTED (flow) SCALARS (Model/SScalar.v) under
   the state relation [SH d] of ScanShift.v.

     scan_flow_scalar_ok : forall d, shf_scan_flow_scalar d

   Mechanical port of ScanBrkFlow.v ([d : shift] in the place of [md]).  The one test that looks at a LINE - the
   implicit-key check  m_line start =? m_line (current mark)  at the closing quote - compares two marks of the same
   side; both are shifted by [sh_l d] ([shift_eqb]).  The alignment premises inherited from ScanBrkFlow.v are not
   needed for the shift (see the header of ScanShift.v).  TWO fuels everywhere. *)
From Coq Require Import List NArith ZArith Bool Arith Lia.
Import ListNotations.
Require Import Parser SBase SPrim SDir SScalar SFetch ScanShift ScanShiftPrim.
Local Open Scope nat_scope.

(* ---------------- the main loop of scan_flow_scalar as a top-level Fixpoint ---------------- *)
Section Loop.
Context {I : Type} (ops : InputOps I).
Local Open Scope N_scope.
Local Open Scope mon_scope.
Section Go.
Variables (F : nat) (single : bool) (start : marker).
Fixpoint bflow_go (f : nat) (acc : list chr) (lb : bool) (tb : N)
  (ws : list chr) : @M I (list chr) :=
  match f with
  | O => oof
  | S f =>
    look ops 4 ;;;
    s <- get ;;
    di <- (if m_col (sc_mark s) =? 0 then next_is_document_indicator ops else ret false) ;;
    if di then fail 70 start else
    z <- next_is ops is_z ;;
    if z then fail 71 start else
    lt <- col_lt_indent ;;
    if lt then fail 72 start else
    r <- consume_nonws ops F single acc start ;;
    let '(acc, lbl) := r in
    c <- look_ch ops ;;
    if (single && (c =? 39)) || (negb single && (c =? 34)) then ret acc
    else
      r <- flow_blanks ops F lbl lb tb ws ;;
      let '(lbl, lb, tb, ws) := r in
      if lbl then
        if negb lb then bflow_go f (nls tb acc) false 0 ws
        else if tb =? 0 then bflow_go f (32 :: acc) false 0 ws
        else bflow_go f (nls tb acc) false 0 ws
      else bflow_go f (ws ++ acc) lb tb []
  end.
End Go.

Lemma scan_flow_scalar_unfold_b F single :
  scan_flow_scalar ops F single =
  (start <- mark ;;
   skip_non_blank ops ;;;
   str <- bflow_go F single start F [] false 0 [] ;;
   skip_non_blank ops ;;;
   skip_ws_to_eol ops F SkipYes ;;;
   c <- peek ops ;; s <- get ;;
   let fl := 0 <? sc_flow_level s in
   if (((c =? 44) || (c =? 125) || (c =? 93)) && fl) || is_breakz c
      || ((c =? 58) && negb fl && (m_line start =? m_line (sc_mark s))) || ((c =? 58) && fl)
   then ret ({| sp_start := start; sp_end := sc_mark s |},
             TScalar (if single then SingleQuoted else DoubleQuoted) (rev str))
   else fail 74 (sc_mark s)).
Proof. reflexivity. Qed.
End Loop.

Section BrkFlow.
Variable d : shift.
Local Notation bwp := (swp d).

Ltac case_if E := match goal with |- swp _ (if ?b then _ else _) (if ?b then _ else _) _ _ _ => destruct b eqn:E end.

(* ---------------- escapes ---------------- *)
(* read_hex n i peeks at offsets i .. i+n-1 and does not touch the state; the offsets before i are not line feeds,
   and a hex digit is not a line feed (the same characters are read on both sides) *)
Lemma bwp_read_hex n : forall i acc st1 st2 (Q : N -> bst -> N -> bst -> Prop) s1 s2,
  SH d s1 s2 -> MS d st1 st2 -> noLF i (rm s1) ->
  (forall v, noLF (i + n) (rm s1) -> Q v s1 v s2) ->
  bwp (read_hex sops n i acc st1) (read_hex sops n i acc st2) Q s1 s2.
Proof.
  induction n as [|n IH]; intros i acc st1 st2 Q s1 s2 H HM HL HQ; cbn [read_hex].
  - apply bwp_ret. apply HQ. rewrite Nat.add_0_r. exact HL.
  - apply bwp_bind. apply (bwp_peekn d i); [exact H|exact HL|]. cbv beta. b1_norm.
    destruct (is_hex (rn s1 i)) eqn:Eh; [|apply bwp_fail; exact HM].
    assert (Ni : rn s1 i <> 10%N) by (intros E; rewrite E in Eh; discriminate).
    apply IH; [exact H|exact HM|apply noLF_S; [exact HL|exact Ni]|].
    intros v Hv. apply HQ. replace (i + S n) with (S i + n) by lia. exact Hv.
Qed.

(* resolve_escape: entered at [\] followed by a character that is not a line break (that arm came first) *)
Lemma bwp_resolve_escape st1 st2 (Q : chr -> bst -> chr -> bst -> Prop) s1 s2 :
  SH d s1 s2 -> MS d st1 st2 -> noLF 2 (rm s1) ->
  (forall r t1 t2, SH d t1 t2 -> Q r t1 r t2) ->
  bwp (resolve_escape sops st1) (resolve_escape sops st2) Q s1 s2.
Proof.
  intros H HM HL HQ. unfold resolve_escape.
  assert (N1 : rn s1 1 <> 10%N) by (exact (HL 1 ltac:(lia))).
  apply bwp_bind. apply (bwp_peekn d 1); [exact H|apply (noLF_le 2); [exact HL|lia]|]. cbv beta.
  rewrite (b1_other _ N1).
  destruct (assocc (rn s1 1) escape_table) as [r|].
  - apply bwp_bind. apply (bwp_skip_n_non_blank d 2); [exact H|exact HL|]. intros t1 t2 HT _.
    apply bwp_ret. apply HQ. exact HT.
  - cbv zeta. destruct (Nat.eqb (code_length (rn s1 1)) 0); [apply bwp_fail; exact HM|].
    apply bwp_bind. apply (bwp_skip_n_non_blank d 2); [exact H|exact HL|]. intros u1 u2 HU _.
    apply bwp_bind. apply (bwp_look d); [exact HU|]. intros v1 v2 HV _ _ _ _ _.
    apply bwp_bind. apply bwp_read_hex; [exact HV|exact HM|apply noLF_0|]. intros v HLv. cbv beta.
    destruct (is_scalar_value v); [|apply bwp_fail; exact HM].
    apply bwp_bind. apply (bwp_skip_n_non_blank d); [exact HV|exact HLv|]. intros t1 t2 HT _.
    apply bwp_ret. apply HQ. exact HT.
Qed.

(* ---------------- consume_flow_scalar_non_whitespace_chars ---------------- *)
Lemma bwp_consume_nonws f1 : forall f2 single acc st1 st2
  (Q : list chr * bool -> bst -> list chr * bool -> bst -> Prop) s1 s2,
  SH d s1 s2 -> MS d st1 st2 -> (forall r t1 t2, SH d t1 t2 -> Q r t1 r t2) ->
  bwp (consume_nonws sops f1 single acc st1) (consume_nonws sops f2 single acc st2) Q s1 s2.
Proof.
  induction f1 as [|f1 IH]; intros f2 single acc st1 st2 Q s1 s2 H HM HQ; [exact I|].
  destruct f2 as [|f2]; [apply bwp_oof_r|]. cbn [consume_nonws].
  apply bwp_bind. apply (bwp_look d); [exact H|]. intros u1 u2 HU _ _ _ _ _.
  apply bwp_bind. apply (bwp_peek d); [exact HU|]. cbv beta. b1_norm.
  destruct (is_blank_or_breakz (rn u1 0)) eqn:Ebb; [apply bwp_ret; apply HQ; exact HU|].
  (* the character is not blank/breakz: not a line feed, so position 1 is aligned *)
  assert (N0 : rn u1 0 <> 10%N) by (intros E; rewrite E in Ebb; discriminate).
  rewrite (b1_other _ N0).
  apply bwp_bind. apply (bwp_peekn d 1); [exact HU|apply noLF_1; exact N0|]. cbv beta. b1_norm.
  case_if E1.
  { (* '' in a single-quoted scalar *)
    apply bwp_bind. apply (bwp_skip_n_non_blank d 2); [exact HU| |].
    - apply noLF_S; [apply noLF_1; exact N0|].
      apply andb_true_iff in E1. destruct E1 as [E1 _]. apply andb_true_iff in E1. destruct E1 as [_ E1].
      apply N.eqb_eq in E1. change (rn u1 1 <> 10%N). rewrite E1. discriminate.
    - intros v1 v2 HV _. apply IH; [exact HV|exact HM|exact HQ]. }
  case_if E2; [apply bwp_ret; apply HQ; exact HU|].
  case_if E3; [apply bwp_ret; apply HQ; exact HU|].
  destruct ((rn u1 0 =? 92)%N && negb single) eqn:E4; cbn [andb].
  - destruct (is_break (rn u1 1)) eqn:Ebk.
    + (* an escaped line break: [\] consumed in lockstep, then the break *)
      apply bwp_bind. apply (bwp_look d); [exact HU|]. intros v1 v2 HV RV _ _ _ _.
      apply bwp_bind. apply (bwp_skip_non_blank d); [exact HV|rewrite (rn_eq v1 u1 0 RV); exact N0|]. intros w1 w2 HW _.
      apply bwp_bind. apply (bwp_skip_linebreak d); [exact HW|]. intros x1 x2 HX _.
      apply bwp_ret. apply HQ. exact HX.
    + (* an escape sequence: the escape character is not a line break *)
      apply bwp_bind. apply bwp_resolve_escape; [exact HU|exact HM| |].
      * apply noLF_S; [apply noLF_1; exact N0|]. intros E. change (rn u1 1 = 10%N) in E. rewrite E in Ebk. discriminate.
      * intros r v1 v2 HV. apply IH; [exact HV|exact HM|exact HQ].
  - apply bwp_bind. apply (bwp_skip_non_blank d); [exact HU|exact N0|]. intros v1 v2 HV _.
    apply IH; [exact HV|exact HM|exact HQ].
Qed.

(* ---------------- the blank-consuming loop (line folding) ---------------- *)
Lemma bwp_flow_blanks f1 : forall f2 lbl lb tb ws
  (Q : bool * bool * N * list chr -> bst -> bool * bool * N * list chr -> bst -> Prop) s1 s2,
  SH d s1 s2 -> (forall r t1 t2, SH d t1 t2 -> Q r t1 r t2) ->
  bwp (flow_blanks sops f1 lbl lb tb ws) (flow_blanks sops f2 lbl lb tb ws) Q s1 s2.
Proof.
  induction f1 as [|f1 IH]; intros f2 lbl lb tb ws Q s1 s2 H HQ; [exact I|].
  destruct f2 as [|f2]; [apply bwp_oof_r|]. cbn [flow_blanks].
  apply bwp_bind. apply (bwp_peek d); [exact H|]. cbv beta. b1_norm.
  destruct (is_blank (rn s1 0)) eqn:Ebl.
  - assert (N0 : rn s1 0 <> 10%N) by (intros E; rewrite E in Ebl; discriminate).
    destruct lbl.
    + apply bwp_bind. apply (bwp_col_lt_indent d); [exact H|]. cbv beta.
      case_if Et; [apply (bwp_mark_fail d); exact H|].
      apply bwp_bind. apply (bwp_skip_blank d); [exact H|exact N0|]. intros u1 u2 HU _.
      apply bwp_bind. apply (bwp_look d); [exact HU|]. intros v1 v2 HV _ _ _ _ _.
      apply IH; [exact HV|exact HQ].
    + rewrite (b1_other _ N0).
      apply bwp_bind. apply (bwp_skip_blank d); [exact H|exact N0|]. intros u1 u2 HU _.
      apply bwp_bind. apply (bwp_look d); [exact HU|]. intros v1 v2 HV _ _ _ _ _.
      apply IH; [exact HV|exact HQ].
  - destruct (is_break (rn s1 0)) eqn:Ebk; [|apply bwp_ret; apply HQ; exact H].
    apply bwp_bind. apply (bwp_look d); [exact H|]. intros u1 u2 HU _ _ _ _ _.
    destruct lbl.
    + apply bwp_bind. apply (bwp_skip_break d); [exact HU|]. intros v1 v2 HV _ _.
      apply bwp_bind. apply (bwp_look d); [exact HV|]. intros w1 w2 HW _ _ _ _ _.
      apply IH; [exact HW|exact HQ].
    + apply bwp_bind. apply (bwp_skip_break d); [exact HU|]. intros v1 v2 HV _ _.
      apply bwp_bind. apply (bwp_look d); [exact HV|]. intros w1 w2 HW _ _ _ _ _.
      apply IH; [exact HW|exact HQ].
Qed.

(* ---------------- the main loop ---------------- *)
(* at the exit the next character is the closing quote: not a line feed *)
Lemma bwp_flow_go F1 F2 single st1 st2 f1 : forall f2 acc lb tb ws s1 s2,
  SH d s1 s2 -> MS d st1 st2 ->
  bwp (bflow_go sops F1 single st1 f1 acc lb tb ws) (bflow_go sops F2 single st2 f2 acc lb tb ws)
      (fun r1 t1 r2 t2 => r1 = r2 /\ SH d t1 t2 /\ rn t1 0 <> 10%N) s1 s2.
Proof.
  induction f1 as [|f1 IH]; intros f2 acc lb tb ws s1 s2 H HM; [exact I|].
  destruct f2 as [|f2]; [apply bwp_oof_r|]. cbn [bflow_go].
  apply bwp_bind. apply (bwp_look d); [exact H|]. intros u1 u2 HU _ _ _ _ _.
  apply bwp_bind. apply bwp_get. cbv beta. sh_sync HU.
  apply bwp_bind.
  apply bwp_mono with (Q := Qe (fun _ t1 t2 => t1 = u1 /\ t2 = u2)).
  { destruct (m_col (sc_mark u1) =? 0)%N.
    - apply (bwp_next_is_document_indicator d); [exact HU|]. split; [reflexivity|split; reflexivity].
    - apply bwp_ret. split; [reflexivity|split; reflexivity]. }
  intros di t1 di' t2 [<- [-> ->]].
  destruct di; [apply bwp_fail; exact HM|].
  apply bwp_bind. apply (bwp_next_is d); [exact HU|exact b1_is_z|]. cbv beta.
  destruct (is_z (rn u1 0)); [apply bwp_fail; exact HM|].
  apply bwp_bind. apply (bwp_col_lt_indent d); [exact HU|]. cbv beta.
  case_if Et; [apply bwp_fail; exact HM|].
  apply bwp_bind. apply bwp_consume_nonws; [exact HU|exact HM|]. intros [acc' lbl] v1 v2 HV. cbv beta iota.
  apply bwp_bind. apply (bwp_look_ch d); [exact HV|]. intros w1 w2 HW _ _ _ _. cbv beta. b1_norm.
  case_if Equ.
  { apply bwp_ret. split; [reflexivity|split; [exact HW|]].
    intros E. rewrite E in Equ. destruct single; vm_compute in Equ; discriminate. }
  apply bwp_bind. apply bwp_flow_blanks; [exact HW|]. intros [[[lbl' lb'] tb'] ws'] x1 x2 HX. cbv beta iota.
  destruct lbl'; [|apply IH; [exact HX|exact HM]].
  destruct (negb lb'); [apply IH; [exact HX|exact HM]|].
  destruct (tb' =? 0)%N; apply IH; [exact HX|exact HM|exact HX|exact HM].
Qed.

(* ---------------- scan_flow_scalar ---------------- *)
Theorem scan_flow_scalar_ok : shf_scan_flow_scalar d.
Proof.
  unfold shf_scan_flow_scalar. intros F1 F2 single s1 s2 H N0. rewrite !scan_flow_scalar_unfold_b.
  apply bwp_bind. apply (bwp_mark d); [exact H|]. intros HM0.
  apply bwp_bind. apply (bwp_skip_non_blank d); [exact H|exact N0|]. intros u1 u2 HU _.
  apply bwp_bind. eapply bwp_mono; [apply bwp_flow_go; [exact HU|exact HM0]|].
  intros r1 v1 r2 v2 (<- & HV & NV). cbv beta.
  apply bwp_bind. apply (bwp_skip_non_blank d); [exact HV|exact NV|]. intros w1 w2 HW _.
  eapply (bwp_call_eq d); [apply skip_ws_to_eol_ok; exact HW|]. intros tw x1 x2 HX.
  apply bwp_bind. apply (bwp_peek d); [exact HX|]. cbv beta.
  apply bwp_bind. apply bwp_get. cbv beta zeta. b1_norm. sh_sync HX. rewrite <- (proj1 HM0). rewrite ?shift_eqb.
  case_if Ec; [|apply bwp_fail; exact (sh_mark HX)].
  apply (bwp_ret_bpost d); [|exact HX]. apply TS_mk. apply SPS_mk; [exact HM0|exact (sh_mark HX)].
Qed.

End BrkFlow.

Print Assumptions scan_flow_scalar_ok.
