(* C07 — what the mapping clause of the specification (fold with map_insert) means, in terms of lookups:
   keys of a loaded mapping are pairwise distinct, every source key is present, nothing else is,
   and the value found under a key is the value of its LAST occurrence ("the later value wins"). *)
From Coq Require Import List NArith ZArith Bool.
Import ListNotations.
Require Import Parser Resolver Loader LinkedMap Nodes InsertTheory NodesProofs BuildDocs.

Lemma yaml_eqb_refl a : yaml_eqb a a = true.
Proof. rewrite yaml_eqb_embed. apply r_eqb_refl. Qed.
Lemma yaml_eqb_sym a b : yaml_eqb a b = yaml_eqb b a.
Proof. rewrite !yaml_eqb_embed. apply r_eqb_sym. Qed.
Lemma yaml_eqb_trans a b c : yaml_eqb a b = true -> yaml_eqb b c = true -> yaml_eqb a c = true.
Proof. rewrite !yaml_eqb_embed. apply r_eqb_trans. Qed.

Ltac yeq := first [exact yaml_eqb_refl | exact yaml_eqb_sym | exact yaml_eqb_trans].

Lemma map_insert_lm k v l : map_insert k v l = lm_insert yaml_eqb k v l.
Proof. reflexivity. Qed.

(* the entries of a mapping node, built in order (keys before values, anchors threaded through) *)
Fixpoint build_entries (m : amap) (es : list (etree * etree)) : list (yaml * yaml) * amap :=
  match es with
  | [] => ([], m)
  | (k, v) :: r =>
      let '(ky, m1) := build m k in let '(vy, m2) := build m1 v in
      let '(ps, m3) := build_entries m2 r in ((ky, vy) :: ps, m3)
  end.

Lemma build_pairs_entries es : forall m acc,
  build_pairs build m es acc =
  (fold_left (fun a p => lm_ins yaml_eqb p a) (fst (build_entries m es)) acc, snd (build_entries m es)).
Proof.
  induction es as [|[k v] r IH]; intros m acc; [reflexivity|].
  cbn [build_pairs build_entries]. destruct (build m k) as [ky m1]. destruct (build m1 v) as [vy m2].
  rewrite IH. destruct (build_entries m2 r) as [ps m3]. reflexivity.
Qed.

Theorem build_map_collect a tg es m :
  fst (build m (TMap a tg es)) = YMap (lm_collect yaml_eqb (fst (build_entries m es))).
Proof.
  cbn [build]. rewrite build_pairs_entries. reflexivity.
Qed.

Section Collected.
  Variable l : list (yaml * yaml).
  Let c := lm_collect yaml_eqb l.

  Theorem collected_keys_distinct : lm_nodupb yaml_eqb c = true.
  Proof. apply nodupb_F; yeq. Qed.

  Theorem collected_keys_are_source_keys k : lm_mem yaml_eqb k c = lm_mem yaml_eqb k l.
  Proof. apply mem_F; yeq. Qed.

  Theorem later_value_wins k : lm_get yaml_eqb k c = lm_get yaml_eqb k (rev l).
  Proof. apply assoc_F; yeq. Qed.

  (* no duplicate key in the source: the mapping IS the source list, order included *)
  Theorem distinct_keys_kept_in_order : lm_nodupb yaml_eqb l = true -> c = l.
  Proof. apply F_nodup_id; yeq. Qed.

  (* in general: the entries whose key does not occur again later, in source order (up to the key object) *)
  Theorem collected_is_dedup : leq yaml yaml_eqb c (lm_dedup yaml_eqb l).
  Proof. apply F_G; yeq. Qed.
End Collected.
