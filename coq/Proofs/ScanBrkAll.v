(* C14, scanner + parser level: the character-level contracts (ScanBrkPrim/Dir/Flow/Plain/Block.v) plugged into the
   skeleton (ScanBrkFetch.v) and the pipeline theorems (ScanBrkTop.v), with the fuel exception discharged by
   ScanFuelAll.v (the string pipeline never runs out of its linear fuel, on any input).  Only instantiation here. *)
From Coq Require Import List NArith Bool.
Import ListNotations.
Require Import Parser SBase SFetch Pipe BreakProofs ScanBrk ScanBrkParse ScanBrkTop ScanBrkFetch ScanFuelAll.
Require ScanBrkDir ScanBrkFlow ScanBrkPlain ScanBrkBlock ScanRelTop ScanSafeStrTop.
Local Open Scope nat_scope.

Lemma next_token_brk md : brk_next_token md.
Proof.
  exact (next_token_ok md (ScanBrkDir.scan_directive_ok md) (ScanBrkDir.scan_tag_ok md) (ScanBrkFlow.scan_flow_scalar_ok md)
           (ScanBrkPlain.scan_plain_scalar_ok md) (ScanBrkBlock.scan_block_scalar_ok md)).
Qed.

Lemma scanner_brk md : brk_target md.
Proof.
  exact (target_ok md (ScanBrkDir.scan_directive_ok md) (ScanBrkDir.scan_tag_ok md) (ScanBrkFlow.scan_flow_scalar_ok md)
           (ScanBrkPlain.scan_plain_scalar_ok md) (ScanBrkBlock.scan_block_scalar_ok md)).
Qed.

(* an end of the pipeline that is neither fuel nor panic *)
Definition is_panic (e : pend) : Prop := match e with PPanic _ => True | _ => False end.

Lemma pend_bad_panic (x : list N) : ScanRelTop.pend_bad (snd (run_str x)) -> is_panic (snd (run_str x)).
Proof.
  intros H. pose proof (pipeline_never_out_of_fuel x) as NF.
  destruct (snd (run_str x)); cbn in *; try contradiction; try exact I; congruence.
Qed.

(* the two substitutions: same events (kind, text, style, anchor id, tag) with spans that agree in line and column, and
   the same end (PDone, or the same error site at the same line and column) - unless one of the two runs panics *)
Lemma pipeline_crlf : forall x : list chr, nocr x ->
  is_panic (snd (run_str x)) \/ is_panic (snd (run_str (crlf x))) \/
  (Forall2 EVR (fst (run_str x)) (fst (run_str (crlf x))) /\ PER (snd (run_str x)) (snd (run_str (crlf x)))).
Proof.
  intros x Hx. destruct (run_str_crlf_strong (next_token_brk CRLF) x Hx) as [B|[B|R]].
  - left. apply pend_bad_panic. exact B.
  - right. left. apply pend_bad_panic. exact B.
  - right. right. exact R.
Qed.

Lemma pipeline_cr : forall x : list chr, nocr x ->
  is_panic (snd (run_str x)) \/ is_panic (snd (run_str (cr x))) \/
  (Forall2 EVR (fst (run_str x)) (fst (run_str (cr x))) /\ PER (snd (run_str x)) (snd (run_str (cr x)))).
Proof.
  intros x Hx. destruct (run_str_cr_strong (next_token_brk CR) x Hx) as [B|[B|R]].
  - left. apply pend_bad_panic. exact B.
  - right. left. apply pend_bad_panic. exact B.
  - right. right. exact R.
Qed.

(* with panic freedom of the string pipeline (ScanSafeStrTop.v) no exception is left *)
Lemma no_panic (x : list N) : ~ is_panic (snd (run_str x)).
Proof.
  intros H. destruct (snd (run_str x)) eqn:E; cbn in H; try contradiction.
  exact (ScanSafeStrTop.pipeline_never_panics_str x _ E).
Qed.

Lemma pipeline_crlf_total : forall x : list chr, nocr x ->
  Forall2 EVR (fst (run_str x)) (fst (run_str (crlf x))) /\ PER (snd (run_str x)) (snd (run_str (crlf x))).
Proof.
  intros x Hx. destruct (pipeline_crlf x Hx) as [B|[B|R]]; [destruct (no_panic _ B)|destruct (no_panic _ B)|exact R].
Qed.

Lemma pipeline_cr_total : forall x : list chr, nocr x ->
  Forall2 EVR (fst (run_str x)) (fst (run_str (cr x))) /\ PER (snd (run_str x)) (snd (run_str (cr x))).
Proof.
  intros x Hx. destruct (pipeline_cr x Hx) as [B|[B|R]]; [destruct (no_panic _ B)|destruct (no_panic _ B)|exact R].
Qed.
