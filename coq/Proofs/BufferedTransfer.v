(* Transfer of the string-input theorems (C12 positions, C14 break style) to the BUFFERED input back-end of any
   capacity >= 8 — the back-end behind Parser::new_from_iter and Yaml::load_from_str — through the value-level
   back-end agreement of C10 (ScanRelAll.pipeline_backends_agree_total: run_str x = run_buf cap x unless the buffered
   run exhausts its fuel; bounded work is proved for the string instance only, so that one escape stays in the
   hypotheses and is monitored by the correspondence run: MODELFUEL).
   UPDATE: bounded work is now proved for the buffered instance too (ScanFuelBufAll.pipeline_backends_equal:
   run_buf cap x = run_str x for every capacity >= 8 and every input); the [_total] theorems at the end of this file
   are the same transfers WITHOUT the fuel hypotheses. *)
From Coq Require Import List NArith Bool Lia.
Import ListNotations.
Require Import Parser SBase SBuf SFetch Pipe Positions PosProofs.
Require Import ScanPos ScanPosTop ScanRelAll BreakProofs ScanBrk ScanBrkParse ScanBrkAll ScanFuelBufAll.
Open Scope N_scope.

Lemma run_buf_is_run_str (orig : list N) cap :
  (8 <= cap)%nat -> snd (run_buf cap orig) <> PFuel -> run_buf cap orig = run_str orig.
Proof.
  intros Hc Hf. destruct (pipeline_backends_agree_total orig cap Hc) as [E|E]; [symmetry; exact E|contradiction].
Qed.

(* C12 over the buffered back-end *)
Theorem pipeline_positions_true_buffered (orig : list N) cap :
  (8 <= cap)%nat -> Forall (fun c => c <> 0%N) orig -> snd (run_buf cap orig) <> PFuel ->
  let '(evs, r) := run_buf cap orig in
  Forall (fun es => true_span orig (snd es)) evs
  /\ (forall site m, r = PScanErr site m -> site <> 0%N -> true_mark orig m)
  /\ (forall site m, r = PParseErr site m -> true_mark orig m).
Proof.
  intros Hc Hz Hf. rewrite (run_buf_is_run_str orig cap Hc Hf). exact (pipeline_positions_true orig Hz).
Qed.

(* C14 over buffered back-ends (the two runs may even use different capacities) *)
Theorem pipeline_crlf_buffered (x : list chr) cap1 cap2 :
  (8 <= cap1)%nat -> (8 <= cap2)%nat -> nocr x ->
  snd (run_buf cap1 x) <> PFuel -> snd (run_buf cap2 (crlf x)) <> PFuel ->
  Forall2 EVR (fst (run_buf cap1 x)) (fst (run_buf cap2 (crlf x)))
  /\ PER (snd (run_buf cap1 x)) (snd (run_buf cap2 (crlf x))).
Proof.
  intros H1 H2 Hx F1 F2. rewrite (run_buf_is_run_str x cap1 H1 F1), (run_buf_is_run_str (crlf x) cap2 H2 F2).
  exact (pipeline_crlf_total x Hx).
Qed.

Theorem pipeline_cr_buffered (x : list chr) cap1 cap2 :
  (8 <= cap1)%nat -> (8 <= cap2)%nat -> nocr x ->
  snd (run_buf cap1 x) <> PFuel -> snd (run_buf cap2 (cr x)) <> PFuel ->
  Forall2 EVR (fst (run_buf cap1 x)) (fst (run_buf cap2 (cr x)))
  /\ PER (snd (run_buf cap1 x)) (snd (run_buf cap2 (cr x))).
Proof.
  intros H1 H2 Hx F1 F2. rewrite (run_buf_is_run_str x cap1 H1 F1), (run_buf_is_run_str (cr x) cap2 H2 F2).
  exact (pipeline_cr_total x Hx).
Qed.

(* ---------------- the same, unconditionally (ScanFuelBufAll.pipeline_backends_equal) ---------------- *)
Theorem pipeline_positions_true_buffered_total (orig : list N) cap :
  (8 <= cap)%nat -> Forall (fun c => c <> 0%N) orig ->
  let '(evs, r) := run_buf cap orig in
  Forall (fun es => true_span orig (snd es)) evs
  /\ (forall site m, r = PScanErr site m -> site <> 0%N -> true_mark orig m)
  /\ (forall site m, r = PParseErr site m -> true_mark orig m).
Proof.
  intros Hc Hz. rewrite (pipeline_backends_equal cap orig Hc). exact (pipeline_positions_true orig Hz).
Qed.

Theorem pipeline_crlf_buffered_total (x : list chr) cap1 cap2 :
  (8 <= cap1)%nat -> (8 <= cap2)%nat -> nocr x ->
  Forall2 EVR (fst (run_buf cap1 x)) (fst (run_buf cap2 (crlf x)))
  /\ PER (snd (run_buf cap1 x)) (snd (run_buf cap2 (crlf x))).
Proof.
  intros H1 H2 Hx. rewrite (pipeline_backends_equal cap1 x H1), (pipeline_backends_equal cap2 (crlf x) H2).
  exact (pipeline_crlf_total x Hx).
Qed.

Theorem pipeline_cr_buffered_total (x : list chr) cap1 cap2 :
  (8 <= cap1)%nat -> (8 <= cap2)%nat -> nocr x ->
  Forall2 EVR (fst (run_buf cap1 x)) (fst (run_buf cap2 (cr x)))
  /\ PER (snd (run_buf cap1 x)) (snd (run_buf cap2 (cr x))).
Proof.
  intros H1 H2 Hx. rewrite (pipeline_backends_equal cap1 x H1), (pipeline_backends_equal cap2 (cr x) H2).
  exact (pipeline_cr_total x Hx).
Qed.

Print Assumptions pipeline_positions_true_buffered_total.
Print Assumptions pipeline_crlf_buffered_total.
Print Assumptions pipeline_cr_buffered_total.
