(* Joint proof "every position the scanner reports is a true position" (see SCANPOS.md): the token-level skeleton
   (fetch_*, fetch_next_token, fetch_more_tokens, next_token, scan_all) over the string input.
   Invariant [PInv]: the mark is the true position of what has been consumed ([MarkOK]) - or, once the end of a
   NUL-free input has been seen, the input is exhausted and the mark's index is the input length ([Ended]: what
   fetch_stream_end leaves behind when it forces the mark to (index, line+1, 0)) -; every queued token has a span of
   true marks; every POSSIBLE simple key carries a true mark. *)
From Coq Require Import List NArith ZArith Bool Arith Lia.
Import ListNotations.
Require Import Parser SBase SPrim SDir SScalar SFetch Positions ScanPos ScanPosPrim.
Local Open Scope nat_scope.

Arguments Nat.ltb : simpl never.
Arguments Nat.leb : simpl never.
Arguments Nat.eqb : simpl never.
Arguments Nat.sub : simpl never.

Ltac sproj :=
  cbn [sc_in sc_mark sc_tokens sc_stream_start sc_stream_end sc_adjacent sc_ska sc_sks sc_indent sc_indents
       sc_flow_level sc_tokens_parsed sc_token_available sc_lws sc_ifms
       set_in set_mark set_tokens set_flags set_ska set_lws set_adj set_ta set_ss set_se
       set_struct set_sks set_indent set_fl set_tp set_ifms upd].
Ltac sproj_in H :=
  cbn [sc_in sc_mark sc_tokens sc_stream_start sc_stream_end sc_adjacent sc_ska sc_sks sc_indent sc_indents
       sc_flow_level sc_tokens_parsed sc_token_available sc_lws sc_ifms
       set_in set_mark set_tokens set_flags set_ska set_lws set_adj set_ta set_ss set_se
       set_struct set_sks set_indent set_fl set_tp set_ifms upd] in H.

(* ---------------- pure list facts ---------------- *)
Lemma insert_at_Forall {A} (P : A -> Prop) (x : A) : forall n l l',
  insert_at n x l = Some l' -> P x -> Forall P l -> Forall P l'.
Proof.
  induction n as [|n IH]; intros l l' E Hx Hl; cbn [insert_at] in E.
  - injection E as <-. constructor; assumption.
  - destruct l as [|y r]; [discriminate E|]. destruct (insert_at n x r) as [r'|] eqn:E'; [|discriminate E].
    injection E as <-. inversion Hl; subst. constructor; [assumption|]. eapply IH; eauto.
Qed.
Lemma last_In {A} (l : list A) (d : A) : l <> [] -> In (last l d) l.
Proof.
  induction l as [|a l IH]; intros H; [congruence|]. destruct l as [|b l]; [left; reflexivity|].
  right. apply IH. discriminate.
Qed.
Lemma Forall_tl {A} (P : A -> Prop) (l : list A) : Forall P l -> Forall P (tl l).
Proof. intros H. destruct l; [constructor|inversion H; assumption]. Qed.

(* the position part of the state: input and mark *)
Definition same_pos (s s' : sst) : Prop := sc_in s' = sc_in s /\ sc_mark s' = sc_mark s.
Lemma same_pos_refl s : same_pos s s. Proof. split; reflexivity. Qed.
Lemma same_pos_trans a b c : same_pos a b -> same_pos b c -> same_pos a c.
Proof. intros [A1 A2] [B1 B2]. split; congruence. Qed.
Lemma same_pos_rem s s' : same_pos s s' -> rem s' = rem s.
Proof. intros [A _]. unfold rem. rewrite A. reflexivity. Qed.
Lemma same_pos_rnth s s' i : same_pos s s' -> rnth s' i = rnth s i.
Proof. intros H. apply rnth_eq. apply same_pos_rem. exact H. Qed.

Section PosFetch.
Variable orig : list chr.
Hypothesis no_nul : Forall (fun c => c <> 0%N) orig.
Notation pwp := (swp (true_mark orig)).
Notation MarkAt := (MarkAt orig).
Notation MarkOK := (MarkOK orig).
Notation tmark := (true_mark orig).
Notation ttok := (true_tok orig).

(* the character-level contracts not proved in ScanPosPrim.v (SCANPOS.md) *)
Hypothesis H_dir : forall F s, MarkOK s -> is_breakz (rnth s 0) = false -> pwp (scan_directive str_ops F) (ppost orig s) s.
Hypothesis H_tag : forall F s, MarkOK s -> rnth s 0 = 33%N -> pwp (scan_tag str_ops F) (ppost orig s) s.
Hypothesis H_anchor : forall F alias s, MarkOK s -> is_breakz (rnth s 0) = false -> pwp (scan_anchor str_ops F alias) (ppost orig s) s.
Hypothesis H_flow : forall F single s, MarkOK s -> is_breakz (rnth s 0) = false -> pwp (scan_flow_scalar str_ops F single) (ppost orig s) s.
Hypothesis H_plain : forall F s, MarkOK s -> pwp (scan_plain_scalar str_ops F) (ppost orig s) s.
Hypothesis H_block : forall F literal s, MarkOK s -> is_breakz (rnth s 0) = false -> pwp (scan_block_scalar str_ops F literal) (ppost orig s) s.

(* ---------------- the invariant ---------------- *)
(* the end of the input has been reached: nothing remains and the index is the input length.  This is all that is
   left of the position invariant after fetch_stream_end has forced the mark to (index, line + 1, 0). *)
Definition Ended (s : sst) : Prop := rem s = [] /\ m_index (sc_mark s) = N.of_nat (length orig).
Definition Mark' (s : sst) : Prop := MarkOK s \/ Ended s.

Definition sk_ok (k : simple_key) : Prop := sk_possible k = true -> tmark (sk_mark k).
(* the queue part: token spans and the marks of possible simple keys *)
Definition QInv (s : sst) : Prop := Forall ttok (sc_tokens s) /\ Forall sk_ok (sc_sks s).
Definition PInv (s : sst) : Prop := Mark' s /\ QInv s.

Lemma ended_true s : Ended s -> tmark (sc_mark s).
Proof using.
  intros [_ I]. unfold true_mark, marker_ok. rewrite I. rewrite N.leb_refl, N.eqb_refl. reflexivity.
Qed.
Lemma mark'_true s : Mark' s -> tmark (sc_mark s).
Proof using. intros [H|H]; [apply markok_true; exact H|apply ended_true; exact H]. Qed.

Lemma markat_same pre s s' : MarkAt pre s -> same_pos s s' -> MarkAt pre s'.
Proof using no_nul. intros HM [A B]. apply (markat_ext orig no_nul pre s s' HM); [unfold rem; rewrite A; reflexivity|exact B]. Qed.
Lemma markok_same s s' : MarkOK s -> same_pos s s' -> MarkOK s'.
Proof using no_nul. intros [pre HM] H. exists pre. eapply markat_same; eauto. Qed.
Lemma ended_ext s s' : Ended s -> rem s' = rem s -> m_index (sc_mark s') = m_index (sc_mark s) -> Ended s'.
Proof using. intros [A B] R I. split; congruence. Qed.
Lemma mark'_ext s s' : Mark' s -> rem s' = rem s -> sc_mark s' = sc_mark s -> Mark' s'.
Proof using no_nul.
  intros [H|H] R Mk; [left; eapply markok_ext; eauto|right; eapply ended_ext; eauto; rewrite Mk; reflexivity].
Qed.
Lemma mark'_same s s' : Mark' s -> same_pos s s' -> Mark' s'.
Proof using no_nul. intros H SP. apply (mark'_ext s s' H); [apply same_pos_rem; exact SP|apply SP]. Qed.

(* the end of a NUL-free input: a NUL at offset 0 *)
Lemma markat_z_ended pre s : MarkAt pre s -> rnth s 0 = 0%N -> Ended s.
Proof using no_nul.
  intros HM Hz. pose proof (peek_z_is_end orig no_nul pre s 0 HM Hz) as L.
  destruct HM as (E & I & _). assert (R : rem s = []) by (destruct (rem s); [reflexivity|cbn [length] in L; lia]).
  split; [exact R|]. rewrite I, E, R, app_nil_r. reflexivity.
Qed.
Lemma ended_rnth s i : Ended s -> rnth s i = 0%N.
Proof using. intros [R _]. unfold rnth. rewrite R. destruct i; reflexivity. Qed.

Lemma qinv_pkeeps s s' : pkeeps s s' -> QInv s -> QInv s'.
Proof using. intros (A & B & _) [T K]. unfold QInv. rewrite A, B. split; assumption. Qed.
Lemma qinv_eq s s' : sc_tokens s' = sc_tokens s -> sc_sks s' = sc_sks s -> QInv s -> QInv s'.
Proof using. intros A B [T K]. unfold QInv. rewrite A, B. split; assumption. Qed.
Lemma qinv_push s t : QInv s -> ttok t -> QInv (set_tokens (sc_tokens s ++ [t]) s).
Proof using.
  intros [T K] Ht. split; sproj; [|exact K]. apply Forall_app. split; [exact T|]. constructor; [exact Ht|constructor].
Qed.
Lemma ttok_empty m tk : tmark m -> ttok (span_empty m, tk).
Proof using. intros H. split; exact H. Qed.
Lemma ttok_spn a b tk : tmark a -> tmark b -> ttok (spn a b, tk).
Proof using. intros A B. split; assumption. Qed.

Definition clr (k : simple_key) : simple_key :=
  {| sk_possible := false; sk_required := sk_required k; sk_token_number := sk_token_number k; sk_mark := sk_mark k |}.
Lemma sk_ok_clr k : sk_ok (clr k).
Proof using. intros H. discriminate H. Qed.
Lemma sk_ok_new r n m : sk_ok {| sk_possible := false; sk_required := r; sk_token_number := n; sk_mark := m |}.
Proof using. intros H. discriminate H. Qed.

(* ---------------- skeleton steps: they touch neither the input nor the mark ---------------- *)
Definition pstep_at (s : sst) (m : SM unit) : Prop :=
  forall (Q : unit -> sst -> Prop), tmark (sc_mark s) -> QInv s ->
    (forall s', same_pos s s' -> QInv s' -> Q tt s') -> pwp m Q s.
Definition pstep (m : SM unit) : Prop := forall s, pstep_at s m.

Lemma ps_ret : pstep (ret tt).
Proof using. intros s Q HT HQI HQ. apply swp_ret. apply HQ; [apply same_pos_refl|exact HQI]. Qed.
Lemma ps_fail_at s site mk : tmark mk -> pstep_at s (fail site mk).
Proof using. intros H Q HT HQI HQ. apply swp_fail. exact H. Qed.
Lemma ps_fail site mk : tmark mk -> pstep (fail site mk).
Proof using. intros H s. apply ps_fail_at. exact H. Qed.
Lemma ps_panic site : pstep (panic site).
Proof using. intros s Q HT HQI HQ. apply swp_panic. Qed.
Lemma ps_if (b : bool) m1 m2 : pstep m1 -> pstep m2 -> pstep (if b then m1 else m2).
Proof using. destruct b; auto. Qed.
Lemma ps_if_at s (b : bool) m1 m2 : pstep_at s m1 -> pstep_at s m2 -> pstep_at s (if b then m1 else m2).
Proof using. destruct b; auto. Qed.
Lemma ps_bind_at s m1 m2 : pstep_at s m1 -> pstep m2 -> pstep_at s (bind m1 (fun _ => m2)).
Proof using.
  intros H1 H2 Q HT HQI HQ. apply swp_bind. apply H1; [exact HT|exact HQI|]. intros s1 SP1 QI1.
  apply H2; [destruct SP1 as [_ ->]; exact HT|exact QI1|]. intros s2 SP2 QI2. apply HQ; [eapply same_pos_trans; eauto|exact QI2].
Qed.
Lemma ps_bind m1 m2 : pstep m1 -> pstep m2 -> pstep (bind m1 (fun _ => m2)).
Proof using. intros H1 H2 s. apply ps_bind_at; auto. Qed.
(* [get]: the continuation is run in the very state it receives *)
Lemma ps_get f : (forall s0, tmark (sc_mark s0) -> QInv s0 -> pstep_at s0 (f s0)) -> pstep (bind get f).
Proof using. intros H s Q HT HQI HQ. apply swp_bind, swp_get. apply H; assumption. Qed.
Lemma ps_mark f : (forall m, tmark m -> pstep (f m)) -> pstep (bind mark f).
Proof using. intros H s Q HT HQI HQ. apply swp_bind. unfold mark. apply swp_gets. apply H; assumption. Qed.
Lemma ps_put_at s s1 : same_pos s s1 -> (QInv s -> QInv s1) -> pstep_at s (put s1).
Proof using. intros SP HI Q HT HQI HQ. apply swp_put. apply HQ; [exact SP|apply HI; exact HQI]. Qed.
Lemma ps_modify f : (forall s, same_pos s (f s) /\ sc_tokens (f s) = sc_tokens s /\ sc_sks (f s) = sc_sks s) -> pstep (modify f).
Proof using.
  intros H s Q HT HQI HQ. apply swp_modify. destruct (H s) as (A & B & C). apply HQ; [exact A|eapply qinv_eq; eauto].
Qed.
Lemma ps_lift m s : pstep m -> pstep_at s m.
Proof using. intros H. apply H. Qed.

Ltac pos_triv :=
  cbv beta; repeat match goal with |- context [if ?b then _ else _] => destruct b end;
  repeat match goal with |- context [match sc_ifms ?s with _ => _ end] => destruct (sc_ifms s) as [|[| | |] ?] end;
  unfold same_pos; sproj; repeat split; reflexivity.

Lemma ps_push_tok t : ttok t -> pstep (push_tok t).
Proof using.
  intros Ht s Q HT HQI HQ. unfold push_tok. apply swp_modify. apply HQ; [split; reflexivity|apply qinv_push; assumption].
Qed.
Lemma ps_insert_token pos t : ttok t -> pstep (insert_token pos t).
Proof using.
  intros Ht s Q HT HQI HQ. unfold swp, insert_token. destruct (insert_at (N.to_nat pos) t (sc_tokens s)) as [l|] eqn:E; [|exact I].
  apply HQ; [split; reflexivity|]. destruct HQI as [T K]. split; sproj; [|exact K]. eapply insert_at_Forall; eauto.
Qed.
Lemma ps_allow : pstep (allow_simple_key (I:=strin)).
Proof using. unfold allow_simple_key. apply ps_modify. intros s. pos_triv. Qed.
Lemma ps_disallow : pstep (disallow_simple_key (I:=strin)).
Proof using. unfold disallow_simple_key. apply ps_modify. intros s. pos_triv. Qed.

(* indentation: BlockSequenceStart / BlockMappingStart / BlockEnd tokens carry the marker given, resp. the current
   mark *)
Lemma ps_roll_indent col number tk mk : tmark mk -> pstep (roll_indent col number tk mk).
Proof using.
  intros Hm. unfold roll_indent. apply ps_get. intros s HT HQI.
  apply ps_if_at; [apply ps_lift, ps_ret|].
  match goal with |- pstep_at _ (let '(_, _) := ?p in _) => destruct p as [ind inds] end.
  apply ps_if_at.
  - apply ps_if_at; [apply (ps_fail_at s 46%N (sc_mark s)); exact HT|].
    apply ps_bind_at; [apply ps_put_at; [pos_triv|intros H; exact H]|].
    destruct number as [n|]; [apply ps_if; [apply ps_panic|apply ps_insert_token, ttok_empty, Hm]|apply ps_push_tok, ttok_empty, Hm].
  - apply ps_put_at; [pos_triv|intros H; exact H].
Qed.

Lemma ps_unroll_indent_go col : forall fuel, pstep (unroll_indent_go fuel col).
Proof using.
  induction fuel as [|fuel IH]; cbn [unroll_indent_go]; [intros s Q HT HQI HQ; apply swp_oof|].
  apply ps_get. intros s HT HQI. apply ps_if_at; [|apply ps_lift, ps_ret].
  destruct (sc_indents s) as [|i r]; [apply ps_lift, ps_panic|].
  apply ps_bind_at; [apply ps_put_at; [pos_triv|intros H; exact H]|].
  apply ps_bind; [|exact IH]. apply ps_if; [apply ps_push_tok, ttok_empty, HT|apply ps_ret].
Qed.
Lemma ps_unroll_indent col : pstep (unroll_indent col).
Proof using.
  unfold unroll_indent. apply ps_get. intros s HT HQI. apply ps_if_at; [apply ps_lift, ps_ret|apply ps_lift, ps_unroll_indent_go].
Qed.
Lemma ps_roll_one : pstep (roll_one_col_indent (I:=strin)).
Proof using.
  unfold roll_one_col_indent. apply ps_get. intros s HT HQI. apply ps_if_at; [|apply ps_lift, ps_ret].
  apply ps_put_at; [pos_triv|intros H; exact H].
Qed.

(* simple keys *)
Lemma ps_save : pstep (save_simple_key (I:=strin)).
Proof using.
  unfold save_simple_key. apply ps_get. intros s HT HQI. apply ps_if_at; [|apply ps_lift, ps_ret].
  intros Q _ _ HQ. apply swp_bind.
  apply swp_mono with (Q := fun (_ : bool) s' => s' = s).
  - destruct (_ && _); [|apply swp_ret; reflexivity]. destruct (sc_indents s); [apply swp_panic|apply swp_ret; reflexivity].
  - intros rq s' ->. apply swp_put. apply HQ; [split; reflexivity|]. destruct HQI as [T K]. split; sproj; [exact T|].
    constructor; [intros _; exact HT|apply Forall_tl; exact K].
Qed.
Lemma ps_remove : pstep (remove_simple_key (I:=strin)).
Proof using.
  unfold remove_simple_key. apply ps_get. intros s HT HQI.
  destruct (sc_sks s) as [|k r] eqn:EK; [apply ps_lift, ps_panic|].
  apply ps_if_at; [apply ps_fail_at; exact HT|]. apply ps_put_at; [pos_triv|].
  intros [T K]. split; sproj; [exact T|]. rewrite EK in K. inversion K; subst. constructor; [apply (sk_ok_clr k)|assumption].
Qed.
Lemma Forall_map_clr (p : simple_key -> bool) l :
  Forall sk_ok l -> Forall sk_ok (map (fun k => if p k then clr k else k) l).
Proof using.
  induction 1 as [|k l Hk Hl IH]; cbn [map]; constructor; [|exact IH]. destruct (p k); [apply sk_ok_clr|exact Hk].
Qed.
Lemma ps_stale : pstep (stale_simple_keys (I:=strin)).
Proof using.
  unfold stale_simple_keys. apply ps_get. intros s HT HQI.
  apply ps_if_at; [apply ps_fail_at; exact HT|]. apply ps_put_at; [pos_triv|].
  intros [T K]. split; sproj; [exact T|].
  apply (Forall_map_clr
      (fun k => sk_possible k && (sc_flow_level s =? 0)%N
                && ((m_line (sk_mark k) <? m_line (sc_mark s))%N
                    || (m_index (sk_mark k) + SIMPLE_KEY_MAX <? m_index (sc_mark s))%N))). exact K.
Qed.
Lemma ps_eim mk : tmark mk -> pstep (end_implicit_mapping mk).
Proof using.
  intros Hm. unfold end_implicit_mapping. apply ps_get. intros s HT HQI.
  destruct (sc_ifms s) as [|[| | |] r]; try (apply ps_lift, ps_ret).
  - apply ps_bind_at; [apply ps_put_at; [pos_triv|intros H; exact H]|apply ps_push_tok, ttok_empty, Hm].
  - apply ps_put_at; [pos_triv|intros H; exact H].
Qed.
Lemma ps_incr : pstep (increase_flow_level (I:=strin)).
Proof using.
  unfold increase_flow_level. apply ps_get. intros s HT HQI.
  apply ps_if_at; [apply (ps_fail_at s 45%N (sc_mark s)); exact HT|].
  apply ps_put_at; [pos_triv|]. intros [T K]. split; sproj; [exact T|]. constructor; [apply sk_ok_new|exact K].
Qed.
Lemma ps_check_closer seq : pstep (check_flow_closer (I:=strin) seq).
Proof using.
  unfold check_flow_closer. apply ps_get. intros s HT HQI.
  destruct (sc_ifms s) as [|st r]; [apply ps_lift, ps_ret|]. cbv zeta.
  apply ps_if_at; [apply ps_lift, ps_ret|]. destruct st; apply (ps_fail_at s _ (sc_mark s)); exact HT.
Qed.
Lemma ps_decr : pstep (decrease_flow_level (I:=strin)).
Proof using.
  unfold decrease_flow_level. apply ps_get. intros s HT HQI. apply ps_if_at; [|apply ps_lift, ps_ret].
  destruct (sc_sks s) as [|k r] eqn:EK; [apply ps_lift, ps_panic|].
  apply ps_put_at; [pos_triv|]. intros [T K]. split; sproj; [exact T|]. rewrite EK in K. inversion K; assumption.
Qed.
Lemma ps_clear_head :
  pstep (modify (fun s : sst => match sc_sks s with
                     | k :: r => set_sks ({| sk_possible := false; sk_required := sk_required k;
                                             sk_token_number := sk_token_number k; sk_mark := sk_mark k |} :: r) s
                     | [] => s end)).
Proof using.
  intros s Q HT HQI HQ. apply swp_modify. destruct (sc_sks s) as [|k r] eqn:EK; [apply HQ; [apply same_pos_refl|exact HQI]|].
  apply HQ; [split; reflexivity|]. destruct HQI as [T K]. split; sproj; [exact T|]. rewrite EK in K. inversion K; subst.
  constructor; [apply (sk_ok_clr k)|assumption].
Qed.

(* ---------------- running skeleton steps under the position invariant ---------------- *)
Lemma run_ps m pre (Q : unit -> sst -> Prop) s :
  pstep m -> MarkAt pre s -> QInv s -> (forall s', MarkAt pre s' -> same_pos s s' -> QInv s' -> Q tt s') -> pwp m Q s.
Proof using no_nul.
  intros H HM HQI HQ. apply H; [apply markok_true; exists pre; exact HM|exact HQI|].
  intros s' SP QI. apply HQ; [eapply markat_same; eauto|exact SP|exact QI].
Qed.
Lemma run_ps' m (Q : unit -> sst -> Prop) s :
  pstep m -> Mark' s -> QInv s -> (forall s', Mark' s' -> same_pos s s' -> QInv s' -> Q tt s') -> pwp m Q s.
Proof using no_nul.
  intros H HM HQI HQ. apply H; [apply mark'_true; exact HM|exact HQI|].
  intros s' SP QI. apply HQ; [eapply mark'_same; eauto|exact SP|exact QI].
Qed.

Ltac tm := first [assumption | apply ttok_empty; assumption | apply ttok_spn; assumption].
Ltac ps_one :=
  cbv beta;
  lazymatch goal with
  | |- pstep (ret tt) => apply ps_ret
  | |- pstep (fail _ _) => apply ps_fail; tm
  | |- pstep (panic _) => apply ps_panic
  | |- pstep (if _ then _ else _) => apply ps_if
  | |- pstep (bind mark _) => apply ps_mark; intros ? ?
  | |- pstep (bind _ _) => apply ps_bind
  | |- pstep (push_tok _) => apply ps_push_tok; tm
  | |- pstep (insert_token _ _) => apply ps_insert_token; tm
  | |- pstep allow_simple_key => apply ps_allow
  | |- pstep disallow_simple_key => apply ps_disallow
  | |- pstep roll_one_col_indent => apply ps_roll_one
  | |- pstep save_simple_key => apply ps_save
  | |- pstep remove_simple_key => apply ps_remove
  | |- pstep stale_simple_keys => apply ps_stale
  | |- pstep (end_implicit_mapping _) => apply ps_eim; tm
  | |- pstep (check_flow_closer _) => apply ps_check_closer
  | |- pstep increase_flow_level => apply ps_incr
  | |- pstep decrease_flow_level => apply ps_decr
  | |- pstep (roll_indent _ _ _ _) => apply ps_roll_indent; tm
  | |- pstep (unroll_indent _) => apply ps_unroll_indent
  | |- pstep (modify _) => first [apply ps_clear_head | apply ps_modify; intros ?; pos_triv]
  end.
Ltac ps_auto := repeat ps_one.

Ltac spc :=
  match goal with
  | |- same_pos ?a ?a => apply same_pos_refl
  | H : same_pos ?a ?b |- same_pos ?a ?b => exact H
  | H : same_pos ?a ?b |- same_pos ?a ?c => apply (same_pos_trans a b c H); spc
  end.
(* one skeleton step of a sequence *)
Ltac sks :=
  apply swp_bind; cbv beta;
  (eapply run_ps; [solve [ps_auto] | eassumption | assumption | ]);
  let s' := fresh "s" in let HM := fresh "HM" in let SP := fresh "SP" in let QI := fresh "QI" in
  intros s' HM SP QI; cbv beta.
Ltac wb := apply swp_bind; cbv beta.
Ltac wget := apply swp_bind, swp_get; cbv beta.
(* the current mark is a true mark *)
Ltac have_tm :=
  match goal with
  | |- swp _ _ _ ?s =>
      match goal with
      | H : ScanPos.MarkAt _ ?pre s |- _ =>
          let T := fresh "TM" in pose proof (markok_true _ s (ex_intro _ pre H)) as T
      end
  end.
Ltac wmark := apply swp_bind; unfold mark at 1; apply swp_gets; cbv beta; have_tm.
Ltac wpeek := apply swp_bind, swp_peek; cbv beta.
Ltac wpeekn := apply swp_bind, swp_peekn; cbv beta.
Ltac dif := match goal with |- swp _ (if ?b then _ else _) _ _ => destruct b end.
(* skip_non_blank on a character known not to be a break or NUL; leaves the side condition first *)
Ltac wskip :=
  apply swp_bind; cbv beta;
  eapply (pwp_skip_plain_z orig no_nul (skip_non_blank str_ops)); [right; reflexivity | eassumption | |
    let s' := fresh "s" in let HM := fresh "HM" in let R := fresh "R" in let K := fresh "K" in let QI := fresh "QI" in
    intros s' HM R K; assert (QI : QInv s') by (eapply qinv_pkeeps; [exact K|assumption]); cbv beta ].
(* a contract with postcondition [upost] *)
Ltac wupost C :=
  apply swp_bind; cbv beta;
  eapply swp_mono; [apply (C orig no_nul); eexists; eassumption|];
  let a := fresh "a" in let s' := fresh "s" in let pre := fresh "pre" in let HM := fresh "HM" in let K := fresh "K" in
  let QI := fresh "QI" in
  intros a s' [[pre HM] K]; assert (QI : QInv s') by (eapply qinv_pkeeps; [exact K|assumption]); cbv beta.
Ltac wlook :=
  apply swp_bind; cbv beta;
  eapply (pwp_look orig no_nul); [eassumption|];
  let s' := fresh "s" in let HM := fresh "HM" in let R := fresh "R" in let I := fresh "I" in let QI := fresh "QI" in
  intros s' HM R I; assert (QI : QInv s') by (eapply qinv_pkeeps; [apply inonly_pkeeps; exact I|assumption]); cbv beta.

Definition fpost : unit -> sst -> Prop := fun _ s' => MarkOK s' /\ QInv s'.

Lemma fin_push t pre s : MarkAt pre s -> QInv s -> ttok t -> pwp (push_tok t) fpost s.
Proof using no_nul.
  intros HM HQI Ht. unfold push_tok. apply swp_modify. split; [exists pre; eapply markat_same; [exact HM|split; reflexivity]|].
  apply qinv_push; assumption.
Qed.
Ltac fin := cbv beta; eapply fin_push; [eassumption|assumption|tm].

(* a token-returning contract (postcondition [ppost]) followed by push_tok *)
Lemma fin_scan (m : SM token) pre s :
  MarkAt pre s -> QInv s -> pwp m (ppost orig s) s -> pwp (bind m (fun t => push_tok t)) fpost s.
Proof using no_nul.
  intros HM HQI H. apply swp_bind. eapply swp_mono; [exact H|]. intros t s' ([pre' M'] & T' & K'). cbv beta.
  eapply fin_push; [exact M'|eapply qinv_pkeeps; eauto|exact T'].
Qed.

Lemma eqb_breakz c k : (c =? k)%N = true -> is_breakz k = false -> is_breakz c = false.
Proof using. intros E H. apply N.eqb_eq in E. subst c. exact H. Qed.

(* ---------------- fetch_* ---------------- *)
(* What each fetch_* knows about the next character when fetch_next_token calls it is its precondition. *)

Lemma pw_fetch_stream_start s : Mark' s -> QInv s -> pwp fetch_stream_start (fun _ s' => PInv s') s.
Proof using no_nul.
  intros HM [T K]. unfold fetch_stream_start. wget. apply swp_put. split.
  - apply (mark'_ext s); [exact HM|reflexivity|reflexivity].
  - split; sproj.
    + apply Forall_app. split; [exact T|]. constructor; [apply ttok_empty, mark'_true, HM|constructor].
    + constructor; [apply sk_ok_new|exact K].
Qed.

(* once the end of the input has been seen; the mark may be forced to (index, line + 1, 0) *)
Lemma pw_fetch_stream_end s : Ended s -> QInv s -> pwp fetch_stream_end (fun _ s' => Ended s' /\ QInv s') s.
Proof using no_nul.
  intros HE HQI. unfold fetch_stream_end. apply swp_bind, swp_modify.
  match goal with |- swp _ _ _ ?x => set (s1 := x) end.
  assert (E1 : Ended s1) by (subst s1; destruct (m_col (sc_mark s) =? 0)%N; [exact HE|apply (ended_ext s); [exact HE|reflexivity|reflexivity]]).
  assert (Q1 : QInv s1) by (subst s1; destruct (m_col (sc_mark s) =? 0)%N; [exact HQI|apply (qinv_eq s); [reflexivity|reflexivity|exact HQI]]).
  clearbody s1. wget.
  destruct (existsb _ _); [apply swp_fail, ended_true, E1|].
  apply swp_bind, swp_put.
  match goal with |- swp _ _ _ ?x => set (s2 := x) end.
  assert (E2 : Ended s2) by (apply (ended_ext s1); [exact E1|reflexivity|reflexivity]).
  assert (Q2 : QInv s2).
  { destruct Q1 as [T K]. split; [exact T|]. subst s2; sproj. apply Forall_forall. intros k Hk.
    apply in_map_iff in Hk. destruct Hk as [k0 [<- _]]. apply (sk_ok_clr k0). }
  clearbody s2. cbv beta.
  eapply (run_ps' _ _ s2); [solve [ps_auto]|right; exact E2|exact Q2|].
  intros s3 [[pre M3]|E3] SP3 Q3; (split; [|exact Q3]).
  - apply (ended_ext s2); [exact E2|apply same_pos_rem; exact SP3|destruct SP3 as [_ ->]; reflexivity].
  - exact E3.
Qed.

Lemma pw_fetch_directive F pre s :
  MarkAt pre s -> QInv s -> is_breakz (rnth s 0) = false -> pwp (fetch_directive str_ops F) fpost s.
Proof using no_nul H_dir.
  intros HM HQI Hz. unfold fetch_directive. sks. sks. sks.
  eapply fin_scan; [eassumption|assumption|]. apply H_dir; [eexists; eassumption|].
  rewrite (same_pos_rnth s) by spc. exact Hz.
Qed.

Lemma pw_fetch_tag F pre s :
  MarkAt pre s -> QInv s -> rnth s 0 = 33%N -> pwp (fetch_tag str_ops F) fpost s.
Proof using no_nul H_tag.
  intros HM HQI Hz. unfold fetch_tag. sks. sks.
  eapply fin_scan; [eassumption|assumption|]. apply H_tag; [eexists; eassumption|].
  rewrite (same_pos_rnth s) by spc. exact Hz.
Qed.

Lemma pw_fetch_anchor F alias pre s :
  MarkAt pre s -> QInv s -> is_breakz (rnth s 0) = false -> pwp (fetch_anchor str_ops F alias) fpost s.
Proof using no_nul H_anchor.
  intros HM HQI Hz. unfold fetch_anchor. sks. sks.
  eapply fin_scan; [eassumption|assumption|]. apply H_anchor; [eexists; eassumption|].
  rewrite (same_pos_rnth s) by spc. exact Hz.
Qed.

Lemma pw_fetch_block_scalar F literal pre s :
  MarkAt pre s -> QInv s -> is_breakz (rnth s 0) = false -> pwp (fetch_block_scalar str_ops F literal) fpost s.
Proof using no_nul H_block.
  intros HM HQI Hz. unfold fetch_block_scalar. sks. sks.
  eapply fin_scan; [eassumption|assumption|]. apply H_block; [eexists; eassumption|].
  rewrite (same_pos_rnth s) by spc. exact Hz.
Qed.

Lemma pw_fetch_plain_scalar F pre s :
  MarkAt pre s -> QInv s -> pwp (fetch_plain_scalar str_ops F) fpost s.
Proof using no_nul H_plain.
  intros HM HQI. unfold fetch_plain_scalar. sks. sks.
  eapply fin_scan; [eassumption|assumption|]. apply H_plain. eexists; eassumption.
Qed.

Lemma pw_fetch_flow_scalar F single pre s :
  MarkAt pre s -> QInv s -> is_breakz (rnth s 0) = false -> pwp (fetch_flow_scalar str_ops F single) fpost s.
Proof using no_nul H_flow.
  intros HM HQI Hz. unfold fetch_flow_scalar. sks. sks.
  wb. eapply swp_mono; [apply H_flow; [eexists; eassumption|rewrite (same_pos_rnth s) by spc; exact Hz]|].
  intros t s2 ([pre2 M2] & T2 & K2). cbv beta.
  assert (QI2 : QInv s2) by (eapply qinv_pkeeps; eauto).
  wupost pos_skip_to_next_token. sks. fin.
Qed.

Lemma pw_fetch_flow_collection_start F seq pre s :
  MarkAt pre s -> QInv s -> is_breakz (rnth s 0) = false -> pwp (fetch_flow_collection_start str_ops F seq) fpost s.
Proof using no_nul.
  intros HM HQI Hz. unfold fetch_flow_collection_start. sks. sks. sks. sks. wmark.
  wskip; [rewrite (same_pos_rnth s) by spc; exact Hz|].
  sks. wupost pos_skip_ws_to_eol. wmark. fin.
Qed.

Lemma pw_fetch_flow_collection_end F seq pre s :
  MarkAt pre s -> QInv s -> is_breakz (rnth s 0) = false -> pwp (fetch_flow_collection_end str_ops F seq) fpost s.
Proof using no_nul.
  intros HM HQI Hz. unfold fetch_flow_collection_end. sks. sks. sks. sks. sks. sks. wmark.
  wskip; [rewrite (same_pos_rnth s) by spc; exact Hz|].
  wupost pos_skip_ws_to_eol. sks. wmark. fin.
Qed.

Lemma pw_fetch_flow_entry F pre s :
  MarkAt pre s -> QInv s -> is_breakz (rnth s 0) = false -> pwp (fetch_flow_entry str_ops F) fpost s.
Proof using no_nul.
  intros HM HQI Hz. unfold fetch_flow_entry. sks. sks. wmark. sks.
  wskip; [rewrite (same_pos_rnth s) by spc; exact Hz|].
  wupost pos_skip_ws_to_eol. wmark. fin.
Qed.

Lemma pw_fetch_document_indicator t pre s :
  MarkAt pre s -> QInv s -> (forall i, i < 3 -> is_breakz (rnth s i) = false) ->
  pwp (fetch_document_indicator str_ops t) fpost s.
Proof using no_nul.
  intros HM HQI Hz. unfold fetch_document_indicator. sks. sks. sks. wmark.
  wb. eapply (pwp_skip_n_non_blank_z orig no_nul 3); [eassumption| |].
  { intros i Hi. rewrite (same_pos_rnth s) by spc. apply Hz. exact Hi. }
  intros s3 M3 R3 K3. assert (QI3 : QInv s3) by (eapply qinv_pkeeps; eauto). cbv beta.
  wmark. fin.
Qed.

Lemma pw_fetch_block_entry F pre s :
  MarkAt pre s -> QInv s -> is_breakz (rnth s 0) = false -> pwp (fetch_block_entry str_ops F) fpost s.
Proof using no_nul.
  intros HM HQI Hz. unfold fetch_block_entry. wget. have_tm.
  dif; [apply swp_fail; exact TM|]. dif; [apply swp_fail; exact TM|].
  wb. apply swp_mono with (Q := fun _ s' => s' = s).
  { destruct (sc_tokens s) as [|t0 r0] eqn:ET.
    - cbn [last]. apply swp_ret. reflexivity.
    - assert (HL : ttok (last (t0 :: r0) (span_empty mk0, TStreamEnd))).
      { destruct HQI as [T _]. rewrite ET in T. rewrite Forall_forall in T. apply T. apply last_In. discriminate. }
      destruct (last (t0 :: r0) (span_empty mk0, TStreamEnd)) as [sp tk]. destruct HL as [HL _]. cbn [fst] in HL.
      destruct tk; try (apply swp_ret; reflexivity); (dif; [apply swp_fail; exact HL|apply swp_ret; reflexivity]). }
  intros _ s' ->. cbv beta zeta.
  wskip; [exact Hz|]. sks.
  wupost pos_skip_ws_to_eol. wlook. wpeek. wpeekn.
  dif; [wmark; apply swp_fail; exact TM0|].
  wupost pos_skip_ws_to_eol. wlook. wpeek.
  sks. sks. sks. wmark. fin.
Qed.

Lemma pw_fetch_key F pre s :
  MarkAt pre s -> QInv s -> is_breakz (rnth s 0) = false -> pwp (fetch_key str_ops F) fpost s.
Proof using no_nul.
  intros HM HQI Hz. unfold fetch_key. wget. cbv zeta. have_tm. sks. sks. sks.
  wskip; [rewrite (same_pos_rnth s) by spc; exact Hz|].
  wupost pos_skip_yaml_whitespace. wpeek.
  dif; [wmark; apply swp_fail; assumption|]. wmark. fin.
Qed.

Lemma pw_fetch_value F pre s :
  MarkAt pre s -> QInv s -> is_breakz (rnth s 0) = false -> pwp (fetch_value str_ops F) fpost s.
Proof using no_nul.
  intros HM HQI Hz. unfold fetch_value. wget. have_tm.
  destruct (sc_sks s) as [|sk r0] eqn:EK; [wb; apply swp_panic|]. wb. apply swp_ret. cbv beta zeta.
  assert (HK : sk_ok sk). { destruct HQI as [_ K]. rewrite EK in K. inversion K; assumption. }
  match goal with |- context [if ?a then modify _ else ret tt] => generalize a; intros ifm end.
  sks.
  wskip; [rewrite (same_pos_rnth s) by spc; exact Hz|].
  wb. apply swp_mono with (Q := fun _ s' => MarkOK s' /\ QInv s').
  { dif; [|apply swp_ret; split; [eexists; eassumption|assumption]].
    eapply (pwp_look_ch orig no_nul); [eassumption|]. intros s2 M2 R2 I2. split; [eexists; exact M2|].
    eapply qinv_pkeeps; [apply inonly_pkeeps; exact I2|assumption]. }
  intros c s2 [[pre2 M2] QI2]. cbv beta.
  wb. apply swp_mono with (Q := fun _ s' => MarkOK s' /\ QInv s').
  { dif; [|apply swp_ret; split; [eexists; eassumption|assumption]].
    wupost pos_skip_ws_to_eol.
    dif; [|apply swp_ret; split; [eexists; eassumption|assumption]].
    wpeek. dif; [wmark; apply swp_fail; assumption|apply swp_ret; split; [eexists; eassumption|assumption]]. }
  intros _ s3 [[pre3 M3] QI3]. cbv beta.
  destruct (sk_possible sk) eqn:EP.
  - specialize (HK EP). wget. sks. sks. sks. sks. sks. sks. sks. fin.
  - sks. wget. sks. sks. sks. fin.
Qed.

Lemma pw_fetch_flow_value F pre s :
  MarkAt pre s -> QInv s -> is_breakz (rnth s 0) = false -> pwp (fetch_flow_value str_ops F) fpost s.
Proof using no_nul.
  intros HM HQI Hz. unfold fetch_flow_value. wpeekn. wget. have_tm.
  dif; [apply swp_fail; exact TM|]. eapply pw_fetch_value; eassumption.
Qed.

(* ---------------- fetch_next_token ---------------- *)
(* with nothing left to read skip_to_next_token returns at once *)
Lemma ended_skip_to_next_token F s :
  Ended s -> pwp (skip_to_next_token str_ops F) (fun _ s' => Ended s' /\ pkeeps s s') s.
Proof using.
  intros HE. destruct F as [|F]; [exact I|]. cbn [skip_to_next_token].
  apply swp_bind, swp_look_ch. intros s1 R1 I1. fold (inonly s s1) in I1.
  assert (E1 : Ended s1) by (apply (ended_ext s); [exact HE|exact R1|rewrite (inonly_mark _ _ I1); reflexivity]).
  rewrite (ended_rnth s1 0 E1).
  apply swp_bind, swp_get. apply swp_bind. unfold is_within_block. apply swp_gets. cbv beta.
  cbn [N.eqb andb orb]. apply swp_ret. split; [exact E1|apply inonly_pkeeps; exact I1].
Qed.
Lemma mark'_skip_to_next_token F s :
  Mark' s -> pwp (skip_to_next_token str_ops F) (fun _ s' => Mark' s' /\ pkeeps s s') s.
Proof using no_nul.
  intros [HM|HE].
  - eapply swp_mono; [apply (pos_skip_to_next_token orig no_nul); exact HM|]. intros a s' [M' K']. split; [left; exact M'|exact K'].
  - eapply swp_mono; [apply ended_skip_to_next_token; exact HE|]. intros a s' [E' K']. split; [right; exact E'|exact K'].
Qed.

Lemma swp_next_3_are E a b c (Q : bool -> sst -> Prop) s :
  (forall r, (r = true -> rnth s 0 = a /\ rnth s 1 = b /\ rnth s 2 = c) -> Q r s) -> swp E (next_3_are str_ops a b c) Q s.
Proof using.
  intros HQ. unfold next_3_are. apply swp_bind, swp_assert_buflen. apply swp_bind, swp_peek.
  apply swp_bind, swp_peekn. apply swp_bind, swp_peekn. apply swp_ret. apply HQ. intros H.
  apply andb_true_iff in H as [H H3]. apply andb_true_iff in H as [H1 H2].
  apply N.eqb_eq in H1, H2, H3. auto.
Qed.
Lemma swp_next_is_document_start E (Q : bool -> sst -> Prop) s :
  (forall r, (r = true -> rnth s 0 = 45%N /\ rnth s 1 = 45%N /\ rnth s 2 = 45%N) -> Q r s) ->
  swp E (next_is_document_start str_ops) Q s.
Proof using.
  intros HQ. unfold next_is_document_start. apply swp_bind, swp_assert_buflen. apply swp_bind, swp_next_3_are.
  intros d Hd. destruct d.
  - apply swp_bind, swp_peekn. apply swp_ret. apply HQ. intros _. apply Hd. reflexivity.
  - apply swp_ret. apply HQ. discriminate.
Qed.
Lemma swp_next_is_document_end E (Q : bool -> sst -> Prop) s :
  (forall r, (r = true -> rnth s 0 = 46%N /\ rnth s 1 = 46%N /\ rnth s 2 = 46%N) -> Q r s) ->
  swp E (next_is_document_end str_ops) Q s.
Proof using.
  intros HQ. unfold next_is_document_end. apply swp_bind, swp_assert_buflen. apply swp_bind, swp_next_3_are.
  intros d Hd. destruct d.
  - apply swp_bind, swp_peekn. apply swp_ret. apply HQ. intros _. apply Hd. reflexivity.
  - apply swp_ret. apply HQ. discriminate.
Qed.
Lemma three_nonbreak s k : is_breakz k = false -> rnth s 0 = k /\ rnth s 1 = k /\ rnth s 2 = k ->
  forall i, i < 3 -> is_breakz (rnth s i) = false.
Proof using.
  intros Hk (A & B & C) i Hi. destruct i as [|[|[|i]]]; [rewrite A|rewrite B|rewrite C|lia]; exact Hk.
Qed.

Lemma fpost_pinv (m : SM unit) s : pwp m fpost s -> pwp m (fun _ s' => PInv s') s.
Proof using. intros H. eapply swp_mono; [exact H|]. intros a s' [M' Q']. split; [left; exact M'|exact Q']. Qed.

Ltac charfact Eb :=
  repeat (apply andb_true_iff in Eb; destruct Eb as [Eb _]);
  first [ eapply eqb_breakz; [exact Eb|reflexivity] | apply N.eqb_eq; exact Eb ].
(* one branch of the dispatch: [Eb] is the condition that selected it *)
Ltac disp Eb :=
  lazymatch goal with
  | |- swp _ (fail _ _) _ _ => apply swp_fail; assumption
  | |- swp _ (fetch_flow_collection_start _ _ _) _ _ =>
      apply fpost_pinv; eapply pw_fetch_flow_collection_start; [eassumption|assumption|charfact Eb]
  | |- swp _ (fetch_flow_collection_end _ _ _) _ _ =>
      apply fpost_pinv; eapply pw_fetch_flow_collection_end; [eassumption|assumption|charfact Eb]
  | |- swp _ (fetch_flow_entry _ _) _ _ => apply fpost_pinv; eapply pw_fetch_flow_entry; [eassumption|assumption|charfact Eb]
  | |- swp _ (fetch_block_entry _ _) _ _ => apply fpost_pinv; eapply pw_fetch_block_entry; [eassumption|assumption|charfact Eb]
  | |- swp _ (fetch_key _ _) _ _ => apply fpost_pinv; eapply pw_fetch_key; [eassumption|assumption|charfact Eb]
  | |- swp _ (fetch_value _ _) _ _ => apply fpost_pinv; eapply pw_fetch_value; [eassumption|assumption|charfact Eb]
  | |- swp _ (fetch_flow_value _ _) _ _ => apply fpost_pinv; eapply pw_fetch_flow_value; [eassumption|assumption|charfact Eb]
  | |- swp _ (fetch_anchor _ _ _) _ _ => apply fpost_pinv; eapply pw_fetch_anchor; [eassumption|assumption|charfact Eb]
  | |- swp _ (fetch_tag _ _) _ _ => apply fpost_pinv; eapply pw_fetch_tag; [eassumption|assumption|charfact Eb]
  | |- swp _ (fetch_block_scalar _ _ _) _ _ => apply fpost_pinv; eapply pw_fetch_block_scalar; [eassumption|assumption|charfact Eb]
  | |- swp _ (fetch_flow_scalar _ _ _) _ _ => apply fpost_pinv; eapply pw_fetch_flow_scalar; [eassumption|assumption|charfact Eb]
  | |- swp _ (fetch_plain_scalar _ _) _ _ => apply fpost_pinv; eapply pw_fetch_plain_scalar; [eassumption|assumption]
  end.

Lemma pw_fetch_next_token F s : PInv s -> pwp (fetch_next_token str_ops F) (fun _ s' => PInv s') s.
Proof using no_nul H_dir H_tag H_anchor H_flow H_plain H_block.
  intros [HM HQI]. unfold fetch_next_token.
  apply swp_bind, swp_look. intros s1 R1 I1. fold (inonly s s1) in I1.
  assert (M1 : Mark' s1) by (apply (mark'_ext s); [exact HM|exact R1|apply inonly_mark; exact I1]).
  assert (QI1 : QInv s1) by (eapply qinv_pkeeps; [apply inonly_pkeeps; exact I1|exact HQI]).
  wget.
  destruct (sc_stream_start s1); cbn [negb]; [|apply pw_fetch_stream_start; assumption].
  wb. eapply swp_mono; [apply mark'_skip_to_next_token; exact M1|]. intros u2 s2 [M2 K2]. cbv beta.
  assert (QI2 : QInv s2) by (eapply qinv_pkeeps; eauto).
  wb. eapply run_ps'; [solve [ps_auto]|exact M2|exact QI2|]. intros s3 M3 SP3 QI3. cbv beta.
  apply swp_bind. unfold mark at 1. apply swp_gets. cbv beta.
  wb. eapply run_ps'; [solve [ps_auto]|exact M3|exact QI3|]. intros s4 M4 SP4 QI4. cbv beta.
  apply swp_bind, swp_look. intros s5 R5 I5. fold (inonly s4 s5) in I5.
  assert (M5 : Mark' s5) by (apply (mark'_ext s4); [exact M4|exact R5|apply inonly_mark; exact I5]).
  assert (QI5 : QInv s5) by (eapply qinv_pkeeps; [apply inonly_pkeeps; exact I5|exact QI4]).
  wb. unfold next_is at 1. apply swp_bind, swp_peek. apply swp_ret. cbv beta.
  destruct (is_z (rnth s5 0)) eqn:Z.
  { (* the end of the input *)
    assert (E5 : Ended s5).
    { destruct M5 as [[pre HM5]|E5]; [|exact E5]. apply (markat_z_ended pre); [exact HM5|].
      unfold is_z in Z. apply N.eqb_eq in Z. exact Z. }
    eapply swp_mono; [apply pw_fetch_stream_end; assumption|]. intros u s6 [E6 Q6]. split; [right; exact E6|exact Q6]. }
  destruct M5 as [[pre HM5]|E5]; [|rewrite (ended_rnth s5 0 E5) in Z; discriminate Z].
  assert (NZ : rnth s5 0 <> 0%N) by (unfold is_z in Z; apply N.eqb_neq in Z; exact Z).
  wget. have_tm. wpeek.
  (* document start / end indicators *)
  wb. apply swp_mono with (Q := fun (b : bool) s' => s' = s5 /\ (b = true -> forall i, i < 3 -> is_breakz (rnth s5 i) = false)).
  { repeat dif; try (apply swp_ret; split; [reflexivity|discriminate]).
    apply swp_next_is_document_start. intros r Hr. split; [reflexivity|]. intros Er. apply (three_nonbreak s5 45%N); [reflexivity|auto]. }
  intros dstart s' [-> Hds]. cbv beta.
  wb. apply swp_mono with (Q := fun (b : bool) s' => s' = s5 /\ (b = true -> forall i, i < 3 -> is_breakz (rnth s5 i) = false)).
  { repeat dif; try (apply swp_ret; split; [reflexivity|discriminate]).
    apply swp_next_is_document_end. intros r Hr. split; [reflexivity|]. intros Er. apply (three_nonbreak s5 46%N); [reflexivity|auto]. }
  intros dend s' [-> Hde]. cbv beta.
  match goal with |- swp _ (if ?b then _ else _) _ _ => destruct b eqn:ED end.
  { apply andb_true_iff in ED as [_ ED]. apply fpost_pinv. eapply pw_fetch_directive; [eassumption|assumption|].
    eapply eqb_breakz; [exact ED|reflexivity]. }
  destruct dstart.
  { apply fpost_pinv. eapply pw_fetch_document_indicator; [eassumption|assumption|apply Hds; reflexivity]. }
  destruct dend.
  { wb. eapply swp_mono; [eapply pw_fetch_document_indicator; [eassumption|assumption|apply Hde; reflexivity]|].
    intros u6 s6 [[pre6 HM6] QI6]. cbv beta.
    wupost pos_skip_ws_to_eol.
    wb. unfold next_is at 1. apply swp_bind, swp_peek. apply swp_ret. cbv beta.
    dif; [apply swp_ret; split; [left; eexists; eassumption|assumption]|wmark; apply swp_fail; assumption]. }
  dif; [apply swp_fail; exact TM|].
  wpeek. wpeekn. cbv zeta.
  (* the dispatch on the next character: every branch knows which character it is about to consume *)
  repeat match goal with
  | |- swp _ (if ?b then _ else _) _ _ => let Eb := fresh "Eb" in destruct b eqn:Eb; [solve [disp Eb]|]
  end.
  disp TM.
Qed.

(* ---------------- fetch_more_tokens, next_token, scan_all ---------------- *)
Lemma pw_fetch_more_tokens F : forall fuel s,
  PInv s -> pwp (fetch_more_tokens str_ops F fuel) (fun _ s' => PInv s') s.
Proof using no_nul H_dir H_tag H_anchor H_flow H_plain H_block.
  induction fuel as [|fuel IH]; intros s [HM HQI]; cbn [fetch_more_tokens]; [apply swp_oof|].
  wget.
  wb. apply swp_mono with (Q := fun (_ : bool) s' => PInv s').
  - destruct (sc_tokens s) as [|t r]; [apply swp_ret; split; assumption|].
    wb. eapply run_ps'; [solve [ps_auto]|exact HM|exact HQI|]. intros s1 M1 SP1 QI1. cbv beta.
    wget. apply swp_ret. split; assumption.
  - intros need s1 [M1 QI1]. cbv beta. destruct need.
    + wb. eapply swp_mono; [apply pw_fetch_next_token; split; assumption|]. intros u2 s2 P2. cbv beta.
      apply IH. exact P2.
    + apply swp_modify. split; [apply (mark'_ext s1); [exact M1|reflexivity|reflexivity]|].
      apply (qinv_eq s1); [reflexivity|reflexivity|exact QI1].
Qed.

Lemma pw_next_token F s :
  PInv s -> pwp (next_token str_ops F) (fun o s' => PInv s' /\ (forall t, o = Some t -> ttok t)) s.
Proof using no_nul H_dir H_tag H_anchor H_flow H_plain H_block.
  intros HP. unfold next_token. wget.
  destruct (sc_stream_end s); [apply swp_ret; split; [exact HP|discriminate]|].
  wb. apply swp_mono with (Q := fun _ s' => PInv s').
  { destruct (sc_token_available s); [apply swp_ret; exact HP|apply pw_fetch_more_tokens; exact HP]. }
  intros _ s1 [M1 QI1]. cbv beta. wget.
  destruct (sc_tokens s1) as [|t r] eqn:ETK; [apply swp_fail, mark'_true, M1|].
  destruct QI1 as [T1 K1]. rewrite ETK in T1. inversion T1 as [|t' r' Ht Hr]; subst t' r'.
  apply swp_bind, swp_put.
  match goal with |- swp _ _ _ ?x => set (s2 := x) end.
  assert (P2 : PInv s2).
  { split; [apply (mark'_ext s1); [exact M1|reflexivity|reflexivity]|]. split; subst s2; sproj; assumption. }
  clearbody s2. cbv beta.
  wb. apply swp_mono with (Q := fun _ s' => PInv s').
  { destruct (snd t); try (apply swp_ret; exact P2).
    apply swp_modify. destruct P2 as [M2 Q2]. split; [apply (mark'_ext s2); [exact M2|reflexivity|reflexivity]|].
    apply (qinv_eq s2); [reflexivity|reflexivity|exact Q2]. }
  intros _ s3 P3. cbv beta. apply swp_ret. split; [exact P3|]. intros t0 Et. injection Et as <-. exact Ht.
Qed.

Lemma scan_all_pos F : forall fuel s acc,
  PInv s -> Forall ttok acc ->
  let '(toks, se) := scan_all str_ops F fuel s acc in
  Forall ttok toks /\ (forall site m, se = SError site m -> tmark m).
Proof using no_nul H_dir H_tag H_anchor H_flow H_plain H_block.
  induction fuel as [|fuel IH]; intros s acc HP HA; cbn [scan_all].
  - split; [apply Forall_rev; exact HA|discriminate].
  - pose proof (pw_next_token F s HP) as W. unfold swp in W.
    destruct (next_token str_ops F s) as [[[t|] s']| | |].
    + destruct W as [P' Ht]. apply IH; [exact P'|]. constructor; [apply Ht; reflexivity|exact HA].
    + split; [apply Forall_rev; exact HA|discriminate].
    + split; [apply Forall_rev; exact HA|]. intros site0 m0 E. injection E as _ <-. exact W.
    + split; [apply Forall_rev; exact HA|discriminate].
    + split; [apply Forall_rev; exact HA|discriminate].
Qed.

Lemma pinv_init : PInv (init_sc {| si_chars := orig; si_look := 0 |}).
Proof using.
  split; [left; exists []|split; constructor].
  unfold ScanPos.MarkAt, rem, init_sc; cbn [sc_in sc_mark si_chars m_index m_line m_col app length]. rewrite pos_go_0.
  repeat split.
Qed.

Theorem scan_all_true_positions : forall F fuel,
  let '(toks, se) := scan_all str_ops F fuel (init_sc {| si_chars := orig; si_look := 0 |}) [] in
  Forall (true_tok orig) toks /\ (forall site m, se = SError site m -> true_mark orig m).
Proof using no_nul H_dir H_tag H_anchor H_flow H_plain H_block.
  intros F fuel. apply scan_all_pos; [apply pinv_init|constructor].
Qed.

End PosFetch.
Print Assumptions scan_all_true_positions.
