(* C01, bounded work: what the character-level scanners leave alone (definitions).
   [fkeeps s s']: the token queue, the token counter, the stream flags, the simple keys, the flow level, the implicit
   flow-mapping states are unchanged and the indent stack still holds the same number of records that need a BlockEnd
   (scan_plain_scalar and scan_block_scalar pop the records that do NOT need one: unroll_non_block_indents).
   [frames m]: every normal return of [m] is related to its start state by [fkeeps] (no precondition, any input
   back-end, any fuel).  Proved for the nine character-level entry points in ScanFuelFrame.v. *)
From Coq Require Import List NArith ZArith Bool Arith Lia.
Import ListNotations.
Require Import Parser SBase SPrim.
Local Open Scope nat_scope.

(* the number of indent records that will produce a BlockEnd token when they are unrolled *)
Fixpoint npend (l : list indent_rec) : nat :=
  match l with
  | [] => 0
  | i :: r => (if in_needs_block_end i then 1 else 0) + npend r
  end.

Lemma npend_unroll_nb : forall l ind, npend (snd (unroll_nb l ind)) = npend l.
Proof.
  induction l as [|i r IH]; intros ind; cbn [unroll_nb]; [reflexivity|].
  destruct (in_needs_block_end i) eqn:E; cbn [snd]; [reflexivity|]. rewrite IH. cbn [npend]. rewrite E. reflexivity.
Qed.

Section FrameDef.
Context {I : Type}.

Definition fkeeps (s s' : sc I) : Prop :=
  sc_tokens s' = sc_tokens s /\ sc_tokens_parsed s' = sc_tokens_parsed s
  /\ sc_stream_start s' = sc_stream_start s /\ sc_stream_end s' = sc_stream_end s
  /\ sc_sks s' = sc_sks s /\ sc_flow_level s' = sc_flow_level s /\ sc_ifms s' = sc_ifms s
  /\ npend (sc_indents s') = npend (sc_indents s).

Lemma fkeeps_refl s : fkeeps s s.
Proof. unfold fkeeps. repeat split; reflexivity. Qed.
Lemma fkeeps_trans s1 s2 s3 : fkeeps s1 s2 -> fkeeps s2 s3 -> fkeeps s1 s3.
Proof.
  unfold fkeeps. intros (A1 & A2 & A3 & A4 & A5 & A6 & A7 & A8) (B1 & B2 & B3 & B4 & B5 & B6 & B7 & B8).
  repeat split; congruence.
Qed.

Definition frames {A} (m : @M I A) : Prop := forall s a s', m s = Ok (a, s') -> fkeeps s s'.

End FrameDef.
