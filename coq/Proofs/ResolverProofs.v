From Coq Require Import List NArith ZArith Bool Lia.
Import ListNotations.
Require Import Resolver CoreSchema CoreNumber.
Open Scope Z_scope.
Arguments N.eqb : simpl never.

(* ---- the generated tables (Gen/ResolverTables.v, re-translated from the Rust sources on every run)
        are exactly what the proofs below are about; an edited table breaks here ---- *)
Lemma tbl_pos_inf : f64_pos_inf_words = [s_dinf; s_dInf; s_dINF; 43%N :: s_dinf; 43%N :: s_dInf; 43%N :: s_dINF].
Proof. reflexivity. Qed.
Lemma tbl_neg_inf : f64_neg_inf_words = [45%N :: s_dinf; 45%N :: s_dInf; 45%N :: s_dINF].
Proof. reflexivity. Qed.
Lemma tbl_nan : f64_nan_words = [s_dnan; s_dNaN; s_dNAN].
Proof. reflexivity. Qed.
Lemma tbl_null : null_words = [s_tilde; s_null; s_NULL].
Proof. reflexivity. Qed.
Lemma tbl_true : true_words = [s_true].
Proof. reflexivity. Qed.
Lemma tbl_false : false_words = [s_false].
Proof. reflexivity. Qed.
Lemma tbl_prefixes : int_prefixes = [([48;120]%N, 16%N); ([48;111]%N, 8%N); ([43]%N, 10%N)].
Proof. reflexivity. Qed.
Lemma tbl_guarded : f64_guarded = true.
Proof. reflexivity. Qed.
Lemma float_char_eq c : float_char c = (is_dig c || ch c 43 || ch c 45 || ch c 46 || ch c 101 || ch c 69).
Proof.
  unfold float_char, in_ranges, f64_guard_chars, is_dig, ch. cbn [existsb fst snd].
  rewrite orb_false_r.
  assert (E : forall k, ((k <=? c)%N && (c <=? k)%N) = N.eqb c k).
  { intros k. destruct (N.eqb_spec c k) as [->|Hne].
    - rewrite N.leb_refl. reflexivity.
    - destruct (N.leb_spec k c), (N.leb_spec c k); cbn; try reflexivity. exfalso; lia. }
  rewrite !E. rewrite !orb_assoc. reflexivity.
Qed.

(* ---- lemmas ---- *)
Lemma str_eqb_eq a b : str_eqb a b = true -> a = b.
Proof. unfold str_eqb. destruct (list_eq_dec N.eq_dec a b); congruence. Qed.

Lemma to_digit_10 c d : to_digit 10 c = Some d -> is_dig c = true.
Proof.
  unfold to_digit, is_dig. destruct ((48 <=? c)%N && (c <=? 57)%N) eqn:E; [auto|].
  destruct ((97 <=? c)%N && (c <=? 122)%N) eqn:E2.
  - apply andb_true_iff in E2 as [A B]. apply N.leb_le in A.
    destruct (c - 97 + 10 <? 10)%N eqn:L; [apply N.ltb_lt in L; lia | discriminate].
  - destruct ((65 <=? c)%N && (c <=? 90)%N) eqn:E3; [|discriminate].
    apply andb_true_iff in E3 as [A B]. apply N.leb_le in A.
    destruct (c - 65 + 10 <? 10)%N eqn:L; [apply N.ltb_lt in L; lia | discriminate].
Qed.

Lemma digits_val_all r p s acc v :
  (forall c d, to_digit r c = Some d -> p c = true) ->
  digits_val r s acc = Some v -> forallb p s = true.
Proof.
  intros Hp. revert acc. induction s as [|c s IH]; intros acc H; [reflexivity|].
  cbn in H |- *. destruct (to_digit r c) eqn:E; [|discriminate].
  rewrite (Hp _ _ E). cbn. eauto.
Qed.

Lemma to_digit_8 c d : to_digit 8 c = Some d -> is_oct c = true.
Proof.
  unfold to_digit, is_oct. destruct ((48 <=? c)%N && (c <=? 57)%N) eqn:E.
  - apply andb_true_iff in E as [A B]. destruct (c - 48 <? 8)%N eqn:L; [|discriminate].
    intros _. apply N.ltb_lt in L. apply N.leb_le in A. apply andb_true_iff; split; apply N.leb_le; lia.
  - destruct ((97 <=? c)%N && (c <=? 122)%N) eqn:E2.
    + apply andb_true_iff in E2 as [A B]. apply N.leb_le in A.
      destruct (c - 97 + 10 <? 8)%N eqn:L; [apply N.ltb_lt in L; lia | discriminate].
    + destruct ((65 <=? c)%N && (c <=? 90)%N) eqn:E3; [|discriminate].
      apply andb_true_iff in E3 as [A B]. apply N.leb_le in A.
      destruct (c - 65 + 10 <? 8)%N eqn:L; [apply N.ltb_lt in L; lia | discriminate].
Qed.

Lemma to_digit_16 c d : to_digit 16 c = Some d -> is_hexd c = true.
Proof.
  unfold to_digit, is_hexd, is_dig. destruct ((48 <=? c)%N && (c <=? 57)%N) eqn:E; [reflexivity|].
  destruct ((97 <=? c)%N && (c <=? 122)%N) eqn:E2.
  - apply andb_true_iff in E2 as [A B]. apply N.leb_le in A.
    destruct (c - 97 + 10 <? 16)%N eqn:L; [|discriminate]. intros _. apply N.ltb_lt in L.
    assert (H1 : (97 <=? c)%N = true) by (apply N.leb_le; lia).
    assert (H2 : (c <=? 102)%N = true) by (apply N.leb_le; lia).
    rewrite H1, H2. cbn. reflexivity.
  - destruct ((65 <=? c)%N && (c <=? 90)%N) eqn:E3; [|discriminate].
    apply andb_true_iff in E3 as [A B]. apply N.leb_le in A.
    destruct (c - 65 + 10 <? 16)%N eqn:L; [|discriminate]. intros _. apply N.ltb_lt in L.
    assert (H1 : (65 <=? c)%N = true) by (apply N.leb_le; lia).
    assert (H2 : (c <=? 70)%N = true) by (apply N.leb_le; lia).
    rewrite H1, H2. rewrite orb_true_r. reflexivity.
Qed.

(* an unsigned from_str_radix result is exactly the digit value, with all digits in the class *)
Lemma from_str_radix_ns_spec s r p v :
  (forall c d, to_digit r c = Some d -> p c = true) ->
  from_str_radix_ns s r = Some v ->
  nonempty s = true /\ forallb p s = true /\ digits_val r s 0 = Some v.
Proof.
  intros Hp. unfold from_str_radix_ns, from_str_radix. destruct s as [|c s]; [discriminate|].
  cbn [starts_signed]. destruct (ch c 43 || ch c 45) eqn:S; [discriminate|].
  apply orb_false_iff in S as [S1 S2]. rewrite S1, S2.
  destruct (digits_val r (c :: s) 0) eqn:D; [|discriminate].
  destruct ((i64_min <=? z) && (z <=? i64_max)); [|discriminate].
  intros H; inversion H; subst. repeat split; auto. eapply digits_val_all; eauto.
Qed.

Definition sound (s : str) (r : scalar) : Prop :=
  match r with
  | SNull => core_null s = true
  | SBool b => core_bool s = Some b
  | SInt z => core_int s = Some z
  | SFloat f => core_float s = Some f
  | SStr t => t = s
  end.

Lemma strip_prefix_app p s r : strip_prefix p s = Some r -> s = p ++ r.
Proof.
  revert s. induction p as [|a p IH]; intros s H; cbn in H.
  - inversion H; reflexivity.
  - destruct s as [|b s]; [discriminate|]. destruct (N.eqb a b) eqn:E; [|discriminate].
    apply N.eqb_eq in E. subst. cbn. f_equal. apply IH. exact H.
Qed.

Lemma inl_in s l : inl s l = true -> In s l.
Proof.
  unfold inl. intros H. apply existsb_exists in H as [x [Hin He]]. apply str_eqb_eq in He. subst. exact Hin.
Qed.

(* decimal digits exclude the letters of the radix prefixes *)
Lemma digits10_first c s acc v : digits_val 10 (c :: s) acc = Some v -> is_dig c = true.
Proof. cbn. destruct (to_digit 10 c) eqn:E; [|discriminate]. intros _. eapply to_digit_10; eauto. Qed.

Lemma core_int_plus ds :
  core_int (43%N :: ds) = if nonempty ds && all_in is_dig ds
                          then match digits_val 10 ds 0 with Some v => Some v | None => None end else None.
Proof. reflexivity. Qed.
Lemma core_int_minus ds :
  core_int (45%N :: ds) = if nonempty ds && all_in is_dig ds
                          then match digits_val 10 ds 0 with Some v => Some (- v) | None => None end else None.
Proof. reflexivity. Qed.

Lemma parse_i64_sound v i : parse_i64 v = Some i -> core_int v = Some i.
Proof.
  unfold parse_i64, from_str_radix. destruct v as [|c r]; [discriminate|].
  destruct (ch c 43) eqn:P.
  - (* '+' *) apply N.eqb_eq in P. subst c. destruct r as [|d r]; [discriminate|].
    destruct (digits_val 10 (d :: r) 0) eqn:D; [|discriminate].
    destruct ((i64_min <=? z) && (z <=? i64_max)); [|discriminate]. intros H; inversion H; subst.
    rewrite core_int_plus. unfold all_in. rewrite (digits_val_all 10 is_dig (d :: r) 0 i to_digit_10 D). cbn [nonempty andb]. rewrite D. reflexivity.
  - destruct (ch c 45) eqn:Mi.
    + apply N.eqb_eq in Mi. subst c. destruct r as [|d r]; [discriminate|].
      destruct (digits_val 10 (d :: r) 0) eqn:D; [|discriminate].
      destruct ((i64_min <=? - z) && (- z <=? i64_max)); [|discriminate]. intros H; inversion H; subst.
      rewrite core_int_minus. unfold all_in. rewrite (digits_val_all 10 is_dig (d :: r) 0 z to_digit_10 D). cbn [nonempty andb]. rewrite D. reflexivity.
    + destruct (digits_val 10 (c :: r) 0) eqn:D; [|discriminate].
      destruct ((i64_min <=? z) && (z <=? i64_max)); [|discriminate]. intros H; inversion H; subst.
      pose proof (digits_val_all 10 is_dig (c :: r) 0 i to_digit_10 D) as HA.
      (* c is a decimal digit; if it is '0' the next char is a digit too, so no 0x / 0o prefix *)
      assert (SP1 : strip_prefix [48;120]%N (c :: r) = None).
      { cbn [strip_prefix]. destruct (N.eqb 48 c) eqn:E0; [|reflexivity]. destruct r as [|d r]; [reflexivity|].
        destruct (N.eqb 120 d) eqn:E1; [|reflexivity]. apply N.eqb_eq in E1. subst d.
        cbn [forallb] in HA. rewrite !andb_true_iff in HA. destruct HA as [_ [HA _]]. vm_compute in HA. discriminate. }
      assert (SP2 : strip_prefix [48;111]%N (c :: r) = None).
      { cbn [strip_prefix]. destruct (N.eqb 48 c) eqn:E0; [|reflexivity]. destruct r as [|d r]; [reflexivity|].
        destruct (N.eqb 111 d) eqn:E1; [|reflexivity]. apply N.eqb_eq in E1. subst d.
        cbn [forallb] in HA. rewrite !andb_true_iff in HA. destruct HA as [_ [HA _]]. vm_compute in HA. discriminate. }
      unfold core_int.
      rewrite SP1, SP2. unfold sign_split. rewrite P, Mi. cbv beta iota. unfold all_in. rewrite HA. cbn [nonempty andb]. rewrite D. reflexivity.
Qed.

Lemma float_char_inf_list b : forallb float_char b = true -> inl b [s_dinf; s_dInf; s_dINF] = false.
Proof.
  intros H. destruct (inl b [s_dinf; s_dInf; s_dINF]) eqn:E; [|reflexivity].
  apply inl_in in E. cbn in E. destruct E as [<-|[<-|[<-|[]]]]; vm_compute in H; discriminate.
Qed.
Lemma float_char_nan_list b : forallb float_char b = true -> inl b [s_dnan; s_dNaN; s_dNAN] = false.
Proof.
  intros H. destruct (inl b [s_dnan; s_dNaN; s_dNAN]) eqn:E; [|reflexivity].
  apply inl_in in E. cbn in E. destruct E as [<-|[<-|[<-|[]]]]; vm_compute in H; discriminate.
Qed.

Lemma lower_float_char c : float_char c = true -> lower c <> 105%N /\ lower c <> 110%N.
Proof.
  rewrite float_char_eq. unfold lower, is_dig, ch. intros H.
  repeat (apply orb_true_iff in H; destruct H as [H|H]);
    try (apply N.eqb_eq in H; subst c; vm_compute; split; discriminate).
  apply andb_true_iff in H as [A B]. apply N.leb_le in A, B.
  assert (E : ((65 <=? c)%N && (c <=? 90)%N) = false).
  { apply andb_false_iff. left. apply N.leb_gt. lia. }
  rewrite E. split; lia.
Qed.

Lemma ieq_float_char body w c0 :
  forallb float_char body = true -> hd_error w = Some c0 -> (c0 = 105%N \/ c0 = 110%N) -> ieq body w = false.
Proof.
  intros HF Hw Hc. unfold ieq. destruct (str_eqb (map lower body) w) eqn:E; [|reflexivity].
  apply str_eqb_eq in E. destruct body as [|b body]; [subst w; discriminate|].
  cbn in E. subst w. cbn in Hw. inversion Hw; subst c0.
  cbn in HF. apply andb_true_iff in HF as [HF _].
  destruct (lower_float_char _ HF) as [A B]. destruct Hc; congruence.
Qed.

Lemma sign_split_float_char v : forallb float_char v = true -> forallb float_char (snd (sign_split v)) = true.
Proof.
  destruct v as [|c r]; [reflexivity|]. cbn [sign_split]. intros H. cbn in H. apply andb_true_iff in H as [_ H].
  destruct (ch c 43); [exact H|]. destruct (ch c 45); [exact H|]. cbn. rewrite H.
  cbn in *. assumption || (apply andb_true_iff; split; auto).
Abort.

Lemma rust_f64_sound v f :
  forallb float_char v = true -> rust_parse_f64 v = Some f -> core_float v = Some f.
Proof.
  intros HF. unfold rust_parse_f64, core_float. destruct v as [|c r]; [discriminate|].
  match goal with |- context [inl ?v ?l] => replace (inl v l) with false by (symmetry; apply float_char_nan_list; exact HF) end.
  unfold sign_split.
  assert (HB : forall neg body, (if ch c 43 then (false, r) else if ch c 45 then (true, r) else (false, c :: r)) = (neg, body) ->
                                forallb float_char body = true).
  { intros neg body E. cbn in HF. apply andb_true_iff in HF as [H1 H2].
    destruct (ch c 43); [inversion E; subst; exact H2|]. destruct (ch c 45); inversion E; subst; [exact H2|].
    cbn. rewrite H1, H2. reflexivity. }
  match goal with |- (let '(_, _) := ?X in _) = _ -> _ => destruct X as [neg body] eqn:E end.
  specialize (HB neg body E). cbv beta iota.
  rewrite (ieq_float_char body w_inf 105%N HB eq_refl (or_introl eq_refl)).
  rewrite (ieq_float_char body w_infinity 105%N HB eq_refl (or_introl eq_refl)).
  rewrite (ieq_float_char body w_nan 110%N HB eq_refl (or_intror eq_refl)).
  cbn [orb]. intros H.
  match goal with |- (let '(_, _) := ?X in _) = _ => replace X with (neg, body) by (symmetry; exact E) end.
  cbv beta iota.
  match goal with |- context [inl body ?l] => replace (inl body l) with false by (symmetry; apply float_char_inf_list; exact HB) end.
  rewrite <- rust_number_core. destruct (rust_number body) as [[m e]|]; [exact H|discriminate].
Qed.

Lemma parse_f64_sound v f : parse_f64 v = Some f -> core_float v = Some f.
Proof.
  unfold parse_f64. rewrite tbl_pos_inf, tbl_neg_inf, tbl_nan, tbl_guarded.
  destruct (inl v _) eqn:E1.
  { intros H; inversion H; subst. apply inl_in in E1. cbn in E1.
    destruct E1 as [<-|[<-|[<-|[<-|[<-|[<-|[]]]]]]]; reflexivity. }
  destruct (inl v [45%N :: s_dinf; 45%N :: s_dInf; 45%N :: s_dINF]) eqn:E2.
  { intros H; inversion H; subst. apply inl_in in E2. cbn in E2.
    destruct E2 as [<-|[<-|[<-|[]]]]; reflexivity. }
  destruct (inl v [s_dnan; s_dNaN; s_dNAN]) eqn:E3.
  { intros H; inversion H; subst. apply inl_in in E3. cbn in E3.
    destruct E3 as [<-|[<-|[<-|[]]]]; reflexivity. }
  destruct (forallb float_char v) eqn:HF; [|discriminate].
  apply rust_f64_sound; exact HF.
Qed.

Lemma parse_tail_sound v : sound v (parse_tail v).
Proof.
  unfold parse_tail. rewrite tbl_null, tbl_true, tbl_false.
  destruct (inl v [s_tilde; s_null; s_NULL]) eqn:E1.
  { apply inl_in in E1. cbn in E1. destruct E1 as [<-|[<-|[<-|[]]]]; reflexivity. }
  destruct (inl v [s_true]) eqn:E2; [apply inl_in in E2; cbn in E2; destruct E2 as [<-|[]]; reflexivity|].
  destruct (inl v [s_false]) eqn:E3; [apply inl_in in E3; cbn in E3; destruct E3 as [<-|[]]; reflexivity|].
  destruct (parse_i64 v) eqn:E4; [cbn; apply parse_i64_sound; exact E4|].
  destruct (parse_f64 v) eqn:E5; [cbn; apply parse_f64_sound; exact E5|].
  reflexivity.
Qed.

Theorem C08_soundness_fixed v : sound v (parse_from_cow v).
Proof.
  unfold parse_from_cow. rewrite tbl_prefixes. cbn [parse_prefixed].
  destruct (strip_prefix [48;120]%N v) as [number|] eqn:P1.
  { destruct (from_str_radix_ns number 16) eqn:R; [|apply parse_tail_sound].
    destruct (from_str_radix_ns_spec _ _ is_hexd _ to_digit_16 R) as (A & B & C).
    cbn. unfold core_int. rewrite P1. unfold all_in. rewrite A, B. exact C. }
  destruct (strip_prefix [48;111]%N v) as [number|] eqn:P2.
  { destruct (from_str_radix_ns number 8) eqn:R; [|apply parse_tail_sound].
    destruct (from_str_radix_ns_spec _ _ is_oct _ to_digit_8 R) as (A & B & C).
    cbn. unfold core_int. rewrite P1, P2. unfold all_in. rewrite A, B. exact C. }
  destruct (strip_prefix [43]%N v) as [number|] eqn:P3; [|apply parse_tail_sound].
  destruct (from_str_radix_ns number 10) eqn:R; [|apply parse_tail_sound].
  destruct (from_str_radix_ns_spec _ _ is_dig _ to_digit_10 R) as (A & B & C).
  apply strip_prefix_app in P3. subst v. cbn [app].
  cbn [sound]. rewrite core_int_plus. unfold all_in. rewrite A, B, C. reflexivity.
Qed.
Print Assumptions C08_soundness_fixed.
