(* C09 — tree level: for every well-formed tree and every setting, the text the emitter model writes is a document of
   the block-layout language Spec/BlockLayout.v, and the tree that document denotes is the original one.  The scalar
   presentations are discharged by the scalar-level theorems (plain shape + resolver, escape round trip, literal
   block against the block-scalar specification, implicit-key length); the layout by induction on the tree. *)
From Coq Require Import List NArith ZArith Bool Arith Lia.
Import ListNotations.
Require Import Parser Resolver CoreSchema ResolverProofs Loader Consts QuotedLine BlockScalar BlockLayout
               Emitter EmitterProofs EmitterBlock EmitterScalar EmitterFull.
Open Scope N_scope.
Arguments N.eqb : simpl never.
Arguments N.leb : simpl never.
Arguments N.ltb : simpl never.

(* ---------------- plain scalars ---------------- *)
Lemma tbl_indicators_same : c_indicators = bl_indicators.   Proof. reflexivity. Qed.
Lemma tbl_unsafe_same : plain_unsafe = bl_unsafe.           Proof. reflexivity. Qed.
Lemma tbl_dot_prefix : In [46] nq_prefixes.                 Proof. cbn. tauto. Qed.

Lemma mem_false (c : N) (l : list N) : ~ In c l -> mem c l = false.
Proof.
  intros H. unfold mem. destruct (existsb (N.eqb c) l) eqn:E; [|reflexivity]. exfalso. apply H.
  apply existsb_exists in E. destruct E as (k & Hk & E). apply N.eqb_eq in E. subst. exact Hk.
Qed.
Lemma mem_true (c : N) (l : list N) : mem c l = true -> In c l.
Proof. unfold mem. intros E. apply existsb_exists in E. destruct E as (k & Hk & E). apply N.eqb_eq in E. subst. exact Hk. Qed.

(* how plain_ok is established *)
Lemma plain_ok_intro (c : N) (r : list N) :
  c <> 32 -> last (c :: r) 0 <> 32 ->
  (mem c bl_indicators = false \/ (c = 45 /\ exists d r', r = d :: r' /\ d <> 32 /\ mem d bl_unsafe = false /\ d <> 45)) ->
  (forall x, In x (c :: r) -> mem x bl_unsafe = false) -> c <> 46 ->
  plain_ok (c :: r) = true.
Proof.
  intros H32 Hlast Hfirst Hall H46. unfold plain_ok.
  assert (A1 : (c =? 32) = false) by (apply N.eqb_neq; exact H32).
  assert (A2 : (last (c :: r) 0 =? 32) = false) by (apply N.eqb_neq; exact Hlast).
  assert (A3 : forallb (fun x => negb (mem x bl_unsafe)) (c :: r) = true).
  { apply forallb_forall. intros x Hx. rewrite (Hall x Hx). reflexivity. }
  assert (A4 : starts3 46 (c :: r) = false).
  { unfold starts3. destruct r as [|b [|d r']]; try reflexivity. apply N.eqb_neq in H46. rewrite H46. reflexivity. }
  rewrite A1, A2, A3, A4. cbn [negb andb]. rewrite andb_true_r.
  destruct Hfirst as [Hi|(-> & d & r' & -> & Hd32 & Hdu & Hd45)].
  - rewrite Hi. cbn [negb orb andb]. unfold starts3. destruct r as [|b [|d r']]; try reflexivity.
    destruct (N.eqb_spec c 45) as [->|]; [discriminate Hi|reflexivity].
  - apply N.eqb_neq in Hd32, Hd45. rewrite Hd32, Hdu. cbn. destruct r'; [reflexivity|]. rewrite Hd45. reflexivity.
Qed.

(* strings written plain *)
Lemma plain_ok_string (s : list N) : need_quotes s = false -> plain_ok s = true.
Proof.
  intros H. destruct (plain_shape s H) as (Hne & Hhd & Hlast & Hfirst & Hall).
  destruct (need_quotes_false s H) as (_ & _ & _ & _ & _ & _ & Hpre & _).
  destruct s as [|c r]; [exfalso; apply Hne; reflexivity|].
  destruct (Hfirst c eq_refl) as [_ Hind]. rewrite tbl_indicators_same in Hind.
  apply plain_ok_intro.
  - intros ->. apply Hhd. reflexivity.
  - apply Hlast. discriminate.
  - left. apply mem_false. exact Hind.
  - intros x Hx. apply mem_false. destruct (Hall x Hx) as [_ U]. rewrite tbl_unsafe_same in U. exact U.
  - intros ->. assert (X : existsb (fun p => has_prefix p (46 :: r)) nq_prefixes = true).
    { apply existsb_exists. exists [46]. split; [exact tbl_dot_prefix|reflexivity]. }
    congruence.
Qed.

(* digits are neither indicators nor unsafe, nor is '-' unsafe *)
Lemma dig_safe (c : N) : is_dig c = true -> c <> 32 /\ c <> 45 /\ c <> 46 /\ mem c bl_indicators = false /\ mem c bl_unsafe = false.
Proof.
  intros H. assert (X : forall l, forallb (fun k => negb (is_dig k)) l = true -> mem c l = false).
  { intros l Hl. apply mem_false. intros Hin. pose proof (forallb_In _ _ _ Hl Hin) as Y. cbv beta in Y. rewrite H in Y. discriminate Y. }
  repeat split; try (intros ->; discriminate H); apply X; reflexivity.
Qed.

Lemma last_app_ne (a b : list N) : b <> [] -> last (a ++ b) 0 = last b 0.
Proof.
  intros H. destruct (exists_last H) as (b' & x & ->). rewrite app_assoc, !last_last. reflexivity.
Qed.

Lemma plain_ok_int z : in_i64_b z = true -> plain_ok (dec_Z z) = true.
Proof.
  intros H. destruct (dec_Z_shape z H) as (neg & digs & -> & Hne & Hd & _).
  destruct digs as [|d ds]; [congruence|]. destruct (dig_safe d (Hd d (or_introl eq_refl))) as (D1 & D2 & D3 & D4 & D5).
  assert (Hl : last (d :: ds) 0 <> 32).
  { intros X. assert (Y : In (last (d :: ds) 0) (d :: ds)) by (apply last_In; discriminate).
    rewrite X in Y. apply Hd in Y. discriminate Y. }
  destruct neg; cbn [app].
  - apply plain_ok_intro; try discriminate.
    + change (45 :: d :: ds) with ([45] ++ d :: ds). rewrite last_app_ne by discriminate. exact Hl.
    + right. split; [reflexivity|]. exists d, ds. auto.
    + intros x [<-|Hx]; [reflexivity|]. apply (dig_safe x (Hd x Hx)).
  - apply plain_ok_intro; auto. intros x Hx. apply (dig_safe x (Hd x Hx)).
Qed.

Lemma float_char_safe (c : N) : float_text_char c = true -> c <> 32 /\ mem c bl_unsafe = false.
Proof.
  unfold float_text_char. intros H. apply orb_true_iff in H as [H|H].
  - destruct (dig_safe c H) as (A & _ & _ & _ & B). split; assumption.
  - apply existsb_exists in H. destruct H as (k & Hk & E). apply N.eqb_eq in E. subst k.
    cbn [In] in Hk. repeat (destruct Hk as [<-|Hk]; [split; [discriminate|reflexivity]|]). destruct Hk.
Qed.

Lemma plain_ok_float (t : list N) : float_text_ok t = true -> plain_ok t = true.
Proof.
  unfold float_text_ok. intros H. apply orb_true_iff in H as [H|H].
  - unfold inl, float_words in H. cbn [existsb] in H.
    repeat (apply orb_true_iff in H as [H|H]); try discriminate H; apply str_eqb_eq in H; subst t; reflexivity.
  - apply andb_true_iff in H as [H _]. apply andb_true_iff in H as [Hd F].
    destruct t as [|c r]; [discriminate|].
    assert (Hall : forall x, In x (c :: r) -> x <> 32 /\ mem x bl_unsafe = false).
    { intros x Hx. apply float_char_safe. exact (forallb_In _ _ _ F Hx). }
    assert (Hl : last (c :: r) 0 <> 32).
    { assert (Y : In (last (c :: r) 0) (c :: r)) by (apply last_In; discriminate). apply (Hall _ Y). }
    destruct (N.eqb_spec c 45) as [->|Hn45].
    + destruct r as [|d r']; [discriminate|]. destruct (dig_safe d Hd) as (D1 & D2 & _ & _ & D5).
      apply plain_ok_intro; try discriminate; [exact Hl| |intros x Hx; apply (Hall x Hx)].
      right. split; [reflexivity|]. exists d, r'. auto.
    + destruct (dig_safe c Hd) as (D1 & _ & D3 & D4 & _).
      apply plain_ok_intro; auto. intros x Hx. apply (Hall x Hx).
Qed.

(* ---------------- scalars in every position ---------------- *)
(* strings without U+FEFF (needed where a string is written as a literal block: the block-scalar specification, like
   YAML, excludes the byte order mark from the content) *)
Fixpoint no_bom (n : node) : bool :=
  match n with
  | NStr s => negb (existsb (N.eqb 65279) s)
  | NSeq l => forallb no_bom l
  | NMap l => forallb (fun kv => no_bom (fst kv) && no_bom (snd kv)) l
  | _ => true
  end.

Lemma no_bom_str (s : list N) : negb (existsb (N.eqb 65279) s) = true -> ~ In 65279 s.
Proof.
  intros H X. apply negb_true_iff in H. assert (Y : existsb (N.eqb 65279) s = true).
  { apply existsb_exists. exists 65279. split; [exact X|reflexivity]. }
  congruence.
Qed.

Definition scalar_of (n : node) : scalar :=
  match n with
  | NNull => SNull | NBool b => SBool b | NInt z => SInt z | NFloat t => parse_from_cow t | NStr s => SStr s
  | _ => SNull
  end.
Lemma to_yaml_scalar n : is_collection n = false -> to_yaml n = YVal (scalar_of n).
Proof. destruct n; try discriminate; reflexivity. Qed.

(* S1. a string, in the style emit_string chooses for it, at any level under any parent it is indented more than *)
Lemma string_scalar p m level (v : list N) :
  ~ In 65279 v -> Nat.leb (parent_min p) (ind_n level) = true -> Scalar p (emit_string m level v) (SStr v).
Proof.
  intros Hbom Hfit. unfold emit_string. destruct (is_literal_block m level v) eqn:G.
  - pose proof (ScBlock p (lit_case [] p level v EofNone) eq_refl eq_refl eq_refl eq_refl
                        (literal_block_case_ok m level v G [] p EofNone Hbom Hfit eq_refl)) as H.
    rewrite (literal_block_text m level v G), (literal_block_value m level v G) in H.
    cbn [app eof_text] in H. rewrite app_nil_r in H. exact H.
  - destruct (need_quotes v) eqn:Q.
    + unfold escape_str. apply (ScQuoted p (escape_body v) (S (length v)) v). apply escape_body_decodes.
    + rewrite <- (plain_resolves_to_string v Q). apply ScPlain. apply plain_ok_string. exact Q.
Qed.

(* S2. every scalar node, as emit_node writes it *)
Theorem scalar_node c m p level n : is_collection n = false -> wf_node n = true -> no_bom n = true ->
  Nat.leb (parent_min p) (ind_n level) = true -> Scalar p (emit c m None level n) (scalar_of n).
Proof.
  intros Hc Hwf Hb Hfit. destruct n as [|b|z|t|s|l|l]; try discriminate Hc; cbn [emit scalar_prefix app scalar_of].
  - apply (ScPlain p [126]). reflexivity.
  - destruct b; [apply (ScPlain p w_true)|apply (ScPlain p w_false)]; reflexivity.
  - cbn [wf_node] in Hwf. rewrite <- (int_text_round_trip z Hwf). apply ScPlain. apply plain_ok_int. exact Hwf.
  - cbn [wf_node] in Hwf. apply andb_true_iff in Hwf as [_ Hf]. apply ScPlain. apply plain_ok_float. exact Hf.
  - apply string_scalar; [apply no_bom_str; exact Hb|exact Hfit].
Qed.

(* S3. ... and as an implicit key *)
Theorem key_scalar c m level k : wf_node k = true -> complex_key m level k = false ->
  KeyScalar (emit c m None level k) (scalar_of k).
Proof.
  intros Hwf Hck. destruct (implicit_key_fits c m level k Hwf Hck) as [Hlen _].
  destruct (complex_key_false _ _ _ Hck) as [_ Hstr]. unfold str_len in Hlen.
  destruct k as [|b|z|t|s|l|l]; try discriminate Hck; cbn [emit scalar_prefix app scalar_of] in *.
  - apply (KsPlain [126]); [reflexivity|exact Hlen].
  - destruct b; [apply (KsPlain w_true)|apply (KsPlain w_false)]; solve [reflexivity|exact Hlen].
  - cbn [wf_node] in Hwf. rewrite <- (int_text_round_trip z Hwf). apply KsPlain; [apply plain_ok_int; exact Hwf|exact Hlen].
  - cbn [wf_node] in Hwf. apply andb_true_iff in Hwf as [_ Hf]. apply KsPlain; [apply plain_ok_float; exact Hf|exact Hlen].
  - destruct (Hstr s eq_refl) as [Hlit _]. unfold emit_string in *. rewrite Hlit in *. destruct (need_quotes s) eqn:Q.
    + unfold escape_str in *. apply (KsQuoted (escape_body s) (S (length s)) s); [apply escape_body_decodes|exact Hlen].
    + rewrite <- (plain_resolves_to_string s Q). apply KsPlain; [apply plain_ok_string; exact Q|exact Hlen].
Qed.

(* ---------------- layout ---------------- *)
Lemma ind_n_succ level : (-1 <= level)%Z -> ind_n (level + 1) = (ind_n level + 2)%nat.
Proof.
  intros H. rewrite (ind_n_inner (level + 1)) by lia. destruct (Z.eq_dec level (-1)) as [->|Hne].
  - rewrite ind_n_root by lia. reflexivity.
  - rewrite (ind_n_inner level) by lia. lia.
Qed.

Lemma indent_sp level : indent (level + 1) = sp (ind_n level).
Proof. rewrite indent_spaces. reflexivity. Qed.

Lemma join_entries_flat n (e : list N) es : join_entries n (e :: es) = e ++ flat_map (fun e' => 10 :: sp n ++ e') es.
Proof.
  revert e. induction es as [|e2 es IH]; intros e; [cbn; rewrite app_nil_r; reflexivity|].
  change (join_entries n (e :: e2 :: es)) with (e ++ 10 :: sp n ++ join_entries n (e2 :: es)).
  rewrite IH. cbn [flat_map app]. rewrite <- app_assoc. reflexivity.
Qed.

Lemma flat_map_map {A B C} (f : B -> list C) (g : A -> B) l : flat_map f (map g l) = flat_map (fun x => f (g x)) l.
Proof. induction l as [|x r IH]; [reflexivity|]. cbn [map flat_map]. rewrite IH. reflexivity. Qed.

Lemma Forall2_map_same {A B C} (R : B -> C -> Prop) (f : A -> B) (g : A -> C) l :
  Forall (fun x => R (f x) (g x)) l -> Forall2 R (map f l) (map g l).
Proof. induction 1; cbn [map]; constructor; assumption. Qed.

Definition nonempty_coll (n : node) : bool :=
  match n with NSeq (_ :: _) | NMap (_ :: _) => true | _ => false end.

Section Layout.
Variables c m : bool.

(* the local fixpoints of emit, named *)
Definition items_text (level : Z) : bool -> list node -> str :=
  fix items (first : bool) (l : list node) : str :=
    match l with
    | [] => []
    | x :: r => (if first then [] else 10 :: indent (level + 1)) ++ [45] ++ emit c m (Some true) (level + 1) x
                ++ items false r
    end.
Definition pair_text (level : Z) (k x : node) : str :=
  if complex_key m (level + 1) k
  then [63] ++ emit c m (Some true) (level + 1) k ++ 10 :: indent (level + 1) ++ [58]
       ++ emit c m (Some true) (level + 1) x
  else emit c m None (level + 1) k ++ [58] ++ emit c m (Some false) (level + 1) x.
Definition pairs_text (level : Z) : bool -> list (node * node) -> str :=
  fix pairs (first : bool) (l : list (node * node)) : str :=
    match l with
    | [] => []
    | (k, x) :: r => (if first then [] else 10 :: indent (level + 1)) ++ pair_text level k x ++ pairs false r
    end.

Lemma emit_seq mode level v :
  emit c m mode level (NSeq v)
  = val_prefix c mode level (is_nil v) ++ match v with [] => [91; 93] | _ => items_text level true v end.
Proof. destruct v; reflexivity. Qed.
Lemma emit_map mode level h :
  emit c m mode level (NMap h)
  = val_prefix c mode level (is_nil h) ++ match h with [] => [123; 125] | _ => pairs_text level true h end.
Proof. destruct h; reflexivity. Qed.

Lemma emit_mode_scalar mode level n : is_collection n = false ->
  emit c m mode level n = scalar_prefix mode ++ emit c m None level n.
Proof. destruct n; try discriminate; intros _; reflexivity. Qed.
Lemma emit_mode_coll mode level n : is_collection n = true ->
  emit c m mode level n = val_prefix c mode level (negb (nonempty_coll n)) ++ emit c m None level n.
Proof. destruct n as [| | | | |l|l]; try discriminate; intros _; destruct l; reflexivity. Qed.

Lemma items_false level l :
  items_text level false l = flat_map (fun x => 10 :: sp (ind_n level) ++ 45 :: emit c m (Some true) (level + 1) x) l.
Proof.
  induction l as [|x r IH]; [reflexivity|].
  change (items_text level false (x :: r))
    with ((10 :: indent (level + 1)) ++ [45] ++ emit c m (Some true) (level + 1) x ++ items_text level false r).
  rewrite IH, indent_sp. cbn [flat_map app]. rewrite <- !app_assoc. reflexivity.
Qed.
Lemma items_join level x r :
  items_text level true (x :: r)
  = join_entries (ind_n level) (map (cons 45) (map (emit c m (Some true) (level + 1)) (x :: r))).
Proof.
  change (items_text level true (x :: r))
    with ([] ++ [45] ++ emit c m (Some true) (level + 1) x ++ items_text level false r).
  rewrite items_false. cbn [map]. rewrite join_entries_flat, !flat_map_map. reflexivity.
Qed.

Lemma pairs_false level l :
  pairs_text level false l = flat_map (fun kv => 10 :: sp (ind_n level) ++ pair_text level (fst kv) (snd kv)) l.
Proof.
  induction l as [|[k x] r IH]; [reflexivity|].
  change (pairs_text level false ((k, x) :: r))
    with ((10 :: indent (level + 1)) ++ pair_text level k x ++ pairs_text level false r).
  rewrite IH, indent_sp. cbn [flat_map app fst snd]. rewrite <- !app_assoc. reflexivity.
Qed.
Lemma pairs_join level kv r :
  pairs_text level true (kv :: r)
  = join_entries (ind_n level) (map (fun kv => pair_text level (fst kv) (snd kv)) (kv :: r)).
Proof.
  destruct kv as [k x].
  change (pairs_text level true ((k, x) :: r)) with ([] ++ pair_text level k x ++ pairs_text level false r).
  rewrite pairs_false. cbn [map]. rewrite join_entries_flat, flat_map_map. reflexivity.
Qed.

(* what is shown for every node, by induction *)
Definition layout_ok (n : node) : Prop :=
  forall level, (-1 <= level)%Z -> wf_node n = true -> no_bom n = true ->
  (nonempty_coll n = false -> forall p, Nat.leb (parent_min p) (ind_n level) = true ->
                              Flat p (emit c m None level n) (to_yaml n))
  /\ (nonempty_coll n = true -> Block (ind_n level) (emit c m None level n) (to_yaml n)).

Lemma fits_child level : (-1 <= level)%Z -> Nat.leb (parent_min (Some (ind_n level))) (ind_n (level + 1)) = true.
Proof. intros H. rewrite ind_n_succ by exact H. cbn [parent_min]. apply Nat.leb_le. lia. Qed.

(* the value after `-`, `?` or an explicit `:` of an entry of a collection emitted at [level] *)
Lemma val_of_layout n level : (-1 <= level)%Z -> layout_ok n -> wf_node n = true -> no_bom n = true ->
  Val (ind_n level) (emit c m (Some true) (level + 1) n) (to_yaml n).
Proof.
  intros Hl L Hwf Hb. destruct (L (level + 1)%Z ltac:(lia) Hwf Hb) as [La Lb].
  destruct (is_collection n) eqn:Hc.
  - rewrite emit_mode_coll by exact Hc. destruct (nonempty_coll n) eqn:Hn; cbn [negb val_prefix].
    + cbn [andb orb]. destruct c.
      * apply VSameLine. rewrite <- ind_n_succ by exact Hl. apply Lb. reflexivity.
      * rewrite (indent_sp (level + 1)). apply VBelow; [rewrite ind_n_succ by exact Hl; lia|]. apply Lb. reflexivity.
    + rewrite orb_true_r. apply VFlat. apply La; [reflexivity|apply fits_child; exact Hl].
  - rewrite emit_mode_scalar by exact Hc. apply VFlat. apply La; [|apply fits_child; exact Hl].
    destruct n; try reflexivity; discriminate Hc.
Qed.

(* the value after the `:` of an implicit key *)
Lemma mval_of_layout n level : (-1 <= level)%Z -> layout_ok n -> wf_node n = true -> no_bom n = true ->
  MVal (ind_n level) (emit c m (Some false) (level + 1) n) (to_yaml n).
Proof.
  intros Hl L Hwf Hb. destruct (L (level + 1)%Z ltac:(lia) Hwf Hb) as [La Lb].
  destruct (is_collection n) eqn:Hc.
  - rewrite emit_mode_coll by exact Hc. destruct (nonempty_coll n) eqn:Hn; cbn [negb val_prefix andb orb].
    + rewrite (indent_sp (level + 1)). apply MBelow; [rewrite ind_n_succ by exact Hl; lia|]. apply Lb. reflexivity.
    + apply MFlat. apply La; [reflexivity|apply fits_child; exact Hl].
  - rewrite emit_mode_scalar by exact Hc. apply MFlat. apply La; [|apply fits_child; exact Hl].
    destruct n; try reflexivity; discriminate Hc.
Qed.

(* a mapping entry *)
Lemma pair_of_layout k x level : (-1 <= level)%Z -> layout_ok k -> layout_ok x ->
  wf_node k = true -> wf_node x = true -> no_bom k = true -> no_bom x = true ->
  Pair (ind_n level) (pair_text level k x) (to_yaml k, to_yaml x).
Proof.
  intros Hl Lk Lx Wk Wx Bk Bx. unfold pair_text. destruct (complex_key m (level + 1) k) eqn:Ck.
  - rewrite indent_sp. cbn [app]. apply PExplicit; apply val_of_layout; assumption.
  - destruct (complex_key_false _ _ _ Ck) as [Hc _]. rewrite (to_yaml_scalar k Hc). cbn [app].
    apply PImplicit; [apply key_scalar; assumption|apply mval_of_layout; assumption].
Qed.

Theorem layout_all n : layout_ok n.
Proof.
  induction n as [|b|z|t|s|l IH|l IH] using node_ind'; intros level Hl Hwf Hb.
  1-5: (split; [intros _ p Hfit|discriminate]); rewrite to_yaml_scalar by reflexivity; apply FScalar;
       apply scalar_node; solve [reflexivity|assumption].
  - (* sequences *)
    destruct l as [|x r].
    + split; [intros _ p _|discriminate]. apply FEmptySeq.
    + split; [discriminate|intros _]. rewrite emit_seq. cbn [val_prefix app is_nil]. rewrite items_join.
      change (to_yaml (NSeq (x :: r))) with (YSeq (map to_yaml (x :: r))).
      apply BSeq; [discriminate|]. apply Forall2_map_same.
      cbn [wf_node] in Hwf. cbn [no_bom] in Hb. rewrite forallb_forall in Hwf, Hb. rewrite Forall_forall in IH |- *.
      intros y Hy. apply val_of_layout; auto.
  - (* mappings *)
    destruct l as [|kv r].
    + split; [intros _ p _|discriminate]. apply FEmptyMap.
    + split; [discriminate|intros _]. rewrite emit_map. cbn [val_prefix app is_nil]. rewrite pairs_join.
      change (to_yaml (NMap (kv :: r))) with (YMap (map (fun kv => (to_yaml (fst kv), to_yaml (snd kv))) (kv :: r))).
      cbn [wf_node] in Hwf. apply andb_true_iff in Hwf as [Hwf Hd]. cbn [no_bom] in Hb.
      apply BMap; [discriminate| |].
      * apply Forall2_map_same. rewrite forallb_forall in Hwf, Hb. rewrite Forall_forall in IH |- *.
        intros y Hy. specialize (Hwf y Hy). specialize (Hb y Hy). specialize (IH y Hy). cbv beta in Hwf, Hb.
        apply andb_true_iff in Hwf as [W1 W2]. apply andb_true_iff in Hb as [B1 B2]. destruct IH as [I1 I2].
        apply pair_of_layout; assumption.
      * rewrite map_map. cbn [fst]. exact Hd.
Qed.
End Layout.

(* ---------------- the document ---------------- *)
(* C. For every well-formed tree without U+FEFF in its strings and every setting, the emitted text is a document of
   the block-layout language and denotes the tree. *)
Theorem emitted_doc_denotes_tree c m doc : wf_node doc = true -> no_bom doc = true ->
  Doc (dump_doc c m doc) (to_yaml doc).
Proof.
  intros Hwf Hb. unfold dump_doc, emit_node.
  destruct (layout_all c m doc (-1)%Z ltac:(lia) Hwf Hb) as [La Lb].
  destruct (nonempty_coll doc) eqn:Hn.
  - apply DBlock. rewrite <- (ind_n_root (-1)) by lia. apply Lb. reflexivity.
  - apply DFlat. apply La; reflexivity.
Qed.

(* what is missing for C09_full: the loading pipeline (scanner, parser and loader models) reads every document of the
   block-layout language as the tree it denotes *)
Definition layout_reader_spec : Prop :=
  forall text y, Doc text y -> exists y', PipeL.run_load text = PipeL.LDocs [y'] /\ yaml_eqb y' y = true.

Theorem full_from_layout_reader : layout_reader_spec ->
  forall compact multiline doc, wf_node doc = true -> no_bom doc = true -> round_trip_ok compact multiline doc = true.
Proof.
  intros R c m doc Hwf Hb. destruct (R _ _ (emitted_doc_denotes_tree c m doc Hwf Hb)) as (y' & E & Q).
  unfold round_trip_ok. rewrite E. exact Q.
Qed.

(* an instance: the grammar membership of a mixed tree, and the layout reader specification on it (by evaluation) *)
Lemma sample_layout_instance :
  Doc (dump_doc true true sample_tree) (to_yaml sample_tree)
  /\ exists y', PipeL.run_load (dump_doc true true sample_tree) = PipeL.LDocs [y'] /\ yaml_eqb y' (to_yaml sample_tree) = true.
Proof.
  split; [apply emitted_doc_denotes_tree; vm_compute; reflexivity|].
  assert (H : round_trip_ok true true sample_tree = true) by (vm_compute; reflexivity).
  unfold round_trip_ok in H. destruct (PipeL.run_load (dump_doc true true sample_tree)) as [[|y [|y2 r]]| |]; try discriminate H.
  exists y. split; [reflexivity|exact H].
Qed.
