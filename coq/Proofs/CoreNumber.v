(* The regex-shaped number matcher of the spec (CoreSchema.core_number) and the model of Rust's
   f64 grammar (Resolver.rust_number) accept the same strings with the same exact value. *)
From Coq Require Import List NArith ZArith Bool Lia.
Import ListNotations.
Require Import Resolver CoreSchema.
Open Scope Z_scope.

Lemma span_digits_all ds :
  nonempty ds && all_in is_dig ds = true -> span_digits ds = (ds, []).
Proof.
  intros H. apply andb_true_iff in H as [_ H]. unfold all_in in H.
  induction ds as [|c r IH]; [reflexivity|].
  cbn in H. apply andb_true_iff in H as [Hc Hr]. cbn [span_digits]. rewrite Hc, (IH Hr). reflexivity.
Qed.

Lemma span_digits_spec s a b : span_digits s = (a, b) -> s = a ++ b /\ forallb is_dig a = true.
Proof.
  revert a b; induction s as [|c r IH]; intros a b H; cbn in H.
  - inversion H; subst; auto.
  - destruct (is_dig c) eqn:E.
    + destruct (span_digits r) as [a' b'] eqn:E'. inversion H; subst.
      destruct (IH a' b eq_refl) as [-> Hf]. cbn. rewrite E, Hf. auto.
    + inversion H; subst. auto.
Qed.

Lemma span_digits_rest_nil ds ed : span_digits ds = (ed, []) -> ed = ds /\ forallb is_dig ds = true.
Proof.
  intros H. destruct (span_digits_spec _ _ _ H) as [-> Hf]. rewrite app_nil_r. auto.
Qed.

Lemma exp_equiv (m e0 : Z) (r2 : str) :
  match r2 with
  | [] => Some (m, e0)
  | c :: r =>
      if ch c 101 || ch c 69 then
        let '(eneg, ds) := match r with
                           | x :: r' => if ch x 43 then (false, r') else if ch x 45 then (true, r') else (false, r)
                           | [] => (false, [])
                           end in
        let '(ed, rest) := span_digits ds in
        match ed, rest with
        | _ :: _, [] => Some (m, e0 + (if (eneg : bool) then - dval ed else dval ed))
        | _, _ => None
        end
      else None
  end = exp_part m e0 r2.
Proof.
  unfold exp_part. destruct r2 as [|c r]; [reflexivity|].
  destruct (ch c 101 || ch c 69); [|reflexivity].
  unfold sign_split.
  assert (G : forall (eneg : bool) (ds : str),
    (let '(ed, rest) := span_digits ds in
     match ed, rest with
     | _ :: _, [] => Some (m, e0 + (if eneg then - dval ed else dval ed))
     | _, _ => None
     end) = (if nonempty ds && all_in is_dig ds then Some (m, e0 + (if eneg then - dval ds else dval ds)) else None)).
  { intros eneg ds. destruct (nonempty ds && all_in is_dig ds) eqn:E.
    - rewrite (span_digits_all _ E). destruct ds; [discriminate|reflexivity].
    - destruct (span_digits ds) as [ed rest] eqn:S. destruct ed as [|x ed]; [reflexivity|].
      destruct rest; [|reflexivity].
      destruct (span_digits_rest_nil _ _ S) as [<- Hf]. unfold all_in in E. rewrite Hf in E. cbn in E. discriminate. }
  destruct r as [|x r']; [exact (G false [])|].
  destruct (ch x 43); [exact (G false r')|]. destruct (ch x 45); [exact (G true r')|exact (G false (x :: r'))].
Qed.

Lemma rust_number_core b : rust_number b = core_number b.
Proof.
  unfold rust_number, core_number. destruct (span_digits b) as [ip r1].
  destruct r1 as [|c r].
  - destruct ip; [reflexivity|]. cbn [nonempty]. rewrite app_nil_r. reflexivity.
  - destruct (ch c 46) eqn:Ed.
    + destruct (span_digits r) as [fp r2].
      destruct ip as [|i ip]; destruct fp as [|f fp]; cbn [nonempty orb]; try reflexivity;
        match goal with |- _ = exp_part ?m ?e ?r => rewrite <- (exp_equiv m e r); reflexivity end.
    + destruct ip as [|i ip]; [reflexivity|]. cbn [nonempty]. rewrite app_nil_r.
      change (- Z.of_nat (length (@nil chr))) with 0.
      rewrite <- (exp_equiv (dval (i :: ip)) 0 (c :: r)). reflexivity.
Qed.
