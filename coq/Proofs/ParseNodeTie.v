(* The parser's node dispatcher is the one of the SOURCE.
   Gen/ParseNode.v is regenerated on every run from the second `match *self.peek_token()?` of Parser::parse_node
   (parser/src/parser.rs): for each kind of token, under which guard it starts a sequence / a mapping (and in which state
   the parser continues), is a scalar, stands for a left-out node with properties, or is an error.  [tbl_node_content]:
   for every parser state and every token, the model's node_content does exactly what the generated table says. *)
From Coq Require Import List NArith Bool.
Import ListNotations.
Require Import Parser ParseNode.
Open Scope N_scope.

Definition kind_of (t : tok) : nkind :=
  match t with
  | TBlockEntry => KBlockEntry
  | TScalar _ _ => KScalar
  | TFlowSequenceStart => KFlowSequenceStart
  | TFlowMappingStart => KFlowMappingStart
  | TBlockSequenceStart => KBlockSequenceStart
  | TBlockMappingStart => KBlockMappingStart
  | _ => KOther
  end.

(* what each action means on the parser state [p] that has just peeked the token (sp, t) *)
Definition run_nact (a : nact) (p : parser) (sp : span) (t : tok) (aid : N) (tg : option tag)
  : res ((event * span) * parser) :=
  match a with
  | NSeq st => Ok ((ESequenceStart aid tg, sp), set_state p st)
  | NMap st => Ok ((EMappingStart aid tg, sp), set_state p st)
  | NScalar => match t with
               | TScalar sty v => do p <- pop_state p; Ok ((EScalar v sty aid tg, sp), skip p)
               | _ => Err (PErr 11 (sp_start sp))
               end
  | NEmpty => do p <- pop_state p; Ok ((empty_scalar_with aid tg, sp), p)
  | NError => Err (PErr 11 (sp_start sp))
  end.

Theorem tbl_node_content (p : parser) (aid : N) (tg : option tag) (block indentless : bool) :
  node_content p aid tg block indentless =
  (do (t, p') <- peek p;
   run_nact (node_dispatch (kind_of (snd t)) block indentless (has_props aid tg)) p' (fst t) (snd t) aid tg).
Proof.
  unfold node_content. destruct (peek p) as [[[sp t] p']|e|n]; [|reflexivity|reflexivity].
  cbn [fst snd]. unfold empty_or_err.
  destruct t; cbn [kind_of node_dispatch run_nact]; try reflexivity;
    destruct block, indentless, (has_props aid tg); reflexivity.
Qed.

(* two readings of the table, as the grammar states them: a block collection is only recognised where a block node may
   stand, and an indentless sequence only where the caller allows it *)
Corollary node_dispatch_block_only k indentless props :
  (k = KBlockSequenceStart \/ k = KBlockMappingStart) ->
  node_dispatch k false indentless props = if props then NEmpty else NError.
Proof. intros [->| ->]; reflexivity. Qed.
Corollary node_dispatch_flow_always block indentless props :
  node_dispatch KFlowSequenceStart block indentless props = NSeq SFlowSequenceFirstEntry
  /\ node_dispatch KFlowMappingStart block indentless props = NMap SFlowMappingFirstKey.
Proof. split; reflexivity. Qed.
