From Coq Require Import List NArith ZArith Bool Arith Lia.
Import ListNotations.
Require Import Parser SBase SPrim SDir SScalar SFetch Pipe Drivers TokenGrammar FlowText BlockText ScanFlowProofs ScanBlockProofs EmitterRoundTripDefs EmitterRoundTripScan EmitterRoundTripScanSeq EmitterRoundTripScanMap EmitterRoundTripHeader.
Open Scope N_scope.
Open Scope mon_scope.

#[local] Arguments N.add : simpl never.
#[local] Arguments N.sub : simpl never.
#[local] Arguments N.mul : simpl never.
#[local] Arguments N.ltb : simpl nomatch.
#[local] Arguments N.leb : simpl nomatch.
#[local] Arguments Z.of_N : simpl never.
#[local] Arguments Z.ltb : simpl never.
#[local] Arguments Z.leb : simpl never.
#[local] Arguments Z.eqb : simpl never.
#[local] Arguments Z.add : simpl never.
#[local] Arguments bind {I A B} m f s /.
#[local] Arguments ret {I A} a s /.
#[local] Arguments get {I} s /.
#[local] Arguments put {I} s _ /.
#[local] Arguments modify {I} f s /.
#[local] Arguments gets {I A} f s /.
#[local] Arguments fail {I A} site m _ /.
#[local] Arguments upd {I} s i m t /.
#[local] Arguments set_in {I} i s /.
#[local] Arguments set_mark {I} m s /.
#[local] Arguments set_tokens {I} t s /.
#[local] Arguments set_flags {I} s ss se adj ska ta lws /.
#[local] Arguments set_ska {I} b s /.
#[local] Arguments set_lws {I} b s /.
#[local] Arguments set_adj {I} n s /.
#[local] Arguments set_ta {I} b s /.
#[local] Arguments set_ss {I} b s /.
#[local] Arguments set_se {I} b s /.
#[local] Arguments set_struct {I} s sks ind inds fl tp ifms /.
#[local] Arguments set_sks {I} l s /.
#[local] Arguments set_indent {I} z l s /.
#[local] Arguments set_fl {I} n s /.
#[local] Arguments set_tp {I} n s /.
#[local] Arguments set_ifms {I} l s /.
#[local] Arguments skip_to_next_token : simpl never.
#[local] Arguments stale_simple_keys : simpl never.
#[local] Arguments plain_chunk : simpl never.
#[local] Arguments plain_blanks : simpl never.
#[local] Arguments scan_plain_scalar : simpl never.
#[local] Arguments fetch_stream_start : simpl never.
#[local] Arguments fetch_stream_end : simpl never.
#[local] Arguments fetch_directive : simpl never.
#[local] Arguments fetch_document_indicator : simpl never.
#[local] Arguments fetch_flow_collection_start : simpl never.
#[local] Arguments fetch_flow_collection_end : simpl never.
#[local] Arguments fetch_flow_entry : simpl never.
#[local] Arguments fetch_block_entry : simpl never.
#[local] Arguments fetch_key : simpl never.
#[local] Arguments fetch_value : simpl never.
#[local] Arguments fetch_flow_value : simpl never.
#[local] Arguments fetch_anchor : simpl never.
#[local] Arguments fetch_tag : simpl never.
#[local] Arguments fetch_block_scalar : simpl never.
#[local] Arguments fetch_flow_scalar : simpl never.
#[local] Arguments fetch_plain_scalar : simpl never.
#[local] Arguments fetch_next_token : simpl never.
#[local] Arguments fetch_more_tokens : simpl never.
#[local] Arguments next_token : simpl never.
#[local] Arguments scan_all : simpl never.
#[local] Arguments fnt_rest : simpl never.
#[local] Arguments skip_ws_to_eol : simpl never.
#[local] Arguments insert_token : simpl never.
#[local] Arguments need_comp : simpl never.
#[local] Arguments unroll_indent : simpl never.
#[local] Arguments roll_indent : simpl never.
#[local] Arguments roll_one_col_indent : simpl never.
#[local] Arguments unroll_non_block_indents : simpl never.
Ltac fin := unfold mkb, mkm; repeat (f_equal; try lia).
Ltac nm := unfold adv, nlm; cbn [m_index m_line m_col].
Tactic Notation "erw_b" uconstr(E) :=
  let H := fresh "E" in epose proof E as H; unfold mkb, mkm, be_tok, key_tok, newkey, lvl, nbl, staled, unposs in H; unfold unposs; erewrite H; clear H.
Ltac rw_b E := let H := fresh "E" in pose proof E as H; unfold mkb, mkm, be_tok, key_tok, newkey, lvl, nbl, staled, unposs in H; unfold unposs; rewrite H; clear H.

#[local] Arguments save_simple_key : simpl never.

(* C09 — the scanner model on "---" LF followed by a block text document without its final line feed: every node. *)
Theorem last_ok : forall n inl, bwf inl n = true -> nobi n = true -> LastOK inl n.
Proof.
  apply (bnode_ind2 (fun n => forall inl, bwf inl n = true -> nobi n = true -> LastOK inl n)).
  - intros w inl H Hb. split; [exact H|]. split; [exact Hb|discriminate].
  - intros pl items IH inl H Hb. split; [exact H|]. split; [exact Hb|]. intros _.
    cbn [bwf] in H. apply andb_prop in H as [H Hall]. apply andb_prop in H as [_ Hne]. cbn [nobi] in Hb.
    destruct (exists_last (l := items) ltac:(destruct items; [discriminate|discriminate])) as (xs & z & ->).
    rewrite forallb_app in Hall, Hb. apply andb_prop in Hall as [Hxs Hz]. apply andb_prop in Hb as [Hbxs Hbz].
    cbn [forallb] in Hz, Hbz. rewrite andb_true_r in Hz, Hbz.
    apply Forall_app in IH as [IHxs IHz]. inversion IHz as [|? ? IHz' _]; subst.
    apply coll_seq_last; [|apply IHz'; assumption].
    rewrite Forall_forall. intros y Hy. rewrite forallb_forall in Hxs. apply (child_ok y true (Hxs y Hy)).
  - intros pl pairs IH inl H Hb. split; [exact H|]. split; [exact Hb|]. intros _.
    cbn [bwf] in H. apply andb_prop in H as [H Hall]. apply andb_prop in H as [_ Hne]. cbn [nobi] in Hb.
    destruct (exists_last (l := pairs) ltac:(destruct pairs; [discriminate|discriminate])) as (ps & p & ->).
    rewrite forallb_app in Hall, Hb. apply andb_prop in Hall as [Hps Hp]. apply andb_prop in Hb as [Hbps Hbp].
    cbn [forallb] in Hp, Hbp. rewrite andb_true_r in Hp, Hbp. apply andb_prop in Hp as [Hk Hv].
    apply Forall_app in IH as [IHps IHp]. inversion IHp as [|? ? IHp' _]; subst.
    apply coll_map_last; [|exact Hk|apply IHp'; assumption].
    rewrite Forall_forall. intros y Hy. rewrite forallb_forall in Hps. specialize (Hps y Hy). apply andb_prop in Hps as [Hky Hvy].
    split; [exact Hky|]. apply (child_ok (snd y) false Hvy).
  - intros items _ inl _ Hb. discriminate.
Qed.

Lemma toks_le_brl n : bwf true n = true -> nobi n = true -> (length (tokens_of (blt n)) <= 2 * length (brl 0 n) + 2)%nat.
Proof.
  intros H Hb. pose proof (toks_le_text n true 0%nat H) as L. rewrite (brender_brl n true 0%nat H Hb), app_length in L. cbn [length] in L. lia.
Qed.

Theorem scan_block_doc n : bwf_root n = true -> nobi n = true -> (bdepth n <= 255)%nat ->
  exists toks, scan_str (doc_header ++ blast n) = (toks, SEnded) /\ map snd toks = wrap true false (tokens_of (blt n)).
Proof.
  intros Hroot Hb Hdep. rewrite (blast_brl n Hroot Hb).
  unfold bwf_root in Hroot. apply andb_prop in Hroot as [Hcoll Hwf].
  destruct (last_ok n true Hwf Hb) as (_ & _ & HC). specialize (HC Hcoll).
  unfold scan_str.
  destruct (brl_first 0%nat n true Hwf Hb) as (x & cs & Ex & Hx).
  destruct (first_char_facts x Hx) as (Hnw & Hbr & _).
  assert (Hfo : first_ok x).
  { destruct Hx as [-> | Hx]; [repeat split; reflexivity|]. exact (proj1 (wch_first_ok x Hx)). }
  assert (Hnz : (x =? 0) = false).
  { destruct Hx as [-> | Hx]; [reflexivity|]. exact (proj2 (wch_first_ok x Hx)). }
  rewrite Ex in *.
  remember (2 * length (doc_header ++ x :: cs) + 10)%nat as F eqn:HF.
  assert (HlenT : length (doc_header ++ x :: cs) = (4 + length (x :: cs))%nat) by (rewrite app_length; reflexivity).
  destruct (header_scan F x cs ltac:(lia) Hfo Hnz) as (t0 & t1 & s1 & Ht0 & Ht1 & Hat1 & Hscan).
  rewrite <- Ex in Hat1.
  destruct (HC F 0%nat [] s1 (or_introl Hat1) ltac:(unfold top_lt; cbn; lia) ltac:(cbn [length]; lia)
              ltac:(unfold fuel_ok; rewrite Ex; lia))
    as (toks & s' & ext' & c0 & w & Hd & Hw & He & Hat' & _ & HFw).
  destruct (last_word_end F s' c0 w (ext' ++ []) Hat' Hw HFw) as (toks2 & Hm2 & Hend).
  cbn [repeat app] in He.
  pose proof (toks_le_brl n Hwf Hb) as Hlen. rewrite Ex in Hlen.
  assert (Hl1 : (length toks + S (length ext') = length (tokens_of (blt n)))%nat).
  { rewrite He, app_length, map_length. cbn [length]. rewrite repeat_length. reflexivity. }
  assert (Hl2 : length toks2 = S (S (length ext'))).
  { rewrite <- (map_length snd toks2), Hm2. cbn [length]. rewrite app_length, repeat_length, app_nil_r. cbn [length]. lia. }
  assert (Etot : exists f2, (4 * F + 20 = 2 + (length toks + f2) /\ length toks2 < f2)%nat).
  { exists (4 * F + 18 - length toks)%nat. lia. }
  destruct Etot as (f2 & -> & Hf2).
  rewrite Hscan, Hd, (Hend f2 _ Hf2).
  eexists. split; [reflexivity|].
  rewrite rev_app_distr. cbn [rev app]. rewrite rev_involutive. cbn [map]. rewrite !map_app. unfold token in *.
  rewrite Ht0, Ht1, Hm2. unfold wrap. cbn [flag app]. f_equal. f_equal. rewrite He, <- app_assoc. cbn [app].
  rewrite app_nil_r. reflexivity.
Qed.
Print Assumptions scan_block_doc.
