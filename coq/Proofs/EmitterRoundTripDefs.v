(* C09 — the class of SIMPLE trees for which the round trip emit -> load is proved end to end (no reader hypothesis),
   and their translation into the block text sub-language of Spec/BlockText.v.
   simple_tree doc: a non-empty sequence or mapping at the root; non-empty sequences / mappings below, nested at most 255
   deep; the leaves are one-word texts (FlowText.word_ok: no blank, break, NUL, flow indicator, quote, none of
   : # - ? * & ! | > % @ `) that the emitter writes plain: strings with need_quotes = false, null (~), booleans,
   non-negative 64-bit integers (a '-' is no word character), float texts that are words; the keys of a mapping are such
   leaves of at most 1024 characters, pairwise different as values. *)
From Coq Require Import List NArith ZArith Bool Arith.
Import ListNotations.
Require Import Resolver Loader Emitter Parser CharTraits TokenGrammar FlowText BlockText.
Open Scope N_scope.

(* the text of a leaf, as emit writes it behind "- " / "key: " or as a key *)
Definition leaf_text (n : node) : str :=
  match n with
  | NNull => [126]
  | NBool b => if b then w_true else w_false
  | NInt z => dec_Z z
  | NFloat t => t
  | NStr s => s
  | NSeq _ | NMap _ => []
  end.

Definition simple_leaf (n : node) : bool :=
  match n with
  | NNull | NBool _ => true
  | NInt z => in_i64_b z && word_ok (dec_Z z)
  | NFloat t => word_ok t
  | NStr s => word_ok s && negb (need_quotes s)
  | NSeq _ | NMap _ => false
  end.
Definition simple_key (k : node) : bool := simple_leaf k && key_short (leaf_text k).

Fixpoint simple_node (n : node) : bool :=
  match n with
  | NSeq l => nonempty l && forallb simple_node l
  | NMap l => nonempty l && forallb (fun kv => simple_key (fst kv) && simple_node (snd kv)) l
              && keys_distinct (map (fun kv => to_yaml (fst kv)) l)
  | _ => simple_leaf n
  end.

Fixpoint ndepth (n : node) : nat :=
  match n with
  | NSeq l => S (fold_right (fun x m => Nat.max (ndepth x) m) O l)
  | NMap l => S (fold_right (fun kv m => Nat.max (ndepth (snd kv)) m) O l)
  | _ => O
  end.

Definition simple_tree (doc : node) : bool := is_collection doc && simple_node doc && Nat.leb (ndepth doc) 255.

(* the block-text node the emitter's layout of a simple tree is: a collection that is an item of a sequence stands compact
   on the line of its "-" when [compact], else below, 2 columns right of its parent; a collection that is the value of a
   key always stands below, 2 columns right of the key (never indentless).  [inl]: the node is an item of a sequence
   (the root counts as one: its placement is ignored). *)
Fixpoint node_of (compact inl : bool) (n : node) : bnode :=
  match n with
  | NSeq l => BS (if inl && compact then None else Some 1%nat) (map (node_of compact true) l)
  | NMap l => BM (if inl && compact then None else Some 1%nat)
                 (map (fun kv => (leaf_text (fst kv), node_of compact false (snd kv))) l)
  | _ => BW (leaf_text n)
  end.

(* the emitted text: the document header line, then the block text without its final line feed *)
Definition doc_header : str := [45; 45; 45; 10].
Definition blast (n : bnode) : str := removelast (bdoc_text n).
