(* C07 — composition with C02: Parser::load (PipeL.parse_load: the pull parser's events with the anchor
   table cleared at each document start) delivers, on ANY token stream, an acceptable event sentence when it
   ends without error; so the loader never panics on it and returns the specification's documents. *)
From Coq Require Import List NArith ZArith Bool Lia.
Import ListNotations.
Require Import Parser SBase SPrim SDir SScalar SFetch Pipe PipeL Resolver Loader Grammar C02base C02rest C02tail C02run.
Require Import BuildDocs LoaderProofs.

Lemma clear_anchors_inv p g : Inv p g -> Inv (clear_anchors p) g.
Proof. unfold Inv, clear_anchors. cbn [p_state p_states]. exact (fun H => H). Qed.

Lemma parse_load_inv fuel : forall p se acc g,
  Inv p g ->
  grun GInit (rev acc) = Some g ->
  exists g', grun GInit (fst (parse_load fuel p se acc)) = Some g'
             /\ (snd (parse_load fuel p se acc) = PDone -> g' = GEnd)
             /\ end_ok se (snd (parse_load fuel p se acc)).
Proof.
  induction fuel as [|fuel IH]; intros p se acc g HI Hg.
  - cbn [parse_load]. exists g. cbn [fst snd]. repeat split; auto. discriminate.
  - assert (Hstep : p_state p <> SEnd ->
      let r := match state_machine p with
               | Parser.Ok ((ev, _), p') =>
                   let p' := match ev with EDocumentStart _ => clear_anchors p' | _ => p' end in
                   parse_load fuel p' se (ev :: acc)
               | Parser.Err PErrScan =>
                   (rev acc, match se with
                             | SError s m => PScanErr s m | SPanic n => PPanic n | SFuel => PFuel
                             | SEnded => PScanErr 0 {| m_index := 0; m_line := 0; m_col := 0 |} end)
               | Parser.Err (PErr s m) => (rev acc, PParseErr s m)
               | Parser.Panic n => (rev acc, PPanic n)
               end in
      exists g', grun GInit (fst r) = Some g' /\ (snd r = PDone -> g' = GEnd) /\ end_ok se (snd r)).
    { intros HNE. cbn zeta.
      pose proof (state_machine_post p g HI HNE) as HP.
      destruct (state_machine p) as [[[e sp] p']|er|n].
      - destruct HP as [g' [Hs HI']].
        assert (HI2 : Inv (match e with EDocumentStart _ => clear_anchors p' | _ => p' end) g').
        { destruct e; exact HI'. }
        apply (IH _ se (e :: acc) g' HI2).
        cbn [rev]. rewrite grun_app, Hg. cbn [grun]. rewrite Hs. reflexivity.
      - destruct er as [|s m].
        + exists g. cbn [fst snd]. split; [exact Hg|]. split; destruct se; cbn; auto; discriminate.
        + exists g. cbn [fst snd]. split; [exact Hg|]. split; [discriminate|exact I].
      - contradiction. }
    cbn [parse_load].
    destruct (p_state p) eqn:ES; try (apply Hstep; discriminate).
    exists g. cbn [fst snd]. split; [exact Hg|]. split; [|exact I].
    intros _. unfold Inv in HI. rewrite ES in HI. cbn in HI. tauto.
Qed.

Theorem parse_load_wellformed toks keep se fuel evs :
  parse_load fuel (init_parser toks keep) se [] = (evs, PDone) -> grun GInit evs = Some GEnd.
Proof.
  intros H.
  destruct (parse_load_inv fuel (init_parser toks keep) se [] GInit (init_inv _ _) eq_refl) as [g [A [B _]]].
  rewrite H in A, B. cbn [fst snd] in A, B. rewrite (B eq_refl) in A. exact A.
Qed.

(* whatever the token stream: a load-mode parse that ends without error hands the loader a sentence whose
   documents the loader returns exactly as the specification says, without panic *)
Theorem pipeline_load_spec toks keep se fuel evs :
  parse_load fuel (init_parser toks keep) se [] = (evs, PDone) ->
  exists ds ld, parse_events evs = Some ds /\ evs = stream_of ds /\
                load_events evs l0 = LOk ld /\ rev (l_docs ld) = spec_load ds.
Proof.
  intros H. apply parse_load_wellformed in H.
  destruct (accepted_loads_spec evs H) as [ds [ld [A [B [C [D _]]]]]]. exists ds, ld. auto.
Qed.

(* the whole string-to-documents model: documents only as specified; a "bad" verdict can only be a
   scanner-model panic or exhausted fuel, never the parser's or the loader's *)
Theorem run_load_spec s :
  match run_load s with
  | LDocs d => exists evs ds, parse_events evs = Some ds /\ evs = stream_of ds /\ d = spec_load ds
  | LErr => True
  | LBad n =>
      n = 999%N \/
      exists F, snd (scan_all str_ops F (4 * F + 20) (init_sc {| si_chars := s; si_look := 0 |}) []) = SPanic n
  end.
Proof.
  unfold run_load. cbn zeta.
  destruct (scan_all str_ops _ _ _ _) as [toks se] eqn:Esc.
  change {| p_toks := toks; p_token := None; p_states := []; p_state := SStreamStart; p_anchors := [];
            p_anchor_id := 1%N; p_tags := []; p_keep_tags := false |} with (init_parser toks false).
  match goal with |- context [parse_load ?f ?p se []] =>
    destruct (parse_load_inv f p se [] GInit (init_inv _ _) eq_refl) as [g [_ [_ Hend]]];
    destruct (parse_load f p se []) as [evs pe] eqn:E end.
  cbn [snd] in Hend.
  destruct pe; try exact I.
  - destruct (pipeline_load_spec _ _ _ _ _ E) as [ds [ld [A [B [C D]]]]].
    rewrite C. exists evs, ds. auto.
  - right. cbn [end_ok] in Hend. eexists. rewrite Esc. exact Hend.
  - left. reflexivity.
Qed.
