From Coq Require Import List Bool Arith Lia.
Import ListNotations.
Require Import Wrapper.

Section Proofs.
Variables (core E Er : Type).
Variable is_end : E -> bool.
Variable step : core -> (E + Er) * core.
Notation wr := (wr core E).
Notation run := (run core E Er is_end step).
Notation spec_run := (spec_run core E Er is_end step).
Notation plain := (plain core E Er step).
Notation core_after := (core_after core E Er step).

(* abstraction: the wrapper is at position k of the plain iteration *)
Definition AtPos (c0 : core) (k : nat) (ended : bool) (w : wr) : Prop :=
  w_see _ _ w = ended /\
  match w_current _ _ w with
  | None => w_core _ _ w = core_after k c0
  | Some x => ended = false /\ plain c0 k = inl x /\ w_core _ _ w = core_after (S k) c0
  end.

Lemma core_after_S k c0 : core_after (S k) c0 = snd (step (core_after k c0)).
Proof.
  revert c0. induction k as [|k IH]; intros c0; [reflexivity|].
  change (core_after (S (S k)) c0) with (core_after (S k) (snd (step c0))). rewrite IH. reflexivity.
Qed.

Lemma run_spec c0 h : forall k ended w, AtPos c0 k ended w -> run h w = spec_run c0 h k ended.
Proof.
  induction h as [|o h IH]; intros k ended w [Hs Hc]; [reflexivity|].
  cbn [Wrapper.run Wrapper.spec_run].
  destruct w as [c cur see]. cbn in Hs, Hc. subst see.
  destruct cur as [x|].
  - (* an event is cached *)
    destruct Hc as (-> & Hp & Hcore). rewrite Hp.
    destruct o; cbn [do_op peek next_event next_event_impl w_current w_see w_core is_err].
    + f_equal. apply IH. split; cbn; auto.
    + f_equal. destruct (is_end x) eqn:Ee; apply IH; split; cbn; auto.
  - cbn in Hc. subst c.
    destruct ended.
    + destruct o; cbn [do_op peek next_event w_current w_see is_err]; f_equal; apply IH; split; cbn; auto.
    + unfold Wrapper.plain. destruct (step (core_after k c0)) as [r c'] eqn:Es.
      assert (Hc' : c' = core_after (S k) c0) by (rewrite core_after_S, Es; reflexivity).
      destruct o; cbn [do_op peek next_event next_event_impl w_current w_see w_core]; rewrite Es; cbn [fst].
      * destruct r as [ev|e]; cbn [is_err w_core w_see w_current]; [|reflexivity].
        f_equal. apply IH. split; cbn; [reflexivity|]. repeat split; auto.
        unfold Wrapper.plain. rewrite Es. reflexivity.
      * destruct r as [ev|e]; cbn [is_err]; [|reflexivity].
        f_equal. destruct (is_end ev); apply IH; split; cbn; auto.
Qed.

Theorem history_agrees_with_iteration c0 h :
  run h (init core E c0) = spec_run c0 h 0 false.
Proof. apply run_spec. split; reflexivity. Qed.

(* corollaries in the words of the property *)
(* a Peek reports what the following Next reports, and consumes nothing *)
Corollary peek_then_next c0 h k ended ev :
  ended = false -> plain c0 k = inl ev ->
  spec_run c0 (Peek :: Next :: h) k ended = Some (inl ev) :: Some (inl ev) :: spec_run c0 h (S k) (is_end ev).
Proof. intros -> Hp. cbn. rewrite Hp. reflexivity. Qed.

(* after StreamEnd has been returned by Next, both report nothing, forever *)
Corollary nothing_after_stream_end c0 h k : spec_run c0 h k true = repeat None (length h).
Proof. induction h as [|o h IH]; [reflexivity|]. cbn. rewrite IH. reflexivity. Qed.
End Proofs.
