(* C03, parser half: the pull parser (Model/Parser.v) run on the token list of a layout tree emits exactly the
   events the tree denotes.  LL(1)-machine-versus-grammar proof: induction on the tree with a continuation lemma
   ("from any parser whose top continuation is s, parsing tokens_of t ++ x :: rest emits the events of t and
   resumes in state s with x :: rest").  The token source is the parser's own [p_toks] with its one-token cache
   [p_token]; spans are arbitrary. *)
From Coq Require Import List NArith Bool Lia.
Import ListNotations.
Require Import Parser TokenGrammar.

Arguments N.add : simpl never.
Arguments N.ltb : simpl never.

(* ---------- what the parser still sees, and a view of the parser that hides the cache ---------- *)
Definition upcoming (p : parser) : list token :=
  match p_token p with Some t => t :: p_toks p | None => p_toks p end.

Record pview := mkv {
  v_up : list token; v_state : pstate; v_stack : list pstate;
  v_anchors : list (str * N); v_aid : N; v_tags : list (str * str); v_keep : bool }.
Definition view (p : parser) : pview :=
  mkv (upcoming p) (p_state p) (p_states p) (p_anchors p) (p_anchor_id p) (p_tags p) (p_keep_tags p).

Definition mkp (r : list token) (c : option token) (s : pstate) (k : list pstate) (a : list (str * N)) (n : N)
  (tg : list (str * str)) (kp : bool) : parser :=
  {| p_toks := r; p_token := c; p_states := k; p_state := s; p_anchors := a; p_anchor_id := n; p_tags := tg; p_keep_tags := kp |}.

Lemma peek_view p t r s k a n tg kp :
  view p = mkv (t :: r) s k a n tg kp -> peek p = Ok (t, mkp r (Some t) s k a n tg kp).
Proof.
  destruct p as [toks tok stks st anc aid tags keep]. unfold view, upcoming, peek, mkp. cbn.
  destruct tok as [t0|]; intros H; inversion H; subst; reflexivity.
Qed.

Lemma view_state p u s k a n tg kp : view p = mkv u s k a n tg kp -> p_state p = s.
Proof. unfold view. intros H; inversion H; reflexivity. Qed.

Lemma view_mkp_some r t s k a n tg kp : view (mkp r (Some t) s k a n tg kp) = mkv (t :: r) s k a n tg kp.
Proof. reflexivity. Qed.
Lemma view_mkp_none r s k a n tg kp : view (mkp r None s k a n tg kp) = mkv r s k a n tg kp.
Proof. reflexivity. Qed.

(* ---------- runs of the state machine ---------- *)
Definition sres := res ((event * span) * parser).

Inductive steps : parser -> list event -> parser -> Prop :=
| steps_nil p : steps p [] p
| steps_cons p e sp p' evs p'' :
    state_machine p = Ok ((e, sp), p') -> steps p' evs p'' -> steps p (e :: evs) p''.

(* [run f evs p2]: the call f yields the first event of evs, the state machine the others, ending in p2 *)
Definition run (f : sres) (evs : list event) (p2 : parser) : Prop :=
  match evs with
  | [] => False
  | e :: evs' => exists sp p1, f = Ok ((e, sp), p1) /\ steps p1 evs' p2
  end.

Lemma steps_app p a q b r : steps p a q -> steps q b r -> steps p (a ++ b) r.
Proof. induction 1; intros; cbn; [assumption|]. econstructor; eauto. Qed.

Lemma run_app f a q b r : run f a q -> steps q b r -> run f (a ++ b) r.
Proof.
  destruct a as [|e a]; cbn; [tauto|]. intros (sp & p1 & H1 & H2) H3.
  exists sp, p1. split; [assumption|]. eapply steps_app; eauto.
Qed.

Lemma run_steps p evs q : run (state_machine p) evs q -> steps p evs q.
Proof. destruct evs as [|e evs]; cbn; [tauto|]. intros (sp & p1 & H1 & H2). econstructor; eauto. Qed.

Lemma run_eq (f g : sres) evs q : f = g -> run g evs q -> run f evs q.
Proof. intros ->. auto. Qed.

Lemma run_one f e sp p1 : f = Ok ((e, sp), p1) -> run f [e] p1.
Proof. intros ->. cbn. exists sp, p1. split; [reflexivity|constructor]. Qed.

Lemma run_cons f e sp p1 evs p2 : f = Ok ((e, sp), p1) -> steps p1 evs p2 -> run f (e :: evs) p2.
Proof. intros -> H. cbn. exists sp, p1. auto. Qed.

(* ---------- numbering over concatenations ---------- *)
Lemma env_after_app e a b : env_after e (a ++ b) = env_after (env_after e a) b.
Proof. unfold env_after. apply fold_left_app. Qed.

Lemma number_app tg a : forall e b, number tg e (a ++ b) = number tg e a ++ number tg (env_after e a) b.
Proof. induction a as [|x a IH]; intros e b; cbn; [reflexivity|]. rewrite IH. reflexivity. Qed.

Lemma bound_app tg a : forall e b, bound tg e (a ++ b) = bound tg e a && bound tg (env_after e a) b.
Proof.
  induction a as [|x a IH]; intros e b; cbn; [reflexivity|]. rewrite IH, andb_assoc. reflexivity.
Qed.

Lemma reg_next_pos a e : (0 < ae_next e)%N -> (0 < ae_next (snd (reg a e)))%N.
Proof. destruct a; cbn; lia. Qed.

Lemma env_step_pos e x : (0 < ae_next e)%N -> (0 < ae_next (env_step e x))%N.
Proof. destruct x; cbn [env_step]; auto using reg_next_pos. Qed.

Lemma env_after_pos l : forall e, (0 < ae_next e)%N -> (0 < ae_next (env_after e l))%N.
Proof.
  induction l as [|x l IH]; intros e H; cbn; [assumption|]. apply IH, env_step_pos, H.
Qed.

Definition penv (a : list (str * N)) (n : N) : aenv := {| ae_map := a; ae_next := n |}.

(* ---------- tags ---------- *)
Lemma resolve_tag_pure p m h s :
  resolve_tag p m h s = match resolve_pure (p_tags p) h s with Some t => Ok t | None => Err (PErr 20 m) end.
Proof.
  unfold resolve_tag, resolve_pure.
  destruct (str_eqb h [bang; bang]); [reflexivity|].
  destruct ((match h with [] => true | _ => false end) && str_eqb s [bang]); [reflexivity|].
  destruct (assoc h (p_tags p)); [reflexivity|]. destruct (is_named_handle h); reflexivity.
Qed.

(* ---------- token classes ---------- *)
(* tokens that cannot start a node's content or properties: what may follow a node *)
Definition follow (x : tok) : bool :=
  match x with
  | TScalar _ _ | TFlowSequenceStart | TFlowMappingStart | TBlockSequenceStart | TBlockMappingStart
  | TAnchor _ | TTag _ _ | TAlias _ => false
  | _ => true
  end.
Definition kvbe (x : tok) : bool :=
  match x with TKey | TValue | TBlockEnd => true | _ => false end.
Definition is_start (x : tok) : bool :=
  match x with
  | TScalar _ _ | TFlowSequenceStart | TFlowMappingStart | TBlockSequenceStart | TBlockMappingStart
  | TAnchor _ | TTag _ _ | TAlias _ => true
  | _ => false
  end.

Lemma props_toks_start pr : has_some_props pr = true ->
  exists y ys, props_toks pr = y :: ys /\ is_start y = true.
Proof.
  unfold has_some_props, props_toks, opt_tok. destruct pr as [[a|] [[h s]|] [|]]; cbn; intros H;
    try discriminate; eexists; eexists; split; reflexivity.
Qed.

Lemma props_toks_cons_start pr c l : is_start c = true ->
  exists y ys, props_toks pr ++ c :: l = y :: ys /\ is_start y = true.
Proof.
  intros Hc. unfold props_toks, opt_tok. destruct pr as [[a|] [[h s]|] [|]]; cbn;
    eexists; eexists; split; try reflexivity; assumption.
Qed.

(* the first token of a well-formed node *)
Lemma first_tok b i t : wf b i t = true ->
  exists y ys, tokens_of t = y :: ys /\ (is_start y = true \/ (i = true /\ y = TBlockEntry)).
Proof.
  destruct t; cbn [wf tokens_of]; intros H; try discriminate.
  - destruct (props_toks_cons_start pr (TScalar st v) [] eq_refl) as (y & ys & E & S). eauto.
  - eexists; eexists; split; [reflexivity|]. left; reflexivity.
  - destruct (props_toks_start pr H) as (y & ys & E & S). eauto.
  - destruct (props_toks_cons_start pr TBlockSequenceStart (flat_map (fun x => TBlockEntry :: tokens_of x) items ++ [TBlockEnd]) eq_refl) as (y & ys & E & S). eauto.
  - apply andb_prop in H as [H _]. apply andb_prop in H as [H Hn]. apply andb_prop in H as [_ Hi].
    destruct items as [|x items]; [discriminate|]. cbn [flat_map].
    unfold props_toks, opt_tok. destruct pr as [[a|] [[h s]|] [|]]; cbn;
      eexists; eexists; split; try reflexivity; try (left; reflexivity); right; auto.
  - destruct (props_toks_cons_start pr TBlockMappingStart (flat_map (ent_toks tokens_of) ents ++ [TBlockEnd]) eq_refl) as (y & ys & E & S). eauto.
  - destruct (props_toks_cons_start pr TFlowSequenceStart (fsep (map (fsent_toks tokens_of) ents) ++ flag trail TFlowEntry ++ [TFlowSequenceEnd]) eq_refl) as (y & ys & E & S). eauto.
  - destruct (props_toks_cons_start pr TFlowMappingStart (fsep (map (ent_toks tokens_of) ents) ++ flag trail TFlowEntry ++ [TFlowMappingEnd]) eq_refl) as (y & ys & E & S). eauto.
Qed.

(* ---------- splitting a spanned token list along its token projection ---------- *)
Lemma map_snd_app (ts : list token) a b :
  map snd ts = a ++ b -> exists t1 t2, ts = t1 ++ t2 /\ map snd t1 = a /\ map snd t2 = b.
Proof. apply map_eq_app. Qed.
Lemma map_snd_cons (ts : list token) a b :
  map snd ts = a :: b -> exists sp t2, ts = (sp, a) :: t2 /\ map snd t2 = b.
Proof.
  intros H. apply map_eq_cons in H as ([sp x] & t2 & E & Ex & Et). cbn in Ex. subst. eauto.
Qed.
Lemma map_snd_nil (ts : list token) : map snd ts = [] -> ts = [].
Proof. destruct ts; [reflexivity|discriminate]. Qed.

(* ---------- parse_node: properties ---------- *)
Definition not_prop (x : tok) : bool :=
  match x with TAnchor _ | TTag _ _ | TAlias _ => false | _ => true end.

Lemma follow_not_prop x : follow x = true -> not_prop x = true.
Proof. destruct x; cbn; congruence. Qed.

Ltac vpeek H := rewrite (peek_view _ _ _ _ _ _ _ _ _ H).
Ltac vpeek_in H E := rewrite (peek_view _ _ _ _ _ _ _ _ _ H) in E.

Local Opaque node_content.
Lemma parse_node_props pr p tp x u st k a n tg kp b i :
  view p = mkv (tp ++ x :: u) st k a n tg kp ->
  map snd tp = props_toks pr ->
  not_prop (snd x) = true ->
  tag_ok tg (pr_tag pr) = true ->
  exists q, parse_node p b i = node_content q (fst (reg (pr_anchor pr) (penv a n))) (tag_ev tg (pr_tag pr)) b i /\
            view q = mkv (x :: u) st k (ae_map (snd (reg (pr_anchor pr) (penv a n))))
                         (ae_next (snd (reg (pr_anchor pr) (penv a n)))) tg kp.
Proof.
  intros Hv Hm Hx Ht. destruct x as [spx tk].
  destruct pr as [[an|] [[h s']|] tf]; unfold props_toks, opt_tok in Hm; cbn in Hm, Ht; destruct tf; cbn in Hm;
    repeat match goal with
           | H : map snd _ = _ :: _ |- _ => apply map_snd_cons in H as (? & ? & -> & H)
           | H : map snd _ = [] |- _ => apply map_snd_nil in H as ->
           end; cbn [app] in Hv; unfold parse_node; vpeek Hv;
    try (destruct (resolve_pure tg h s') as [rt|] eqn:ER; [|discriminate]);
    destruct tk; try discriminate;
    cbn; rewrite ?resolve_tag_pure; cbn; rewrite ?ER; cbn;
    eexists; (split; [reflexivity|]); reflexivity.
Qed.
Local Transparent node_content.

(* ---------- the continuation lemma, as a predicate on trees ---------- *)
Definition NodeSpec (t : ltree) : Prop :=
  forall b i p ts x rest st s k e tg kp,
    wf b i t = true ->
    view p = mkv (ts ++ x :: rest) st (s :: k) (ae_map e) (ae_next e) tg kp ->
    map snd ts = tokens_of t ->
    follow (snd x) = true -> (i = true -> kvbe (snd x) = true) ->
    bound tg e (pre_events t) = true ->
    (0 < ae_next e)%N ->
    exists p2, run (parse_node p b i) (number tg e (pre_events t)) p2 /\
      view p2 = mkv (x :: rest) s k (ae_map (env_after e (pre_events t)))
                    (ae_next (env_after e (pre_events t))) tg kp.

Ltac open_env e a n :=
  destruct e as [a n]; cbn [ae_map ae_next] in *; change {| ae_map := a; ae_next := n |} with (penv a n) in *.

Ltac split_toks :=
  repeat match goal with
         | H : map snd _ = _ ++ _ |- _ => apply map_snd_app in H as (? & ? & -> & ? & H)
         | H : map snd _ = _ :: _ |- _ => apply map_snd_cons in H as (? & ? & -> & H)
         | H : map snd _ = [] |- _ => apply map_snd_nil in H as ->
         end.

Lemma reg_id_pos an a n : (0 < n)%N -> (0 <? fst (reg (Some an) (penv a n)))%N = true.
Proof. cbn. intros. apply N.ltb_lt. assumption. Qed.

Lemma node_scalar pr st v : NodeSpec (LScalar pr st v).
Proof.
  intros b i p ts x rest st0 s k e tg kp _ Hv Hm Hf _ Hb Hn. open_env e a n.
  cbn [tokens_of] in Hm. split_toks. rewrite <- app_assoc in Hv. cbn [app] in Hv.
  cbn [pre_events bound bound1] in Hb. rewrite andb_true_r in Hb.
  destruct (parse_node_props pr p _ _ _ _ _ _ _ _ _ b i Hv H eq_refl Hb) as (q & Eq & Vq).
  unfold node_content in Eq. vpeek_in Vq Eq. cbn in Eq.
  eexists. split.
  - cbn [pre_events number number1]. eapply run_one. exact Eq.
  - destruct pr as [[an|] tgo tf]; reflexivity.
Qed.

Lemma node_alias nm : NodeSpec (LAlias nm).
Proof.
  intros b i p ts x rest st0 s k e tg kp _ Hv Hm Hf _ Hb Hn. open_env e a n.
  cbn [tokens_of] in Hm. split_toks. cbn [app] in Hv.
  cbn [pre_events bound bound1 penv ae_map] in Hb. rewrite andb_true_r in Hb.
  destruct (assoc nm a) as [id|] eqn:EA; [|discriminate].
  eexists. split.
  - cbn [pre_events number number1 penv ae_map]. rewrite EA. eapply run_one.
    unfold parse_node. vpeek Hv. cbn. rewrite EA. reflexivity.
  - reflexivity.
Qed.

Lemma node_none : NodeSpec LNone.
Proof. intros b i p ts x rest st0 s k e tg kp Hw. discriminate. Qed.

Lemma has_props_ok pr a n tg : has_some_props pr = true -> (0 < n)%N ->
  has_props (fst (reg (pr_anchor pr) (penv a n))) (tag_ev tg (pr_tag pr)) = true \/ tag_ok tg (pr_tag pr) = false.
Proof.
  unfold has_some_props, has_props, tag_ev, tag_ok. destruct pr as [[an|] [[h s]|] tf]; cbn; intros H Hn; try discriminate.
  - destruct (resolve_pure tg h s); auto.
  - left. apply N.ltb_lt. assumption.
  - destruct (resolve_pure tg h s); auto.
Qed.

Lemma node_props_only pr : NodeSpec (LProps pr).
Proof.
  intros b i p ts x rest st0 s k e tg kp Hw Hv Hm Hf Hi Hb Hn. open_env e a n.
  cbn [tokens_of wf] in Hm, Hw.
  cbn [pre_events bound bound1] in Hb. rewrite andb_true_r in Hb.
  destruct (parse_node_props pr p _ _ _ _ _ _ _ _ _ b i Hv Hm (follow_not_prop _ Hf) Hb) as (q & Eq & Vq).
  destruct (has_props_ok pr a n tg Hw Hn) as [HP|HP]; [|congruence].
  assert (Hc : node_content q (fst (reg (pr_anchor pr) (penv a n))) (tag_ev tg (pr_tag pr)) b i =
               empty_or_err (mkp rest (Some x) st0 (s :: k) (ae_map (snd (reg (pr_anchor pr) (penv a n))))
                                 (ae_next (snd (reg (pr_anchor pr) (penv a n)))) tg kp)
                            (fst (reg (pr_anchor pr) (penv a n))) (tag_ev tg (pr_tag pr)) (fst x)).
  { unfold node_content. vpeek Vq. destruct x as [spx tk]. cbn [snd fst] in *.
    destruct tk; try discriminate; try reflexivity.
    (* BlockEntry *) destruct i; [|reflexivity]. specialize (Hi eq_refl). discriminate. }
  rewrite Hc in Eq. unfold empty_or_err in Eq. rewrite HP in Eq. cbn in Eq.
  eexists. split.
  - cbn [pre_events number number1]. eapply run_one. exact Eq.
  - destruct pr as [[an|] tgo tf]; reflexivity.
Qed.

(* ---------- generic steps ---------- *)
Lemma sm_block_sequence_entry q : p_state q = SBlockSequenceEntry -> state_machine q = block_sequence_entry q false.
Proof. unfold state_machine. intros ->. reflexivity. Qed.
Lemma sm_block_sequence_first q : p_state q = SBlockSequenceFirstEntry -> state_machine q = block_sequence_entry q true.
Proof. unfold state_machine. intros ->. reflexivity. Qed.
Lemma sm_indentless q : p_state q = SIndentlessSequenceEntry -> state_machine q = indentless_sequence_entry q.
Proof. unfold state_machine. intros ->. reflexivity. Qed.
Lemma sm_block_mapping_key q : p_state q = SBlockMappingKey -> state_machine q = block_mapping_key q false.
Proof. unfold state_machine. intros ->. reflexivity. Qed.
Lemma sm_block_mapping_first q : p_state q = SBlockMappingFirstKey -> state_machine q = block_mapping_key q true.
Proof. unfold state_machine. intros ->. reflexivity. Qed.
Lemma sm_block_mapping_value q : p_state q = SBlockMappingValue -> state_machine q = block_mapping_value q.
Proof. unfold state_machine. intros ->. reflexivity. Qed.

(* the tokens of a well-formed node, spanned, start with a node-start token *)
Lemma first_tok_spanned b i t (tx : list token) : wf b i t = true -> map snd tx = tokens_of t ->
  exists sp0 y0 tx', tx = (sp0, y0) :: tx' /\ (is_start y0 = true \/ (i = true /\ y0 = TBlockEntry)).
Proof.
  intros Hw Hm. destruct (first_tok b i t Hw) as (y0 & ys & E0 & S0). rewrite E0 in Hm.
  apply map_snd_cons in Hm as (sp0 & tx' & -> & _). eauto.
Qed.

Ltac start_cases tk := destruct tk; try discriminate.

(* ---------- block sequences ---------- *)
Lemma bseq_item x : NodeSpec x -> forall p sp1 tx y r st s k e tg kp,
  is_none x || wf true false x = true ->
  view p = mkv ((sp1, TBlockEntry) :: tx ++ y :: r) st (s :: k) (ae_map e) (ae_next e) tg kp ->
  map snd tx = tokens_of x ->
  (snd y = TBlockEntry \/ snd y = TBlockEnd) ->
  bound tg e (pre_events x) = true -> (0 < ae_next e)%N ->
  exists p1, run (block_sequence_entry p false) (number tg e (pre_events x)) p1 /\
     view p1 = mkv (y :: r) SBlockSequenceEntry (s :: k) (ae_map (env_after e (pre_events x)))
                   (ae_next (env_after e (pre_events x))) tg kp.
Proof.
  intros Hx p sp1 tx y r st s k e tg kp Hw Hv Hm Hy Hb Hn.
  assert (Hfy : follow (snd y) = true) by (destruct Hy as [-> | ->]; reflexivity).
  destruct (is_none x) eqn:EN; cbn [orb] in Hw.
  - destruct x; try discriminate. cbn [tokens_of] in Hm. apply map_snd_nil in Hm as ->. cbn [app] in Hv.
    destruct y as [spy ty]. cbn [snd] in Hy.
    assert (Eq : block_sequence_entry p false =
                 Ok ((empty_scalar, spy), mkp r (Some (spy, ty)) SBlockSequenceEntry (s :: k) (ae_map e) (ae_next e) tg kp))
      by (destruct Hy as [-> | ->]; unfold block_sequence_entry; vpeek Hv; reflexivity).
    eexists. split; [eapply run_one; exact Eq | reflexivity].
  - destruct (first_tok_spanned _ _ _ _ Hw Hm) as (sp0 & y0 & tx' & -> & [S0 | [? _]]); [|discriminate].
    cbn [app] in Hv.
    assert (Eq : block_sequence_entry p false =
                 parse_node (push_state (mkp (tx' ++ y :: r) (Some (sp0, y0)) st (s :: k) (ae_map e) (ae_next e) tg kp)
                                        SBlockSequenceEntry) true false)
      by (start_cases y0; unfold block_sequence_entry; vpeek Hv; reflexivity).
    rewrite Eq.
    match type of Eq with _ = parse_node ?q _ _ =>
      apply (Hx true false q ((sp0, y0) :: tx') y r st SBlockSequenceEntry (s :: k) e tg kp Hw eq_refl Hm Hfy
                ltac:(discriminate) Hb Hn)
    end.
Qed.

(* what follows the entries of a block sequence *)
Lemma bseq_next (ts : list token) items spE rest :
  map snd ts = flat_map (fun x => TBlockEntry :: tokens_of x) items ->
  exists y r, ts ++ (spE, TBlockEnd) :: rest = y :: r /\ (snd y = TBlockEntry \/ snd y = TBlockEnd).
Proof.
  destruct items as [|x items]; cbn; intros H.
  - apply map_snd_nil in H as ->. cbn. eauto.
  - apply map_snd_cons in H as (sp & t2 & -> & _). cbn. eauto.
Qed.

Lemma bseq_entries items : Forall NodeSpec items ->
  forall p ts spE rest st s k e tg kp,
  forallb (fun x => is_none x || wf true false x) items = true ->
  view p = mkv (ts ++ (spE, TBlockEnd) :: rest) st (s :: k) (ae_map e) (ae_next e) tg kp ->
  map snd ts = flat_map (fun x => TBlockEntry :: tokens_of x) items ->
  bound tg e (flat_map pre_events items) = true -> (0 < ae_next e)%N ->
  exists p2, run (block_sequence_entry p false) (number tg e (flat_map pre_events items) ++ [ESequenceEnd]) p2 /\
     view p2 = mkv rest s k (ae_map (env_after e (flat_map pre_events items)))
                   (ae_next (env_after e (flat_map pre_events items))) tg kp.
Proof.
  induction 1 as [|x items Hx HF IH]; intros p ts spE rest st s k e tg kp Hw Hv Hm Hb Hn.
  - cbn in Hm. apply map_snd_nil in Hm as ->. cbn [app] in Hv. eexists. split.
    + cbn [flat_map number app]. eapply run_one. unfold block_sequence_entry. vpeek Hv. cbn. reflexivity.
    + reflexivity.
  - cbn [flat_map] in Hm, Hb. cbn [forallb] in Hw. apply andb_prop in Hw as [Hwx Hw].
    rewrite bound_app in Hb. apply andb_prop in Hb as [Hbx Hb].
    apply map_snd_app in Hm as (t1 & ts' & -> & Hm1 & Hm).
    apply map_snd_cons in Hm1 as (sp1 & tx & -> & Hmx).
    destruct (bseq_next ts' items spE rest Hm) as (y & r & Ey & Hy).
    cbn [app] in Hv. rewrite <- !app_assoc in Hv. unfold token in *; rewrite Ey in Hv.
    destruct (bseq_item x Hx p sp1 tx y r st s k e tg kp Hwx Hv Hmx Hy Hbx Hn) as (p1 & R1 & V1).
    destruct (IH p1 ts' spE rest SBlockSequenceEntry s k _ tg kp Hw
                 ltac:(rewrite V1; f_equal; symmetry; exact Ey) Hm Hb (env_after_pos _ _ Hn)) as (p2 & R2 & V2).
    exists p2. cbn [flat_map]. rewrite number_app, <- app_assoc, env_after_app. split; [|exact V2].
    eapply run_app; [exact R1|]. apply run_steps.
    rewrite (sm_block_sequence_entry p1 (view_state _ _ _ _ _ _ _ _ V1)). exact R2.
Qed.

(* numbering of a collection: start event, children, end event *)
Lemma number_coll tg e (s1 : pev) l (s2 : pev) :
  number tg e (s1 :: l ++ [s2]) =
  number1 tg e s1 :: number tg (env_step e s1) l ++ [number1 tg (env_after (env_step e s1) l) s2].
Proof. cbn [number]. rewrite number_app. reflexivity. Qed.
Lemma env_after_coll e (s1 : pev) l (s2 : pev) :
  env_after e (s1 :: l ++ [s2]) = env_step (env_after (env_step e s1) l) s2.
Proof. unfold env_after. cbn [fold_left]. rewrite fold_left_app. reflexivity. Qed.
Lemma bound_coll tg e (s1 : pev) l (s2 : pev) :
  bound tg e (s1 :: l ++ [s2]) = true -> bound1 tg e s1 = true /\ bound tg (env_step e s1) l = true.
Proof.
  cbn [bound]. rewrite bound_app. intros H. apply andb_prop in H as [H1 H]. apply andb_prop in H as [H2 _]. auto.
Qed.

Lemma bse_first u t0 S K a n tg kp :
  block_sequence_entry (mkp u (Some t0) S K a n tg kp) true = block_sequence_entry (mkp u None S K a n tg kp) false.
Proof. reflexivity. Qed.

Lemma node_bseq pr items : Forall NodeSpec items -> NodeSpec (LBSeq pr items).
Proof.
  intros HF b i p ts x rest st0 s k e tg kp Hw Hv Hm Hf _ Hb Hn. open_env e a n.
  cbn [wf] in Hw. apply andb_prop in Hw as [-> Hw].
  cbn [tokens_of] in Hm.
  apply map_snd_app in Hm as (tp & t2 & -> & Hmp & Hm).
  apply map_snd_cons in Hm as (spS & t3 & -> & Hm).
  apply map_snd_app in Hm as (tb & t4 & -> & Hmb & Hm).
  apply map_snd_cons in Hm as (spE & t5 & -> & Hm). apply map_snd_nil in Hm as ->.
  rewrite <- !app_assoc in Hv. cbn [app] in Hv. rewrite <- !app_assoc in Hv. cbn [app] in Hv.
  cbn [pre_events] in Hb |- *. apply bound_coll in Hb as [Hb1 Hb]. cbn [bound1] in Hb1.
  destruct (parse_node_props pr p _ _ _ _ _ _ _ _ _ true i Hv Hmp eq_refl Hb1) as (q & Eq & Vq).
  unfold node_content in Eq. vpeek_in Vq Eq. cbn in Eq.
  set (e1 := snd (reg (pr_anchor pr) (penv a n))) in *.
  assert (Hn1 : (0 < ae_next e1)%N) by (apply reg_next_pos; exact Hn).
  destruct (bseq_entries items HF (mkp (tb ++ (spE, TBlockEnd) :: x :: rest) None SBlockSequenceFirstEntry (s :: k) (ae_map e1) (ae_next e1) tg kp)
              tb spE (x :: rest) SBlockSequenceFirstEntry s k e1 tg kp Hw eq_refl Hmb Hb Hn1) as (p2 & R2 & V2).
  exists p2. rewrite number_coll, env_after_coll. split; [|exact V2].
  eapply run_cons; [exact Eq|]. apply run_steps. cbn [state_machine p_state set_state mkp].
  exact R2.
Qed.

(* ---------- indentless sequences ---------- *)
Definition bkvbe (x : tok) : bool := match x with TBlockEntry => true | _ => kvbe x end.

Lemma kvbe_follow x : kvbe x = true -> follow x = true.
Proof. destruct x; cbn; congruence. Qed.
Lemma bkvbe_follow x : bkvbe x = true -> follow x = true.
Proof. destruct x; cbn; congruence. Qed.

Lemma iseq_item x : NodeSpec x -> forall p sp1 tx y r st s k e tg kp,
  is_none x || wf true false x = true ->
  view p = mkv ((sp1, TBlockEntry) :: tx ++ y :: r) st (s :: k) (ae_map e) (ae_next e) tg kp ->
  map snd tx = tokens_of x ->
  bkvbe (snd y) = true ->
  bound tg e (pre_events x) = true -> (0 < ae_next e)%N ->
  exists p1, run (indentless_sequence_entry p) (number tg e (pre_events x)) p1 /\
     view p1 = mkv (y :: r) SIndentlessSequenceEntry (s :: k) (ae_map (env_after e (pre_events x)))
                   (ae_next (env_after e (pre_events x))) tg kp.
Proof.
  intros Hx p sp1 tx y r st s k e tg kp Hw Hv Hm Hy Hb Hn.
  pose proof (bkvbe_follow _ Hy) as Hfy.
  destruct (is_none x) eqn:EN; cbn [orb] in Hw.
  - destruct x; try discriminate. cbn [tokens_of] in Hm. apply map_snd_nil in Hm as ->. cbn [app] in Hv.
    destruct y as [spy ty]. cbn [snd] in Hy.
    assert (Eq : indentless_sequence_entry p =
                 Ok ((empty_scalar, spy), mkp r (Some (spy, ty)) SIndentlessSequenceEntry (s :: k) (ae_map e) (ae_next e) tg kp))
      by (destruct ty; try discriminate; unfold indentless_sequence_entry; vpeek Hv; reflexivity).
    eexists. split; [eapply run_one; exact Eq | reflexivity].
  - destruct (first_tok_spanned _ _ _ _ Hw Hm) as (sp0 & y0 & tx' & -> & [S0 | [? _]]); [|discriminate].
    cbn [app] in Hv.
    assert (Eq : indentless_sequence_entry p =
                 parse_node (push_state (mkp (tx' ++ y :: r) (Some (sp0, y0)) st (s :: k) (ae_map e) (ae_next e) tg kp)
                                        SIndentlessSequenceEntry) true false)
      by (start_cases y0; unfold indentless_sequence_entry; vpeek Hv; reflexivity).
    rewrite Eq.
    match type of Eq with _ = parse_node ?q _ _ =>
      apply (Hx true false q ((sp0, y0) :: tx') y r st SIndentlessSequenceEntry (s :: k) e tg kp Hw eq_refl Hm Hfy
                ltac:(discriminate) Hb Hn)
    end.
Qed.

Lemma iseq_next (ts : list token) items (x : token) rest :
  map snd ts = flat_map (fun x => TBlockEntry :: tokens_of x) items -> kvbe (snd x) = true ->
  exists y r, ts ++ x :: rest = y :: r /\ bkvbe (snd y) = true.
Proof.
  destruct items as [|x0 items]; cbn; intros H Hx.
  - apply map_snd_nil in H as ->. cbn. exists x, rest. split; [reflexivity|]. destruct (snd x); try discriminate; reflexivity.
  - apply map_snd_cons in H as (sp & t2 & -> & _). cbn. eauto.
Qed.

Lemma iseq_entries items : Forall NodeSpec items ->
  forall p ts x rest st s k e tg kp,
  forallb (fun x => is_none x || wf true false x) items = true ->
  view p = mkv (ts ++ x :: rest) st (s :: k) (ae_map e) (ae_next e) tg kp ->
  map snd ts = flat_map (fun x => TBlockEntry :: tokens_of x) items ->
  kvbe (snd x) = true ->
  bound tg e (flat_map pre_events items) = true -> (0 < ae_next e)%N ->
  exists p2, run (indentless_sequence_entry p) (number tg e (flat_map pre_events items) ++ [ESequenceEnd]) p2 /\
     view p2 = mkv (x :: rest) s k (ae_map (env_after e (flat_map pre_events items)))
                   (ae_next (env_after e (flat_map pre_events items))) tg kp.
Proof.
  induction 1 as [|x0 items Hx HF IH]; intros p ts x rest st s k e tg kp Hw Hv Hm Hk Hb Hn.
  - cbn in Hm. apply map_snd_nil in Hm as ->. cbn [app] in Hv. destruct x as [spx tx].
    assert (Eq : indentless_sequence_entry p =
                 Ok ((ESequenceEnd, spx), mkp rest (Some (spx, tx)) s k (ae_map e) (ae_next e) tg kp))
      by (cbn [snd] in Hk; destruct tx; try discriminate; unfold indentless_sequence_entry; vpeek Hv; reflexivity).
    eexists. split; [eapply run_one; exact Eq | reflexivity].
  - cbn [flat_map] in Hm, Hb. cbn [forallb] in Hw. apply andb_prop in Hw as [Hwx Hw].
    rewrite bound_app in Hb. apply andb_prop in Hb as [Hbx Hb].
    apply map_snd_app in Hm as (t1 & ts' & -> & Hm1 & Hm).
    apply map_snd_cons in Hm1 as (sp1 & tx & -> & Hmx).
    destruct (iseq_next ts' items x rest Hm Hk) as (y & r & Ey & Hy).
    cbn [app] in Hv. rewrite <- !app_assoc in Hv. unfold token in *; rewrite Ey in Hv.
    destruct (iseq_item x0 Hx p sp1 tx y r st s k e tg kp Hwx Hv Hmx Hy Hbx Hn) as (p1 & R1 & V1).
    destruct (IH p1 ts' x rest SIndentlessSequenceEntry s k _ tg kp Hw
                 ltac:(rewrite V1; f_equal; symmetry; exact Ey) Hm Hk Hb (env_after_pos _ _ Hn)) as (p2 & R2 & V2).
    exists p2. cbn [flat_map]. rewrite number_app, <- app_assoc, env_after_app. split; [|exact V2].
    eapply run_app; [exact R1|]. apply run_steps.
    rewrite (sm_indentless p1 (view_state _ _ _ _ _ _ _ _ V1)). exact R2.
Qed.

Lemma node_iseq pr items : Forall NodeSpec items -> NodeSpec (LISeq pr items).
Proof.
  intros HF b i p ts x rest st0 s k e tg kp Hw Hv Hm Hf Hi Hb Hn. open_env e a n.
  cbn [wf] in Hw. apply andb_prop in Hw as [Hw Hw2]. apply andb_prop in Hw as [Hw Hne].
  apply andb_prop in Hw as [-> ->]. specialize (Hi eq_refl).
  cbn [tokens_of] in Hm.
  apply map_snd_app in Hm as (tp & tb & -> & Hmp & Hmb).
  rewrite <- !app_assoc in Hv.
  cbn [pre_events] in Hb |- *. apply bound_coll in Hb as [Hb1 Hb]. cbn [bound1] in Hb1.
  destruct items as [|x0 items]; [discriminate|].
  pose proof Hmb as Hmb'. cbn [flat_map app] in Hmb'. apply map_snd_cons in Hmb' as (sp1 & tb' & Etb & _).
  rewrite Etb in Hv. cbn [app] in Hv.
  destruct (parse_node_props pr p _ _ _ _ _ _ _ _ _ true true Hv Hmp eq_refl Hb1) as (q & Eq & Vq).
  unfold node_content in Eq. vpeek_in Vq Eq. cbn in Eq.
  set (e1 := snd (reg (pr_anchor pr) (penv a n))) in *.
  assert (Hn1 : (0 < ae_next e1)%N) by (apply reg_next_pos; exact Hn).
  match type of Eq with _ = Ok (_, ?p1) =>
    destruct (iseq_entries (x0 :: items) HF p1 tb x rest SIndentlessSequenceEntry s k e1 tg kp Hw2
                ltac:(rewrite Etb; reflexivity) Hmb Hi Hb Hn1) as (p2 & R2 & V2)
  end.
  exists p2. rewrite number_coll, env_after_coll. split; [|exact V2].
  eapply run_cons; [exact Eq|]. apply run_steps. exact R2.
Qed.

(* ---------- block mappings ---------- *)
Lemma bm_key kt kn : NodeSpec kn -> forall p tkk tk y r st s k e tg kp,
  is_none kn || wf true true kn = true ->
  (kt = true \/ (is_none kn = true /\ snd y = TValue)) ->
  view p = mkv (tkk ++ tk ++ y :: r) st (s :: k) (ae_map e) (ae_next e) tg kp ->
  map snd tkk = flag kt TKey -> map snd tk = tokens_of kn ->
  kvbe (snd y) = true ->
  bound tg e (pre_events kn) = true -> (0 < ae_next e)%N ->
  exists p1, run (block_mapping_key p false) (number tg e (pre_events kn)) p1 /\
     view p1 = mkv (y :: r) SBlockMappingValue (s :: k) (ae_map (env_after e (pre_events kn)))
                   (ae_next (env_after e (pre_events kn))) tg kp.
Proof.
  intros Hx p tkk tk y r st s k e tg kp Hw Hkt Hv Hmk Hm Hy Hb Hn.
  pose proof (kvbe_follow _ Hy) as Hfy.
  destruct kt.
  - (* Key token present *)
    cbn in Hmk. apply map_snd_cons in Hmk as (spK & t2 & -> & Hmk). apply map_snd_nil in Hmk as ->. cbn [app] in Hv.
    destruct (is_none kn) eqn:EN; cbn [orb] in Hw.
    + destruct kn; try discriminate. cbn [tokens_of] in Hm. apply map_snd_nil in Hm as ->. cbn [app] in Hv.
      destruct y as [spy ty]. cbn [snd] in Hy.
      assert (Eq : block_mapping_key p false =
                   Ok ((empty_scalar, spy), mkp r (Some (spy, ty)) SBlockMappingValue (s :: k) (ae_map e) (ae_next e) tg kp))
        by (destruct ty; try discriminate; unfold block_mapping_key; vpeek Hv; reflexivity).
      eexists. split; [eapply run_one; exact Eq | reflexivity].
    + destruct (first_tok_spanned _ _ _ _ Hw Hm) as (sp0 & y0 & tx' & -> & S0).
      cbn [app] in Hv.
      assert (Eq : block_mapping_key p false =
                   parse_node (push_state (mkp (tx' ++ y :: r) (Some (sp0, y0)) st (s :: k) (ae_map e) (ae_next e) tg kp)
                                          SBlockMappingValue) true true)
        by (destruct S0 as [S0 | [_ ->]]; [start_cases y0|]; unfold block_mapping_key; vpeek Hv; reflexivity).
      rewrite Eq.
      match type of Eq with _ = parse_node ?q _ _ =>
        apply (Hx true true q ((sp0, y0) :: tx') y r st SBlockMappingValue (s :: k) e tg kp Hw eq_refl Hm Hfy
                  ltac:(intros _; exact Hy) Hb Hn)
      end.
  - (* no Key token: the key is left out and a Value token follows *)
    destruct Hkt as [?|[EN Hyv]]; [discriminate|].
    cbn in Hmk. apply map_snd_nil in Hmk as ->. destruct kn; try discriminate.
    cbn [tokens_of] in Hm. apply map_snd_nil in Hm as ->. cbn [app] in Hv.
    destruct y as [spy ty]. cbn [snd] in Hyv. subst ty.
    assert (Eq : block_mapping_key p false =
                 Ok ((empty_scalar, spy), mkp r (Some (spy, TValue)) SBlockMappingValue (s :: k) (ae_map e) (ae_next e) tg kp))
      by (unfold block_mapping_key; vpeek Hv; reflexivity).
    eexists. split; [eapply run_one; exact Eq | reflexivity].
Qed.

Lemma bm_value vt vn : NodeSpec vn -> forall p tvv tv y r st s k e tg kp,
  is_none vn || wf true true vn = true ->
  (vt = true \/ (is_none vn = true /\ snd y <> TValue)) ->
  view p = mkv (tvv ++ tv ++ y :: r) st (s :: k) (ae_map e) (ae_next e) tg kp ->
  map snd tvv = flag vt TValue -> map snd tv = tokens_of vn ->
  kvbe (snd y) = true ->
  bound tg e (pre_events vn) = true -> (0 < ae_next e)%N ->
  exists p1, run (block_mapping_value p) (number tg e (pre_events vn)) p1 /\
     view p1 = mkv (y :: r) SBlockMappingKey (s :: k) (ae_map (env_after e (pre_events vn)))
                   (ae_next (env_after e (pre_events vn))) tg kp.
Proof.
  intros Hx p tvv tv y r st s k e tg kp Hw Hvt Hv Hmv Hm Hy Hb Hn.
  pose proof (kvbe_follow _ Hy) as Hfy.
  destruct vt.
  - cbn in Hmv. apply map_snd_cons in Hmv as (spV & t2 & -> & Hmv). apply map_snd_nil in Hmv as ->. cbn [app] in Hv.
    destruct (is_none vn) eqn:EN; cbn [orb] in Hw.
    + destruct vn; try discriminate. cbn [tokens_of] in Hm. apply map_snd_nil in Hm as ->. cbn [app] in Hv.
      destruct y as [spy ty]. cbn [snd] in Hy.
      assert (Eq : block_mapping_value p =
                   Ok ((empty_scalar, spy), mkp r (Some (spy, ty)) SBlockMappingKey (s :: k) (ae_map e) (ae_next e) tg kp))
        by (destruct ty; try discriminate; unfold block_mapping_value; vpeek Hv; reflexivity).
      eexists. split; [eapply run_one; exact Eq | reflexivity].
    + destruct (first_tok_spanned _ _ _ _ Hw Hm) as (sp0 & y0 & tx' & -> & S0).
      cbn [app] in Hv.
      assert (Eq : block_mapping_value p =
                   parse_node (push_state (mkp (tx' ++ y :: r) (Some (sp0, y0)) st (s :: k) (ae_map e) (ae_next e) tg kp)
                                          SBlockMappingKey) true true)
        by (destruct S0 as [S0 | [_ ->]]; [start_cases y0|]; unfold block_mapping_value; vpeek Hv; reflexivity).
      rewrite Eq.
      match type of Eq with _ = parse_node ?q _ _ =>
        apply (Hx true true q ((sp0, y0) :: tx') y r st SBlockMappingKey (s :: k) e tg kp Hw eq_refl Hm Hfy
                  ltac:(intros _; exact Hy) Hb Hn)
      end.
  - destruct Hvt as [?|[EN Hyv]]; [discriminate|].
    cbn in Hmv. apply map_snd_nil in Hmv as ->. destruct vn; try discriminate.
    cbn [tokens_of] in Hm. apply map_snd_nil in Hm as ->. cbn [app] in Hv.
    destruct y as [spy ty]. cbn [snd] in Hyv, Hy.
    assert (Eq : block_mapping_value p =
                 Ok ((empty_scalar, spy), mkp r (Some (spy, ty)) SBlockMappingKey (s :: k) (ae_map e) (ae_next e) tg kp))
      by (destruct ty; try discriminate; try congruence; unfold block_mapping_value; vpeek Hv; reflexivity).
    eexists. split; [eapply run_one; exact Eq | reflexivity].
Qed.

Definition head_kt (l : list (entry ltree)) : bool := match l with (kt, _, _) :: _ => kt | [] => true end.

Lemma bm_next (ts : list token) ents spE rest :
  map snd ts = flat_map (ent_toks tokens_of) ents ->
  forallb (ent_wf (wf true true)) ents = true ->
  exists y r, ts ++ (spE, TBlockEnd) :: rest = y :: r /\ kvbe (snd y) = true /\ (head_kt ents = true -> snd y <> TValue).
Proof.
  destruct ents as [|[[kt kn] [vt vn]] ents]; cbn [flat_map ent_toks forallb ent_wf head_kt]; intros H Hw.
  - apply map_snd_nil in H as ->. cbn. eexists; eexists; split; [reflexivity|]. split; [reflexivity|discriminate].
  - destruct kt; cbn [flag app] in H.
    + apply map_snd_cons in H as (sp & t2 & -> & _). cbn. eexists; eexists; split; [reflexivity|]. split; [reflexivity|discriminate].
    + apply andb_prop in Hw as [Hw _]. apply andb_prop in Hw as [Hw _]. apply andb_prop in Hw as [Hw _]. apply andb_prop in Hw as [Hw _].
      cbn [orb] in Hw. apply andb_prop in Hw as [Hk Hvt]. destruct kn; try discriminate. subst vt.
      cbn [tokens_of flag app] in H. apply map_snd_cons in H as (sp & t2 & -> & _). cbn.
      eexists; eexists; split; [reflexivity|]. split; [reflexivity|discriminate].
Qed.

Lemma adj_ok_tail en ents : adj_ok (en :: ents) = true ->
  adj_ok ents = true /\ (fst (snd en) = false -> head_kt ents = true).
Proof.
  destruct en as [[kt kn] [vt vn]]. destruct ents as [|[[kt' kn'] [vt' vn']] ents]; cbn [adj_ok head_kt fst snd].
  - auto.
  - intros H. apply andb_prop in H as [H1 H2]. split; [exact H2|]. intros ->. exact H1.
Qed.

Lemma bm_entries ents : Forall (fun en => NodeSpec (snd (fst en)) /\ NodeSpec (snd (snd en))) ents ->
  forall p ts spE rest st s k e tg kp,
  forallb (ent_wf (wf true true)) ents = true -> adj_ok ents = true ->
  view p = mkv (ts ++ (spE, TBlockEnd) :: rest) st (s :: k) (ae_map e) (ae_next e) tg kp ->
  map snd ts = flat_map (ent_toks tokens_of) ents ->
  bound tg e (flat_map (ent_pre pre_events) ents) = true -> (0 < ae_next e)%N ->
  exists p2, run (block_mapping_key p false) (number tg e (flat_map (ent_pre pre_events) ents) ++ [EMappingEnd]) p2 /\
     view p2 = mkv rest s k (ae_map (env_after e (flat_map (ent_pre pre_events) ents)))
                   (ae_next (env_after e (flat_map (ent_pre pre_events) ents))) tg kp.
Proof.
  induction 1 as [|en ents [Hk Hvn] HF IH]; intros p ts spE rest st s k e tg kp Hw Hadj Hv Hm Hb Hn.
  - cbn in Hm. apply map_snd_nil in Hm as ->. cbn [app] in Hv. eexists. split.
    + cbn [flat_map number app]. eapply run_one. unfold block_mapping_key. vpeek Hv. cbn. reflexivity.
    + reflexivity.
  - destruct en as [[kt kn] [vt vn]]. cbn [fst snd] in Hk, Hvn.
    cbn [flat_map ent_toks ent_pre] in Hm, Hb. cbn [forallb ent_wf] in Hw. apply andb_prop in Hw as [Hwe Hw].
    apply andb_prop in Hwe as [Hwe Hwv]. apply andb_prop in Hwe as [Hwe Hwk]. apply andb_prop in Hwe as [Hkt Hvt].
    apply adj_ok_tail in Hadj as [Hadj Hhead]. cbn [fst snd] in Hhead.
    rewrite !bound_app in Hb. apply andb_prop in Hb as [Hb Hbr]. apply andb_prop in Hb as [Hbk Hbv].
    rewrite env_after_app in Hbr.
    apply map_snd_app in Hm as (t1 & ts' & -> & Hm1 & Hm).
    apply map_snd_app in Hm1 as (tkk & t2 & -> & Hmkk & Hm1).
    apply map_snd_app in Hm1 as (tk & t3 & -> & Hmk & Hm1).
    apply map_snd_app in Hm1 as (tvv & tv & -> & Hmvv & Hmv).
    destruct (bm_next ts' ents spE rest Hm Hw) as (yv & rv & Ey & Hyv & Hyv2).
    rewrite <- !app_assoc in Hv. unfold token in *; rewrite Ey in Hv.
    cbn [flat_map ent_pre]. rewrite !number_app, <- !app_assoc, !env_after_app.
    assert (Hval : forall p1 (e1 : aenv), (0 < ae_next e1)%N -> bound tg e1 (pre_events vn) = true ->
              bound tg (env_after e1 (pre_events vn)) (flat_map (ent_pre pre_events) ents) = true ->
              view p1 = mkv (tvv ++ tv ++ yv :: rv) SBlockMappingValue (s :: k) (ae_map e1) (ae_next e1) tg kp ->
              exists p2, steps p1 (number tg e1 (pre_events vn) ++
                                   number tg (env_after e1 (pre_events vn)) (flat_map (ent_pre pre_events) ents) ++ [EMappingEnd]) p2 /\
                view p2 = mkv rest s k (ae_map (env_after (env_after e1 (pre_events vn)) (flat_map (ent_pre pre_events) ents)))
                              (ae_next (env_after (env_after e1 (pre_events vn)) (flat_map (ent_pre pre_events) ents))) tg kp).
    { intros p1 e1 Hn1 Hbv1 Hbr1 V1.
      assert (Hvt' : vt = true \/ (is_none vn = true /\ snd yv <> TValue)).
      { destruct vt; [left; reflexivity|right]. cbn [orb] in Hvt. split; [exact Hvt|]. apply Hyv2, Hhead. reflexivity. }
      destruct (bm_value vt vn Hvn p1 tvv tv yv rv SBlockMappingValue s k e1 tg kp Hwv Hvt' V1 Hmvv Hmv Hyv Hbv1 Hn1) as (p2 & R2 & V2).
      destruct (IH p2 ts' spE rest SBlockMappingKey s k _ tg kp Hw Hadj
                   ltac:(rewrite V2; f_equal; symmetry; exact Ey) Hm Hbr1 (env_after_pos _ _ Hn1)) as (p3 & R3 & V3).
      exists p3. split; [|exact V3].
      eapply steps_app.
      - apply run_steps. rewrite (sm_block_mapping_value p1 (view_state _ _ _ _ _ _ _ _ V1)). exact R2.
      - apply run_steps. rewrite (sm_block_mapping_key p2 (view_state _ _ _ _ _ _ _ _ V2)). exact R3. }
    destruct vt.
    + (* a Value token follows the key *)
      pose proof Hmvv as Hmvv'. cbn in Hmvv'. apply map_snd_cons in Hmvv' as (spV & t4 & Etvv & Hm4). apply map_snd_nil in Hm4 as ->.
      rewrite Etvv in Hv. cbn [app] in Hv.
      assert (Hkt' : kt = true \/ (is_none kn = true /\ snd (spV, TValue) = TValue)).
      { destruct kt; [left; reflexivity|right]. cbn [orb] in Hkt. apply andb_prop in Hkt as [Hkn _]. split; [exact Hkn|reflexivity]. }
      destruct (bm_key kt kn Hk p tkk tk (spV, TValue) (tv ++ yv :: rv) st s k e tg kp Hwk Hkt' Hv Hmkk Hmk eq_refl Hbk Hn) as (p1 & R1 & V1).
      destruct (Hval p1 _ (env_after_pos _ _ Hn) Hbv Hbr ltac:(rewrite Etvv; exact V1)) as (p2 & R2 & V2).
      exists p2. split; [|exact V2]. eapply run_app; [exact R1|exact R2].
    + (* no Value token: the value is left out *)
      cbn [orb] in Hvt. destruct vn; try discriminate. cbn [tokens_of] in Hmv. apply map_snd_nil in Hmv as ->.
      pose proof Hmvv as Hmvv'. cbn in Hmvv'. apply map_snd_nil in Hmvv'. subst tvv. cbn [app] in Hv.
      assert (Hkt' : kt = true \/ (is_none kn = true /\ snd yv = TValue)).
      { destruct kt; [left; reflexivity|]. cbn [orb] in Hkt. apply andb_prop in Hkt as [_ ?]. discriminate. }
      destruct (bm_key kt kn Hk p tkk tk yv rv st s k e tg kp Hwk Hkt' Hv Hmkk Hmk Hyv Hbk Hn) as (p1 & R1 & V1).
      destruct (Hval p1 _ (env_after_pos _ _ Hn) Hbv Hbr V1) as (p2 & R2 & V2).
      exists p2. split; [|exact V2]. eapply run_app; [exact R1|exact R2].
Qed.

Lemma bmk_first u t0 S K a n tg kp :
  block_mapping_key (mkp u (Some t0) S K a n tg kp) true = block_mapping_key (mkp u None S K a n tg kp) false.
Proof. reflexivity. Qed.

Lemma node_bmap pr ents : Forall (fun en => NodeSpec (snd (fst en)) /\ NodeSpec (snd (snd en))) ents -> NodeSpec (LBMap pr ents).
Proof.
  intros HF b i p ts x rest st0 s k e tg kp Hw Hv Hm Hf _ Hb Hn. open_env e a n.
  cbn [wf] in Hw. apply andb_prop in Hw as [Hw Hadj]. apply andb_prop in Hw as [-> Hw].
  cbn [tokens_of] in Hm.
  apply map_snd_app in Hm as (tp & t2 & -> & Hmp & Hm).
  apply map_snd_cons in Hm as (spS & t3 & -> & Hm).
  apply map_snd_app in Hm as (tb & t4 & -> & Hmb & Hm).
  apply map_snd_cons in Hm as (spE & t5 & -> & Hm). apply map_snd_nil in Hm as ->.
  rewrite <- !app_assoc in Hv. cbn [app] in Hv. rewrite <- !app_assoc in Hv. cbn [app] in Hv.
  cbn [pre_events] in Hb |- *. apply bound_coll in Hb as [Hb1 Hb]. cbn [bound1] in Hb1.
  destruct (parse_node_props pr p _ _ _ _ _ _ _ _ _ true i Hv Hmp eq_refl Hb1) as (q & Eq & Vq).
  unfold node_content in Eq. vpeek_in Vq Eq. cbn in Eq.
  set (e1 := snd (reg (pr_anchor pr) (penv a n))) in *.
  assert (Hn1 : (0 < ae_next e1)%N) by (apply reg_next_pos; exact Hn).
  destruct (bm_entries ents HF (mkp (tb ++ (spE, TBlockEnd) :: x :: rest) None SBlockMappingFirstKey (s :: k) (ae_map e1) (ae_next e1) tg kp)
              tb spE (x :: rest) SBlockMappingFirstKey s k e1 tg kp Hw Hadj eq_refl Hmb Hb Hn1) as (p2 & R2 & V2).
  exists p2. rewrite number_coll, env_after_coll. split; [|exact V2].
  eapply run_cons; [exact Eq|]. apply run_steps. cbn [state_machine p_state set_state mkp].
  exact R2.
Qed.

(* ---------- flow sequences ---------- *)
Lemma sm_flow_sequence_entry q : p_state q = SFlowSequenceEntry -> state_machine q = flow_sequence_entry q false.
Proof. unfold state_machine. intros ->. reflexivity. Qed.
Lemma sm_fsem_key q : p_state q = SFlowSequenceEntryMappingKey -> state_machine q = flow_sequence_entry_mapping_key q.
Proof. unfold state_machine. intros ->. reflexivity. Qed.
Lemma sm_fsem_value q : p_state q = SFlowSequenceEntryMappingValue -> state_machine q = flow_sequence_entry_mapping_value q.
Proof. unfold state_machine. intros ->. reflexivity. Qed.
Lemma sm_fsem_end q m : p_state q = SFlowSequenceEntryMappingEnd m -> state_machine q = flow_sequence_entry_mapping_end q m.
Proof. unfold state_machine. intros ->. reflexivity. Qed.

Lemma view_set_state p u s k a n tg kp s' :
  view p = mkv u s k a n tg kp -> view (set_state p s') = mkv u s' k a n tg kp.
Proof. unfold view, upcoming. cbn. intros H; inversion H; subst. reflexivity. Qed.

Definition fse_inner (p : parser) : sres :=
  do (t, p) <- peek p;
  match t with
  | (sp, TFlowSequenceEnd) => do p <- pop_state p; Ok ((ESequenceEnd, sp), skip p)
  | (sp, TKey) => Ok ((EMappingStart 0 None, sp), skip (set_state p SFlowSequenceEntryMappingKey))
  | _ => parse_node (push_state p SFlowSequenceEntry) false false
  end.

Lemma fse_next p spF u st k a n tg kp :
  view p = mkv ((spF, TFlowEntry) :: u) st k a n tg kp ->
  flow_sequence_entry p false = fse_inner (mkp u None st k a n tg kp).
Proof. intros Hv. unfold flow_sequence_entry, fse_inner. vpeek Hv. reflexivity. Qed.

Lemma fse_first spx x u t0 S K a n tg kp : x <> TFlowSequenceEnd ->
  flow_sequence_entry (mkp ((spx, x) :: u) (Some t0) S K a n tg kp) true = fse_inner (mkp u (Some (spx, x)) S K a n tg kp).
Proof. intros Hx. destruct x; try congruence; reflexivity. Qed.

Definition fen_fse (x : tok) : bool := match x with TFlowEntry | TFlowSequenceEnd => true | _ => false end.
Lemma fen_fse_follow x : fen_fse x = true -> follow x = true.
Proof. destruct x; cbn; congruence. Qed.

Lemma fs_entry en :
  match en with inl n => NodeSpec n | inr (kn, (_, vn)) => NodeSpec kn /\ NodeSpec vn end ->
  forall q te y r st s k e tg kp,
  fsent_wf (wf false false) en = true ->
  view q = mkv (te ++ y :: r) st (s :: k) (ae_map e) (ae_next e) tg kp ->
  map snd te = fsent_toks tokens_of en ->
  fen_fse (snd y) = true ->
  bound tg e (fsent_pre pre_events en) = true -> (0 < ae_next e)%N ->
  exists p1, run (fse_inner q) (number tg e (fsent_pre pre_events en)) p1 /\
     view p1 = mkv (y :: r) SFlowSequenceEntry (s :: k) (ae_map (env_after e (fsent_pre pre_events en)))
                   (ae_next (env_after e (fsent_pre pre_events en))) tg kp.
Proof.
  intros Hx q te y r st s k e tg kp Hw Hv Hm Hy Hb Hn.
  pose proof (fen_fse_follow _ Hy) as Hfy.
  destruct en as [nd | [kn [vt vn]]]; cbn [fsent_wf fsent_toks fsent_pre] in *.
  - (* a node *)
    destruct (first_tok_spanned _ _ _ _ Hw Hm) as (sp0 & y0 & tx' & -> & [S0 | [? _]]); [|discriminate].
    cbn [app] in Hv.
    assert (Eq : fse_inner q = parse_node (push_state (mkp (tx' ++ y :: r) (Some (sp0, y0)) st (s :: k) (ae_map e) (ae_next e) tg kp)
                                                      SFlowSequenceEntry) false false)
      by (start_cases y0; unfold fse_inner; vpeek Hv; reflexivity).
    rewrite Eq.
    match type of Eq with _ = parse_node ?q' _ _ =>
      apply (Hx false false q' ((sp0, y0) :: tx') y r st SFlowSequenceEntry (s :: k) e tg kp Hw eq_refl Hm Hfy
                ltac:(discriminate) Hb Hn)
    end.
  - (* Key key [Value value]: a single pair the scanner did not wrap *)
    destruct Hx as [Hk Hvn].
    apply andb_prop in Hw as [Hw Hwv]. apply andb_prop in Hw as [Hwk Hvt].
    apply map_snd_cons in Hm as (spK & t1 & -> & Hm).
    apply map_snd_app in Hm as (tk & t2 & -> & Hmk & Hm).
    apply map_snd_app in Hm as (tvv & tv & -> & Hmvv & Hmv).
    cbn [app] in Hv. rewrite <- !app_assoc in Hv.
    rewrite (app_assoc (pre_events kn) (pre_events vn) [PMapEnd]) in Hb |- *.
    apply bound_coll in Hb as [_ Hb]. cbn [env_step reg snd] in Hb.
    rewrite bound_app in Hb. apply andb_prop in Hb as [Hbk Hbv].
    rewrite number_coll, env_after_coll. cbn [env_step reg snd number1 fst tag_ev].
    rewrite number_app, env_after_app.
    (* 1: MappingStart *)
    assert (E1 : fse_inner q = Ok ((EMappingStart 0 None, spK),
                   mkp (tk ++ tvv ++ tv ++ y :: r) None SFlowSequenceEntryMappingKey (s :: k) (ae_map e) (ae_next e) tg kp))
      by (unfold fse_inner; vpeek Hv; reflexivity).
    set (e1 := env_after e (pre_events kn)) in *.
    assert (Hn1 : (0 < ae_next e1)%N) by (apply env_after_pos; exact Hn).
    (* 3: the value, from any parser in state MappingValue *)
    assert (Hval : forall p2, view p2 = mkv (tvv ++ tv ++ y :: r) SFlowSequenceEntryMappingValue (s :: k) (ae_map e1) (ae_next e1) tg kp ->
              exists p3 m, run (flow_sequence_entry_mapping_value p2) (number tg e1 (pre_events vn)) p3 /\
                 view p3 = mkv (y :: r) (SFlowSequenceEntryMappingEnd m) (s :: k) (ae_map (env_after e1 (pre_events vn)))
                               (ae_next (env_after e1 (pre_events vn))) tg kp).
    { intros p2 V2. destruct vt.
      - cbn in Hmvv. apply map_snd_cons in Hmvv as (spV & t3 & -> & Hm3). apply map_snd_nil in Hm3 as ->. cbn [app] in V2.
        destruct (is_none vn) eqn:EN; cbn [orb] in Hwv.
        + destruct vn; try discriminate. cbn [tokens_of] in Hmv. apply map_snd_nil in Hmv as ->. cbn [app] in V2.
          destruct y as [spy ty]. cbn [snd] in Hy.
          assert (Eq : flow_sequence_entry_mapping_value p2 =
                       Ok ((empty_scalar, spy), mkp r (Some (spy, ty)) (SFlowSequenceEntryMappingEnd (sp_end spy)) (s :: k) (ae_map e1) (ae_next e1) tg kp))
            by (destruct ty; try discriminate; unfold flow_sequence_entry_mapping_value; vpeek V2; reflexivity).
          eexists; eexists. split; [eapply run_one; exact Eq | reflexivity].
        + destruct (first_tok_spanned _ _ _ _ Hwv Hmv) as (sp1 & y1 & tv' & -> & [S1 | [? _]]); [|discriminate].
          cbn [app] in V2.
          assert (Eq : flow_sequence_entry_mapping_value p2 =
                       parse_node (push_state (mkp (tv' ++ y :: r) (Some (sp1, y1)) SFlowSequenceEntryMappingValue (s :: k) (ae_map e1) (ae_next e1) tg kp)
                                              (SFlowSequenceEntryMappingEnd (sp_end sp1))) false false)
            by (start_cases y1; unfold flow_sequence_entry_mapping_value; vpeek V2; reflexivity).
          rewrite Eq.
          match type of Eq with _ = parse_node ?q' _ _ =>
            destruct (Hvn false false q' ((sp1, y1) :: tv') y r SFlowSequenceEntryMappingValue (SFlowSequenceEntryMappingEnd (sp_end sp1))
                         (s :: k) e1 tg kp Hwv eq_refl Hmv Hfy ltac:(discriminate) Hbv Hn1) as (p3 & R3 & V3)
          end.
          exists p3, (sp_end sp1). split; assumption.
      - cbn [orb] in Hvt. destruct vn; try discriminate. cbn [tokens_of] in Hmv. apply map_snd_nil in Hmv as ->.
        cbn in Hmvv. apply map_snd_nil in Hmvv as ->. cbn [app] in V2.
        destruct y as [spy ty]. cbn [snd] in Hy.
        assert (Eq : flow_sequence_entry_mapping_value p2 =
                     Ok ((empty_scalar, spy), mkp r (Some (spy, ty)) (SFlowSequenceEntryMappingEnd (sp_end spy)) (s :: k) (ae_map e1) (ae_next e1) tg kp))
          by (destruct ty; try discriminate; unfold flow_sequence_entry_mapping_value; vpeek V2; reflexivity).
        eexists; eexists. split; [eapply run_one; exact Eq | reflexivity]. }
    (* the token after the key *)
    assert (Hyk : exists yk rk, tvv ++ tv ++ y :: r = yk :: rk /\ follow (snd yk) = true /\
                                (snd yk = TValue \/ fen_fse (snd yk) = true)).
    { destruct vt; cbn in Hmvv.
      - apply map_snd_cons in Hmvv as (spV & t3 & -> & _). cbn. do 2 eexists. split; [reflexivity|]. cbn. auto.
      - apply map_snd_nil in Hmvv as ->. cbn [orb] in Hvt. destruct vn; try discriminate.
        cbn [tokens_of] in Hmv. apply map_snd_nil in Hmv as ->. cbn. do 2 eexists. split; [reflexivity|]. auto. }
    destruct Hyk as (yk & rk & Eyk & Hfyk & Hyk).
    destruct (is_none kn) eqn:EN; cbn [orb] in Hwk.
    { (* 2a: the key is left out (`[ ? ]`, `[ ? : x ]`): the null scalar, at the Value / FlowEntry / FlowSequenceEnd
         token, which stays where it is *)
      destruct kn; try discriminate. cbn [tokens_of] in Hmk. apply map_snd_nil in Hmk as ->. cbn [app] in *.
      destruct yk as [spy ty]. cbn [snd] in Hyk.
      assert (E2 : state_machine (mkp (tvv ++ tv ++ y :: r) None SFlowSequenceEntryMappingKey (s :: k) (ae_map e) (ae_next e) tg kp) =
                   Ok ((empty_scalar, spy), mkp rk (Some (spy, ty)) SFlowSequenceEntryMappingValue (s :: k) (ae_map e) (ae_next e) tg kp)).
      { unfold token in *. rewrite Eyk. destruct Hyk as [-> | Hyk]; [|destruct ty; try discriminate]; reflexivity. }
      destruct (Hval (mkp rk (Some (spy, ty)) SFlowSequenceEntryMappingValue (s :: k) (ae_map e) (ae_next e) tg kp)
                  ltac:(unfold token in *; rewrite Eyk; reflexivity)) as (p3 & m & R3 & V3).
      exists (set_state p3 SFlowSequenceEntry). split; [|eapply view_set_state; exact V3].
      eapply run_cons; [exact E1|].
      cbn [pre_events number number1 pnull reg fst app].
      econstructor; [exact E2|].
      eapply steps_app.
      + apply run_steps. rewrite sm_fsem_value by reflexivity. exact R3.
      + econstructor; [|constructor].
        rewrite (sm_fsem_end p3 m (view_state _ _ _ _ _ _ _ _ V3)). reflexivity. }
    (* 2b: the key is a node *)
    destruct (first_tok_spanned _ _ _ _ Hwk Hmk) as (sp0 & y0 & tk' & -> & [S0 | [? _]]); [|discriminate].
    assert (E2 : state_machine (mkp (((sp0, y0) :: tk') ++ tvv ++ tv ++ y :: r) None SFlowSequenceEntryMappingKey (s :: k) (ae_map e) (ae_next e) tg kp) =
                 parse_node (push_state (mkp (tk' ++ tvv ++ tv ++ y :: r) (Some (sp0, y0)) SFlowSequenceEntryMappingKey (s :: k) (ae_map e) (ae_next e) tg kp)
                                        SFlowSequenceEntryMappingValue) false false)
      by (start_cases y0; reflexivity).
    match type of E2 with _ = parse_node ?q' _ _ =>
      destruct (Hk false false q' ((sp0, y0) :: tk') yk rk SFlowSequenceEntryMappingKey SFlowSequenceEntryMappingValue
                   (s :: k) e tg kp Hwk ltac:(cbn [view upcoming mkp push_state set_states p_token p_toks p_state p_states p_anchors p_anchor_id p_tags p_keep_tags app]; rewrite Eyk; reflexivity)
                   Hmk Hfyk ltac:(discriminate) Hbk Hn) as (p2 & R2 & V2)
    end.
    destruct (Hval p2 ltac:(rewrite V2; f_equal; symmetry; exact Eyk)) as (p3 & m & R3 & V3).
    exists (set_state p3 SFlowSequenceEntry). split; [|eapply view_set_state; exact V3].
    eapply run_cons; [exact E1|].
    eapply steps_app; [eapply steps_app|].
    + apply run_steps. eapply run_eq; [exact E2 | exact R2].
    + apply run_steps. rewrite (sm_fsem_value p2 (view_state _ _ _ _ _ _ _ _ V2)). exact R3.
    + econstructor; [|constructor].
      rewrite (sm_fsem_end p3 m (view_state _ _ _ _ _ _ _ _ V3)). reflexivity.
Qed.

Definition FsSpec (en : ltree + (ltree * (bool * ltree))) : Prop :=
  match en with inl n => NodeSpec n | inr (kn, (_, vn)) => NodeSpec kn /\ NodeSpec vn end.

Lemma fs_next (ts ttr : list token) ents trail spE rest :
  map snd ts = flat_map (fun en => TFlowEntry :: fsent_toks tokens_of en) ents ->
  map snd ttr = flag trail TFlowEntry ->
  exists y r, ts ++ ttr ++ (spE, TFlowSequenceEnd) :: rest = y :: r /\ fen_fse (snd y) = true.
Proof.
  destruct ents as [|en ents]; cbn [flat_map]; intros H Ht.
  - apply map_snd_nil in H as ->. destruct trail; cbn in Ht.
    + apply map_snd_cons in Ht as (sp & t2 & -> & _). cbn. eauto.
    + apply map_snd_nil in Ht as ->. cbn. eauto.
  - cbn [app] in H. apply map_snd_cons in H as (sp & t2 & -> & _). cbn. eauto.
Qed.

Lemma fs_entries ents : Forall FsSpec ents ->
  forall p ts ttr trail spE rest st s k e tg kp,
  forallb (fsent_wf (wf false false)) ents = true ->
  view p = mkv (ts ++ ttr ++ (spE, TFlowSequenceEnd) :: rest) st (s :: k) (ae_map e) (ae_next e) tg kp ->
  map snd ts = flat_map (fun en => TFlowEntry :: fsent_toks tokens_of en) ents ->
  map snd ttr = flag trail TFlowEntry ->
  bound tg e (flat_map (fsent_pre pre_events) ents) = true -> (0 < ae_next e)%N ->
  exists p2, run (flow_sequence_entry p false) (number tg e (flat_map (fsent_pre pre_events) ents) ++ [ESequenceEnd]) p2 /\
     view p2 = mkv rest s k (ae_map (env_after e (flat_map (fsent_pre pre_events) ents)))
                   (ae_next (env_after e (flat_map (fsent_pre pre_events) ents))) tg kp.
Proof.
  induction 1 as [|en ents Hx HF IH]; intros p ts ttr trail spE rest st s k e tg kp Hw Hv Hm Ht Hb Hn.
  - cbn in Hm. apply map_snd_nil in Hm as ->. cbn [app] in Hv. destruct trail; cbn in Ht.
    + apply map_snd_cons in Ht as (spF & t2 & -> & Ht). apply map_snd_nil in Ht as ->. cbn [app] in Hv.
      eexists. split.
      * cbn [flat_map number app]. eapply run_one. unfold flow_sequence_entry. vpeek Hv. cbn. reflexivity.
      * reflexivity.
    + apply map_snd_nil in Ht as ->. cbn [app] in Hv.
      eexists. split.
      * cbn [flat_map number app]. eapply run_one. unfold flow_sequence_entry. vpeek Hv. cbn. reflexivity.
      * reflexivity.
  - cbn [flat_map] in Hm, Hb. cbn [forallb] in Hw. apply andb_prop in Hw as [Hwx Hw].
    rewrite bound_app in Hb. apply andb_prop in Hb as [Hbx Hb].
    apply map_snd_app in Hm as (t1 & ts' & -> & Hm1 & Hm).
    apply map_snd_cons in Hm1 as (spF & te & -> & Hme).
    destruct (fs_next ts' ttr ents trail spE rest Hm Ht) as (y & r & Ey & Hy).
    cbn [app] in Hv. rewrite <- !app_assoc in Hv. unfold token in *; rewrite Ey in Hv.
    destruct (fs_entry en Hx (mkp (te ++ y :: r) None st (s :: k) (ae_map e) (ae_next e) tg kp) te y r st s k e tg kp
                Hwx eq_refl Hme Hy Hbx Hn) as (p1 & R1 & V1).
    destruct (IH p1 ts' ttr trail spE rest SFlowSequenceEntry s k _ tg kp Hw
                 ltac:(rewrite V1; f_equal; symmetry; exact Ey) Hm Ht Hb (env_after_pos _ _ Hn)) as (p2 & R2 & V2).
    exists p2. cbn [flat_map]. rewrite number_app, <- app_assoc, env_after_app. split; [|exact V2].
    eapply run_eq; [exact (fse_next _ _ _ _ _ _ _ _ _ Hv)|].
    eapply run_app; [exact R1|]. apply run_steps.
    rewrite (sm_flow_sequence_entry p1 (view_state _ _ _ _ _ _ _ _ V1)). exact R2.
Qed.

Lemma flat_map_sep {A} (f : A -> list tok) l :
  flat_map (fun y => TFlowEntry :: y) (map f l) = flat_map (fun en => TFlowEntry :: f en) l.
Proof. induction l as [|x l IH]; cbn; [reflexivity|]. rewrite IH. reflexivity. Qed.

Lemma fs_first en (te : list token) : fsent_wf (wf false false) en = true -> map snd te = fsent_toks tokens_of en ->
  exists sp0 y0 te', te = (sp0, y0) :: te' /\ y0 <> TFlowSequenceEnd.
Proof.
  destruct en as [nd | [kn [vt vn]]]; cbn [fsent_wf fsent_toks]; intros Hw Hm.
  - destruct (first_tok_spanned _ _ _ _ Hw Hm) as (sp0 & y0 & te' & -> & [S0 | [? _]]); [|discriminate].
    do 3 eexists. split; [reflexivity|]. intros ->. discriminate.
  - apply map_snd_cons in Hm as (sp0 & te' & -> & _). do 3 eexists. split; [reflexivity|]. discriminate.
Qed.

Lemma node_fseq pr ents trail : Forall FsSpec ents -> NodeSpec (LFSeq pr ents trail).
Proof.
  intros HF b i p ts x rest st0 s k e tg kp Hw Hv Hm Hf _ Hb Hn. open_env e a n.
  cbn [wf] in Hw. apply andb_prop in Hw as [Hw Htr].
  cbn [tokens_of] in Hm.
  apply map_snd_app in Hm as (tp & t2 & -> & Hmp & Hm).
  apply map_snd_cons in Hm as (spS & t3 & -> & Hm).
  apply map_snd_app in Hm as (tb & t4 & -> & Hmb & Hm).
  apply map_snd_app in Hm as (ttr & t5 & -> & Hmt & Hm).
  apply map_snd_cons in Hm as (spE & t6 & -> & Hm). apply map_snd_nil in Hm as ->.
  rewrite <- !app_assoc in Hv. cbn [app] in Hv. rewrite <- !app_assoc in Hv. cbn [app] in Hv.
  cbn [pre_events] in Hb |- *. apply bound_coll in Hb as [Hb1 Hb]. cbn [bound1] in Hb1.
  destruct (parse_node_props pr p _ _ _ _ _ _ _ _ _ b i Hv Hmp eq_refl Hb1) as (q & Eq & Vq).
  unfold node_content in Eq. vpeek_in Vq Eq. cbn in Eq.
  set (e1 := snd (reg (pr_anchor pr) (penv a n))) in *.
  assert (Hn1 : (0 < ae_next e1)%N) by (apply reg_next_pos; exact Hn).
  rewrite number_coll, env_after_coll. cbn [env_step number1].
  destruct ents as [|en ents].
  - (* [] *)
    cbn [map fsep] in Hmb. apply map_snd_nil in Hmb as ->. cbn [negb nonempty orb] in Htr.
    destruct trail; [discriminate|]. cbn in Hmt. apply map_snd_nil in Hmt as ->. cbn [app] in Eq.
    eexists. split.
    + eapply run_cons; [exact Eq|]. cbn [flat_map number app]. econstructor; [|constructor]. reflexivity.
    + reflexivity.
  - cbn [map fsep] in Hmb. rewrite flat_map_sep in Hmb.
    apply map_snd_app in Hmb as (te & ts' & -> & Hme & Hms).
    cbn [forallb] in Hw. apply andb_prop in Hw as [Hwx Hw].
    cbn [flat_map] in Hb |- *. rewrite bound_app in Hb. apply andb_prop in Hb as [Hbx Hb].
    inversion HF as [|? ? Hx HF']; subst.
    destruct (fs_first en te Hwx Hme) as (sp0 & y0 & te' & -> & Hy0).
    destruct (fs_next ts' ttr ents trail spE (x :: rest) Hms Hmt) as (y & r & Ey & Hy).
    rewrite <- !app_assoc in Eq. cbn [app] in Eq. unfold token in *; rewrite Ey in Eq.
    destruct (fs_entry en Hx (mkp (te' ++ y :: r) (Some (sp0, y0)) SFlowSequenceFirstEntry (s :: k) (ae_map e1) (ae_next e1) tg kp)
                ((sp0, y0) :: te') y r SFlowSequenceFirstEntry s k e1 tg kp Hwx eq_refl Hme Hy Hbx Hn1) as (p1 & R1 & V1).
    destruct (fs_entries ents HF' p1 ts' ttr trail spE (x :: rest) SFlowSequenceEntry s k _ tg kp Hw
                 ltac:(rewrite V1; f_equal; symmetry; exact Ey) Hms Hmt Hb (env_after_pos _ _ Hn1)) as (p2 & R2 & V2).
    exists p2. rewrite number_app, <- app_assoc, env_after_app. split; [|exact V2].
    eapply run_cons; [exact Eq|]. eapply steps_app.
    + apply run_steps. cbn [state_machine p_state set_state mkp].
      eapply run_eq; [apply (fse_first sp0 y0 _ _ _ _ _ _ _ _ Hy0)|]. exact R1.
    + apply run_steps. rewrite (sm_flow_sequence_entry p1 (view_state _ _ _ _ _ _ _ _ V1)). exact R2.
Qed.

(* ---------- flow mappings ---------- *)
Lemma sm_flow_mapping_key q : p_state q = SFlowMappingKey -> state_machine q = flow_mapping_key q false.
Proof. unfold state_machine. intros ->. reflexivity. Qed.
Lemma sm_flow_mapping_value q : p_state q = SFlowMappingValue -> state_machine q = flow_mapping_value q false.
Proof. unfold state_machine. intros ->. reflexivity. Qed.
Lemma sm_flow_mapping_empty_value q : p_state q = SFlowMappingEmptyValue -> state_machine q = flow_mapping_value q true.
Proof. unfold state_machine. intros ->. reflexivity. Qed.

Definition fmk_inner (p : parser) (sp : span) : sres :=
  do (t, p) <- peek p;
  match t with
  | (_, TKey) =>
      let p := skip p in
      do (t, p) <- peek p;
      match t with
      | (sp2, TValue) | (sp2, TFlowEntry) | (sp2, TFlowMappingEnd) => Ok ((empty_scalar, sp2), set_state p SFlowMappingValue)
      | _ => parse_node (push_state p SFlowMappingValue) false false
      end
  | (sp2, TValue) => Ok ((empty_scalar, sp2), set_state p SFlowMappingValue)
  | (_, TFlowMappingEnd) => do p <- pop_state p; Ok ((EMappingEnd, sp), skip p)
  | _ => parse_node (push_state p SFlowMappingEmptyValue) false false
  end.

Lemma fmk_next p spF u st k a n tg kp :
  view p = mkv ((spF, TFlowEntry) :: u) st k a n tg kp ->
  flow_mapping_key p false = fmk_inner (mkp u None st k a n tg kp) spF.
Proof. intros Hv. unfold flow_mapping_key, fmk_inner. vpeek Hv. reflexivity. Qed.

Lemma fmk_first spx x u t0 S K a n tg kp : x <> TFlowMappingEnd ->
  flow_mapping_key (mkp ((spx, x) :: u) (Some t0) S K a n tg kp) true = fmk_inner (mkp u (Some (spx, x)) S K a n tg kp) spx.
Proof. intros Hx. destruct x; try congruence; reflexivity. Qed.

Definition fen_fme (x : tok) : bool := match x with TFlowEntry | TFlowMappingEnd => true | _ => false end.
Lemma fen_fme_follow x : fen_fme x = true -> follow x = true.
Proof. destruct x; cbn; congruence. Qed.

Lemma fm_value vt vn : NodeSpec vn -> forall p tvv tv y r st s k e tg kp,
  is_none vn || wf false false vn = true ->
  vt || is_none vn = true ->
  view p = mkv (tvv ++ tv ++ y :: r) st (s :: k) (ae_map e) (ae_next e) tg kp ->
  map snd tvv = flag vt TValue -> map snd tv = tokens_of vn ->
  fen_fme (snd y) = true ->
  bound tg e (pre_events vn) = true -> (0 < ae_next e)%N ->
  exists p1, run (flow_mapping_value p false) (number tg e (pre_events vn)) p1 /\
     view p1 = mkv (y :: r) SFlowMappingKey (s :: k) (ae_map (env_after e (pre_events vn)))
                   (ae_next (env_after e (pre_events vn))) tg kp.
Proof.
  intros Hx p tvv tv y r st s k e tg kp Hw Hvt Hv Hmv Hm Hy Hb Hn.
  pose proof (fen_fme_follow _ Hy) as Hfy.
  destruct vt.
  - cbn in Hmv. apply map_snd_cons in Hmv as (spV & t2 & -> & Hmv). apply map_snd_nil in Hmv as ->. cbn [app] in Hv.
    destruct (is_none vn) eqn:EN; cbn [orb] in Hw.
    + destruct vn; try discriminate. cbn [tokens_of] in Hm. apply map_snd_nil in Hm as ->. cbn [app] in Hv.
      destruct y as [spy ty]. cbn [snd] in Hy.
      assert (Eq : flow_mapping_value p false =
                   Ok ((empty_scalar, spV), mkp r (Some (spy, ty)) SFlowMappingKey (s :: k) (ae_map e) (ae_next e) tg kp))
        by (destruct ty; try discriminate; unfold flow_mapping_value; vpeek Hv; reflexivity).
      eexists. split; [eapply run_one; exact Eq | reflexivity].
    + destruct (first_tok_spanned _ _ _ _ Hw Hm) as (sp0 & y0 & tx' & -> & [S0 | [? _]]); [|discriminate].
      cbn [app] in Hv.
      assert (Eq : flow_mapping_value p false =
                   parse_node (push_state (mkp (tx' ++ y :: r) (Some (sp0, y0)) st (s :: k) (ae_map e) (ae_next e) tg kp)
                                          SFlowMappingKey) false false)
        by (start_cases y0; unfold flow_mapping_value; vpeek Hv; reflexivity).
      rewrite Eq.
      match type of Eq with _ = parse_node ?q _ _ =>
        apply (Hx false false q ((sp0, y0) :: tx') y r st SFlowMappingKey (s :: k) e tg kp Hw eq_refl Hm Hfy
                  ltac:(discriminate) Hb Hn)
      end.
  - cbn [orb] in Hvt. destruct vn; try discriminate.
    cbn in Hmv. apply map_snd_nil in Hmv as ->. cbn [tokens_of] in Hm. apply map_snd_nil in Hm as ->. cbn [app] in Hv.
    destruct y as [spy ty]. cbn [snd] in Hy.
    assert (Eq : flow_mapping_value p false =
                 Ok ((empty_scalar, spy), mkp r (Some (spy, ty)) SFlowMappingKey (s :: k) (ae_map e) (ae_next e) tg kp))
      by (destruct ty; try discriminate; unfold flow_mapping_value; vpeek Hv; reflexivity).
    eexists. split; [eapply run_one; exact Eq | reflexivity].
Qed.

Lemma fm_entry kt kn vt vn : NodeSpec kn -> NodeSpec vn ->
  forall q sp te y r st s k e tg kp,
  fment_wf (wf false false) (kt, kn, (vt, vn)) = true ->
  view q = mkv (te ++ y :: r) st (s :: k) (ae_map e) (ae_next e) tg kp ->
  map snd te = ent_toks tokens_of (kt, kn, (vt, vn)) ->
  fen_fme (snd y) = true ->
  bound tg e (pre_events kn ++ pre_events vn) = true -> (0 < ae_next e)%N ->
  exists p1, run (fmk_inner q sp) (number tg e (pre_events kn ++ pre_events vn)) p1 /\
     view p1 = mkv (y :: r) SFlowMappingKey (s :: k) (ae_map (env_after e (pre_events kn ++ pre_events vn)))
                   (ae_next (env_after e (pre_events kn ++ pre_events vn))) tg kp.
Proof.
  intros Hk Hvn q sp te y r st s k e tg kp Hw Hv Hm Hy Hb Hn.
  pose proof (fen_fme_follow _ Hy) as Hfy.
  cbn [fment_wf ent_toks] in Hw, Hm.
  apply andb_prop in Hw as [Hw Hkt]. apply andb_prop in Hw as [Hw Hwv]. apply andb_prop in Hw as [Hvt Hwk].
  apply map_snd_app in Hm as (tkk & t1 & -> & Hmkk & Hm).
  apply map_snd_app in Hm as (tk & t2 & -> & Hmk & Hm).
  apply map_snd_app in Hm as (tvv & tv & -> & Hmvv & Hmv).
  rewrite <- !app_assoc in Hv.
  rewrite bound_app in Hb. apply andb_prop in Hb as [Hbk Hbv].
  rewrite number_app, env_after_app.
  set (e1 := env_after e (pre_events kn)) in *.
  assert (Hn1 : (0 < ae_next e1)%N) by (apply env_after_pos; exact Hn).
  (* the token after the key *)
  assert (Hyk : exists yk rk, tvv ++ tv ++ y :: r = yk :: rk /\ follow (snd yk) = true /\
                              (snd yk = TValue \/ fen_fme (snd yk) = true) /\ (vt = true -> snd yk = TValue)).
  { destruct vt; cbn in Hmvv.
    - apply map_snd_cons in Hmvv as (spV & t3 & -> & _). cbn. do 2 eexists. split; [reflexivity|]. cbn. auto.
    - apply map_snd_nil in Hmvv as ->. cbn [orb] in Hvt. destruct vn; try discriminate.
      cbn [tokens_of] in Hmv. apply map_snd_nil in Hmv as ->. cbn. do 2 eexists. split; [reflexivity|].
      split; [exact Hfy|]. split; [right; exact Hy|discriminate]. }
  destruct Hyk as (yk & rk & Eyk & Hfyk & Hyk & Hyk2).
  (* the value, from any parser in state FlowMappingValue *)
  assert (Hval : forall p1, view p1 = mkv (tvv ++ tv ++ y :: r) SFlowMappingValue (s :: k) (ae_map e1) (ae_next e1) tg kp ->
            exists p2, steps p1 (number tg e1 (pre_events vn)) p2 /\
               view p2 = mkv (y :: r) SFlowMappingKey (s :: k) (ae_map (env_after e1 (pre_events vn)))
                             (ae_next (env_after e1 (pre_events vn))) tg kp).
  { intros p1 V1.
    destruct (fm_value vt vn Hvn p1 tvv tv y r SFlowMappingValue s k e1 tg kp Hwv Hvt V1 Hmvv Hmv Hy Hbv Hn1) as (p2 & R2 & V2).
    exists p2. split; [|exact V2]. apply run_steps.
    rewrite (sm_flow_mapping_value p1 (view_state _ _ _ _ _ _ _ _ V1)). exact R2. }
  destruct kt.
  - (* Key token *)
    cbn in Hmkk. apply map_snd_cons in Hmkk as (spK & t3 & -> & Hm3). apply map_snd_nil in Hm3 as ->. cbn [app] in Hv.
    destruct (is_none kn) eqn:EN; cbn [orb] in Hwk.
    + destruct kn; try discriminate. cbn [tokens_of] in Hmk. apply map_snd_nil in Hmk as ->. cbn [app] in Hv.
      unfold token in *; rewrite Eyk in Hv. destruct yk as [spy ty]. cbn [snd] in Hyk.
      assert (Eq : fmk_inner q sp =
                   Ok ((empty_scalar, spy), mkp rk (Some (spy, ty)) SFlowMappingValue (s :: k) (ae_map e) (ae_next e) tg kp))
        by (destruct Hyk as [-> | Hyk]; [|destruct ty; try discriminate]; unfold fmk_inner; vpeek Hv; reflexivity).
      destruct (Hval (mkp rk (Some (spy, ty)) SFlowMappingValue (s :: k) (ae_map e) (ae_next e) tg kp)
                  ltac:(rewrite Eyk; reflexivity)) as (p2 & R2 & V2).
      exists p2. split; [|exact V2]. eapply run_cons; [exact Eq | exact R2].
    + destruct (first_tok_spanned _ _ _ _ Hwk Hmk) as (sp0 & y0 & tk' & -> & [S0 | [? _]]); [|discriminate].
      cbn [app] in Hv.
      assert (Eq : fmk_inner q sp =
                   parse_node (push_state (mkp (tk' ++ tvv ++ tv ++ y :: r) (Some (sp0, y0)) st (s :: k) (ae_map e) (ae_next e) tg kp)
                                          SFlowMappingValue) false false)
        by (start_cases y0; unfold fmk_inner; vpeek Hv; reflexivity).
      match type of Eq with _ = parse_node ?q' _ _ =>
        destruct (Hk false false q' ((sp0, y0) :: tk') yk rk st SFlowMappingValue (s :: k) e tg kp Hwk
                     ltac:(cbn [view upcoming mkp push_state set_states p_token p_toks p_state p_states p_anchors p_anchor_id p_tags p_keep_tags app]; rewrite Eyk; reflexivity)
                     Hmk Hfyk ltac:(discriminate) Hbk Hn) as (p1 & R1 & V1)
      end.
      destruct (Hval p1 ltac:(rewrite V1; f_equal; symmetry; exact Eyk)) as (p2 & R2 & V2).
      exists p2. split; [|exact V2]. rewrite Eq. eapply run_app; [exact R1 | exact R2].
  - cbn in Hmkk. apply map_snd_nil in Hmkk as ->. cbn [app orb] in Hv, Hkt.
    destruct vt.
    + (* Value token without a key *)
      destruct kn; try discriminate. cbn [tokens_of] in Hmk. apply map_snd_nil in Hmk as ->. cbn [app] in Hv.
      unfold token in *; rewrite Eyk in Hv. destruct yk as [spy ty]. cbn [snd] in Hyk2. rewrite (Hyk2 eq_refl) in *.
      assert (Eq : fmk_inner q sp =
                   Ok ((empty_scalar, spy), mkp rk (Some (spy, TValue)) SFlowMappingValue (s :: k) (ae_map e) (ae_next e) tg kp))
        by (unfold fmk_inner; vpeek Hv; reflexivity).
      destruct (Hval (mkp rk (Some (spy, TValue)) SFlowMappingValue (s :: k) (ae_map e) (ae_next e) tg kp)
                  ltac:(rewrite Eyk; reflexivity)) as (p2 & R2 & V2).
      exists p2. split; [|exact V2]. eapply run_cons; [exact Eq | exact R2].
    + (* a bare node: key without value *)
      destruct (is_none kn) eqn:EN; [discriminate|]. cbn [orb] in Hwk, Hvt. destruct vn; try discriminate.
      cbn in Hmvv. apply map_snd_nil in Hmvv as ->. cbn [tokens_of] in Hmv. apply map_snd_nil in Hmv as ->. cbn [app] in Hv.
      destruct (first_tok_spanned _ _ _ _ Hwk Hmk) as (sp0 & y0 & tk' & -> & [S0 | [? _]]); [|discriminate].
      cbn [app] in Hv.
      assert (Eq : fmk_inner q sp =
                   parse_node (push_state (mkp (tk' ++ y :: r) (Some (sp0, y0)) st (s :: k) (ae_map e) (ae_next e) tg kp)
                                          SFlowMappingEmptyValue) false false)
        by (start_cases y0; unfold fmk_inner; vpeek Hv; reflexivity).
      match type of Eq with _ = parse_node ?q' _ _ =>
        destruct (Hk false false q' ((sp0, y0) :: tk') y r st SFlowMappingEmptyValue (s :: k) e tg kp Hwk eq_refl
                     Hmk Hfy ltac:(discriminate) Hbk Hn) as (p1 & R1 & V1)
      end.
      destruct y as [spy ty].
      exists (mkp r (Some (spy, ty)) SFlowMappingKey (s :: k) (ae_map e1) (ae_next e1) tg kp). split; [|reflexivity].
      rewrite Eq. eapply run_app; [exact R1|].
      cbn [pre_events number number1 pnull reg fst]. econstructor; [|constructor].
      rewrite (sm_flow_mapping_empty_value p1 (view_state _ _ _ _ _ _ _ _ V1)).
      unfold flow_mapping_value. vpeek V1. reflexivity.
Qed.

Definition EntSpec (en : entry ltree) : Prop := NodeSpec (snd (fst en)) /\ NodeSpec (snd (snd en)).

Lemma fm_next (ts ttr : list token) (ents : list (entry ltree)) trail spE rest :
  map snd ts = flat_map (fun en => TFlowEntry :: ent_toks tokens_of en) ents ->
  map snd ttr = flag trail TFlowEntry ->
  exists y r, ts ++ ttr ++ (spE, TFlowMappingEnd) :: rest = y :: r /\ fen_fme (snd y) = true.
Proof.
  destruct ents as [|en ents]; cbn [flat_map]; intros H Ht.
  - apply map_snd_nil in H as ->. destruct trail; cbn in Ht.
    + apply map_snd_cons in Ht as (sp & t2 & -> & _). cbn. eauto.
    + apply map_snd_nil in Ht as ->. cbn. eauto.
  - cbn [app] in H. apply map_snd_cons in H as (sp & t2 & -> & _). cbn. eauto.
Qed.

Lemma fm_entries ents : Forall EntSpec ents ->
  forall p ts ttr trail spE rest st s k e tg kp,
  forallb (fment_wf (wf false false)) ents = true ->
  view p = mkv (ts ++ ttr ++ (spE, TFlowMappingEnd) :: rest) st (s :: k) (ae_map e) (ae_next e) tg kp ->
  map snd ts = flat_map (fun en => TFlowEntry :: ent_toks tokens_of en) ents ->
  map snd ttr = flag trail TFlowEntry ->
  bound tg e (flat_map (ent_pre pre_events) ents) = true -> (0 < ae_next e)%N ->
  exists p2, run (flow_mapping_key p false) (number tg e (flat_map (ent_pre pre_events) ents) ++ [EMappingEnd]) p2 /\
     view p2 = mkv rest s k (ae_map (env_after e (flat_map (ent_pre pre_events) ents)))
                   (ae_next (env_after e (flat_map (ent_pre pre_events) ents))) tg kp.
Proof.
  induction 1 as [|en ents Hx HF IH]; intros p ts ttr trail spE rest st s k e tg kp Hw Hv Hm Ht Hb Hn.
  - cbn in Hm. apply map_snd_nil in Hm as ->. cbn [app] in Hv. destruct trail; cbn in Ht.
    + apply map_snd_cons in Ht as (spF & t2 & -> & Ht). apply map_snd_nil in Ht as ->. cbn [app] in Hv.
      eexists. split.
      * cbn [flat_map number app]. eapply run_one. unfold flow_mapping_key. vpeek Hv. reflexivity.
      * reflexivity.
    + apply map_snd_nil in Ht as ->. cbn [app] in Hv.
      eexists. split.
      * cbn [flat_map number app]. eapply run_one. unfold flow_mapping_key. vpeek Hv. reflexivity.
      * reflexivity.
  - destruct en as [[kt kn] [vt vn]]. destruct Hx as [Hk Hvn]. cbn [fst snd] in Hk, Hvn.
    cbn [flat_map ent_pre] in Hm, Hb. cbn [forallb] in Hw. apply andb_prop in Hw as [Hwx Hw].
    rewrite bound_app in Hb. apply andb_prop in Hb as [Hbx Hb].
    apply map_snd_app in Hm as (t1 & ts' & -> & Hm1 & Hm).
    apply map_snd_cons in Hm1 as (spF & te & -> & Hme).
    destruct (fm_next ts' ttr ents trail spE rest Hm Ht) as (y & r & Ey & Hy).
    cbn [app] in Hv. rewrite <- !app_assoc in Hv. unfold token in *; rewrite Ey in Hv.
    destruct (fm_entry kt kn vt vn Hk Hvn (mkp (te ++ y :: r) None st (s :: k) (ae_map e) (ae_next e) tg kp) spF te y r st s k e tg kp
                Hwx eq_refl Hme Hy Hbx Hn) as (p1 & R1 & V1).
    destruct (IH p1 ts' ttr trail spE rest SFlowMappingKey s k _ tg kp Hw
                 ltac:(rewrite V1; f_equal; symmetry; exact Ey) Hm Ht Hb (env_after_pos _ _ Hn)) as (p2 & R2 & V2).
    exists p2. cbn [flat_map ent_pre].
    rewrite (number_app tg (pre_events kn ++ pre_events vn) e (flat_map (ent_pre pre_events) ents)).
    rewrite (env_after_app e (pre_events kn ++ pre_events vn) (flat_map (ent_pre pre_events) ents)).
    rewrite <- (app_assoc (number tg e (pre_events kn ++ pre_events vn))).
    split; [|exact V2].
    eapply run_eq; [exact (fmk_next _ _ _ _ _ _ _ _ _ Hv)|].
    eapply run_app; [exact R1|]. apply run_steps.
    rewrite (sm_flow_mapping_key p1 (view_state _ _ _ _ _ _ _ _ V1)). exact R2.
Qed.

Lemma fm_first kt kn vt vn (te : list token) : fment_wf (wf false false) (kt, kn, (vt, vn)) = true ->
  map snd te = ent_toks tokens_of (kt, kn, (vt, vn)) ->
  exists sp0 y0 te', te = (sp0, y0) :: te' /\ y0 <> TFlowMappingEnd.
Proof.
  cbn [fment_wf ent_toks]. intros Hw Hm.
  apply andb_prop in Hw as [Hw Hkt]. apply andb_prop in Hw as [Hw Hwv]. apply andb_prop in Hw as [Hvt Hwk].
  destruct kt; cbn [flag app] in Hm.
  - apply map_snd_cons in Hm as (sp0 & te' & -> & _). do 3 eexists. split; [reflexivity|discriminate].
  - cbn [orb] in Hkt. destruct vt.
    + destruct kn; try discriminate. cbn [tokens_of flag app] in Hm.
      apply map_snd_cons in Hm as (sp0 & te' & -> & _). do 3 eexists. split; [reflexivity|discriminate].
    + destruct (is_none kn) eqn:EN; [discriminate|]. cbn [orb] in Hwk.
      apply map_snd_app in Hm as (tk & t2 & -> & Hmk & _).
      destruct (first_tok_spanned _ _ _ _ Hwk Hmk) as (sp0 & y0 & tk' & -> & [S0 | [? _]]); [|discriminate].
      do 3 eexists. split; [reflexivity|]. intros ->. discriminate.
Qed.

Lemma node_fmap pr ents trail : Forall EntSpec ents -> NodeSpec (LFMap pr ents trail).
Proof.
  intros HF b i p ts x rest st0 s k e tg kp Hw Hv Hm Hf _ Hb Hn. open_env e a n.
  cbn [wf] in Hw. apply andb_prop in Hw as [Hw Htr].
  cbn [tokens_of] in Hm.
  apply map_snd_app in Hm as (tp & t2 & -> & Hmp & Hm).
  apply map_snd_cons in Hm as (spS & t3 & -> & Hm).
  apply map_snd_app in Hm as (tb & t4 & -> & Hmb & Hm).
  apply map_snd_app in Hm as (ttr & t5 & -> & Hmt & Hm).
  apply map_snd_cons in Hm as (spE & t6 & -> & Hm). apply map_snd_nil in Hm as ->.
  rewrite <- !app_assoc in Hv. cbn [app] in Hv. rewrite <- !app_assoc in Hv. cbn [app] in Hv.
  cbn [pre_events] in Hb |- *. apply bound_coll in Hb as [Hb1 Hb]. cbn [bound1] in Hb1.
  destruct (parse_node_props pr p _ _ _ _ _ _ _ _ _ b i Hv Hmp eq_refl Hb1) as (q & Eq & Vq).
  unfold node_content in Eq. vpeek_in Vq Eq. cbn in Eq.
  set (e1 := snd (reg (pr_anchor pr) (penv a n))) in *.
  assert (Hn1 : (0 < ae_next e1)%N) by (apply reg_next_pos; exact Hn).
  rewrite number_coll, env_after_coll. cbn [env_step number1]. fold e1.
  destruct ents as [|en ents].
  - cbn [map fsep] in Hmb. apply map_snd_nil in Hmb as ->. cbn [negb nonempty orb] in Htr.
    destruct trail; [discriminate|]. cbn in Hmt. apply map_snd_nil in Hmt as ->. cbn [app] in Eq.
    eexists. split.
    + eapply run_cons; [exact Eq|]. cbn [flat_map number app]. econstructor; [|constructor]. reflexivity.
    + reflexivity.
  - cbn [map fsep] in Hmb. rewrite flat_map_sep in Hmb.
    apply map_snd_app in Hmb as (te & ts' & -> & Hme & Hms).
    cbn [forallb] in Hw. apply andb_prop in Hw as [Hwx Hw].
    cbn [flat_map] in Hb |- *. rewrite bound_app in Hb. apply andb_prop in Hb as [Hbx Hb].
    inversion HF as [|? ? Hx HF']; subst.
    destruct en as [[kt kn] [vt vn]]. destruct Hx as [Hk Hvn]. cbn [fst snd] in Hk, Hvn.
    destruct (fm_first kt kn vt vn te Hwx Hme) as (sp0 & y0 & te' & -> & Hy0).
    destruct (fm_next ts' ttr ents trail spE (x :: rest) Hms Hmt) as (y & r & Ey & Hy).
    rewrite <- !app_assoc in Eq. cbn [app] in Eq. unfold token in *; rewrite Ey in Eq.
    cbn [ent_pre] in Hbx |- *.
    destruct (fm_entry kt kn vt vn Hk Hvn (mkp (te' ++ y :: r) (Some (sp0, y0)) SFlowMappingFirstKey (s :: k) (ae_map e1) (ae_next e1) tg kp)
                sp0 ((sp0, y0) :: te') y r SFlowMappingFirstKey s k e1 tg kp Hwx eq_refl Hme Hy Hbx Hn1) as (p1 & R1 & V1).
    destruct (fm_entries ents HF' p1 ts' ttr trail spE (x :: rest) SFlowMappingKey s k _ tg kp Hw
                 ltac:(rewrite V1; f_equal; symmetry; exact Ey) Hms Hmt Hb (env_after_pos _ _ Hn1)) as (p2 & R2 & V2).
    exists p2.
    rewrite (number_app tg (pre_events kn ++ pre_events vn) e1 (flat_map (ent_pre pre_events) ents)).
    rewrite (env_after_app e1 (pre_events kn ++ pre_events vn) (flat_map (ent_pre pre_events) ents)).
    rewrite <- (app_assoc (number tg e1 (pre_events kn ++ pre_events vn))).
    split; [|exact V2].
    eapply run_cons; [exact Eq|]. eapply steps_app.
    + apply run_steps. cbn [state_machine p_state set_state mkp].
      eapply run_eq; [apply (fmk_first sp0 y0 _ _ _ _ _ _ _ _ Hy0)|]. exact R1.
    + apply run_steps. rewrite (sm_flow_mapping_key p1 (view_state _ _ _ _ _ _ _ _ V1)). exact R2.
Qed.

(* ---------- the induction on trees ---------- *)
Section ltree_ind2.
  Variable P : ltree -> Prop.
  Hypothesis HS : forall pr st v, P (LScalar pr st v).
  Hypothesis HA : forall n, P (LAlias n).
  Hypothesis HN : P LNone.
  Hypothesis HP : forall pr, P (LProps pr).
  Hypothesis HBS : forall pr items, Forall P items -> P (LBSeq pr items).
  Hypothesis HIS : forall pr items, Forall P items -> P (LISeq pr items).
  Hypothesis HBM : forall pr ents, Forall (fun en : entry ltree => P (snd (fst en)) /\ P (snd (snd en))) ents -> P (LBMap pr ents).
  Hypothesis HFS : forall pr ents tr,
      Forall (fun en : ltree + (ltree * (bool * ltree)) =>
                match en with inl n => P n | inr (kn, (_, vn)) => P kn /\ P vn end) ents -> P (LFSeq pr ents tr).
  Hypothesis HFM : forall pr ents tr, Forall (fun en : entry ltree => P (snd (fst en)) /\ P (snd (snd en))) ents -> P (LFMap pr ents tr).

  Fixpoint ltree_ind2 (t : ltree) : P t :=
    match t with
    | LScalar pr st v => HS pr st v
    | LAlias n => HA n
    | LNone => HN
    | LProps pr => HP pr
    | LBSeq pr items =>
        HBS pr items ((fix go (l : list ltree) : Forall P l :=
                         match l with [] => Forall_nil _ | x :: r => Forall_cons _ (ltree_ind2 x) (go r) end) items)
    | LISeq pr items =>
        HIS pr items ((fix go (l : list ltree) : Forall P l :=
                         match l with [] => Forall_nil _ | x :: r => Forall_cons _ (ltree_ind2 x) (go r) end) items)
    | LBMap pr ents =>
        HBM pr ents ((fix go (l : list (entry ltree)) : Forall (fun en : entry ltree => P (snd (fst en)) /\ P (snd (snd en))) l :=
                        match l with
                        | [] => Forall_nil _
                        | (kt, kn, (vt, vn)) :: r => Forall_cons (kt, kn, (vt, vn)) (conj (ltree_ind2 kn) (ltree_ind2 vn)) (go r)
                        end) ents)
    | LFSeq pr ents tr =>
        HFS pr ents tr ((fix go (l : list (ltree + (ltree * (bool * ltree)))) :
                           Forall (fun en => match en with inl n => P n | inr (kn, (_, vn)) => P kn /\ P vn end) l :=
                           match l with
                           | [] => Forall_nil _
                           | inl n :: r => Forall_cons (inl n) (ltree_ind2 n) (go r)
                           | inr (kn, (vt, vn)) :: r => Forall_cons (inr (kn, (vt, vn))) (conj (ltree_ind2 kn) (ltree_ind2 vn)) (go r)
                           end) ents)
    | LFMap pr ents tr =>
        HFM pr ents tr ((fix go (l : list (entry ltree)) : Forall (fun en : entry ltree => P (snd (fst en)) /\ P (snd (snd en))) l :=
                           match l with
                           | [] => Forall_nil _
                           | (kt, kn, (vt, vn)) :: r => Forall_cons (kt, kn, (vt, vn)) (conj (ltree_ind2 kn) (ltree_ind2 vn)) (go r)
                           end) ents)
    end.
End ltree_ind2.

Theorem node_spec : forall t, NodeSpec t.
Proof.
  apply ltree_ind2.
  - exact node_scalar.
  - exact node_alias.
  - exact node_none.
  - exact node_props_only.
  - exact node_bseq.
  - exact node_iseq.
  - exact node_bmap.
  - exact node_fseq.
  - exact node_fmap.
Qed.

(* ---------- one document: stream start, document start, root node, document end, stream end ---------- *)
Require Import SBase SPrim SDir SScalar SFetch Pipe.

Lemma steps_no_end p e evs q : steps p (e :: evs) q -> p_state p <> SEnd.
Proof. intros H. inversion H; subst. intros E. unfold state_machine in *. rewrite E in *. discriminate. Qed.

(* a run of the state machine is what parse_all does, as long as the fuel lasts *)
Lemma steps_parse_all p evs q : steps p evs q ->
  forall f se acc, exists l, map fst l = evs /\
    parse_all (length evs + f) p se acc = parse_all f q se (rev l ++ acc).
Proof.
  induction 1 as [p | p e sp p' evs p'' Hs Hst IH]; intros f se acc.
  - exists []. split; reflexivity.
  - destruct (IH f se ((e, sp) :: acc)) as (l & El & Ep).
    exists ((e, sp) :: l). split; [cbn; f_equal; exact El|].
    cbn [length plus parse_all].
    assert (Hne : p_state p <> SEnd).
    { intros E. unfold state_machine in Hs. rewrite E in Hs. discriminate. }
    destruct (p_state p) eqn:ES; try congruence; rewrite Hs, Ep; cbn [rev]; rewrite <- app_assoc; reflexivity.
Qed.

Definition init_p (toks : list token) (keep : bool) : parser := mkp toks None SStreamStart [] [] 1%N [] keep.

Definition doc_state (es : bool) : pstate := if es then SDocumentContent else SBlockNode.

Lemma doc_open es sp0 (tds u : list token) keep :
  map snd tds = flag es TDocumentStart ->
  (es = true \/ exists sy y u', u = (sy, y) :: u' /\ is_start y = true) ->
  exists p1, steps (init_p ((sp0, TStreamStart) :: tds ++ u) keep) [EStreamStart; EDocumentStart es] p1 /\
     view p1 = mkv u (doc_state es) [SDocumentEnd] [] 1%N [] keep.
Proof.
  intros Hm Hu. destruct es; cbn in Hm.
  - apply map_snd_cons in Hm as (sd & t2 & -> & Hm). apply map_snd_nil in Hm as ->. cbn [app].
    eexists. split.
    + econstructor; [reflexivity|]. econstructor; [reflexivity|]. constructor.
    + reflexivity.
  - apply map_snd_nil in Hm as ->. cbn [app]. destruct Hu as [?|(sy & y & u' & -> & Hy)]; [discriminate|].
    destruct y; try discriminate;
      (eexists; split; [econstructor; [reflexivity|]; econstructor; [reflexivity|]; constructor | reflexivity]).
Qed.

Lemma state_machine_content p u k a n tg kp :
  view p = mkv u SDocumentContent k a n tg kp -> state_machine p = document_content p.
Proof. intros H. unfold state_machine. rewrite (view_state _ _ _ _ _ _ _ _ H). reflexivity. Qed.
Lemma state_machine_blocknode p u k a n tg kp :
  view p = mkv u SBlockNode k a n tg kp -> state_machine p = parse_node p true false.
Proof. intros H. unfold state_machine. rewrite (view_state _ _ _ _ _ _ _ _ H). reflexivity. Qed.
Lemma state_machine_docend p u k a n tg kp :
  view p = mkv u SDocumentEnd k a n tg kp -> state_machine p = document_end p.
Proof. intros H. unfold state_machine. rewrite (view_state _ _ _ _ _ _ _ _ H). reflexivity. Qed.

Definition doc_follow (x : tok) : bool := match x with TDocumentEnd | TStreamEnd | TDocumentStart => true | _ => false end.

(* the root node of a document, from any anchor environment and tag table *)
Lemma doc_content_gen es t p1 (tt : list token) x rest e tg keep :
  wf_root es t = true ->
  view p1 = mkv (tt ++ x :: rest) (doc_state es) [SDocumentEnd] (ae_map e) (ae_next e) tg keep ->
  map snd tt = tokens_of t -> doc_follow (snd x) = true ->
  bound tg e (pre_events t) = true -> (0 < ae_next e)%N ->
  exists p2, steps p1 (number tg e (pre_events t)) p2 /\
     view p2 = mkv (x :: rest) SDocumentEnd [] (ae_map (env_after e (pre_events t))) (ae_next (env_after e (pre_events t))) tg keep.
Proof.
  intros Hw Hv Hm Hx Hb Hn. unfold wf_root in Hw.
  assert (Hfx : follow (snd x) = true) by (destruct (snd x); try discriminate; reflexivity).
  destruct (is_none t) eqn:EN.
  - (* the root node is left out: only after '---' *)
    subst es. destruct t; try discriminate. cbn [tokens_of] in Hm. apply map_snd_nil in Hm as ->. cbn [app] in Hv.
    destruct x as [sx tx]. cbn [snd] in Hx.
    eexists. split.
    + apply run_steps. cbn [pre_events number number1 pnull reg fst]. eapply run_one.
      rewrite (state_machine_content p1 _ _ _ _ _ _ Hv). unfold document_content. vpeek Hv.
      destruct tx; try discriminate; reflexivity.
    + reflexivity.
  - destruct (first_tok_spanned _ _ _ _ Hw Hm) as (sp0 & y0 & tt' & -> & [S0 | [? _]]); [|discriminate].
    cbn [app] in Hv.
    destruct (node_spec t true false (mkp (tt' ++ x :: rest) (Some (sp0, y0)) (doc_state es) [SDocumentEnd] (ae_map e) (ae_next e) tg keep)
                ((sp0, y0) :: tt') x rest (doc_state es) SDocumentEnd [] e tg keep Hw eq_refl Hm Hfx ltac:(discriminate) Hb
                Hn) as (p2 & R2 & V2).
    exists p2. split; [|exact V2]. apply run_steps.
    eapply run_eq; [|exact R2].
    destruct es; cbn [doc_state] in *.
    + rewrite (state_machine_content p1 _ _ _ _ _ _ Hv). unfold document_content. vpeek Hv.
      start_cases y0; reflexivity.
    + rewrite (state_machine_blocknode p1 _ _ _ _ _ _ Hv). unfold parse_node. vpeek Hv. reflexivity.
Qed.

Lemma doc_content es t p1 (tt : list token) x rest keep :
  wf_root es t = true ->
  view p1 = mkv (tt ++ x :: rest) (doc_state es) [SDocumentEnd] [] 1%N [] keep ->
  map snd tt = tokens_of t -> doc_follow (snd x) = true ->
  bound [] env0 (pre_events t) = true ->
  exists p2, steps p1 (events_of t) p2 /\
     view p2 = mkv (x :: rest) SDocumentEnd [] (ae_map (env_after env0 (pre_events t))) (ae_next (env_after env0 (pre_events t))) [] keep.
Proof.
  intros Hw Hv Hm Hx Hb. exact (doc_content_gen es t p1 tt x rest env0 [] keep Hw Hv Hm Hx Hb eq_refl).
Qed.

Lemma doc_close ee p2 (tde : list token) spE a n keep :
  view p2 = mkv (tde ++ [(spE, TStreamEnd)]) SDocumentEnd [] a n [] keep ->
  map snd tde = flag ee TDocumentEnd ->
  exists p3, steps p2 [EDocumentEnd; EStreamEnd] p3 /\ p_state p3 = SEnd.
Proof.
  intros Hv Hm. destruct ee; cbn in Hm.
  - apply map_snd_cons in Hm as (sd & t2 & -> & Hm). apply map_snd_nil in Hm as ->. cbn [app] in Hv.
    eexists. split.
    + econstructor.
      * rewrite (state_machine_docend p2 _ _ _ _ _ _ Hv). unfold document_end. vpeek Hv. destruct keep; reflexivity.
      * econstructor; [|constructor]. destruct keep; reflexivity.
    + destruct keep; reflexivity.
  - apply map_snd_nil in Hm as ->. cbn [app] in Hv.
    eexists. split.
    + econstructor.
      * rewrite (state_machine_docend p2 _ _ _ _ _ _ Hv). unfold document_end. vpeek Hv. destruct keep; reflexivity.
      * econstructor; [|constructor]. destruct keep; reflexivity.
    + destruct keep; reflexivity.
Qed.

Lemma doc_steps t es ee toks keep :
  wf_root es t = true -> bound [] env0 (pre_events t) = true ->
  map snd toks = wrap es ee (tokens_of t) ->
  exists p3, steps (init_p toks keep) (wrap_events es (events_of t)) p3 /\ p_state p3 = SEnd.
Proof.
  intros Hw Hb Hm. unfold wrap in Hm.
  apply map_snd_cons in Hm as (sp0 & t1 & -> & Hm).
  apply map_snd_app in Hm as (tds & t2 & -> & Hmds & Hm).
  apply map_snd_app in Hm as (tt & t3 & -> & Hmt & Hm).
  apply map_snd_app in Hm as (tde & t4 & -> & Hmde & Hm).
  apply map_snd_cons in Hm as (spE & t5 & -> & Hm). apply map_snd_nil in Hm as ->.
  assert (Hx : exists x rest, tde ++ [(spE, TStreamEnd)] = x :: rest /\ doc_follow (snd x) = true).
  { destruct ee; cbn in Hmde.
    - apply map_snd_cons in Hmde as (sd & t6 & -> & _). cbn. eauto.
    - apply map_snd_nil in Hmde as ->. cbn. eauto. }
  destruct Hx as (x & rest & Ex & Hx).
  assert (Hu : es = true \/ exists sy y u', tt ++ tde ++ [(spE, TStreamEnd)] = (sy, y) :: u' /\ is_start y = true).
  { destruct es; [left; reflexivity|right]. unfold wf_root in Hw. destruct (is_none t) eqn:EN; [discriminate|].
    destruct (first_tok_spanned _ _ _ _ Hw Hmt) as (sy & y & tt' & -> & [S0 | [? _]]); [|discriminate].
    cbn. eauto. }
  destruct (doc_open es sp0 tds (tt ++ tde ++ [(spE, TStreamEnd)]) keep Hmds Hu) as (p1 & R1 & V1).
  unfold token in *. rewrite Ex in V1.
  destruct (doc_content es t p1 tt x rest keep Hw V1 Hmt Hx Hb) as (p2 & R2 & V2).
  destruct (doc_close ee p2 tde spE _ _ keep ltac:(rewrite V2; f_equal; symmetry; exact Ex) Hmde) as (p3 & R3 & E3).
  exists p3. split; [|exact E3]. unfold wrap_events.
  change (EStreamStart :: EDocumentStart es :: events_of t ++ [EDocumentEnd; EStreamEnd])
    with ([EStreamStart; EDocumentStart es] ++ events_of t ++ [EDocumentEnd; EStreamEnd]).
  eapply steps_app; [exact R1|]. eapply steps_app; [exact R2 | exact R3].
Qed.

(* the parser model on the token list of a document: exactly the denoted events, and the run ends normally *)
Theorem parse_wrap t es ee toks keep se fuel :
  wf_root es t = true -> bound [] env0 (pre_events t) = true ->
  map snd toks = wrap es ee (tokens_of t) ->
  (length (wrap_events es (events_of t)) < fuel)%nat ->
  map fst (fst (parse_all fuel (init_p toks keep) se [])) = wrap_events es (events_of t) /\
  snd (parse_all fuel (init_p toks keep) se []) = PDone.
Proof.
  intros Hw Hb Hm Hf.
  destruct (doc_steps t es ee toks keep Hw Hb Hm) as (p3 & R & E3).
  set (evs := wrap_events es (events_of t)) in *.
  destruct (steps_parse_all _ _ _ R (fuel - length evs)%nat se []) as (l & El & Ep).
  replace (length evs + (fuel - length evs))%nat with fuel in Ep by lia.
  rewrite Ep. destruct (fuel - length evs)%nat as [|f] eqn:Ef; [lia|].
  cbn [parse_all]. rewrite E3. cbn [fst snd]. split; [|reflexivity].
  rewrite app_nil_r, rev_involutive. exact El.
Qed.
