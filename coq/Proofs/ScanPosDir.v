(* Joint proof "every position the scanner reports is a true position" (see SCANPOS.md): the family of directives,
   tags and anchors (Model/SDir.v).

   Every function of the family only reads / consumes input and moves the mark.  All helper lemmas have the
   "accumulated" form
       G s0 s -> (forall r s', G s0 s' -> Q r s') -> pwp (f ...) Q s
   where [G s0 s := MarkOK s /\ pkeeps s0 s] ([s0] is the state the enclosing entry point started from), plus
   [true_mark orig mk] for the marker [mk] at which the helper raises its errors (always the [start] mark captured by
   the entry point under the invariant).  Every [skip_non_blank] / [skip_n_non_blank 3] is justified by the value of
   the character(s) just peeked: the character-class lemmas at the top show that each class tested by the model
   excludes line breaks and NUL (hence, the input being NUL-free, the character is really there). *)
From Coq Require Import List NArith ZArith Bool Arith Lia.
Import ListNotations.
Require Import Parser SBase SPrim SDir SScalar SFetch Positions ScanPos ScanPosPrim.
Local Open Scope nat_scope.

Arguments Nat.ltb : simpl never.
Arguments Nat.leb : simpl never.
Arguments Nat.eqb : simpl never.
Arguments Nat.sub : simpl never.

(* ---------------- character classes tested by this family exclude breaks and NUL ---------------- *)
Ltac class_not_breakz c H :=
  let B := fresh "B" in
  destruct (is_breakz c) eqn:B; [|reflexivity]; exfalso; unfold is_breakz, is_break, is_z in B;
  repeat (apply orb_true_iff in B as [B|B]); apply N.eqb_eq in B; subst c; vm_compute in H; discriminate H.

Lemma hex_not_breakz c : is_hex c = true -> is_breakz c = false.
Proof. intros H. class_not_breakz c H. Qed.
Lemma digit_not_breakz c : is_digit c = true -> is_breakz c = false.
Proof. intros H. class_not_breakz c H. Qed.
Lemma uri_char_not_breakz c : is_uri_char c = true -> is_breakz c = false.
Proof. intros H. class_not_breakz c H. Qed.
Lemma tag_char_not_breakz c : is_tag_char c = true -> is_breakz c = false.
Proof. intros H. class_not_breakz c H. Qed.
Lemma anchor_char_not_breakz c : is_anchor_char c = true -> is_breakz c = false.
Proof. intros H. class_not_breakz c H. Qed.
Lemma eqb_not_breakz c k : (c =? k)%N = true -> is_breakz k = false -> is_breakz c = false.
Proof. intros H Hk. apply N.eqb_eq in H. subst c. exact Hk. Qed.

(* after one character has been consumed, offset i+1 of the old input is offset i of the new one *)
Lemma rnth_shift s s' i : rem s = rnth s 0 :: rem s' -> rnth s (S i) = rnth s' i.
Proof. intros R. unfold rnth at 1. rewrite R. reflexivity. Qed.

Section PosDir.
Variable orig : list chr.
Hypothesis no_nul : Forall (fun c => c <> 0%N) orig.
Notation pwp := (swp (true_mark orig)).
Notation MarkAt := (MarkAt orig).
Notation MarkOK := (MarkOK orig).
Notation TM := (true_mark orig).

(* the accumulated invariant *)
Definition G (s0 s : sst) : Prop := MarkOK s /\ pkeeps s0 s.

Ltac dif := match goal with |- swp _ (if ?b then _ else _) _ _ => destruct b end.
Ltac difE E := match goal with |- swp _ (if ?b then _ else _) _ _ => destruct b eqn:E end.

Lemma G_refl s : MarkOK s -> G s s.
Proof. intros H. split; [exact H|apply pkeeps_refl]. Qed.
Lemma G_true s0 s : G s0 s -> TM (sc_mark s).
Proof. intros [H _]. apply markok_true. exact H. Qed.

(* ---------------- primitives in accumulated form ---------------- *)
Lemma A_look n s0 (Q : unit -> sst -> Prop) s :
  G s0 s -> (forall s', G s0 s' -> rem s' = rem s -> Q tt s') -> pwp (look str_ops n) Q s.
Proof using no_nul.
  intros [[pre HM] K] HQ. apply (pwp_look orig no_nul n pre); [exact HM|]. intros s' M' R' I'.
  apply HQ; [split; [exists pre; exact M'|pk]|exact R'].
Qed.
Lemma A_look_ch s0 (Q : chr -> sst -> Prop) s :
  G s0 s -> (forall s', G s0 s' -> rem s' = rem s -> Q (rnth s' 0) s') -> pwp (look_ch str_ops) Q s.
Proof using no_nul.
  intros [[pre HM] K] HQ. apply (pwp_look_ch orig no_nul pre); [exact HM|]. intros s' M' R' I'.
  apply HQ; [split; [exists pre; exact M'|pk]|exact R'].
Qed.
(* skip_non_blank on a character whose value (just peeked) excludes a break and NUL *)
Lemma A_skip_nb s0 (Q : unit -> sst -> Prop) s :
  G s0 s -> is_breakz (rnth s 0) = false ->
  (forall s', G s0 s' -> rem s = rnth s 0 :: rem s' -> Q tt s') -> pwp (skip_non_blank str_ops) Q s.
Proof using no_nul.
  intros [[pre HM] K] Hz HQ.
  apply (pwp_skip_plain_z orig no_nul (skip_non_blank str_ops) pre); [right; reflexivity|exact HM|exact Hz|].
  intros s' M' R' K'. apply HQ; [split; [eexists; exact M'|pk]|exact R'].
Qed.
(* the bulk loops followed by the [adv_mark] of their count *)
Lemma A_skip_blanks {B} F (k : SM B) s0 (Q : B -> sst -> Prop) s :
  G s0 s -> (forall s', G s0 s' -> pwp k Q s') ->
  pwp (bind (in_skip_while_blank str_ops F) (fun n => bind (adv_mark n) (fun _ => k))) Q s.
Proof using no_nul.
  intros [[pre HM] K] HQ. apply swp_bind. apply (pwp_in_skip_while_blank orig no_nul). intros w s1 R1 Fp Fb Ex I1.
  apply swp_bind. apply (pwp_adv_mark_over orig no_nul pre w _ s s1); [exact HM|exact R1|apply inonly_mark; exact I1|exact Fb|].
  intros s2 M2 R2 K2. apply HQ. split; [eexists; exact M2|pk].
Qed.
Lemma A_skip_non_breakz {B} F (k : SM B) s0 (Q : B -> sst -> Prop) s :
  G s0 s -> (forall s', G s0 s' -> pwp k Q s') ->
  pwp (bind (in_skip_while_non_breakz str_ops F) (fun n => bind (adv_mark n) (fun _ => k))) Q s.
Proof using no_nul.
  intros [[pre HM] K] HQ. apply swp_bind. apply (pwp_in_skip_while_non_breakz orig no_nul). intros w s1 R1 Fp Fb Ex I1.
  apply swp_bind. apply (pwp_adv_mark_over orig no_nul pre w _ s s1); [exact HM|exact R1|apply inonly_mark; exact I1|exact Fb|].
  intros s2 M2 R2 K2. apply HQ. split; [eexists; exact M2|pk].
Qed.
Lemma A_fetch_alpha {B} F acc (k : list chr * N -> SM B) s0 (Q : B -> sst -> Prop) s :
  G s0 s -> (forall r s', G s0 s' -> pwp (k r) Q s') ->
  pwp (bind (in_fetch_while_alpha str_ops F acc) (fun r => bind (adv_mark (snd r)) (fun _ => k r))) Q s.
Proof using no_nul.
  intros [[pre HM] K] HQ. apply swp_bind. apply (pwp_in_fetch_while_alpha orig no_nul). intros w s1 R1 Fp Fb Ex I1.
  apply swp_bind. cbn [snd].
  apply (pwp_adv_mark_over orig no_nul pre w _ s s1); [exact HM|exact R1|apply inonly_mark; exact I1|exact Fb|].
  intros s2 M2 R2 K2. apply HQ. split; [eexists; exact M2|pk].
Qed.

(* ---------------- scan_uri_escapes: '%' and two hex digits have just been peeked, then [skip_n_non_blank 3] ---------------- *)
Lemma A_uri_escapes mk s0 (Q : chr -> sst -> Prop) s :
  TM mk -> G s0 s -> (forall c s', G s0 s' -> Q c s') -> pwp (scan_uri_escapes str_ops mk) Q s.
Proof using no_nul.
  intros Hmk K HQ. cbv beta delta [scan_uri_escapes].
  match goal with |- swp _ (?g 5 0%N 0%N 0%N true) _ _ =>
    cut (forall n w ln cd fs s, G s0 s -> pwp (g n w ln cd fs) Q s); [intros H; apply H; exact K|] end.
  clear s K. induction n as [|n IH]; intros w ln cd fs s K; [exact I|].
  cbv beta iota zeta.
  apply swp_bind. eapply A_look; [exact K|]. intros s1 K1 R1.
  apply swp_bind. apply swp_peek. apply swp_bind. apply swp_peekn. apply swp_bind. apply swp_peekn. cbv beta.
  difE Ec; [apply swp_fail; exact Hmk|].
  apply negb_false_iff in Ec. apply andb_true_iff in Ec as [Ec H2]. apply andb_true_iff in Ec as [H0 H1].
  apply swp_bind.
  match goal with |- swp _ _ ?QQ _ => assert (HC : forall r, QQ r s1) end.
  { intros [w' cd']. cbv beta iota zeta.
    destruct K1 as [[pre M1] KK1].
    apply swp_bind. apply (pwp_skip_n_non_blank_z orig no_nul 3 pre); [exact M1| |].
    - intros i Hi. destruct i as [|[|[|i]]]; [| | |lia].
      + apply (eqb_not_breakz _ 37%N); [exact H0|reflexivity].
      + apply hex_not_breakz; exact H1.
      + apply hex_not_breakz; exact H2.
    - intros s2 M2 R2 K2. assert (G2 : G s0 s2) by (split; [eexists; exact M2|pk]).
      dif.
      + dif; [apply swp_ret; apply HQ; exact G2|apply swp_fail; exact Hmk].
      + apply IH; exact G2. }
  destruct fs; repeat dif; try (apply swp_fail; exact Hmk); match goal with |- swp _ (ret ?x) _ _ => exact (HC x) end.
Qed.

(* ---------------- tags ---------------- *)
Lemma A_tag_handle F d mk s0 (Q : list chr -> sst -> Prop) s :
  TM mk -> G s0 s -> (forall r s', G s0 s' -> Q r s') -> pwp (scan_tag_handle str_ops F d mk) Q s.
Proof using no_nul.
  intros Hmk K HQ. unfold scan_tag_handle.
  apply swp_bind. eapply A_look_ch; [exact K|]. intros s1 K1 R1. cbv beta.
  difE E33; [apply swp_fail; exact Hmk|]. apply negb_false_iff in E33.
  apply swp_bind. eapply A_skip_nb; [exact K1|apply (eqb_not_breakz _ 33%N); [exact E33|reflexivity]|]. intros s2 K2 _.
  eapply A_fetch_alpha; [exact K2|]. intros r s3 K3.
  apply swp_bind. apply swp_peek. cbv beta.
  difE E2.
  - apply swp_bind. eapply A_skip_nb; [exact K3|apply (eqb_not_breakz _ 33%N); [exact E2|reflexivity]|]. intros s4 K4 _.
    apply swp_ret. apply HQ; exact K4.
  - dif; [apply swp_fail; exact Hmk|apply swp_ret; apply HQ; exact K3].
Qed.

Lemma A_uri_loop F p mk acc s0 (Q : list chr * N -> sst -> Prop) s :
  (forall c, p c = true -> is_breakz c = false) ->
  TM mk -> G s0 s -> (forall r s', G s0 s' -> Q r s') -> pwp (uri_loop str_ops F p mk acc) Q s.
Proof using no_nul.
  intros Hp Hmk K HQ. unfold uri_loop.
  match goal with |- swp _ (?g F acc 0%N) _ _ =>
    cut (forall f a n s, G s0 s -> pwp (g f a n) Q s); [intros H; apply H; exact K|] end.
  clear s K. induction f as [|f IH]; intros a n s K; [exact I|].
  cbv beta iota zeta.
  apply swp_bind. eapply A_look_ch; [exact K|]. intros s1 K1 R1. cbv beta.
  difE Ep; [|apply swp_ret; apply HQ; exact K1].
  dif.
  - apply swp_bind. eapply A_uri_escapes; [exact Hmk|exact K1|]. intros e s2 K2. apply IH; exact K2.
  - apply swp_bind. eapply A_skip_nb; [exact K1|apply Hp; exact Ep|]. intros s2 K2 _. apply IH; exact K2.
Qed.

Lemma A_tag_prefix F mk s0 (Q : list chr -> sst -> Prop) s :
  TM mk -> G s0 s -> (forall r s', G s0 s' -> Q r s') -> pwp (scan_tag_prefix str_ops F mk) Q s.
Proof using no_nul.
  intros Hmk K HQ. unfold scan_tag_prefix.
  apply swp_bind. eapply A_look_ch; [exact K|]. intros s1 K1 R1. cbv beta.
  apply swp_bind.
  match goal with |- swp _ _ ?QQ _ => assert (HC : forall acc s', G s0 s' -> QQ acc s') end.
  { intros acc s' K'. cbv beta.
    apply swp_bind. eapply A_uri_loop; [exact uri_char_not_breakz|exact Hmk|exact K'|]. intros r s2 K2.
    apply swp_ret. apply HQ; exact K2. }
  difE E33.
  - apply swp_bind. eapply A_skip_nb; [exact K1|apply (eqb_not_breakz _ 33%N); [exact E33|reflexivity]|]. intros s2 K2 _.
    apply swp_ret. apply HC; exact K2.
  - difE Et; [apply swp_fail; exact Hmk|]. apply negb_false_iff in Et. dif.
    + apply swp_bind. eapply A_uri_escapes; [exact Hmk|exact K1|]. intros e s2 K2. apply swp_ret. apply HC; exact K2.
    + apply swp_bind. eapply A_skip_nb; [exact K1|apply tag_char_not_breakz; exact Et|]. intros s2 K2 _.
      apply swp_ret. apply HC; exact K2.
Qed.

(* the caller has seen '!' at offset 0 and '<' at offset 1 *)
Lemma A_verbatim_tag F mk s0 (Q : list chr -> sst -> Prop) s :
  TM mk -> G s0 s -> rnth s 0 = 33%N -> rnth s 1 = 60%N ->
  (forall r s', G s0 s' -> Q r s') -> pwp (scan_verbatim_tag str_ops F mk) Q s.
Proof using no_nul.
  intros Hmk K H0 H1 HQ. unfold scan_verbatim_tag.
  apply swp_bind. eapply A_skip_nb; [exact K|rewrite H0; reflexivity|]. intros s1 K1 R1.
  assert (H1' : rnth s1 0 = 60%N) by (rewrite <- (rnth_shift s s1 0 R1); exact H1).
  apply swp_bind. eapply A_skip_nb; [exact K1|rewrite H1'; reflexivity|]. intros s2 K2 _.
  apply swp_bind. eapply A_uri_loop; [exact uri_char_not_breakz|exact Hmk|exact K2|]. intros r s3 K3.
  apply swp_bind. apply swp_peek. cbv beta.
  difE E62; [apply swp_fail; exact Hmk|]. apply negb_false_iff in E62.
  apply swp_bind. eapply A_skip_nb; [exact K3|apply (eqb_not_breakz _ 62%N); [exact E62|reflexivity]|]. intros s4 K4 _.
  apply swp_ret. apply HQ; exact K4.
Qed.

Lemma A_tag_shorthand_suffix F head mk s0 (Q : list chr -> sst -> Prop) s :
  TM mk -> G s0 s -> (forall r s', G s0 s' -> Q r s') -> pwp (scan_tag_shorthand_suffix str_ops F head mk) Q s.
Proof using no_nul.
  intros Hmk K HQ. unfold scan_tag_shorthand_suffix. cbv beta zeta.
  apply swp_bind. eapply A_uri_loop; [exact tag_char_not_breakz|exact Hmk|exact K|]. intros r s1 K1.
  dif; [apply swp_fail; exact Hmk|apply swp_ret; apply HQ; exact K1].
Qed.

Theorem pos_scan_tag : forall F s, MarkOK s -> rnth s 0 = 33%N -> pwp (scan_tag str_ops F) (ppost orig s) s.
Proof using no_nul.
  intros F s HS H33. pose proof (G_refl s HS) as K. pose proof (markok_true orig s HS) as Hst.
  unfold scan_tag, mark.
  apply swp_bind. apply swp_gets.
  apply swp_bind. eapply A_look; [exact K|]. intros s1 K1 R1.
  apply swp_bind. unfold nth_char_is. apply swp_bind. apply swp_peekn. apply swp_ret. cbv beta.
  apply swp_bind.
  match goal with |- swp _ _ ?QQ _ => assert (HC : forall hs s', G s s' -> QQ hs s') end.
  { intros hs s' K'. cbv beta.
    apply swp_bind. eapply A_look_ch; [exact K'|]. intros s2 K2 R2.
    apply swp_bind. unfold flow_level. apply swp_gets. cbv beta.
    dif; [|apply swp_fail; exact Hst].
    apply swp_bind. apply swp_gets. apply swp_ret. destruct K2 as [M2 KK2].
    split; [exact M2|split; [|exact KK2]]. split; [exact Hst|apply markok_true; exact M2]. }
  difE Ev.
  - apply N.eqb_eq in Ev.
    apply swp_bind. eapply A_verbatim_tag; [exact Hst|exact K1|rewrite (rnth_eq s s1 0 R1); exact H33|exact Ev|].
    intros sfx s2 K2. apply swp_ret. apply HC; exact K2.
  - apply swp_bind. eapply A_tag_handle; [exact Hst|exact K1|]. intros h s2 K2.
    dif.
    + apply swp_bind. eapply A_tag_shorthand_suffix; [exact Hst|exact K2|]. intros sfx s3 K3.
      apply swp_ret. apply HC; exact K3.
    + apply swp_bind. eapply A_tag_shorthand_suffix; [exact Hst|exact K2|]. intros sfx s3 K3.
      destruct sfx; apply swp_ret; apply HC; exact K3.
Qed.

(* ---------------- anchors and aliases ---------------- *)
Theorem pos_scan_anchor : forall F alias s, MarkOK s -> is_breakz (rnth s 0) = false ->
  pwp (scan_anchor str_ops F alias) (ppost orig s) s.
Proof using no_nul.
  intros F alias s HS Hz. pose proof (G_refl s HS) as K. pose proof (markok_true orig s HS) as Hst.
  unfold scan_anchor, mark.
  apply swp_bind. apply swp_gets.
  apply swp_bind. eapply A_skip_nb; [exact K|exact Hz|]. intros s1 K1 _.
  apply swp_bind.
  match goal with |- swp _ (?g F []) ?QQ _ =>
    set (Q' := QQ);
    assert (HC : forall r s', G s s' -> Q' r s');
    [|cut (forall f acc s', G s s' -> pwp (g f acc) Q' s'); [intros H; apply H; exact K1|]] end.
  { intros r s' K'. unfold Q'. destruct r; [apply swp_fail; exact Hst|].
    apply swp_bind. apply swp_gets. apply swp_ret. destruct K' as [M' KK'].
    split; [exact M'|split; [|exact KK']]. split; [exact Hst|apply markok_true; exact M']. }
  induction f as [|f IH]; intros acc s' K'; [exact I|].
  cbv beta iota zeta.
  apply swp_bind. eapply A_look_ch; [exact K'|]. intros s2 K2 R2. cbv beta.
  difE Ea.
  - apply swp_bind. eapply A_skip_nb; [exact K2|apply anchor_char_not_breakz; exact Ea|]. intros s3 K3 _.
    apply IH; exact K3.
  - apply swp_ret. apply HC; exact K2.
Qed.

(* ---------------- directives ---------------- *)
Lemma A_version_number F mk s0 (Q : N -> sst -> Prop) s :
  TM mk -> G s0 s -> (forall r s', G s0 s' -> Q r s') -> pwp (scan_version_directive_number str_ops F mk) Q s.
Proof using no_nul.
  intros Hmk K HQ. unfold scan_version_directive_number.
  match goal with |- swp _ (?g F 0%N 0%N) _ _ =>
    cut (forall f val len s, G s0 s -> pwp (g f val len) Q s); [intros H; apply H; exact K|] end.
  clear s K. induction f as [|f IH]; intros val len s K; [exact I|].
  cbv beta iota zeta.
  apply swp_bind. eapply A_look_ch; [exact K|]. intros s1 K1 R1. cbv beta.
  difE Ed.
  - dif; [apply swp_fail; exact Hmk|].
    apply swp_bind. dif; [apply swp_panic|]. apply swp_ret.
    apply swp_bind. eapply A_skip_nb; [exact K1|apply digit_not_breakz; exact Ed|]. intros s2 K2 _.
    apply IH; exact K2.
  - dif; [apply swp_fail; exact Hmk|apply swp_ret; apply HQ; exact K1].
Qed.

(* the two directive values return a token whose span starts at [mk] and ends at the current mark *)
Lemma A_version_value F mk s0 (Q : token -> sst -> Prop) s :
  TM mk -> G s0 s -> (forall t s', G s0 s' -> true_tok orig t -> Q t s') ->
  pwp (scan_version_directive_value str_ops F mk) Q s.
Proof using no_nul.
  intros Hmk K HQ. unfold scan_version_directive_value, mark.
  eapply A_skip_blanks; [exact K|]. intros s1 K1.
  apply swp_bind. eapply A_version_number; [exact Hmk|exact K1|]. intros major s2 K2.
  apply swp_bind. apply swp_peek. cbv beta.
  difE E46; [apply swp_fail; exact Hmk|]. apply negb_false_iff in E46.
  apply swp_bind. eapply A_skip_nb; [exact K2|apply (eqb_not_breakz _ 46%N); [exact E46|reflexivity]|]. intros s3 K3 _.
  apply swp_bind. eapply A_version_number; [exact Hmk|exact K3|]. intros minor s4 K4.
  apply swp_bind. apply swp_gets. apply swp_ret. apply HQ; [exact K4|].
  split; [exact Hmk|exact (G_true s0 s4 K4)].
Qed.

Lemma A_tag_directive_value F mk s0 (Q : token -> sst -> Prop) s :
  TM mk -> G s0 s -> (forall t s', G s0 s' -> true_tok orig t -> Q t s') ->
  pwp (scan_tag_directive_value str_ops F mk) Q s.
Proof using no_nul.
  intros Hmk K HQ. unfold scan_tag_directive_value, mark.
  eapply A_skip_blanks; [exact K|]. intros s1 K1.
  apply swp_bind. eapply A_tag_handle; [exact Hmk|exact K1|]. intros h s2 K2.
  eapply A_skip_blanks; [exact K2|]. intros s3 K3.
  apply swp_bind. eapply A_tag_prefix; [exact Hmk|exact K3|]. intros p s4 K4.
  apply swp_bind. eapply A_look; [exact K4|]. intros s5 K5 R5.
  apply swp_bind. apply swp_peek. cbv beta.
  dif; [|apply swp_fail; exact Hmk].
  apply swp_bind. apply swp_gets. apply swp_ret. apply HQ; [exact K5|].
  split; [exact Hmk|exact (G_true s0 s5 K5)].
Qed.

Lemma A_directive_name F s0 (Q : list chr -> sst -> Prop) s :
  G s0 s -> (forall r s', G s0 s' -> Q r s') -> pwp (scan_directive_name str_ops F) Q s.
Proof using no_nul.
  intros K HQ. pose proof (G_true s0 s K) as Hst. unfold scan_directive_name, mark.
  apply swp_bind. apply swp_gets.
  eapply A_fetch_alpha; [exact K|]. intros r s1 K1.
  destruct (fst r) as [|x l]; [apply swp_fail; exact Hst|].
  apply swp_bind. apply swp_peek. cbv beta.
  dif; [apply swp_ret; apply HQ; exact K1|apply swp_fail; exact Hst].
Qed.

Theorem pos_scan_directive : forall F s, MarkOK s -> is_breakz (rnth s 0) = false ->
  pwp (scan_directive str_ops F) (ppost orig s) s.
Proof using no_nul.
  intros F s HS Hz. pose proof (G_refl s HS) as K. pose proof (markok_true orig s HS) as Hst.
  unfold scan_directive, mark.
  apply swp_bind. apply swp_gets.
  apply swp_bind. eapply A_skip_nb; [exact K|exact Hz|]. intros s1 K1 _.
  apply swp_bind. eapply A_directive_name; [exact K1|]. intros name s2 K2.
  apply swp_bind.
  match goal with |- swp _ _ ?QQ _ => assert (HC : forall tk s', G s s' -> true_tok orig tk -> QQ tk s') end.
  { intros tk s' [M' K'] Htk. cbv beta.
    apply swp_bind. eapply swp_mono; [apply (pos_skip_ws_to_eol orig no_nul); exact M'|]. intros tw s3 [M3 K3].
    apply swp_bind. unfold next_is. apply swp_bind. apply swp_peek. apply swp_ret. cbv beta.
    dif; [|apply swp_fail; exact Hst].
    destruct M3 as [pre M3].
    apply swp_bind. apply (pwp_look orig no_nul 2 pre); [exact M3|]. intros s4 M4 R4 I4.
    apply swp_bind. apply (pwp_skip_linebreak orig no_nul pre); [exact M4| |].
    - intros _. apply swp_ret. split; [exists pre; exact M4|split; [exact Htk|pk]].
    - intros s5 b rest Rb Ub Hb M5 R5 K5. apply swp_ret. split; [eexists; exact M5|split; [exact Htk|pk]]. }
  dif.
  - eapply A_version_value; [exact Hst|exact K2|]. intros tk s3 K3 Htk. apply HC; assumption.
  - dif.
    + eapply A_tag_directive_value; [exact Hst|exact K2|]. intros tk s3 K3 Htk. apply HC; assumption.
    + eapply A_skip_non_breakz; [exact K2|]. intros s3 K3.
      apply swp_bind. apply swp_gets. apply swp_ret. apply HC; [exact K3|].
      split; [exact Hst|exact (G_true s s3 K3)].
Qed.

End PosDir.

Print Assumptions pos_scan_directive.
Print Assumptions pos_scan_tag.
Print Assumptions pos_scan_anchor.
Check pos_scan_directive.
Check pos_scan_tag.
Check pos_scan_anchor.
