(* C15, scanner half: the skeleton invariant of the scanner and what a document marker leaves behind.

   Generic in the input type and its operations ([ops] is arbitrary: the character-level scanners are only known
   to be frames, Proofs/ScanFrame.v), for every fuel parameter, for every state — no bound on the input.

   1. [SkInv] holds in every state the scanner can reach:
        - the simple-key stack has one entry per flow level plus one (before StreamStart: everything is empty),
        - the indent stack is a strictly increasing chain that bottoms out at -1,
        - the implicit-flow-mapping stack [sc_ifms] (one entry per open '[' or '{', /repo ad74b3e) has exactly
          [sc_flow_level] entries.
      Hence outside flow collections — in particular between documents — there is NO implicit-flow-mapping state
      at all: the defect class "flow_mapping_started leaks into the next document" cannot recur in this design.
   2. After a document marker ('---' or '...') fetched at flow level 0 the skeleton is the configuration the scanner
      had right after StreamStart: indent -1, no indents, flow level 0, no implicit-flow-mapping state, one simple-key
      slot holding no candidate.  Simple keys are not allowed on the marker line itself; once the line break after
      the marker has been consumed they are allowed again, exactly as at the start of the stream. *)
From Coq Require Import List NArith ZArith Bool Lia.
Import ListNotations.
Require Import Parser SBase SPrim SDir SScalar SFetch ScanFrame.

Section Skel.
Context {I : Type}.
Notation st := (sc I).
Notation M := (@M I).

(* ---------------- Hoare triples for normal returns ---------------- *)
Definition Tr {A} (P : st -> Prop) (m : M A) (Q : A -> st -> Prop) : Prop :=
  forall s a s', P s -> m s = Ok (a, s') -> Q a s'.

Lemma Tr_bind {A B} P (m : M A) (f : A -> M B) R Q :
  Tr P m R -> (forall a, Tr (R a) (f a) Q) -> Tr P (bind m f) Q.
Proof.
  intros Hm Hf s b s' HP. unfold bind. destruct (m s) as [[a s1]| | |] eqn:E; try discriminate.
  intros H. eapply Hf; [eapply Hm; eauto|exact H].
Qed.
Lemma Tr_conseq {A} (P P' : st -> Prop) (m : M A) (Q Q' : A -> st -> Prop) :
  Tr P' m Q' -> (forall s, P s -> P' s) -> (forall a s, Q' a s -> Q a s) -> Tr P m Q.
Proof. intros H HP HQ s a s' Hs E. apply HQ. eapply H; eauto. Qed.
Lemma Tr_ret {A} (P : st -> Prop) (a : A) (Q : A -> st -> Prop) : (forall s, P s -> Q a s) -> Tr P (ret a) Q.
Proof. intros H s a' s' HP E. inversion E; subst. auto. Qed.
Lemma Tr_fail {A} P e mk (Q : A -> st -> Prop) : Tr P (fail e mk) Q.
Proof. intros s a s' _ E. discriminate. Qed.
Lemma Tr_get_bind {B} P (f : st -> M B) Q :
  (forall s0, Tr (fun s => P s /\ s = s0) (f s0) Q) -> Tr P (bind get f) Q.
Proof. intros H s b s' HP E. unfold bind, get in E. eapply H; eauto. Qed.

(* ---------------- the skeleton invariant ---------------- *)
Fixpoint chain (top : Z) (l : list indent_rec) : Prop :=
  match l with
  | [] => top = (-1)%Z
  | i :: r => (in_indent i < top)%Z /\ chain (in_indent i) r
  end.

Lemma chain_ge l : forall top, chain top l -> (-1 <= top)%Z.
Proof. induction l as [|i r IH]; intros top H; cbn in H; [lia|]. destruct H as [H1 H2]. specialize (IH _ H2). lia. Qed.
Lemma chain_bottom top l : chain top l -> (top <= -1)%Z -> top = (-1)%Z /\ l = [].
Proof.
  destruct l as [|i r]; cbn; [auto|]. intros [H1 H2] H. pose proof (chain_ge _ _ H2). lia.
Qed.
Lemma chain_unroll_nb l : forall ind, chain ind l -> chain (fst (unroll_nb l ind)) (snd (unroll_nb l ind)).
Proof.
  induction l as [|i r IH]; intros ind H; cbn [unroll_nb]; [exact H|].
  destruct (in_needs_block_end i); cbn [fst snd]; [exact H|]. destruct H as [_ H]. apply IH. exact H.
Qed.

Definition SkInv (s : st) : Prop :=
  (if sc_stream_start s then N.of_nat (length (sc_sks s)) = (sc_flow_level s + 1)%N
   else sc_sks s = [] /\ sc_flow_level s = 0%N /\ sc_indents s = [])
  /\ chain (sc_indent s) (sc_indents s)
  /\ N.of_nat (length (sc_ifms s)) = sc_flow_level s.

(* the part that every step after StreamStart preserves, whatever happens to the flow level *)
Definition SkB (s : st) : Prop :=
  sc_stream_start s = true /\ N.of_nat (length (sc_sks s)) = (sc_flow_level s + 1)%N
  /\ chain (sc_indent s) (sc_indents s).

Lemma SkInv_init (i : I) : SkInv (init_sc i).
Proof. unfold SkInv; cbn. auto. Qed.

Lemma SkInv_split s : sc_stream_start s = true ->
  (SkInv s <-> SkB s /\ N.of_nat (length (sc_ifms s)) = sc_flow_level s).
Proof. intros E. unfold SkInv, SkB. rewrite E. tauto. Qed.

(* The headline consequence: outside flow collections there is no implicit-flow-mapping state. *)
Lemma SkInv_ifms_nil s : SkInv s -> sc_flow_level s = 0%N -> sc_ifms s = [].
Proof. intros (_ & _ & H) E. rewrite E in H. destruct (sc_ifms s); [reflexivity|discriminate]. Qed.

(* [Keepk m]: m preserves SkB, the flow level and the depth of the implicit-flow-mapping stack *)
Definition kpost (s s' : st) : Prop :=
  SkB s' /\ sc_flow_level s' = sc_flow_level s /\ length (sc_ifms s') = length (sc_ifms s).
Definition Keepk {A} (m : M A) : Prop := forall s a s', SkB s -> m s = Ok (a, s') -> kpost s s'.

Lemma kpost_refl s : SkB s -> kpost s s.
Proof. unfold kpost; auto. Qed.
Lemma kpost_trans s1 s2 s3 : kpost s1 s2 -> kpost s2 s3 -> kpost s1 s3.
Proof. unfold kpost. intros (A & B & C) (D & E & F). split; [exact D|split; congruence]. Qed.

Lemma Keepk_bind {A B} (m : M A) (f : A -> M B) : Keepk m -> (forall a, Keepk (f a)) -> Keepk (bind m f).
Proof.
  intros Hm Hf s b s' HB. unfold bind. destruct (m s) as [[a s1]| | |] eqn:E; try discriminate.
  intros H. pose proof (Hm _ _ _ HB E) as K1. eapply kpost_trans; [exact K1|]. eapply Hf; [apply K1|exact H].
Qed.
Lemma Keepk_ret {A} (a : A) : Keepk (ret a).
Proof. intros s a' s' HB H. inversion H; subst. apply kpost_refl; auto. Qed.
Lemma Keepk_fail {A} e mk : Keepk (@fail I A e mk).
Proof. intros s a s' _ H. discriminate. Qed.
Lemma Keepk_panic {A} n : Keepk (@panic I A n).
Proof. intros s a s' _ H. discriminate. Qed.
Lemma Keepk_oof {A} : Keepk (@oof I A).
Proof. intros s a s' _ H. discriminate. Qed.
Lemma Keepk_get : Keepk (@get I).
Proof. intros s a s' HB H. inversion H; subst. apply kpost_refl; auto. Qed.
Lemma Keepk_gets {A} (f : st -> A) : Keepk (gets f).
Proof. intros s a s' HB H. inversion H; subst. apply kpost_refl; auto. Qed.

Lemma Keepk_of_Fr {A} (m : M A) : Fr m -> Keepk m.
Proof.
  intros HF s a s' (B1 & B2 & B3) E. destruct (HF _ _ _ E) as (F1 & F2 & F3 & _ & _ & F6 & _ & _ & _ & _ & F11).
  unfold kpost, SkB. rewrite F1, F2, F3, F6. repeat split; auto.
  destruct F11 as [F|F]; cbn [fst snd] in F.
  - inversion F as [[F1' F2']]. rewrite F1', F2'. exact B3.
  - pose proof (chain_unroll_nb _ _ B3) as C. rewrite <- F in C. exact C.
Qed.

(* changes outside the skeleton view *)
Definition vsame (s s' : st) : Prop :=
  sc_sks s' = sc_sks s /\ sc_flow_level s' = sc_flow_level s /\ sc_ifms s' = sc_ifms s
  /\ sc_stream_start s' = sc_stream_start s /\ sc_indent s' = sc_indent s /\ sc_indents s' = sc_indents s.
Lemma kpost_vsame s s' : SkB s -> vsame s s' -> kpost s s'.
Proof.
  intros (B1 & B2 & B3) (V1 & V2 & V3 & V4 & V5 & V6). unfold kpost, SkB. rewrite V1, V2, V3, V4, V5, V6. auto.
Qed.
Lemma Keepk_modify f : (forall s, vsame s (f s)) -> Keepk (modify f).
Proof. intros Hf s a s' HB H. inversion H; subst. apply kpost_vsame; auto. Qed.

Lemma Keepk_push_tok t : Keepk (@push_tok I t).
Proof. apply Keepk_modify. intros s. unfold vsame; cbn; auto 10. Qed.
Lemma Keepk_insert_token n t : Keepk (@insert_token I n t).
Proof.
  intros s a s' HB. unfold insert_token. destruct (insert_at _ _ _); try discriminate.
  intros H; inversion H; subst. apply kpost_vsame; auto. unfold vsame; cbn; auto 10.
Qed.
Lemma Keepk_allow : Keepk (@allow_simple_key I).
Proof. apply Keepk_modify. intros s. unfold vsame; cbn; auto 10. Qed.
Lemma Keepk_disallow : Keepk (@disallow_simple_key I).
Proof. apply Keepk_modify. intros s. unfold vsame; cbn; auto 10. Qed.

(* ---------------- simple keys ---------------- *)
Lemma sks_nonempty s : SkB s -> sc_sks s <> [].
Proof. intros (_ & H & _) E. rewrite E in H. cbn in H. lia. Qed.

Lemma kpost_set_sks s l : SkB s -> length l = length (sc_sks s) -> kpost s (set_sks l s).
Proof. intros (B1 & B2 & B3) H. unfold kpost, SkB; cbn. rewrite H. auto. Qed.

Lemma Keepk_save_simple_key : Keepk (@save_simple_key I).
Proof.
  intros s a s' HB. pose proof (sks_nonempty _ HB) as NE.
  unfold save_simple_key, bind, get, put, ret, panic.
  destruct (sc_ska s); [|intros H; inversion H; subst; apply kpost_refl; auto].
  destruct (_ && _).
  - destruct (sc_indents s); [discriminate|]. intros H; inversion H; subst.
    apply kpost_set_sks; auto. destruct (sc_sks s); [congruence|reflexivity].
  - intros H; inversion H; subst. apply kpost_set_sks; auto. destruct (sc_sks s); [congruence|reflexivity].
Qed.

Lemma Keepk_remove_simple_key : Keepk (@remove_simple_key I).
Proof.
  intros s a s' HB. unfold remove_simple_key, bind, get, put, fail, panic.
  destruct (sc_sks s) as [|k r] eqn:E; [discriminate|]. destruct (_ && _); [discriminate|].
  intros H; inversion H; subst. apply kpost_set_sks; auto. rewrite E. reflexivity.
Qed.

Lemma Keepk_stale_simple_keys : Keepk (@stale_simple_keys I).
Proof.
  intros s a s' HB. unfold stale_simple_keys, bind, get, put, fail.
  destruct (existsb _ _); [discriminate|]. intros H; inversion H; subst.
  apply kpost_set_sks; auto. apply map_length.
Qed.

(* ---------------- indentation ---------------- *)
Lemma kpost_set_indent s ind inds : SkB s -> chain ind inds -> kpost s (set_indent ind inds s).
Proof. intros (B1 & B2 & B3) H. unfold kpost, SkB; cbn. auto. Qed.

(* unroll_indent: exact shape of the result *)
Lemma unroll_indent_go_spec fuel col : forall (s s' : st),
  chain (sc_indent s) (sc_indents s) ->
  unroll_indent_go fuel col s = Ok (tt, s') ->
  exists ind inds toks, s' = set_tokens (sc_tokens s ++ toks) (set_indent ind inds s) /\ chain ind inds /\ (ind <= col)%Z
                        /\ Forall (fun t => snd t = TBlockEnd) toks.
Proof.
  induction fuel as [|fuel IH]; intros s s' HC; cbn [unroll_indent_go]; [discriminate|].
  unfold bind at 1, get at 1. destruct (col <? sc_indent s)%Z eqn:EC.
  - destruct (sc_indents s) as [|i r] eqn:EI; [discriminate|].
    destruct HC as [HC1 HC2].
    unfold bind at 1, put at 1.
    destruct (in_needs_block_end i).
    + unfold bind at 1, push_tok at 1, modify at 1. intros H.
      apply IH in H; [|cbn; exact HC2]. destruct H as (ind & inds & toks & -> & H1 & H2 & H3).
      exists ind, inds, ((span_empty (sc_mark s), TBlockEnd) :: toks). cbn. rewrite <- app_assoc. cbn.
      repeat split; auto.
    + unfold bind at 1, ret at 1. intros H.
      apply IH in H; [|cbn; exact HC2]. destruct H as (ind & inds & toks & -> & H1 & H2 & H3).
      exists ind, inds, toks. cbn. repeat split; auto.
  - unfold ret. intros H. assert (Es : s' = s) by (inversion H; reflexivity). subst s'. clear H.
    exists (sc_indent s), (sc_indents s), []. rewrite app_nil_r.
    repeat split; auto; [destruct s; reflexivity | apply Z.ltb_ge in EC; exact EC].
Qed.

Lemma Keepk_unroll_indent col : Keepk (@unroll_indent I col).
Proof.
  intros s a s' HB. unfold unroll_indent, bind, get.
  destruct (0 <? sc_flow_level s)%N; [intros H; inversion H; subst; apply kpost_refl; auto|].
  destruct a. intros H. apply unroll_indent_go_spec in H; [|apply HB].
  destruct H as (ind & inds & toks & -> & H1 & _).
  destruct HB as (B1 & B2 & B3). unfold kpost, SkB; cbn. auto.
Qed.

Lemma Keepk_roll_indent col num tk mk : Keepk (@roll_indent I col num tk mk).
Proof.
  intros s a s' HB. unfold roll_indent. unfold bind at 1, get at 1.
  destruct (0 <? sc_flow_level s)%N; [intros H; inversion H; subst; apply kpost_refl; auto|].
  assert (HC : forall p, p = (if (sc_indent s <=? Z.of_N col)%Z
                 then match sc_indents s with
                      | i :: r => if negb (in_needs_block_end i) then (in_indent i, r) else (sc_indent s, sc_indents s)
                      | [] => (sc_indent s, sc_indents s)
                      end
                 else (sc_indent s, sc_indents s)) -> chain (fst p) (snd p)).
  { intros p ->. destruct HB as (_ & _ & B3). destruct (_ <=? _)%Z; [|exact B3].
    destruct (sc_indents s) as [|i r]; [exact B3|]. destruct (negb _); [|exact B3]. cbn. apply B3. }
  specialize (HC _ eq_refl). destruct (if (sc_indent s <=? Z.of_N col)%Z then _ else _) as [ind inds]. cbn in HC.
  destruct (ind <? Z.of_N col)%Z eqn:EL.
  - destruct (BLOCK_NESTING_MAX <=? N.of_nat (length inds))%N; [discriminate|].
    assert (K : kpost s (set_indent (Z.of_N col) ({| in_indent := ind; in_needs_block_end := true |} :: inds) s)).
    { apply kpost_set_indent; auto. cbn. split; [apply Z.ltb_lt; exact EL|exact HC]. }
    unfold bind at 1, put at 1. destruct num as [n|].
    + destruct (n <? sc_tokens_parsed s)%N; [discriminate|]. intros H.
      eapply kpost_trans; [exact K|]. eapply Keepk_insert_token; [apply K|exact H].
    + intros H. eapply kpost_trans; [exact K|]. eapply Keepk_push_tok; [apply K|exact H].
  - unfold put. intros H; inversion H; subst. apply kpost_set_indent; auto.
Qed.

Lemma Keepk_roll_one_col_indent : Keepk (@roll_one_col_indent I).
Proof.
  intros s a s' HB. unfold roll_one_col_indent, bind, get, put, ret.
  destruct (_ && _); intros H; inversion H; subst; [|apply kpost_refl; auto].
  apply kpost_set_indent; auto. cbn. split; [lia|apply HB].
Qed.

(* ---------------- the implicit-flow-mapping stack: depth-preserving updates ---------------- *)
Lemma kpost_set_ifms s l : SkB s -> length l = length (sc_ifms s) -> kpost s (set_ifms l s).
Proof. intros (B1 & B2 & B3) H. unfold kpost, SkB; cbn. auto. Qed.

Lemma Keepk_end_implicit_mapping mk : Keepk (@end_implicit_mapping I mk).
Proof.
  intros s a s' HB. unfold end_implicit_mapping. unfold bind at 1, get at 1.
  destruct (sc_ifms s) as [|[| | |] r] eqn:E; try (intros H; inversion H; subst; apply kpost_refl; auto).
  - unfold bind, put, push_tok, modify. intros H; inversion H; subst.
    destruct HB as (B1 & B2 & B3). unfold kpost, SkB; cbn. rewrite E. auto.
  - unfold put. intros H; inversion H; subst. apply kpost_set_ifms; auto. rewrite E; reflexivity.
Qed.

Lemma Keepk_key_ifms : Keepk (modify (fun s : st => match sc_ifms s with
                         | ImPossible :: r => set_ifms (ImInsideExplicitKey :: r) s
                         | _ => s end)).
Proof.
  intros s a s' HB H. inversion H; subst.
  destruct (sc_ifms s) as [|[| | |] r] eqn:E; try (apply kpost_refl; auto).
  apply kpost_set_ifms; auto. rewrite E; reflexivity.
Qed.

Lemma Keepk_value_ifms (b : bool) : forall s0 : st,
  b = (match sc_ifms s0 with ImPossible :: _ => true | _ => false end) ->
  forall s a s', SkB s -> sc_ifms s = sc_ifms s0 ->
  (if b then modify (fun s : st => set_ifms (ImInside :: tl (sc_ifms s)) s) else ret tt) s = Ok (a, s') -> kpost s s'.
Proof.
  intros s0 Hb s a s' HB E. destruct b.
  - intros H; inversion H; subst. apply kpost_set_ifms; auto. rewrite E.
    destruct (sc_ifms s0) as [|[| | |] r]; try discriminate; reflexivity.
  - intros H; inversion H; subst. apply kpost_refl; auto.
Qed.

End Skel.

#[export] Hint Resolve Keepk_ret Keepk_fail Keepk_panic Keepk_oof Keepk_get Keepk_gets Keepk_push_tok Keepk_insert_token
  Keepk_allow Keepk_disallow Keepk_save_simple_key Keepk_remove_simple_key Keepk_stale_simple_keys Keepk_unroll_indent
  Keepk_roll_indent Keepk_roll_one_col_indent Keepk_end_implicit_mapping Keepk_key_ifms : kk.

Ltac kk1 :=
  lazymatch goal with
  | |- Keepk (bind _ _) => apply Keepk_bind; [|intro]
  | |- Keepk (if ?b then _ else _) => destruct b
  | |- Keepk (match ?x with _ => _ end) => destruct x
  | |- Keepk _ => first [assumption | solve [auto with kk] | solve [apply Keepk_of_Fr; auto with fr]]
  end.
Ltac kk := repeat kk1.

(* ================================================================================================ *)
(* the token-level skeleton (Model/SFetch.v)                                                          *)
(* ================================================================================================ *)
Section FetchInv.
Context {I : Type} (ops : InputOps I).
Notation st := (sc I).
Notation M := (@M I).
Variable F : nat.

Lemma kpost_bind {A B} (m : M A) (f : A -> M B) s b s' :
  SkB s -> (forall a s1, m s = Ok (a, s1) -> kpost s s1) -> (forall a, Keepk (f a)) ->
  bind m f s = Ok (b, s') -> kpost s s'.
Proof.
  intros HB Hm Hf. unfold bind. destruct (m s) as [[a s1]| | |] eqn:E; try discriminate.
  intros H. pose proof (Hm _ _ eq_refl) as K1. eapply kpost_trans; [exact K1|]. eapply Hf; [apply K1|exact H].
Qed.

(* every fetch function that does not open or close a flow collection *)
Lemma Keepk_fetch_stream_end : Keepk (fetch_stream_end (I:=I)).
Proof.
  unfold fetch_stream_end. apply Keepk_bind; [apply Keepk_modify; intros s; destruct (_ =? _)%N; unfold vsame; cbn; auto 10|intros _].
  intros s a s' HB. unfold bind at 1, get at 1. destruct (existsb _ _); [discriminate|].
  apply kpost_bind; auto.
  - intros a0 s1 H; inversion H; subst. apply kpost_set_sks; auto. apply map_length.
  - intros _. kk.
Qed.
Lemma Keepk_fetch_directive : Keepk (fetch_directive ops F).
Proof. unfold fetch_directive. kk. Qed.
Lemma Keepk_fetch_tag : Keepk (fetch_tag ops F).
Proof. unfold fetch_tag. kk. Qed.
Lemma Keepk_fetch_anchor alias : Keepk (fetch_anchor ops F alias).
Proof. unfold fetch_anchor. kk. Qed.
Lemma Keepk_fetch_flow_entry : Keepk (fetch_flow_entry ops F).
Proof. unfold fetch_flow_entry. kk. Qed.
Lemma Keepk_fetch_block_entry : Keepk (fetch_block_entry ops F).
Proof. unfold fetch_block_entry. kk. Qed.
Lemma Keepk_fetch_document_indicator t : Keepk (fetch_document_indicator ops t).
Proof. unfold fetch_document_indicator. kk. Qed.
Lemma Keepk_fetch_block_scalar lit : Keepk (fetch_block_scalar ops F lit).
Proof. unfold fetch_block_scalar. kk. Qed.
Lemma Keepk_set_adj : Keepk (modify (fun s : st => set_adj (m_index (sc_mark s)) s)).
Proof. apply Keepk_modify. intros s. unfold vsame; cbn; auto 10. Qed.
Hint Resolve Keepk_set_adj : kk.
Lemma Keepk_fetch_flow_scalar single : Keepk (fetch_flow_scalar ops F single).
Proof. unfold fetch_flow_scalar. kk. Qed.
Lemma Keepk_fetch_plain_scalar : Keepk (fetch_plain_scalar ops F).
Proof. unfold fetch_plain_scalar. kk. Qed.
Lemma Keepk_fetch_key : Keepk (fetch_key ops F).
Proof. unfold fetch_key. kk. Qed.

Lemma Keepk_kill_key : Keepk (modify (fun s : st => match sc_sks s with
                     | k :: r => set_sks ({| sk_possible := false; sk_required := sk_required k;
                                             sk_token_number := sk_token_number k; sk_mark := sk_mark k |} :: r) s
                     | [] => s end)).
Proof.
  intros s a s' HB H. inversion H; subst. destruct (sc_sks s) as [|k r] eqn:E; [apply kpost_refl; auto|].
  apply kpost_set_sks; auto. rewrite E; reflexivity.
Qed.
Hint Resolve Keepk_kill_key : kk.

Lemma Keepk_fetch_value : Keepk (fetch_value ops F).
Proof.
  intros s a s' HB. unfold fetch_value. unfold bind at 1, get at 1.
  destruct (sc_sks s) as [|sk r] eqn:Es; [discriminate|]. unfold bind at 1, ret at 1. cbv zeta.
  apply kpost_bind; auto.
  - intros a0 s1 H. eapply (Keepk_value_ifms _ s eq_refl); eauto.
  - intros _. kk.
Qed.
Lemma Keepk_fetch_flow_value : Keepk (fetch_flow_value ops F).
Proof. unfold fetch_flow_value. kk. apply Keepk_fetch_value. Qed.

(* ---- flow collections: the only places where the flow level and the depth of [sc_ifms] move — together ---- *)
Definition SkP (P : N -> nat -> Prop) (s : st) : Prop := SkB s /\ P (sc_flow_level s) (length (sc_ifms s)).
Definition eqP : N -> nat -> Prop := fun fl n => N.of_nat n = fl.

Lemma Tr_SkP_Keepk {A} P (m : M A) : Keepk m -> Tr (SkP P) m (fun _ => SkP P).
Proof. intros K s a s' [HB HP] E. destruct (K _ _ _ HB E) as (B' & E1 & E2). split; [exact B'|]. rewrite E1, E2. exact HP. Qed.

Lemma Tr_increase P : Tr (SkP P) (@increase_flow_level I) (fun _ => SkP (fun fl n => exists fl0, fl = (fl0 + 1)%N /\ P fl0 n)).
Proof.
  intros s a s' [(B1 & B2 & B3) HP]. unfold increase_flow_level, bind, get, put.
  destruct (_ =? _)%N; [discriminate|]. intros H; inversion H; subst. unfold SkP, SkB; cbn.
  repeat split; auto; [lia|]. exists (sc_flow_level s). auto.
Qed.
Lemma Tr_push_ifms P x : Tr (SkP P) (modify (fun s : st => set_ifms (x :: sc_ifms s) s))
                            (fun _ => SkP (fun fl n => exists n0, n = S n0 /\ P fl n0)).
Proof.
  intros s a s' [(B1 & B2 & B3) HP] H. inversion H; subst. unfold SkP, SkB; cbn. repeat split; auto. eexists; eauto.
Qed.
Lemma Tr_decrease P : Tr (SkP P) (@decrease_flow_level I)
                         (fun _ => SkP (fun fl n => P (fl + 1)%N n \/ (fl = 0%N /\ P 0%N n))).
Proof.
  intros s a s' [(B1 & B2 & B3) HP]. unfold decrease_flow_level, bind, get, put, ret.
  destruct (0 <? sc_flow_level s)%N eqn:E.
  - destruct (sc_sks s) as [|k r] eqn:Es; [discriminate|]. intros H; inversion H; subst. apply N.ltb_lt in E.
    unfold SkP, SkB; cbn. cbn in B2. repeat split; auto; [lia|]. left. replace (sc_flow_level s - 1 + 1)%N with (sc_flow_level s) by lia. exact HP.
  - intros H; inversion H; subst. apply N.ltb_ge in E. assert (E0 : sc_flow_level s' = 0%N) by lia.
    unfold SkP, SkB. repeat split; auto. right. split; [exact E0|]. rewrite <- E0. exact HP.
Qed.
Lemma Tr_pop_ifms P : Tr (SkP P) (modify (fun s : st => set_ifms (tl (sc_ifms s)) s))
                         (fun _ => SkP (fun fl n => exists n0, n = pred n0 /\ P fl n0)).
Proof.
  intros s a s' [(B1 & B2 & B3) HP] H. inversion H; subst. unfold SkP, SkB; cbn. repeat split; auto.
  exists (length (sc_ifms s)). split; [destruct (sc_ifms s); reflexivity|exact HP].
Qed.

Ltac trk := eapply Tr_bind; [apply Tr_SkP_Keepk; solve [kk]|intro; cbv beta].

Lemma Tr_fetch_flow_collection_start seq : Tr (SkP eqP) (fetch_flow_collection_start ops F seq) (fun _ => SkP eqP).
Proof.
  unfold fetch_flow_collection_start.
  trk. trk. eapply Tr_bind; [apply Tr_increase|intro; cbv beta]. trk. trk. trk.
  eapply Tr_bind; [apply Tr_push_ifms|intro; cbv beta]. trk. trk.
  eapply Tr_conseq; [apply Tr_SkP_Keepk; kk|intros ? HH; exact HH|].
  intros _ s [HB (n0 & En & fl0 & E & HP)]. split; [exact HB|]. unfold eqP in *. rewrite E, En. lia.
Qed.

Lemma Keepk_check_flow_closer seq : Keepk (check_flow_closer (I:=I) seq).
Proof.
  intros s a s' HB. unfold check_flow_closer, bind, get.
  destruct (sc_ifms s) as [|st r]; [intros H; inversion H; subst; apply kpost_refl; auto|].
  cbv zeta. destruct (Bool.eqb _ _); [intros H; inversion H; subst; apply kpost_refl; auto|discriminate].
Qed.
Hint Resolve Keepk_check_flow_closer : kk.

Lemma Tr_fetch_flow_collection_end seq : Tr (SkP eqP) (fetch_flow_collection_end ops F seq) (fun _ => SkP eqP).
Proof.
  unfold fetch_flow_collection_end.
  trk. trk. eapply Tr_bind; [apply Tr_decrease|intro; cbv beta]. trk. trk.
  eapply Tr_bind; [apply Tr_pop_ifms|intro; cbv beta]. trk. trk. trk.
  eapply Tr_bind; [apply Tr_SkP_Keepk; apply Keepk_modify; intros s; destruct (_ <? _)%N; unfold vsame; cbn; auto 10|intro; cbv beta].
  trk.
  eapply Tr_conseq; [apply Tr_SkP_Keepk; kk|intros ? HH; exact HH|].
  intros _ s [HB (n0 & En & [HP|[E0 HP]])]; (split; [exact HB|]); unfold eqP in *; rewrite En; [lia|].
  rewrite E0. destruct n0; [reflexivity|discriminate].
Qed.

(* ---- SkInv under frames and view-preserving updates (also before StreamStart) ---- *)
Lemma SkInv_frame (s s' : st) : frame s s' -> SkInv s -> SkInv s'.
Proof.
  intros (F1 & F2 & F3 & _ & _ & F6 & _ & _ & _ & _ & F11) (I1 & I2 & I3). unfold SkInv.
  rewrite F1, F2, F3, F6. destruct F11 as [Fe|Fu]; cbn [fst snd] in *.
  - inversion Fe as [[E1 E2]]. rewrite E1, E2. auto.
  - pose proof (chain_unroll_nb _ _ I2) as C. rewrite <- Fu in C. cbn [fst snd] in C.
    split; [|split; [exact C|exact I3]].
    destruct (sc_stream_start s); [exact I1|]. destruct I1 as (A1 & A2 & A3). repeat split; auto.
    rewrite A3 in Fu. cbn in Fu. inversion Fu; reflexivity.
Qed.
Lemma SkInv_vsame (s s' : st) : vsame s s' -> SkInv s -> SkInv s'.
Proof. intros (V1 & V2 & V3 & V4 & V5 & V6). unfold SkInv. rewrite V1, V2, V3, V4, V5, V6. auto. Qed.

Lemma Tr_SkInv_Fr {A} (m : M A) : Fr m -> Tr SkInv m (fun _ => SkInv).
Proof. intros HF s a s' HI E. eapply SkInv_frame; eauto. Qed.

Lemma SkInv_SkP s : sc_stream_start s = true -> (SkInv s <-> SkP eqP s).
Proof. intros E. rewrite (SkInv_split _ E). unfold SkP, eqP. tauto. Qed.
Lemma SkP_SkInv s : SkP eqP s -> SkInv s.
Proof. intros H. apply SkInv_SkP; [apply H|exact H]. Qed.

Lemma Tr_fetch_stream_start : Tr (fun s => SkInv s /\ sc_stream_start s = false) (fetch_stream_start (I:=I)) (fun _ => SkInv).
Proof.
  intros s a s' [(I1 & I2 & I3) E]. unfold fetch_stream_start, bind, get, put. intros H; inversion H; subst.
  rewrite E in I1. destruct I1 as (A1 & A2 & A3). unfold SkInv; cbn. rewrite A1, A2, A3 in *. cbn. auto.
Qed.

Lemma Tr_stale_SkInv : Tr SkInv (@stale_simple_keys I) (fun _ => SkInv).
Proof.
  intros s a s' (I1 & I2 & I3). unfold stale_simple_keys, bind, get, put, fail.
  destruct (existsb _ _); [discriminate|]. intros H; inversion H; subst. unfold SkInv; cbn. rewrite map_length.
  split; [|auto]. destruct (sc_stream_start s); [exact I1|]. destruct I1 as (A1 & A2 & A3). rewrite A1. auto.
Qed.

(* the dispatch of fetch_next_token after StreamStart *)
Ltac trd :=
  repeat lazymatch goal with
  | |- Tr _ (bind _ _) _ => trk
  | |- Tr _ (if ?b then _ else _) _ => destruct b
  | |- Tr _ (fail _ _) _ => apply Tr_fail
  end.

Theorem fetch_next_token_SkInv : Tr SkInv (fetch_next_token ops F) (fun _ => SkInv).
Proof.
  unfold fetch_next_token.
  eapply Tr_bind; [apply Tr_SkInv_Fr; auto with fr|intro; cbv beta].
  apply Tr_get_bind. intros s0. destruct (sc_stream_start s0) eqn:ES; cbn [negb].
  2:{ eapply Tr_conseq; [apply Tr_fetch_stream_start| |auto]. intros s [H E]. subst s0. auto. }
  eapply Tr_conseq with (P' := SkP eqP) (Q' := fun _ => SkP eqP);
    [|intros s [H E]; subst s0; apply SkInv_SkP; auto|intros _ s; apply SkP_SkInv].
  trd; try (apply Tr_SkP_Keepk; solve [kk | apply Keepk_fetch_stream_end | apply Keepk_fetch_directive
      | apply Keepk_fetch_document_indicator | apply Keepk_fetch_flow_entry | apply Keepk_fetch_block_entry
      | apply Keepk_fetch_key | apply Keepk_fetch_value | apply Keepk_fetch_flow_value | apply Keepk_fetch_anchor
      | apply Keepk_fetch_tag | apply Keepk_fetch_block_scalar | apply Keepk_fetch_flow_scalar | apply Keepk_fetch_plain_scalar]);
    try apply Tr_fetch_flow_collection_start; try apply Tr_fetch_flow_collection_end.
  all: try (eapply Tr_bind; [apply Tr_SkP_Keepk; apply Keepk_fetch_document_indicator|intro; cbv beta]; trd; apply Tr_SkP_Keepk; kk).
Qed.

Theorem fetch_more_tokens_SkInv fuel : Tr SkInv (fetch_more_tokens ops F fuel) (fun _ => SkInv).
Proof.
  induction fuel as [|fuel IH]; cbn [fetch_more_tokens]; [intros s a s' _ H; discriminate|].
  apply Tr_get_bind. intros s0.
  eapply Tr_bind with (R := fun _ => SkInv).
  - destruct (sc_tokens s0).
    + apply Tr_ret. intros s [H _]; exact H.
    + eapply Tr_bind with (R := fun _ => SkInv); [eapply Tr_conseq; [apply Tr_stale_SkInv|intros s [H _]; exact H|auto]|intro; cbv beta].
      apply Tr_get_bind. intros s1. apply Tr_ret. intros s [H _]; exact H.
  - intros need. destruct need.
    + eapply Tr_bind; [apply fetch_next_token_SkInv|intro; cbv beta; exact IH].
    + intros s a s' HI H. inversion H; subst. eapply SkInv_vsame; [|exact HI]. unfold vsame; cbn; auto 10.
Qed.

Theorem next_token_SkInv : Tr SkInv (next_token ops F) (fun _ => SkInv).
Proof.
  unfold next_token. apply Tr_get_bind. intros s0.
  destruct (sc_stream_end s0); [apply Tr_ret; intros s [H _]; exact H|].
  eapply Tr_bind with (R := fun _ => SkInv).
  - destruct (sc_token_available s0); [apply Tr_ret; intros s [H _]; exact H|].
    eapply Tr_conseq; [apply fetch_more_tokens_SkInv|intros s [H _]; exact H|auto].
  - intros _. apply Tr_get_bind. intros s1. destruct (sc_tokens s1) as [|t r]; [apply Tr_fail|].
    intros s a s' [HI ->]. unfold bind, put, modify, ret.
    destruct (snd t); intros H; inversion H; subst; (eapply SkInv_vsame; [|exact HI]); unfold vsame; cbn; auto 10.
Qed.

(* every state of a scan: the states the Scanner iterator goes through, from any input *)
Inductive reach : st -> Prop :=
| reach_init i : reach (init_sc i)
| reach_next s o s' : reach s -> next_token ops F s = Ok (o, s') -> reach s'.

Theorem reach_SkInv s : reach s -> SkInv s.
Proof. induction 1 as [i|s o s' _ IH E]; [apply SkInv_init|eapply next_token_SkInv; eauto]. Qed.

Corollary reach_no_flow_state_outside_flow s : reach s -> sc_flow_level s = 0%N -> sc_ifms s = [].
Proof. intros H. apply SkInv_ifms_nil, reach_SkInv, H. Qed.

(* k steps of fetch_next_token (for examples and for stating facts about intermediate states) *)
Fixpoint fetches (k : nat) (s : st) : option st :=
  match k with
  | O => Some s
  | S k => match fetch_next_token ops F s with Ok (_, s') => fetches k s' | _ => None end
  end.
Lemma fetches_SkInv k : forall s s', SkInv s -> fetches k s = Some s' -> SkInv s'.
Proof.
  induction k as [|k IH]; intros s s' HI; cbn [fetches]; [intros H; inversion H; subst; exact HI|].
  destruct (fetch_next_token ops F s) as [[a s1]| | |] eqn:E; try discriminate.
  apply IH. eapply fetch_next_token_SkInv; eauto.
Qed.

End FetchInv.

(* ================================================================================================ *)
(* what a document marker leaves behind                                                              *)
(* ================================================================================================ *)
Section Exact.
(* frames that moreover keep [sc_ska] and the line number: white space and comments up to the end of a line *)
Context {I : Type}.
Notation st := (sc I).
Notation M := (@M I).
Definition xframe (s s' : st) : Prop :=
  frame s s' /\ sc_ska s' = sc_ska s /\ m_line (sc_mark s') = m_line (sc_mark s).
Definition XFr {A} (m : M A) : Prop := forall s a s', m s = Ok (a, s') -> xframe s s'.
Lemma xframe_refl s : xframe s s.
Proof. split; [apply frame_refl|auto]. Qed.
Lemma xframe_trans s1 s2 s3 : xframe s1 s2 -> xframe s2 s3 -> xframe s1 s3.
Proof. intros (A & B & C) (D & E & G). split; [eapply frame_trans; eauto|split; congruence]. Qed.
Lemma XFr_bind {A B} (m : M A) (f : A -> M B) : XFr m -> (forall a, XFr (f a)) -> XFr (bind m f).
Proof.
  intros Hm Hf s b s'. unfold bind. destruct (m s) as [[a s1]| | |] eqn:E; try discriminate.
  intros H. eapply xframe_trans; [eapply Hm; eauto | eapply Hf; eauto].
Qed.
Lemma XFr_ret {A} (a : A) : XFr (ret a).
Proof. intros s a' s' H. inversion H; subst. apply xframe_refl. Qed.
Lemma XFr_fail {A} e mk : XFr (@fail I A e mk).
Proof. intros s a s' H. discriminate. Qed.
Lemma XFr_oof {A} : XFr (@oof I A).
Proof. intros s a s' H. discriminate. Qed.
Lemma XFr_gets {A} (f : st -> A) : XFr (gets f).
Proof. intros s a s' H. inversion H; subst. apply xframe_refl. Qed.
Lemma xframe_set_in i (s : st) : xframe s (set_in i s).
Proof. split; [apply frame_set_in|cbn; auto]. Qed.
Context (ops : InputOps I).
Lemma XFr_look n : XFr (look ops n).
Proof.
  intros s a s'. unfold look. destruct (lookahead ops n (sc_in s)); try discriminate.
  intros H; inversion H; subst. apply xframe_set_in.
Qed.
Lemma XFr_peekn n : XFr (peekn ops n).
Proof.
  intros s a s'. unfold peekn. destruct (peek_nth ops n (sc_in s)); try discriminate.
  intros H; inversion H; subst. apply xframe_refl.
Qed.
Lemma XFr_peek : XFr (SPrim.peek ops).
Proof. apply XFr_peekn. Qed.
Lemma XFr_look_ch : XFr (look_ch ops).
Proof. unfold look_ch. apply XFr_bind; [apply XFr_look|intro; apply XFr_peek]. Qed.
Lemma XFr_in_skip : XFr (in_skip ops).
Proof. intros s a s' H. inversion H; subst. apply xframe_set_in. Qed.
Lemma XFr_adv_mark n : XFr (@adv_mark I n).
Proof. intros s a s' H. inversion H; subst. split; [apply frame_set_mark|cbn; auto]. Qed.
Lemma XFr_mark : XFr (@mark I).
Proof. apply XFr_gets. Qed.
End Exact.

#[export] Hint Resolve XFr_ret XFr_fail XFr_oof XFr_gets XFr_look XFr_peekn XFr_peek XFr_look_ch XFr_in_skip XFr_adv_mark
  XFr_mark : xfr.
Ltac xfr1 :=
  lazymatch goal with
  | |- XFr (bind _ _) => apply XFr_bind; [|intro]
  | |- XFr (if ?b then _ else _) => destruct b
  | |- XFr (match ?x with _ => _ end) => destruct x
  | |- XFr _ => first [assumption | solve [auto with xfr]]
  end.
Ltac xfr := repeat xfr1.

Section Reset.
Context {I : Type} (ops : InputOps I).
Notation st := (sc I).
Notation M := (@M I).
Variable F : nat.

Lemma XFr_skip_blank : XFr (skip_blank ops).
Proof. unfold skip_blank. xfr. Qed.
Lemma XFr_next_is p : XFr (next_is ops p).
Proof. unfold next_is. xfr. Qed.
Lemma XFr_in_skip_ws_to_eol fuel : forall stb tab ws n, XFr (in_skip_ws_to_eol ops fuel stb tab ws n).
Proof.
  induction fuel as [|fuel IH]; intros stb tab ws n; cbn [in_skip_ws_to_eol]; [apply XFr_oof|].
  assert (HC : forall f k, XFr ((fix comment (f : nat) (k : N) : M (N * option (bool * bool)) :=
           match f with
           | O => oof
           | S f => bind (look_ch ops) (fun c => if is_breakz c then in_skip_ws_to_eol ops fuel stb tab ws (k + 1)
                                    else bind (in_skip ops) (fun _ => comment f (k + 1)))
           end) f k)).
  { induction f as [|f IHf]; intros k; [apply XFr_oof|]. xfr. }
  xfr.
Qed.
Hint Resolve XFr_skip_blank XFr_next_is XFr_in_skip_ws_to_eol : xfr.
Lemma XFr_skip_ws_to_eol fuel stb : XFr (skip_ws_to_eol ops fuel stb).
Proof. unfold skip_ws_to_eol. xfr. Qed.
Lemma XFr_in_skip_while_non_breakz fuel : XFr (in_skip_while_non_breakz ops fuel).
Proof.
  unfold in_skip_while_non_breakz, in_skip_while. generalize 0%N. induction fuel as [|f IH]; intros k; [apply XFr_oof|]. xfr.
Qed.
Hint Resolve XFr_skip_ws_to_eol XFr_in_skip_while_non_breakz : xfr.

(* ---- the configuration after a document marker ---- *)
Definition marker_config (s : st) : Prop :=
  sc_stream_start s = true /\ sc_indent s = (-1)%Z /\ sc_indents s = [] /\ sc_flow_level s = 0%N /\ sc_ifms s = []
  /\ (exists k, sc_sks s = [k] /\ sk_possible k = false).

(* it is the configuration right after StreamStart *)
Lemma stream_start_config (i : I) s' :
  fetch_stream_start (init_sc i) = Ok (tt, s') -> marker_config s' /\ sc_ska s' = true.
Proof.
  unfold fetch_stream_start, bind, get, put. intros H; inversion H; subst. unfold marker_config; cbn.
  repeat split; auto. eexists; split; reflexivity.
Qed.

Lemma marker_config_SkInv s : marker_config s -> SkInv s.
Proof.
  intros (A1 & A2 & A3 & A4 & A5 & k & A6 & A7). unfold SkInv. rewrite A1, A2, A3, A4, A5, A6. cbn. auto.
Qed.

Lemma marker_config_xframe s s' : xframe s s' -> marker_config s -> marker_config s' /\ sc_ska s' = sc_ska s.
Proof.
  intros ((F1 & F2 & F3 & _ & _ & F6 & _ & _ & _ & _ & F11) & X1 & _) (A1 & A2 & A3 & A4 & A5 & A6).
  split; [|exact X1]. unfold marker_config. rewrite F1, F2, F3, F6.
  assert (E : (sc_indent s', sc_indents s') = ((-1)%Z, [])).
  { destruct F11 as [E|E]; rewrite E; cbn [fst snd]; rewrite A2, A3; reflexivity. }
  inversion E. auto 10.
Qed.

Lemma skip_n_non_blank_shape n (s : st) a s' :
  skip_n_non_blank ops n s = Ok (a, s') -> exists i m, s' = set_lws false (set_mark m (set_in i s)).
Proof.
  unfold skip_n_non_blank, bind, in_skip_n, adv_mark, modify.
  destruct (skip_n ops n (sc_in s)) as [i| | |]; try discriminate.
  intros H; inversion H; subst. eexists _, _. reflexivity.
Qed.

Definition block_ends (toks : list token) : Prop := Forall (fun t => snd t = TBlockEnd) toks.

(* (2) of the header: fetch_document_indicator at flow level 0 *)
Theorem fetch_document_indicator_resets t (s s' : st) :
  SkInv s -> sc_stream_start s = true -> sc_flow_level s = 0%N ->
  fetch_document_indicator ops t s = Ok (tt, s') ->
  marker_config s' /\ sc_ska s' = false
  /\ exists toks sp, sc_tokens s' = sc_tokens s ++ toks ++ [(sp, t)] /\ block_ends toks.
Proof.
  intros HI ES EF. pose proof (SkInv_ifms_nil _ HI EF) as EM.
  destruct HI as (I1 & I2 & I3). rewrite ES, EF in I1.
  unfold fetch_document_indicator.
  unfold bind at 1. destruct (unroll_indent (-1)%Z s) as [[[] s1]| | |] eqn:EU; try discriminate.
  unfold unroll_indent, bind, get in EU. rewrite EF in EU. cbn [N.ltb N.compare] in EU.
  apply unroll_indent_go_spec in EU; [|exact I2]. destruct EU as (ind & inds & toks & -> & C1 & C2 & C3).
  destruct (chain_bottom _ _ C1 C2) as [-> ->].
  unfold bind at 1. unfold remove_simple_key at 1, bind at 1, get at 1. cbn [sc_sks set_tokens set_indent set_struct upd].
  destruct (sc_sks s) as [|k [|k2 r]] eqn:EK; cbn in I1; try lia.
  destruct (sk_possible k && sk_required k); [discriminate|]. cbn [put].
  unfold bind at 1, disallow_simple_key at 1, modify at 1.
  unfold bind at 1, mark at 1, gets at 1.
  unfold bind at 1.
  match goal with |- context [skip_n_non_blank ops 3 ?x] => destruct (skip_n_non_blank ops 3 x) as [[[] s2]| | |] eqn:E2; try discriminate end.
  apply skip_n_non_blank_shape in E2. destruct E2 as (i & m & ->).
  unfold bind, mark, gets, push_tok, modify. intros H; inversion H; subst; clear H.
  unfold marker_config; cbn. rewrite ES, EF, EM. repeat split; auto.
  - eexists; split; reflexivity.
  - eexists toks, _. rewrite <- app_assoc. split; [reflexivity|exact C3].
Qed.

(* ---- which tokens a step can put at the end of the queue ---- *)
Definition is_marker (t : tok) : bool := match t with TDocumentStart | TDocumentEnd => true | _ => false end.
Definition last_tok (P : tok -> Prop) (s : st) : Prop := exists l sp tk, sc_tokens s = l ++ [(sp, tk)] /\ P tk.
Definition Ends {A} (P : tok -> Prop) (m : M A) : Prop := forall s a s', m s = Ok (a, s') -> last_tok P s'.
Definition Res {A} (R : A -> Prop) (m : M A) : Prop := forall s a s', m s = Ok (a, s') -> R a.

Lemma Res_bind {A B} R (m : M A) (f : A -> M B) : (forall a, Res R (f a)) -> Res R (bind m f).
Proof. intros Hf s b s'. unfold bind. destruct (m s) as [[a s1]| | |]; try discriminate. apply Hf. Qed.
Lemma Res_bind2 {A B} R' R (m : M A) (f : A -> M B) : Res R' m -> (forall a, R' a -> Res R (f a)) -> Res R (bind m f).
Proof.
  intros Hm Hf s b s'. unfold bind. destruct (m s) as [[a s1]| | |] eqn:E; try discriminate. apply Hf. eapply Hm; eauto.
Qed.
Lemma Res_ret {A} (R : A -> Prop) a : R a -> Res R (@ret I A a).
Proof. intros H s a' s' E. inversion E; subst. exact H. Qed.
Lemma Res_fail {A} (R : A -> Prop) e mk : Res R (@fail I A e mk).
Proof. intros s a s' E. discriminate. Qed.
Lemma Res_oof {A} (R : A -> Prop) : Res R (@oof I A).
Proof. intros s a s' E. discriminate. Qed.

Lemma Ends_bind {A B} P (m : M A) (f : A -> M B) : (forall a, Ends P (f a)) -> Ends P (bind m f).
Proof. intros Hf s b s'. unfold bind. destruct (m s) as [[a s1]| | |]; try discriminate. apply Hf. Qed.
Lemma Ends_bind2 {A B} R P (m : M A) (f : A -> M B) : Res R m -> (forall a, R a -> Ends P (f a)) -> Ends P (bind m f).
Proof.
  intros Hm Hf s b s'. unfold bind. destruct (m s) as [[a s1]| | |] eqn:E; try discriminate. apply Hf. eapply Hm; eauto.
Qed.
Lemma Ends_push_tok (P : tok -> Prop) t : P (snd t) -> Ends P (@push_tok I t).
Proof. intros H s a s' E. inversion E; subst. destruct t as [sp tk]. exists (sc_tokens s), sp, tk. cbn. auto. Qed.
Lemma Ends_fail {A} P e mk : Ends P (@fail I A e mk).
Proof. intros s a s' E. discriminate. Qed.

Definition nonmarker (t : tok) : Prop := is_marker t = false.
Definition tk_nonmarker (t : token) : Prop := is_marker (snd t) = false.

End Reset.

Ltac rs1 :=
  lazymatch goal with
  | |- Res _ (bind _ _) => apply Res_bind; intro
  | |- Res _ (if ?b then _ else _) => destruct b
  | |- Res _ (match ?x with _ => _ end) => destruct x
  | |- Res _ (ret _) => apply Res_ret; reflexivity
  | |- Res _ (fail _ _) => apply Res_fail
  | |- Res _ oof => apply Res_oof
  end.
Ltac rs := repeat rs1.
Ltac en1 :=
  lazymatch goal with
  | |- Ends _ (bind _ _) => first [eapply Ends_bind2; [solve [eauto with res]|intros ? ?] | apply Ends_bind; intro]
  | |- Ends _ (if ?b then _ else _) => destruct b
  | |- Ends _ (match ?x with _ => _ end) => destruct x
  | |- Ends _ (push_tok _) => apply Ends_push_tok; first [reflexivity|assumption]
  | |- Ends _ (fail _ _) => apply Ends_fail
  end.
Ltac en := repeat en1.

Section Marker.
Context {I : Type} (ops : InputOps I).
Notation st := (sc I).
Notation M := (@M I).
Variable F : nat.

(* the character-level scanners never return a document marker token *)
Lemma Res_scan_directive : Res (@tk_nonmarker) (scan_directive ops F).
Proof.
  unfold scan_directive. apply Res_bind; intro. apply Res_bind; intro. apply Res_bind; intro.
  eapply Res_bind2 with (R' := @tk_nonmarker).
  - destruct (str_eqb _ _); [unfold scan_version_directive_value; rs|].
    destruct (str_eqb _ _); [unfold scan_tag_directive_value; rs|]. rs.
  - intros tk Htk. apply Res_bind; intro. apply Res_bind; intro. destruct a3; [|apply Res_fail].
    apply Res_bind; intro. apply Res_bind; intro. apply Res_ret. exact Htk.
Qed.
Lemma Res_scan_tag : Res (@tk_nonmarker) (scan_tag ops F).
Proof. unfold scan_tag. rs. Qed.
Lemma Res_scan_anchor alias : Res (@tk_nonmarker) (scan_anchor ops F alias).
Proof. unfold scan_anchor. destruct alias; rs. Qed.
Lemma Res_scan_flow_scalar single : Res (@tk_nonmarker) (scan_flow_scalar ops F single).
Proof. unfold scan_flow_scalar. destruct single; rs. Qed.
Lemma Res_scan_plain_scalar : Res (@tk_nonmarker) (scan_plain_scalar ops F).
Proof. unfold scan_plain_scalar. rs. Qed.
Lemma Res_scan_block_scalar literal : Res (@tk_nonmarker) (scan_block_scalar ops F literal).
Proof. unfold scan_block_scalar. destruct literal; rs. Qed.

Hint Resolve Res_scan_directive Res_scan_tag Res_scan_anchor Res_scan_flow_scalar Res_scan_plain_scalar Res_scan_block_scalar : res.

Lemma Ends_fetch_stream_start : Ends nonmarker (fetch_stream_start (I:=I)).
Proof.
  intros s a s'. unfold fetch_stream_start, bind, get, put. intros H; inversion H; subst.
  eexists _, _, _. cbn. split; reflexivity.
Qed.
Lemma Ends_fetch_stream_end : Ends nonmarker (fetch_stream_end (I:=I)).
Proof. unfold fetch_stream_end. en. Qed.
Lemma Ends_fetch_directive : Ends nonmarker (fetch_directive ops F).
Proof. unfold fetch_directive. en. Qed.
Lemma Ends_fetch_tag : Ends nonmarker (fetch_tag ops F).
Proof. unfold fetch_tag. en. Qed.
Lemma Ends_fetch_anchor alias : Ends nonmarker (fetch_anchor ops F alias).
Proof. unfold fetch_anchor. en. Qed.
Lemma Ends_fetch_flow_collection_start seq : Ends nonmarker (fetch_flow_collection_start ops F seq).
Proof. unfold fetch_flow_collection_start. en. apply Ends_push_tok. destruct seq; reflexivity. Qed.
Lemma Ends_fetch_flow_collection_end seq : Ends nonmarker (fetch_flow_collection_end ops F seq).
Proof. unfold fetch_flow_collection_end. en; apply Ends_push_tok; destruct seq; reflexivity. Qed.
Lemma Ends_fetch_flow_entry : Ends nonmarker (fetch_flow_entry ops F).
Proof. unfold fetch_flow_entry. en. Qed.
Lemma Ends_fetch_block_entry : Ends nonmarker (fetch_block_entry ops F).
Proof. unfold fetch_block_entry. en. Qed.
Lemma Ends_fetch_block_scalar lit : Ends nonmarker (fetch_block_scalar ops F lit).
Proof. unfold fetch_block_scalar. en. Qed.
Lemma Ends_fetch_flow_scalar single : Ends nonmarker (fetch_flow_scalar ops F single).
Proof.
  unfold fetch_flow_scalar. en.
Qed.
Lemma Ends_fetch_plain_scalar : Ends nonmarker (fetch_plain_scalar ops F).
Proof. unfold fetch_plain_scalar. en. Qed.
Lemma Ends_fetch_key : Ends nonmarker (fetch_key ops F).
Proof. unfold fetch_key. en. Qed.
Lemma Ends_fetch_value : Ends nonmarker (fetch_value ops F).
Proof. unfold fetch_value. en. Qed.
Lemma Ends_fetch_flow_value : Ends nonmarker (fetch_flow_value ops F).
Proof. unfold fetch_flow_value. en. apply Ends_fetch_value. Qed.

(* the postcondition: a marker token at the end of the queue at flow level 0 means the marker configuration *)
Definition marker_post (s' : st) : Prop :=
  sc_flow_level s' = 0%N -> last_tok (fun tk => is_marker tk = true) s' -> marker_config s' /\ sc_ska s' = false.

Lemma last_tok_unique (P Q : tok -> Prop) (s : st) : last_tok P s -> last_tok Q s -> exists tk, P tk /\ Q tk.
Proof.
  intros (l & sp & tk & E & H) (l' & sp' & tk' & E' & H'). rewrite E in E'. apply app_inj_tail in E'.
  destruct E' as [_ E']. inversion E'; subst. eauto.
Qed.

Lemma Tr_Ends {A} P (m : M A) : Ends nonmarker m -> Tr P m (fun _ => marker_post).
Proof.
  intros HE s a s' _ E _ HL. destruct (last_tok_unique _ _ _ (HE _ _ _ E) HL) as (tk & H1 & H2).
  unfold nonmarker in H1. congruence.
Qed.

Lemma Tr_marker_start : Tr (SkP eqP) (fetch_document_indicator ops TDocumentStart) (fun _ => marker_post).
Proof.
  intros s a s' HP E EF _. pose proof (Keepk_fetch_document_indicator ops _ _ _ _ (proj1 HP) E) as (_ & EF' & _).
  destruct a. apply (fetch_document_indicator_resets ops) in E; [tauto|apply SkP_SkInv; exact HP|apply HP|congruence].
Qed.

Lemma Tr_marker_end :
  Tr (SkP eqP)
     (bind (fetch_document_indicator ops TDocumentEnd) (fun _ => bind (skip_ws_to_eol ops F SkipYes) (fun _ =>
        bind (next_is ops is_breakz) (fun b => if b then ret tt else bind mark (fun m => fail 101 m)))))
     (fun _ => marker_post).
Proof.
  intros s a s' HP. unfold bind at 1.
  destruct (fetch_document_indicator ops TDocumentEnd s) as [[[] s1]| | |] eqn:E1; try discriminate.
  pose proof (Keepk_fetch_document_indicator ops _ _ _ _ (proj1 HP) E1) as (_ & EF1 & _).
  intros E2 EF _.
  assert (X : xframe s1 s').
  { revert E2. apply (XFr_bind (skip_ws_to_eol ops F SkipYes)); [apply XFr_skip_ws_to_eol|intro].
    apply XFr_bind; [apply XFr_next_is|intro b]. destruct b; [apply XFr_ret|]. apply XFr_bind; [apply XFr_mark|intro; apply XFr_fail]. }
  assert (EF0 : sc_flow_level s = 0%N).
  { destruct X as ((_ & F2 & _) & _). congruence. }
  apply (fetch_document_indicator_resets ops) in E1; [|apply SkP_SkInv; exact HP|apply HP|exact EF0].
  destruct E1 as (C & K & _). destruct (marker_config_xframe _ _ X C) as [C' K']. split; [exact C'|congruence].
Qed.

(* (2) for whole steps: whenever fetch_next_token queues a document marker outside flow collections, the skeleton is
   the marker configuration — whatever the earlier documents contained *)
Theorem fetch_next_token_marker : Tr SkInv (fetch_next_token ops F) (fun _ => marker_post).
Proof.
  unfold fetch_next_token.
  eapply Tr_bind; [apply Tr_SkInv_Fr; auto with fr|intro; cbv beta].
  apply Tr_get_bind. intros s0. destruct (sc_stream_start s0) eqn:ES; cbn [negb].
  2:{ apply Tr_Ends. apply Ends_fetch_stream_start. }
  eapply Tr_conseq with (P' := SkP eqP) (Q' := fun _ => marker_post);
    [|intros s [H E]; subst s0; apply SkInv_SkP; auto|auto].
  repeat lazymatch goal with
  | |- Tr _ (bind (fetch_document_indicator _ _) _) _ => fail
  | |- Tr _ (bind _ _) _ => eapply Tr_bind; [apply Tr_SkP_Keepk; solve [kk]|intro; cbv beta]
  | |- Tr _ (if ?b then _ else _) _ => destruct b
  | |- Tr _ (fail _ _) _ => apply Tr_fail
  end.
  all: try (apply Tr_Ends; solve [ apply Ends_fetch_stream_end | apply Ends_fetch_directive | apply Ends_fetch_flow_collection_start
      | apply Ends_fetch_flow_collection_end | apply Ends_fetch_flow_entry | apply Ends_fetch_block_entry | apply Ends_fetch_key
      | apply Ends_fetch_value | apply Ends_fetch_flow_value | apply Ends_fetch_anchor | apply Ends_fetch_tag
      | apply Ends_fetch_block_scalar | apply Ends_fetch_flow_scalar | apply Ends_fetch_plain_scalar ]).
  all: try apply Tr_marker_start.
  all: apply Tr_marker_end.
Qed.

(* ---- after the line break that follows the marker line, simple keys are allowed again: the skeleton is then
        exactly the one the scanner had after StreamStart ---- *)
Lemma skip_to_next_token_newline fuel : forall (s s' : st),
  sc_flow_level s = 0%N -> skip_to_next_token ops fuel s = Ok (tt, s') ->
  sc_ska s' = true \/ (sc_ska s' = sc_ska s /\ m_line (sc_mark s') = m_line (sc_mark s)).
Proof.
  induction fuel as [|fuel IH]; intros s s' EF; cbn [skip_to_next_token]; [discriminate|].
  unfold bind at 1. destruct (look_ch ops s) as [[c s1]| | |] eqn:E1; try discriminate.
  pose proof (XFr_look_ch ops _ _ _ E1) as X1.
  assert (EF1 : sc_flow_level s1 = 0%N) by (destruct X1 as ((_ & F2 & _) & _); congruence).
  unfold bind at 1, get at 1. unfold bind at 1, is_within_block at 1, gets at 1.
  assert (G : forall s2, xframe s1 s2 -> skip_to_next_token ops fuel s2 = Ok (tt, s') ->
              sc_ska s' = true \/ (sc_ska s' = sc_ska s /\ m_line (sc_mark s') = m_line (sc_mark s))).
  { intros s2 X2 E. pose proof (xframe_trans _ _ _ X1 X2) as (( _ & F2 & _) & K & L).
    apply IH in E; [|congruence]. destruct E as [E|[Ea Eb]]; [left; exact E|right; split; congruence]. }
  destruct (_ && _ && _ && _).
  - unfold bind at 1. destruct (skip_ws_to_eol ops (S fuel) SkipYes s1) as [[tw s2]| | |] eqn:E2; try discriminate.
    pose proof (XFr_skip_ws_to_eol ops _ _ _ _ _ E2) as X2.
    unfold bind at 1. destruct (next_is ops is_breakz s2) as [[b s3]| | |] eqn:E3; try discriminate.
    pose proof (XFr_next_is ops _ _ _ _ E3) as X3.
    destruct b; [|unfold bind, mark, gets, fail; discriminate].
    apply G. eapply xframe_trans; eauto.
  - destruct ((c =? 9)%N || (c =? 32)%N).
    + unfold bind at 1. destruct (skip_blank ops s1) as [[[] s2]| | |] eqn:E2; try discriminate.
      apply G. eapply XFr_skip_blank; eauto.
    + destruct ((c =? 10)%N || (c =? 13)%N).
      * (* a line break at flow level 0: simple keys become allowed and stay so *)
        unfold bind at 1. destruct (look ops 2 s1) as [[[] s2]| | |] eqn:E2; try discriminate.
        unfold bind at 1. destruct (skip_linebreak ops s2) as [[[] s3]| | |] eqn:E3; try discriminate.
        pose proof (Fr_look ops _ _ _ _ E2) as (_ & G2 & _). pose proof (Fr_skip_linebreak ops _ _ _ E3) as (_ & G3 & _).
        unfold bind at 1, flow_level at 1, gets at 1.
        replace (sc_flow_level s3) with 0%N by congruence. cbn [N.eqb].
        unfold bind at 1, allow_simple_key at 1, modify at 1. intros E4. left.
        pose proof (Fr_skip_to_next_token ops _ _ _ _ E4) as (_ & _ & _ & _ & _ & _ & _ & _ & _ & K & _).
        apply K. reflexivity.
      * destruct (c =? 35)%N.
        -- unfold bind at 1. destruct (in_skip_while_non_breakz ops (S fuel) s1) as [[n s2]| | |] eqn:E2; try discriminate.
           pose proof (XFr_in_skip_while_non_breakz ops _ _ _ _ E2) as X2.
           unfold bind at 1, adv_mark at 1, modify at 1. apply G.
           eapply xframe_trans; [exact X2|]. eapply (XFr_adv_mark n); reflexivity.
        -- unfold ret. intros H; inversion H; subst. right. destruct X1 as (_ & K & L). auto.
Qed.

Theorem marker_then_newline fuel (s s' : st) :
  marker_config s -> skip_to_next_token ops fuel s = Ok (tt, s') ->
  m_line (sc_mark s') <> m_line (sc_mark s) ->
  marker_config s' /\ sc_ska s' = true.
Proof.
  intros C E NL. pose proof C as (_ & _ & _ & EF & _).
  destruct (skip_to_next_token_newline _ _ _ EF E) as [K|[_ L]]; [|congruence].
  split; [|exact K].
  pose proof (Fr_skip_to_next_token ops _ _ _ _ E) as (F1 & F2 & F3 & _ & _ & F6 & _ & _ & _ & _ & F11).
  destruct C as (A1 & A2 & A3 & A4 & A5 & A6). unfold marker_config. rewrite F1, F2, F3, F6.
  assert (E' : (sc_indent s', sc_indents s') = ((-1)%Z, [])).
  { destruct F11 as [E'|E']; rewrite E'; cbn [fst snd]; rewrite A2, A3; reflexivity. }
  inversion E'. auto 10.
Qed.

End Marker.
