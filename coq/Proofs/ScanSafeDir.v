(* Joint proof "the scanner never panics on a buffered input of any capacity >= 8" (see SCANSAFE.md):
   the family of directives, tags and anchors (Model/SDir.v).

   Every function of the family only reads / consumes input and moves the mark, so every lemma below has the
   "accumulated" form
       keeps s0 s -> (forall r s', keeps s0 s' -> <buffered length> -> Q r s') -> wp (f ...) Q s
   ([s0] is the state the enclosing entry point started from).  The modelled u32-overflow panic (site 120) in
   [scan_version_directive_number] is shown unreachable with the loop invariant [val < 10 ^ len]. *)
From Coq Require Import List NArith ZArith Bool Arith Lia.
Import ListNotations.
Require Import Parser SBase SPrim SDir SScalar SFetch SBuf ScanWP.
Local Open Scope nat_scope.
Arguments Nat.ltb : simpl never.
Arguments Nat.leb : simpl never.
Arguments Nat.eqb : simpl never.
Arguments Nat.sub : simpl never.

(* the generated constant (Gen/Consts.v, from scanner.rs) *)
Lemma VERSION_DIGITS_MAX_9 : VERSION_DIGITS_MAX = 9%N.
Proof. reflexivity. Qed.
Lemma pow_10_9 : (10 ^ 9 = 1000000000)%N.
Proof. reflexivity. Qed.
Lemma is_digit_val c : is_digit c = true -> (c - 48 <= 9)%N.
Proof.
  unfold is_digit. intros H. apply andb_prop in H. destruct H as [H1 H2].
  apply N.leb_le in H1. apply N.leb_le in H2. lia.
Qed.

Section Dir.
Variable cap : nat.
Hypothesis cap_ge : 8 <= cap.
Hypothesis H_ws : spec_skip_ws_to_eol cap.
Notation bops := (ScanWP.bops cap).
Notation st := (sc bufin).

Ltac dif := match goal with |- wp (if ?b then _ else _) _ _ => destruct b end.
Ltac difE E := match goal with |- wp (if ?b then _ else _) _ _ => destruct b eqn:E end.

(* ---------------- primitives in accumulated form ---------------- *)
Lemma A_look n s0 (Q : unit -> st -> Prop) s :
  keeps s0 s -> n <= cap ->
  (forall s', keeps s0 s' -> n <= bl s' -> bl s <= bl s' -> Q tt s') -> wp (look bops n) Q s.
Proof.
  intros K Hn HQ. apply (wp_look cap cap_ge); [exact Hn|]. intros s' S1 B1 B2 _.
  apply HQ; auto. eapply keeps_trans; [exact K|apply keeps_input; exact S1].
Qed.
Lemma A_look_ch s0 (Q : chr -> st -> Prop) s :
  keeps s0 s ->
  (forall c s', keeps s0 s' -> 1 <= bl s' -> bl s <= bl s' -> Q c s') -> wp (look_ch bops) Q s.
Proof.
  intros K HQ. apply (wp_look_ch cap cap_ge). intros c s' S1 B1 B2.
  apply HQ; auto. eapply keeps_trans; [exact K|apply keeps_input; exact S1].
Qed.
Lemma A_in_skip s0 (Q : unit -> st -> Prop) s :
  keeps s0 s -> (forall s', keeps s0 s' -> bl s' = bl s - 1 -> Q tt s') -> wp (in_skip bops) Q s.
Proof.
  intros K HQ. apply (wp_in_skip cap cap_ge). intros s' S1 B1.
  apply HQ; auto. eapply keeps_trans; [exact K|apply keeps_input; exact S1].
Qed.
Lemma A_skip_nb s0 (Q : unit -> st -> Prop) s :
  keeps s0 s -> (forall s', keeps s0 s' -> bl s' = bl s - 1 -> Q tt s') -> wp (skip_non_blank bops) Q s.
Proof.
  intros K HQ. apply (wp_skip_non_blank cap cap_ge). intros s' K1 B1.
  apply HQ; auto. eapply keeps_trans; eauto.
Qed.
Lemma A_skip_n_nb n s0 (Q : unit -> st -> Prop) s :
  keeps s0 s -> n <= bl s ->
  (forall s', keeps s0 s' -> bl s' = bl s - n -> Q tt s') -> wp (skip_n_non_blank bops n) Q s.
Proof.
  intros K Hn HQ. apply (wp_skip_n_non_blank cap cap_ge); [exact Hn|]. intros s' K1 B1.
  apply HQ; auto. eapply keeps_trans; eauto.
Qed.
Lemma A_adv_mark n s0 (Q : unit -> st -> Prop) s :
  keeps s0 s -> (forall s', keeps s0 s' -> bl s' = bl s -> Q tt s') -> wp (adv_mark n) Q s.
Proof.
  intros K HQ. apply wp_adv_mark. intros s' K1 B1. apply HQ; auto. eapply keeps_trans; eauto.
Qed.
Lemma A_skip_linebreak s0 (Q : unit -> st -> Prop) s :
  keeps s0 s -> 2 <= bl s -> (forall s', keeps s0 s' -> Q tt s') -> wp (skip_linebreak bops) Q s.
Proof.
  intros K Hn HQ. apply (wp_skip_linebreak cap cap_ge); [exact Hn|]. intros s' K1 _.
  apply HQ. eapply keeps_trans; eauto.
Qed.
(* the contract of the other family *)
Lemma A_skip_ws_to_eol F stb s0 (Q : bool * bool -> st -> Prop) s :
  keeps s0 s -> (forall r s', keeps s0 s' -> 1 <= bl s' -> Q r s') -> wp (skip_ws_to_eol bops F stb) Q s.
Proof.
  intros K HQ. eapply wp_mono; [apply H_ws|]. intros r s' [K1 B1].
  apply HQ; [eapply keeps_trans; eauto|exact B1].
Qed.

(* ---------------- SPrim.v helpers: every loop ends with a [look_ch] ---------------- *)
Lemma A_skip_while F p s0 (Q : N -> st -> Prop) s :
  keeps s0 s -> (forall k s', keeps s0 s' -> 1 <= bl s' -> Q k s') -> wp (in_skip_while bops F p) Q s.
Proof.
  intros K HQ. unfold in_skip_while.
  match goal with |- wp (?g F 0%N) _ _ =>
    cut (forall f k s, keeps s0 s -> wp (g f k) Q s); [intros H; apply H; exact K|] end.
  clear s K. induction f as [|f IH]; intros k s K; [exact I|].
  cbv beta iota zeta.
  apply wp_bind. eapply A_look_ch; [eassumption|]. intros c s1 K1 B1 _.
  dif.
  - apply wp_bind. eapply A_in_skip; [eassumption|]. intros s2 K2 _. apply IH; exact K2.
  - apply wp_ret. apply HQ; assumption.
Qed.
Lemma A_skip_while_blank F s0 (Q : N -> st -> Prop) s :
  keeps s0 s -> (forall k s', keeps s0 s' -> 1 <= bl s' -> Q k s') -> wp (in_skip_while_blank bops F) Q s.
Proof. unfold in_skip_while_blank. apply A_skip_while. Qed.
Lemma A_skip_while_non_breakz F s0 (Q : N -> st -> Prop) s :
  keeps s0 s -> (forall k s', keeps s0 s' -> 1 <= bl s' -> Q k s') -> wp (in_skip_while_non_breakz bops F) Q s.
Proof. unfold in_skip_while_non_breakz. apply A_skip_while. Qed.

Lemma A_fetch_alpha F acc s0 (Q : list chr * N -> st -> Prop) s :
  keeps s0 s -> (forall r s', keeps s0 s' -> 1 <= bl s' -> Q r s') -> wp (in_fetch_while_alpha bops F acc) Q s.
Proof.
  intros K HQ. unfold in_fetch_while_alpha.
  match goal with |- wp (?g F acc 0%N) _ _ =>
    cut (forall f a k s, keeps s0 s -> wp (g f a k) Q s); [intros H; apply H; exact K|] end.
  clear s K. induction f as [|f IH]; intros a k s K; [exact I|].
  cbv beta iota zeta.
  apply wp_bind. eapply A_look_ch; [eassumption|]. intros c s1 K1 B1 _.
  dif.
  - apply wp_bind. eapply A_in_skip; [eassumption|]. intros s2 K2 _. apply IH; exact K2.
  - apply wp_ret. apply HQ; assumption.
Qed.

(* ---------------- scan_uri_escapes: at most 5 rounds of [look 3], three peeks, [skip 3] ---------------- *)
Lemma A_uri_escapes mk s0 (Q : chr -> st -> Prop) s :
  keeps s0 s -> (forall c s', keeps s0 s' -> Q c s') -> wp (scan_uri_escapes bops mk) Q s.
Proof.
  intros K HQ. cbv beta delta [scan_uri_escapes].
  match goal with |- wp (?g 5 0%N 0%N 0%N true) _ _ =>
    cut (forall n w ln cd fs s, keeps s0 s -> wp (g n w ln cd fs) Q s); [intros H; apply H; exact K|] end.
  clear s K. induction n as [|n IH]; intros w ln cd fs s K; [exact I|].
  cbv beta iota zeta.
  apply wp_bind. eapply A_look; [eassumption|lia|]. intros s1 K1 B1 _.
  apply wp_bind. apply (wp_peek cap cap_ge); [lia|]. intros c0.
  apply wp_bind. apply (wp_peekn cap cap_ge); [lia|]. intros c.
  apply wp_bind. apply (wp_peekn cap cap_ge); [lia|]. intros nc.
  dif; [apply wp_fail|].
  apply wp_bind.
  match goal with |- wp _ ?QQ _ => assert (HC : forall r, QQ r s1) end.
  { intros [w' cd']. cbv beta iota zeta.
    apply wp_bind. eapply A_skip_n_nb; [eassumption|lia|]. intros s2 K2 _.
    dif.
    - dif; [apply wp_ret; apply HQ; exact K2|apply wp_fail].
    - apply IH; exact K2. }
  destruct fs; repeat dif; try apply wp_fail; match goal with |- wp (ret ?x) _ _ => exact (HC x) end.
Qed.

(* ---------------- tags ---------------- *)
(* NB: the three main theorems use [Proof using cap_ge H_ws] so that, after the section, all of them take
   [cap], [cap_ge] and [H_ws] (only [safe_scan_directive] really needs [H_ws]). *)
Lemma A_tag_handle F d mk s0 (Q : list chr -> st -> Prop) s :
  keeps s0 s -> (forall r s', keeps s0 s' -> Q r s') -> wp (scan_tag_handle bops F d mk) Q s.
Proof.
  intros K HQ. unfold scan_tag_handle.
  apply wp_bind. eapply A_look_ch; [eassumption|]. intros c s1 K1 B1 _.
  dif; [apply wp_fail|].
  apply wp_bind. eapply A_skip_nb; [eassumption|]. intros s2 K2 _.
  apply wp_bind. eapply A_fetch_alpha; [eassumption|]. intros r s3 K3 B3.
  apply wp_bind. eapply A_adv_mark; [eassumption|]. intros s4 K4 B4.
  apply wp_bind. apply (wp_peek cap cap_ge); [lia|]. intros c'.
  dif.
  - apply wp_bind. eapply A_skip_nb; [eassumption|]. intros s5 K5 _. apply wp_ret. apply HQ; exact K5.
  - dif; [apply wp_fail|apply wp_ret; apply HQ; exact K4].
Qed.

Lemma A_uri_loop F p mk acc s0 (Q : list chr * N -> st -> Prop) s :
  keeps s0 s -> (forall r s', keeps s0 s' -> 1 <= bl s' -> Q r s') -> wp (uri_loop bops F p mk acc) Q s.
Proof.
  intros K HQ. unfold uri_loop.
  match goal with |- wp (?g F acc 0%N) _ _ =>
    cut (forall f a n s, keeps s0 s -> wp (g f a n) Q s); [intros H; apply H; exact K|] end.
  clear s K. induction f as [|f IH]; intros a n s K; [exact I|].
  cbv beta iota zeta.
  apply wp_bind. eapply A_look_ch; [eassumption|]. intros c s1 K1 B1 _.
  dif; [|apply wp_ret; apply HQ; assumption].
  dif.
  - apply wp_bind. eapply A_uri_escapes; [eassumption|]. intros e s2 K2. apply IH; exact K2.
  - apply wp_bind. eapply A_skip_nb; [eassumption|]. intros s2 K2 _. apply IH; exact K2.
Qed.

Lemma A_tag_prefix F mk s0 (Q : list chr -> st -> Prop) s :
  keeps s0 s -> (forall r s', keeps s0 s' -> 1 <= bl s' -> Q r s') -> wp (scan_tag_prefix bops F mk) Q s.
Proof.
  intros K HQ. unfold scan_tag_prefix.
  apply wp_bind. eapply A_look_ch; [eassumption|]. intros c s1 K1 B1 _.
  apply wp_bind.
  match goal with |- wp _ ?QQ _ => assert (HC : forall acc s', keeps s0 s' -> QQ acc s') end.
  { intros acc s' K'. cbv beta.
    apply wp_bind. eapply A_uri_loop; [eassumption|]. intros r s2 K2 B2. apply wp_ret. apply HQ; assumption. }
  dif.
  - apply wp_bind. eapply A_skip_nb; [eassumption|]. intros s2 K2 _. apply wp_ret. apply HC; exact K2.
  - dif; [apply wp_fail|]. dif.
    + apply wp_bind. eapply A_uri_escapes; [eassumption|]. intros e s2 K2. apply wp_ret. apply HC; exact K2.
    + apply wp_bind. eapply A_skip_nb; [eassumption|]. intros s2 K2 _. apply wp_ret. apply HC; exact K2.
Qed.

Lemma A_verbatim_tag F mk s0 (Q : list chr -> st -> Prop) s :
  keeps s0 s -> (forall r s', keeps s0 s' -> Q r s') -> wp (scan_verbatim_tag bops F mk) Q s.
Proof.
  intros K HQ. unfold scan_verbatim_tag.
  apply wp_bind. eapply A_skip_nb; [eassumption|]. intros s1 K1 _.
  apply wp_bind. eapply A_skip_nb; [eassumption|]. intros s2 K2 _.
  apply wp_bind. eapply A_uri_loop; [eassumption|]. intros r s3 K3 B3.
  apply wp_bind. apply (wp_peek cap cap_ge); [lia|]. intros c.
  dif; [apply wp_fail|].
  apply wp_bind. eapply A_skip_nb; [eassumption|]. intros s4 K4 _. apply wp_ret. apply HQ; exact K4.
Qed.

Lemma A_tag_shorthand_suffix F head mk s0 (Q : list chr -> st -> Prop) s :
  keeps s0 s -> (forall r s', keeps s0 s' -> 1 <= bl s' -> Q r s') ->
  wp (scan_tag_shorthand_suffix bops F head mk) Q s.
Proof.
  intros K HQ. unfold scan_tag_shorthand_suffix. cbv beta zeta.
  apply wp_bind. eapply A_uri_loop; [eassumption|]. intros r s1 K1 B1.
  dif; [apply wp_fail|apply wp_ret; apply HQ; assumption].
Qed.

Theorem safe_scan_tag : spec_scan_tag cap.
Proof using cap_ge H_ws.
  intros F s. pose proof (keeps_refl s) as K. unfold scan_tag.
  apply wp_bind. apply wp_mark.
  apply wp_bind. eapply A_look; [eassumption|lia|]. intros s1 K1 B1 _.
  apply wp_bind. apply (wp_nth_char_is cap cap_ge); [lia|]. intros v.
  apply wp_bind.
  match goal with |- wp _ ?QQ _ => assert (HC : forall hs s', keeps s s' -> QQ hs s') end.
  { intros hs s' K'. cbv beta.
    apply wp_bind. eapply A_look_ch; [eassumption|]. intros c s2 K2 B2 _.
    apply wp_bind. apply wp_gets.
    dif; [|apply wp_fail].
    apply wp_bind. apply wp_mark. apply wp_ret. split; [exact K2|lia]. }
  destruct v.
  - apply wp_bind. eapply A_verbatim_tag; [eassumption|]. intros sfx s2 K2. apply wp_ret. apply HC; exact K2.
  - apply wp_bind. eapply A_tag_handle; [eassumption|]. intros h s2 K2.
    dif.
    + apply wp_bind. eapply A_tag_shorthand_suffix; [eassumption|]. intros sfx s3 K3 _.
      apply wp_ret. apply HC; exact K3.
    + apply wp_bind. eapply A_tag_shorthand_suffix; [eassumption|]. intros sfx s3 K3 _.
      destruct sfx; apply wp_ret; apply HC; exact K3.
Qed.

(* ---------------- anchors and aliases ---------------- *)
Theorem safe_scan_anchor : spec_scan_anchor cap.
Proof using cap_ge H_ws.
  intros F alias s _. pose proof (keeps_refl s) as K. unfold scan_anchor.
  apply wp_bind. apply wp_mark.
  apply wp_bind. eapply A_skip_nb; [eassumption|]. intros s1 K1 _.
  apply wp_bind.
  match goal with |- wp (?g F []) ?QQ _ =>
    set (Q' := QQ);
    assert (HC : forall r s', keeps s s' -> Q' r s');
    [|cut (forall f acc s', keeps s s' -> wp (g f acc) Q' s'); [intros H; apply H; exact K1|]] end.
  { intros r s' K'. unfold Q'. destruct r; [apply wp_fail|].
    apply wp_bind. apply wp_mark. apply wp_ret. split; [exact K'|lia]. }
  induction f as [|f IH]; intros acc s' K'; [exact I|].
  cbv beta iota zeta.
  apply wp_bind. eapply A_look_ch; [eassumption|]. intros c s2 K2 B2 _.
  dif.
  - apply wp_bind. eapply A_skip_nb; [eassumption|]. intros s3 K3 _. apply IH; exact K3.
  - apply wp_ret. apply HC; exact K2.
Qed.

(* ---------------- directives ---------------- *)
(* The u32 accumulator cannot overflow: at most VERSION_DIGITS_MAX = 9 digits are accumulated, so the value stays
   below 10^9 < 2^32 (panic site 120 is unreachable). *)
Lemma A_version_number F mk s0 (Q : N -> st -> Prop) s :
  keeps s0 s -> (forall r s', keeps s0 s' -> 1 <= bl s' -> Q r s') ->
  wp (scan_version_directive_number bops F mk) Q s.
Proof.
  intros K HQ. unfold scan_version_directive_number.
  match goal with |- wp (?g F 0%N 0%N) _ _ =>
    cut (forall f val len s, keeps s0 s -> (val < 10 ^ len)%N -> wp (g f val len) Q s);
    [intros H; apply H; [exact K|reflexivity]|] end.
  clear s K. induction f as [|f IH]; intros val len s K Hv; [exact I|].
  cbv beta iota zeta.
  apply wp_bind. eapply A_look_ch; [eassumption|]. intros c s1 K1 B1 _.
  destruct (is_digit c) eqn:Ed.
  - difE El; [apply wp_fail|].
    apply N.ltb_ge in El. rewrite VERSION_DIGITS_MAX_9 in El.
    assert (Hv' : (val * 10 + (c - 48) < 10 ^ (len + 1))%N).
    { rewrite N.add_1_r, N.pow_succ_r'. pose proof (is_digit_val c Ed) as Hd. lia. }
    apply wp_bind. difE Eo.
    + apply wp_panic_absurd. apply N.ltb_lt in Eo.
      pose proof (N.pow_le_mono_r 10 (len + 1) 9 ltac:(lia) El) as Hp. rewrite pow_10_9 in Hp. lia.
    + apply wp_ret. apply wp_bind. eapply A_skip_nb; [eassumption|]. intros s2 K2 _.
      apply IH; assumption.
  - dif; [apply wp_fail|apply wp_ret; apply HQ; assumption].
Qed.

Lemma A_version_value F mk s0 (Q : token -> st -> Prop) s :
  keeps s0 s -> (forall r s', keeps s0 s' -> 1 <= bl s' -> Q r s') ->
  wp (scan_version_directive_value bops F mk) Q s.
Proof.
  intros K HQ. unfold scan_version_directive_value.
  apply wp_bind. eapply A_skip_while_blank; [eassumption|]. intros n s1 K1 B1.
  apply wp_bind. eapply A_adv_mark; [eassumption|]. intros s2 K2 B2.
  apply wp_bind. eapply A_version_number; [eassumption|]. intros major s3 K3 B3.
  apply wp_bind. apply (wp_peek cap cap_ge); [lia|]. intros c.
  dif; [apply wp_fail|].
  apply wp_bind. eapply A_skip_nb; [eassumption|]. intros s4 K4 _.
  apply wp_bind. eapply A_version_number; [eassumption|]. intros minor s5 K5 B5.
  apply wp_bind. apply wp_mark. apply wp_ret. apply HQ; assumption.
Qed.

Lemma A_tag_directive_value F mk s0 (Q : token -> st -> Prop) s :
  keeps s0 s -> (forall r s', keeps s0 s' -> 1 <= bl s' -> Q r s') ->
  wp (scan_tag_directive_value bops F mk) Q s.
Proof.
  intros K HQ. unfold scan_tag_directive_value.
  apply wp_bind. eapply A_skip_while_blank; [eassumption|]. intros n s1 K1 B1.
  apply wp_bind. eapply A_adv_mark; [eassumption|]. intros s2 K2 B2.
  apply wp_bind. eapply A_tag_handle; [eassumption|]. intros h s3 K3.
  apply wp_bind. eapply A_skip_while_blank; [eassumption|]. intros n' s4 K4 B4.
  apply wp_bind. eapply A_adv_mark; [eassumption|]. intros s5 K5 B5.
  apply wp_bind. eapply A_tag_prefix; [eassumption|]. intros p s6 K6 B6.
  apply wp_bind. eapply A_look; [eassumption|lia|]. intros s7 K7 B7 _.
  apply wp_bind. apply (wp_peek cap cap_ge); [lia|]. intros c.
  dif; [|apply wp_fail].
  apply wp_bind. apply wp_mark. apply wp_ret. apply HQ; assumption.
Qed.

Lemma A_directive_name F s0 (Q : list chr -> st -> Prop) s :
  keeps s0 s -> (forall r s', keeps s0 s' -> 1 <= bl s' -> Q r s') ->
  wp (scan_directive_name bops F) Q s.
Proof.
  intros K HQ. unfold scan_directive_name.
  apply wp_bind. apply wp_mark.
  apply wp_bind. eapply A_fetch_alpha; [eassumption|]. intros r s1 K1 B1.
  apply wp_bind. eapply A_adv_mark; [eassumption|]. intros s2 K2 B2.
  destruct (fst r) as [|x l]; [apply wp_fail|].
  apply wp_bind. apply (wp_peek cap cap_ge); [lia|]. intros c.
  dif; [apply wp_ret; apply HQ; [assumption|lia]|apply wp_fail].
Qed.

Theorem safe_scan_directive : spec_scan_directive cap.
Proof using cap_ge H_ws.
  intros F s _. pose proof (keeps_refl s) as K. unfold scan_directive.
  apply wp_bind. apply wp_mark.
  apply wp_bind. eapply A_skip_nb; [eassumption|]. intros s1 K1 _.
  apply wp_bind. eapply A_directive_name; [eassumption|]. intros name s2 K2 B2.
  apply wp_bind.
  match goal with |- wp _ ?QQ _ => assert (HC : forall tk s', keeps s s' -> QQ tk s') end.
  { intros tk s' K'. cbv beta.
    apply wp_bind. eapply A_skip_ws_to_eol; [eassumption|]. intros tw s3 K3 B3.
    apply wp_bind. apply (wp_next_is cap cap_ge); [lia|]. intros b.
    destruct b; [|apply wp_fail].
    apply wp_bind. eapply A_look; [eassumption|lia|]. intros s4 K4 B4 _.
    apply wp_bind. eapply A_skip_linebreak; [eassumption|lia|]. intros s5 K5.
    apply wp_ret. split; [exact K5|lia]. }
  dif.
  - eapply A_version_value; [eassumption|]. intros tk s3 K3 _. apply HC; exact K3.
  - dif.
    + eapply A_tag_directive_value; [eassumption|]. intros tk s3 K3 _. apply HC; exact K3.
    + apply wp_bind. eapply A_skip_while_non_breakz; [eassumption|]. intros n s3 K3 _.
      apply wp_bind. eapply A_adv_mark; [eassumption|]. intros s4 K4 _.
      apply wp_bind. apply wp_mark. apply wp_ret. apply HC; exact K4.
Qed.
End Dir.

Print Assumptions safe_scan_directive.
Print Assumptions safe_scan_tag.
Print Assumptions safe_scan_anchor.
Check safe_scan_directive.
Check safe_scan_tag.
Check safe_scan_anchor.
