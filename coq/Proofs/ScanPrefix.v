(* C15, scanner level: PREFIX STABILITY of the scanner at a document-end marker line.

   Two runs of the scanner model over the STRING input are related: side 1 reads a text that ends (end of input,
   NUL beyond), side 2 reads the same text followed by  [TX d] = "...\n" ++ d .  The text of side 1 is NUL-free and
   ends with a line break (or is empty), so whenever side 1 stands at the end of its input it stands at column 0
   with "leading white space" set.  Relational calculus [swp d] (the calculus of ScanShift.v / ScanBrk.v): when
   side 1 ends with a value, side 2 does not end in an error and, if it ends with a value, the postcondition
   holds; a run of side 1 that ends in an error, and OutOfFuel / Panic on either side, are no concern here.

   The file is a port of ScanShift.v / ScanBrk.v; the alignment vocabulary is meaningful again:
     [b1 c]      what side 2 shows where side 1 shows [c] (positions 0..2, and every position inside side 1's
                 text): NUL becomes '.', anything else itself;
     [nbz c]     c is neither a line break nor NUL (ScanBrk: "not a line feed");
     [noLF k l]  the first k characters of l are [nbz] (then position k lies inside side 1's text).
   Token queues are related by [TS d]: equal tokens, or the one class on which the two sides genuinely differ:
   an EMPTY block scalar that ends at the end of input carries the span [indicator, end] on side 1 and the
   empty span [end, end] before a marker line on side 2 (a finding about the real scanner). *)
From Coq Require Import List NArith ZArith Bool Arith Lia.
Import ListNotations.
Require Import Parser SBase SPrim SDir SScalar SFetch.
Local Open Scope nat_scope.

Notation bst := (sc strin).
Notation BM := (@M strin).
Notation sops := str_ops.

Arguments N.add : simpl never.
Arguments N.sub : simpl never.
Arguments N.eqb : simpl never.
Arguments N.ltb : simpl never.
Arguments N.leb : simpl never.
Arguments Nat.ltb : simpl never.
Arguments Nat.leb : simpl never.
Arguments Nat.eqb : simpl never.
Arguments Nat.max : simpl never.

(* ================================================================================================ *)
(* 1. The appended text; alignment vocabulary                                                       *)
(* ================================================================================================ *)
Definition TX (d : list chr) : list chr := (46 :: 46 :: 46 :: 10 :: d)%N.

Definition b1 (c : chr) : chr := if (c =? 0)%N then 46%N else c.
Definition nbz (c : chr) : Prop := is_breakz c = false.
Definition noLF (k : nat) (l : list chr) : Prop := forall i, i < k -> nbz (nth i l 0%N).

Lemma b1_other c : c <> 0%N -> b1 c = c.
Proof. intros H. unfold b1. destruct (N.eqb_spec c 0); [contradiction|reflexivity]. Qed.
Lemma b1_0 : b1 0%N = 46%N.
Proof. reflexivity. Qed.
Lemma nbz_nz c : nbz c -> c <> 0%N.
Proof. intros H ->. discriminate H. Qed.
Lemma nbz_nbk c : nbz c -> is_break c = false.
Proof. unfold nbz, is_breakz. intros H. apply orb_false_iff in H. tauto. Qed.
Lemma b1_nbz c : nbz c -> b1 c = c.
Proof. intros H. apply b1_other, nbz_nz, H. Qed.
Lemma breakz_cases c : is_breakz c = true -> c = 10%N \/ c = 13%N \/ c = 0%N.
Proof.
  unfold is_breakz, is_break, is_z. intros H. apply orb_true_iff in H. destruct H as [H|H].
  - apply orb_true_iff in H. destruct H as [H|H]; apply N.eqb_eq in H; auto.
  - apply N.eqb_eq in H. auto.
Qed.
(* [nbz_by E]: the goal [nbz c] (or [is_breakz c = false]) follows from the boolean fact E about c *)
Ltac nbz_by E :=
  unfold nbz;
  match goal with
  | |- is_breakz ?c = false =>
      let Ez := fresh "Ez" in
      destruct (is_breakz c) eqn:Ez; [exfalso|reflexivity];
      apply breakz_cases in Ez; destruct Ez as [Ez|[Ez|Ez]]; rewrite Ez in E; discriminate E
  end.

Lemma noLF_0 l : noLF 0 l.
Proof. intros i Hi. lia. Qed.
Lemma noLF_1 l : nbz (nth 0 l 0%N) -> noLF 1 l.
Proof. intros H i Hi. assert (i = 0) as -> by lia. exact H. Qed.
Lemma noLF_le k k' l : noLF k l -> k' <= k -> noLF k' l.
Proof. intros H Hk i Hi. apply H. lia. Qed.
Lemma noLF_S k l : noLF k l -> nbz (nth k l 0%N) -> noLF (S k) l.
Proof. intros H Hk i Hi. destruct (Nat.eq_dec i k) as [->|Hne]; [exact Hk|apply H; lia]. Qed.
Lemma noLF_cons k c l : noLF (S k) (c :: l) <-> nbz c /\ noLF k l.
Proof.
  split.
  - intros H. split; [exact (H 0 ltac:(lia))|]. intros i Hi. exact (H (S i) ltac:(lia)).
  - intros [Hc H] i Hi. destruct i as [|i]; [exact Hc|]. cbn [nth]. apply H. lia.
Qed.
Lemma noLF_tl k l : noLF (S k) l -> noLF k (tl l).
Proof.
  intros H. destruct l as [|c l]; [|apply (noLF_cons k c l); exact H].
  specialize (H 0 ltac:(lia)). discriminate H.
Qed.
Lemma noLF_skipn k n l : noLF (n + k) l -> noLF k (skipn n l).
Proof.
  revert l. induction n as [|n IH]; intros l H; [exact H|].
  destruct l as [|c l].
  - specialize (H 0 ltac:(lia)). discriminate H.
  - cbn [skipn]. apply IH. apply (noLF_cons (n + k) c l). exact H.
Qed.
Lemma noLF_len k l : noLF k l -> k <= length l.
Proof.
  revert l. induction k as [|k IH]; intros l H; [lia|].
  destruct l as [|c l]; [specialize (H 0 ltac:(lia)); discriminate H|].
  cbn [length]. apply le_n_S. apply IH. apply (noLF_cons k c l). exact H.
Qed.

(* character classes that do not tell NUL from '.' *)
Definition bblind (p : chr -> bool) : Prop := forall c, p (b1 c) = p c.
Lemma bblind_of p : p 46%N = p 0%N -> bblind p.
Proof. intros H c. unfold b1. destruct (N.eqb_spec c 0) as [->|]; [exact H|reflexivity]. Qed.
Lemma b1_is_break : bblind is_break. Proof. apply bblind_of. reflexivity. Qed.
Lemma b1_is_blank : bblind is_blank. Proof. apply bblind_of. reflexivity. Qed.
Lemma b1_is_digit : bblind is_digit. Proof. apply bblind_of. reflexivity. Qed.
Lemma b1_is_alpha : bblind is_alpha. Proof. apply bblind_of. reflexivity. Qed.
Lemma b1_is_hex : bblind is_hex. Proof. apply bblind_of. reflexivity. Qed.
Lemma b1_is_flow : bblind is_flow. Proof. apply bblind_of. reflexivity. Qed.
(* literals other than NUL, '.', LF, CR *)
Definition lit (k : chr) : Prop := ((k =? 0) || (k =? 46) || (k =? 10) || (k =? 13))%N = false.
Lemma lit_parts k : lit k -> k <> 0%N /\ k <> 46%N /\ k <> 10%N /\ k <> 13%N.
Proof.
  unfold lit. intros H. repeat (apply orb_false_iff in H; destruct H as [H ?]).
  repeat split; apply N.eqb_neq; assumption.
Qed.
Lemma b1_eqb c k : lit k -> (b1 c =? k)%N = (c =? k)%N.
Proof.
  intros H. destruct (lit_parts k H) as (K0 & K46 & _). unfold b1. destruct (N.eqb_spec c 0) as [->|]; [|reflexivity].
  destruct (N.eqb_spec 46 k); destruct (N.eqb_spec 0 k); try reflexivity; congruence.
Qed.
Lemma b1_eqb_blind k : lit k -> bblind (fun c => (c =? k)%N).
Proof. intros H c. apply b1_eqb. exact H. Qed.
Lemma b1_lf_or_cr c : ((b1 c =? 10) || (b1 c =? 13))%N = ((c =? 10) || (c =? 13))%N.
Proof. unfold b1. destruct (N.eqb_spec c 0) as [->|]; reflexivity. Qed.
Lemma b1_eq_cr c : (b1 c =? 13)%N = (c =? 13)%N.
Proof. unfold b1. destruct (N.eqb_spec c 0) as [->|]; reflexivity. Qed.
Lemma b1_eq_lf c : (b1 c =? 10)%N = (c =? 10)%N.
Proof. unfold b1. destruct (N.eqb_spec c 0) as [->|]; reflexivity. Qed.
Lemma lit_eq_nbz c k : lit k -> (c =? k)%N = true -> nbz c.
Proof.
  intros H E. apply N.eqb_eq in E. subst c. destruct (lit_parts k H) as (K0 & _ & K10 & K13).
  unfold nbz, is_breakz, is_break, is_z.
  destruct (N.eqb_spec k 10); [contradiction|]. destruct (N.eqb_spec k 13); [contradiction|].
  destruct (N.eqb_spec k 0); [contradiction|]. reflexivity.
Qed.
Ltac b1_norm :=
  rewrite ?b1_is_break, ?b1_is_blank, ?b1_is_digit, ?b1_is_alpha, ?b1_is_hex, ?b1_is_flow, ?b1_lf_or_cr,
          ?b1_eq_cr, ?b1_eq_lf;
  repeat match goal with |- context [(b1 ?c =? ?k)%N] => rewrite (b1_eqb c k) by reflexivity end.

(* texts that end with a line break (or are empty), NUL-free texts *)
Definition EB (l : list chr) : Prop := l = [] \/ is_break (last l 0%N) = true.
Definition NN (l : list chr) : Prop := Forall (fun c => c <> 0%N) l.

Lemma last_skipn {A} n (l : list A) x : n < length l -> last (skipn n l) x = last l x.
Proof.
  revert l. induction n as [|n IH]; intros l H; [reflexivity|].
  destruct l as [|a l]; [cbn in H; lia|]. cbn [skipn]. cbn [length] in H. rewrite IH by lia.
  destruct l as [|b l]; [cbn in H; lia|]. reflexivity.
Qed.
Lemma EB_skipn n l : EB l -> n <= length l -> EB (skipn n l).
Proof.
  intros [->|H] Hn; [left; destruct n; reflexivity|].
  destruct (Nat.eq_dec n (length l)) as [->|Hne]; [left; apply skipn_all|].
  right. rewrite last_skipn by lia. exact H.
Qed.
Lemma NN_skipn n l : NN l -> NN (skipn n l).
Proof.
  unfold NN. revert l. induction n as [|n IH]; intros l H; [exact H|].
  destruct l as [|a l]; [constructor|]. cbn [skipn]. apply IH. inversion H; assumption.
Qed.
Lemma NN_nth l i : NN l -> i < length l -> nth i l 0%N <> 0%N.
Proof.
  unfold NN. revert i. induction l as [|a l IH]; intros i H Hi; [cbn in Hi; lia|].
  inversion H; subst. destruct i as [|i]; [assumption|]. cbn [nth]. apply IH; [assumption|cbn in Hi; lia].
Qed.
(* a text that ends with a break and starts with k non-break characters is longer than k *)
Lemma EB_noLF_lt k l : EB l -> noLF k l -> l <> [] -> k < length l.
Proof.
  intros [->|HB] HN HE; [contradiction|].
  pose proof (noLF_len k l HN) as HL.
  destruct (Nat.eq_dec k (length l)) as [->|]; [|lia]. exfalso.
  destruct (@exists_last _ l HE) as (l' & z & ->). rewrite last_last in HB.
  rewrite app_length in HN. cbn [length] in HN.
  specialize (HN (length l') ltac:(lia)). rewrite app_nth2 in HN by lia. rewrite Nat.sub_diag in HN. cbn [nth] in HN.
  apply nbz_nbk in HN. congruence.
Qed.
Lemma nbz_nonempty l : nbz (nth 0 l 0%N) -> l <> [].
Proof. intros H ->. discriminate H. Qed.
Lemma skipn_app_le {A} n (l t : list A) : n <= length l -> skipn n (l ++ t) = skipn n l ++ t.
Proof. intros H. rewrite skipn_app. replace (n - length l) with 0 by lia. reflexivity. Qed.
Lemma tl_skipn1 {A} (l : list A) : tl l = skipn 1 l.
Proof. destruct l; reflexivity. Qed.

(* ================================================================================================ *)
(* 2. The relations                                                                                 *)
(* ================================================================================================ *)
Definition rm (s : bst) : list chr := si_chars (sc_in s).         (* remaining characters *)
Definition rn (s : bst) (i : nat) : chr := nth i (rm s) 0%N.        (* the i-th of them, NUL beyond the end *)
Definition lk (s : bst) : nat := si_look (sc_in s).                 (* the string input's lookahead counter *)

Record IS (d : list chr) (i1 i2 : strin) : Prop := {
  is_chars : si_chars i2 = si_chars i1 ++ TX d;
  is_look : si_look i2 = si_look i1 }.

(* markers, spans, simple keys: equal (the names of ScanShift.v are kept) *)
Definition MS (d : list chr) (m1 m2 : marker) : Prop := m1 = m2.
Definition SPS (d : list chr) (a b : span) : Prop := a = b.
Definition KS (d : list chr) (k1 k2 : simple_key) : Prop := k1 = k2.
(* tokens: equal, or the empty block scalar at the end of input *)
Definition blk_style (st : style) : bool := match st with Literal | Folded => true | _ => false end.
Definition TS (d : list chr) (t1 t2 : token) : Prop :=
  t2 = t1 \/ exists st n a e, blk_style st = true
                              /\ t1 = ({| sp_start := a; sp_end := e |}, TScalar st (nls n []))
                              /\ t2 = ({| sp_start := e; sp_end := e |}, TScalar st (nls n [])).

(* every field but the input and the token queue *)
Definition rst (s : bst) :=
  (sc_mark s, sc_stream_start s, sc_stream_end s, sc_adjacent s, sc_ska s, sc_sks s, sc_indent s, sc_indents s,
   sc_flow_level s, sc_tokens_parsed s, sc_token_available s, sc_lws s, sc_ifms s).

(* THE STATE RELATION *)
Record SH (d : list chr) (s1 s2 : bst) : Prop := {
  sh_in : IS d (sc_in s1) (sc_in s2);
  sh_tokens : Forall2 (TS d) (sc_tokens s1) (sc_tokens s2);
  sh_rst : rst s1 = rst s2;
  sh_eb : EB (rm s1);
  sh_nn : NN (rm s1);
  sh_end : rm s1 = [] -> m_col (sc_mark s1) = 0%N /\ sc_lws s1 = true }.
Arguments sh_in {d s1 s2}. Arguments sh_tokens {d s1 s2}. Arguments sh_rst {d s1 s2}.
Arguments sh_eb {d s1 s2}. Arguments sh_nn {d s1 s2}. Arguments sh_end {d s1 s2}.
Arguments is_chars {d i1 i2}. Arguments is_look {d i1 i2}.

Definition ers {I} (s : sc I) : sc unit :=
  {| sc_in := tt; sc_mark := sc_mark s; sc_tokens := sc_tokens s;
     sc_stream_start := sc_stream_start s; sc_stream_end := sc_stream_end s; sc_adjacent := sc_adjacent s;
     sc_ska := sc_ska s; sc_sks := sc_sks s; sc_indent := sc_indent s; sc_indents := sc_indents s;
     sc_flow_level := sc_flow_level s; sc_tokens_parsed := sc_tokens_parsed s;
     sc_token_available := sc_token_available s; sc_lws := sc_lws s; sc_ifms := sc_ifms s |}.
Lemma ers_fields {I J} (s : sc I) (t : sc J) : ers s = ers t ->
  sc_mark s = sc_mark t /\ sc_tokens s = sc_tokens t /\ sc_stream_start s = sc_stream_start t
  /\ sc_stream_end s = sc_stream_end t /\ sc_adjacent s = sc_adjacent t /\ sc_ska s = sc_ska t
  /\ sc_sks s = sc_sks t /\ sc_indent s = sc_indent t /\ sc_indents s = sc_indents t
  /\ sc_flow_level s = sc_flow_level t /\ sc_tokens_parsed s = sc_tokens_parsed t
  /\ sc_token_available s = sc_token_available t /\ sc_lws s = sc_lws t
  /\ sc_ifms s = sc_ifms t.
Proof. unfold ers. intros H. inversion H. repeat split; assumption. Qed.

Section Markers.
Variable d : list chr.
Lemma MS_refl m : MS d m m. Proof. reflexivity. Qed.
Lemma MS_eq m1 m2 : MS d m1 m2 -> m2 = m1. Proof. intros H. symmetry. exact H. Qed.
Lemma SPS_empty m1 m2 : MS d m1 m2 -> SPS d (span_empty m1) (span_empty m2).
Proof. intros ->. reflexivity. Qed.
Lemma SPS_mk a1 b1' a2 b2 : MS d a1 a2 -> MS d b1' b2 ->
  SPS d {| sp_start := a1; sp_end := b1' |} {| sp_start := a2; sp_end := b2 |}.
Proof. intros -> ->. reflexivity. Qed.
Lemma TS_refl t : TS d t t. Proof. left. reflexivity. Qed.
Lemma TS_mk sp1 sp2 t : SPS d sp1 sp2 -> TS d (sp1, t) (sp2, t).
Proof. intros ->. apply TS_refl. Qed.
Lemma TS_empty m1 m2 t : MS d m1 m2 -> TS d (span_empty m1, t) (span_empty m2, t).
Proof. intros ->. apply TS_refl. Qed.
Lemma TS_snd t1 t2 : TS d t1 t2 -> snd t2 = snd t1.
Proof. intros [->|(st & n & a & e & _ & -> & ->)]; reflexivity. Qed.
(* a token that is not a block scalar is the same on both sides *)
Lemma TS_nonscalar t1 t2 : TS d t1 t2 -> (forall st v, snd t1 <> TScalar st v) -> t2 = t1.
Proof. intros [->|(st & n & a & e & _ & -> & ->)] H; [reflexivity|]. exfalso. exact (H _ _ eq_refl). Qed.
Lemma TSs_refl l : Forall2 (TS d) l l.
Proof. induction l; constructor; [apply TS_refl|assumption]. Qed.
Lemma KS_refl k : KS d k k. Proof. reflexivity. Qed.
Lemma KSs_refl l : Forall2 (KS d) l l.
Proof. induction l; constructor; [reflexivity|assumption]. Qed.
Lemma KSs_eq l1 l2 : Forall2 (KS d) l1 l2 -> l2 = l1.
Proof. induction 1 as [|a b l1 l2 H _ IH]; [reflexivity|]. unfold KS in H. subst. reflexivity. Qed.
End Markers.

(* ================================================================================================ *)
(* 3. Reading the state relation                                                                    *)
(* ================================================================================================ *)
Ltac skel_cbn :=
  cbn [sc_in sc_mark sc_tokens sc_stream_start sc_stream_end sc_adjacent sc_ska sc_sks sc_indent sc_indents
       sc_flow_level sc_tokens_parsed sc_token_available sc_lws sc_ifms
       upd set_in set_mark set_tokens set_flags set_ska set_lws set_adj set_ta set_ss set_se
       set_struct set_sks set_indent set_fl set_tp set_ifms].

Lemma rst_fields (s t : bst) : rst s = rst t ->
  sc_mark s = sc_mark t /\ sc_stream_start s = sc_stream_start t /\ sc_stream_end s = sc_stream_end t
  /\ sc_adjacent s = sc_adjacent t /\ sc_ska s = sc_ska t /\ sc_sks s = sc_sks t
  /\ sc_indent s = sc_indent t /\ sc_indents s = sc_indents t /\ sc_flow_level s = sc_flow_level t
  /\ sc_tokens_parsed s = sc_tokens_parsed t /\ sc_token_available s = sc_token_available t
  /\ sc_lws s = sc_lws t /\ sc_ifms s = sc_ifms t.
Proof. unfold rst. intros H. inversion H. repeat split; assumption. Qed.

Lemma F2_length {A B} (R : A -> B -> Prop) l1 l2 : Forall2 R l1 l2 -> length l1 = length l2.
Proof. induction 1; cbn [length]; congruence. Qed.

Section Read.
Context {d : list chr} {s1 s2 : bst} (H : SH d s1 s2).
Lemma SH_mark : sc_mark s1 = sc_mark s2. Proof. pose proof (rst_fields _ _ (sh_rst H)). tauto. Qed.
Lemma sh_mark : MS d (sc_mark s1) (sc_mark s2). Proof. exact SH_mark. Qed.
Lemma SH_line : m_line (sc_mark s1) = m_line (sc_mark s2). Proof. rewrite SH_mark. reflexivity. Qed.
Lemma SH_col : m_col (sc_mark s1) = m_col (sc_mark s2). Proof. rewrite SH_mark. reflexivity. Qed.
Lemma SH_index : m_index (sc_mark s1) = m_index (sc_mark s2). Proof. rewrite SH_mark. reflexivity. Qed.
Lemma SH_stream_start : sc_stream_start s1 = sc_stream_start s2. Proof. pose proof (rst_fields _ _ (sh_rst H)). tauto. Qed.
Lemma SH_stream_end : sc_stream_end s1 = sc_stream_end s2. Proof. pose proof (rst_fields _ _ (sh_rst H)). tauto. Qed.
Lemma SH_adjacent : sc_adjacent s1 = sc_adjacent s2. Proof. pose proof (rst_fields _ _ (sh_rst H)). tauto. Qed.
Lemma SH_ska : sc_ska s1 = sc_ska s2. Proof. pose proof (rst_fields _ _ (sh_rst H)). tauto. Qed.
Lemma SH_sks : sc_sks s1 = sc_sks s2. Proof. pose proof (rst_fields _ _ (sh_rst H)). tauto. Qed.
Lemma sh_sks : Forall2 (KS d) (sc_sks s1) (sc_sks s2). Proof. rewrite <- SH_sks. apply KSs_refl. Qed.
Lemma SH_indent : sc_indent s1 = sc_indent s2. Proof. pose proof (rst_fields _ _ (sh_rst H)). tauto. Qed.
Lemma SH_indents : sc_indents s1 = sc_indents s2. Proof. pose proof (rst_fields _ _ (sh_rst H)). tauto. Qed.
Lemma SH_flow_level : sc_flow_level s1 = sc_flow_level s2. Proof. pose proof (rst_fields _ _ (sh_rst H)). tauto. Qed.
Lemma SH_tokens_parsed : sc_tokens_parsed s1 = sc_tokens_parsed s2. Proof. pose proof (rst_fields _ _ (sh_rst H)). tauto. Qed.
Lemma SH_token_available : sc_token_available s1 = sc_token_available s2. Proof. pose proof (rst_fields _ _ (sh_rst H)). tauto. Qed.
Lemma SH_lws : sc_lws s1 = sc_lws s2. Proof. pose proof (rst_fields _ _ (sh_rst H)). tauto. Qed.
Lemma SH_ifms : sc_ifms s1 = sc_ifms s2. Proof. pose proof (rst_fields _ _ (sh_rst H)). tauto. Qed.
Lemma SH_tokens_len : length (sc_tokens s1) = length (sc_tokens s2). Proof. exact (F2_length _ _ _ (sh_tokens H)). Qed.
(* the inputs *)
Lemma SH_rm : rm s2 = rm s1 ++ TX d. Proof. exact (is_chars (sh_in H)). Qed.
Lemma SH_lk : lk s2 = lk s1. Proof. exact (is_look (sh_in H)). Qed.
(* inside side 1's text the two sides read the same character, and it is not NUL *)
Lemma SH_rn_in k : k < length (rm s1) -> rn s2 k = rn s1 k /\ rn s1 k <> 0%N.
Proof.
  intros Hk. unfold rn. rewrite SH_rm, app_nth1 by exact Hk. split; [reflexivity|]. apply NN_nth; [exact (sh_nn H)|exact Hk].
Qed.
(* up to two positions beyond the end side 2 shows '.' where side 1 shows NUL *)
Lemma SH_rn_lt k : k < length (rm s1) + 3 -> rn s2 k = b1 (rn s1 k).
Proof.
  intros Hk. destruct (Nat.lt_ge_cases k (length (rm s1))) as [HL|HL].
  - destruct (SH_rn_in k HL) as [E N0]. rewrite E, b1_other by exact N0. reflexivity.
  - unfold rn. rewrite SH_rm, app_nth2 by lia. rewrite (nth_overflow (rm s1)) by lia.
    destruct (k - length (rm s1)) as [|[|[|j]]] eqn:E; try reflexivity. lia.
Qed.
Lemma SH_rn k : noLF k (rm s1) -> rn s2 k = b1 (rn s1 k).
Proof. intros HL. apply SH_rn_lt. pose proof (noLF_len _ _ HL). lia. Qed.
Lemma SH_rn0 : rn s2 0 = b1 (rn s1 0). Proof. apply SH_rn_lt. lia. Qed.
Lemma SH_rn1' : rn s2 1 = b1 (rn s1 1). Proof. apply SH_rn_lt. lia. Qed.
Lemma SH_rn2' : rn s2 2 = b1 (rn s1 2). Proof. apply SH_rn_lt. lia. Qed.
(* behind [k] characters that are neither breaks nor NUL, position k lies inside the text *)
Lemma SH_noLF_in k : noLF k (rm s1) -> rm s1 <> [] -> k < length (rm s1).
Proof. intros HL HE. apply EB_noLF_lt; [exact (sh_eb H)|exact HL|exact HE]. Qed.
Lemma SH_rn_same k : noLF k (rm s1) -> rm s1 <> [] -> rn s2 k = rn s1 k /\ rn s1 k <> 0%N.
Proof. intros HL HE. apply SH_rn_in. apply SH_noLF_in; assumption. Qed.
Lemma SH_rn1 : nbz (rn s1 0) -> rn s2 1 = rn s1 1 /\ rn s1 1 <> 0%N.
Proof. intros H0. apply SH_rn_same; [apply noLF_1; exact H0|apply nbz_nonempty; exact H0]. Qed.
Lemma SH_rn0_other : rn s1 0 <> 0%N -> rn s2 0 = rn s1 0.
Proof. intros H0. rewrite SH_rn0. apply b1_other. exact H0. Qed.
Lemma SH_nonempty : rn s1 0 <> 0%N -> rm s1 <> [].
Proof. intros H0 E. apply H0. unfold rn. rewrite E. reflexivity. Qed.
Lemma SH_at_end : rn s1 0 = 0%N -> rm s1 = [].
Proof.
  intros H0. destruct (rm s1) as [|c l] eqn:E; [reflexivity|]. exfalso.
  pose proof (sh_nn H) as HN. rewrite E in HN. inversion HN; subst. unfold rn in H0. rewrite E in H0. cbn in H0. contradiction.
Qed.
Lemma SH_end_col : rn s1 0 = 0%N -> m_col (sc_mark s1) = 0%N /\ sc_lws s1 = true.
Proof. intros H0. apply (sh_end H). apply SH_at_end. exact H0. Qed.
(* at the end of side 1 side 2 reads the marker line *)
Lemma SH_end_rn : rm s1 = [] -> rn s2 0 = 46%N /\ rn s2 1 = 46%N /\ rn s2 2 = 46%N /\ rn s2 3 = 10%N.
Proof. intros E. unfold rn. rewrite SH_rm, E. cbn. auto. Qed.
End Read.

Ltac sh_sync H :=
  rewrite <- ?(SH_mark H), <- ?(SH_stream_start H), <- ?(SH_stream_end H), <- ?(SH_adjacent H), <- ?(SH_ska H),
          <- ?(SH_sks H), <- ?(SH_indent H), <- ?(SH_indents H), <- ?(SH_flow_level H), <- ?(SH_tokens_parsed H),
          <- ?(SH_token_available H), <- ?(SH_lws H), <- ?(SH_ifms H), <- ?(SH_tokens_len H).
Ltac sh_fwd H :=
  rewrite ?(SH_mark H), ?(SH_stream_start H), ?(SH_stream_end H), ?(SH_adjacent H), ?(SH_ska H), ?(SH_sks H),
          ?(SH_indent H), ?(SH_indents H), ?(SH_flow_level H), ?(SH_tokens_parsed H),
          ?(SH_token_available H), ?(SH_lws H), ?(SH_ifms H), ?(SH_tokens_len H).
Ltac sh_eq :=
  first [ reflexivity
        | match goal with H : SH _ _ _ |- _ = _ => solve [skel_cbn; sh_fwd H; reflexivity] end ].
Ltac rst_eq H := unfold rst; skel_cbn; sh_fwd H; reflexivity.

(* ================================================================================================ *)
(* 4. The state relation under updates                                                              *)
(* ================================================================================================ *)
Section Upd.
Variable d : list chr.

(* an update that touches neither the input, the queue, the column of the mark nor the flag "leading white space" *)
Lemma SH_frame s1 s2 t1 t2 : SH d s1 s2 ->
  sc_in t1 = sc_in s1 -> sc_in t2 = sc_in s2 -> Forall2 (TS d) (sc_tokens t1) (sc_tokens t2) -> rst t1 = rst t2 ->
  (rm s1 = [] -> m_col (sc_mark t1) = 0%N /\ sc_lws t1 = true) -> SH d t1 t2.
Proof.
  intros H E1 E2 HT HR HE. constructor; unfold rm; rewrite ?E1, ?E2; try apply H; assumption.
Qed.
Lemma SH_set_tokens l1 l2 s1 s2 : SH d s1 s2 -> Forall2 (TS d) l1 l2 -> SH d (set_tokens l1 s1) (set_tokens l2 s2).
Proof. intros H HL. apply (SH_frame s1 s2); auto; [rst_eq H|exact (sh_end H)]. Qed.
Lemma SH_push s1 s2 t1 t2 : SH d s1 s2 -> TS d t1 t2 ->
  SH d (set_tokens (sc_tokens s1 ++ [t1]) s1) (set_tokens (sc_tokens s2 ++ [t2]) s2).
Proof. intros H HT. apply SH_set_tokens; [exact H|]. apply Forall2_app; [apply H|]. constructor; [exact HT|constructor]. Qed.
Lemma SH_set_sks l1 l2 s1 s2 : SH d s1 s2 -> Forall2 (KS d) l1 l2 -> SH d (set_sks l1 s1) (set_sks l2 s2).
Proof.
  intros H HL. apply KSs_eq in HL. subst l2.
  apply (SH_frame s1 s2); auto; [exact (sh_tokens H)|rst_eq H|exact (sh_end H)].
Qed.
Lemma SH_set_ska b s1 s2 : SH d s1 s2 -> SH d (set_ska b s1) (set_ska b s2).
Proof. intros H. apply (SH_frame s1 s2); auto; [exact (sh_tokens H)|rst_eq H|exact (sh_end H)]. Qed.
Lemma SH_set_lws b s1 s2 : SH d s1 s2 -> (b = true \/ rm s1 <> []) -> SH d (set_lws b s1) (set_lws b s2).
Proof.
  intros H HB. apply (SH_frame s1 s2); auto; [exact (sh_tokens H)|rst_eq H|].
  intros E. destruct HB as [->|HB]; [|contradiction]. skel_cbn. split; [apply (sh_end H E)|reflexivity].
Qed.
Lemma SH_set_ta b s1 s2 : SH d s1 s2 -> SH d (set_ta b s1) (set_ta b s2).
Proof. intros H. apply (SH_frame s1 s2); auto; [exact (sh_tokens H)|rst_eq H|exact (sh_end H)]. Qed.
Lemma SH_set_ss b s1 s2 : SH d s1 s2 -> SH d (set_ss b s1) (set_ss b s2).
Proof. intros H. apply (SH_frame s1 s2); auto; [exact (sh_tokens H)|rst_eq H|exact (sh_end H)]. Qed.
Lemma SH_set_se b s1 s2 : SH d s1 s2 -> SH d (set_se b s1) (set_se b s2).
Proof. intros H. apply (SH_frame s1 s2); auto; [exact (sh_tokens H)|rst_eq H|exact (sh_end H)]. Qed.
Lemma SH_set_adj_here s1 s2 : SH d s1 s2 ->
  SH d (set_adj (m_index (sc_mark s1)) s1) (set_adj (m_index (sc_mark s2)) s2).
Proof. intros H. apply (SH_frame s1 s2); auto; [exact (sh_tokens H)|rst_eq H|exact (sh_end H)]. Qed.
Lemma SH_set_indent z l s1 s2 : SH d s1 s2 -> SH d (set_indent z l s1) (set_indent z l s2).
Proof. intros H. apply (SH_frame s1 s2); auto; [exact (sh_tokens H)|rst_eq H|exact (sh_end H)]. Qed.
Lemma SH_set_fl n s1 s2 : SH d s1 s2 -> SH d (set_fl n s1) (set_fl n s2).
Proof. intros H. apply (SH_frame s1 s2); auto; [exact (sh_tokens H)|rst_eq H|exact (sh_end H)]. Qed.
Lemma SH_set_tp n s1 s2 : SH d s1 s2 -> SH d (set_tp n s1) (set_tp n s2).
Proof. intros H. apply (SH_frame s1 s2); auto; [exact (sh_tokens H)|rst_eq H|exact (sh_end H)]. Qed.
Lemma SH_set_ifms l s1 s2 : SH d s1 s2 -> SH d (set_ifms l s1) (set_ifms l s2).
Proof. intros H. apply (SH_frame s1 s2); auto; [exact (sh_tokens H)|rst_eq H|exact (sh_end H)]. Qed.
(* the mark: anything, as long as the column stays 0 at the end of side 1 *)
Lemma SH_set_mark m s1 s2 : SH d s1 s2 -> (rm s1 = [] -> m_col m = 0%N) -> SH d (set_mark m s1) (set_mark m s2).
Proof.
  intros H HM. apply (SH_frame s1 s2); auto; [exact (sh_tokens H)|rst_eq H|].
  intros E. skel_cbn. split; [exact (HM E)|apply (sh_end H E)].
Qed.
End Upd.

Ltac sh_upd_step :=
  first [ eassumption
        | apply SH_set_ska | apply SH_set_ta | apply SH_set_ss | apply SH_set_se
        | apply SH_set_indent | apply SH_set_ifms | apply SH_set_fl | apply SH_set_tp
        | apply SH_set_adj_here ].
Ltac sh_upd := repeat sh_upd_step.

(* ================================================================================================ *)
(* 5. The relational calculus                                                                       *)
(* ================================================================================================ *)
Definition swp (d : list chr) {A1 A2} (m1 : BM A1) (m2 : BM A2) (Q : A1 -> bst -> A2 -> bst -> Prop) (s1 s2 : bst) : Prop :=
  match m1 s1 with
  | Ok (a1, t1) => match m2 s2 with
                   | Ok (a2, t2) => Q a1 t1 a2 t2
                   | Err _ _ => False
                   | _ => True
                   end
  | _ => True
  end.

Definition Qe {A} (P : A -> bst -> bst -> Prop) : A -> bst -> A -> bst -> Prop :=
  fun a1 t1 a2 t2 => a1 = a2 /\ P a1 t1 t2.

Section Calculus.
Variable d : list chr.
Local Notation bwp := (swp d).

Lemma bwp_ret {A1 A2} (a1 : A1) (a2 : A2) (Q : A1 -> bst -> A2 -> bst -> Prop) s1 s2 :
  Q a1 s1 a2 s2 -> bwp (ret a1) (ret a2) Q s1 s2.
Proof. auto. Qed.
Lemma bwp_bind {A1 A2 B1 B2} (m1 : BM A1) (m2 : BM A2) (f1 : A1 -> BM B1) (f2 : A2 -> BM B2)
  (Q : B1 -> bst -> B2 -> bst -> Prop) s1 s2 :
  bwp m1 m2 (fun a1 t1 a2 t2 => bwp (f1 a1) (f2 a2) Q t1 t2) s1 s2 -> bwp (bind m1 f1) (bind m2 f2) Q s1 s2.
Proof.
  unfold swp, bind. destruct (m1 s1) as [[a1 t1]|e1 k1|n1|]; auto.
  destruct (m2 s2) as [[a2 t2]|e2 k2|n2|]; auto; try tauto.
  - destruct (f1 a1 t1) as [[c1 u1]|? ?|?|]; auto.
  - destruct (f1 a1 t1) as [[c1 u1]|? ?|?|]; auto.
Qed.
Lemma bwp_bind_e {A B1 B2} (m1 m2 : BM A) (f1 : A -> BM B1) (f2 : A -> BM B2) (Q : B1 -> bst -> B2 -> bst -> Prop) s1 s2 :
  bwp m1 m2 (Qe (fun a t1 t2 => bwp (f1 a) (f2 a) Q t1 t2)) s1 s2 -> bwp (bind m1 f1) (bind m2 f2) Q s1 s2.
Proof.
  intros H. apply bwp_bind. unfold swp in *. destruct (m1 s1) as [[a1 t1]|e1 k1|n1|]; auto.
  destruct (m2 s2) as [[a2 t2]|e2 k2|n2|]; auto. destruct H as [-> H]. exact H.
Qed.
Lemma bwp_mono {A1 A2} (m1 : BM A1) (m2 : BM A2) (Q Q' : A1 -> bst -> A2 -> bst -> Prop) s1 s2 :
  bwp m1 m2 Q s1 s2 -> (forall a1 t1 a2 t2, Q a1 t1 a2 t2 -> Q' a1 t1 a2 t2) -> bwp m1 m2 Q' s1 s2.
Proof.
  unfold swp. intros H HQ. destruct (m1 s1) as [[a1 t1]|e1 k1|n1|]; auto.
  destruct (m2 s2) as [[a2 t2]|e2 k2|n2|]; auto.
Qed.
(* an error on side 1: no claim *)
Lemma bwp_err_l {A1 A2} site k1 (m2 : BM A2) (Q : A1 -> bst -> A2 -> bst -> Prop) s1 s2 :
  bwp (@fail strin A1 site k1) m2 Q s1 s2.
Proof. exact I. Qed.
Lemma bwp_fail {A1 A2} site k1 k2 (Q : A1 -> bst -> A2 -> bst -> Prop) s1 s2 :
  MS d k1 k2 -> bwp (@fail strin A1 site k1) (@fail strin A2 site k2) Q s1 s2.
Proof. intros _. exact I. Qed.
Lemma bwp_panic_l {A1 A2} site (m2 : BM A2) (Q : A1 -> bst -> A2 -> bst -> Prop) s1 s2 : bwp (@panic strin A1 site) m2 Q s1 s2.
Proof. exact I. Qed.
Lemma bwp_oof_l {A1 A2} (m2 : BM A2) (Q : A1 -> bst -> A2 -> bst -> Prop) s1 s2 : bwp (@oof strin A1) m2 Q s1 s2.
Proof. exact I. Qed.
Lemma bwp_oof_r {A1 A2} (m1 : BM A1) (Q : A1 -> bst -> A2 -> bst -> Prop) s1 s2 : bwp m1 (@oof strin A2) Q s1 s2.
Proof. unfold swp, oof. destruct (m1 s1) as [[a1 t1]|e1 k1|n1|]; auto. Qed.
Lemma bwp_panic_r {A1 A2} site (m1 : BM A1) (Q : A1 -> bst -> A2 -> bst -> Prop) s1 s2 : bwp m1 (@panic strin A2 site) Q s1 s2.
Proof. unfold swp, panic. destruct (m1 s1) as [[a1 t1]|e1 k1|n1|]; auto. Qed.
Lemma bwp_get (Q : bst -> bst -> bst -> bst -> Prop) s1 s2 : Q s1 s1 s2 s2 -> bwp get get Q s1 s2.
Proof. auto. Qed.
Lemma bwp_gets {A1 A2} (f1 : bst -> A1) (f2 : bst -> A2) (Q : A1 -> bst -> A2 -> bst -> Prop) s1 s2 :
  Q (f1 s1) s1 (f2 s2) s2 -> bwp (gets f1) (gets f2) Q s1 s2.
Proof. auto. Qed.
Lemma bwp_put t1 t2 (Q : unit -> bst -> unit -> bst -> Prop) s1 s2 : Q tt t1 tt t2 -> bwp (put t1) (put t2) Q s1 s2.
Proof. auto. Qed.
Lemma bwp_modify f1 f2 (Q : unit -> bst -> unit -> bst -> Prop) s1 s2 :
  Q tt (f1 s1) tt (f2 s2) -> bwp (modify f1) (modify f2) Q s1 s2.
Proof. auto. Qed.

Lemma bwp_elim {A1 A2} (m1 : BM A1) (m2 : BM A2) (Q : A1 -> bst -> A2 -> bst -> Prop) s1 s2 : bwp m1 m2 Q s1 s2 ->
  match m1 s1, m2 s2 with
  | Ok (a1, t1), Ok (a2, t2) => Q a1 t1 a2 t2
  | Ok _, Err _ _ => False
  | _, _ => True
  end.
Proof.
  unfold swp. destruct (m1 s1) as [[a1 t1]|e1 k1|n1|]; destruct (m2 s2) as [[a2 t2]|e2 k2|n2|]; auto.
Qed.
Lemma bwp_intro {A1 A2} (m1 : BM A1) (m2 : BM A2) (Q : A1 -> bst -> A2 -> bst -> Prop) s1 s2 :
  match m1 s1, m2 s2 with
  | Ok (a1, t1), Ok (a2, t2) => Q a1 t1 a2 t2
  | Ok _, Err _ _ => False
  | _, _ => True
  end -> bwp m1 m2 Q s1 s2.
Proof.
  unfold swp. destruct (m1 s1) as [[a1 t1]|e1 k1|n1|]; destruct (m2 s2) as [[a2 t2]|e2 k2|n2|]; auto.
Qed.

Lemma bwp_step_l {A B1 B2} (m : BM A) (f1 : A -> BM B1) (m2 : BM B2) (Q : B1 -> bst -> B2 -> bst -> Prop) s1 s2 a t1 :
  m s1 = Ok (a, t1) -> bwp (f1 a) m2 Q t1 s2 -> bwp (bind m f1) m2 Q s1 s2.
Proof. intros Hm H. unfold swp, bind in *. rewrite Hm. exact H. Qed.
Lemma bwp_step_r {A B1 B2} (m : BM A) (m1 : BM B1) (f2 : A -> BM B2) (Q : B1 -> bst -> B2 -> bst -> Prop) s1 s2 a t2 :
  m s2 = Ok (a, t2) -> bwp m1 (f2 a) Q s1 t2 -> bwp m1 (bind m f2) Q s1 s2.
Proof. intros Hm H. unfold swp, bind in *. rewrite Hm. exact H. Qed.
Lemma bwp_eval {A1 A2} (m1 : BM A1) (m2 : BM A2) (Q : A1 -> bst -> A2 -> bst -> Prop) s1 s2 a1 t1 a2 t2 :
  m1 s1 = Ok (a1, t1) -> m2 s2 = Ok (a2, t2) -> Q a1 t1 a2 t2 -> bwp m1 m2 Q s1 s2.
Proof. intros H1 H2 HQ. unfold swp. rewrite H1, H2. exact HQ. Qed.
Lemma bwp_bind_eval {A1 A2 B1 B2} (m1 : BM A1) (m2 : BM A2) (f1 : A1 -> BM B1) (f2 : A2 -> BM B2)
  (Q : B1 -> bst -> B2 -> bst -> Prop) s1 s2 a1 t1 a2 t2 :
  m1 s1 = Ok (a1, t1) -> m2 s2 = Ok (a2, t2) -> bwp (f1 a1) (f2 a2) Q t1 t2 -> bwp (bind m1 f1) (bind m2 f2) Q s1 s2.
Proof. intros H1 H2 HQ. apply bwp_bind. eapply bwp_eval; eassumption. Qed.
Lemma bwp_ext_r {A1 A2} (m1 : BM A1) (m2 m2' : BM A2) (Q : A1 -> bst -> A2 -> bst -> Prop) s1 s2 s2' :
  m2 s2 = m2' s2' -> bwp m1 m2' Q s1 s2' -> bwp m1 m2 Q s1 s2.
Proof. intros E H. unfold swp in *. rewrite E. exact H. Qed.
Lemma bwp_ext_l {A1 A2} (m1 m1' : BM A1) (m2 : BM A2) (Q : A1 -> bst -> A2 -> bst -> Prop) s1 s1' s2 :
  m1 s1 = m1' s1' -> bwp m1' m2 Q s1' s2 -> bwp m1 m2 Q s1 s2.
Proof. intros E H. unfold swp in *. rewrite E. exact H. Qed.
(* side 1 known to fail: nothing to show *)
Lemma bwp_err_eval {A1 A2} (m1 : BM A1) (m2 : BM A2) (Q : A1 -> bst -> A2 -> bst -> Prop) s1 s2 e k :
  m1 s1 = Err e k -> bwp m1 m2 Q s1 s2.
Proof. intros E. unfold swp. rewrite E. exact I. Qed.
End Calculus.

(* ================================================================================================ *)
(* 6. Closed forms of the string back-end's primitives                                              *)
(* ================================================================================================ *)
Definition bump (n : nat) (s : bst) : bst := set_in {| si_chars := rm s; si_look := Nat.max (lk s) n |} s.
Definition drop1 (s : bst) : bst := set_in {| si_chars := tl (rm s); si_look := lk s |} s.
Definition dropn (n : nat) (s : bst) : bst := set_in {| si_chars := skipn n (rm s); si_look := lk s |} s.
Definition bl1 (s : bst) : bst := set_mark (adv 1 (sc_mark s)) (drop1 s).
Definition nb1 (s : bst) : bst := set_lws false (bl1 s).
Definition nl1 (s : bst) : bst := set_lws true (set_mark (nlm (sc_mark s)) (drop1 s)).

Lemma look_ok n s : look sops n s = Ok (tt, bump n s). Proof. reflexivity. Qed.
Lemma peekn_ok k s : peekn sops k s = Ok (rn s k, s). Proof. reflexivity. Qed.
Lemma peek_ok s : SPrim.peek sops s = Ok (rn s 0, s). Proof. reflexivity. Qed.
Lemma look_ch_ok s : look_ch sops s = Ok (rn s 0, bump 1 s). Proof. reflexivity. Qed.
Lemma in_skip_ok s : in_skip sops s = Ok (tt, drop1 s). Proof. reflexivity. Qed.
Lemma in_skip_n_ok n s : in_skip_n sops n s = Ok (tt, dropn n s). Proof. reflexivity. Qed.
Lemma skip_blank_ok s : skip_blank sops s = Ok (tt, bl1 s). Proof. reflexivity. Qed.
Lemma skip_non_blank_ok s : skip_non_blank sops s = Ok (tt, nb1 s). Proof. reflexivity. Qed.
Lemma skip_nl_ok s : skip_nl sops s = Ok (tt, nl1 s). Proof. reflexivity. Qed.
Lemma adv_mark_ok n (s : bst) : adv_mark n s = Ok (tt, set_mark (adv n (sc_mark s)) s). Proof. reflexivity. Qed.

Lemma rm_bump n s : rm (bump n s) = rm s. Proof. reflexivity. Qed.
Lemma rm_drop1 s : rm (drop1 s) = tl (rm s). Proof. reflexivity. Qed.
Lemma rm_dropn n s : rm (dropn n s) = skipn n (rm s). Proof. reflexivity. Qed.
Lemma rm_bl1 s : rm (bl1 s) = tl (rm s). Proof. reflexivity. Qed.
Lemma rm_nb1 s : rm (nb1 s) = tl (rm s). Proof. reflexivity. Qed.
Lemma rm_nl1 s : rm (nl1 s) = tl (rm s). Proof. reflexivity. Qed.
Lemma lk_bump n s : lk (bump n s) = Nat.max (lk s) n. Proof. reflexivity. Qed.
Lemma ers_bump n s : ers (bump n s) = ers s. Proof. reflexivity. Qed.
Lemma ers_drop1 s : ers (drop1 s) = ers s. Proof. reflexivity. Qed.
Lemma ers_dropn n s : ers (dropn n s) = ers s. Proof. reflexivity. Qed.
Lemma rn_tl (t s : bst) i : rm t = tl (rm s) -> rn t i = rn s (S i).
Proof. unfold rn. intros ->. destruct (rm s); [destruct i; reflexivity|reflexivity]. Qed.
Lemma rn_eq (t s : bst) i : rm t = rm s -> rn t i = rn s i.
Proof. unfold rn. intros ->. reflexivity. Qed.
Lemma nth_skipn {A} n i (l : list A) d : nth i (skipn n l) d = nth (n + i) l d.
Proof.
  revert l; induction n as [|n IH]; intros l; [reflexivity|].
  destruct l as [|a l]; [destruct i; reflexivity|]. cbn [skipn]. cbn [Nat.add nth]. apply IH.
Qed.
Lemma rn_skipn (t s : bst) n i : rm t = skipn n (rm s) -> rn t i = rn s (n + i).
Proof. unfold rn. intros ->. apply nth_skipn. Qed.

Definition slb (s : bst) : bst :=
  if ((rn s 0 =? 13) && (rn s 1 =? 10))%N then nl1 (bl1 s) else if is_break (rn s 0) then nl1 s else s.
Definition sbk (s : bst) : bst := if ((rn s 0 =? 13) && (rn s 1 =? 10))%N then nl1 (bl1 s) else nl1 s.
Lemma skip_linebreak_eval s : skip_linebreak sops s = if Nat.ltb (lk s) 2 then Panic 103%N else Ok (tt, slb s).
Proof.
  unfold skip_linebreak, next_2_are, assert_buflen, bind, slb. cbn [buflen str_ops]. fold (lk s).
  destruct (Nat.ltb (lk s) 2); [reflexivity|].
  rewrite peek_ok, peekn_ok. unfold ret.
  destruct ((rn s 0 =? 13) && (rn s 1 =? 10))%N; [reflexivity|].
  rewrite peek_ok. destruct (is_break (rn s 0)); reflexivity.
Qed.
Lemma skip_break_eval s : skip_break sops s = if is_break (rn s 0) then Ok (tt, sbk s) else Panic 110%N.
Proof.
  unfold skip_break, bind, sbk. rewrite peek_ok, peekn_ok.
  destruct (is_break (rn s 0)); [|reflexivity]. unfold ret.
  destruct ((rn s 0 =? 13) && (rn s 1 =? 10))%N; reflexivity.
Qed.

Ltac rst_eq2 H := unfold rst, nl1, nb1, bl1, drop1, dropn, bump; skel_cbn; sh_fwd H; reflexivity.

(* ================================================================================================ *)
(* 7. The input primitives under the relation                                                       *)
(* ================================================================================================ *)
Section Rules.
Variable d : list chr.
Local Notation bwp := (swp d).

(* THE consumption lemma: both sides drop the same n characters of side 1's text, move their marks alike and set
   the flag alike; at the end of side 1 the column must be 0 and the flag set *)
Lemma SH_jump n s1 s2 (t1 t2 : bst) : SH d s1 s2 -> n <= length (rm s1) ->
  rm t1 = skipn n (rm s1) -> rm t2 = skipn n (rm s2) -> lk t2 = lk t1 ->
  sc_tokens t1 = sc_tokens s1 -> sc_tokens t2 = sc_tokens s2 -> rst t1 = rst t2 ->
  (rm t1 = [] -> m_col (sc_mark t1) = 0%N /\ sc_lws t1 = true) -> SH d t1 t2.
Proof.
  intros H Hn R1 R2 HL T1 T2 HR HE. constructor.
  - constructor; [|exact HL]. change (si_chars (sc_in t2)) with (rm t2). change (si_chars (sc_in t1)) with (rm t1).
    rewrite R2, R1, (SH_rm H). apply skipn_app_le. exact Hn.
  - rewrite T1, T2. exact (sh_tokens H).
  - exact HR.
  - rewrite R1. apply EB_skipn; [exact (sh_eb H)|exact Hn].
  - rewrite R1. apply NN_skipn. exact (sh_nn H).
  - exact HE.
Qed.

Lemma SH_bump n s1 s2 : SH d s1 s2 -> SH d (bump n s1) (bump n s2).
Proof.
  intros H. apply (SH_jump 0 s1 s2); try reflexivity; try lia; try exact H.
  - rewrite !lk_bump, (SH_lk H). reflexivity.
  - rst_eq2 H.
  - exact (sh_end H).
Qed.
Lemma tl_nonempty_of_nbz s1 s2 : SH d s1 s2 -> nbz (rn s1 0) -> tl (rm s1) <> [].
Proof.
  intros H H0 E. pose proof (SH_noLF_in H 1 (noLF_1 _ H0) (nbz_nonempty _ H0)) as HL.
  destruct (rm s1) as [|a [|b l]]; cbn in *; try lia; discriminate.
Qed.
Lemma SH_drop1 s1 s2 : SH d s1 s2 -> nbz (rn s1 0) -> SH d (drop1 s1) (drop1 s2).
Proof.
  intros H H0. pose proof (tl_nonempty_of_nbz _ _ H H0) as HT.
  apply (SH_jump 1 s1 s2); try exact H; try reflexivity.
  - pose proof (nbz_nonempty _ H0). destruct (rm s1); [contradiction|cbn; lia].
  - unfold drop1, lk. cbn. exact (SH_lk H).
  - rst_eq2 H.
  - rewrite rm_drop1. intros E. contradiction.
Qed.
Lemma SH_dropn s1 s2 n : SH d s1 s2 -> noLF n (rm s1) -> SH d (dropn n s1) (dropn n s2).
Proof.
  intros H HN. apply (SH_jump n s1 s2); try exact H; try reflexivity.
  - apply noLF_len. exact HN.
  - unfold dropn, lk. cbn. exact (SH_lk H).
  - rst_eq2 H.
  - rewrite rm_dropn. intros E. destruct n as [|n]; [apply (sh_end H); exact E|].
    exfalso. pose proof (SH_noLF_in H (S n) HN) as HL.
    assert (HE : rm s1 <> []) by (apply nbz_nonempty; apply (HN 0); lia). specialize (HL HE).
    pose proof (f_equal (@length chr) E) as EL. rewrite skipn_length in EL. cbn [length] in EL. lia.
Qed.
Lemma SH_adv n s1 s2 : SH d s1 s2 -> (rm s1 = [] -> n = 0%N) ->
  SH d (set_mark (adv n (sc_mark s1)) s1) (set_mark (adv n (sc_mark s2)) s2).
Proof.
  intros H HN. rewrite <- (SH_mark H). apply SH_set_mark; [exact H|]. intros E. cbn [adv m_col].
  rewrite (HN E). destruct (sh_end H E) as [-> _]. reflexivity.
Qed.
Lemma SH_bl1 s1 s2 : SH d s1 s2 -> nbz (rn s1 0) -> SH d (bl1 s1) (bl1 s2).
Proof.
  intros H H0. unfold bl1. apply (SH_adv 1 (drop1 s1) (drop1 s2)); [apply SH_drop1; assumption|].
  rewrite rm_drop1. intros E. exfalso. exact (tl_nonempty_of_nbz _ _ H H0 E).
Qed.
Lemma SH_nb1 s1 s2 : SH d s1 s2 -> nbz (rn s1 0) -> SH d (nb1 s1) (nb1 s2).
Proof.
  intros H H0. unfold nb1. apply SH_set_lws; [apply SH_bl1; assumption|]. right. rewrite rm_bl1.
  exact (tl_nonempty_of_nbz _ _ H H0).
Qed.
(* one character consumed as a line break (whatever it is, as long as it exists) *)
Lemma SH_nl1 s1 s2 : SH d s1 s2 -> rm s1 <> [] -> SH d (nl1 s1) (nl1 s2).
Proof.
  intros H HE. apply (SH_jump 1 s1 s2); try exact H; try reflexivity.
  - destruct (rm s1); [contradiction|cbn; lia].
  - unfold nl1, drop1, lk. cbn. exact (SH_lk H).
  - unfold nl1, drop1. rst_eq2 H.
  - intros _. split; reflexivity.
Qed.
(* one character consumed as a blank although it is a CR followed by LF: the text stays non-empty *)
Lemma SH_bl1_cr s1 s2 : SH d s1 s2 -> rn s1 1 <> 0%N -> SH d (bl1 s1) (bl1 s2).
Proof.
  intros H H1.
  assert (HL : 2 <= length (rm s1)).
  { unfold rn in H1. destruct (rm s1) as [|a [|b l]]; cbn in *; try contradiction; lia. }
  apply (SH_jump 1 s1 s2); try exact H; try reflexivity.
  - lia.
  - unfold bl1, drop1, lk. cbn. exact (SH_lk H).
  - unfold bl1, drop1. rst_eq2 H.
  - rewrite rm_bl1. intros E. destruct (rm s1) as [|a [|b l]]; cbn in *; try lia; discriminate.
Qed.
Lemma crlf_test s1 s2 : SH d s1 s2 ->
  ((rn s2 0 =? 13) && (rn s2 1 =? 10))%N = ((rn s1 0 =? 13) && (rn s1 1 =? 10))%N.
Proof. intros H. rewrite (SH_rn0 H), (SH_rn1' H), b1_eq_cr, b1_eq_lf. reflexivity. Qed.
Lemma break_nonempty (s : bst) : is_break (rn s 0) = true -> rm s <> [].
Proof. intros E R. unfold rn in E. rewrite R in E. discriminate E. Qed.
Lemma SH_slb s1 s2 : SH d s1 s2 -> SH d (slb s1) (slb s2).
Proof.
  intros H. unfold slb. rewrite (crlf_test _ _ H), (SH_rn0 H), b1_is_break.
  destruct ((rn s1 0 =? 13) && (rn s1 1 =? 10))%N eqn:E.
  - apply andb_true_iff in E. destruct E as [E0 E1]. apply N.eqb_eq in E1.
    assert (HB : SH d (bl1 s1) (bl1 s2)) by (apply SH_bl1_cr; [exact H|rewrite E1; discriminate]).
    apply SH_nl1; [exact HB|]. rewrite rm_bl1. intros R. unfold rn in E1. destruct (rm s1) as [|a [|b l]]; cbn in *; discriminate.
  - destruct (is_break (rn s1 0)) eqn:EB'; [apply SH_nl1; [exact H|apply break_nonempty; exact EB']|exact H].
Qed.
Lemma SH_sbk s1 s2 : SH d s1 s2 -> is_break (rn s1 0) = true -> SH d (sbk s1) (sbk s2).
Proof.
  intros H HB. unfold sbk. rewrite (crlf_test _ _ H).
  destruct ((rn s1 0 =? 13) && (rn s1 1 =? 10))%N eqn:E.
  - apply andb_true_iff in E. destruct E as [E0 E1]. apply N.eqb_eq in E1.
    assert (HB' : SH d (bl1 s1) (bl1 s2)) by (apply SH_bl1_cr; [exact H|rewrite E1; discriminate]).
    apply SH_nl1; [exact HB'|]. rewrite rm_bl1. intros R. unfold rn in E1. destruct (rm s1) as [|a [|b l]]; cbn in *; discriminate.
  - apply SH_nl1; [exact H|apply break_nonempty; exact HB].
Qed.

(* ---- look / peek ---- *)
Lemma bwp_look n (Q : unit -> bst -> unit -> bst -> Prop) s1 s2 :
  SH d s1 s2 ->
  (forall t1 t2, SH d t1 t2 -> rm t1 = rm s1 -> ers t1 = ers s1 -> ers t2 = ers s2 -> n <= lk t1 -> lk s1 <= lk t1 ->
                 Q tt t1 tt t2) ->
  bwp (look sops n) (look sops n) Q s1 s2.
Proof.
  intros H HQ. eapply bwp_eval; [apply look_ok|apply look_ok|].
  apply HQ; [apply SH_bump; exact H|reflexivity|reflexivity|reflexivity|rewrite lk_bump; lia|rewrite lk_bump; lia].
Qed.
Lemma bwp_peekn_raw k (Q : chr -> bst -> chr -> bst -> Prop) s1 s2 :
  Q (rn s1 k) s1 (rn s2 k) s2 -> bwp (peekn sops k) (peekn sops k) Q s1 s2.
Proof. intros HQ. exact HQ. Qed.
Lemma bwp_peekn k (Q : chr -> bst -> chr -> bst -> Prop) s1 s2 :
  SH d s1 s2 -> noLF k (rm s1) -> Q (rn s1 k) s1 (b1 (rn s1 k)) s2 -> bwp (peekn sops k) (peekn sops k) Q s1 s2.
Proof. intros H HL HQ. apply bwp_peekn_raw. rewrite (SH_rn H k HL). exact HQ. Qed.
(* positions 0, 1, 2: no premise *)
Lemma bwp_peekn_lt3 k (Q : chr -> bst -> chr -> bst -> Prop) s1 s2 :
  SH d s1 s2 -> k < 3 -> Q (rn s1 k) s1 (b1 (rn s1 k)) s2 -> bwp (peekn sops k) (peekn sops k) Q s1 s2.
Proof. intros H HL HQ. apply bwp_peekn_raw. rewrite (SH_rn_lt H k) by lia. exact HQ. Qed.
(* behind characters that are not breaks: the very same character *)
Lemma bwp_peekn_same k (Q : chr -> bst -> chr -> bst -> Prop) s1 s2 :
  SH d s1 s2 -> noLF k (rm s1) -> rm s1 <> [] -> (rn s1 k <> 0%N -> Q (rn s1 k) s1 (rn s1 k) s2) ->
  bwp (peekn sops k) (peekn sops k) Q s1 s2.
Proof. intros H HL HE HQ. apply bwp_peekn_raw. destruct (SH_rn_same H k HL HE) as [-> N0]. apply HQ. exact N0. Qed.
Lemma bwp_peek (Q : chr -> bst -> chr -> bst -> Prop) s1 s2 :
  SH d s1 s2 -> Q (rn s1 0) s1 (b1 (rn s1 0)) s2 -> bwp (SPrim.peek sops) (SPrim.peek sops) Q s1 s2.
Proof. intros H HQ. apply bwp_peekn; [exact H|apply noLF_0|exact HQ]. Qed.
Lemma bwp_look_ch (Q : chr -> bst -> chr -> bst -> Prop) s1 s2 :
  SH d s1 s2 ->
  (forall t1 t2, SH d t1 t2 -> rm t1 = rm s1 -> ers t1 = ers s1 -> ers t2 = ers s2 -> 1 <= lk t1 ->
                 Q (rn t1 0) t1 (b1 (rn t1 0)) t2) ->
  bwp (look_ch sops) (look_ch sops) Q s1 s2.
Proof.
  intros H HQ. unfold look_ch. apply bwp_bind. apply bwp_look; [exact H|].
  intros t1 t2 HT R1 E1 E2 L1 _. apply bwp_peek; [exact HT|]. apply HQ; assumption.
Qed.
(* a test of the next character: blind classes give the same answer; otherwise side 2 tests [b1 c] *)
Lemma bwp_next_is p (Q : bool -> bst -> bool -> bst -> Prop) s1 s2 :
  SH d s1 s2 -> bblind p -> Q (p (rn s1 0)) s1 (p (rn s1 0)) s2 -> bwp (next_is sops p) (next_is sops p) Q s1 s2.
Proof.
  intros H Hp HQ. unfold next_is. apply bwp_bind. apply bwp_peek; [exact H|]. apply bwp_ret. rewrite Hp. exact HQ.
Qed.
Lemma bwp_next_is_raw p (Q : bool -> bst -> bool -> bst -> Prop) s1 s2 :
  SH d s1 s2 -> Q (p (rn s1 0)) s1 (p (b1 (rn s1 0))) s2 -> bwp (next_is sops p) (next_is sops p) Q s1 s2.
Proof. intros H HQ. unfold next_is. apply bwp_bind. apply bwp_peek; [exact H|]. apply bwp_ret. exact HQ. Qed.
(* any class, when side 1 is not at its end *)
Lemma bwp_next_is_in p (Q : bool -> bst -> bool -> bst -> Prop) s1 s2 :
  SH d s1 s2 -> rm s1 <> [] -> Q (p (rn s1 0)) s1 (p (rn s1 0)) s2 -> bwp (next_is sops p) (next_is sops p) Q s1 s2.
Proof.
  intros H HE HQ. apply bwp_next_is_raw; [exact H|]. rewrite b1_other; [exact HQ|].
  apply (SH_rn_in H 0). destruct (rm s1); [contradiction|cbn; lia].
Qed.

(* ---- skipping ---- *)
Lemma bwp_in_skip (Q : unit -> bst -> unit -> bst -> Prop) s1 s2 :
  SH d s1 s2 -> nbz (rn s1 0) ->
  (forall t1 t2, SH d t1 t2 -> rm t1 = tl (rm s1) -> ers t1 = ers s1 -> ers t2 = ers s2 -> Q tt t1 tt t2) ->
  bwp (in_skip sops) (in_skip sops) Q s1 s2.
Proof.
  intros H H0 HQ. eapply bwp_eval; [apply in_skip_ok|apply in_skip_ok|].
  apply HQ; [apply SH_drop1; assumption|reflexivity|reflexivity|reflexivity].
Qed.
Lemma bwp_in_skip_n n (Q : unit -> bst -> unit -> bst -> Prop) s1 s2 :
  SH d s1 s2 -> noLF n (rm s1) ->
  (forall t1 t2, SH d t1 t2 -> rm t1 = skipn n (rm s1) -> ers t1 = ers s1 -> ers t2 = ers s2 -> Q tt t1 tt t2) ->
  bwp (in_skip_n sops n) (in_skip_n sops n) Q s1 s2.
Proof.
  intros H H0 HQ. eapply bwp_eval; [apply in_skip_n_ok|apply in_skip_n_ok|].
  apply HQ; [apply SH_dropn; assumption|reflexivity|reflexivity|reflexivity].
Qed.
(* adv_mark: at the end of side 1 only by 0 *)
Lemma bwp_adv_mark n (Q : unit -> bst -> unit -> bst -> Prop) s1 s2 :
  SH d s1 s2 -> (rm s1 = [] -> n = 0%N) ->
  (forall t1 t2, SH d t1 t2 -> rm t1 = rm s1 -> Q tt t1 tt t2) -> bwp (adv_mark n) (adv_mark n) Q s1 s2.
Proof. intros H HN HQ. unfold adv_mark. apply bwp_modify. apply HQ; [apply SH_adv; assumption|reflexivity]. Qed.
Lemma bwp_skip_blank (Q : unit -> bst -> unit -> bst -> Prop) s1 s2 :
  SH d s1 s2 -> nbz (rn s1 0) ->
  (forall t1 t2, SH d t1 t2 -> rm t1 = tl (rm s1) -> Q tt t1 tt t2) -> bwp (skip_blank sops) (skip_blank sops) Q s1 s2.
Proof.
  intros H H0 HQ. eapply bwp_eval; [apply skip_blank_ok|apply skip_blank_ok|].
  apply HQ; [apply SH_bl1; assumption|reflexivity].
Qed.
Lemma bwp_skip_non_blank (Q : unit -> bst -> unit -> bst -> Prop) s1 s2 :
  SH d s1 s2 -> nbz (rn s1 0) ->
  (forall t1 t2, SH d t1 t2 -> rm t1 = tl (rm s1) -> Q tt t1 tt t2) ->
  bwp (skip_non_blank sops) (skip_non_blank sops) Q s1 s2.
Proof.
  intros H H0 HQ. eapply bwp_eval; [apply skip_non_blank_ok|apply skip_non_blank_ok|].
  apply HQ; [apply SH_nb1; assumption|reflexivity].
Qed.
Lemma skipn_nonempty_of_noLF s1 s2 n : SH d s1 s2 -> noLF n (rm s1) -> 0 < n -> skipn n (rm s1) <> [].
Proof.
  intros H HN Hn E. pose proof (SH_noLF_in H n HN) as HL.
  assert (HE : rm s1 <> []) by (apply nbz_nonempty; apply (HN 0); lia). specialize (HL HE).
  pose proof (f_equal (@length chr) E) as EL. rewrite skipn_length in EL. cbn [length] in EL. lia.
Qed.
Lemma bwp_skip_n_non_blank n (Q : unit -> bst -> unit -> bst -> Prop) s1 s2 :
  SH d s1 s2 -> noLF n (rm s1) -> 0 < n ->
  (forall t1 t2, SH d t1 t2 -> rm t1 = skipn n (rm s1) -> Q tt t1 tt t2) ->
  bwp (skip_n_non_blank sops n) (skip_n_non_blank sops n) Q s1 s2.
Proof.
  intros H H0 Hn HQ. unfold skip_n_non_blank. apply bwp_bind. apply bwp_in_skip_n; [exact H|exact H0|].
  intros u1 u2 HU R1 _ _.
  assert (NE : rm u1 <> []) by (rewrite R1; eapply skipn_nonempty_of_noLF; eassumption).
  apply bwp_bind. apply bwp_adv_mark; [exact HU|intros E; contradiction|]. intros v1 v2 HV R2.
  apply bwp_modify. apply HQ; [apply SH_set_lws; [exact HV|right; rewrite R2; exact NE]|].
  change (rm (set_lws false v1)) with (rm v1). rewrite R2, R1. reflexivity.
Qed.

(* ---- the line break ---- *)
Lemma bwp_skip_nl (Q : unit -> bst -> unit -> bst -> Prop) s1 s2 :
  SH d s1 s2 -> rm s1 <> [] ->
  (forall t1 t2, SH d t1 t2 -> rm t1 = tl (rm s1) -> Q tt t1 tt t2) -> bwp (skip_nl sops) (skip_nl sops) Q s1 s2.
Proof.
  intros H HE HQ. eapply bwp_eval; [apply skip_nl_ok|apply skip_nl_ok|]. apply HQ; [apply SH_nl1; assumption|reflexivity].
Qed.
Lemma bwp_skip_linebreak (Q : unit -> bst -> unit -> bst -> Prop) s1 s2 :
  SH d s1 s2 -> (forall t1 t2, SH d t1 t2 -> rm t1 = rm (slb s1) -> Q tt t1 tt t2) ->
  bwp (skip_linebreak sops) (skip_linebreak sops) Q s1 s2.
Proof.
  intros H HQ. unfold swp. rewrite !skip_linebreak_eval.
  destruct (Nat.ltb (lk s1) 2); [exact I|]. destruct (Nat.ltb (lk s2) 2); [exact I|].
  apply HQ; [apply SH_slb; exact H|reflexivity].
Qed.
Lemma bwp_skip_break (Q : unit -> bst -> unit -> bst -> Prop) s1 s2 :
  SH d s1 s2 ->
  (forall t1 t2, SH d t1 t2 -> is_break (rn s1 0) = true -> rm t1 = rm (sbk s1) -> Q tt t1 tt t2) ->
  bwp (skip_break sops) (skip_break sops) Q s1 s2.
Proof.
  intros H HQ. unfold swp. rewrite !skip_break_eval, (SH_rn0 H), b1_is_break.
  destruct (is_break (rn s1 0)) eqn:E; [|exact I]. apply HQ; [apply SH_sbk; assumption|reflexivity|reflexivity].
Qed.

(* ---- raw_read / buf_is_empty / assert_buflen ---- *)
(* raw_read: only inside side 1's text (at its end side 2 would consume the marker) *)
Lemma bwp_raw_read (Q : option chr -> bst -> option chr -> bst -> Prop) s1 s2 :
  SH d s1 s2 -> rm s1 <> [] ->
  (forall c t1 t2, SH d t1 t2 -> ers t1 = ers s1 -> ers t2 = ers s2 -> rm t1 <> [] ->
     match c with
     | Some x => rm s1 = x :: rm t1 /\ is_breakz x = false
     | None => rm t1 = rm s1 /\ is_breakz (rn s1 0) = true
     end -> Q c t1 c t2) ->
  bwp (raw_read sops) (raw_read sops) Q s1 s2.
Proof.
  intros H HE HQ. unfold swp, raw_read. cbn [raw_read_non_breakz str_ops].
  change (si_chars (sc_in s2)) with (rm s2). rewrite (SH_rm H). change (si_chars (sc_in s1)) with (rm s1).
  assert (HSame : SH d (set_in (sc_in s1) s1) (set_in (sc_in s2) s2)).
  { apply (SH_frame d s1 s2); auto; [exact (sh_tokens H)|rst_eq H|exact (sh_end H)]. }
  destruct (rm s1) as [|c r] eqn:E1; [contradiction|]. cbn [app].
  destruct (is_breakz c) eqn:Eb.
  - apply HQ; [exact HSame|reflexivity|reflexivity| |].
    + change (rm (set_in (sc_in s1) s1)) with (rm s1). rewrite E1. discriminate.
    + split; [exact E1|]. unfold rn. rewrite E1. exact Eb.
  - assert (H0 : nbz (rn s1 0)) by (unfold rn; rewrite E1; exact Eb).
    pose proof (SH_drop1 _ _ H H0) as HD. pose proof (tl_nonempty_of_nbz _ _ H H0) as HT. rewrite E1 in HT. cbn [tl] in HT.
    unfold drop1 in HD. rewrite (SH_rm H), E1 in HD. cbn [tl app] in HD.
    apply HQ; [exact HD|reflexivity|reflexivity|exact HT|split; [reflexivity|exact Eb]].
Qed.
Lemma bwp_buf_is_empty (Q : bool -> bst -> bool -> bst -> Prop) s1 s2 :
  SH d s1 s2 -> Q (Nat.eqb (lk s1) 0) s1 (Nat.eqb (lk s1) 0) s2 -> bwp (buf_is_empty sops) (buf_is_empty sops) Q s1 s2.
Proof.
  intros H HQ. unfold buf_is_empty. apply bwp_gets. cbn [buflen str_ops]. fold (lk s1). fold (lk s2).
  rewrite (SH_lk H). exact HQ.
Qed.
Lemma bwp_assert_buflen n site (Q : unit -> bst -> unit -> bst -> Prop) s1 s2 :
  SH d s1 s2 -> Q tt s1 tt s2 -> bwp (assert_buflen sops n site) (assert_buflen sops n site) Q s1 s2.
Proof.
  intros H HQ. unfold swp, assert_buflen. cbn [buflen str_ops].
  destruct (Nat.ltb (si_look (sc_in s1)) n); [exact I|]. destruct (Nat.ltb (si_look (sc_in s2)) n); [exact I|exact HQ].
Qed.

End Rules.

(* ================================================================================================ *)
(* 8. The Input default methods (input.rs): tests on the next characters                            *)
(* ================================================================================================ *)
Definition n2are (s : bst) (a b : chr) : bool := ((rn s 0 =? a) && (rn s 1 =? b))%N.
Definition n3are (s : bst) (a b c : chr) : bool := ((rn s 0 =? a) && (rn s 1 =? b) && (rn s 2 =? c))%N.
Definition docind_val (s : bst) : bool :=
  if is_blank_or_breakz (rn s 3) then (if n3are s 46%N 46%N 46%N then true else n3are s 45%N 45%N 45%N) else false.
Definition docstart_val (s : bst) : bool := if n3are s 45%N 45%N 45%N then is_blank_or_breakz (rn s 3) else false.
Definition docend_val (s : bst) : bool := if n3are s 46%N 46%N 46%N then is_blank_or_breakz (rn s 3) else false.
Definition plain_ok_val (fl : bool) (s : bst) : bool :=
  if ((rn s 0 =? 58)%N && (is_blank_or_breakz (rn s 1) || (fl && is_flow (rn s 1)))) then false
  else if fl && is_flow (rn s 0) then false else true.
Definition atend (s : bst) : bool := match rm s with [] => true | _ => false end.
Lemma atend_true s : atend s = true -> rm s = [].
Proof. unfold atend. destruct (rm s); [reflexivity|discriminate]. Qed.
Lemma atend_false s : atend s = false -> rm s <> [].
Proof. unfold atend. destruct (rm s); [discriminate|discriminate]. Qed.
Lemma atend_rn0 s : atend s = true -> rn s 0 = 0%N.
Proof. intros H. unfold rn. rewrite (atend_true _ H). reflexivity. Qed.

Lemma next_2_are_eval s a b : next_2_are sops a b s = if Nat.ltb (lk s) 2 then Panic 103%N else Ok (n2are s a b, s).
Proof. unfold next_2_are, assert_buflen, bind. cbn [buflen str_ops]. fold (lk s). destruct (Nat.ltb (lk s) 2); reflexivity. Qed.
Lemma next_3_are_eval s a b c : next_3_are sops a b c s = if Nat.ltb (lk s) 3 then Panic 104%N else Ok (n3are s a b c, s).
Proof. unfold next_3_are, assert_buflen, bind. cbn [buflen str_ops]. fold (lk s). destruct (Nat.ltb (lk s) 3); reflexivity. Qed.
Lemma ltb4_3 n : Nat.ltb n 4 = false -> Nat.ltb n 3 = false.
Proof. intros H. apply Nat.ltb_ge in H. apply Nat.ltb_ge. lia. Qed.
Lemma docind_eval s : next_is_document_indicator sops s = if Nat.ltb (lk s) 4 then Panic 105%N else Ok (docind_val s, s).
Proof.
  unfold next_is_document_indicator, assert_buflen, bind. cbn [buflen str_ops]. fold (lk s).
  destruct (Nat.ltb (lk s) 4) eqn:E; [reflexivity|]. rewrite peekn_ok. unfold docind_val.
  destruct (is_blank_or_breakz (rn s 3)); [|reflexivity].
  rewrite next_3_are_eval, (ltb4_3 _ E). destruct (n3are s 46%N 46%N 46%N); [reflexivity|].
  rewrite next_3_are_eval, (ltb4_3 _ E). reflexivity.
Qed.
Lemma docstart_eval s : next_is_document_start sops s = if Nat.ltb (lk s) 4 then Panic 106%N else Ok (docstart_val s, s).
Proof.
  unfold next_is_document_start, assert_buflen, bind. cbn [buflen str_ops]. fold (lk s).
  destruct (Nat.ltb (lk s) 4) eqn:E; [reflexivity|]. rewrite next_3_are_eval, (ltb4_3 _ E). unfold docstart_val.
  destruct (n3are s 45%N 45%N 45%N); reflexivity.
Qed.
Lemma docend_eval s : next_is_document_end sops s = if Nat.ltb (lk s) 4 then Panic 107%N else Ok (docend_val s, s).
Proof.
  unfold next_is_document_end, assert_buflen, bind. cbn [buflen str_ops]. fold (lk s).
  destruct (Nat.ltb (lk s) 4) eqn:E; [reflexivity|]. rewrite next_3_are_eval, (ltb4_3 _ E). unfold docend_val.
  destruct (n3are s 46%N 46%N 46%N); reflexivity.
Qed.
Lemma plain_ok_eval fl s : next_can_be_plain_scalar sops fl s = Ok (plain_ok_val fl s, s).
Proof.
  unfold next_can_be_plain_scalar, bind. rewrite peekn_ok, peek_ok. unfold plain_ok_val.
  destruct ((rn s 0 =? 58)%N && (is_blank_or_breakz (rn s 1) || fl && is_flow (rn s 1))); [reflexivity|].
  destruct (fl && is_flow (rn s 0)); reflexivity.
Qed.

Lemma nth_pred_last {A} (l : list A) x : l <> [] -> nth (length l - 1) l x = last l x.
Proof.
  intros H. destruct (@exists_last _ l H) as (l' & z & ->). rewrite last_last, app_length. cbn [length].
  rewrite app_nth2 by lia. replace (length l' + 1 - 1 - length l') with 0 by lia. reflexivity.
Qed.
Lemma break_not_marker c : is_break c = true -> (c =? 46)%N = false /\ (c =? 45)%N = false.
Proof.
  unfold is_break. intros H. apply orb_true_iff in H. destruct H as [H|H]; apply N.eqb_eq in H; subst; split; reflexivity.
Qed.
Lemma n3are_short (s : bst) x k : k < 3 -> is_break (rn s k) = true -> (x = 46%N \/ x = 45%N) -> n3are s x x x = false.
Proof.
  intros Hk HB Hx. destruct (break_not_marker _ HB) as [E46 E45]. unfold n3are.
  assert (E : (rn s k =? x)%N = false) by (destruct Hx; subst; assumption).
  destruct k as [|[|[|k]]]; try lia; rewrite E; rewrite ?andb_false_r; reflexivity.
Qed.

Section Tests.
Variable d : list chr.
Local Notation bwp := (swp d).

Lemma n2are_brk s1 s2 a b : SH d s1 s2 -> lit a -> lit b -> n2are s2 a b = n2are s1 a b.
Proof. intros H La Lb. unfold n2are. rewrite (SH_rn0 H), (SH_rn1' H), !b1_eqb by assumption. reflexivity. Qed.
Lemma n3are_brk s1 s2 a b c : SH d s1 s2 -> lit a -> lit b -> lit c -> n3are s2 a b c = n3are s1 a b c.
Proof. intros H La Lb Lc. unfold n3are. rewrite (SH_rn0 H), (SH_rn1' H), (SH_rn2' H), !b1_eqb by assumption. reflexivity. Qed.
Lemma n3are_noLF (s : bst) a b c : lit a -> lit b -> lit c -> n3are s a b c = true -> noLF 3 (rm s).
Proof.
  intros La Lb Lc E. unfold n3are in E. apply andb_true_iff in E. destruct E as [E Ec].
  apply andb_true_iff in E. destruct E as [Ea Eb].
  apply noLF_S; [apply noLF_S; [apply noLF_1; exact (lit_eq_nbz _ a La Ea)|exact (lit_eq_nbz _ b Lb Eb)]
                |exact (lit_eq_nbz _ c Lc Ec)].
Qed.
(* the three document tests: the same answers inside the text; at the end of side 1 side 2 sees the "..." line *)
Lemma short_or_long s1 s2 : SH d s1 s2 -> rm s1 <> [] ->
  (exists k, k < 3 /\ is_break (rn s1 k) = true /\ is_break (rn s2 k) = true)
  \/ (rn s2 0 = rn s1 0 /\ rn s2 1 = rn s1 1 /\ rn s2 2 = rn s1 2 /\ rn s2 3 = rn s1 3).
Proof.
  intros H HE. destruct (Nat.lt_ge_cases 3 (length (rm s1))) as [HL|HL].
  - right. repeat split; apply (SH_rn_in H); lia.
  - left. exists (length (rm s1) - 1).
    assert (HP : 0 < length (rm s1)) by (destruct (rm s1); [contradiction|cbn; lia]).
    split; [lia|]. destruct (SH_rn_in H (length (rm s1) - 1) ltac:(lia)) as [E _]. rewrite E.
    assert (EB1 : is_break (rn s1 (length (rm s1) - 1)) = true).
    { unfold rn. rewrite nth_pred_last by exact HE. destruct (sh_eb H) as [E0|E0]; [contradiction|exact E0]. }
    split; exact EB1.
Qed.
Lemma docstart_brk s1 s2 : SH d s1 s2 -> docstart_val s2 = docstart_val s1.
Proof.
  intros H. unfold docstart_val. rewrite (n3are_brk _ _ _ _ _ H) by reflexivity.
  destruct (n3are s1 45%N 45%N 45%N) eqn:E; [|reflexivity].
  assert (L45 : lit 45%N) by reflexivity.
  pose proof (n3are_noLF s1 _ _ _ L45 L45 L45 E) as HN.
  assert (HE : rm s1 <> []) by (apply nbz_nonempty; apply (HN 0); lia).
  destruct (SH_rn_same H 3 HN HE) as [-> _]. reflexivity.
Qed.
Lemma docend_brk s1 s2 : SH d s1 s2 -> docend_val s2 = docend_val s1 || atend s1.
Proof.
  intros H. destruct (atend s1) eqn:EA.
  - rewrite orb_true_r. destruct (SH_end_rn H (atend_true _ EA)) as (E0 & E1 & E2 & E3).
    unfold docend_val, n3are. rewrite E0, E1, E2, E3. reflexivity.
  - rewrite orb_false_r. destruct (short_or_long _ _ H (atend_false _ EA)) as [(k & Hk & B1 & B2)|(E0 & E1 & E2 & E3)].
    + unfold docend_val. rewrite (n3are_short s1 46%N k), (n3are_short s2 46%N k) by auto. reflexivity.
    + unfold docend_val, n3are. rewrite E0, E1, E2, E3. reflexivity.
Qed.
Lemma docind_brk s1 s2 : SH d s1 s2 -> docind_val s2 = docind_val s1 || atend s1.
Proof.
  intros H. destruct (atend s1) eqn:EA.
  - rewrite orb_true_r. destruct (SH_end_rn H (atend_true _ EA)) as (E0 & E1 & E2 & E3).
    unfold docind_val, n3are. rewrite E0, E1, E2, E3. reflexivity.
  - rewrite orb_false_r. destruct (short_or_long _ _ H (atend_false _ EA)) as [(k & Hk & B1 & B2)|(E0 & E1 & E2 & E3)].
    + unfold docind_val. rewrite (n3are_short s1 46%N k), (n3are_short s2 46%N k), (n3are_short s1 45%N k), (n3are_short s2 45%N k) by auto.
      destruct (is_blank_or_breakz (rn s1 3)), (is_blank_or_breakz (rn s2 3)); reflexivity.
    + unfold docind_val, n3are. rewrite E0, E1, E2, E3. reflexivity.
Qed.
Lemma plain_ok_brk fl s1 s2 : SH d s1 s2 -> nbz (rn s1 0) -> plain_ok_val fl s2 = plain_ok_val fl s1.
Proof.
  intros H H0. unfold plain_ok_val. destruct (SH_rn1 H H0) as [-> _]. rewrite (SH_rn0_other H (nbz_nz _ H0)). reflexivity.
Qed.
Lemma guard1_brk p k s1 s2 : SH d s1 s2 -> lit k ->
  ((rn s2 0 =? k)%N && p (rn s2 1)) = ((rn s1 0 =? k)%N && p (rn s1 1)).
Proof.
  intros H Lk. rewrite (SH_rn0 H), b1_eqb by exact Lk. destruct (rn s1 0 =? k)%N eqn:E; [|reflexivity].
  destruct (SH_rn1 H (lit_eq_nbz _ _ Lk E)) as [-> _]. reflexivity.
Qed.

Lemma bwp_next_char_is c (Q : bool -> bst -> bool -> bst -> Prop) s1 s2 :
  SH d s1 s2 -> lit c -> Q (rn s1 0 =? c)%N s1 (rn s1 0 =? c)%N s2 -> bwp (next_char_is sops c) (next_char_is sops c) Q s1 s2.
Proof.
  intros H Lc HQ. unfold next_char_is. apply bwp_bind. apply (bwp_peek d); [exact H|]. apply bwp_ret.
  rewrite b1_eqb by exact Lc. exact HQ.
Qed.
Lemma bwp_nth_char_is n c (Q : bool -> bst -> bool -> bst -> Prop) s1 s2 :
  SH d s1 s2 -> noLF n (rm s1) -> lit c -> Q (rn s1 n =? c)%N s1 (rn s1 n =? c)%N s2 ->
  bwp (nth_char_is sops n c) (nth_char_is sops n c) Q s1 s2.
Proof.
  intros H HL Lc HQ. unfold nth_char_is. apply bwp_bind. apply (bwp_peekn d); [exact H|exact HL|]. apply bwp_ret.
  rewrite b1_eqb by exact Lc. exact HQ.
Qed.
Lemma bwp_next_2_are a b (Q : bool -> bst -> bool -> bst -> Prop) s1 s2 :
  SH d s1 s2 -> lit a -> lit b -> Q (n2are s1 a b) s1 (n2are s1 a b) s2 -> bwp (next_2_are sops a b) (next_2_are sops a b) Q s1 s2.
Proof.
  intros H La Lb HQ. unfold swp. rewrite !next_2_are_eval. destruct (Nat.ltb (lk s1) 2); [exact I|].
  destruct (Nat.ltb (lk s2) 2); [exact I|]. rewrite (n2are_brk _ _ a b H La Lb). exact HQ.
Qed.
Lemma bwp_next_3_are a b c (Q : bool -> bst -> bool -> bst -> Prop) s1 s2 :
  SH d s1 s2 -> lit a -> lit b -> lit c -> Q (n3are s1 a b c) s1 (n3are s1 a b c) s2 ->
  bwp (next_3_are sops a b c) (next_3_are sops a b c) Q s1 s2.
Proof.
  intros H La Lb Lc HQ. unfold swp. rewrite !next_3_are_eval. destruct (Nat.ltb (lk s1) 3); [exact I|].
  destruct (Nat.ltb (lk s2) 3); [exact I|]. rewrite (n3are_brk _ _ a b c H La Lb Lc). exact HQ.
Qed.
Lemma bwp_next_is_document_indicator (Q : bool -> bst -> bool -> bst -> Prop) s1 s2 :
  SH d s1 s2 -> Q (docind_val s1) s1 (docind_val s1 || atend s1) s2 ->
  bwp (next_is_document_indicator sops) (next_is_document_indicator sops) Q s1 s2.
Proof.
  intros H HQ. unfold swp. rewrite !docind_eval. destruct (Nat.ltb (lk s1) 4); [exact I|].
  destruct (Nat.ltb (lk s2) 4); [exact I|]. rewrite (docind_brk _ _ H). exact HQ.
Qed.
Lemma bwp_next_is_document_start (Q : bool -> bst -> bool -> bst -> Prop) s1 s2 :
  SH d s1 s2 -> Q (docstart_val s1) s1 (docstart_val s1) s2 ->
  bwp (next_is_document_start sops) (next_is_document_start sops) Q s1 s2.
Proof.
  intros H HQ. unfold swp. rewrite !docstart_eval. destruct (Nat.ltb (lk s1) 4); [exact I|].
  destruct (Nat.ltb (lk s2) 4); [exact I|]. rewrite (docstart_brk _ _ H). exact HQ.
Qed.
Lemma bwp_next_is_document_end (Q : bool -> bst -> bool -> bst -> Prop) s1 s2 :
  SH d s1 s2 -> Q (docend_val s1) s1 (docend_val s1 || atend s1) s2 ->
  bwp (next_is_document_end sops) (next_is_document_end sops) Q s1 s2.
Proof.
  intros H HQ. unfold swp. rewrite !docend_eval. destruct (Nat.ltb (lk s1) 4); [exact I|].
  destruct (Nat.ltb (lk s2) 4); [exact I|]. rewrite (docend_brk _ _ H). exact HQ.
Qed.
Lemma bwp_next_can_be_plain_scalar fl (Q : bool -> bst -> bool -> bst -> Prop) s1 s2 :
  SH d s1 s2 -> nbz (rn s1 0) -> Q (plain_ok_val fl s1) s1 (plain_ok_val fl s1) s2 ->
  bwp (next_can_be_plain_scalar sops fl) (next_can_be_plain_scalar sops fl) Q s1 s2.
Proof.
  intros H N0 HQ. unfold swp. rewrite !plain_ok_eval. rewrite (plain_ok_brk fl _ _ H N0). exact HQ.
Qed.
End Tests.

(* ================================================================================================ *)
(* 9. Contracts (proved in the ScanPrefix*.v files); TWO independent fuels everywhere               *)
(* ================================================================================================ *)
Definition OTS (d : list chr) (o1 o2 : option token) : Prop :=
  match o1, o2 with Some t1, Some t2 => TS d t1 t2 | None, None => True | _, _ => False end.

(* fetch_next_token behind its end-of-input test: the dispatcher *)
Section Dispatch.
Local Open Scope N_scope.
Local Open Scope mon_scope.
Definition fnt_dispatch (F : nat) : BM unit :=
  s <- get ;;
  c0 <- SPrim.peek sops ;;
  dstart <- (if m_col (sc_mark s) =? 0 then if c0 =? 37 then ret false else next_is_document_start sops else ret false) ;;
  dend <- (if (m_col (sc_mark s) =? 0) && negb (c0 =? 37) && negb dstart then next_is_document_end sops else ret false) ;;
  if (m_col (sc_mark s) =? 0) && (c0 =? 37) then fetch_directive sops F
  else if dstart then fetch_document_indicator sops TDocumentStart
  else if dend then
    fetch_document_indicator sops TDocumentEnd ;;;
    skip_ws_to_eol sops F SkipYes ;;;
    b <- next_is sops is_breakz ;;
    if b then ret tt else m <- mark ;; fail 101 m
  else
  if (Z.of_N (m_col (sc_mark s)) <? sc_indent s)%Z then fail 102 (sc_mark s) else
  c <- SPrim.peek sops ;; nc <- peekn sops 1 ;;
  let fl := 0 <? sc_flow_level s in
  let bz := is_blank_or_breakz nc in
  if c =? 91 then fetch_flow_collection_start sops F true
  else if c =? 123 then fetch_flow_collection_start sops F false
  else if c =? 93 then fetch_flow_collection_end sops F true
  else if c =? 125 then fetch_flow_collection_end sops F false
  else if c =? 44 then fetch_flow_entry sops F
  else if (c =? 45) && bz then fetch_block_entry sops F
  else if (c =? 63) && bz then fetch_key sops F
  else if (c =? 58) && bz then fetch_value sops F
  else if (c =? 58) && fl && (is_flow nc || (m_index (sc_mark s) =? sc_adjacent s)) then fetch_flow_value sops F
  else if c =? 42 then fetch_anchor sops F true
  else if c =? 38 then fetch_anchor sops F false
  else if c =? 33 then fetch_tag sops F
  else if (c =? 124) && negb fl then fetch_block_scalar sops F true
  else if (c =? 62) && negb fl then fetch_block_scalar sops F false
  else if c =? 39 then fetch_flow_scalar sops F true
  else if c =? 34 then fetch_flow_scalar sops F false
  else if (c =? 45) && negb bz then fetch_plain_scalar sops F
  else if ((c =? 58) || (c =? 63)) && negb bz && negb fl then fetch_plain_scalar sops F
  else if (c =? 37) || (c =? 64) || (c =? 96) then fail 103 (sc_mark s)
  else fetch_plain_scalar sops F.
Lemma fetch_next_token_unfold F :
  fetch_next_token sops F =
  (look sops 1 ;;;
   s <- get ;;
   if negb (sc_stream_start s) then fetch_stream_start else
   skip_to_next_token sops F ;;;
   stale_simple_keys ;;;
   m <- mark ;;
   unroll_indent (Z.of_N (m_col m)) ;;;
   look sops 4 ;;;
   z <- next_is sops is_z ;;
   if z then fetch_stream_end else fnt_dispatch F).
Proof. reflexivity. Qed.
End Dispatch.

Section Contracts.
Variable d : list chr.
Local Notation bwp := (swp d).

(* [bpost VR]: values related by [VR], states related;  [bpost_al VR]: moreover the next character of side 1 is
   not a line break;  [bpost_ne s1 VR]: moreover side 1 has not reached its end if it was not there before *)
Definition bpost {A1 A2} (VR : A1 -> A2 -> Prop) : A1 -> bst -> A2 -> bst -> Prop :=
  fun a1 t1 a2 t2 => VR a1 a2 /\ SH d t1 t2.
Definition bpost_al {A1 A2} (VR : A1 -> A2 -> Prop) : A1 -> bst -> A2 -> bst -> Prop :=
  fun a1 t1 a2 t2 => VR a1 a2 /\ SH d t1 t2 /\ is_break (rn t1 0) = false.
Definition bpost_ne (s1 : bst) {A1 A2} (VR : A1 -> A2 -> Prop) : A1 -> bst -> A2 -> bst -> Prop :=
  fun a1 t1 a2 t2 => VR a1 a2 /\ SH d t1 t2 /\ (rm s1 <> [] -> rm t1 <> []).

(* --- primitives family --- *)
Definition shf_skip_to_next_token : Prop := forall F1 F2 s1 s2, SH d s1 s2 ->
  bwp (skip_to_next_token sops F1) (skip_to_next_token sops F2) (bpost_al eq) s1 s2.
Definition shf_skip_ws_to_eol : Prop := forall F1 F2 stb s1 s2, SH d s1 s2 ->
  bwp (skip_ws_to_eol sops F1 stb) (skip_ws_to_eol sops F2 stb) (bpost_ne s1 eq) s1 s2.
Definition shf_skip_yaml_whitespace : Prop := forall F1 F2 s1 s2, SH d s1 s2 ->
  bwp (skip_yaml_whitespace sops F1) (skip_yaml_whitespace sops F2) (bpost_al eq) s1 s2.

(* --- scanners: entered at a character that is neither a line break nor NUL; the same token up to [TS d] --- *)
Definition shf_scan_directive : Prop := forall F1 F2 s1 s2, SH d s1 s2 -> nbz (rn s1 0) ->
  bwp (scan_directive sops F1) (scan_directive sops F2) (bpost (TS d)) s1 s2.
Definition shf_scan_tag : Prop := forall F1 F2 s1 s2, SH d s1 s2 -> nbz (rn s1 0) ->
  bwp (scan_tag sops F1) (scan_tag sops F2) (bpost (TS d)) s1 s2.
Definition shf_scan_anchor : Prop := forall F1 F2 alias s1 s2, SH d s1 s2 -> nbz (rn s1 0) ->
  bwp (scan_anchor sops F1 alias) (scan_anchor sops F2 alias) (bpost (TS d)) s1 s2.
Definition shf_scan_flow_scalar : Prop := forall F1 F2 single s1 s2, SH d s1 s2 -> nbz (rn s1 0) ->
  bwp (scan_flow_scalar sops F1 single) (scan_flow_scalar sops F2 single) (bpost (TS d)) s1 s2.
Definition shf_scan_plain_scalar : Prop := forall F1 F2 s1 s2, SH d s1 s2 -> nbz (rn s1 0) ->
  bwp (scan_plain_scalar sops F1) (scan_plain_scalar sops F2) (bpost (TS d)) s1 s2.
Definition shf_scan_block_scalar : Prop := forall F1 F2 literal s1 s2, SH d s1 s2 -> nbz (rn s1 0) ->
  bwp (scan_block_scalar sops F1 literal) (scan_block_scalar sops F2 literal) (bpost (TS d)) s1 s2.

(* --- skeleton --- *)
Definition shf_fetch_stream_start : Prop := forall s1 s2, SH d s1 s2 ->
  bwp fetch_stream_start fetch_stream_start (bpost eq) s1 s2.
Definition shf_fetch_directive : Prop := forall F1 F2 s1 s2, SH d s1 s2 -> nbz (rn s1 0) ->
  bwp (fetch_directive sops F1) (fetch_directive sops F2) (bpost eq) s1 s2.
Definition shf_fetch_tag : Prop := forall F1 F2 s1 s2, SH d s1 s2 -> nbz (rn s1 0) ->
  bwp (fetch_tag sops F1) (fetch_tag sops F2) (bpost eq) s1 s2.
Definition shf_fetch_anchor : Prop := forall F1 F2 alias s1 s2, SH d s1 s2 -> nbz (rn s1 0) ->
  bwp (fetch_anchor sops F1 alias) (fetch_anchor sops F2 alias) (bpost eq) s1 s2.
Definition shf_fetch_flow_collection_start : Prop := forall F1 F2 seq s1 s2, SH d s1 s2 -> nbz (rn s1 0) ->
  bwp (fetch_flow_collection_start sops F1 seq) (fetch_flow_collection_start sops F2 seq) (bpost eq) s1 s2.
Definition shf_fetch_flow_collection_end : Prop := forall F1 F2 seq s1 s2, SH d s1 s2 -> nbz (rn s1 0) ->
  bwp (fetch_flow_collection_end sops F1 seq) (fetch_flow_collection_end sops F2 seq) (bpost eq) s1 s2.
Definition shf_fetch_flow_entry : Prop := forall F1 F2 s1 s2, SH d s1 s2 -> nbz (rn s1 0) ->
  bwp (fetch_flow_entry sops F1) (fetch_flow_entry sops F2) (bpost eq) s1 s2.
Definition shf_fetch_block_entry : Prop := forall F1 F2 s1 s2, SH d s1 s2 -> nbz (rn s1 0) ->
  bwp (fetch_block_entry sops F1) (fetch_block_entry sops F2) (bpost eq) s1 s2.
Definition shf_fetch_document_indicator : Prop := forall t s1 s2, SH d s1 s2 -> noLF 3 (rm s1) ->
  bwp (fetch_document_indicator sops t) (fetch_document_indicator sops t) (bpost eq) s1 s2.
Definition shf_fetch_block_scalar : Prop := forall F1 F2 literal s1 s2, SH d s1 s2 -> nbz (rn s1 0) ->
  bwp (fetch_block_scalar sops F1 literal) (fetch_block_scalar sops F2 literal) (bpost eq) s1 s2.
Definition shf_fetch_flow_scalar : Prop := forall F1 F2 single s1 s2, SH d s1 s2 -> nbz (rn s1 0) ->
  bwp (fetch_flow_scalar sops F1 single) (fetch_flow_scalar sops F2 single) (bpost eq) s1 s2.
Definition shf_fetch_plain_scalar : Prop := forall F1 F2 s1 s2, SH d s1 s2 -> nbz (rn s1 0) ->
  bwp (fetch_plain_scalar sops F1) (fetch_plain_scalar sops F2) (bpost eq) s1 s2.
Definition shf_fetch_key : Prop := forall F1 F2 s1 s2, SH d s1 s2 -> nbz (rn s1 0) ->
  bwp (fetch_key sops F1) (fetch_key sops F2) (bpost eq) s1 s2.
Definition shf_fetch_value : Prop := forall F1 F2 s1 s2, SH d s1 s2 -> nbz (rn s1 0) ->
  bwp (fetch_value sops F1) (fetch_value sops F2) (bpost eq) s1 s2.
Definition shf_fetch_flow_value : Prop := forall F1 F2 s1 s2, SH d s1 s2 -> nbz (rn s1 0) ->
  (0 <? sc_flow_level s1)%N = true ->
  bwp (fetch_flow_value sops F1) (fetch_flow_value sops F2) (bpost eq) s1 s2.
(* the dispatcher, entered at a character that is neither a line break nor NUL (side 1 has just seen that it is
   not at the end of its input) *)
Definition shf_dispatch : Prop := forall F1 F2 s1 s2, SH d s1 s2 -> nbz (rn s1 0) ->
  bwp (fnt_dispatch F1) (fnt_dispatch F2) (bpost eq) s1 s2.
End Contracts.

(* ---- non-emptiness of side 1's text: the way to get rid of [b1] under classes that are not blind ---- *)
Lemma SH_nz d (s1 s2 : bst) : SH d s1 s2 -> rm s1 <> [] -> rn s1 0 <> 0%N.
Proof. intros H HE. apply (SH_rn_in H 0). destruct (rm s1); [contradiction|cbn; lia]. Qed.
Lemma SH_b1_in d (s1 s2 : bst) : SH d s1 s2 -> rm s1 <> [] -> b1 (rn s1 0) = rn s1 0.
Proof. intros H HE. apply b1_other. eapply SH_nz; eassumption. Qed.
Lemma SH_ne_tl d (s1 s2 t : bst) : SH d s1 s2 -> nbz (rn s1 0) -> rm t = tl (rm s1) -> rm t <> [].
Proof. intros H H0 ->. eapply tl_nonempty_of_nbz; eassumption. Qed.
Lemma SH_ne_eq (s t : bst) : rm s <> [] -> rm t = rm s -> rm t <> [].
Proof. intros H ->. exact H. Qed.
Lemma nbz_ne (s : bst) : nbz (rn s 0) -> rm s <> [].
Proof. apply nbz_nonempty. Qed.
(* side 1 not at its end and not at a break: [nbz] *)
Lemma SH_nbz_of d (s1 s2 : bst) : SH d s1 s2 -> rm s1 <> [] -> is_break (rn s1 0) = false -> nbz (rn s1 0).
Proof.
  intros H HE HB. unfold nbz, is_breakz. rewrite HB. cbn [orb]. unfold is_z. apply N.eqb_neq. eapply SH_nz; eassumption.
Qed.
