(* Joint proof "the scanner never panics on a buffered input of any capacity >= 8" — family: BLOCK SCALARS.
   Main result: [safe_scan_block_scalar : spec_scan_block_scalar cap] (under the contract of [skip_ws_to_eol]).

   The block-scalar code is the part of the scanner that branches on the state of the look-ahead buffer
   ([buf_is_empty], the raw fast path [raw_read_non_breakz], the "narrow"/"wide" indentation skippers), so the
   invariants below talk about the buffered length [bl s], the mark column and the first character of the
   remaining stream ([shead s]: first buffered character, or first unread character when the buffer is empty). *)
From Coq Require Import List NArith ZArith Bool Arith Lia.
Import ListNotations.
Require Import Parser SBase SPrim SDir SScalar SFetch SBuf ScanWP.
Local Open Scope nat_scope.
Arguments Nat.ltb : simpl never.
Arguments Nat.leb : simpl never.
Arguments Nat.eqb : simpl never.
Arguments Nat.sub : simpl never.
Arguments N.ltb : simpl never.
Arguments N.eqb : simpl never.
Arguments N.leb : simpl never.
Arguments N.add : simpl never.
Arguments N.max : simpl never.

Section Block.
Variable cap : nat.
Hypothesis cap_ge : 8 <= cap.
Hypothesis H_ws : spec_skip_ws_to_eol cap.
Notation st := (sc bufin).
Notation bo := (bops cap).

(* thread the [keeps] facts: K : keeps s0 s, K1 : keeps s s1  ~~>  K : keeps s0 s1 *)
Ltac kt K K1 := let H := fresh in pose proof (keeps_trans _ _ _ K K1) as H; clear K K1; rename H into K.

(* ---------------- value/column-exposing variants of the framework rules ---------------- *)
Lemma sbi_mark s s' : same_but_input s s' -> sc_mark s' = sc_mark s.
Proof. unfold same_but_input. intros H. rewrite H. reflexivity. Qed.

(* the column of the mark, as a [nat] *)
Definition coln (s : st) : nat := N.to_nat (m_col (sc_mark s)).

(* [skip_blank] consumes one buffered character and advances the column by one *)
Lemma wp_skip_blank_col (Q : unit -> st -> Prop) s :
  (forall s', keeps s s' -> bl s' = bl s - 1 -> m_col (sc_mark s') = (m_col (sc_mark s) + 1)%N -> Q tt s') ->
  wp (skip_blank bo) Q s.
Proof.
  intros HQ. unfold skip_blank. apply wp_bind. apply (wp_in_skip cap cap_ge). intros s1 H1 B1.
  unfold adv_mark. apply wp_modify. apply HQ.
  - eapply keeps_trans; [apply keeps_input; exact H1|]. unfold keeps; cbn; repeat split; auto.
  - exact B1.
  - cbn. rewrite (sbi_mark _ _ H1). reflexivity.
Qed.

Lemma wp_next_is_val p (Q : bool -> st -> Prop) s : 1 <= bl s -> Q (p (bnth s 0)) s -> wp (next_is bo p) Q s.
Proof. intros H HQ. unfold next_is. apply wp_bind. apply (wp_peek_val cap cap_ge); [exact H|]. apply wp_ret, HQ. Qed.

Lemma wp_col (Q : N -> st -> Prop) s : Q (m_col (sc_mark s)) s -> wp (@col bufin) Q s.
Proof. intros H. exact H. Qed.

Lemma keeps_unroll s : keeps s (let '(ind, l) := unroll_nb (sc_indents s) (sc_indent s) in set_indent ind l s).
Proof. unfold keeps. destruct (unroll_nb _ _) as [ind l]. cbn. repeat split; auto. Qed.

Lemma wp_unroll_nb (Q : unit -> st -> Prop) s :
  (forall s', keeps s s' -> bl s' = bl s -> Q tt s') -> wp (@unroll_non_block_indents bufin) Q s.
Proof.
  intros HQ. unfold unroll_non_block_indents. apply wp_modify. apply HQ; [apply keeps_unroll|].
  destruct (unroll_nb _ _) as [ind l]. reflexivity.
Qed.

(* first character of the remaining stream: the first buffered character, or the first unread one (NUL at the end) *)
Definition shead (s : st) : chr := nth 0 (b_buf (sc_in s) ++ b_rest (sc_in s)) 0%N.

Lemma shead_bnth s : 1 <= bl s -> shead s = bnth s 0.
Proof. unfold shead, bnth, bl. destruct (b_buf (sc_in s)); cbn; [lia|reflexivity]. Qed.

Lemma take_pad_len n r : length (fst (take_pad n r)) = n.
Proof.
  revert r; induction n as [|n IH]; intros r; cbn [take_pad]; [reflexivity|].
  destruct r as [|c r]; [specialize (IH [])|specialize (IH r)]; destruct (take_pad n _); cbn in *; lia.
Qed.

Lemma take_pad_hd n r : nth 0 (fst (take_pad n r) ++ snd (take_pad n r)) 0%N = nth 0 r 0%N.
Proof.
  destruct n as [|n]; cbn [take_pad]; [reflexivity|].
  destruct r as [|c r]; destruct (take_pad n _) as [a r']; reflexivity.
Qed.

(* filling the buffer does not change the first character of the stream *)
Lemma wp_look_hd n (Q : unit -> st -> Prop) s :
  n <= cap ->
  (forall s', same_but_input s s' -> n <= bl s' -> shead s' = shead s -> Q tt s') -> wp (look bo n) Q s.
Proof.
  intros Hn HQ. unfold wp, look, bops. cbn [lookahead buf_ops].
  destruct (Nat.leb n (length (b_buf (sc_in s)))) eqn:E1.
  - apply HQ; unfold bl, same_but_input, shead; cbn; [destruct s; reflexivity | apply Nat.leb_le in E1; lia | reflexivity].
  - destruct (Nat.ltb cap n) eqn:E2; [apply Nat.ltb_lt in E2; lia|].
    pose proof (take_pad_len (n - length (b_buf (sc_in s))) (b_rest (sc_in s))) as HL.
    pose proof (take_pad_hd (n - length (b_buf (sc_in s))) (b_rest (sc_in s))) as HH.
    destruct (take_pad _ _) as [a r]. cbn [fst snd] in HL, HH. apply Nat.leb_gt in E1.
    apply HQ; unfold bl, same_but_input, shead; cbn; [reflexivity | rewrite app_length; lia | ].
    rewrite <- app_assoc. destruct (b_buf (sc_in s)); cbn; [exact HH | reflexivity].
Qed.

(* the raw fast path, with an empty buffer: it stops exactly in front of a break or the end of the stream *)
Lemma wp_raw_read_hd (Q : option chr -> st -> Prop) s :
  bl s = 0 ->
  (forall c s', same_but_input s s' -> (c <> None -> bl s' = 0) -> (c = None -> is_breakz (shead s') = true) -> Q c s') ->
  wp (raw_read bo) Q s.
Proof.
  intros H0 HQ. unfold wp, raw_read, bops. cbn [raw_read_non_breakz buf_ops]. unfold bl in *.
  apply length_zero_iff_nil in H0.
  destruct (b_rest (sc_in s)) as [|c r] eqn:ER.
  - apply HQ; unfold same_but_input, shead; cbn; [destruct s; reflexivity|congruence|].
    intros _. rewrite H0, ER. reflexivity.
  - destruct (is_breakz c) eqn:Ec.
    + destruct (Nat.leb cap (length (b_buf (sc_in s)))) eqn:E; [apply Nat.leb_le in E; rewrite H0 in E; cbn in E; lia|].
      apply HQ; unfold same_but_input, shead; cbn; [reflexivity | congruence | ].
      intros _. rewrite H0. cbn. exact Ec.
    + apply HQ; unfold same_but_input, shead; cbn; [reflexivity | intros _; rewrite H0; reflexivity | congruence].
Qed.

(* ---------------- (1) scan_block_scalar_content_line ----------------
   Loop 1 (buffered characters): every round first asks [buf_is_empty]; the [peek] happens only when the buffer
   is non-empty.  It ends with an empty buffer or in front of a buffered break/NUL.
   Loop 2 (raw fast path): entered only when the buffer is empty; [raw_read] keeps the buffer empty while it
   returns characters, and ends by pushing back at most the one break it has seen.
   Postcondition: the stream is positioned in front of a break or NUL (needed for the [debug_assert!] in the
   caller's [skip_break]). *)
Lemma safe_content_line F acc s0 s : keeps s0 s ->
  wp (scan_block_scalar_content_line bo F acc) (fun _ s' => keeps s0 s' /\ is_breakz (shead s') = true) s.
Proof.
  intros K. unfold scan_block_scalar_content_line. apply wp_bind.
  match goal with |- wp (?g F acc) _ _ =>
    assert (Hgo : forall f acc1 s1, keeps s0 s1 ->
              wp (g f acc1) (fun _ s' => keeps s0 s' /\ (bl s' = 0 \/ is_breakz (shead s') = true)) s1) end.
  { induction f as [|f IH]; intros acc1 s1 K1; [exact I|].
    lazy beta iota.
    apply wp_bind. apply wp_buf_is_empty. destruct (Nat.eqb (bl s1) 0) eqn:E.
    - apply wp_ret. split; [exact K1|]. left. apply Nat.eqb_eq; exact E.
    - apply Nat.eqb_neq in E. apply wp_bind. apply (wp_peek_val cap cap_ge); [lia|].
      destruct (is_breakz (bnth s1 0)) eqn:Eb.
      + apply wp_ret. split; [exact K1|]. right. rewrite shead_bnth; [exact Eb|lia].
      + apply wp_bind. apply (wp_skip_blank cap cap_ge). intros s2 K2 B2. apply IH. kt K1 K2. exact K1. }
  eapply wp_mono; [apply Hgo; exact K|]. cbv beta. intros acc1 s1 [K1 D]. clear Hgo.
  apply wp_bind. apply wp_buf_is_empty. destruct (Nat.eqb (bl s1) 0) eqn:E.
  - apply Nat.eqb_eq in E.
    match goal with |- wp (?g F acc1 0%N) _ _ =>
      assert (Hraw : forall f acc2 n s2, keeps s0 s2 -> bl s2 = 0 ->
                wp (g f acc2 n) (fun _ s' => keeps s0 s' /\ is_breakz (shead s') = true) s2) end.
    { induction f as [|f IH]; intros acc2 n s2 K2 B2; [exact I|].
      lazy beta iota.
      apply wp_bind. apply wp_raw_read_hd; [exact B2|]. intros c s3 H3 B3 V3.
      apply keeps_input in H3. kt K2 H3. destruct c as [c|].
      - apply IH; [exact K2|]. apply B3. discriminate.
      - apply wp_bind. unfold adv_mark. apply wp_modify. apply wp_ret. split.
        + eapply keeps_trans; [exact K2|]. unfold keeps; cbn; repeat split; auto.
        + apply (V3 eq_refl). }
    apply Hraw; assumption.
  - apply wp_ret. split; [exact K1|]. apply Nat.eqb_neq in E. destruct D as [D|D]; [lia|exact D].
Qed.

(* ---------------- (2) skip_spaces_to ----------------
   check_buf = false: the caller has filled the buffer ([look cap]) and [indent < cap - 2].  Invariant: the number of
   characters still to be consumed plus [d] is below the number of buffered characters; written without
   subtraction:  indent + d < bl s + column s   (each [skip_blank] moves one unit from [bl] to the column). *)
Lemma safe_skip_spaces_nocheck d indent : forall fuel s0 s,
  keeps s0 s -> d < bl s -> N.to_nat indent + d < bl s + coln s ->
  wp (skip_spaces_to bo fuel indent false) (fun _ s' => keeps s0 s' /\ d < bl s') s.
Proof.
  induction fuel as [|fuel IH]; intros s0 s K H1 H2; [exact I|].
  cbn [skip_spaces_to]. apply wp_bind. apply wp_ret. apply wp_bind. apply wp_col. cbn [orb].
  destruct (N.ltb (m_col (sc_mark s)) indent) eqn:E; cbn [negb].
  - apply N.ltb_lt in E. apply wp_bind. apply (wp_peek cap cap_ge); [lia|]. intros c.
    destruct (N.eqb c 32); [|apply wp_ret; auto].
    apply wp_bind. apply wp_skip_blank_col. intros s1 K1 B1 C1. unfold coln in *.
    apply IH; [kt K K1; exact K| |rewrite C1]; lia.
  - apply wp_ret. auto.
Qed.

(* check_buf = true: [buf_is_empty] is asked before every [peek] *)
Lemma safe_skip_spaces_check indent : forall fuel s0 s,
  keeps s0 s -> wp (skip_spaces_to bo fuel indent true) (fun _ s' => keeps s0 s') s.
Proof.
  induction fuel as [|fuel IH]; intros s0 s K; [exact I|].
  cbn [skip_spaces_to]. apply wp_bind. apply wp_buf_is_empty. apply wp_bind. apply wp_col.
  destruct (Nat.eqb (bl s) 0) eqn:E; cbn [orb]; [apply wp_ret; exact K|]. apply Nat.eqb_neq in E.
  destruct (N.ltb (m_col (sc_mark s)) indent); cbn [negb]; [|apply wp_ret; exact K].
  apply wp_bind. apply (wp_peek cap cap_ge); [lia|]. intros c.
  destruct (N.eqb c 32); [|apply wp_ret; exact K].
  apply wp_bind. apply (wp_skip_blank cap cap_ge). intros s1 K1 B1. apply IH. kt K K1. exact K.
Qed.

(* ---------------- (3) skip_block_scalar_indent ----------------
   narrow path ([indent < cap - 2]): [look cap] buffers [cap] characters, [skip_spaces_to … false] consumes at most
   [indent <= cap - 3] of them, so at least 3 remain for [next_is is_break] / [skip_break];
   wide path: every round refills the buffer and [skip_spaces_to … true] checks [buf_is_empty] before each peek; the
   final [look 2] re-establishes two buffered characters;
   panic 121 ([bufmaxlen < 2]) is unreachable since [cap >= 8].
   On return at least two characters are buffered. *)
Lemma safe_skip_bsi F indent : forall fuel breaks s0 s,
  keeps s0 s -> wp (skip_block_scalar_indent bo F fuel indent breaks) (fun _ s' => keeps s0 s' /\ 2 <= bl s') s.
Proof.
  induction fuel as [|fuel IH]; intros breaks s0 s K; [exact I|].
  cbn [skip_block_scalar_indent]. change (bufmaxlen bo) with cap.
  apply wp_bind. destruct (Nat.ltb cap 2) eqn:E; [apply Nat.ltb_lt in E; lia|]. apply wp_ret.
  apply wp_bind.
  apply wp_mono with (Q := fun _ s1 => keeps s0 s1 /\ 2 <= bl s1).
  - destruct (N.ltb indent (N.of_nat (cap - 2))) eqn:E2.
    + apply N.ltb_lt in E2. apply wp_bind. apply (wp_look cap cap_ge); [lia|]. intros s1 H1 B1 _ _.
      apply keeps_input in H1. kt K H1.
      eapply wp_mono; [apply (safe_skip_spaces_nocheck 2 indent F s0 s1 K); lia|].
      cbv beta. intros _ s2 [K2 B2]. split; [exact K2|lia].
    + apply wp_bind.
      * match goal with |- wp (?g F) _ _ =>
          assert (Hw : forall f s1, keeps s0 s1 -> wp (g f) (fun _ s' => keeps s0 s') s1) end.
        { induction f as [|f IHf]; intros s1 K1; [exact I|].
          lazy beta iota. change (bufmaxlen bo) with cap.
          apply wp_bind. apply (wp_look cap cap_ge); [lia|]. intros s2 H2 _ _ _.
          apply keeps_input in H2. kt K1 H2.
          apply wp_bind. eapply wp_mono; [apply safe_skip_spaces_check; exact K1|]. cbv beta. intros _ s3 K3.
          apply wp_bind. apply wp_col. apply wp_bind. apply wp_buf_is_empty.
          apply wp_bind.
          apply wp_mono with (Q := fun _ s4 => s4 = s3).
          - destruct (Nat.eqb (bl s3) 0) eqn:E3; [apply wp_ret; reflexivity|].
            apply Nat.eqb_neq in E3. apply (wp_peek cap cap_ge); [lia|]. reflexivity.
          - intros c s4 ->.
            destruct (N.eqb (m_col (sc_mark s3)) indent || negb (Nat.eqb (bl s3) 0) && negb (N.eqb c 32));
              [apply wp_ret; exact K3|apply IHf; exact K3]. }
        eapply wp_mono; [apply Hw; exact K|]. cbv beta. intros _ s1 K1.
        apply (wp_look cap cap_ge); [lia|]. intros s2 H2 B2 _ _. apply keeps_input in H2. kt K1 H2. split; assumption.
  - intros _ s1 [K1 B1]. apply wp_bind. apply wp_next_is_val; [lia|].
    destruct (is_break (bnth s1 0)) eqn:Eb.
    + apply wp_bind. apply (wp_skip_break cap cap_ge); [exact B1|exact Eb|]. intros s2 K2 _. apply IH. kt K1 K2. exact K1.
    + apply wp_ret. split; assumption.
Qed.

(* ---------------- (4) skip_first_line_indent ---------------- *)
Lemma safe_sfli F : forall fuel maxi breaks s0 s,
  keeps s0 s -> wp (skip_first_line_indent bo F fuel maxi breaks) (fun _ s' => keeps s0 s' /\ 1 <= bl s') s.
Proof.
  induction fuel as [|fuel IH]; intros maxi breaks s0 s K; [exact I|].
  cbn [skip_first_line_indent]. apply wp_bind.
  - match goal with |- wp (?g F) _ _ =>
      assert (Hsp : forall f s1, keeps s0 s1 -> wp (g f) (fun _ s' => keeps s0 s' /\ 1 <= bl s') s1) end.
    { induction f as [|f IHf]; intros s1 K1; [exact I|].
      lazy beta iota. apply wp_bind. apply (wp_look_ch cap cap_ge). intros c s2 H2 B2 _.
      apply keeps_input in H2. kt K1 H2.
      destruct (N.eqb c 32); [|apply wp_ret; split; assumption].
      apply wp_bind. apply (wp_skip_blank cap cap_ge). intros s3 K3 _. apply IHf. kt K1 K3. exact K1. }
    eapply wp_mono; [apply Hsp; exact K|]. cbv beta. intros _ s1 [K1 B1]. clear Hsp.
    apply wp_bind. apply wp_col. apply wp_bind. apply wp_next_is_val; [exact B1|].
    destruct (is_break (bnth s1 0)) eqn:Eb.
    + apply wp_bind. apply (wp_look cap cap_ge); [lia|]. intros s2 H2 B2 _ V2.
      apply keeps_input in H2. kt K1 H2.
      apply wp_bind. apply (wp_skip_break cap cap_ge); [exact B2|rewrite V2; [exact Eb|lia]|]. intros s3 K3 _.
      apply IH. kt K1 K3. exact K1.
    + apply wp_ret. split; assumption.
Qed.

(* ---------------- (5) scan_block_scalar ---------------- *)
Theorem safe_scan_block_scalar : spec_scan_block_scalar cap.
Proof.
  intros F literal s0 _. unfold scan_block_scalar, post_keeps.
  apply wp_bind. apply wp_mark.
  apply wp_bind. apply (wp_skip_non_blank cap cap_ge). intros s1 K _.
  apply wp_bind. apply wp_unroll_nb. intros s2 K2 _. kt K K2.
  apply wp_bind. apply (wp_look_ch cap cap_ge). intros c s3 H3 B3 _. apply keeps_input in H3. kt K H3.
  (* the header: chomping and indentation indicators, in either order *)
  apply wp_bind. apply wp_mono with (Q := fun _ s4 => keeps s0 s4).
  { destruct (N.eqb c 43 || N.eqb c 45).
    - apply wp_bind. apply (wp_skip_non_blank cap cap_ge). intros s4 K4 _. kt K K4.
      apply wp_bind. apply (wp_look cap cap_ge); [lia|]. intros s5 H5 B5 _ _. apply keeps_input in H5. kt K H5.
      apply wp_bind. apply (wp_peek cap cap_ge); [exact B5|]. intros d.
      destruct (is_digit d); [|apply wp_ret; exact K].
      destruct (N.eqb d 48); [apply wp_fail|].
      apply wp_bind. apply (wp_skip_non_blank cap cap_ge). intros s6 K6 _. kt K K6. apply wp_ret. exact K.
    - destruct (is_digit c); [|apply wp_ret; exact K].
      destruct (N.eqb c 48); [apply wp_fail|].
      apply wp_bind. apply (wp_skip_non_blank cap cap_ge). intros s4 K4 _. kt K K4.
      apply wp_bind. apply (wp_look cap cap_ge); [lia|]. intros s5 H5 B5 _ _. apply keeps_input in H5. kt K H5.
      apply wp_bind. apply (wp_peek cap cap_ge); [exact B5|]. intros d.
      destruct (N.eqb d 43 || N.eqb d 45); [|apply wp_ret; exact K].
      apply wp_bind. apply (wp_skip_non_blank cap cap_ge). intros s6 K6 _. kt K K6. apply wp_ret. exact K. }
  clear dependent s3. clear s1 s2 c. intros [chomp increment] s1 K. lazy beta iota.
  (* rest of the header line *)
  apply wp_bind. eapply wp_mono; [apply H_ws|]. unfold post_keeps. intros _ s2 [K2 _]. kt K K2.
  apply wp_bind. apply (wp_look cap cap_ge); [lia|]. intros s3 H3 B3 _ _. apply keeps_input in H3. kt K H3.
  apply wp_bind. apply (wp_peek_val cap cap_ge); [exact B3|].
  destruct (is_breakz (bnth s3 0)); cbn [negb]; [|apply wp_fail].
  apply wp_bind. apply wp_mono with (Q := fun _ s4 => keeps s0 s4).
  { destruct (is_break (bnth s3 0)) eqn:Eb; [|apply wp_ret; exact K].
    apply wp_bind. apply (wp_look cap cap_ge); [lia|]. intros s4 H4 B4 _ V4. apply keeps_input in H4. kt K H4.
    apply wp_bind. apply (wp_skip_break cap cap_ge); [exact B4|rewrite V4; [exact Eb|lia]|]. intros s5 K5 _. kt K K5.
    apply wp_ret. exact K. }
  clear dependent s3. clear s1 s2. intros cbreak s1 K.
  apply wp_bind. apply (wp_look_ch cap cap_ge). intros c s2 H2 B2 _. apply keeps_input in H2. kt K H2.
  destruct (N.eqb c 9); [apply wp_fail|].
  apply wp_bind. apply wp_get.
  (* the indentation of the first content line *)
  match goal with |- wp (bind (if N.eqb ?i 0 then _ else _) _) _ _ => set (indent0 := i) end.
  apply wp_bind. apply wp_mono with (Q := fun _ s3 => keeps s0 s3 /\ 1 <= bl s3).
  { destruct (N.eqb indent0 0).
    - apply wp_bind. eapply wp_mono; [apply safe_sfli; exact K|]. cbv beta. intros r s3 [K3 B3].
      apply wp_ret. split; assumption.
    - apply wp_bind. eapply wp_mono; [apply safe_skip_bsi; exact K|]. cbv beta. intros r s3 [K3 B3].
      apply wp_ret. split; [exact K3|lia]. }
  intros [indent tbreaks] s3 [K3 B3]. lazy beta iota.
  apply wp_bind. apply (wp_next_is cap cap_ge); [exact B3|]. intros z.
  apply wp_bind. apply wp_get.
  destruct z; [apply wp_ret; split; [exact K3|lia]|].
  (* "wrongly indented" check *)
  apply wp_bind. apply wp_mono with (Q := fun _ s4 => keeps s0 s4 /\ 1 <= bl s4).
  { match goal with |- wp (if ?b then _ else _) _ _ => destruct b end; [|apply wp_ret; split; assumption].
    apply wp_bind. apply (wp_look cap cap_ge); [lia|]. intros s4 H4 B4 B4' _. apply keeps_input in H4. kt K3 H4.
    apply wp_bind. apply (wp_next_is_document_indicator cap cap_ge); [exact B4|]. intros di.
    apply wp_ret. split; [exact K3|lia]. }
  intros wrong s4 [K4 B4]. destruct wrong; [apply wp_fail|].
  apply wp_bind. apply wp_get.
  (* the main loop: one content line per round; invariant: one character is buffered at the head of the loop *)
  apply wp_bind.
  - match goal with |- wp (?g F [] 0%N tbreaks false) _ _ =>
      assert (Hgo : forall f acc lb tb ldb s5, keeps s0 s5 -> 1 <= bl s5 ->
                wp (g f acc lb tb ldb) (fun _ s' => keeps s0 s' /\ 1 <= bl s') s5) end.
    { induction f as [|f IH]; intros acc lb tb ldb s5 K5 B5; [exact I|].
      lazy beta iota.
      apply wp_bind. apply wp_col. apply wp_bind. apply (wp_next_is cap cap_ge); [exact B5|]. intros z.
      match goal with |- wp (if ?b then _ else _) _ _ => destruct b end; [apply wp_ret; split; assumption|].
      apply wp_bind. apply wp_mono with (Q := fun _ s6 => keeps s0 s6 /\ 1 <= bl s6).
      { destruct (N.eqb indent 0); [|apply wp_ret; split; assumption].
        apply wp_bind. apply (wp_look cap cap_ge); [lia|]. intros s6 H6 B6 B6' _. apply keeps_input in H6. kt K5 H6.
        apply (wp_next_is_document_indicator cap cap_ge); [exact B6|]. intros r. split; [exact K5|lia]. }
      intros de s6 [K6 B6]. destruct de; [apply wp_ret; split; assumption|].
      apply wp_bind. apply (wp_next_is cap cap_ge); [exact B6|]. intros trailing_blank.
      apply wp_bind. eapply wp_mono; [apply safe_content_line; exact K6|]. cbv beta. intros acc1 s7 [K7 V7].
      apply wp_bind. apply wp_look_hd; [lia|]. intros s8 H8 B8 V8. apply keeps_input in H8. kt K7 H8.
      apply wp_bind. apply wp_next_is_val; [lia|].
      rewrite <- V8, shead_bnth in V7 by lia. unfold is_breakz in V7.
      destruct (is_z (bnth s8 0)); [apply wp_ret; split; [exact K7|lia]|].
      rewrite orb_false_r in V7.
      apply wp_bind. apply (wp_skip_break cap cap_ge); [exact B8|exact V7|]. intros s9 K9 _. kt K7 K9.
      apply wp_bind. eapply wp_mono; [apply safe_skip_bsi; exact K7|]. cbv beta. intros tb1 s10 [K10 B10].
      apply IH; [exact K10|lia]. }
    eapply wp_mono; [apply Hgo; assumption|]. cbv beta. clear Hgo. intros [[acc lb] tb] s5 [K5 B5]. lazy beta iota.
    apply wp_bind. apply (wp_next_is cap cap_ge); [exact B5|]. intros z.
    apply wp_bind. apply wp_col. apply wp_bind. apply wp_mark. apply wp_ret. split; [exact K5|lia].
Qed.
End Block.

Check safe_scan_block_scalar.
Print Assumptions safe_scan_block_scalar.
