(* C04 in document context, part 5: scan_plain_scalar on a presentation of the specification that is followed by a SIBLING
   LINE: white space (spaces and line feeds), a line feed, then a line that starts at column 0 with a character that is
   neither a blank nor a break -- inside a block collection (indentation >= 0) that line ends the scalar.  The statement of
   C04_plain_full for this follower class WITH the input that is left (the sibling line) and the flags the scanner leaves
   (leading_whitespace, hence simple_key_allowed).  Generic part: [scan_plain_scalar_rem], the theorem for any follower whose
   run is given with a postcondition that keeps the final input. *)
From Coq Require Import List NArith ZArith Bool Arith Lia.
Import ListNotations.
Require Import Parser SBase SPrim SDir SScalar SFetch Pipe FlowFold FlowScalarProofs PlainScalarProofs ScalarContextQuoted ScalarContext2Plain.
Open Scope N_scope.
Open Scope mon_scope.

(* the scalar is returned, [fin] is left, leading_whitespace satisfies W *)
Definition Qr (s0 : sc strin) (fin : list N) (W : bool -> Prop) (final : list chr) (o : outcome (list chr * marker * sc strin)) : Prop :=
  exists endm l' m' w', o = Ok ((final, endm), st_with s0 fin l' m' w') /\ W w'.

Section PlainRem.
Variable F : nat.
Variable s0 : sc strin.
Variable start : marker.
Variable L : nat.
Hypothesis HL : (128 <= L)%nat.
Variable n : nat.
Hypothesis Hn : (sc_indent s0 + 1 <= Z.of_nat n)%Z.
Notation fl := (0 <? sc_flow_level s0).
Notation indent := (sc_indent s0 + 1)%Z.
Notation st := (st_with s0).
Notation achunk := (after_chunk F s0 start).
Variable rest fin : list N.
Variable W : bool -> Prop.
Hypothesis Hfollow : plain_follower_ok fl (sc_indent s0) rest = true.
Hypothesis Hrun : forall f acc m, (length rest + 2 <= F)%nat -> acc <> [] -> col_ok s0 m ->
  Qr s0 fin W acc (achunk (ploop F indent start (S f)) false 0 [] acc (st rest L m false)).

Lemma lines_run_rem : forall more f acc m,
  more_wf fl n more = true ->
  (length (src_more more ++ rest) + 2 <= f)%nat -> (2 * length (src_more more ++ rest) + 6 <= F)%nat ->
  acc <> [] -> col_ok s0 m ->
  Qr s0 fin W (rev (rest_text more) ++ acc) (achunk (ploop F indent start f) false 0 [] acc (st (src_more more ++ rest) L m false)).
Proof.
  induction more as [|[b line] more IH]; intros f acc m Hwf Hf HF Hacc Hm.
  - destruct f as [|f]; [lia|]. cbn [src_more flat_map app rest_text rev] in *.
    apply Hrun; [lia|exact Hacc|exact Hm].
  - assert (Hwf0 := Hwf).
    cbn [more_wf forallb fst snd] in Hwf. apply andb_prop in Hwf. destruct Hwf as [Hhd Hwf'].
    do 3 (apply andb_prop in Hhd; destruct Hhd as [Hhd ?]).
    match goal with H : negb (bl_escaped b) = true |- _ => apply negb_true_iff in H; rename H into He end.
    match goal with H : negb (marker_at_col0 _ _) = true |- _ => apply negb_true_iff in H; rename H into Hmk end.
    cbn [src_more flat_map fst snd] in *. fold (src_more more) in *.
    rewrite <- !app_assoc in *. rewrite !app_length in Hf, HF.
    cbn [rest_text]. rewrite !rev_app_distr, <- !app_assoc.
    apply (brk_step F s0 start L HL n Hn (src_more more ++ rest) (fun a o => Qr s0 fin W (rev (rest_text more) ++ a) o)
             (length (src_more more ++ rest) + 2)%nat); try assumption.
    + intros f' acc' m' HB' Hacc' Hm'. apply IH; try assumption. rewrite ?app_length in *. lia.
    + apply (stops_src_more F s0 start L HL n rest Hfollow). exact Hwf'.
    + rewrite ?app_length in *. lia.
    + assert (1 <= length (render_brk b))%nat by (unfold render_brk; rewrite !app_length; pose proof (nl_src_len (bl_nl b)); lia).
      rewrite ?app_length in *. lia.
Qed.
End PlainRem.

(* C04_plain_full for any follower whose run is known with its final input *)
Theorem scan_plain_scalar_rem :
  forall (F n : nat) (first : list N) (more : list (brk_layout * list N)) (rest fin : list N) (W : bool -> Prop) (s : sc strin),
    plain_layout_wf (0 <? sc_flow_level s) n first more = true ->
    si_chars (sc_in s) = plain_render first more ++ rest ->
    plain_follower_ok (0 <? sc_flow_level s) (eff_indent s) rest = true ->
    (forall s0 start L f acc m, (128 <= L)%nat -> sc_indent s0 = eff_indent s -> sc_flow_level s0 = sc_flow_level s ->
       (length rest + 2 <= F)%nat -> acc <> [] -> col_ok s0 m ->
       Qr s0 fin W acc (after_chunk F s0 start (ploop F (sc_indent s0 + 1) start (S f)) false 0 [] acc (st_with s0 rest L m false))) ->
    (eff_indent s < Z.of_nat n)%Z ->
    (eff_indent s < Z.of_N (m_col (sc_mark s)))%Z ->
    (sc_lws s = true -> m_col (sc_mark s) = 0 -> marker_at_col0 [] first = false) ->
    (2 * length (si_chars (sc_in s)) + 10 <= F)%nat ->
    exists sp s' w',
      scan_plain_scalar str_ops F s = Ok ((sp, TScalar Plain (plain_text first more)), s')
      /\ sp_start sp = sc_mark s /\ si_chars (sc_in s') = fin /\ W w' /\ sc_lws s' = w' /\ (w' = true -> sc_ska s' = true).
Proof.
  intros F n first more rest fin W s Hwf Hsrc Hfollow Hrun Hn Hcol Hmk HF.
  set (s1 := let '(ind, l) := unroll_nb (sc_indents s) (sc_indent s) in set_indent ind l s).
  assert (E1 : unroll_non_block_indents s = Ok (tt, s1)) by reflexivity.
  assert (Hs1 : sc_indent s1 = eff_indent s /\ sc_flow_level s1 = sc_flow_level s /\ sc_mark s1 = sc_mark s
                /\ sc_in s1 = sc_in s /\ sc_lws s1 = sc_lws s).
  { unfold s1, eff_indent. destruct (unroll_nb (sc_indents s) (sc_indent s)) as [ind l]. repeat split. }
  destruct Hs1 as [Hi1 [Hf1 [Hm1 [Hin1 Hw1]]]].
  assert (Hrun' : scan_plain_scalar str_ops F s
                 = (r <- ploop F (sc_indent s1 + 1) (sc_mark s) F [] false 0 [] (sc_mark s) ;; pfinish (sc_mark s) r)
                     (st_with s1 (plain_render first more ++ rest) (si_look (sc_in s)) (sc_mark s) (sc_lws s))).
  { rewrite scan_plain_scalar_phases.
    mstep E1. mstep (eq_refl : get s1 = Ok (s1, s1)). cbv zeta.
    rewrite Hf1, Hm1, Hi1.
    replace (Z.of_N (m_col (sc_mark s)) <? eff_indent s + 1)%Z with false by (symmetry; apply Z.ltb_ge; lia).
    rewrite andb_false_r.
    rewrite <- Hsrc, <- Hin1, <- Hw1. f_equal. rewrite <- Hm1. apply st_with_id. }
  rewrite Hrun'. clear Hrun'. clearbody s1. clear E1.
  set (l := si_look (sc_in s)). set (m := sc_mark s). set (w := sc_lws s).
  set (L := Nat.max (Nat.max l 4) 128).
  assert (HL : (128 <= L)%nat) by (unfold L; lia).
  unfold plain_layout_wf in Hwf. apply andb_prop in Hwf. destruct Hwf as [Hwf Hmore].
  apply andb_prop in Hwf. destruct Hwf as [Hfirst Hline].
  rewrite <- Hf1 in Hfirst, Hline, Hmore, Hfollow. rewrite <- Hi1 in Hfollow, Hn, Hcol.
  fold (more_wf (0 <? sc_flow_level s1) n more) in Hmore.
  destruct first as [|c0 t]; [discriminate Hline|].
  rewrite Hsrc in HF.
  unfold plain_render in *. fold (src_more more) in *. rewrite <- app_assoc in *. cbn [app] in *. cbn [length] in HF. rewrite app_length in HF.
  destruct F as [|f]; [lia|].
  assert (Hn' : (sc_indent s1 + 1 <= Z.of_nat n)%Z) by lia.
  assert (Hstop : stops_chunk s1 (src_more more ++ rest)).
  { apply (stops_src_more (S f) s1 m L HL n rest Hfollow). exact Hmore. }
  assert (Hch : plain_line_chars_wf (0 <? sc_flow_level s1) 0 (c0 :: t) = true).
  { unfold plain_line_wf in Hline. apply andb_prop in Hline. tauto. }
  cbn [ploop].
  pose proof (line_run (S f) s1 m L HL n (src_more more ++ rest)
                (fun a o => Qr s1 fin W (rev (rest_text more) ++ a) o) (length (src_more more ++ rest) + 2)%nat) as LR.
  destruct (LR (fun f' acc' m' HB' Hacc' Hm' =>
                  lines_run_rem (S f) s1 m L HL n Hn' rest fin W Hfollow
                    (fun f2 acc2 m2 H1 H2 H3 => Hrun s1 m L f2 acc2 m2 HL Hi1 Hf1 H1 H2 H3)
                    more f' acc' m' Hmore HB' ltac:(rewrite app_length in *; lia) Hacc' Hm')
               Hstop c0 t [] false 0 [] m l m w [] f Hline) as [endm [l' [m' [w' [E HW]]]]].
  - intros Hz. apply andb_prop in Hz. destruct Hz as [Hz1 Hz2]. apply N.eqb_eq in Hz2.
    apply (no_marker_no_doc_ind s1 (c0 :: t) (src_more more ++ rest) Hch); [|exact Hstop].
    apply Hmk; assumption.
  - cbn [andb]. destruct (N.eqb_spec c0 45) as [->|H45]; [|rewrite andb_false_r; reflexivity].
    rewrite andb_true_r. unfold plain_first_wf in Hfirst. change (c_indicator 45) with true in Hfirst.
    cbn [negb orb] in Hfirst. apply andb_prop in Hfirst. destruct Hfirst as [_ Hsafe].
    destruct t as [|c1 t]; [discriminate Hsafe|]. cbn [hd app nth] in *.
    exact (proj2 (ns_plain_safe_facts _ _ Hsafe)).
  - destruct w; reflexivity.
  - reflexivity.
  - lia.
  - rewrite app_length in *. lia.
  - unfold col_ok. fold m in Hcol. lia.
  - assert (Erev : rev (rest_text more) ++ rev t ++ [c0] = rev ((c0 :: t) ++ rest_text more))
      by (rewrite rev_app_distr; cbn [rev]; reflexivity).
    cbv beta in E. unfold chr in *. rewrite Erev in E. clear Erev. rewrite plain_text_rest.
    assert (Einv : rev (rev ((c0 :: t) ++ rest_text more)) = (c0 :: t) ++ rest_text more) by apply rev_involutive.
    revert E Einv. destruct (rev ((c0 :: t) ++ rest_text more)) as [|x y] eqn:Er; intros E Einv.
    { apply (f_equal (@length N)) in Er. rewrite rev_length in Er. discriminate Er. }
    rewrite (bind_Ok _ _ _ _ _ E).
    unfold pfinish. mstep (eq_refl : get (st_with s1 fin l' m' w') = Ok (st_with s1 fin l' m' w', st_with s1 fin l' m' w')).
    assert (Ea : exists s'', (if sc_lws (st_with s1 fin l' m' w') then allow_simple_key else ret tt) (st_with s1 fin l' m' w') = Ok (tt, s'')
                             /\ si_chars (sc_in s'') = fin /\ sc_lws s'' = w' /\ (w' = true -> sc_ska s'' = true)).
    { cbn [sc_lws st_with]. destruct w'; eexists; (split; [reflexivity|]); (split; [reflexivity|]); (split; [reflexivity|]); [reflexivity|discriminate]. }
    destruct Ea as [s'' [Ea [Hin [Hlw Hska]]]]. mstep Ea. cbn [fst snd]. unfold chr. rewrite Einv.
    eexists. eexists. exists w'. split; [reflexivity|]. split; [reflexivity|]. split; [exact Hin|]. split; [exact HW|]. split; [exact Hlw|exact Hska].
Qed.

(* ---------- the sibling-line follower: ws ++ LF :: x :: r, x at column 0 ---------- *)
Definition sib_head (x : N) : Prop := is_blank x = false /\ is_break x = false /\ (x =? 0) = false.

Lemma sib_after_break_ok indent x r : (0 <= indent)%Z -> sib_head x ->
  forall ws col, ws_only ws = true -> after_break_ok false indent col (ws ++ 10 :: x :: r) = true.
Proof.
  intros Hi (Hb & Hk & Hz). induction ws as [|c ws IH]; intros col H.
  - cbn [app after_break_ok]. change (10 =? 32) with false. change (10 =? 10) with true. cbv iota.
    unfold is_blank in Hb. apply orb_false_elim in Hb as [H32 H9]. unfold is_break in Hk. apply orb_false_elim in Hk as [H10 H13].
    rewrite H32, H10, H13. unfold is_blank_or_breakz, is_blank, is_breakz, is_break, is_z. rewrite H32, H9, H10, H13, Hz. cbn [orb negb andb].
    replace (Z.of_nat 0 <=? indent)%Z with true by (symmetry; apply Z.leb_le; cbn; lia). rewrite orb_true_r. reflexivity.
  - cbn [ws_only forallb] in H. apply andb_prop in H as [Hc H]. fold (ws_only ws) in H.
    cbn [app after_break_ok]. apply orb_prop in Hc as [Hc|Hc]; apply N.eqb_eq in Hc; subst c.
    + change (10 =? 32) with false. change (10 =? 10) with true. cbv iota. apply IH, H.
    + change (32 =? 32) with true. cbv iota. apply IH, H.
Qed.

Lemma sib_drop_leading x r : sib_head x -> forall ws, ws_only ws = true ->
  exists ws2, ws_only ws2 = true /\ drop_leading (ws ++ 10 :: x :: r) = 10 :: ws2 ++ x :: r /\ (ws2 = [] \/ exists ws3, ws2 = ws3 ++ [10]).
Proof.
  intros Hx. induction ws as [|c ws IH]; intros H.
  - exists []. split; [reflexivity|]. split; [reflexivity|left; reflexivity].
  - cbn [ws_only forallb] in H. apply andb_prop in H as [Hc H]. fold (ws_only ws) in H.
    apply orb_prop in Hc as [Hc|Hc]; apply N.eqb_eq in Hc; subst c.
    + exists (ws ++ [10]). split; [unfold ws_only; rewrite forallb_app; fold (ws_only ws); rewrite H; reflexivity|].
      split; [cbn [app drop_leading]; change (is_sp 10) with false; cbv iota; rewrite <- app_assoc; reflexivity|right; eexists; reflexivity].
    + cbn [app drop_leading]. change (is_sp 32) with true. cbv iota. apply IH, H.
Qed.

Lemma sib_follower_ok indent ws x r : (0 <= indent)%Z -> sib_head x -> ws_only ws = true ->
  plain_follower_ok false indent (ws ++ 10 :: x :: r) = true.
Proof.
  intros Hi Hx Hws. unfold plain_follower_ok. destruct (sib_drop_leading x r Hx ws Hws) as (ws2 & Hws2 & -> & Hform).
  change (is_break 10) with true. cbv iota.
  destruct Hform as [-> | (ws3 & ->)].
  - exact (sib_after_break_ok indent x r Hi Hx [] O eq_refl).
  - rewrite <- app_assoc. cbn [app]. change (10 :: ws3 ++ 10 :: x :: r) with ((10 :: ws3) ++ 10 :: x :: r).
    apply (sib_after_break_ok indent x r Hi Hx).
    unfold ws_only in *. rewrite forallb_app in Hws2. apply andb_prop in Hws2 as [Hws3 _]. cbn [forallb]. rewrite Hws3. reflexivity.
Qed.

Section PlainSib.
Variable F : nat.
Variable s0 : sc strin.
Variable start : marker.
Variable L : nat.
Hypothesis HL : (128 <= L)%nat.
Variable n : nat.
Hypothesis Hfl : sc_flow_level s0 = 0.
Hypothesis Hind : (0 <= sc_indent s0)%Z.
Notation indent := (sc_indent s0 + 1)%Z.
Notation st := (st_with s0).
Notation pblanks := (plain_blanks str_ops F).
Notation achunk := (after_chunk F s0 start).
Variable x : N.
Variable r : list N.
Hypothesis Hx : sib_head x.
Notation sib := (x :: r).
Notation Wt := (fun w : bool => w = true).

Lemma sib_stop f acc endm fb lb tb ws m : m_col m = 0 ->
  Qr s0 sib Wt acc (bind (pblanks (S fb) indent start lb tb ws) (pafter_blanks indent (ploop F indent start f) acc endm) (st sib L m true)).
Proof.
  intros Hc. destruct Hx as (Hb & Hk & _).
  rewrite (bind_Ok _ _ _ _ _ (pb_stop F s0 start L fb lb tb ws sib m true Hb Hk)).
  rewrite (pafter_blanks_end s0 L HL n).
  - eexists; eexists; eexists; eexists. split; reflexivity.
  - rewrite Hfl. reflexivity.
  - rewrite Hc. cbn. lia.
Qed.

(* behind a line break *)
Lemma sib_break_run : forall ws fb f lb tb wsb m acc endm,
  ws_only ws = true -> (length ws + 1 < fb)%nat ->
  Qr s0 sib Wt acc (bind (pblanks fb indent start lb tb wsb) (pafter_blanks indent (ploop F indent start f) acc endm) (st (ws ++ 10 :: sib) L m true)).
Proof.
  induction ws as [|c ws IH]; intros fb f lb tb wsb m acc endm H Hfb; (destruct fb as [|fb]; [cbn in Hfb; lia|]).
  - cbn [app]. change (10 :: sib) with (nl_src NlLF ++ sib).
    rewrite (bind_congr _ _ _ _ _ (pb_nl_more F s0 start L HL NlLF fb lb tb wsb sib m ltac:(intros E; discriminate E))).
    destruct fb as [|fb]; [cbn in Hfb; lia|]. apply sib_stop. apply nl_mark_col.
  - cbn [ws_only forallb] in H. apply andb_prop in H as [Hc H]. fold (ws_only ws) in H. cbn [app].
    apply orb_prop in Hc as [Hc|Hc]; apply N.eqb_eq in Hc; subst c.
    + change (10 :: ws ++ 10 :: sib) with (nl_src NlLF ++ ws ++ 10 :: sib).
      rewrite (bind_congr _ _ _ _ _ (pb_nl_more F s0 start L HL NlLF fb lb tb wsb (ws ++ 10 :: sib) m ltac:(intros E; discriminate E))).
      apply IH; [exact H|cbn [length] in Hfb; lia].
    + rewrite (bind_congr _ _ _ _ _ (pb_blank_skip F s0 start L HL fb lb tb wsb 32 (ws ++ 10 :: sib) m eq_refl ltac:(discriminate))).
      apply IH; [exact H|cbn [length] in Hfb; lia].
Qed.

(* behind the last word *)
Lemma sib_line_run : forall ws fb f wsb m acc endm,
  ws_only ws = true -> (length ws + 1 < fb)%nat ->
  Qr s0 sib Wt acc (bind (pblanks fb indent start false 0 wsb) (pafter_blanks indent (ploop F indent start f) acc endm) (st (ws ++ 10 :: sib) L m false)).
Proof.
  induction ws as [|c ws IH]; intros fb f wsb m acc endm H Hfb; (destruct fb as [|fb]; [cbn in Hfb; lia|]).
  - cbn [app]. change (10 :: sib) with (nl_src NlLF ++ sib).
    rewrite (bind_congr _ _ _ _ _ (pb_nl_first F s0 start L HL NlLF fb false 0 wsb sib m ltac:(intros E; discriminate E))).
    destruct fb as [|fb]; [cbn in Hfb; lia|]. apply sib_stop. apply nl_mark_col.
  - cbn [ws_only forallb] in H. apply andb_prop in H as [Hc H]. fold (ws_only ws) in H. cbn [app].
    apply orb_prop in Hc as [Hc|Hc]; apply N.eqb_eq in Hc; subst c.
    + change (10 :: ws ++ 10 :: sib) with (nl_src NlLF ++ ws ++ 10 :: sib).
      rewrite (bind_congr _ _ _ _ _ (pb_nl_first F s0 start L HL NlLF fb false 0 wsb (ws ++ 10 :: sib) m ltac:(intros E; discriminate E))).
      apply sib_break_run; [exact H|cbn [length] in Hfb; lia].
    + rewrite (bind_congr _ _ _ _ _ (pb_blank_ws F s0 start L HL fb false 0 wsb 32 (ws ++ 10 :: sib) m eq_refl)).
      apply IH; [exact H|cbn [length] in Hfb; lia].
Qed.

Lemma sib_follower_run ws : ws_only ws = true ->
  forall f acc m, (length ws + S (S (length r)) + 2 <= F)%nat -> acc <> [] -> col_ok s0 m ->
    Qr s0 sib Wt acc (achunk (ploop F indent start (S f)) false 0 [] acc (st (ws ++ 10 :: sib) L m false)).
Proof.
  intros H f acc m HF Hacc Hm. rewrite after_chunk_st.
  rewrite (ptail_blanks F s0 start L HL n).
  2:{ destruct ws as [|c ws']; [reflexivity|]. cbn [ws_only forallb] in H. apply andb_prop in H as [Hc _]. cbn [app nth].
      apply orb_prop in Hc as [Hc|Hc]; apply N.eqb_eq in Hc; subst c; reflexivity. }
  apply sib_line_run; [exact H|]. lia.
Qed.
End PlainSib.

(* C04_plain_full for a sibling line behind the scalar, with the input that is left and the flags *)
Theorem scan_plain_scalar_sib :
  forall (F n : nat) (first : list N) (more : list (brk_layout * list N)) (ws : list N) (x : N) (r : list N) (s : sc strin),
    plain_layout_wf false n first more = true -> sc_flow_level s = 0 ->
    si_chars (sc_in s) = plain_render first more ++ ws ++ 10 :: x :: r ->
    ws_only ws = true -> sib_head x ->
    (0 <= eff_indent s)%Z ->
    (eff_indent s < Z.of_nat n)%Z ->
    (eff_indent s < Z.of_N (m_col (sc_mark s)))%Z ->
    (2 * length (si_chars (sc_in s)) + 10 <= F)%nat ->
    exists sp s',
      scan_plain_scalar str_ops F s = Ok ((sp, TScalar Plain (plain_text first more)), s')
      /\ sp_start sp = sc_mark s /\ si_chars (sc_in s') = x :: r /\ sc_lws s' = true /\ sc_ska s' = true.
Proof.
  intros F n first more ws x r s Hwf Hfl Hsrc Hws Hx Hi0 Hn Hcol HF.
  destruct (scan_plain_scalar_rem F n first more (ws ++ 10 :: x :: r) (x :: r) (fun w => w = true) s) as (sp & s' & w' & E & Hsp & Hin & HW & Hlw & Hska);
    try assumption.
  - rewrite Hfl. exact Hwf.
  - rewrite Hfl. apply sib_follower_ok; assumption.
  - intros s0 start L f acc m HL Hi Hf HF2 Hacc Hm.
    rewrite app_length in HF2. cbn [length] in HF2.
    apply (sib_follower_run F s0 start L HL n ltac:(rewrite Hf; exact Hfl) ltac:(rewrite Hi; exact Hi0) x r Hx ws Hws f acc m HF2 Hacc Hm).
  - intros _ Hc0. exfalso. rewrite Hc0 in Hcol. cbn in Hcol. lia.
  - exists sp, s'. subst w'. repeat split; try assumption. apply Hska. reflexivity.
Qed.
