(* Assembly of the joint proof: over the buffered input of ANY capacity >= 8 the scanner model never panics
   (no lookahead-contract violation 103-107/200-203, no skeleton panic 110-118), for every input, every loop fuel F
   and every iteration fuel; hence the whole pipeline scanner + parser (run_buf) never ends in PPanic. *)
From Coq Require Import List NArith ZArith Bool Arith Lia.
Import ListNotations.
Require Import Parser SBase SPrim SDir SScalar SFetch SBuf Pipe ScanWP.
Require Import ScanSafePrim ScanSafeDir ScanSafeFlow ScanSafePlain ScanSafeBlock ScanSafeFetch.
Local Open Scope nat_scope.

Theorem scanner_never_panics_buffered : forall cap, 8 <= cap -> forall F fuel input n,
  snd (scan_all (buf_ops cap) F fuel (init_sc {| b_buf := []; b_rest := input |}) []) <> SPanic n.
Proof.
  intros cap Hc.
  pose proof (safe_skip_ws_to_eol cap Hc) as Hws.
  exact (ScanSafeFetch.scan_init_never_panics cap Hc
           (safe_skip_to_next_token cap Hc) Hws (safe_skip_yaml_whitespace cap Hc)
           (safe_scan_directive cap Hc Hws) (safe_scan_tag cap Hc Hws) (safe_scan_anchor cap Hc Hws)
           (safe_scan_flow_scalar cap Hc Hws) (safe_scan_plain_scalar cap Hc Hws)
           (safe_scan_block_scalar cap Hc Hws)).
Qed.

(* from any state satisfying the strengthened skeleton invariant, not only the initial one *)
Theorem scanner_never_panics_from : forall cap, 8 <= cap -> forall F fuel s acc n,
  ScanSafeFetch.SInv' s -> snd (scan_all (buf_ops cap) F fuel s acc) <> SPanic n.
Proof.
  intros cap Hc.
  pose proof (safe_skip_ws_to_eol cap Hc) as Hws.
  exact (ScanSafeFetch.scan_all_never_panics cap Hc
           (safe_skip_to_next_token cap Hc) Hws (safe_skip_yaml_whitespace cap Hc)
           (safe_scan_directive cap Hc Hws) (safe_scan_tag cap Hc Hws) (safe_scan_anchor cap Hc Hws)
           (safe_scan_flow_scalar cap Hc Hws) (safe_scan_plain_scalar cap Hc Hws)
           (safe_scan_block_scalar cap Hc Hws)).
Qed.

Theorem pipeline_never_panics_buffered : forall cap, 8 <= cap -> forall input n,
  snd (run_buf cap input) <> PPanic n.
Proof.
  intros cap Hc.
  pose proof (safe_skip_ws_to_eol cap Hc) as Hws.
  exact (ScanSafeFetch.run_buf_never_panics cap Hc
           (safe_skip_to_next_token cap Hc) Hws (safe_skip_yaml_whitespace cap Hc)
           (safe_scan_directive cap Hc Hws) (safe_scan_tag cap Hc Hws) (safe_scan_anchor cap Hc Hws)
           (safe_scan_flow_scalar cap Hc Hws) (safe_scan_plain_scalar cap Hc Hws)
           (safe_scan_block_scalar cap Hc Hws)).
Qed.

Print Assumptions scanner_never_panics_buffered.
Print Assumptions scanner_never_panics_from.
Print Assumptions pipeline_never_panics_buffered.
