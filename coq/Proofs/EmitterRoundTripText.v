(* C09 — the text the emitter writes for a SIMPLE tree (EmitterRoundTripDefs.v) is literally the document header line
   followed by the block text (Spec/BlockText.v) of [node_of c true doc] without its final line feed; that block-text node
   is a well-formed document of the block-text sub-language, nested at most 255 deep. *)
From Coq Require Import List NArith ZArith Bool Arith Lia.
Import ListNotations.
Require Import Resolver Loader Emitter Parser CharTraits TokenGrammar FlowText BlockText EmitterRoundTripDefs.
Open Scope N_scope.

(* ---------------- induction on trees (nested lists) ---------------- *)
Section NodeInd.
Variable P : node -> Prop.
Hypothesis Hnull : P NNull.
Hypothesis Hbool : forall b, P (NBool b).
Hypothesis Hint : forall z, P (NInt z).
Hypothesis Hfloat : forall t, P (NFloat t).
Hypothesis Hstr : forall s, P (NStr s).
Hypothesis Hseq : forall l, Forall P l -> P (NSeq l).
Hypothesis Hmap : forall l, Forall (fun kv => P (snd kv)) l -> P (NMap l).
Fixpoint node_ind_rt (n : node) : P n :=
  match n with
  | NNull => Hnull
  | NBool b => Hbool b
  | NInt z => Hint z
  | NFloat t => Hfloat t
  | NStr s => Hstr s
  | NSeq l => Hseq l ((fix go (l : list node) : Forall P l :=
                         match l with [] => Forall_nil _ | x :: r => Forall_cons x (node_ind_rt x) (go r) end) l)
  | NMap l => Hmap l ((fix go (l : list (node * node)) : Forall (fun kv => P (snd kv)) l :=
                         match l with
                         | [] => Forall_nil _
                         | kv :: r => Forall_cons kv (node_ind_rt (snd kv)) (go r)
                         end) l)
  end.
End NodeInd.

Lemma flat_map_map_rt {A B C} (f : B -> list C) (g : A -> B) l : flat_map f (map g l) = flat_map (fun x => f (g x)) l.
Proof. induction l as [|x r IH]; [reflexivity|]. cbn [map flat_map]. rewrite IH. reflexivity. Qed.

(* ---------------- leaves ---------------- *)
Lemma wch_no_lf (s : str) : forallb wch s = true -> contains_ch s 10 = false.
Proof.
  induction s as [|a r IH]; intros H; [reflexivity|].
  cbn [forallb] in H. apply andb_true_iff in H. destruct H as [Ha Hr].
  unfold contains_ch in *. cbn [existsb]. rewrite (IH Hr), orb_false_r.
  destruct (N.eqb_spec 10 a) as [E|E]; [|reflexivity]. subst a. vm_compute in Ha. discriminate.
Qed.

Lemma word_no_lf (s : str) : word_ok s = true -> contains_ch s 10 = false.
Proof. destruct s as [|a r]; [discriminate|]. intros H. apply wch_no_lf. exact H. Qed.

Lemma word_not_literal m L (s : str) : word_ok s = true -> is_literal_block m L s = false.
Proof. intros H. unfold is_literal_block. rewrite (word_no_lf s H), andb_false_r. reflexivity. Qed.

Lemma emit_string_word m L (s : str) : word_ok s = true -> need_quotes s = false -> emit_string m L s = s.
Proof. intros Hw Hq. unfold emit_string. rewrite (word_not_literal m L s Hw), Hq. reflexivity. Qed.

Lemma short_not_long_key (s : str) : need_quotes s = false -> key_short s = true -> is_long_key s = false.
Proof.
  intros Hq Hk. unfold is_long_key. destruct (utf8_len s <=? _); [reflexivity|]. rewrite Hq.
  unfold key_short, key_max in Hk. unfold str_len, emit_key_max. apply N.leb_le in Hk. apply N.ltb_ge. exact Hk.
Qed.

Lemma simple_leaf_not_coll n : simple_leaf n = true -> is_collection n = false.
Proof. destruct n; try reflexivity; discriminate. Qed.

Lemma simple_node_leaf n : is_collection n = false -> simple_node n = simple_leaf n.
Proof. destruct n; try reflexivity; discriminate. Qed.

Lemma node_of_leaf c inl n : is_collection n = false -> node_of c inl n = BW (leaf_text n).
Proof. destruct n; try reflexivity; discriminate. Qed.

Lemma complex_key_simple m L k : simple_key k = true -> complex_key m L k = false.
Proof.
  unfold simple_key. intros H. apply andb_true_iff in H. destruct H as [Hl Hs].
  destruct k as [|b|z|t|s|l|l]; try reflexivity; try discriminate.
  cbn [simple_leaf] in Hl. apply andb_true_iff in Hl. destruct Hl as [Hw Hq]. apply negb_true_iff in Hq.
  cbn [leaf_text] in Hs. cbn [complex_key].
  rewrite (word_not_literal m L s Hw), (short_not_long_key s Hq Hs), !andb_false_r. reflexivity.
Qed.

Lemma emit_leaf_none c m L k : simple_leaf k = true -> emit c m None L k = leaf_text k.
Proof.
  destruct k as [|b|z|t|s|l|l]; try reflexivity; try discriminate.
  cbn [simple_leaf]. intros H. apply andb_true_iff in H. destruct H as [Hw Hq]. apply negb_true_iff in Hq.
  cbn [emit scalar_prefix app leaf_text]. apply emit_string_word; assumption.
Qed.

Lemma emit_leaf_some c m b L k : simple_leaf k = true -> emit c m (Some b) L k = 32 :: leaf_text k.
Proof.
  destruct k as [|b0|z|t|s|l|l]; try reflexivity; try discriminate.
  cbn [simple_leaf]. intros H. apply andb_true_iff in H. destruct H as [Hw Hq]. apply negb_true_iff in Hq.
  cbn [emit scalar_prefix app leaf_text]. rewrite (emit_string_word m L s Hw Hq). reflexivity.
Qed.

Lemma leaf_word n : simple_leaf n = true -> word_ok (leaf_text n) = true.
Proof.
  destruct n as [|b|z|t|s|l|l]; try discriminate.
  - intros _. vm_compute. reflexivity.
  - intros _. destruct b; vm_compute; reflexivity.
  - cbn [simple_leaf leaf_text]. intros H. apply andb_true_iff in H. tauto.
  - cbn [simple_leaf leaf_text]. tauto.
  - cbn [simple_leaf leaf_text]. intros H. apply andb_true_iff in H. tauto.
Qed.

(* ---------------- layout ---------------- *)
(* the column of the entries of a collection emitted at level L *)
Definition col (L : Z) : nat := Z.to_nat (2 * (L + 1)).

Lemma indent_col L : (-1 <= L)%Z -> indent (L + 1) = spaces (col L).
Proof.
  intros HL. unfold indent, col, best_indent, spaces. destruct (Z.leb_spec (L + 1) 0) as [H|H].
  - assert (E : L = (-1)%Z) by lia. subst L. reflexivity.
  - f_equal. lia.
Qed.

Lemma col_succ L : (-1 <= L)%Z -> col (L + 1) = (col L + 2)%nat.
Proof. intros HL. unfold col. lia. Qed.

Definition item_text (cl : nat) (x : bnode) : str := 45 :: lead cl x ++ brender (child_col cl x) x.
Definition pair_btext (cl : nat) (p : str * bnode) : str :=
  fst p ++ 58 :: lead cl (snd p) ++ brender (child_col cl (snd p)) (snd p).

Lemma brender_BS_rt pl cl x xs :
  brender cl (BS pl (x :: xs)) = item_text cl x ++ flat_map (fun y => spaces cl ++ item_text cl y) xs.
Proof. cbn [brender map bjoin]. rewrite flat_map_concat_map, map_map, <- flat_map_concat_map. reflexivity. Qed.
Lemma brender_BM_rt pl cl p ps :
  brender cl (BM pl (p :: ps)) = pair_btext cl p ++ flat_map (fun y => spaces cl ++ pair_btext cl y) ps.
Proof. cbn [brender map bjoin]. rewrite flat_map_concat_map, map_map, <- flat_map_concat_map. reflexivity. Qed.

Section Layout.
Variables c m : bool.

(* the local fixpoints of emit, named *)
Definition items_text (level : Z) : bool -> list node -> str :=
  fix items (first : bool) (l : list node) : str :=
    match l with
    | [] => []
    | x :: r => (if first then [] else 10 :: indent (level + 1)) ++ [45] ++ emit c m (Some true) (level + 1) x
                ++ items false r
    end.
Definition pair_text (level : Z) (k x : node) : str :=
  if complex_key m (level + 1) k
  then [63] ++ emit c m (Some true) (level + 1) k ++ 10 :: indent (level + 1) ++ [58]
       ++ emit c m (Some true) (level + 1) x
  else emit c m None (level + 1) k ++ [58] ++ emit c m (Some false) (level + 1) x.
Definition pairs_text (level : Z) : bool -> list (node * node) -> str :=
  fix pairs (first : bool) (l : list (node * node)) : str :=
    match l with
    | [] => []
    | (k, x) :: r => (if first then [] else 10 :: indent (level + 1)) ++ pair_text level k x ++ pairs false r
    end.

Lemma emit_seq_cons mode level x r :
  emit c m mode level (NSeq (x :: r))
  = val_prefix c mode level false ++ [45] ++ emit c m (Some true) (level + 1) x ++ items_text level false r.
Proof. reflexivity. Qed.
Lemma emit_map_cons mode level k x r :
  emit c m mode level (NMap ((k, x) :: r))
  = val_prefix c mode level false ++ pair_text level k x ++ pairs_text level false r.
Proof. reflexivity. Qed.

Lemma pair_text_simple level k x : simple_key k = true ->
  pair_text level k x = leaf_text k ++ [58] ++ emit c m (Some false) (level + 1) x.
Proof.
  intros Hk. unfold pair_text. rewrite (complex_key_simple m (level + 1) k Hk).
  unfold simple_key in Hk. apply andb_true_iff in Hk. destruct Hk as [Hl _].
  rewrite (emit_leaf_none c m (level + 1) k Hl). reflexivity.
Qed.

Lemma val_prefix_lead b L pl items :
  (-1 <= L)%Z ->
  val_prefix c (Some b) (L + 1) false = lead (col L) (BS (if b && c then None else Some 1%nat) items)
  /\ val_prefix c (Some b) (L + 1) false = lead (col L) (BM (if b && c then None else Some 1%nat) pl).
Proof.
  intros HL. cbn [val_prefix lead]. rewrite orb_false_r. destruct (b && c); [split; reflexivity|].
  rewrite (indent_col (L + 1)) by lia. rewrite (col_succ L HL).
  replace (col L + 1 + 1)%nat with (col L + 2)%nat by lia. split; reflexivity.
Qed.

(* what is shown for every node, by induction: a collection emitted at level L is its block text at column col L,
   up to the final line feed *)
Definition coll_ok (n : node) : Prop :=
  forall L inl, (-1 <= L)%Z -> simple_node n = true -> is_collection n = true ->
  emit c m None L n ++ [10] = brender (col L) (node_of c inl n).

(* the text behind "-" (b = true) or "key:" (b = false) *)
Lemma child_ok x b L : (-1 <= L)%Z -> simple_node x = true -> coll_ok x ->
  emit c m (Some b) (L + 1) x ++ [10]
  = lead (col L) (node_of c b x) ++ brender (child_col (col L) (node_of c b x)) (node_of c b x).
Proof.
  intros HL Hs Hx. destruct (is_collection x) eqn:Ec.
  - assert (HL1 : (-1 <= L + 1)%Z) by lia.
    pose proof (Hx (L + 1)%Z b HL1 Hs Ec) as Hb. rewrite (col_succ L HL) in Hb.
    destruct x as [|b0|z|t|s|l|l]; try discriminate.
    + destruct l as [|y r]; [discriminate|].
      rewrite emit_seq_cons. rewrite emit_seq_cons in Hb. cbn [val_prefix app] in Hb.
      rewrite <- app_assoc. cbn [app] in Hb |- *. rewrite Hb.
      cbn [node_of]. rewrite (proj1 (val_prefix_lead b L [] (map (node_of c true) (y :: r)) HL)).
      destruct (b && c); cbn [child_col]; replace (col L + 1 + 1)%nat with (col L + 2)%nat by lia; reflexivity.
    + destruct l as [|[k y] r]; [discriminate|].
      rewrite emit_map_cons. rewrite emit_map_cons in Hb. cbn [val_prefix app] in Hb.
      rewrite <- app_assoc. rewrite Hb.
      cbn [node_of].
      rewrite (proj2 (val_prefix_lead b L (map (fun kv => (leaf_text (fst kv), node_of c false (snd kv))) ((k, y) :: r)) [] HL)).
      destruct (b && c); cbn [child_col]; replace (col L + 1 + 1)%nat with (col L + 2)%nat by lia; reflexivity.
  - rewrite (simple_node_leaf x Ec) in Hs. rewrite (emit_leaf_some c m b (L + 1) x Hs), (node_of_leaf c b x Ec).
    cbn [lead child_col brender app]. reflexivity.
Qed.

Lemma items_shift L r : (-1 <= L)%Z -> Forall coll_ok r -> forallb simple_node r = true -> forall e,
  (e ++ items_text L false r) ++ [10]
  = (e ++ [10]) ++ flat_map (fun y => spaces (col L) ++ item_text (col L) (node_of c true y)) r.
Proof.
  intros HL Hall. induction Hall as [|x r Hx Hr IH]; intros Hs e.
  - cbn [items_text flat_map]. rewrite !app_nil_r. reflexivity.
  - cbn [forallb] in Hs. apply andb_true_iff in Hs. destruct Hs as [Hsx Hsr].
    change (items_text L false (x :: r))
      with ((10 :: indent (L + 1)) ++ [45] ++ emit c m (Some true) (L + 1) x ++ items_text L false r).
    transitivity (((e ++ (10 :: indent (L + 1)) ++ [45] ++ emit c m (Some true) (L + 1) x) ++ items_text L false r) ++ [10]).
    { rewrite <- !app_assoc. reflexivity. }
    rewrite (IH Hsr). cbn [flat_map]. unfold item_text at 2. rewrite <- (child_ok x true L HL Hsx Hx).
    rewrite (indent_col L HL). rewrite <- !app_assoc. cbn [app]. rewrite <- !app_assoc. reflexivity.
Qed.

Lemma pairs_shift L r : (-1 <= L)%Z -> Forall (fun kv => coll_ok (snd kv)) r ->
  forallb (fun kv => simple_key (fst kv) && simple_node (snd kv)) r = true -> forall e,
  (e ++ pairs_text L false r) ++ [10]
  = (e ++ [10]) ++ flat_map (fun kv => spaces (col L) ++ pair_btext (col L) (leaf_text (fst kv), node_of c false (snd kv))) r.
Proof.
  intros HL Hall. induction Hall as [|[k x] r Hx Hr IH]; intros Hs e.
  - cbn [pairs_text flat_map]. rewrite !app_nil_r. reflexivity.
  - cbn [forallb fst snd] in Hs. apply andb_true_iff in Hs. destruct Hs as [Hsx Hsr].
    apply andb_true_iff in Hsx. destruct Hsx as [Hk Hsx]. cbn [snd] in Hx.
    change (pairs_text L false ((k, x) :: r))
      with ((10 :: indent (L + 1)) ++ pair_text L k x ++ pairs_text L false r).
    rewrite (pair_text_simple L k x Hk).
    transitivity (((e ++ (10 :: indent (L + 1)) ++ leaf_text k ++ [58] ++ emit c m (Some false) (L + 1) x)
                   ++ pairs_text L false r) ++ [10]).
    { rewrite <- !app_assoc. reflexivity. }
    rewrite (IH Hsr). cbn [flat_map]. unfold pair_btext at 2. cbn [fst snd]. rewrite <- (child_ok x false L HL Hsx Hx).
    rewrite (indent_col L HL). rewrite <- !app_assoc. cbn [app]. rewrite <- !app_assoc. reflexivity.
Qed.

Theorem all_coll_ok n : coll_ok n.
Proof.
  induction n as [|b|z|t|s|l IH|l IH] using node_ind_rt; try (intros L inl HL Hs Hc; discriminate).
  - intros L inl HL Hs _. cbn [simple_node] in Hs. apply andb_true_iff in Hs. destruct Hs as [Hne Hs].
    destruct l as [|x r]; [discriminate|]. cbn [forallb] in Hs. apply andb_true_iff in Hs. destruct Hs as [Hsx Hsr].
    inversion IH as [|x0 r0 Hx Hr]; subst x0 r0.
    rewrite emit_seq_cons. cbn [val_prefix].
    change ([] ++ [45] ++ emit c m (Some true) (L + 1) x ++ items_text L false r)
      with (([45] ++ emit c m (Some true) (L + 1) x) ++ items_text L false r).
    rewrite (items_shift L r HL Hr Hsr).
    cbn [node_of map]. rewrite brender_BS_rt, flat_map_map_rt. f_equal.
    unfold item_text. rewrite <- (child_ok x true L HL Hsx Hx). reflexivity.
  - intros L inl HL Hs _. cbn [simple_node] in Hs. apply andb_true_iff in Hs. destruct Hs as [Hs _].
    apply andb_true_iff in Hs. destruct Hs as [Hne Hs].
    destruct l as [|[k x] r]; [discriminate|]. cbn [forallb fst snd] in Hs. apply andb_true_iff in Hs. destruct Hs as [Hsx Hsr].
    apply andb_true_iff in Hsx. destruct Hsx as [Hk Hsx].
    inversion IH as [|x0 r0 Hx Hr]; subst x0 r0. cbn [snd] in Hx.
    rewrite emit_map_cons. cbn [val_prefix]. rewrite (pair_text_simple L k x Hk).
    change ([] ++ (leaf_text k ++ [58] ++ emit c m (Some false) (L + 1) x) ++ pairs_text L false r)
      with ((leaf_text k ++ [58] ++ emit c m (Some false) (L + 1) x) ++ pairs_text L false r).
    rewrite (pairs_shift L r HL Hr Hsr).
    cbn [node_of map fst snd]. rewrite brender_BM_rt, flat_map_map_rt. f_equal.
    unfold pair_btext. cbn [fst snd]. rewrite <- (child_ok x false L HL Hsx Hx). rewrite <- !app_assoc. reflexivity.
Qed.

End Layout.

(* ---------------- 1. the emitted text ---------------- *)
Theorem emit_simple_text : forall c m doc, simple_tree doc = true ->
  dump_doc c m doc = doc_header ++ blast (node_of c true doc).
Proof.
  intros c m doc H. unfold simple_tree in H. apply andb_true_iff in H. destruct H as [H _].
  apply andb_true_iff in H. destruct H as [Hc Hs].
  unfold dump_doc, emit_node, doc_header, blast, bdoc_text. f_equal.
  change 0%nat with (col (-1)).
  rewrite <- (all_coll_ok c m doc (-1)%Z true ltac:(lia) Hs Hc). rewrite removelast_last. reflexivity.
Qed.

(* ---------------- 2. well-formedness ---------------- *)
Lemma place_ok_node_of (c inl : bool) : place_ok inl (if inl && c then None else Some 1%nat) = true.
Proof. destruct inl, c; reflexivity. Qed.

Lemma node_of_wf c n : forall inl, simple_node n = true -> bwf inl (node_of c inl n) = true.
Proof.
  induction n as [|b|z|t|s|l IH|l IH] using node_ind_rt; intros inl Hs;
    try (cbn [node_of bwf]; apply leaf_word; exact Hs).
  - cbn [simple_node] in Hs. apply andb_true_iff in Hs. destruct Hs as [Hne Hs].
    cbn [node_of bwf]. rewrite place_ok_node_of. cbn [andb].
    apply andb_true_iff. split; [destruct l; [discriminate|reflexivity]|].
    clear Hne. induction IH as [|x r Hx Hr IHr]; [reflexivity|].
    cbn [forallb] in Hs. apply andb_true_iff in Hs. destruct Hs as [Hsx Hsr].
    cbn [map forallb]. rewrite (Hx true Hsx), (IHr Hsr). reflexivity.
  - cbn [simple_node] in Hs. apply andb_true_iff in Hs. destruct Hs as [Hs _].
    apply andb_true_iff in Hs. destruct Hs as [Hne Hs].
    cbn [node_of bwf]. rewrite place_ok_node_of. cbn [andb].
    apply andb_true_iff. split; [destruct l; [discriminate|reflexivity]|].
    clear Hne. induction IH as [|[k x] r Hx Hr IHr]; [reflexivity|].
    cbn [forallb fst snd] in Hs. apply andb_true_iff in Hs. destruct Hs as [Hsx Hsr].
    apply andb_true_iff in Hsx. destruct Hsx as [Hk Hsx]. cbn [snd] in Hx.
    unfold simple_key in Hk. apply andb_true_iff in Hk. destruct Hk as [Hl Hshort].
    cbn [map forallb fst snd]. rewrite (IHr Hsr), (Hx false Hsx). unfold key_ok. rewrite (leaf_word k Hl), Hshort. reflexivity.
Qed.

Theorem node_of_root_wf : forall c doc, simple_tree doc = true -> bwf_root (node_of c true doc) = true.
Proof.
  intros c doc H. unfold simple_tree in H. apply andb_true_iff in H. destruct H as [H _].
  apply andb_true_iff in H. destruct H as [Hc Hs].
  unfold bwf_root. rewrite (node_of_wf c doc true Hs), andb_true_r.
  destruct doc; try discriminate; reflexivity.
Qed.

(* ---------------- 3. depth ---------------- *)
Lemma node_of_bdepth c n : forall inl, bdepth (node_of c inl n) = ndepth n.
Proof.
  induction n as [|b|z|t|s|l IH|l IH] using node_ind_rt; intros inl; try reflexivity.
  - cbn [node_of bdepth ndepth]. f_equal.
    induction IH as [|x r Hx Hr IHr]; [reflexivity|]. cbn [map fold_right]. rewrite (Hx true), IHr. reflexivity.
  - cbn [node_of bdepth ndepth]. f_equal.
    induction IH as [|[k x] r Hx Hr IHr]; [reflexivity|]. cbn [snd] in Hx.
    cbn [map fold_right snd]. rewrite (Hx false), IHr. reflexivity.
Qed.

Theorem node_of_depth : forall c doc, simple_tree doc = true -> (bdepth (node_of c true doc) <= 255)%nat.
Proof.
  intros c doc H. unfold simple_tree in H. apply andb_true_iff in H. destruct H as [_ Hd].
  rewrite node_of_bdepth. apply Nat.leb_le. exact Hd.
Qed.

Print Assumptions emit_simple_text.
Print Assumptions node_of_root_wf.
Print Assumptions node_of_depth.
