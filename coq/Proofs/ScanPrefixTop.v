(* C15 prefix stability of the scanner (see ScanPrefix.v): assembly.
   1. the end step: side 1 at the end of its input queues StreamEnd, side 2 queues DocumentEnd for the "..." line;
   2. fetch_next_token / fetch_more_tokens / next_token in lockstep until that step;
   3. the whole run: the tokens delivered by side 2 up to DocumentEnd are side 1's tokens without StreamEnd. *)
From Coq Require Import List NArith ZArith Bool Arith Lia.
Import ListNotations.
Require Import Parser SBase SPrim SDir SScalar SFetch ScanFrame DocScan LazyScan.
Require Import ScanPrefix ScanPrefixPrim ScanPrefixFetch.
Require ScanPrefixDir ScanPrefixFlow ScanPrefixPlain ScanPrefixBlock.
Local Open Scope nat_scope.

(* ================================================================================================ *)
(* 0. unroll_indent as a function of the indentation fields                                         *)
(* ================================================================================================ *)
Fixpoint unr (fuel : nat) (col ind : Z) (inds : list indent_rec) (mk : marker) : option (Z * list indent_rec * list token) :=
  match fuel with
  | O => None
  | S f =>
    if (col <? ind)%Z then
      match inds with
      | [] => None
      | i :: r => match unr f col (in_indent i) r mk with
                  | Some (a, b, c) => Some (a, b, (if in_needs_block_end i then [(span_empty mk, TBlockEnd)] else []) ++ c)
                  | None => None
                  end
      end
    else Some (ind, inds, [])
  end.
Definition nerr {A} (o : outcome A) : Prop := match o with Ok _ | Err _ _ => False | _ => True end.
Lemma ugo_S fuel col (s : bst) :
  unroll_indent_go (S fuel) col s =
  if (col <? sc_indent s)%Z then
    match sc_indents s with
    | [] => Panic 113%N
    | i :: r => unroll_indent_go fuel col
                  (if in_needs_block_end i
                   then set_tokens (sc_tokens s ++ [(span_empty (sc_mark s), TBlockEnd)]) (set_indent (in_indent i) r s)
                   else set_indent (in_indent i) r s)
    end
  else Ok (tt, s).
Proof.
  cbn [unroll_indent_go]. unfold bind at 1, get at 1. destruct (col <? sc_indent s)%Z; [|reflexivity].
  destruct (sc_indents s) as [|i r]; [reflexivity|]. unfold bind at 1, put at 1.
  destruct (in_needs_block_end i); reflexivity.
Qed.
Lemma unroll_go_unr fuel col : forall (s : bst),
  match unr fuel col (sc_indent s) (sc_indents s) (sc_mark s) with
  | Some (i, l, b) => unroll_indent_go fuel col s = Ok (tt, set_tokens (sc_tokens s ++ b) (set_indent i l s))
  | None => nerr (unroll_indent_go fuel col s)
  end.
Proof.
  induction fuel as [|fuel IH]; intros s; [exact I|]. rewrite ugo_S. cbn [unr].
  destruct (col <? sc_indent s)%Z.
  - destruct (sc_indents s) as [|i r] eqn:EI; [exact I|].
    destruct (in_needs_block_end i) eqn:EN.
    + specialize (IH (set_tokens (sc_tokens s ++ [(span_empty (sc_mark s), TBlockEnd)]) (set_indent (in_indent i) r s))).
      cbn [sc_indent sc_indents sc_mark sc_tokens set_tokens set_indent set_struct upd] in IH.
      destruct (unr fuel col (in_indent i) r (sc_mark s)) as [[[a b] c]|]; [|exact IH].
      rewrite IH. destruct s. cbn. rewrite <- app_assoc. reflexivity.
    + specialize (IH (set_indent (in_indent i) r s)).
      cbn [sc_indent sc_indents sc_mark sc_tokens set_tokens set_indent set_struct upd] in IH.
      destruct (unr fuel col (in_indent i) r (sc_mark s)) as [[[a b] c]|]; [|exact IH].
      rewrite IH. destruct s. reflexivity.
  - destruct s. cbn. rewrite app_nil_r. reflexivity.
Qed.
Definition unrF (col : Z) (s : bst) : option (Z * list indent_rec * list token) :=
  if (0 <? sc_flow_level s)%N then Some (sc_indent s, sc_indents s, [])
  else unr (S (length (sc_indents s))) col (sc_indent s) (sc_indents s) (sc_mark s).
Lemma unroll_unrF col (s : bst) :
  match unrF col s with
  | Some (i, l, b) => unroll_indent col s = Ok (tt, set_tokens (sc_tokens s ++ b) (set_indent i l s))
  | None => nerr (unroll_indent col s)
  end.
Proof.
  assert (E : unroll_indent col s = if (0 <? sc_flow_level s)%N then Ok (tt, s) else unroll_indent_go (S (length (sc_indents s))) col s).
  { unfold unroll_indent. unfold bind at 1, get at 1. destruct (0 <? sc_flow_level s)%N; reflexivity. }
  rewrite E. unfold unrF. destruct (0 <? sc_flow_level s)%N.
  - destruct s. cbn. rewrite app_nil_r. reflexivity.
  - apply unroll_go_unr.
Qed.
Lemma unr_block_ends fuel col mk : forall ind inds a b c, unr fuel col ind inds mk = Some (a, b, c) ->
  Forall (fun t => snd t = TBlockEnd) c.
Proof.
  induction fuel as [|fuel IH]; intros ind inds a b c; cbn [unr]; [discriminate|].
  destruct (col <? ind)%Z; [|intros H; inversion H; constructor].
  destruct inds as [|i r]; [discriminate|].
  destruct (unr fuel col (in_indent i) r mk) as [[[a' b'] c']|] eqn:E; [|discriminate].
  intros H; inversion H; subst. apply Forall_app. split; [|eapply IH; eauto].
  destruct (in_needs_block_end i); constructor; [reflexivity|constructor].
Qed.

(* ================================================================================================ *)
(* 1. The end step                                                                                  *)
(* ================================================================================================ *)
Section Top.
Variable d : list chr.
Local Notation bwp := (swp d).

Definition block_ends (l : list token) : Prop := Forall (fun t => snd t = TBlockEnd) l.

Definition end_post (v1 v2 t1 t2 : bst) : Prop :=
  exists b sps spd,
    sc_tokens t1 = sc_tokens v1 ++ b ++ [(sps, TStreamEnd)] /\ sc_tokens t2 = sc_tokens v2 ++ b ++ [(spd, TDocumentEnd)]
    /\ block_ends b /\ allclr (sc_sks t1)
    /\ sc_tokens_parsed t1 = sc_tokens_parsed v1 /\ sc_tokens_parsed t2 = sc_tokens_parsed v2
    /\ sc_token_available t1 = sc_token_available v1 /\ sc_token_available t2 = sc_token_available v2
    /\ sc_stream_end t1 = sc_stream_end v1 /\ sc_stream_end t2 = sc_stream_end v2
    /\ sc_flow_level t1 = sc_flow_level v1 /\ sc_flow_level t2 = sc_flow_level v2
    /\ rm t2 = 10%N :: d.

Lemma existsb_kill l : existsb (fun k => sk_required k && sk_possible k) l = false ->
  forall k, In k l -> sk_possible k && sk_required k = false.
Proof.
  intros H k Hk. destruct (sk_possible k && sk_required k) eqn:E; [|reflexivity].
  assert (X : existsb (fun k => sk_required k && sk_possible k) l = true).
  { apply existsb_exists. exists k. split; [exact Hk|]. rewrite andb_comm. exact E. }
  congruence.
Qed.
Lemma allclr_map_kill (l : list simple_key) :
  allclr (map (fun k => {| sk_possible := false; sk_required := sk_required k; sk_token_number := sk_token_number k; sk_mark := sk_mark k |}) l).
Proof. induction l; constructor; [reflexivity|assumption]. Qed.

Lemma dispatch_at_marker F (v : bst) :
  rn v 0 = 46%N -> rn v 1 = 46%N -> rn v 2 = 46%N -> rn v 3 = 10%N -> m_col (sc_mark v) = 0%N -> 4 <= lk v ->
  fnt_dispatch F v =
  bind (fetch_document_indicator sops TDocumentEnd) (fun _ => bind (skip_ws_to_eol sops F SkipYes) (fun _ =>
    bind (next_is sops is_breakz) (fun b => if b then ret tt else bind mark (fun m => fail 101%N m)))) v.
Proof.
  intros H0 H1 H2 H3 HC HL. unfold fnt_dispatch. unfold bind at 1, get at 1. unfold bind at 1. rewrite peek_ok.
  rewrite HC, H0. change (0 =? 0)%N with true. change (46 =? 37)%N with false. cbv iota.
  assert (L4 : Nat.ltb (lk v) 4 = false) by (apply Nat.ltb_ge; exact HL).
  unfold bind at 1. rewrite docstart_eval, L4.
  assert (DS : docstart_val v = false) by (unfold docstart_val, n3are; rewrite H0; reflexivity).
  assert (DE : docend_val v = true) by (unfold docend_val, n3are; rewrite H0, H1, H2, H3; reflexivity).
  rewrite DS. cbn [andb negb]. unfold bind at 1. rewrite docend_eval, L4, DE. reflexivity.
Qed.
Lemma ws_at_break f stb (s : bst) : rn s 0 = 10%N ->
  skip_ws_to_eol sops (S f) stb s = Ok ((false, false), set_mark (adv 0 (sc_mark s)) (bump 1 s)).
Proof.
  intros H. unfold skip_ws_to_eol. cbn [in_skip_ws_to_eol]. unfold bind at 1. unfold bind at 1. rewrite look_ch_ok.
  change (rn (bump 1 s) 0) with (rn s 0). rewrite H.
  change (10 =? 32)%N with false. change (10 =? 9)%N with false. change (10 =? 35)%N with false. cbn [andb]. reflexivity.
Qed.

Lemma skip_n_nb_ok n (s : bst) :
  skip_n_non_blank sops n s = Ok (tt, set_lws false (set_mark (adv (N.of_nat n) (sc_mark s)) (dropn n s))).
Proof. reflexivity. Qed.
Lemma next_is_ok p (s : bst) : next_is sops p s = Ok (p (rn s 0), s).
Proof. reflexivity. Qed.

Lemma end_step F2 (v1 v2 : bst) : SH d v1 v2 -> rm v1 = [] -> 4 <= lk v1 ->
  match fetch_stream_end v1 with
  | Ok (_, t1) => match fnt_dispatch F2 v2 with
                  | Ok (_, t2) => end_post v1 v2 t1 t2
                  | Err _ _ => False
                  | _ => True
                  end
  | _ => True
  end.
Proof.
  intros H HE HL.
  destruct (sh_end H HE) as [HC HW].
  pose proof (SH_rm H) as R2. pose proof (SH_lk H) as L2. pose proof (rst_fields _ _ (sh_rst H)) as HF. clear H.
  destruct v1 as [[ch1 k1] [mi ml mc] tk1 ss1 se1 adj1 ska1 sks1 ind1 inds1 fl1 tp1 ta1 lws1 ifm1].
  destruct v2 as [[ch2 k2] [mi2 ml2 mc2] tk2 ss2 se2 adj2 ska2 sks2 ind2 inds2 fl2 tp2 ta2 lws2 ifm2].
  unfold rm, lk in *. cbn [sc_in sc_mark sc_tokens sc_stream_start sc_stream_end sc_adjacent sc_ska sc_sks sc_indent
    sc_indents sc_flow_level sc_tokens_parsed sc_token_available sc_lws sc_ifms si_chars si_look m_col] in *.
  destruct HF as (EM & E1 & E2 & E3 & E4 & E5 & E6 & E7 & E8 & E9 & E10 & E11 & E12).
  inversion EM; subst. cbn [app].
  Ltac mred := cbv [fetch_stream_end fetch_document_indicator bind modify get put ret fail panic remove_simple_key
    disallow_simple_key mark gets push_tok
    set_sks set_ska set_tokens set_mark set_in set_lws set_flags set_struct set_indent upd sc_in sc_mark sc_sks sc_tokens sc_stream_start
    sc_stream_end sc_adjacent sc_ska sc_indent sc_indents sc_flow_level sc_tokens_parsed sc_token_available sc_lws sc_ifms
    m_col m_index m_line].
  mred. change (0 =? 0)%N with true. cbv iota.
  match goal with |- context [existsb ?f sks2] => destruct (existsb f sks2) eqn:EX end; [exact I|].
  match goal with |- context [unroll_indent (-1) ?w] => pose proof (unroll_unrF (-1) w) as U1 end.
  unfold unrF in U1. cbn [sc_flow_level sc_indent sc_indents sc_mark sc_tokens] in U1.
  remember (if (0 <? fl2)%N then Some (ind2, inds2, []) else unr (S (length inds2)) (-1) ind2 inds2 {| m_index := mi2; m_line := ml2; m_col := 0 |}) as UR eqn:EUR.
  destruct UR as [[[ui ul] ub]|].
  2:{ match goal with |- context [unroll_indent (-1) ?w] => destruct (unroll_indent (-1) w) as [[? ?]|? ?|?|] end; try exact I; destruct U1. }
  rewrite U1. mred. cbv beta iota.
  destruct sks2 as [|k r]; [exact I|]. cbn [map]. cbn [andb].
  (* side 2 *)
  rewrite dispatch_at_marker; try reflexivity; [|exact HL].
  match goal with |- context [bind (fetch_document_indicator sops TDocumentEnd) ?f ?w] =>
    pose proof (unroll_unrF (-1) w) as U2 end.
  unfold unrF in U2. cbn [sc_flow_level sc_indent sc_indents sc_mark sc_tokens] in U2. rewrite <- EUR in U2.
  unfold bind at 1. unfold fetch_document_indicator. unfold bind at 1. rewrite U2.
  assert (EK : sk_possible k && sk_required k = false) by (apply (existsb_kill _ EX); left; reflexivity).
  mred. cbv beta iota. rewrite EK. clear U1 U2. cbn [sk_possible sk_required andb].
  rewrite skip_n_nb_ok. cbv beta iota.
  unfold dropn, rm, lk. mred. cbv beta iota. cbn [skipn TX].
  destruct F2 as [|f2]; [exact I|].
  rewrite ws_at_break by reflexivity. cbv beta iota. rewrite next_is_ok.
  unfold bump, rm, lk. mred. cbv beta iota. unfold rn, rm. mred. cbn [si_chars si_look]. unfold TX. cbn [nth].
  change (is_breakz 10%N) with true. cbv beta iota.
  unfold end_post, rm. cbn [sc_in sc_tokens sc_sks sc_tokens_parsed sc_token_available sc_stream_end sc_flow_level si_chars].
  eexists ub, _, _. rewrite <- !app_assoc.
  split; [reflexivity|]. split; [reflexivity|]. split.
  { unfold block_ends. destruct (0 <? fl2)%N; [inversion EUR; constructor|]. symmetry in EUR. eapply unr_block_ends; exact EUR. }
  split; [constructor; [reflexivity|apply allclr_map_kill]|].
  repeat (split; [reflexivity|]). reflexivity.
Qed.

(* ================================================================================================ *)
(* 2. Draining a queue when no simple key is possible (one-sided, used on both sides)               *)
(* ================================================================================================ *)
Definition same_but (s s' : bst) : Prop :=
  sc_in s' = sc_in s /\ sc_mark s' = sc_mark s /\ sc_tokens s' = sc_tokens s /\ sc_stream_start s' = sc_stream_start s
  /\ sc_stream_end s' = sc_stream_end s /\ sc_indent s' = sc_indent s /\ sc_indents s' = sc_indents s
  /\ sc_flow_level s' = sc_flow_level s /\ sc_tokens_parsed s' = sc_tokens_parsed s /\ sc_ifms s' = sc_ifms s
  /\ allclr (sc_sks s') /\ length (sc_sks s') = length (sc_sks s).

Lemma allclr_stale_false (f : simple_key -> bool) (g : simple_key -> bool) l : allclr l ->
  existsb (fun k => sk_possible k && f k && g k) l = false.
Proof. intros H. induction H as [|k l Hk _ IH]; cbn [existsb]; [reflexivity|]. rewrite Hk, IH. reflexivity. Qed.
Lemma allclr_map_stale (f : simple_key -> bool) l : allclr l ->
  allclr (map (fun k => if f k then {| sk_possible := false; sk_required := sk_required k; sk_token_number := sk_token_number k; sk_mark := sk_mark k |} else k) l).
Proof. intros H. induction H as [|k l Hk _ IH]; cbn [map]; constructor; [destruct (f k); [reflexivity|exact Hk]|exact IH]. Qed.

Lemma stale_clear (s : bst) : allclr (sc_sks s) ->
  exists s', stale_simple_keys s = Ok (tt, s') /\ same_but s s' /\ sc_token_available s' = sc_token_available s.
Proof.
  intros HC. unfold stale_simple_keys. unfold bind, get. cbv zeta.
  match goal with |- context [existsb ?f (sc_sks s)] => assert (E : existsb f (sc_sks s) = false) end.
  { clear -HC. induction HC as [|k l Hk _ IH]; cbn [existsb]; [reflexivity|]. rewrite Hk, IH. reflexivity. }
  rewrite E. unfold put. eexists. split; [reflexivity|]. split; [|reflexivity].
  unfold same_but. cbn [sc_in sc_mark sc_tokens sc_stream_start sc_stream_end sc_indent sc_indents sc_flow_level
    sc_tokens_parsed sc_ifms sc_sks set_sks set_struct]. repeat split; try reflexivity.
  - clear -HC. induction HC as [|k l Hk _ IH]; cbn [map]; constructor; [|exact IH].
    match goal with |- sk_possible (if ?b then _ else _) = false => destruct b end; [reflexivity|exact Hk].
  - apply map_length.
Qed.

Lemma fmt_clear F n (s : bst) : allclr (sc_sks s) -> sc_tokens s <> [] ->
  exists s', fetch_more_tokens sops F (S n) s = Ok (tt, s') /\ same_but s s' /\ sc_token_available s' = true.
Proof.
  intros HC HT. cbn [fetch_more_tokens]. unfold bind at 1, get at 1.
  destruct (sc_tokens s) as [|t r] eqn:ET; [contradiction|].
  destruct (stale_clear s HC) as (s1 & E1 & SB & TA). unfold bind at 1. unfold bind at 1. rewrite E1.
  unfold bind at 1, get at 1. unfold ret.
  destruct SB as (B1 & B2 & B3 & B4 & B5 & B6 & B7 & B8 & B9 & B10 & B11 & B12).
  rewrite (allclr_existsb _ _ B11). unfold modify. eexists. split; [reflexivity|]. split; [|reflexivity].
  unfold same_but. cbn [sc_in sc_mark sc_tokens sc_stream_start sc_stream_end sc_indent sc_indents sc_flow_level
    sc_tokens_parsed sc_ifms sc_sks set_ta set_flags]. repeat split; assumption.
Qed.

(* one token handed out from a state in which no key is possible *)
Definition popped (t : token) (r : list token) (s s' : bst) : Prop :=
  sc_in s' = sc_in s /\ sc_mark s' = sc_mark s /\ sc_tokens s' = r /\ sc_stream_start s' = sc_stream_start s
  /\ sc_indent s' = sc_indent s /\ sc_indents s' = sc_indents s
  /\ sc_flow_level s' = sc_flow_level s /\ sc_tokens_parsed s' = (sc_tokens_parsed s + 1)%N /\ sc_ifms s' = sc_ifms s
  /\ allclr (sc_sks s') /\ length (sc_sks s') = length (sc_sks s) /\ sc_token_available s' = false
  /\ sc_stream_end s' = is_se (snd t).
Lemma pop_clear f (s : bst) t r : allclr (sc_sks s) -> sc_stream_end s = false -> sc_tokens s = t :: r ->
  exists s', next_token sops (S f) s = Ok (Some t, s') /\ popped t r s s'.
Proof.
  intros HC HE HT. unfold next_token. unfold bind at 1, get at 1. rewrite HE.
  assert (HM : exists s1, (if sc_token_available s then ret tt else fetch_more_tokens sops (S f) (S f)) s = Ok (tt, s1)
                          /\ same_but s s1).
  { destruct (sc_token_available s).
    - exists s. split; [reflexivity|]. unfold same_but. repeat split; auto.
    - destruct (fmt_clear (S f) f s HC ltac:(rewrite HT; discriminate)) as (s1 & E1 & SB & _). exists s1. auto. }
  destruct HM as (s1 & E1 & SB). unfold bind at 1. rewrite E1.
  destruct SB as (B1 & B2 & B3 & B4 & B5 & B6 & B7 & B8 & B9 & B10 & B11 & B12).
  unfold bind at 1, get at 1. rewrite B3, HT. unfold bind at 1, put at 1.
  assert (HS : forall (x : bst), sc_stream_end x = false ->
     exists x', (bind (match snd t with TStreamEnd => modify (set_se true) | _ => ret tt end) (fun _ => ret (Some t))) x = Ok (Some t, x')
                /\ sc_stream_end x' = is_se (snd t) /\ ers (set_se false x') = ers (set_se false x) /\ sc_in x' = sc_in x).
  { intros x Hx. destruct (snd t); (eexists; split; [reflexivity|]); cbn [is_se]; (split; [first [exact Hx|reflexivity]|split; reflexivity]). }
  match goal with |- context [bind _ _ ?x] => destruct (HS x) as (x' & EX & SE' & FR & IN') end.
  { cbn [sc_stream_end set_tp set_ta set_tokens set_struct set_flags upd]. rewrite B5. exact HE. }
  exists x'. split; [exact EX|].
  apply ers_fields in FR. cbn [sc_mark sc_tokens sc_stream_start sc_stream_end sc_adjacent sc_ska sc_sks sc_indent sc_indents
    sc_flow_level sc_tokens_parsed sc_token_available sc_lws sc_ifms set_se set_tp set_ta set_tokens set_struct set_flags upd] in FR.
  destruct FR as (F1 & F2 & F3 & _ & F5 & F6 & F7 & F8 & F9 & F10 & F11 & F12 & F13 & F14).
  unfold popped. rewrite IN', F1, F2, F3, F7, F8, F9, F10, F11, F12, F14. cbn [sc_in set_tp set_ta set_tokens set_struct set_flags upd].
  repeat split; try assumption; try reflexivity; congruence.
Qed.

(* the state in which a scan ends *)
Fixpoint scan_last (F n : nat) (s : bst) : bst :=
  match n with
  | O => s
  | S n => match next_token sops F s with
           | Ok (Some _, s') => scan_last F n s'
           | Ok (None, s') => s'
           | _ => s
           end
  end.
(* k tokens delivered (the same function as ScanShiftTop.deliver) *)
Fixpoint deliver (F k : nat) (s : bst) : option (list token * bst) :=
  match k with
  | O => Some ([], s)
  | S k => match next_token sops F s with
           | Ok (Some t, s') => match deliver F k s' with Some (l, u) => Some (t :: l, u) | None => None end
           | _ => None
           end
  end.

Lemma next_token_ended F (s : bst) : sc_stream_end s = true -> next_token sops F s = Ok (None, s).
Proof. intros H. unfold next_token, bind, get. rewrite H. reflexivity. Qed.

Lemma drain1 f : forall q (s : bst) x acc n toks,
  allclr (sc_sks s) -> sc_stream_end s = false -> sc_tokens s = q ++ [x] -> snd x = TStreamEnd ->
  Forall tnse q -> scan_all sops (S f) n s acc = (toks, SEnded) ->
  toks = rev acc ++ q ++ [x] /\ sc_flow_level (scan_last (S f) n s) = sc_flow_level s.
Proof.
  induction q as [|a q IH]; intros s x acc n toks HC HE HT HX HQ HS.
  - destruct n as [|n]; [discriminate HS|]. cbn [scan_all scan_last] in *.
    destruct (pop_clear f s x [] HC HE HT) as (s' & E & P). rewrite E in *.
    destruct P as (_ & _ & _ & _ & _ & _ & PF & _ & _ & _ & _ & _ & PE). rewrite HX in PE. cbn [is_se] in PE.
    destruct n as [|n]; [discriminate HS|]. cbn [scan_all scan_last] in *. rewrite (next_token_ended _ _ PE) in *.
    inversion HS; subst. cbn [rev app]. split; [reflexivity|exact PF].
  - destruct n as [|n]; [discriminate HS|]. cbn [scan_all scan_last] in *.
    destruct (pop_clear f s a (q ++ [x]) HC HE HT) as (s' & E & P). rewrite E in *.
    destruct P as (_ & _ & PT & _ & _ & _ & PF & _ & _ & PC & _ & _ & PE).
    inversion HQ as [|a' q' Ha Hq]; subst. unfold tnse in Ha. rewrite Ha in PE.
    destruct (IH s' x (a :: acc) n toks PC PE PT HX Hq HS) as [ET EF]. split; [|rewrite EF; exact PF].
    rewrite ET. cbn [rev]. rewrite <- app_assoc. reflexivity.
Qed.

Lemma drain2 f : forall q (s : bst),
  allclr (sc_sks s) -> sc_stream_end s = false -> sc_tokens s = q -> Forall tnse q ->
  exists sm, deliver (S f) (length q) s = Some (q, sm)
             /\ sc_in sm = sc_in s /\ sc_stream_start sm = sc_stream_start s /\ sc_indent sm = sc_indent s
             /\ sc_indents sm = sc_indents s /\ sc_flow_level sm = sc_flow_level s /\ sc_ifms sm = sc_ifms s
             /\ allclr (sc_sks sm) /\ length (sc_sks sm) = length (sc_sks s)
             /\ sc_tokens sm = [] /\ sc_stream_end sm = false
             /\ sc_tokens_parsed sm = (sc_tokens_parsed s + N.of_nat (length q))%N
             /\ (q <> [] -> sc_token_available sm = false).
Proof.
  induction q as [|a q IH]; intros s HC HE HT HQ.
  - exists s. cbn [deliver length]. repeat split; auto; [lia|intros X; contradiction].
  - destruct (pop_clear f s a q HC HE HT) as (s' & E & P).
    destruct P as (P1 & P2 & P3 & P4 & P5 & P6 & P7 & P8 & P9 & P10 & P11 & P12 & P13).
    inversion HQ as [|a' q' Ha Hq]; subst. unfold tnse in Ha. rewrite Ha in P13.
    destruct (IH s' P10 P13 eq_refl Hq) as (sm & ED & D1 & D2 & D3 & D4 & D5 & D6 & D7 & D8 & D9 & D10 & D11 & D12).
    exists sm. cbn [deliver length]. rewrite E, ED. repeat split; try congruence.
    + rewrite D11, P8. lia.
    + intros _. destruct (sc_tokens s') as [|b q'] eqn:EQ; [|apply D12; discriminate].
      cbn [deliver] in ED. inversion ED; subst. exact P12.
Qed.

Lemma deliver_fuel F k : forall (s : bst) acc n pre sm, deliver F k s = Some (pre, sm) -> n < k ->
  snd (scan_all sops F n s acc) = SFuel.
Proof.
  induction k as [|k IH]; intros s acc n pre sm HD Hn; [lia|].
  destruct n as [|n]; [reflexivity|]. cbn [deliver] in HD. cbn [scan_all].
  destruct (next_token sops F s) as [[[t|] s']| | |]; try discriminate.
  destruct (deliver F k s') as [[l u]|] eqn:ED; try discriminate. eapply IH; [exact ED|lia].
Qed.

(* ================================================================================================ *)
(* 3. fetch_next_token: in lockstep, or the end step                                                *)
(* ================================================================================================ *)
Definition Hdisp := dispatch_ok d (ScanPrefixDir.scan_directive_ok d) (ScanPrefixDir.scan_tag_ok d)
  (ScanPrefixFlow.scan_flow_scalar_ok d) (ScanPrefixPlain.scan_plain_scalar_ok d) (ScanPrefixBlock.scan_block_scalar_ok d).

Lemma Keeps_dispatch F : Keeps (fnt_dispatch F).
Proof.
  unfold fnt_dispatch.
  pose proof (Keeps_fetch_directive sops F). pose proof (fun t H => Keeps_fetch_document_indicator sops t H).
  pose proof (Keeps_fetch_flow_collection_start sops F). pose proof (Keeps_fetch_flow_collection_end sops F).
  pose proof (Keeps_fetch_flow_entry sops F). pose proof (Keeps_fetch_block_entry sops F). pose proof (Keeps_fetch_key sops F).
  pose proof (Keeps_fetch_value sops F). pose proof (Keeps_fetch_flow_value sops F). pose proof (Keeps_fetch_anchor sops F).
  pose proof (Keeps_fetch_tag sops F). pose proof (Keeps_fetch_block_scalar sops F). pose proof (Keeps_fetch_flow_scalar sops F).
  pose proof (Keeps_fetch_plain_scalar sops F).
  repeat lazymatch goal with
  | |- Keeps (bind get _) => apply Keeps_get_bind; intro
  | |- Keeps (bind (fetch_document_indicator _ _) _) => apply Keeps_bind; [auto|intro]
  | |- Keeps (bind _ _) => apply Keeps_bind; [first [solve [auto with kps nocore] | apply Keeps_of_Fr; solve [auto with fr]
                                                   | repeat (match goal with |- Keeps (if ?b then _ else _) => destruct b end);
                                                     first [solve [auto with kps nocore] | apply Keeps_of_Fr; solve [auto with fr]]]|intro]
  | |- Keeps (if ?b then _ else _) => destruct b
  | |- Keeps (let _ := _ in _) => cbv zeta
  | |- Keeps (fail _ _) => apply Keeps_fail
  | |- Keeps (ret _) => apply Keeps_ret
  | |- Keeps _ => solve [auto]
  end.
Qed.

Lemma bwp_keeps_l {A1 A2} (m1 : BM A1) (m2 : BM A2) (Q : A1 -> bst -> A2 -> bst -> Prop) s1 s2 :
  Keeps m1 -> bwp m1 m2 Q s1 s2 -> bwp m1 m2 (fun a1 t1 a2 t2 => Q a1 t1 a2 t2 /\ kp s1 t1) s1 s2.
Proof.
  intros HK H. unfold swp in *. destruct (m1 s1) as [[a1 t1]|? ?|?|] eqn:E; auto.
  destruct (m2 s2) as [[a2 t2]|? ?|?|]; auto. split; [exact H|]. eapply HK; exact E.
Qed.
Lemma kp_ers (s t : bst) : ers t = ers s -> kp s t.
Proof. intros E. apply ers_fields in E. apply kp_same; tauto. Qed.

Definition fnt_post (s1 : bst) : unit -> bst -> unit -> bst -> Prop := fun _ t1 _ t2 =>
  (SH d t1 t2 /\ kp s1 t1) \/ (exists v1 v2, SH d v1 v2 /\ kp s1 v1 /\ rm v1 = [] /\ end_post v1 v2 t1 t2).

Lemma fnt_rel F1 F2 s1 s2 : SH d s1 s2 ->
  bwp (fetch_next_token sops F1) (fetch_next_token sops F2) (fnt_post s1) s1 s2.
Proof.
  intros H. rewrite !fetch_next_token_unfold.
  apply bwp_bind. apply (bwp_look d); [exact H|]. intros u1 u2 HU RU EU1 _ _ _.
  pose proof (kp_ers _ _ EU1) as KU.
  apply bwp_bind. apply bwp_get. cbv beta. sh_sync HU.
  destruct (negb (sc_stream_start u1)).
  { eapply bwp_mono; [apply bwp_keeps_l; [apply Keeps_fetch_stream_start|apply fetch_stream_start_ok; exact HU]|].
    intros a1 t1 a2 t2 [[_ HT] KT]. left. split; [exact HT|eapply kp_trans; eassumption]. }
  apply bwp_bind. eapply bwp_mono; [apply bwp_keeps_l; [apply Keeps_of_Fr; apply Fr_skip_to_next_token|apply skip_to_next_token_ok; exact HU]|].
  intros a1 v1 a2 v2 [(_ & HV & BV) KV]. cbv beta.
  apply bwp_bind. eapply bwp_mono; [apply bwp_keeps_l; [apply Keeps_stale_simple_keys|apply (bwp_stale_simple_keys d (fun _ t1 _ t2 => SH d t1 t2 /\ rm t1 = rm v1)); [exact HV|]]|].
  { intros t1 t2 HT RT. exact (conj HT RT). }
  intros b1' w1 b2 w2 [[HW RW] KW]. cbv beta.
  apply bwp_bind. apply bwp_mark; [exact HW|]. intros HM. rewrite <- (SH_mark HW).
  apply bwp_bind. eapply bwp_mono; [apply bwp_keeps_l; [apply Keeps_unroll_indent|apply (bwp_unroll_indent d _ (fun _ t1 _ t2 => SH d t1 t2 /\ rm t1 = rm w1)); [exact HW|]]|].
  { intros t1 t2 HT RT. exact (conj HT RT). }
  intros c1 x1 c2 x2 [[HX RX] KX]. cbv beta.
  apply bwp_bind. apply (bwp_look d); [exact HX|]. intros y1 y2 HY RY EY1 _ LY _.
  pose proof (kp_ers _ _ EY1) as KY.
  assert (KALL : kp s1 y1).
  { eapply kp_trans; [exact KU|]. eapply kp_trans; [exact KV|]. eapply kp_trans; [exact KW|]. eapply kp_trans; [exact KX|exact KY]. }
  apply bwp_bind. apply (bwp_next_is_raw d); [exact HY|].
  destruct (N.eq_dec (rn y1 0) 0) as [E0|N0].
  - rewrite E0. change (is_z 0%N) with true. change (is_z (b1 0%N)) with false. cbv iota.
    apply bwp_intro. pose proof (end_step F2 y1 y2 HY (SH_at_end HY E0) LY) as HE.
    destruct (fetch_stream_end y1) as [[[] t1]|? ?|?|]; try exact I.
    destruct (fnt_dispatch F2 y2) as [[[] t2]|? ?|?|]; try exact I; [|exact HE].
    right. exists y1, y2. split; [exact HY|]. split; [exact KALL|]. split; [exact (SH_at_end HY E0)|exact HE].
  - rewrite (b1_other _ N0).
    assert (EZ : is_z (rn y1 0) = false) by (unfold is_z; apply N.eqb_neq; exact N0). rewrite EZ.
    assert (RC : rn y1 0 = rn v1 0) by (unfold rn; rewrite RY, RX, RW; reflexivity).
    assert (NB : nbz (rn y1 0)).
    { apply (SH_nbz_of d _ _ HY); [apply SH_nonempty; exact N0|rewrite RC; exact BV]. }
    eapply bwp_mono; [apply bwp_keeps_l; [apply Keeps_dispatch|apply Hdisp; [exact HY|exact NB|exact LY]]|].
    intros a1' t1 a2' t2 [[_ HT] KT]. left. split; [exact HT|eapply kp_trans; eassumption].
Qed.

(* ================================================================================================ *)
(* 4. fetch_more_tokens                                                                             *)
(* ================================================================================================ *)
Definition need_m (s : bst) : BM bool :=
  match sc_tokens s with
  | [] => ret true
  | _ => bind stale_simple_keys (fun _ => bind get (fun s =>
           ret (existsb (fun k => sk_possible k && (sk_token_number k =? sc_tokens_parsed s)%N) (sc_sks s))))
  end.
Lemma fmt_S F n (s : bst) :
  fetch_more_tokens sops F (S n) s =
  bind (need_m s) (fun need => if need then bind (fetch_next_token sops F) (fun _ => fetch_more_tokens sops F n)
                               else modify (set_ta true)) s.
Proof. reflexivity. Qed.
Lemma bind_inv {A B} (m : BM A) (f : A -> BM B) s b t : bind m f s = Ok (b, t) ->
  exists a s', m s = Ok (a, s') /\ f a s' = Ok (b, t).
Proof. unfold bind. destruct (m s) as [[a s']| | |]; try discriminate. eauto. Qed.
Lemma bind_ok {A B} (m : BM A) (f : A -> BM B) s a s' : m s = Ok (a, s') -> bind m f s = f a s'.
Proof. unfold bind. intros ->. reflexivity. Qed.
Lemma bind_nerr {A B} (m : BM A) (f : A -> BM B) s : nerr (m s) -> nerr (bind m f s).
Proof. unfold bind. destruct (m s) as [[a s']| | |]; auto; intros []. Qed.

Lemma need_rel s1 s2 : SH d s1 s2 ->
  bwp (need_m s1) (need_m s2) (fun b1 t1 b2 t2 => b1 = b2 /\ SH d t1 t2 /\ kp s1 t1) s1 s2.
Proof.
  intros H. unfold need_m. pose proof (sh_tokens H) as HT.
  destruct HT as [|a b l1 l2 _ _]; [apply bwp_ret; split; [reflexivity|split; [exact H|apply kp_refl]]|].
  apply bwp_bind. eapply bwp_mono; [apply bwp_keeps_l; [apply Keeps_stale_simple_keys|
    apply (bwp_stale_simple_keys d (fun _ t1 _ t2 => SH d t1 t2 /\ rm t1 = rm s1)); [exact H|]]|].
  { intros t1 t2 HT' RT. exact (conj HT' RT). }
  intros x1 w1 x2 w2 [[HW _] KW]. cbv beta.
  apply bwp_bind. apply bwp_get. cbv beta. sh_sync HW. apply bwp_ret. split; [reflexivity|split; [exact HW|exact KW]].
Qed.

Inductive fmt_res (F2 : nat) (s1 t1 : bst) (o2 : outcome (unit * bst)) : Prop :=
| FR_lock t2 : o2 = Ok (tt, t2) -> SH d t1 t2 -> kp s1 t1 -> fmt_res F2 s1 t1 o2
| FR_end v1 v2 u1 u2 n2' w2 : SH d v1 v2 -> kp s1 v1 -> rm v1 = [] -> end_post v1 v2 u1 u2 -> same_but u1 t1 ->
    sc_token_available t1 = true -> o2 = fetch_more_tokens sops F2 n2' u2 ->
    fetch_next_token sops F2 w2 = Ok (tt, u2) -> @SkInv strin w2 -> fmt_res F2 s1 t1 o2
| FR_nerr : nerr o2 -> fmt_res F2 s1 t1 o2.

Lemma fmt_res_kp F2 s0 s1 t1 o2 : kp s0 s1 -> fmt_res F2 s1 t1 o2 -> fmt_res F2 s0 t1 o2.
Proof.
  intros K [t2 E HT KT|v1 v2 u1 u2 n2' w2 HV KV RV HE SB TA E EW SW|HN].
  - eapply FR_lock; eauto. eapply kp_trans; eassumption.
  - eapply FR_end; eauto. eapply kp_trans; eassumption.
  - apply FR_nerr. exact HN.
Qed.

Lemma need_SkInv (s w : bst) b : need_m s s = Ok (b, w) -> @SkInv strin s -> @SkInv strin w.
Proof.
  unfold need_m. destruct (sc_tokens s); [intros E HS; inversion E; subst; exact HS|].
  intros E HS. apply bind_inv in E. destruct E as ([] & y & ES & E). unfold bind, get, ret in E. inversion E; subst.
  eapply (Tr_stale_SkInv); eauto.
Qed.
Lemma fmt_rel F1 F2 : forall n1 n2 s1 s2 t1, SH d s1 s2 -> @SkInv strin s2 -> fetch_more_tokens sops F1 n1 s1 = Ok (tt, t1) ->
  fmt_res F2 s1 t1 (fetch_more_tokens sops F2 n2 s2).
Proof.
  induction n1 as [|n1 IH]; intros n2 s1 s2 t1 H HS2 HF; [discriminate HF|].
  destruct n2 as [|n2]; [apply FR_nerr; exact I|].
  rewrite fmt_S in HF. rewrite fmt_S.
  apply bind_inv in HF. destruct HF as (b1' & w1 & EN1 & HK1).
  pose proof (bwp_elim d _ _ _ _ _ (need_rel s1 s2 H)) as HN. rewrite EN1 in HN.
  destruct (need_m s2 s2) as [[b2 w2]|e k|p|] eqn:EN2; [|destruct HN|apply FR_nerr; apply bind_nerr; rewrite EN2; exact I..].
  destruct HN as (<- & HW & KW). rewrite (bind_ok _ _ _ _ _ EN2).
  pose proof (need_SkInv _ _ _ EN2 HS2) as HSW.
  apply (fmt_res_kp F2 s1 w1); [exact KW|].
  destruct b1'.
  - apply bind_inv in HK1. destruct HK1 as ([] & x1 & EF1 & HR1).
    pose proof (bwp_elim d _ _ _ _ _ (fnt_rel F1 F2 w1 w2 HW)) as HX. rewrite EF1 in HX.
    destruct (fetch_next_token sops F2 w2) as [[[] x2]|e k|p|] eqn:EF2; [|destruct HX|apply FR_nerr; apply bind_nerr; rewrite EF2; exact I..].
    rewrite (bind_ok _ _ _ _ _ EF2).
    destruct HX as [[HXS KX]|(v1 & v2 & HV & KV & RV & HE)].
    + apply (fmt_res_kp F2 w1 x1); [exact KX|]. apply IH; [assumption| |assumption].
      eapply (fetch_next_token_SkInv sops F2); eauto.
    + destruct HE as (bb & sps & spd & T1 & T2 & BB & CL & REST).
      destruct n1 as [|n1]; [discriminate HR1|].
      destruct (fmt_clear F1 n1 x1 CL) as (s' & ES & SB & TA).
      { rewrite T1. intros X. apply app_eq_nil in X. destruct X as [_ X]. apply app_eq_nil in X. destruct X as [_ X]. discriminate X. }
      rewrite ES in HR1. inversion HR1; subst s'.
      eapply (FR_end F2 w1 t1 _ v1 v2 x1 x2 n2 w2); try eassumption; [|reflexivity].
      exists bb, sps, spd. split; [exact T1|]. split; [exact T2|]. split; [exact BB|]. split; [exact CL|exact REST].
  - unfold modify in HK1. inversion HK1; subst t1. eapply FR_lock; [reflexivity|apply SH_set_ta; exact HW|].
    apply kp_same; reflexivity.
Qed.

(* ================================================================================================ *)
(* 5. next_token and the whole run                                                                  *)
(* ================================================================================================ *)
Definition pop_m : BM (option token) :=
  bind get (fun s =>
    match sc_tokens s with
    | [] => fail 104%N (sc_mark s)
    | t :: r => bind (put (set_tp (sc_tokens_parsed s + 1)%N (set_ta false (set_tokens r s)))) (fun _ =>
                bind (match snd t with TStreamEnd => modify (set_se true) | _ => ret tt end) (fun _ => ret (Some t)))
    end).
Lemma next_token_eq F (s : bst) : sc_stream_end s = false ->
  next_token sops F s = bind (if sc_token_available s then ret tt else fetch_more_tokens sops F F) (fun _ => pop_m) s.
Proof. intros H. unfold next_token. unfold bind at 1, get at 1. rewrite H. reflexivity. Qed.
Lemma next_token_ta F (s : bst) : sc_stream_end s = false -> sc_token_available s = true -> next_token sops F s = pop_m s.
Proof. intros H T. rewrite next_token_eq by exact H. rewrite T. reflexivity. Qed.
Lemma nse_match (k : tok) : is_se k = false ->
  (match k with TStreamEnd => modify (set_se true) | _ => @ret strin unit tt end) = ret tt.
Proof. destruct k; try reflexivity. discriminate. Qed.

Lemma pop_rel (t1 t2 u1 : bst) o1 : SH d t1 t2 -> NoSE t1 -> pop_m t1 = Ok (o1, u1) ->
  exists a b u2, o1 = Some a /\ pop_m t2 = Ok (Some b, u2) /\ TS d a b /\ SH d u1 u2 /\ NoSE u1
                 /\ sc_stream_end u1 = sc_stream_end t1 /\ tnse a.
Proof.
  intros H HN E. unfold pop_m in *. unfold bind at 1, get at 1 in E. unfold bind at 1, get at 1.
  pose proof (sh_tokens H) as HT. pose proof (SH_tokens_parsed H) as HP.
  destruct (sc_tokens t1) as [|a l1] eqn:ET1; [discriminate E|].
  destruct (sc_tokens t2) as [|b l2] eqn:ET2; [inversion HT|].
  inversion HT as [|? ? ? ? Hab Hl]; subst.
  assert (Ha : tnse a) by (apply HN; rewrite ET1; left; reflexivity).
  assert (Hb : is_se (snd b) = false) by (rewrite (TS_snd d _ _ Hab); exact Ha).
  unfold tnse in Ha. rewrite (nse_match _ Ha) in E. rewrite (nse_match _ Hb).
  unfold bind, put, ret in *. inversion E; subst. rewrite <- HP.
  exists a, b. eexists. split; [reflexivity|]. split; [reflexivity|]. split; [exact Hab|].
  split; [apply SH_set_tp; apply SH_set_ta; apply SH_set_tokens; assumption|].
  split; [intros x Hx; apply HN; rewrite ET1; right; exact Hx|]. split; [reflexivity|exact Ha].
Qed.

Definition proper (e : scan_end) : Prop := match e with SEnded | SError _ _ => True | _ => False end.
Definition LI (s1 s2 : bst) : Prop :=
  SH d s1 s2 /\ NoSE s1 /\ sc_stream_end s1 = false /\ @SkInv strin s1 /\ @SkInv strin s2.
(* the boundary state *)
Definition BND (sm : bst) : Prop :=
  marker_config sm /\ rm sm = 10%N :: d /\ sc_tokens sm = [] /\ sc_token_available sm = false
  /\ sc_stream_end sm = false /\ (1 <= sc_tokens_parsed sm)%N.

Lemma nerr_improper F n (s : bst) acc : nerr (next_token sops F s) -> ~ proper (snd (scan_all sops F (S n) s acc)).
Proof. cbn [scan_all]. destruct (next_token sops F s) as [[[t|] s']| | |]; cbn; auto. Qed.

Lemma block_ends_tnse b : block_ends b -> Forall tnse b.
Proof. intros H. eapply Forall_impl; [|exact H]. intros t E. unfold tnse. rewrite E. reflexivity. Qed.
Lemma TS_tnse l1 l2 : Forall2 (TS d) l1 l2 -> Forall tnse l1 -> Forall tnse l2.
Proof.
  induction 1 as [|a b l1 l2 Hab _ IH]; intros HF; [constructor|]. inversion HF; subst.
  constructor; [unfold tnse; rewrite (TS_snd d _ _ Hab); assumption|auto].
Qed.
Lemma NoSE_Forall (s : bst) : NoSE s -> Forall tnse (sc_tokens s).
Proof. intros H. apply Forall_forall. exact H. Qed.

Lemma end_run f1 f2 n1 (t1 v1 v2 x1 x2 w2 : bst) n2' acc1 toks :
  SH d v1 v2 -> NoSE v1 -> sc_stream_end v1 = false -> end_post v1 v2 x1 x2 -> same_but x1 t1 ->
  fetch_next_token sops (S f2) w2 = Ok (tt, x2) -> @SkInv strin w2 ->
  scan_all sops (S f1) n1 t1 acc1 = (toks, SEnded) -> sc_flow_level (scan_last (S f1) n1 t1) = 0%N ->
  exists l1 x, toks = rev acc1 ++ l1 ++ [x] /\ snd x = TStreamEnd /\
    match fetch_more_tokens sops (S f2) n2' x2 with
    | Ok (_, t2) => sc_token_available t2 = true /\ sc_stream_end t2 = false /\
        exists k l2 spd sm, deliver (S f2) (S k) t2 = Some (l2 ++ [(spd, TDocumentEnd)], sm) /\ Forall2 (TS d) l1 l2 /\ BND sm
    | Err _ _ => False
    | _ => True
    end.
Proof.
  intros HV NV EV (bb & sps & spd & T1 & T2 & BB & CL & TP1 & TP2 & TA1 & TA2 & SE1 & SE2 & FL1 & FL2 & RM2) SB EW SW HS HFL.
  destruct SB as (B1 & B2 & B3 & B4 & B5 & B6 & B7 & B8 & B9 & B10 & B11 & B12).
  assert (ET1 : sc_tokens t1 = (sc_tokens v1 ++ bb) ++ [(sps, TStreamEnd)]) by (rewrite B3, T1, app_assoc; reflexivity).
  assert (Q1 : Forall tnse (sc_tokens v1 ++ bb)) by (apply Forall_app; split; [apply NoSE_Forall; exact NV|apply block_ends_tnse; exact BB]).
  destruct (drain1 f1 _ t1 _ acc1 n1 toks B11 ltac:(congruence) ET1 eq_refl Q1 HS) as [ETK EFL].
  exists (sc_tokens v1 ++ bb), (sps, TStreamEnd). split; [exact ETK|]. split; [reflexivity|].
  assert (F2 : sc_flow_level x2 = 0%N).
  { rewrite FL2, <- (SH_flow_level HV), <- FL1, <- B8, <- EFL. exact HFL. }
  assert (ET2 : sc_tokens x2 = (sc_tokens v2 ++ bb) ++ [(spd, TDocumentEnd)]) by (rewrite T2, app_assoc; reflexivity).
  pose proof (fetch_next_token_marker sops (S f2) w2 tt x2 SW EW) as MP.
  destruct (MP F2) as [MC _]. { exists (sc_tokens v2 ++ bb), spd, TDocumentEnd. split; [exact ET2|reflexivity]. }
  pose proof MC as (M1 & M2 & M3 & M4 & M5 & kk & M6 & M7).
  assert (CL2 : allclr (sc_sks x2)) by (rewrite M6; constructor; [exact M7|constructor]).
  destruct n2' as [|n2']; [exact I|].
  destruct (fmt_clear (S f2) n2' x2 CL2) as (t2 & ES & SB2 & TA).
  { rewrite ET2. intros X. apply app_eq_nil in X. destruct X as [_ X]. discriminate X. }
  rewrite ES. destruct SB2 as (C1 & C2 & C3 & C4 & C5 & C6 & C7 & C8 & C9 & C10 & C11 & C12).
  assert (SE2' : sc_stream_end t2 = false) by (rewrite C5, SE2, <- (SH_stream_end HV); exact EV).
  split; [exact TA|]. split; [exact SE2'|].
  assert (Q2 : Forall tnse (sc_tokens t2)).
  { rewrite C3, ET2. apply Forall_app. split; [|constructor; [reflexivity|constructor]].
    apply Forall_app. split; [|apply block_ends_tnse; exact BB].
    eapply TS_tnse; [exact (sh_tokens HV)|apply NoSE_Forall; exact NV]. }
  destruct (drain2 f2 (sc_tokens t2) t2 C11 SE2' eq_refl Q2) as (sm & ED & D1 & D2 & D3 & D4 & D5 & D6 & D7 & D8 & D9 & D10 & D11 & D12).
  rewrite C3, ET2 in ED. rewrite app_length in ED. cbn [length] in ED. rewrite Nat.add_1_r in ED.
  exists (length (sc_tokens v2 ++ bb)), (sc_tokens v2 ++ bb), spd, sm. split; [exact ED|].
  split; [apply Forall2_app; [exact (sh_tokens HV)|apply TSs_refl]|].
  unfold BND. split.
  { unfold marker_config. rewrite D2, D3, D4, D5, D6, C4, C6, C7, C8, C10. repeat (split; [assumption|]).
    rewrite C12, M6 in D8. destruct (sc_sks sm) as [|k' [|k'' r']] eqn:EK; try discriminate D8.
    exists k'. split; [reflexivity|]. inversion D7; assumption. }
  split; [unfold rm; rewrite D1, C1; exact RM2|]. split; [exact D9|].
  split; [apply D12; rewrite C3, ET2; intros X; apply app_eq_nil in X; destruct X as [_ X]; discriminate X|].
  split; [exact D10|]. rewrite D11, C3, ET2, app_length. cbn [length]. lia.
Qed.

Lemma pop_some (t u : bst) o : pop_m t = Ok (o, u) -> exists a, o = Some a.
Proof.
  unfold pop_m. unfold bind at 1, get at 1. destruct (sc_tokens t) as [|x r]; [discriminate|].
  unfold bind, put, ret. destruct (snd x); cbn; intros E; inversion E; eauto.
Qed.

Theorem run_rel f1 f2 : forall n1 n2 (s1 s2 : bst) acc1 acc2 toks,
  LI s1 s2 -> scan_all sops (S f1) n1 s1 acc1 = (toks, SEnded) ->
  proper (snd (scan_all sops (S f2) n2 s2 acc2)) -> sc_flow_level (scan_last (S f1) n1 s1) = 0%N ->
  exists k l1 l2 x spd sm, toks = rev acc1 ++ l1 ++ [x] /\ snd x = TStreamEnd
    /\ deliver (S f2) (S k) s2 = Some (l2 ++ [(spd, TDocumentEnd)], sm) /\ Forall2 (TS d) l1 l2 /\ BND sm.
Proof.
  induction n1 as [|n1 IH]; intros n2 s1 s2 acc1 acc2 toks (HSH & NS & SE & SK1 & SK2) HS HP HFL; [discriminate HS|].
  destruct n2 as [|n2]; [destruct HP|].
  assert (SE2 : sc_stream_end s2 = false) by (rewrite <- (SH_stream_end HSH); exact SE).
  pose proof HS as HS0. pose proof HFL as HFL0.
  cbn [scan_all scan_last] in HS, HFL.
  destruct (next_token sops (S f1) s1) as [[[a|] u1]|e k|p|] eqn:E1; try discriminate HS.
  2:{ exfalso. rewrite next_token_eq in E1 by exact SE. apply bind_inv in E1. destruct E1 as (? & t1 & _ & EPOP).
      apply pop_some in EPOP. destruct EPOP as [? X]. discriminate X. }
  pose proof E1 as E1o. rewrite next_token_eq in E1 by exact SE. apply bind_inv in E1. destruct E1 as ([] & t1 & EP1 & EPOP1).
  (* the common tail: both sides hand out a token in lockstep *)
  assert (TAIL : forall t2, SH d t1 t2 -> NoSE t1 -> sc_stream_end t1 = false ->
            (forall b u2, pop_m t2 = Ok (Some b, u2) -> next_token sops (S f2) s2 = Ok (Some b, u2)) ->
            exists k l1 l2 x spd sm, toks = rev acc1 ++ l1 ++ [x] /\ snd x = TStreamEnd
              /\ deliver (S f2) (S k) s2 = Some (l2 ++ [(spd, TDocumentEnd)], sm) /\ Forall2 (TS d) l1 l2 /\ BND sm).
  { intros t2 HT NT ST HN2.
    destruct (pop_rel t1 t2 u1 _ HT NT EPOP1) as (a' & b & u2 & EA & EPOP2 & HAB & HU & NU & SU & TA). inversion EA; subst a'.
    pose proof (HN2 _ _ EPOP2) as E2.
    assert (HLI : LI u1 u2).
    { split; [exact HU|]. split; [exact NU|]. split; [congruence|].
      split; [exact (next_token_SkInv sops (S f1) s1 _ u1 SK1 E1o)|exact (next_token_SkInv sops (S f2) s2 _ u2 SK2 E2)]. }
    cbn [scan_all] in HP. rewrite E2 in HP.
    destruct (IH n2 u1 u2 (a :: acc1) (b :: acc2) toks HLI HS HP HFL) as (k & l1 & l2 & x & spd & sm & ET & EX & ED & HF & HB).
    exists (S k), (a :: l1), (b :: l2), x, spd, sm. split; [rewrite ET; cbn [rev]; rewrite <- app_assoc; reflexivity|].
    split; [exact EX|]. split; [|split; [constructor; assumption|exact HB]].
    change (deliver (S f2) (S (S k)) s2) with
      (match next_token sops (S f2) s2 with
       | Ok (Some t, s') => match deliver (S f2) (S k) s' with Some (l, u) => Some (t :: l, u) | None => None end
       | _ => None end).
    rewrite E2, ED. reflexivity. }
  pose proof (SH_token_available HSH) as ETA.
  destruct (sc_token_available s1) eqn:TA1.
  - unfold ret in EP1. inversion EP1; subst t1. apply (TAIL s2 HSH NS SE).
    intros b u2 EPOP2. rewrite next_token_eq by exact SE2. rewrite <- ETA. exact EPOP2.
  - pose proof (fmt_rel (S f1) (S f2) (S f1) (S f2) s1 s2 t1 HSH SK2 EP1) as HR.
    assert (NX2 : next_token sops (S f2) s2 = bind (fetch_more_tokens sops (S f2) (S f2)) (fun _ => pop_m) s2).
    { rewrite next_token_eq by exact SE2. rewrite <- ETA. reflexivity. }
    destruct HR as [t2 EO HT KT|v1 v2 x1 x2 n2' w2 HV KV RV HE SB TA EO EW SW|HN].
    + apply (TAIL t2 HT); [eapply kp_NoSE; eassumption|destruct KT as [_ [X _]]; congruence|].
      intros b u2 EPOP2. rewrite NX2, (bind_ok _ _ _ _ _ EO). exact EPOP2.
    + assert (SV : sc_stream_end v1 = false) by (destruct KV as [_ [X _]]; congruence).
      assert (ST1 : sc_stream_end t1 = false).
      { destruct SB as (_ & _ & _ & _ & B5 & _). destruct HE as (? & ? & ? & _ & _ & _ & _ & _ & _ & _ & _ & SE1 & _). congruence. }
      assert (HS' : scan_all sops (S f1) (S n1) t1 acc1 = (toks, SEnded)).
      { cbn [scan_all]. rewrite (next_token_ta _ _ ST1 TA), EPOP1. exact HS. }
      assert (HFL' : sc_flow_level (scan_last (S f1) (S n1) t1) = 0%N).
      { cbn [scan_last]. rewrite (next_token_ta _ _ ST1 TA), EPOP1. exact HFL. }
      destruct (end_run f1 f2 (S n1) t1 v1 v2 x1 x2 w2 n2' acc1 toks HV (kp_NoSE _ _ KV NS) SV HE SB EW SW HS' HFL')
        as (l1 & x & ET & EX & HM).
      rewrite <- EO in HM.
      destruct (fetch_more_tokens sops (S f2) (S f2) s2) as [[[] t2]|e k|p|] eqn:EF2; [|destruct HM|..].
      * destruct HM as (TA2 & ST2 & k & l2 & spd & sm & ED & HF & HB).
        exists k, l1, l2, x, spd, sm. split; [exact ET|]. split; [exact EX|]. split; [|split; assumption].
        assert (EN : next_token sops (S f2) s2 = next_token sops (S f2) t2).
        { rewrite NX2, (bind_ok _ _ _ _ _ EF2). symmetry. apply next_token_ta; assumption. }
        cbn [deliver] in *. rewrite EN. exact ED.
      * exfalso. apply (nerr_improper (S f2) n2 s2 acc2); [|exact HP]. rewrite NX2. apply bind_nerr. rewrite EF2. exact I.
      * exfalso. apply (nerr_improper (S f2) n2 s2 acc2); [|exact HP]. rewrite NX2. apply bind_nerr. rewrite EF2. exact I.
    + exfalso. apply (nerr_improper (S f2) n2 s2 acc2); [|exact HP]. rewrite NX2. apply bind_nerr. exact HN.
Qed.
End Top.
Print Assumptions run_rel.
