(* C05 / C04 in DOCUMENT context, generic part: a scalar that ends the input.

   The function-level theorems (C05_case_partial, C04_*_full_proved) say what scan_block_scalar / scan_plain_scalar /
   scan_flow_scalar return from a scanner state that stands at the scalar.  This file provides what is needed around them
   to state theorems about TEXTS (run_str):
     - the end of the input behind a scalar whose token is still in the queue, from ANY mark / look-ahead / simple-key state
       the scalar scanner may have left ([end_unit]): the possibly pending simple key of the scalar, the two BlockEnd batches
       (unroll_indent (column) in fetch_next_token, unroll_indent (-1) in fetch_stream_end), StreamEnd, the queue handed out;
       the indentation stack is only required to be [grounded] (strictly above -1 down to a bottom of -1), which the frame
       theorem of the character-level scanners (Proofs/ScanFrame.v: the stack is unchanged or has lost its non-block
       entries) preserves;
     - the dispatch of fetch_next_token on the first character of a block scalar.
   It reuses the normal form [mkb], the queue relation [delivers] and the stack lemmas of Proofs/ScanBlockProofs.v. *)
From Coq Require Import List NArith ZArith Bool Arith Lia.
Import ListNotations.
Require Import Parser SBase SPrim SDir SScalar SFetch Pipe Drivers TokenGrammar FlowText BlockText ScanFlowProofs ScanBlockProofs ScanFrame.
Open Scope N_scope.
Open Scope mon_scope.

#[local] Arguments N.add : simpl never.
#[local] Arguments N.sub : simpl never.
#[local] Arguments N.mul : simpl never.
#[local] Arguments N.ltb : simpl nomatch.
#[local] Arguments N.leb : simpl nomatch.
#[local] Arguments Z.of_N : simpl never.
#[local] Arguments Z.ltb : simpl never.
#[local] Arguments Z.leb : simpl never.
#[local] Arguments Z.eqb : simpl never.
#[local] Arguments Z.add : simpl never.
#[local] Arguments bind {I A B} m f s /.
#[local] Arguments ret {I A} a s /.
#[local] Arguments get {I} s /.
#[local] Arguments put {I} s _ /.
#[local] Arguments modify {I} f s /.
#[local] Arguments gets {I A} f s /.
#[local] Arguments fail {I A} site m _ /.
#[local] Arguments upd {I} s i m t /.
#[local] Arguments set_in {I} i s /.
#[local] Arguments set_mark {I} m s /.
#[local] Arguments set_tokens {I} t s /.
#[local] Arguments set_flags {I} s ss se adj ska ta lws /.
#[local] Arguments set_ska {I} b s /.
#[local] Arguments set_lws {I} b s /.
#[local] Arguments set_adj {I} n s /.
#[local] Arguments set_ta {I} b s /.
#[local] Arguments set_ss {I} b s /.
#[local] Arguments set_se {I} b s /.
#[local] Arguments set_struct {I} s sks ind inds fl tp ifms /.
#[local] Arguments set_sks {I} l s /.
#[local] Arguments set_indent {I} z l s /.
#[local] Arguments set_fl {I} n s /.
#[local] Arguments set_tp {I} n s /.
#[local] Arguments set_ifms {I} l s /.
#[local] Arguments skip_to_next_token : simpl never.
#[local] Arguments stale_simple_keys : simpl never.
#[local] Arguments plain_chunk : simpl never.
#[local] Arguments plain_blanks : simpl never.
#[local] Arguments scan_plain_scalar : simpl never.
#[local] Arguments scan_block_scalar : simpl never.
#[local] Arguments scan_flow_scalar : simpl never.
#[local] Arguments fetch_stream_start : simpl never.
#[local] Arguments fetch_stream_end : simpl never.
#[local] Arguments fetch_directive : simpl never.
#[local] Arguments fetch_document_indicator : simpl never.
#[local] Arguments fetch_flow_collection_start : simpl never.
#[local] Arguments fetch_flow_collection_end : simpl never.
#[local] Arguments fetch_flow_entry : simpl never.
#[local] Arguments fetch_block_entry : simpl never.
#[local] Arguments fetch_key : simpl never.
#[local] Arguments fetch_value : simpl never.
#[local] Arguments fetch_flow_value : simpl never.
#[local] Arguments fetch_anchor : simpl never.
#[local] Arguments fetch_tag : simpl never.
#[local] Arguments fetch_block_scalar : simpl never.
#[local] Arguments fetch_flow_scalar : simpl never.
#[local] Arguments fetch_plain_scalar : simpl never.
#[local] Arguments fetch_next_token : simpl never.
#[local] Arguments fetch_more_tokens : simpl never.
#[local] Arguments next_token : simpl never.
#[local] Arguments scan_all : simpl never.
#[local] Arguments fnt_rest : simpl never.
#[local] Arguments skip_ws_to_eol : simpl never.
#[local] Arguments insert_token : simpl never.
#[local] Arguments need_comp : simpl never.
#[local] Arguments unroll_indent : simpl never.
#[local] Arguments roll_indent : simpl never.
#[local] Arguments roll_one_col_indent : simpl never.
#[local] Arguments unroll_non_block_indents : simpl never.
#[local] Arguments save_simple_key : simpl never.
#[local] Arguments popk : simpl never.
#[local] Arguments ntb : simpl never.

(* ---------- grounded indentation stacks ---------- *)
(* every open level is above -1, the bottom is -1 (the stream level) *)
Fixpoint grounded (ind : Z) (inds : list indent_rec) : Prop :=
  match inds with
  | [] => ind = (-1)%Z
  | i :: r => (-1 < ind)%Z /\ grounded (in_indent i) r
  end.
(* the number of block collections on the stack (records that are closed by a BlockEnd) *)
Fixpoint nbe (inds : list indent_rec) : nat :=
  match inds with
  | [] => O
  | i :: r => if in_needs_block_end i then S (nbe r) else nbe r
  end.

Lemma grounded_ge ind inds : grounded ind inds -> (-1 <= ind)%Z.
Proof. destruct inds as [|i r]; cbn; lia. Qed.

Lemma unroll_grounded : forall inds fuel col ind, grounded ind inds -> (-1 <= col)%Z -> (length inds < fuel)%nat ->
  exists n ind' inds', unroll_pure fuel col ind inds = Some (n, ind', inds') /\ grounded ind' inds' /\
                       (n + nbe inds' = nbe inds)%nat /\ (ind' <= col \/ inds' = [])%Z.
Proof.
  induction inds as [|i r IH]; intros fuel col ind Hg Hc Hf; (destruct fuel as [|fuel]; [cbn in Hf; lia|]).
  - cbn in Hg. subst ind. cbn [unroll_pure]. replace (col <? -1)%Z with false by (symmetry; apply Z.ltb_ge; lia).
    exists O, (-1)%Z, []. repeat split. right. reflexivity.
  - cbn [grounded] in Hg. destruct Hg as [Hi Hg]. cbn [unroll_pure]. destruct (Z.ltb_spec col ind) as [Hlt|Hge].
    + destruct (IH fuel col (in_indent i) Hg Hc ltac:(cbn in Hf; lia)) as (n & ind' & inds' & E & Hg' & Hn & Hle).
      rewrite E. cbn [nbe]. destruct (in_needs_block_end i).
      * exists (S n), ind', inds'. repeat split; [exact Hg'|lia|exact Hle].
      * exists n, ind', inds'. repeat split; [exact Hg'|lia|exact Hle].
    + exists O, ind, (i :: r). repeat split; [exact Hi|exact Hg|left; exact Hge].
Qed.

(* unrolling to -1 empties a grounded stack *)
Lemma unroll_grounded_all inds fuel ind : grounded ind inds -> (length inds < fuel)%nat ->
  unroll_pure fuel (-1)%Z ind inds = Some (nbe inds, (-1)%Z, []).
Proof.
  revert fuel ind. induction inds as [|i r IH]; intros fuel ind Hg Hf; (destruct fuel as [|fuel]; [cbn in Hf; lia|]).
  - cbn in Hg. subst ind. reflexivity.
  - cbn [grounded] in Hg. destruct Hg as [Hi Hg]. cbn [unroll_pure].
    replace (-1 <? ind)%Z with true by (symmetry; apply Z.ltb_lt; exact Hi).
    rewrite (IH fuel (in_indent i) Hg ltac:(cbn in Hf; lia)). cbn [nbe]. destruct (in_needs_block_end i); reflexivity.
Qed.

Lemma unroll_nb_grounded : forall inds ind, grounded ind inds ->
  grounded (fst (unroll_nb inds ind)) (snd (unroll_nb inds ind)) /\ nbe (snd (unroll_nb inds ind)) = nbe inds.
Proof.
  induction inds as [|i r IH]; intros ind Hg; [split; [exact Hg|reflexivity]|].
  cbn [unroll_nb nbe]. destruct (in_needs_block_end i) eqn:E.
  - cbn [fst snd nbe]. rewrite E. split; [exact Hg|reflexivity].
  - destruct Hg as [_ Hg]. apply IH, Hg.
Qed.

Lemma nbrel_grounded ind inds ind' inds' : grounded ind inds -> nbrel (ind, inds) (ind', inds') ->
  grounded ind' inds' /\ nbe inds' = nbe inds.
Proof.
  intros Hg [E|E].
  - injection E as -> ->. split; [exact Hg|reflexivity].
  - cbn [fst snd] in E. pose proof (unroll_nb_grounded inds ind Hg) as H. rewrite <- E in H. exact H.
Qed.

Lemma grounded_stk cols : Forall (fun c => True) cols -> grounded (fst (stk cols)) (snd (stk cols)) /\ nbe (snd (stk cols)) = length cols.
Proof.
  intros _. induction cols as [|c r [IH1 IH2]]; [split; reflexivity|].
  cbn [stk fst snd grounded nbe in_needs_block_end in_indent length]. split; [split; [lia|exact IH1]|rewrite IH2; reflexivity].
Qed.
Lemma grounded_below top rest : grounded (Z.of_N top + 1)%Z (nbl (Z.of_N top) :: snd (stk (top :: rest)))
  /\ nbe (nbl (Z.of_N top) :: snd (stk (top :: rest))) = length (top :: rest).
Proof.
  destruct (grounded_stk (top :: rest) ltac:(apply Forall_forall; auto)) as [G N1].
  split; [|exact N1]. split; [lia|exact G].
Qed.

(* ---------- the end of the input ---------- *)
Definition eof_mark (mk : marker) : marker :=
  if m_col mk =? 0 then mk else {| m_index := m_index mk; m_line := m_line mk + 1; m_col := 0 |}.

Lemma stream_end_g l mk q adj ska k ind inds tp ta lws n ind' inds' :
  (sk_required k && sk_possible k) = false ->
  unroll_pure (S (length inds)) (-1)%Z ind inds = Some (n, ind', inds') ->
  fetch_stream_end (mkb [] l mk q adj ska k ind inds tp ta lws)
  = Ok (tt, mkb [] l (eof_mark mk) ((q ++ repeat (be_tok (eof_mark mk)) n) ++ [se_tok (eof_mark mk)]) adj false (unposs k) ind' inds' tp ta lws).
Proof.
  intros Hk Hun. unfold fetch_stream_end, eof_mark. unfold mkb at 1. cbn. destruct (m_col mk =? 0); cbn; rewrite Hk; cbn.
  - rw_b (unroll_b (-1)%Z [] l mk q adj ska (unposs k) ind inds tp ta lws n ind' inds' Hun). cbn.
    unfold remove_simple_key. cbn. reflexivity.
  - rw_b (unroll_b (-1)%Z [] l {| m_index := m_index mk; m_line := m_line mk + 1; m_col := 0 |} q adj ska (unposs k) ind inds tp ta lws n ind' inds' Hun). cbn.
    unfold remove_simple_key. cbn. reflexivity.
Qed.

(* a key that cannot make the scanner fail: not required, or no longer possible *)
Definition key_free (k : simple_key) : Prop := (sk_required k && sk_possible k) = false.
Lemma key_free_stale k mk : key_free k -> (stale_k k mk && sk_required k) = false.
Proof. unfold key_free, stale_k. destruct (sk_required k), (sk_possible k); cbn; intros H; try reflexivity; try discriminate H; apply andb_false_r. Qed.
Lemma key_free_staled k mk : key_free k -> key_free (staled k mk).
Proof. unfold key_free, staled. intros H. destruct (stale_k k mk); [cbn; apply andb_false_r|exact H]. Qed.
Lemma key_free_not_required k : sk_required k = false -> key_free k.
Proof. unfold key_free. intros ->. reflexivity. Qed.
Lemma key_free_not_possible k : sk_possible k = false -> key_free k.
Proof. unfold key_free. intros ->. apply andb_false_r. Qed.

(* fetch_next_token at the end of the input: whatever is queued stays in front; the open block collections are closed in
   two batches; StreamEnd *)
Lemma end_fetch F l mk q adj ska k ind inds tp lws :
  (1 <= F)%nat -> key_free k -> grounded ind inds ->
  exists l' bes,
    map snd bes = repeat TBlockEnd (nbe inds) /\ no_se bes /\
    fetch_next_token str_ops F (mkb [] l mk q adj ska k ind inds tp false lws)
    = Ok (tt, mkb [] l' (eof_mark mk) ((q ++ bes) ++ [se_tok (eof_mark mk)]) adj false (unposs (staled k mk)) (-1)%Z [] tp false lws).
Proof.
  intros HF Hrq Hg.
  destruct (unroll_grounded inds (S (length inds)) (Z.of_N (m_col mk)) ind Hg ltac:(lia) ltac:(lia))
    as (n1 & ind1 & inds1 & E1 & Hg1 & Hn1 & _).
  pose proof (unroll_grounded_all inds1 (S (length inds1)) ind1 Hg1 ltac:(lia)) as E2.
  exists (Nat.max (Nat.max (Nat.max l 1) 1) 4), (repeat (be_tok mk) n1 ++ repeat (be_tok (eof_mark mk)) (nbe inds1)).
  split; [rewrite map_app, !map_snd_be, <- repeat_app; f_equal; exact Hn1|].
  split; [apply no_se_app; apply no_se_be|].
  erewrite fnt_b; [ | apply skip_eof; exact HF | apply key_free_stale, Hrq | exact E1 ].
  rewrite tail_eof.
  rewrite (stream_end_g _ mk _ adj ska (staled k mk) ind1 inds1 tp false lws (nbe inds1) (-1)%Z []);
    [ | apply key_free_staled, Hrq | exact E2 ].
  rewrite <- !app_assoc. reflexivity.
Qed.

(* the queue ends with StreamEnd and no key is possible: everything is handed out and the scanner has ended *)
Lemma end_drain F ts : forall cs l mk m adj ska k ind inds tp lws fuel acc,
  (1 <= F)%nat -> no_se ts -> sk_possible k = false -> (length ts + 1 < fuel)%nat ->
  scan_all str_ops F fuel (mkb cs l mk (ts ++ [se_tok m]) adj ska k ind inds tp false lws) acc
  = (rev acc ++ ts ++ [se_tok m], SEnded).
Proof.
  intros cs l mk m adj ska k ind inds tp lws fuel acc HF Hts Hk Hfuel.
  pose proof (drain_b_r F ts cs l mk [se_tok m] adj ska k ind inds tp lws HF Hts Hk) as D.
  assert (Ef : exists f2, fuel = (length ts + S (S f2))%nat) by (exists (fuel - length ts - 2)%nat; lia).
  destruct Ef as (f2 & ->). rewrite D. unfold se_tok. rewrite end_pop by (assumption || lia).
  cbn [rev app]. rewrite rev_app_distr, rev_involutive. cbn [rev app]. rewrite <- !app_assoc. reflexivity.
Qed.

(* a non-empty queue without a possible key: next_token does not fetch *)
Lemma ntb_ready F cs l mk h r adj ska k ind inds tp lws : sk_possible k = false ->
  exists res, ntb F 1 (mkb cs l mk (h :: r) adj ska k ind inds tp false lws) = Ok res.
Proof.
  intros Hk. erewrite ntb_pop; [ | reflexivity | apply need_none; exact Hk ].
  unfold popk, mkb. cbn. destruct h as [sp kd]. destruct kd; eexists; reflexivity.
Qed.

(* one or two fetches that end in such a state: next_token of the state before is next_token of the state after *)
Lemma next_skip1 F (s s1 s2 : sc strin) res :
  (2 <= F)%nat -> sc_token_available s = false -> sc_stream_end s = false ->
  need_comp s = Ok (true, s1) -> fetch_next_token str_ops F s1 = Ok (tt, s2) ->
  sc_token_available s2 = false -> sc_stream_end s2 = false -> ntb F 1 s2 = Ok res ->
  next_token str_ops F s = next_token str_ops F s2.
Proof.
  intros HF Hta Hse Hn Hf Hta2 Hse2 Hr.
  rewrite (nt_of_ntb F 1 s2 res Hse2 ltac:(lia) Hr).
  apply (nt_of_ntb F 2); [exact Hse | exact HF |].
  rewrite (ntb_fetch F 1 s s1 s2 Hta Hn Hf Hta2). exact Hr.
Qed.

Lemma scan_all_next F (s s2 : sc strin) fuel acc :
  next_token str_ops F s = next_token str_ops F s2 -> scan_all str_ops F fuel s acc = scan_all str_ops F fuel s2 acc.
Proof. intros H. destruct fuel as [|fuel]; [reflexivity|]. rewrite !scan_all_S, H. reflexivity. Qed.

(* the end of the input, nothing queued *)
Lemma end_scan_nil F l mk adj ska k ind inds tp lws :
  (3 <= F)%nat -> key_free k -> grounded ind inds ->
  exists toks, map snd toks = repeat TBlockEnd (nbe inds) ++ [TStreamEnd] /\
    forall fuel acc, (length toks < fuel)%nat ->
      scan_all str_ops F fuel (mkb [] l mk [] adj ska k ind inds tp false lws) acc = (rev acc ++ toks, SEnded).
Proof.
  intros HF Hrq Hg.
  destruct (end_fetch F l mk [] adj ska k ind inds tp lws ltac:(lia) Hrq Hg) as (l' & bes & Hm & Hbes & Hf).
  cbn [app] in Hf.
  exists (bes ++ [se_tok (eof_mark mk)]). split; [rewrite map_app, Hm; reflexivity|].
  intros fuel acc Hfuel. rewrite app_length in Hfuel. cbn [length] in Hfuel.
  assert (Hr : exists res, ntb F 1 (mkb [] l' (eof_mark mk) (bes ++ [se_tok (eof_mark mk)]) adj false (unposs (staled k mk)) (-1)%Z [] tp false lws) = Ok res).
  { destruct bes as [|b bs]; apply ntb_ready; reflexivity. }
  destruct Hr as (res & Hr).
  assert (E : next_token str_ops F (mkb [] l mk [] adj ska k ind inds tp false lws)
               = next_token str_ops F (mkb [] l' (eof_mark mk) (bes ++ [se_tok (eof_mark mk)]) adj false (unposs (staled k mk)) (-1)%Z [] tp false lws)).
  { eapply next_skip1; [lia | reflexivity | reflexivity | apply need_empty_b | exact Hf | reflexivity | reflexivity | exact Hr]. }
  rewrite (scan_all_next F _ _ fuel acc E).
  apply end_drain; [lia | exact Hbes | reflexivity | unfold token in *; lia].
Qed.

(* THE END UNIT: a fetch has queued exactly one token [t] (a scalar) and consumed the rest of the input; the key saved for
   the scalar may still be possible (single-line scalars) or not; the mark, the look-ahead, simple_key_allowed and
   leading_whitespace are arbitrary.  The scanner delivers t, one BlockEnd per open block collection, StreamEnd. *)
Lemma end_unit F (s : sc strin) l mk t adj ska k ind inds tp lws :
  (3 <= F)%nat -> canon s ->
  fetch_next_token str_ops F s = Ok (tt, mkb [] l mk [t] adj ska k ind inds tp false lws) ->
  snd t <> TStreamEnd -> key_free k -> grounded ind inds ->
  exists toks, map snd toks = snd t :: repeat TBlockEnd (nbe inds) ++ [TStreamEnd] /\
    forall fuel acc, (length toks < fuel)%nat -> scan_all str_ops F fuel s acc = (rev acc ++ toks, SEnded).
Proof.
  intros HF (Hq0 & Hta0 & Hse0) Hf Ht Hrq Hg.
  set (S2 := mkb [] l mk [t] adj ska k ind inds tp false lws) in *.
  assert (Hst : (stale_k k mk && sk_required k) = false) by (apply key_free_stale, Hrq).
  pose proof (need_b [] l mk t [] adj ska k ind inds tp false lws Hst) as Hn. cbn zeta in Hn. fold (staled k mk) in Hn. fold S2 in Hn.
  destruct (sk_possible (staled k mk) && (sk_token_number (staled k mk) =? tp)) eqn:Hp; cbn [orb] in Hn.
  - (* the key of the scalar is pending: the end of the input is fetched first *)
    destruct (end_fetch F l mk [t] adj ska (staled k mk) ind inds tp lws ltac:(lia) (key_free_staled k mk Hrq) Hg)
      as (l' & bes & Hm & Hbes & Hf2).
    rewrite staled_idem in Hf2. cbn [app] in Hf2.
    exists (t :: bes ++ [se_tok (eof_mark mk)]). split; [cbn [map]; rewrite map_app, Hm; reflexivity|].
    intros fuel acc Hfuel. cbn [length] in Hfuel. rewrite app_length in Hfuel. cbn [length] in Hfuel.
    set (S3 := mkb [] l' (eof_mark mk) (t :: bes ++ [se_tok (eof_mark mk)]) adj false (unposs (staled k mk)) (-1)%Z [] tp false lws) in *.
    destruct (ntb_ready F [] l' (eof_mark mk) t (bes ++ [se_tok (eof_mark mk)]) adj false (unposs (staled k mk)) (-1)%Z [] tp lws eq_refl) as (res & Hr).
    fold S3 in Hr.
    assert (E : next_token str_ops F s = next_token str_ops F S3).
    { rewrite (nt_of_ntb F 1 S3 res eq_refl ltac:(lia) Hr).
      apply (nt_of_ntb F 3); [exact Hse0 | exact HF |].
      rewrite (ntb_fetch F 2 s s S2 Hta0 (need_canon s Hq0) Hf eq_refl).
      rewrite (ntb_fetch F 1 S2 _ S3 eq_refl Hn Hf2 eq_refl). exact Hr. }
    rewrite (scan_all_next F s S3 fuel acc E). unfold S3.
    change (t :: bes ++ [se_tok (eof_mark mk)]) with ((t :: bes) ++ [se_tok (eof_mark mk)]).
    apply end_drain; [lia | constructor; [exact Ht|exact Hbes] | reflexivity | cbn [length]; unfold token in *; lia].
  - (* the key is stale or not possible: the scalar is handed out, then the end of the input is fetched *)
    destruct (end_scan_nil F l mk adj ska (staled k mk) ind inds (tp + 1) lws HF (key_free_staled k mk Hrq) Hg)
      as (toks & Hm & Hscan).
    exists (t :: toks). split; [cbn [map]; rewrite Hm; reflexivity|].
    intros fuel acc Hfuel. cbn [length] in Hfuel. destruct fuel as [|fuel]; [lia|].
    rewrite scan_all_S.
    rewrite (nt_of_ntb F 2 s (Some t, mkb [] l mk [] adj ska (staled k mk) ind inds (tp + 1) false lws) Hse0 ltac:(lia)).
    + rewrite Hscan by lia. cbn [rev]. rewrite <- app_assoc. reflexivity.
    + rewrite (ntb_fetch F 1 s s S2 Hta0 (need_canon s Hq0) Hf eq_refl).
      unfold S2. apply ntb_pop_b; [exact Ht | exact Hst | exact Hp].
Qed.
