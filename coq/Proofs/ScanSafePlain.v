(* Joint proof "the scanner never panics on a buffered input of any capacity >= 8": the PLAIN SCALAR family
   (scan_plain_scalar, its chunked inner loop plain_chunk and its blank/break loop plain_blanks). *)
From Coq Require Import List NArith ZArith Bool Arith Lia.
Import ListNotations.
Require Import Parser SBase SPrim SDir SScalar SFetch SBuf ScanWP.
Local Open Scope nat_scope.
#[local] Arguments Nat.ltb : simpl never.
#[local] Arguments Nat.leb : simpl never.
#[local] Arguments Nat.eqb : simpl never.
#[local] Arguments Nat.sub : simpl never.

Section Plain.
Variable cap : nat.
Hypothesis cap_ge : 8 <= cap.
Hypothesis H_ws : spec_skip_ws_to_eol cap.
Notation bops := (bops cap).
Notation st := (sc bufin).
Notation M := (@M bufin).

(* ---------------- small helpers ---------------- *)
Lemma wp_if_any {A} (b : bool) (m1 m2 : M A) (Q : A -> st -> Prop) s :
  wp m1 Q s -> wp m2 Q s -> wp (if b then m1 else m2) Q s.
Proof. destruct b; auto. Qed.

Lemma keeps_set_lws b (s : st) : keeps s (set_lws b s).
Proof. unfold keeps; cbn; repeat split; auto. Qed.
Lemma keeps_set_ska b (s : st) : keeps s (set_ska b s).
Proof. unfold keeps; cbn; repeat split; auto. Qed.

Lemma keeps_unroll (s : st) :
  keeps s (let '(ind, l) := unroll_nb (sc_indents s) (sc_indent s) in set_indent ind l s).
Proof.
  destruct (unroll_nb (sc_indents s) (sc_indent s)) as [ind l] eqn:E.
  unfold keeps; cbn. repeat split; auto.
Qed.

(* ---------------- plain_chunk: the chunked inner loop ----------------
   INVARIANT: at counter [j] the buffer still holds at least [cap - j] characters.  The call site (and the refill
   branch) establish it with [look cap] and [j = 0]; a round is entered only when [j < cap - 1], i.e. with at least
   2 buffered characters (enough for next_is / next_can_be_plain_scalar / peek), and consumes exactly one.
   On exit at least 2 characters are still buffered. *)
Lemma safe_plain_chunk : forall fuel j acc s,
  cap - j <= bl s ->
  wp (plain_chunk bops fuel j acc) (fun _ s' => keeps s s' /\ 2 <= bl s') s.
Proof.
  induction fuel as [|fuel IH]; intros j acc s Hj; cbn [plain_chunk]; [exact I|].
  change (bufmaxlen bops) with cap.
  destruct (Nat.leb (cap - 1) j) eqn:E.
  - apply wp_bind. apply (wp_look cap cap_ge); [lia|]. intros s1 H1 B1 B2 _.
    eapply wp_mono; [apply IH; lia|]. intros a s' [K B].
    split; [eapply keeps_trans; [apply keeps_input; exact H1|exact K]|exact B].
  - apply Nat.leb_gt in E.
    apply wp_bind. apply (wp_next_is cap cap_ge); [lia|]. intros b.
    apply wp_bind. apply wp_get.
    apply wp_bind. destruct b.
    + apply wp_ret. cbn [orb]. apply wp_ret. split; [apply keeps_refl|lia].
    + apply (wp_next_can_be_plain_scalar cap cap_ge); [lia|]. intros cb. cbn [orb].
      destruct cb; cbn [negb].
      * apply wp_bind. apply (wp_peek cap cap_ge); [lia|]. intros c.
        apply wp_bind. apply (wp_skip_non_blank cap cap_ge). intros s1 K1 B1.
        eapply wp_mono; [apply IH; lia|]. intros a s' [K B].
        split; [eapply keeps_trans; [exact K1|exact K]|exact B].
      * apply wp_ret. split; [apply keeps_refl|lia].
Qed.

(* ---------------- plain_blanks: blanks and breaks between the words ---------------- *)
Lemma safe_plain_blanks F : forall fuel indent start lb tb ws s,
  2 <= bl s ->
  wp (plain_blanks bops F fuel indent start lb tb ws) (fun _ s' => keeps s s') s.
Proof.
  induction fuel as [|fuel IH]; intros indent start lb tb ws s Hs; cbn [plain_blanks]; [exact I|].
  apply wp_bind. apply (wp_peek_val cap cap_ge); [lia|].
  assert (Hblank : forall ws', wp (skip_blank bops ;;; look bops 2 ;;; plain_blanks bops F fuel indent start lb tb ws')
                                  (fun _ s' => keeps s s') s).
  { intros ws'. apply wp_bind. apply (wp_skip_blank cap cap_ge). intros s1 K1 B1.
    apply wp_bind. apply (wp_look cap cap_ge); [lia|]. intros s2 H2 B2 _ _.
    eapply wp_mono; [apply IH; lia|]. intros a s' K.
    eapply keeps_trans; [exact K1|]. eapply keeps_trans; [apply keeps_input; exact H2|exact K]. }
  destruct (is_blank (bnth s 0)) eqn:Eb.
  - apply wp_bind. apply wp_get.
    destruct (negb (sc_lws s)); [apply Hblank|].
    destruct ((Z.of_N (m_col (sc_mark s)) <? indent)%Z && (bnth s 0 =? 9)%N); [|apply Hblank].
    apply wp_bind. eapply wp_mono; [apply H_ws|]. intros a s1 [K1 B1].
    apply wp_bind. apply (wp_next_is cap cap_ge); [lia|]. intros b.
    destruct b; [|apply wp_fail].
    apply wp_bind. apply (wp_look cap cap_ge); [lia|]. intros s2 H2 B2 _ _.
    eapply wp_mono; [apply IH; lia|]. intros a' s' K.
    eapply keeps_trans; [exact K1|]. eapply keeps_trans; [apply keeps_input; exact H2|exact K].
  - destruct (is_break (bnth s 0)) eqn:Ek; [|apply wp_ret, keeps_refl].
    apply wp_bind. apply wp_get.
    destruct (sc_lws s).
    + apply wp_bind. apply (wp_skip_break cap cap_ge); [lia|exact Ek|]. intros s1 K1 B1.
      apply wp_bind. apply (wp_look cap cap_ge); [lia|]. intros s2 H2 B2 _ _.
      eapply wp_mono; [apply IH; lia|]. intros a s' K.
      eapply keeps_trans; [exact K1|]. eapply keeps_trans; [apply keeps_input; exact H2|exact K].
    + apply wp_bind. apply (wp_skip_break cap cap_ge); [lia|exact Ek|]. intros s1 K1 B1.
      apply wp_bind. apply wp_modify.
      apply wp_bind. apply (wp_look cap cap_ge); [lia|]. intros s2 H2 B2 _ _.
      eapply wp_mono; [apply IH; lia|]. intros a s' K.
      eapply keeps_trans; [exact K1|]. eapply keeps_trans; [apply (keeps_set_lws true)|].
      eapply keeps_trans; [apply keeps_input; exact H2|exact K].
Qed.

(* ---------------- the main loop of scan_plain_scalar (a local [fix] in the model), restated ---------------- *)
Local Open Scope N_scope.
Local Open Scope mon_scope.
Section Go.
Variables (F : nat) (indent : Z) (start : marker).
Fixpoint plain_go (f : nat) (acc : list chr) (lb : bool) (tb : N) (ws : list chr) (endm : marker) {struct f}
    : M (list chr * marker) :=
  match f with
  | O => oof
  | S f =>
    look bops 4 ;;;
    s <- get ;;
    di <- (if sc_lws s && (m_col (sc_mark s) =? 0) then next_is_document_indicator bops else ret false) ;;
    c <- peek bops ;;
    if di || (c =? 35) then ret (acc, endm) else
    nc <- peekn bops 1 ;;
    let fl := 0 <? sc_flow_level s in
    if (match acc with [] => true | _ => false end) && fl && (c =? 45) && is_flow nc then fail 76 (sc_mark s) else
    cb <- (if is_blank_or_breakz c then ret false else next_can_be_plain_scalar bops fl) ;;
    r <- (if cb then
            let '(acc, lb, tb, ws) :=
              if sc_lws s then
                (if negb lb then (nls tb acc, false, 0, ws)
                 else if tb =? 0 then (32 :: acc, false, 0, ws)
                 else (nls tb acc, false, 0, ws))
              else (ws ++ acc, lb, tb, []) in
            modify (set_lws false) ;;;
            skip_non_blank bops ;;;
            look bops (bufmaxlen bops) ;;;
            acc <- plain_chunk bops F 0 (c :: acc) ;;
            m <- mark ;; ret (acc, lb, tb, ws, m)
          else ret (acc, lb, tb, ws, endm)) ;;
    let '(acc, lb, tb, ws, endm) := r in
    c <- peek bops ;;
    if negb (is_blank c || is_break c) then ret (acc, endm) else
    look bops 2 ;;;
    r <- plain_blanks bops F F indent start lb tb ws ;;
    let '(lb, tb, ws) := r in
    s <- get ;;
    if (sc_flow_level s =? 0) && (Z.of_N (m_col (sc_mark s)) <? indent)%Z then ret (acc, endm)
    else plain_go f acc lb tb ws endm
  end.
End Go.

Lemma scan_plain_scalar_eq F :
  scan_plain_scalar bops F =
  (unroll_non_block_indents ;;;
   s0 <- get ;;
   let indent := (sc_indent s0 + 1)%Z in
   let start := sc_mark s0 in
   if (0 <? sc_flow_level s0) && (Z.of_N (m_col start) <? indent)%Z then fail 75 start else
   r <- plain_go F indent start F [] false 0 [] start ;;
   s <- get ;;
   (if sc_lws s then allow_simple_key else ret tt) ;;;
   match fst r with
   | [] => fail 78 start
   | _ => ret ({| sp_start := start; sp_end := snd r |}, TScalar Plain (rev (fst r)))
   end).
Proof. reflexivity. Qed.
Close Scope mon_scope.
Close Scope N_scope.

Lemma safe_plain_go F indent start : forall f acc lb tb ws endm s,
  wp (plain_go F indent start f acc lb tb ws endm) (fun _ s' => keeps s s') s.
Proof.
  induction f as [|f IH]; intros acc lb tb ws endm s; cbn [plain_go]; [exact I|].
  apply wp_bind. apply (wp_look cap cap_ge); [lia|]. intros s1 H1 B1 _ _.
  assert (K1 : keeps s s1) by (apply keeps_input; exact H1).
  apply wp_bind. apply wp_get.
  apply wp_bind.
  match goal with |- wp _ ?Q _ => assert (HQ : forall di, Q di s1) end.
  2:{ apply wp_if_any; [apply (wp_next_is_document_indicator cap cap_ge); [lia|exact HQ]|apply wp_ret; exact (HQ false)]. }
  intros di. cbv beta.
  apply wp_bind. apply (wp_peek cap cap_ge); [lia|]. intros c.
  destruct (di || (c =? 35)%N); [apply wp_ret; exact K1|].
  apply wp_bind. apply (wp_peekn cap cap_ge); [lia|]. intros nc.
  cbv zeta.
  destruct ((match acc with [] => true | _ => false end) && (0 <? sc_flow_level s1)%N && (c =? 45)%N && is_flow nc); [apply wp_fail|].
  apply wp_bind.
  match goal with |- wp _ ?Q _ => assert (HQ : forall cb, Q cb s1) end.
  2:{ apply wp_if_any; [apply wp_ret; exact (HQ false)|apply (wp_next_can_be_plain_scalar cap cap_ge); [lia|exact HQ]]. }
  intros cb. cbv beta.
  apply wp_bind.
  (* what happens after the word has been consumed: one buffered character is enough *)
  match goal with |- wp _ ?Q _ => assert (HQ : forall r s2, keeps s s2 -> (1 <= bl s2)%nat -> Q r s2) end.
  { intros [[[[acc' lb'] tb'] ws'] endm'] s2 K2 B2. cbv beta iota.
    apply wp_bind. apply (wp_peek cap cap_ge); [lia|]. intros c2.
    destruct (negb (is_blank c2 || is_break c2)); [apply wp_ret; exact K2|].
    apply wp_bind. apply (wp_look cap cap_ge); [lia|]. intros s3 H3 B3 _ _.
    apply wp_bind. eapply wp_mono; [apply safe_plain_blanks; lia|]. intros [[lb2 tb2] ws2] s4 K4. cbv beta iota.
    assert (K : keeps s s4).
    { eapply keeps_trans; [exact K2|]. eapply keeps_trans; [apply keeps_input; exact H3|exact K4]. }
    apply wp_bind. apply wp_get.
    destruct ((sc_flow_level s4 =? 0)%N && (Z.of_N (m_col (sc_mark s4)) <? indent)%Z); [apply wp_ret; exact K|].
    eapply wp_mono; [apply IH|]. intros a s' K'. eapply keeps_trans; [exact K|exact K']. }
  destruct cb; [|apply wp_ret; apply (HQ (acc, lb, tb, ws, endm) s1 K1); lia].
  destruct (if sc_lws s1 then _ else _) as [[[a1 l1] t1] w1]. cbv beta iota.
  apply wp_bind. apply wp_modify.
  apply wp_bind. apply (wp_skip_non_blank cap cap_ge). intros s2 K2 B2.
  change (bl (set_lws false s1)) with (bl s1) in B2.
  change (bufmaxlen bops) with cap.
  apply wp_bind. apply (wp_look cap cap_ge); [lia|]. intros s3 H3 B3 _ _.
  apply wp_bind. eapply wp_mono; [apply safe_plain_chunk; lia|]. intros acc2 s4 [K4 B4].
  apply wp_bind. apply wp_mark. apply wp_ret. refine (HQ (acc2, l1, t1, w1, sc_mark s4) s4 _ _); [|lia].
  eapply keeps_trans; [exact K1|]. eapply keeps_trans; [apply (keeps_set_lws false)|].
  eapply keeps_trans; [exact K2|]. eapply keeps_trans; [apply keeps_input; exact H3|exact K4].
Qed.

(* ---------------- the contract ---------------- *)
Theorem safe_scan_plain_scalar : spec_scan_plain_scalar cap.
Proof.
  intros F s. rewrite scan_plain_scalar_eq.
  apply wp_bind. unfold unroll_non_block_indents. apply wp_modify.
  pose proof (keeps_unroll s) as K1.
  set (s1 := let '(ind, l) := unroll_nb (sc_indents s) (sc_indent s) in set_indent ind l s) in *.
  clearbody s1.
  apply wp_bind. apply wp_get. cbv zeta.
  destruct ((0 <? sc_flow_level s1)%N && (Z.of_N (m_col (sc_mark s1)) <? sc_indent s1 + 1)%Z); [apply wp_fail|].
  apply wp_bind. eapply wp_mono; [apply safe_plain_go|]. intros r s2 K2. cbv beta.
  assert (K : keeps s s2) by (eapply keeps_trans; [exact K1|exact K2]).
  apply wp_bind. apply wp_get.
  apply wp_bind. apply wp_if_any.
  - unfold allow_simple_key. apply wp_modify.
    destruct (fst r); [apply wp_fail|]. apply wp_ret. split; [|lia].
    eapply keeps_trans; [exact K|apply keeps_set_ska].
  - apply wp_ret. destruct (fst r); [apply wp_fail|]. apply wp_ret. split; [exact K|lia].
Qed.
End Plain.

Print Assumptions safe_scan_plain_scalar.
