(* C18 — the UTF-16 decoder model (Model/Decoders.v: u16_raw, both byte orders) meets the per-call
   specification of Proofs/DecoderLoop.v with respect to the one-shot specification utf16_next.

     fast16_spec     the fast path (copy_utf16_from / convert_unaligned_utf16_to_utf8) consumes characters of the
                     specification only, reports an unpaired surrogate exactly where the specification has a
                     malformed sequence of two bytes, and — when room for an astral character is left — stops
                     only at the end of the input, before a single trailing byte or before a final high surrogate
     u16_tail_*      the byte-wise state machine on those three tails
     u16_call_ok     the per-call specification                                                          *)
From Coq Require Import List NArith Bool Lia Arith.
Import ListNotations.
Require Import Consts Decode TagSpec EncodingSpec Decoders DecodeProofs DecoderLoop.
Open Scope N_scope.
Arguments N.add : simpl never.
Arguments N.sub : simpl never.
Arguments N.mul : simpl never.
Arguments N.div : simpl never.
Arguments N.modulo : simpl never.
Arguments N.eqb : simpl never.
Arguments N.ltb : simpl never.
Arguments N.leb : simpl never.
Arguments N.max : simpl never.
Arguments N.to_nat : simpl never.
Arguments N.of_nat : simpl never.

(* ================================================================================================ *)
(* 1. Model and specification vocabulary                                                             *)
(* ================================================================================================ *)
Lemma code_unit_unit_of : forall be a b, code_unit be a b = unit_of be a b.
Proof. reflexivity. Qed.

Lemma high_is_high : forall u, high_surrogate u = is_high u.
Proof.
  intros u. unfold high_surrogate, is_high.
  destruct (N.leb_spec 55296 u); cbn [andb]; [|reflexivity].
  destruct (N.ltb_spec u 56320); destruct (N.leb_spec u 56319); try reflexivity; lia.
Qed.

Lemma low_is_low : forall u, low_surrogate u = is_low u.
Proof.
  intros u. unfold low_surrogate, is_low.
  destruct (N.leb_spec 56320 u); cbn [andb]; [|reflexivity].
  destruct (N.ltb_spec u 57344); destruct (N.leb_spec u 57343); try reflexivity; lia.
Qed.

Lemma high_range : forall u, high_surrogate u = true -> 55296 <= u < 56320.
Proof.
  intros u H. unfold high_surrogate in H. apply andb_true_iff in H as [H1 H2].
  apply N.leb_le in H1. apply N.ltb_lt in H2. lia.
Qed.

Lemma low_range : forall u, low_surrogate u = true -> 56320 <= u < 57344.
Proof.
  intros u H. unfold low_surrogate in H. apply andb_true_iff in H as [H1 H2].
  apply N.leb_le in H1. apply N.ltb_lt in H2. lia.
Qed.

Lemma pair_astral : forall u v, high_surrogate u = true -> low_surrogate v = true -> surrogate_pair u v = astral u v.
Proof.
  intros u v Hu Hv. apply high_range in Hu. apply low_range in Hv. unfold surrogate_pair, astral. lia.
Qed.

Lemma high_not_small : forall u, high_surrogate u = true -> (u <? 128) = false.
Proof. intros u H. apply high_range in H. apply N.ltb_ge. lia. Qed.

Lemma small_not_surrogate : forall u, u < 128 -> high_surrogate u = false /\ low_surrogate u = false.
Proof.
  intros u H. unfold high_surrogate, low_surrogate.
  rewrite (proj2 (N.leb_gt 55296 u)) by lia. rewrite (proj2 (N.leb_gt 56320 u)) by lia. split; reflexivity.
Qed.

Lemma utf8_len_range16 : forall c, 1 <= utf8_len c <= 4.
Proof.
  intros c. unfold utf8_len. destruct (c <? 128); [lia|]. destruct (c <? 2048); [lia|]. destruct (c <? 65536); lia.
Qed.

Lemma utf8_len_small : forall c, c < 128 -> utf8_len c = 1.
Proof. intros c H. unfold utf8_len. rewrite (proj2 (N.ltb_lt c 128) H). reflexivity. Qed.

Lemma pair_len : forall u v, high_surrogate u = true -> low_surrogate v = true -> utf8_len (surrogate_pair u v) = 4.
Proof.
  intros u v Hu Hv. apply high_range in Hu. apply low_range in Hv. unfold utf8_len, surrogate_pair.
  rewrite (proj2 (N.ltb_ge _ 128)) by lia. rewrite (proj2 (N.ltb_ge _ 2048)) by lia.
  rewrite (proj2 (N.ltb_ge _ 65536)) by lia. reflexivity.
Qed.

(* the specification's first piece, case by case ([unit_of] and [code_unit] are convertible) *)
Ltac spec16 :=
  unfold utf16_next; cbv zeta;
  repeat match goal with |- context [unit_of ?be ?a ?b] => change (unit_of be a b) with (code_unit be a b) end;
  rewrite <- ?high_is_high, <- ?low_is_low.

Lemma next16_bmp : forall be b0 b1 tl, high_surrogate (code_unit be b0 b1) = false -> low_surrogate (code_unit be b0 b1) = false ->
    utf16_next be (b0 :: b1 :: tl) = PChar (code_unit be b0 b1) 2.
Proof. intros be b0 b1 tl Hh Hl. spec16. rewrite Hh, Hl. reflexivity. Qed.

Lemma next16_low : forall be b0 b1 tl, high_surrogate (code_unit be b0 b1) = false -> low_surrogate (code_unit be b0 b1) = true ->
    utf16_next be (b0 :: b1 :: tl) = PBad 2.
Proof. intros be b0 b1 tl Hh Hl. spec16. rewrite Hh, Hl. reflexivity. Qed.

Lemma next16_pair : forall be b0 b1 c0 c1 tl, high_surrogate (code_unit be b0 b1) = true -> low_surrogate (code_unit be c0 c1) = true ->
    utf16_next be (b0 :: b1 :: c0 :: c1 :: tl) = PChar (surrogate_pair (code_unit be b0 b1) (code_unit be c0 c1)) 4.
Proof. intros be b0 b1 c0 c1 tl Hh Hl. rewrite (pair_astral _ _ Hh Hl). spec16. rewrite Hh, Hl. reflexivity. Qed.

Lemma next16_unpaired : forall be b0 b1 c0 c1 tl, high_surrogate (code_unit be b0 b1) = true -> low_surrogate (code_unit be c0 c1) = false ->
    utf16_next be (b0 :: b1 :: c0 :: c1 :: tl) = PBad 2.
Proof. intros be b0 b1 c0 c1 tl Hh Hl. spec16. rewrite Hh, Hl. reflexivity. Qed.

Lemma next16_high_end : forall be b0 b1, high_surrogate (code_unit be b0 b1) = true -> utf16_next be [b0; b1] = PBad 2.
Proof. intros be b0 b1 Hh. spec16. rewrite Hh. reflexivity. Qed.

Lemma next16_high_odd : forall be b0 b1 c, high_surrogate (code_unit be b0 b1) = true -> utf16_next be [b0; b1; c] = PBad 3.
Proof. intros be b0 b1 c Hh. spec16. rewrite Hh. reflexivity. Qed.

Lemma utf16_next_size : forall be bs, bs <> [] -> 1 <= psize (utf16_next be bs) <= nlen bs.
Proof.
  intros be [|b0 [|b1 tl]] H; [congruence|unfold utf16_next; cbn [psize]; rewrite nlen_cons; lia|].
  unfold utf16_next. cbv zeta. rewrite !nlen_cons.
  destruct (is_high (unit_of be b0 b1)).
  - destruct tl as [|c0 [|c1 tl2]]; cbn [psize]; rewrite ?nlen_cons; try lia.
    destruct (is_low (unit_of be c0 c1)); cbn [psize]; lia.
  - destruct (is_low (unit_of be b0 b1)); cbn [psize]; lia.
Qed.

Lemma utf16_bad_small : forall be bs ml, utf16_next be bs = PBad ml -> ml <= 255.
Proof.
  intros be [|b0 [|b1 tl]] ml H; [inversion H; lia|inversion H; lia|].
  unfold utf16_next in H. cbv zeta in H.
  destruct (is_high (unit_of be b0 b1)).
  - destruct tl as [|c0 [|c1 tl2]]; try (inversion H; lia).
    destruct (is_low (unit_of be c0 c1)); inversion H; lia.
  - destruct (is_low (unit_of be b0 b1)); inversion H; lia.
Qed.

(* ================================================================================================ *)
(* 2. The fast path                                                                                  *)
(* ================================================================================================ *)
Definition tail_shape (be : bool) (rest : list N) : Prop :=
  rest = [] \/ (exists b, rest = [b]) \/
  (exists b0 b1 tl, rest = b0 :: b1 :: tl /\ high_surrogate (code_unit be b0 b1) = true /\
                    (tl = [] \/ exists c, tl = [c])).

Definition fast16_post (be : bool) (rem : list N) (spare : N) (cs : list N) (k : N) (err : bool) (rest : list N) : Prop :=
  exists k0, good_prefix (utf16_next be) rem cs k0 /\ text_len cs <= spare /\
    rest = skipn (N.to_nat k) rem /\
    (if err then k = k0 + 2 /\ k <= nlen rem /\ utf16_next be (skipn (N.to_nat k0) rem) = PBad 2
     else k = k0 /\ (4 <= spare - text_len cs -> tail_shape be rest)).

Lemma fast16_post_stop : forall be rem spare, (4 <= spare -> tail_shape be rem) -> fast16_post be rem spare [] 0 false rem.
Proof.
  intros be rem spare H. exists 0. split; [constructor|]. split; [cbn [text_len]; lia|]. split; [reflexivity|].
  split; [reflexivity|]. cbn [text_len]. rewrite N.sub_0_r. exact H.
Qed.

Lemma fast16_post_cons : forall be rem spare c sz cs1 n1 e1 r1,
    rem <> [] -> utf16_next be rem = PChar c sz -> utf8_len c <= spare ->
    fast16_post be (skipn (N.to_nat sz) rem) (spare - utf8_len c) cs1 n1 e1 r1 ->
    fast16_post be rem spare (c :: cs1) (sz + n1) e1 r1.
Proof.
  intros be rem spare c sz cs1 n1 e1 r1 Hne Hn Hl (k1 & Hg & Ht & Hr & He).
  pose proof (utf16_next_size be rem Hne) as [Hs1 Hs2]. rewrite Hn in Hs1, Hs2. cbn [psize] in Hs1, Hs2.
  exists (sz + k1). split; [apply gp_cons; assumption|]. split; [cbn [text_len]; lia|].
  split; [rewrite skipn_N_add; exact Hr|].
  destruct e1.
  - destruct He as (E1 & E2 & E3). rewrite nlen_skipn in E2. split; [lia|]. split; [lia|].
    rewrite skipn_N_add. exact E3.
  - destruct He as (E1 & E2). split; [lia|]. intros H. apply E2. cbn [text_len] in H. lia.
Qed.

Lemma fast16_post_err : forall be b0 b1 tl spare,
    utf16_next be (b0 :: b1 :: tl) = PBad 2 -> fast16_post be (b0 :: b1 :: tl) spare [] 2 true tl.
Proof.
  intros be b0 b1 tl spare H. exists 0. split; [constructor|]. split; [cbn [text_len]; lia|].
  split; [replace (N.to_nat 2) with 2%nat by lia; reflexivity|].
  split; [reflexivity|]. split; [rewrite !nlen_cons; lia|]. exact H.
Qed.

Lemma skipn_2 : forall (b0 b1 : N) tl, skipn (N.to_nat 2) (b0 :: b1 :: tl) = tl.
Proof. intros. replace (N.to_nat 2) with 2%nat by lia. reflexivity. Qed.

Lemma skipn_4 : forall (b0 b1 c0 c1 : N) tl, skipn (N.to_nat 4) (b0 :: b1 :: c0 :: c1 :: tl) = tl.
Proof. intros. replace (N.to_nat 4) with 4%nat by lia. reflexivity. Qed.

Lemma fast16_spec : forall be n rem, (length rem <= n)%nat -> forall ana spare cs k err rest,
    fast16 be ana rem spare = (cs, k, err, rest) -> fast16_post be rem spare cs k err rest.
Proof.
  intros be. induction n as [|n IH]; intros rem Hlen ana spare cs k err rest H.
  { destruct rem; [|cbn [length] in Hlen; lia]. cbn [fast16] in H. inversion H; subst.
    apply fast16_post_stop. intros _. left; reflexivity. }
  destruct rem as [|b0 [|b1 tl]].
  { cbn [fast16] in H. inversion H; subst. apply fast16_post_stop. intros _. left; reflexivity. }
  { cbn [fast16] in H. inversion H; subst. apply fast16_post_stop. intros _. right; left. eexists; reflexivity. }
  cbn [fast16] in H. cbv zeta in H. set (u := code_unit be b0 b1) in *.
  destruct (high_surrogate u) eqn:Hh.
  - (* high surrogate *)
    rewrite (high_not_small u Hh) in H.
    destruct tl as [|c0 [|c1 tl2]].
    + cbn [andb] in H. inversion H; subst. apply fast16_post_stop. intros _. right; right.
      exists b0, b1, []. split; [reflexivity|]. split; [exact Hh|]. left; reflexivity.
    + cbn [andb] in H. inversion H; subst. apply fast16_post_stop. intros _. right; right.
      exists b0, b1, [c0]. split; [reflexivity|]. split; [exact Hh|]. right. eexists; reflexivity.
    + cbn [andb] in H.
      destruct (N.ltb_spec spare 4) as [Hs|Hs].
      { inversion H; subst. apply fast16_post_stop. intros; lia. }
      set (v := code_unit be c0 c1) in *.
      destruct (low_surrogate v) eqn:Hl.
      * destruct (fast16 be true tl2 (spare - 4)) as [[[cs1 n1] e1] r1] eqn:E.
        inversion H; subst cs k err rest. clear H.
        pose proof (pair_len u v Hh Hl) as Hpl.
        apply fast16_post_cons.
        -- discriminate.
        -- apply next16_pair; assumption.
        -- lia.
        -- rewrite skipn_4, Hpl. apply (IH tl2 ltac:(cbn [length] in Hlen; lia) true). exact E.
      * inversion H; subst cs k err rest. clear H.
        apply fast16_post_err. apply next16_unpaired; assumption.
  - (* not a high surrogate *)
    rewrite andb_false_r in H.
    destruct (N.ltb_spec u 128) as [Hsmall|Hbig].
    + destruct (small_not_surrogate u Hsmall) as [_ Hlow].
      assert (Hstop : forall s0, (if ana then spare <? 4 else spare <? 1) = true -> 4 <= spare -> tail_shape be s0).
      { intros s0 Hc Hs. destruct ana; [apply N.ltb_lt in Hc|apply N.ltb_lt in Hc]; lia. }
      destruct (if ana then spare <? 4 else spare <? 1) eqn:Hc.
      { inversion H; subst. apply fast16_post_stop. apply Hstop. reflexivity. }
      destruct (fast16 be false tl (spare - 1)) as [[[cs1 n1] e1] r1] eqn:E.
      inversion H; subst cs k err rest. clear H.
      assert (Hsp : 1 <= spare) by (destruct ana; apply N.ltb_ge in Hc; lia).
      apply fast16_post_cons.
      * discriminate.
      * apply next16_bmp; assumption.
      * rewrite utf8_len_small by exact Hsmall. exact Hsp.
      * rewrite skipn_2, utf8_len_small by exact Hsmall.
        apply (IH tl ltac:(cbn [length] in Hlen; lia) false). exact E.
    + destruct (N.ltb_spec spare 4) as [Hs|Hs].
      { inversion H; subst. apply fast16_post_stop. intros; lia. }
      destruct (low_surrogate u) eqn:Hl.
      * inversion H; subst cs k err rest. clear H.
        apply fast16_post_err. apply next16_low; assumption.
      * destruct (fast16 be true tl (spare - utf8_len u)) as [[[cs1 n1] e1] r1] eqn:E.
        inversion H; subst cs k err rest. clear H.
        pose proof (utf8_len_range16 u) as Hlr.
        apply fast16_post_cons.
        -- discriminate.
        -- apply next16_bmp; assumption.
        -- lia.
        -- rewrite skipn_2. apply (IH tl ltac:(cbn [length] in Hlen; lia) true). exact E.
Qed.

(* ================================================================================================ *)
(* 3. The byte-wise state machine on the three tails                                                 *)
(* ================================================================================================ *)
Lemma neutral_new : u16_neutral u16_new = true.
Proof. reflexivity. Qed.

Lemma neutral_lead : forall ls b pb, u16_neutral (U16 ls (Some b) pb) = false.
Proof. intros ls b pb. unfold u16_neutral. cbn [w_surrogate w_lead_byte]. apply andb_false_r. Qed.

Lemma neutral_surrogate : forall u pb, u <> 0 -> u16_neutral (U16 u None pb) = false.
Proof.
  intros u pb H. unfold u16_neutral. cbn [w_surrogate w_lead_byte]. rewrite (proj2 (N.eqb_neq u 0) H). reflexivity.
Qed.

Ltac u16_iter :=
  cbn [u16_loop w_surrogate w_lead_byte w_pending_bmp];
  rewrite ?neutral_lead, ?neutral_new;
  cbn [andb negb text_len app];
  rewrite ?N.sub_0_r, ?N.add_0_r.

(* a single trailing byte *)
Lemma u16_tail_byte : forall f be b spare rd, (1 <= f)%nat -> 3 <= spare ->
    u16_loop f be true (U16 0 (Some b) false) [] spare rd = (u16_new, XMalformed 1 0 rd, []).
Proof.
  intros f be b spare rd Hf Hs. destruct f as [|f]; [lia|]. u16_iter.
  rewrite (proj2 (N.ltb_ge spare 3) Hs). rewrite N.eqb_refl. cbn [negb]. reflexivity.
Qed.

(* a final high surrogate, its first byte already read *)
Lemma u16_tail_high : forall f be h0 h1 spare rd, (2 <= f)%nat -> 4 <= spare ->
    high_surrogate (code_unit be h0 h1) = true ->
    u16_loop f be true (U16 0 (Some h0) false) [h1] spare rd = (u16_new, XMalformed 2 0 (rd + 1), []).
Proof.
  intros f be h0 h1 spare rd Hf Hs Hh. pose proof (high_range _ Hh) as Hr.
  destruct f as [|[|f]]; [lia|lia|]. u16_iter.
  rewrite (proj2 (N.ltb_ge spare 4) Hs). rewrite Hh. rewrite N.eqb_refl. cbn [negb].
  u16_iter. rewrite neutral_surrogate by lia. cbn [andb negb text_len app]. rewrite ?N.sub_0_r, ?N.add_0_r.
  rewrite (proj2 (N.ltb_ge spare 3)) by lia.
  rewrite (proj2 (N.eqb_neq (code_unit be h0 h1) 0)) by lia. cbn [negb app]. reflexivity.
Qed.

(* a final high surrogate followed by a single trailing byte *)
Lemma u16_tail_high_odd : forall f be h0 h1 c spare rd, (3 <= f)%nat -> 4 <= spare ->
    high_surrogate (code_unit be h0 h1) = true ->
    u16_loop f be true (U16 0 (Some h0) false) [h1; c] spare rd = (u16_new, XMalformed 3 0 (rd + 1 + 1), []).
Proof.
  intros f be h0 h1 c spare rd Hf Hs Hh. pose proof (high_range _ Hh) as Hr.
  destruct f as [|[|[|f]]]; [lia|lia|lia|]. u16_iter.
  rewrite (proj2 (N.ltb_ge spare 4) Hs). rewrite Hh. rewrite N.eqb_refl. cbn [negb].
  u16_iter. rewrite neutral_surrogate by lia. cbn [andb negb text_len]. rewrite ?N.sub_0_r, ?N.add_0_r.
  rewrite (proj2 (N.ltb_ge spare 4) Hs).
  u16_iter.
  rewrite (proj2 (N.ltb_ge spare 3)) by lia.
  rewrite (proj2 (N.eqb_neq (code_unit be h0 h1) 0)) by lia. cbn [negb app]. reflexivity.
Qed.

(* ================================================================================================ *)
(* 4. The per-call specification                                                                     *)
(* ================================================================================================ *)
Definition u16_step (be : bool) (st : u16st) (src : list N) (spare : N) := u16_raw be true st src spare.
Definition u16_bnd (st : u16st) (rem : list N) : Prop := st = u16_new.

Lemma good_prefix_pos : forall next, (forall bs, bs <> [] -> 1 <= psize (next bs) <= nlen bs) ->
    forall rem c cs k, good_prefix next rem (c :: cs) k -> 1 <= k.
Proof.
  intros next Hsize rem c cs k H. inversion H as [|? ? k1 ? rd Hne Hn Hg]; subst.
  pose proof (Hsize rem Hne) as [H1 _]. rewrite Hn in H1. cbn [psize] in H1. lia.
Qed.

Lemma u16_call_ok : forall be st rem spare, u16_bnd st rem ->
    call_ok u16st (u16_step be) (utf16_next be) u16_bnd 4 st rem spare.
Proof.
  intros be st rem spare ->. unfold call_ok, u16_step, u16_raw. cbn [u16_new w_pending_bmp]. fold u16_new.
  cbn [u16_loop]. rewrite neutral_new. cbn [andb].
  destruct (N.leb_spec 4 spare) as [Hsp|Hsp].
  2:{ (* no room for the fast path *)
    cbn [text_len]. rewrite N.sub_0_r, N.add_0_r.
    destruct rem as [|b tl].
    - cbn [andb negb app text_len]. split; [lia|]. exists 0. split; [constructor|reflexivity].
    - rewrite (proj2 (N.ltb_lt spare 4) Hsp). cbn [app text_len]. split; [lia|]. exists 0. split; [constructor|].
      split; [reflexivity|]. split; [rewrite nlen_cons; lia|]. split; [lia|]. reflexivity. }
  destruct (fast16 be false rem spare) as [[[cs k] err] rest] eqn:Hfast.
  destruct (fast16_spec be (length rem) rem (Nat.le_refl _) false spare cs k err rest Hfast)
    as (k0 & Hg & Ht & Hr & He).
  pose proof (good_prefix_le (utf16_next be) (utf16_next_size be) _ _ _ Hg) as Hk0.
  destruct err.
  - (* an unpaired surrogate met by the fast path *)
    destruct He as (-> & Hle & Hbad). rewrite N.add_0_l.
    split; [exact Ht|]. exists k0. split; [exact Hg|]. split; [reflexivity|]. split; [lia|].
    split; [exact Hbad|]. split; [reflexivity|]. reflexivity.
  - destruct He as (-> & Hstop). rewrite N.add_0_l.
    destruct rest as [|b tl].
    + (* the whole input *)
      cbn [andb negb]. rewrite app_nil_r. split; [exact Ht|]. exists k0. split; [exact Hg|].
      assert (nlen (skipn (N.to_nat k0) rem) = 0) by (rewrite <- Hr; reflexivity).
      rewrite nlen_skipn in *. lia.
    + assert (Hlt : k0 < nlen rem).
      { assert (nlen (skipn (N.to_nat k0) rem) = nlen tl + 1) by (rewrite <- Hr; apply nlen_cons).
        rewrite nlen_skipn in *. lia. }
      assert (Hlen : length rem = (N.to_nat k0 + S (length tl))%nat).
      { assert (E : length (skipn (N.to_nat k0) rem) = S (length tl)) by (rewrite <- Hr; reflexivity).
        rewrite skipn_length in E. lia. }
      destruct (N.ltb_spec (spare - text_len cs) 4) as [Hfull|Hroom].
      * (* output full *)
        rewrite app_nil_r. split; [exact Ht|]. exists k0. split; [exact Hg|]. split; [reflexivity|].
        split; [exact Hlt|]. split; [|reflexivity].
        intros _. destruct cs as [|c cs]; [cbn [text_len] in Hfull; lia|].
        pose proof (good_prefix_pos _ (utf16_next_size be) _ _ _ _ Hg). lia.
      * (* one of the three tails *)
        cbn [u16_new w_lead_byte w_surrogate w_pending_bmp].
        destruct (Hstop Hroom) as [E|[(b' & E)|(b0 & b1 & tl' & E & Hh & Htl)]]; [discriminate| |].
        -- inversion E; subst b' tl. clear E.
           rewrite u16_tail_byte by (cbn [length] in Hlen; lia).
           rewrite app_nil_r. split; [exact Ht|]. exists k0. split; [exact Hg|]. split; [reflexivity|].
           split; [exact Hlt|]. rewrite <- Hr. split; [reflexivity|]. split; [reflexivity|]. reflexivity.
        -- inversion E; subst b0 tl. clear E.
           destruct Htl as [->|(c & ->)].
           ++ rewrite u16_tail_high by (cbn [length] in Hlen; try lia; assumption).
              rewrite app_nil_r. split; [exact Ht|]. exists k0. split; [exact Hg|]. split; [reflexivity|].
              split; [exact Hlt|]. rewrite <- Hr. split; [apply next16_high_end; exact Hh|].
              split; [lia|]. reflexivity.
           ++ rewrite u16_tail_high_odd by (cbn [length] in Hlen; try lia; assumption).
              rewrite app_nil_r. split; [exact Ht|]. exists k0. split; [exact Hg|]. split; [reflexivity|].
              split; [exact Hlt|]. rewrite <- Hr. split; [apply next16_high_odd; exact Hh|].
              split; [lia|]. reflexivity.
Qed.

Lemma u16_loop_result : forall be t g input fuel, (decode_fuel input <= fuel)%nat ->
    result_of input (xdecode_loop_impl (u16_step be) fuel u16_new (xtrap_of t g) input)
    = apply_trap t input 0 (pieces (utf16_next be) input) [].
Proof.
  intros be t g input fuel Hf. unfold xdecode_loop_impl.
  apply (xloop_result u16st (u16_step be) (utf16_next be) u16_bnd DECODER_K RESERVE_DIV RESERVE_MIN
           (utf16_next_size be) (utf16_bad_small be) reserve_min_covers_decoder (u16_call_ok be) t g input u16_new fuel);
    [reflexivity|exact Hf].
Qed.
