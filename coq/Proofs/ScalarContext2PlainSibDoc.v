(* C04 in document context, a FOLLOWER behind a PLAIN scalar: the scalar (any allowed presentation, multi-line included) is
   the value of the first pair of a two-pair top-level mapping / the first entry of a two-entry top-level sequence; white
   space (spaces, line feeds) and a line feed separate it from the sibling line at column 0.  Method as for C05
   (Proofs/ScalarContext2Pos.v, ScalarContext2BlockSib.v), on top of [scan_plain_scalar_sib]. *)
From Coq Require Import List NArith ZArith Bool Arith Lia.
Import ListNotations.
Require Import Parser SBase SPrim SDir SScalar SFetch Pipe Drivers TokenGrammar FlowText BlockText ScanFlowProofs ScanBlockProofs ScanFrame TokenGrammarProofs TokenStreamProofs BlockScalar BlockScalarProofs BlockScalarCase FlowFold FlowScalarProofs PlainScalarProofs ScalarContext ScalarContextBlock ScalarContextQuoted ScalarContextFlow ScalarContext2Plain ScalarContext2PlainDoc Positions ScanPos ScanPosPrim ScanPosPlain ScalarContext2Pos ScalarContext2BlockSib ScalarContext2PlainSib.
Open Scope N_scope.
Open Scope mon_scope.

#[local] Arguments N.eqb : simpl nomatch.
#[local] Arguments Nat.max : simpl nomatch.
#[local] Arguments Nat.leb : simpl nomatch.
#[local] Arguments Nat.ltb : simpl nomatch.
#[local] Arguments Nat.sub : simpl nomatch.
#[local] Arguments N.add : simpl never.
#[local] Arguments N.sub : simpl never.
#[local] Arguments N.mul : simpl never.
#[local] Arguments N.ltb : simpl nomatch.
#[local] Arguments N.leb : simpl nomatch.
#[local] Arguments Z.of_N : simpl never.
#[local] Arguments Z.ltb : simpl never.
#[local] Arguments Z.leb : simpl never.
#[local] Arguments Z.eqb : simpl never.
#[local] Arguments Z.add : simpl never.
#[local] Arguments bind {I A B} m f s /.
#[local] Arguments ret {I A} a s /.
#[local] Arguments get {I} s /.
#[local] Arguments put {I} s _ /.
#[local] Arguments modify {I} f s /.
#[local] Arguments gets {I A} f s /.
#[local] Arguments fail {I A} site m _ /.
#[local] Arguments upd {I} s i m t /.
#[local] Arguments set_in {I} i s /.
#[local] Arguments set_mark {I} m s /.
#[local] Arguments set_tokens {I} t s /.
#[local] Arguments set_flags {I} s ss se adj ska ta lws /.
#[local] Arguments set_ska {I} b s /.
#[local] Arguments set_lws {I} b s /.
#[local] Arguments set_adj {I} n s /.
#[local] Arguments set_ta {I} b s /.
#[local] Arguments set_ss {I} b s /.
#[local] Arguments set_se {I} b s /.
#[local] Arguments set_struct {I} s sks ind inds fl tp ifms /.
#[local] Arguments set_sks {I} l s /.
#[local] Arguments set_indent {I} z l s /.
#[local] Arguments set_fl {I} n s /.
#[local] Arguments set_tp {I} n s /.
#[local] Arguments set_ifms {I} l s /.
#[local] Arguments skip_to_next_token : simpl never.
#[local] Arguments stale_simple_keys : simpl never.
#[local] Arguments plain_chunk : simpl never.
#[local] Arguments plain_blanks : simpl never.
#[local] Arguments scan_plain_scalar : simpl never.
#[local] Arguments scan_block_scalar : simpl never.
#[local] Arguments scan_flow_scalar : simpl never.
#[local] Arguments fetch_stream_start : simpl never.
#[local] Arguments fetch_stream_end : simpl never.
#[local] Arguments fetch_directive : simpl never.
#[local] Arguments fetch_document_indicator : simpl never.
#[local] Arguments fetch_flow_collection_start : simpl never.
#[local] Arguments fetch_flow_collection_end : simpl never.
#[local] Arguments fetch_flow_entry : simpl never.
#[local] Arguments fetch_block_entry : simpl never.
#[local] Arguments fetch_key : simpl never.
#[local] Arguments fetch_value : simpl never.
#[local] Arguments fetch_flow_value : simpl never.
#[local] Arguments fetch_anchor : simpl never.
#[local] Arguments fetch_tag : simpl never.
#[local] Arguments fetch_block_scalar : simpl never.
#[local] Arguments fetch_flow_scalar : simpl never.
#[local] Arguments fetch_plain_scalar : simpl never.
#[local] Arguments fetch_next_token : simpl never.
#[local] Arguments fetch_more_tokens : simpl never.
#[local] Arguments next_token : simpl never.
#[local] Arguments scan_all : simpl never.
#[local] Arguments fnt_rest : simpl never.
#[local] Arguments skip_ws_to_eol : simpl never.
#[local] Arguments insert_token : simpl never.
#[local] Arguments need_comp : simpl never.
#[local] Arguments unroll_indent : simpl never.
#[local] Arguments roll_indent : simpl never.
#[local] Arguments roll_one_col_indent : simpl never.
#[local] Arguments unroll_non_block_indents : simpl never.
#[local] Arguments save_simple_key : simpl never.
#[local] Arguments popk : simpl never.
#[local] Arguments ntb : simpl never.

#[local] Arguments saved : simpl never.
#[local] Arguments p_text : simpl never.
#[local] Arguments plain_text : simpl never.
#[local] Arguments plain_render : simpl never.

(* the text of a plain scalar, white space, a line feed, the sibling line *)
Definition ps_text (first : list N) (more : list (brk_layout * list N)) (ws sib : list N) : list N :=
  plain_render first more ++ ws ++ 10 :: sib.

Lemma fetch_plain_case_pos F n first more ws x r l mk q adj ska k ind inds tp lws orig pre0 :
  p_wf n first more = true -> ws_only ws = true -> sib_head x ->
  (0 <= fst (unroll_nb inds ind))%Z -> (fst (unroll_nb inds ind) < Z.of_nat n)%Z -> (fst (unroll_nb inds ind) < Z.of_N (m_col mk))%Z ->
  (2 * length (ps_text first more ws (x :: r)) + 10 <= F)%nat ->
  ((ind =? Z.of_N (m_col mk))%Z = true -> inds <> []) ->
  Forall (fun c => c <> 0) orig -> orig = pre0 ++ plain_render first more ++ ws ++ 10 :: x :: r -> m_index mk = N.of_nat (length pre0) ->
  (m_line mk, m_col mk) = pos_go orig (length pre0) 1 0 ->
  exists l' mk' sp lws' ind' inds',
    fetch_plain_scalar str_ops F (mkb (plain_render first more ++ ws ++ 10 :: x :: r) l mk q adj ska k ind inds tp false lws)
    = Ok (tt, mkb (x :: r) l' mk' (q ++ [(sp, TScalar Plain (plain_text first more))]) adj true (saved ska k ind inds tp q mk) ind' inds' tp false lws')
    /\ nbrel (ind, inds) (ind', inds') /\ m_col mk' = 0 /\ m_line mk < m_line mk'.
Proof.
  intros Hwf Hws Hx Hi0 Hn Hcol HF Hreq Hnn Eo Hidx Hpos.
  unfold fetch_plain_scalar. cbn [bind].
  rewrite (save_key_b _ l mk q adj ska k ind inds tp false lws Hreq). unfold disallow_simple_key. unfold mkb at 1. cbn.
  set (S1 := {| sc_in := {| si_chars := plain_render first more ++ ws ++ 10 :: x :: r; si_look := l |}; sc_mark := mk; sc_tokens := q; sc_stream_start := true;
                sc_stream_end := false; sc_adjacent := adj; sc_ska := false; sc_sks := [saved ska k ind inds tp q mk];
                sc_indent := ind; sc_indents := inds; sc_flow_level := 0; sc_tokens_parsed := tp; sc_token_available := false;
                sc_lws := lws; sc_ifms := [] |}).
  destruct (scan_plain_scalar_sib F n first more ws x r S1 Hwf eq_refl eq_refl Hws Hx Hi0 Hn Hcol HF) as (sp & s' & E & _ & Hin & Hlw & Hska).
  pose proof (Fr_scan_plain_scalar str_ops F S1 _ s' E) as Hfr.
  assert (HM1 : MarkAt orig pre0 S1) by (repeat split; [exact Eo | exact Hidx | exact Hpos]).
  pose proof (pos_scan_plain_scalar orig Hnn F S1 (ex_intro _ pre0 HM1)) as Hp.
  unfold swp in Hp. rewrite E in Hp. destruct Hp as (HM' & _).
  assert (H10 : (hd 0 (x :: r) =? 10) = false).
  { cbn [hd]. destruct Hx as (_ & Hk & _). unfold is_break in Hk. apply orb_false_elim in Hk as [Hk _]. exact Hk. }
  destruct (mark_behind_break orig pre0 S1 s' (pre0 ++ plain_render first more ++ ws) 0 (x :: r) HM1 HM' Hin
              ltac:(rewrite Eo, <- !app_assoc; reflexivity) H10 ltac:(rewrite app_length; apply Nat.le_add_r)) as [Hc Hl].
  rewrite E. cbn.
  destruct s' as [[chars look] mk' toks ss se adj' ska' sks' ind' inds' fl tp' ta' lws' ifms'].
  unfold frame in Hfr. cbn in Hfr, Hin, Hc, Hl, Hska, Hlw.
  destruct Hfr as (A1 & A2 & A3 & A4 & A5 & A6 & A7 & A8 & A9 & A10 & A11). subst.
  exists look, mk', sp, true, ind', inds'. split; [|split; [exact A11|split; [exact Hc|exact Hl]]].
  unfold push_tok, mkb. cbn. reflexivity.
Qed.

Lemma ps_text_cons first more ws sib x t : first = x :: t -> ps_text first more ws sib = x :: t ++ src_more more ++ ws ++ 10 :: sib.
Proof. intros ->. unfold ps_text, plain_render. fold (src_more more). rewrite <- app_assoc. reflexivity. Qed.

Lemma wch_sib_head c : wch c = true -> sib_head c.
Proof.
  intros H. destruct (wch_facts c H) as (Hb & _). destruct (blankz_facts c Hb) as (H32 & H9 & H10 & H13 & H0).
  unfold sib_head, is_blank, is_break. rewrite H32, H9, H10, H13, H0. repeat split.
Qed.

Lemma wch_nobreak w : forallb wch w = true -> forallb (fun c => negb (is_break c)) w = true.
Proof.
  intros H. apply forallb_forall. intros c Hc. rewrite forallb_forall in H. destruct (wch_facts c (H c Hc)) as (Hb & _).
  destruct (blankz_facts c Hb) as (_ & _ & E10 & E13 & _). unfold is_break. rewrite E10, E13. reflexivity.
Qed.

(* T-value with a sibling pair:  kw: <plain scalar> ws LF kw2: w tail *)
Theorem scan_plain_value_sib kw n first more ws kw2 w tail :
  key_ok kw = true -> p_wf n first more = true -> (1 <= n)%nat -> ws_only ws = true ->
  key_ok kw2 = true -> sib_wf w = true -> ws_only tail = true ->
  forallb (fun c => negb (c =? 0)) (kw ++ 58 :: 32 :: ps_text first more ws (kw2 ++ 58 :: 32 :: w ++ tail)) = true ->
  exists toks, scan_str (kw ++ 58 :: 32 :: ps_text first more ws (kw2 ++ 58 :: 32 :: w ++ tail)) = (toks, SEnded) /\
               map snd toks = wrap false false [TBlockMappingStart; TKey; TScalar Plain kw; TValue; p_tok first more;
                                                TKey; TScalar Plain kw2; TValue; TScalar Plain w; TBlockEnd].
Proof.
  intros Hkw Hwf Hn Hws Hkw2 Hw Htail Hnul.
  destruct (key_ok_word kw Hkw) as (c0 & w0 & Ekw & Hw0 & Hlen0).
  destruct (key_ok_word kw2 Hkw2) as (c2 & w2 & Ekw2 & Hw2 & Hlen2).
  destruct (sib_wf_facts w Hw) as [Hpw _].
  assert (Hwf0 := Hwf). unfold p_wf, plain_layout_wf in Hwf0. apply andb_prop in Hwf0 as [Hwf0 _]. apply andb_prop in Hwf0 as [Hfirst Hline].
  destruct (plain_first_facts first Hfirst Hline) as (x & t & Efirst & Hfo & Hnz & _ & _ & Hhd).
  pose proof Hw2 as Hw2'. cbn [forallb] in Hw2'. apply andb_prop in Hw2' as [Hc2 _]. destruct (wch_first_ok c2 Hc2) as [Hfo2 Hnz2].
  subst kw kw2. cbn [app] in *.
  set (sib := c2 :: w2 ++ 58 :: 32 :: w ++ tail) in *.
  set (body := ps_text first more ws sib) in *.
  set (txt := c0 :: w0 ++ 58 :: 32 :: body) in *. set (F := (2 * length txt + 10)%nat).
  assert (Hlt : (length w0 + 3 + length body = length txt)%nat).
  { unfold txt. cbn [length]. rewrite app_length. cbn [length]. lia. }
  pose proof (start_at_tok_p txt) as Hat. unfold txt in Hat at 2.
  destruct (key_at_tok_p F (start_state txt) c0 w0 32 body 0 [] [] true 0 1 Hat Hw0 Hlen0 (or_introl eq_refl) ltac:(constructor)
              ltac:(split; cbn; lia) ltac:(unfold F; lia))
    as (pre & s' & Hd & Hmp & Hat').
  cbn [joined length repeat app] in Hat', Hmp.
  assert (Ebody : body = x :: t ++ src_more more ++ ws ++ 10 :: sib) by (apply ps_text_cons, Efirst).
  rewrite Ebody in Hat'.
  destruct (arrive_blank_p F s' x _ [N.of_nat 0] _ _ _ Hat' Hfo Hnz ltac:(unfold F; lia))
    as (Hcanon & l' & adj & ska & k & tp & top' & rest' & [= <- <-] & Hc1 & Hl' & Hk & Hf).
  rewrite (rest_plain_s F _ x (t ++ src_more more ++ ws ++ 10 :: sib)) in Hf;
    [ | reflexivity | exact Hl' | reflexivity | apply Z.ltb_ge; cbn [sc_mark sc_indent mkb mkm m_col Z.of_N N.of_nat]; lia | | apply Hhd ].
  2:{ cbn [sc_mark mkb mkm m_col]. intros Ec. exfalso. unfold wlen in Ec. lia. }
  rewrite <- Ebody in Hf. change (N.of_nat 0) with 0 in *.
  set (pre0 := c0 :: w0 ++ [58; 32]).
  assert (Eo : txt = pre0 ++ plain_render first more ++ ws ++ 10 :: sib) by (unfold txt, pre0, body, ps_text; cbn [app]; rewrite <- app_assoc; reflexivity).
  assert (Hpl : length pre0 = (length w0 + 3)%nat) by (unfold pre0; cbn [length]; rewrite app_length; cbn [length]; lia).
  assert (Hnb : forallb (fun c => negb (is_break c)) pre0 = true).
  { unfold pre0. change (c0 :: w0 ++ [58; 32]) with ((c0 :: w0) ++ [58; 32]). rewrite forallb_app, (wch_nobreak _ Hw0). reflexivity. }
  destruct (fetch_plain_case_pos F n first more ws c2 (w2 ++ 58 :: 32 :: w ++ tail) l'
              (mkm (0 + wlen c0 w0 + 1 + 1) 1 (0 + wlen c0 w0 + 1 + 1)) [] adj ska k
              (Z.of_N 0 + 1)%Z (nbl (Z.of_N 0) :: snd (stk [0])) tp false txt pre0 Hwf Hws (wch_sib_head c2 Hc2)
              ltac:(rewrite unroll_nb_below; cbn; lia) ltac:(rewrite unroll_nb_below; cbn [stk fst]; lia)
              ltac:(rewrite unroll_nb_below; cbn [stk fst m_col mkm]; unfold wlen; lia)
              ltac:(fold sib; fold body; unfold F; lia) ltac:(discriminate) (forallb_nonul _ Hnul) Eo
              ltac:(cbn [m_index mkm]; rewrite Hpl; unfold wlen; cbn [length]; lia)
              ltac:(rewrite Eo, (pos_go_nobreak pre0 _ 1 0 Hnb); cbn [m_line m_col mkm]; rewrite Hpl; unfold wlen; cbn [length]; f_equal; lia))
    as (l2 & mk2 & sp & lws2 & ind2 & inds2 & E & Hnbr & Hcol & Hline2).
  unfold body, ps_text, sib in Hf. rewrite E in Hf. cbn [app] in Hf.
  destruct mk2 as [i2 ln2 c2']. cbn [m_col m_line mkm] in Hcol, Hline2. subst c2'.
  change {| m_index := i2; m_line := ln2; m_col := 0 |} with (mkm i2 ln2 0) in Hf.
  set (K := saved ska k (Z.of_N 0 + 1)%Z (nbl (Z.of_N 0) :: snd (stk [0])) tp []
                  (mkm (0 + wlen c0 w0 + 1 + 1) 1 (0 + wlen c0 w0 + 1 + 1))) in *.
  assert (HK : (stale_k K (mkm i2 ln2 0) && sk_required K) = false /\ sk_possible (staled K (mkm i2 ln2 0)) = false).
  { unfold K, saved. destruct ska.
    - unfold staled, stale_k, newkey, req. cbn [sk_possible sk_required sk_mark m_line m_index mkm nbl in_needs_block_end andb].
      replace (1 <? ln2) with true by (symmetry; apply N.ltb_lt; exact Hline2). cbn [orb andb]. rewrite andb_false_r. split; reflexivity.
    - unfold staled. rewrite (stale_k_not_possible k _ Hk). split; [reflexivity|exact Hk]. }
  destruct HK as [HK1 HK2].
  assert (Htxt : (S (length w2 + S (S (length w + length tail))) + length pre0 <= length txt)%nat).
  { rewrite Eo, !app_length. cbn [length]. unfold sib. cbn [length]. rewrite !app_length. cbn [length]. rewrite app_length. lia. }
  destruct Hfo2 as (H32 & H9 & H10 & H13 & H35).
  pose proof (sibling_tail F s' l2 i2 ln2 _ adj K ind2 inds2 tp lws2 c2 (w2 ++ 58 :: 32 :: w ++ tail)
                ([TKey; TScalar Plain (c2 :: w2); TValue] ++ p_tok w [] :: repeat TBlockEnd 1 ++ [TStreamEnd])
                ltac:(unfold F; lia) Hcanon Hf ltac:(discriminate) HK1 HK2 (nbrel_below0 _ _ Hnbr) (conj H32 (conj H9 (conj H10 (conj H13 H35))))) as He.
  assert (He' : ends_with F s' (p_tok first more :: [TKey; TScalar Plain (c2 :: w2); TValue] ++ p_tok w [] :: repeat TBlockEnd 1 ++ [TStreamEnd])).
  { apply He. intros B HatB.
    destruct (key_at_tok F B c2 w2 32 (w ++ tail) 0 [] [0] false HatB Hw2 Hlen2 (or_introl eq_refl) ltac:(constructor)
                ltac:(exists []; reflexivity) ltac:(unfold F; lia)) as (pre2 & s2 & Hd2 & Hmp2 & Hat2).
    cbn [joined length repeat app] in Hat2, Hmp2. rewrite <- (p_text_nil w tail) in Hat2.
    pose proof (plain_end_below F s2 1 w [] tail 0 [] Hat2 ltac:(cbn; lia) Hpw Htail
                  ltac:(rewrite p_text_nil, app_length; unfold F; lia)) as He2.
    pose proof (ends_with_delivers F B pre2 s2 _ Hd2 He2) as He3. rewrite Hmp2 in He3. exact He3. }
  assert (Hlp : length pre = 4%nat) by (pose proof (f_equal (@length _) Hmp) as Hl; rewrite map_length in Hl; exact Hl).
  destruct (scan_str_units txt pre s' _ Hd He' ltac:(rewrite Hlp; cbn [length repeat app]; lia)) as (toks & Es & Hm).
  exists toks. split; [exact Es|]. rewrite Hm, Hmp. unfold p_tok. rewrite (plain_text_nil w). reflexivity.
Qed.

(* T-entry with a sibling entry:  - <plain scalar> ws LF - w tail *)
Theorem scan_plain_entry_sib n first more ws w tail :
  p_wf n first more = true -> (1 <= n)%nat -> ws_only ws = true -> sib_wf w = true -> ws_only tail = true ->
  forallb (fun c => negb (c =? 0)) (45 :: 32 :: ps_text first more ws (45 :: 32 :: w ++ tail)) = true ->
  exists toks, scan_str (45 :: 32 :: ps_text first more ws (45 :: 32 :: w ++ tail)) = (toks, SEnded) /\
               map snd toks = wrap false false [TBlockSequenceStart; TBlockEntry; p_tok first more; TBlockEntry; TScalar Plain w; TBlockEnd].
Proof.
  intros Hwf Hn Hws Hw Htail Hnul.
  destruct (sib_wf_facts w Hw) as [Hpw _].
  assert (Hwf0 := Hwf). unfold p_wf, plain_layout_wf in Hwf0. apply andb_prop in Hwf0 as [Hwf0 _]. apply andb_prop in Hwf0 as [Hfirst Hline].
  destruct (plain_first_facts first Hfirst Hline) as (x & t & Efirst & Hfo & Hnz & Hbr & Hfl & Hhd).
  assert (Hwf1 := Hpw). unfold p_wf, plain_layout_wf in Hwf1. apply andb_prop in Hwf1 as [Hwf1 _]. apply andb_prop in Hwf1 as [Hfirstw Hlinew].
  destruct (plain_first_facts w Hfirstw Hlinew) as (xw & tw & Ew & Hfow & Hnzw & Hbrw & Hflw & _).
  set (sib := 45 :: 32 :: w ++ tail) in *.
  set (body := ps_text first more ws sib) in *.
  set (txt := 45 :: 32 :: body) in *. set (F := (2 * length txt + 10)%nat).
  assert (Ebody : body = x :: t ++ src_more more ++ ws ++ 10 :: sib) by (apply ps_text_cons, Efirst).
  pose proof (start_at_tok_p txt) as Hat. unfold txt in Hat at 2. rewrite Ebody in Hat.
  destruct (dash_sp_p F (start_state txt) x _ 0 [] [] true 0 1 Hat ltac:(constructor) ltac:(split; cbn; lia)
              (first_ok_not_ws _ Hfo) Hbr Hfl ltac:(unfold F; lia))
    as (pre & s' & Hd & Hmp & Hat').
  cbn [joined Nat.add] in Hat'. change (N.of_nat 0) with 0 in Hat'.
  assert (Hbase : base_le [0] (Z.of_nat 2)) by (cbn; lia).
  destruct (arrive_tok_p F s' x _ 2 [] [0] (0 + 2) 1 Hat' Hfo Hnz ltac:(constructor) Hbase ltac:(unfold F; lia))
    as (Hcanon & l' & adj & k & tp & lws & Hl' & Hk & Hf).
  cbn [length repeat] in Hf.
  rewrite (rest_plain_s F _ x (t ++ src_more more ++ ws ++ 10 :: sib)) in Hf;
    [ | reflexivity | exact Hl' | reflexivity | apply col_ge_top, Hbase | | apply Hhd ].
  2:{ cbn [sc_mark mkb mkm m_col]. intros Ec. discriminate Ec. }
  rewrite <- Ebody in Hf.
  assert (Eo : txt = [45; 32] ++ plain_render first more ++ ws ++ 10 :: sib) by reflexivity.
  destruct (fetch_plain_case_pos F n first more ws 45 (32 :: w ++ tail) l' (mkm (0 + 2) 1 (N.of_nat 2)) [] adj true k
              (fst (stk [0])) (snd (stk [0])) tp lws txt [45; 32] Hwf Hws ltac:(repeat split; reflexivity)
              ltac:(rewrite unroll_nb_stk; cbn; lia) ltac:(rewrite unroll_nb_stk; cbn [stk fst]; lia)
              ltac:(rewrite unroll_nb_stk; cbn [stk fst m_col mkm]; lia)
              ltac:(fold sib; fold body; unfold F, txt; cbn [length]; lia) (stk_req_ne [0] (N.of_nat 2)) (forallb_nonul _ Hnul) Eo
              eq_refl ltac:(rewrite Eo, (pos_go_nobreak [45; 32] _ 1 0 eq_refl); reflexivity))
    as (l2 & mk2 & sp & lws2 & ind2 & inds2 & E & Hnbr & Hcol & Hline2).
  unfold body, ps_text, sib in Hf. rewrite E in Hf. cbn [app] in Hf.
  destruct mk2 as [i2 ln2 c2']. cbn [m_col m_line mkm] in Hcol, Hline2. subst c2'.
  change {| m_index := i2; m_line := ln2; m_col := 0 |} with (mkm i2 ln2 0) in Hf.
  set (K := saved true k (fst (stk [0])) (snd (stk [0])) tp [] (mkm (0 + 2) 1 (N.of_nat 2))) in *.
  assert (HK : (stale_k K (mkm i2 ln2 0) && sk_required K) = false /\ sk_possible (staled K (mkm i2 ln2 0)) = false).
  { unfold K, saved, staled, stale_k, newkey, req. cbn [sk_possible sk_required sk_mark m_line m_index m_col mkm andb stk fst snd].
    replace (1 <? ln2) with true by (symmetry; apply N.ltb_lt; exact Hline2). cbn [orb andb].
    change (Z.of_N 0 =? Z.of_N (N.of_nat 2))%Z with false. cbn [andb]. split; reflexivity. }
  destruct HK as [HK1 HK2].
  assert (Htxt : (S (S (length w + length tail)) + 2 <= length txt)%nat).
  { rewrite Eo, !app_length. cbn [length]. unfold sib. cbn [length]. rewrite !app_length. lia. }
  pose proof (sibling_tail F s' l2 i2 ln2 _ adj K ind2 inds2 tp lws2 45 (32 :: w ++ tail)
                ([TBlockEntry] ++ p_tok w [] :: repeat TBlockEnd 1 ++ [TStreamEnd])
                ltac:(unfold F; lia) Hcanon Hf ltac:(discriminate) HK1 HK2 (nbrel_stk0 _ _ Hnbr) ltac:(repeat split; reflexivity)) as He.
  assert (He' : ends_with F s' (p_tok first more :: [TBlockEntry] ++ p_tok w [] :: repeat TBlockEnd 1 ++ [TStreamEnd])).
  { apply He. intros B HatB. rewrite Ew in HatB. cbn [app] in HatB.
    destruct (dash_sp F B xw (tw ++ tail) 0 [] [0] false (or_introl HatB) ltac:(constructor) ltac:(exists []; reflexivity)
                (first_ok_not_ws xw Hfow) Hbrw Hflw ltac:(unfold F; lia)) as (pre2 & s2 & Hd2 & Hmp2 & Hat2).
    cbn [joined Nat.add length repeat app dash_toks] in Hat2, Hmp2.
    change (xw :: tw ++ tail) with ((xw :: tw) ++ tail) in Hat2. rewrite <- Ew, <- (p_text_nil w tail) in Hat2.
    pose proof (plain_end_tok F s2 1 w [] tail 2 [0] Hat2 ltac:(cbn; lia) ltac:(cbn; lia) Hpw Htail ltac:(discriminate)
                  ltac:(rewrite p_text_nil, app_length; unfold F; lia)) as He2.
    pose proof (ends_with_delivers F B pre2 s2 _ Hd2 He2) as He3. rewrite Hmp2 in He3. exact He3. }
  assert (Hlp : length pre = 2%nat) by (pose proof (f_equal (@length _) Hmp) as Hl; rewrite map_length in Hl; exact Hl).
  destruct (scan_str_units txt pre s' _ Hd He' ltac:(rewrite Hlp; cbn [length repeat app]; lia)) as (toks & Es & Hm).
  exists toks. split; [exact Es|]. rewrite Hm, Hmp. unfold p_tok. rewrite (plain_text_nil w). reflexivity.
Qed.

(* ---------- text -> events ---------- *)
Theorem run_plain_value_sib kw n first more ws kw2 w tail :
  key_ok kw = true -> p_wf n first more = true -> (1 <= n)%nat -> ws_only ws = true ->
  key_ok kw2 = true -> sib_wf w = true -> ws_only tail = true ->
  forallb (fun c => negb (c =? 0)) (kw ++ 58 :: 32 :: ps_text first more ws (kw2 ++ 58 :: 32 :: w ++ tail)) = true ->
  map fst (fst (run_str (kw ++ 58 :: 32 :: ps_text first more ws (kw2 ++ 58 :: 32 :: w ++ tail))))
  = [EStreamStart; EDocumentStart false; EMappingStart 0 None; EScalar kw Plain 0 None; EScalar (plain_text first more) Plain 0 None;
     EScalar kw2 Plain 0 None; EScalar w Plain 0 None; EMappingEnd; EDocumentEnd; EStreamEnd]
  /\ snd (run_str (kw ++ 58 :: 32 :: ps_text first more ws (kw2 ++ 58 :: 32 :: w ++ tail))) = PDone.
Proof.
  intros Hkw Hwf Hn Hws Hkw2 Hw Htail Hnul.
  destruct (scan_plain_value_sib kw n first more ws kw2 w tail Hkw Hwf Hn Hws Hkw2 Hw Htail Hnul) as (toks & Es & Hm).
  exact (run_of_scan _ (LBMap no_props [(true, lword kw, (true, p_node first more)); (true, lword kw2, (true, lword w))])
           toks Es Hm eq_refl eq_refl ltac:(cbn; lia)).
Qed.

Theorem run_plain_entry_sib n first more ws w tail :
  p_wf n first more = true -> (1 <= n)%nat -> ws_only ws = true -> sib_wf w = true -> ws_only tail = true ->
  forallb (fun c => negb (c =? 0)) (45 :: 32 :: ps_text first more ws (45 :: 32 :: w ++ tail)) = true ->
  map fst (fst (run_str (45 :: 32 :: ps_text first more ws (45 :: 32 :: w ++ tail))))
  = [EStreamStart; EDocumentStart false; ESequenceStart 0 None; EScalar (plain_text first more) Plain 0 None; EScalar w Plain 0 None;
     ESequenceEnd; EDocumentEnd; EStreamEnd]
  /\ snd (run_str (45 :: 32 :: ps_text first more ws (45 :: 32 :: w ++ tail))) = PDone.
Proof.
  intros Hwf Hn Hws Hw Htail Hnul.
  destruct (scan_plain_entry_sib n first more ws w tail Hwf Hn Hws Hw Htail Hnul) as (toks & Es & Hm).
  exact (run_of_scan _ (LBSeq no_props [p_node first more; lword w]) toks Es Hm eq_refl eq_refl ltac:(cbn; lia)).
Qed.
