(* C13, scanner half (6): the whole scanner model on a JSON text.  StreamStart, the value at the top of the document
   (flow level 0), the stale / pending root key, StreamEnd, and the hand-out of the queued tokens by next_token. *)
From Coq Require Import List NArith ZArith Bool Arith Lia.
Import ListNotations.
Require Import Parser SBase SPrim SDir SScalar SFetch Pipe Resolver CoreSchema Json FlowFold FlowScalarProofs PlainScalarProofs QuotedFoldProofs
               JsonScanBase JsonScanTok JsonScanStr JsonScanPlain JsonWords JsonScanRun.
Open Scope N_scope.
Open Scope mon_scope.

Definition m0 : marker := {| m_index := 0; m_line := 1; m_col := 0 |}.

Lemma scan_all_S F fuel s acc :
  scan_all str_ops F (S fuel) s acc =
  match next_token str_ops F s with
  | Ok (Some t, s') => scan_all str_ops F fuel s' (t :: acc)
  | Ok (None, _) => (rev acc, SEnded)
  | Err e m => (rev acc, SError e m)
  | Panic n => (rev acc, SPanic n)
  | OutOfFuel => (rev acc, SFuel)
  end.
Proof. reflexivity. Qed.

Lemma first_token F (chars : list N) : (2 <= F)%nat ->
  next_token str_ops F (init_sc {| si_chars := chars; si_look := 0 |})
  = Ok (Some (span_empty m0, TStreamStart), mkst chars 1 m0 [] 0 true [dummy_key] 0 1 false true []).
Proof. intros HF. destruct F as [|[|F]]; [lia|lia|]. reflexivity. Qed.

(* ---------- the value at the top of the document ---------- *)
Definition top_done (len0 : nat) (v : jvalue) (k : nat) (s' : sc strin) : Prop :=
  exists w2' l' mk' adj' ska' lws' km' toks,
    s' = mkst w2' l' mk' toks adj' ska' [skey true 1 km'] 0 1 false lws' []
    /\ wsb w2' = true /\ map snd toks = json_tokens v /\ toks <> []
    /\ (1 <= k)%nat /\ (k + length w2' <= len0)%nat /\ (length toks <= 3 * k)%nat.

Lemma top_plain v t : jword t = true -> json_tokens v = [TScalar Plain t] ->
  forall F w0 w2, wsb w0 = true -> wsb w2 = true -> (2 * length (w0 ++ t ++ w2) + 10 <= F)%nat ->
  runs F (mkst (w0 ++ t ++ w2) 1 m0 [] 0 true [dummy_key] 0 1 false true []) (top_done (length (w0 ++ t ++ w2)) v).
Proof.
  intros Hj Htok F w0 w2 Hw0 Hw2 HF. destruct t as [|c wd]; [discriminate|].
  destruct (fnt_word F c wd w0 w2 [] 1%nat m0 [] 0 true false 0 mk0 [] 0 1 false true [] Hj Hw0 Hw2) as
    (l' & mk' & lws' & ska' & sp & p' & tn' & km' & E & Hkey); [split; reflexivity|reflexivity|len|len|right; repeat constructor|].
  destruct (Hkey eq_refl) as [-> ->]. rewrite app_nil_r in E.
  eapply runs_step; [apply need_empty|exact E|].
  apply runs_here. exists [], l', mk', 0, ska', lws', km', [(sp, TScalar Plain (c :: wd))].
  rewrite Htok. repeat split; auto; try discriminate; len.
Qed.

Lemma top_string s t : str_text s t ->
  forall F w0 w2, wsb w0 = true -> wsb w2 = true -> (2 * length (w0 ++ (34%N :: t ++ [34%N]) ++ w2) + 10 <= F)%nat ->
  runs F (mkst (w0 ++ (34 :: t ++ [34]) ++ w2) 1 m0 [] 0 true [dummy_key] 0 1 false true []) (top_done (length (w0 ++ (34%N :: t ++ [34%N]) ++ w2)) (JStr s)).
Proof.
  intros Hst F w0 w2 Hw0 Hw2 HF.
  destruct (str_items s t Hst) as (items & Hwf & Hsrc & Hval & Hlen).
  assert (Echars : w0 ++ (34 :: t ++ [34]) ++ w2 = w0 ++ 34 :: flat_map item_src items ++ 34 :: w2 ++ []).
  { rewrite Hsrc. repeat (rewrite <- app_assoc || (progress cbn [app])). rewrite app_nil_r. reflexivity. }
  rewrite Echars in *.
  destruct (fnt_string F items w0 w2 [] 1%nat m0 [] 0 true false 0 mk0 [] 0 1 false true [] Hwf Hw0 Hw2) as
    (l' & mk' & lws' & ska' & sp & p' & tn' & km' & E & _ & Hkey); [split; reflexivity|reflexivity|rewrite <- Hsrc in *; len|rewrite <- Hsrc in *; len|len|right; repeat constructor|].
  destruct (Hkey eq_refl) as [-> ->].
  eapply runs_step; [apply need_empty|exact E|].
  apply runs_here. exists [], l', mk', (m_index mk'), ska', lws', km', [(sp, TScalar DoubleQuoted (map item_val items))].
  rewrite Hval. repeat split; auto; try discriminate; len.
Qed.

Lemma top_coll v t : CollScan v t -> (json_depth v <= 255)%nat ->
  forall F w0 w2, wsb w0 = true -> wsb w2 = true -> (2 * length (w0 ++ t ++ w2) + 10 <= F)%nat ->
  runs F (mkst (w0 ++ t ++ w2) 1 m0 [] 0 true [dummy_key] 0 1 false true []) (top_done (length (w0 ++ t ++ w2)) v).
Proof.
  intros Hc Hd F w0 w2 Hw0 Hw2 HF.
  pose proof (Hc F w0 w2 [] 1%nat m0 [] 0 true false 0 mk0 [] 0 1 true [] Hw0 Hw2) as R.
  rewrite !app_nil_r in R.
  eapply runs_mono; [apply R|].
  - right. repeat split; reflexivity.
  - lia.
  - exact HF.
  - intros k s' (w1' & l' & mk' & adj' & ska' & lws' & p' & tn' & km' & toks & -> & A & B & C & D & E & G & K).
    destruct (K eq_refl) as [-> ->]. rewrite !app_nil_r in *. cbn [app length N.of_nat] in *. rewrite N.add_0_r.
    exists w1', l', mk', adj', ska', lws', km', toks. repeat split; auto.
    intros ->. destruct v; discriminate.
Qed.

(* ---------- the root key, the end of the stream ---------- *)
Arguments need_comp : simpl never.

Lemma stale_root cs l mk q adj ska p km tp ta lws :
  exists p', stale_simple_keys (mkst cs l mk q adj ska [skey p 1 km] 0 tp ta lws [])
             = Ok (tt, mkst cs l mk q adj ska [skey p' 1 km] 0 tp ta lws []) /\ (p = false -> p' = false).
Proof.
  unfold stale_simple_keys, mkst, skey. cbn. rewrite !andb_false_r. cbn.
  destruct p; cbn.
  - destruct ((m_line km <? m_line mk) || (m_index km + SIMPLE_KEY_MAX <? m_index mk)); eexists; split; try reflexivity; discriminate.
  - exists false. split; reflexivity.
Qed.

Lemma need_root cs l mk t r adj ska p km ta lws :
  exists p', need_comp (mkst cs l mk (t :: r) adj ska [skey p 1 km] 0 1 ta lws [])
             = Ok (p', mkst cs l mk (t :: r) adj ska [skey p' 1 km] 0 1 ta lws []).
Proof.
  destruct (stale_root cs l mk (t :: r) adj ska p km 1 ta lws) as (p' & E & _). exists p'.
  unfold need_comp. unfold mkst at 1. cbn [bind get sc_tokens]. fold (mkst cs l mk (t :: r) adj ska [skey p 1 km] 0 1 ta lws []).
  rewrite E. unfold mkst, skey. cbn. rewrite andb_true_r, orb_false_r. reflexivity.
Qed.

Lemma need_idle cs l mk t r adj ska tn km tp ta lws :
  need_comp (mkst cs l mk (t :: r) adj ska [skey false tn km] 0 tp ta lws [])
  = Ok (false, mkst cs l mk (t :: r) adj ska [skey false tn km] 0 tp ta lws []).
Proof. reflexivity. Qed.

Lemma final_fetch F w l mk q adj ska p km tp lws : wsb w = true -> (length w < F)%nat ->
  exists l' mk' lws' sp,
    fetch_next_token str_ops F (mkst w l mk q adj ska [skey p 1 km] 0 tp false lws [])
    = Ok (tt, mkst [] l' mk' (q ++ [(sp, TStreamEnd)]) adj false [skey false 1 km] 0 tp false lws' []).
Proof.
  intros Hw HF.
  destruct (skip_ws_mk (length w) w (le_n _) F [] (Nat.max l 1) mk q adj ska [skey p 1 km] 0 tp false lws [] HF Hw) as
    (l1 & mk1 & lws1 & ska1 & E1 & _); [split; reflexivity|]. rewrite app_nil_r in E1.
  destruct (stale_root [] l1 mk1 q adj ska1 p km tp false lws1) as (p' & E2 & _).
  set (mk' := if m_col mk1 =? 0 then mk1 else {| m_index := m_index mk1; m_line := m_line mk1 + 1; m_col := 0 |}).
  exists (Nat.max l1 4), mk', lws1, (span_empty mk').
  rewrite fnt_unfold. unfold mkst at 1. cbn. fold (mkst w (Nat.max l 1) mk q adj ska [skey p 1 km] 0 tp false lws []).
  rewrite E1. cbn [bind]. rewrite E2. unfold mkst, skey. cbn. rewrite col_not_lt_indent. cbn.
  unfold fetch_stream_end. cbn. rewrite ?andb_false_r. cbn. unfold mk'.
  destruct (m_col mk1 =? 0); cbn; reflexivity.
Qed.

(* ---------- handing out the queued tokens ---------- *)
Lemma idle_next F t r cs l mk adj ska km tp ta lws : (1 <= F)%nat -> snd t <> TStreamEnd ->
  next_token str_ops F (mkst cs l mk (t :: r) adj ska [skey false 1 km] 0 tp ta lws [])
  = Ok (Some t, mkst cs l mk r adj ska [skey false 1 km] 0 (tp + 1) false lws []).
Proof.
  intros HF Ht. destruct F as [|F]; [lia|]. unfold next_token. unfold mkst at 1. cbn [bind get sc_stream_end sc_token_available].
  destruct ta.
  - unfold mkst. cbn. destruct t as [sp k]. cbn [snd] in Ht. destruct k; try congruence; reflexivity.
  - rewrite fmt_S. fold (mkst cs l mk (t :: r) adj ska [skey false 1 km] 0 tp false lws []).
    cbn [bind ret]. rewrite need_idle. unfold mkst. cbn.
    destruct t as [sp k]. cbn [snd] in Ht. destruct k; try congruence; reflexivity.
Qed.

Lemma drain F ts : forall r cs l mk adj ska km tp ta lws acc fuel,
  (1 <= F)%nat -> Forall (fun t => snd t <> TStreamEnd) ts ->
  scan_all str_ops F (length ts + fuel) (mkst cs l mk (ts ++ r) adj ska [skey false 1 km] 0 tp ta lws []) acc
  = scan_all str_ops F fuel (mkst cs l mk r adj ska [skey false 1 km] 0 (tp + N.of_nat (length ts))
                               (match ts with [] => ta | _ => false end) lws []) (rev ts ++ acc).
Proof.
  induction ts as [|t ts IH]; intros r cs l mk adj ska km tp ta lws acc fuel HF Hts.
  - cbn [length plus app rev N.of_nat]. rewrite N.add_0_r. reflexivity.
  - inversion Hts as [|? ? Ht Hts']; subst.
    cbn [length plus app]. rewrite scan_all_S, (idle_next F t (ts ++ r)) by assumption. cbv beta iota.
    etransitivity; [exact (IH r cs l mk adj ska km (tp + 1) false lws (t :: acc) fuel HF Hts')|].
    cbn [rev]. rewrite <- app_assoc. cbn [app].
    replace (tp + 1 + N.of_nat (length ts)) with (tp + N.of_nat (S (length ts))) by lia.
    destruct ts; reflexivity.
Qed.

Lemma end_A F l mk sp adj km tp ta lws acc fuel : (1 <= F)%nat ->
  scan_all str_ops F (S (S fuel)) (mkst [] l mk [(sp, TStreamEnd)] adj false [skey false 1 km] 0 tp ta lws []) acc
  = (rev ((sp, TStreamEnd) :: acc), SEnded).
Proof.
  intros HF. destruct F as [|F]; [lia|].
  rewrite scan_all_S. unfold next_token. unfold mkst at 1. cbn [bind get sc_stream_end sc_token_available]. destruct ta.
  - unfold mkst. cbn. rewrite scan_all_S. unfold next_token. cbn. reflexivity.
  - rewrite fmt_S. fold (mkst [] l mk [(sp, TStreamEnd)] adj false [skey false 1 km] 0 tp false lws []).
    cbn [bind ret]. rewrite need_idle. unfold mkst. cbn. rewrite scan_all_S. unfold next_token. cbn. reflexivity.
Qed.

Lemma end_B F w l mk adj ska km tp lws acc fuel : wsb w = true -> (length w + 2 <= F)%nat ->
  exists sp,
  scan_all str_ops F (S (S fuel)) (mkst w l mk [] adj ska [skey false 1 km] 0 tp false lws []) acc
  = (rev ((sp, TStreamEnd) :: acc), SEnded).
Proof.
  intros Hw HF. destruct (final_fetch F w l mk [] adj ska false km tp lws Hw ltac:(lia)) as (l' & mk' & lws' & sp & E).
  exists sp. destruct F as [|[|F]]; [lia|lia|].
  rewrite scan_all_S. unfold next_token. unfold mkst at 1. cbn [bind get sc_stream_end sc_token_available].
  fold (mkst w l mk [] adj ska [skey false 1 km] 0 tp false lws []).
  rewrite fmt_S. cbn [bind ret]. rewrite need_empty. cbn [bind ret]. rewrite E. cbn [app].
  rewrite fmt_S. cbn [bind ret]. rewrite need_idle. unfold mkst. cbn.
  rewrite scan_all_S. unfold next_token. cbn. reflexivity.
Qed.

Lemma next_token_fmt F (s s' : sc strin) :
  sc_stream_end s = false -> sc_token_available s = false ->
  fetch_more_tokens str_ops F F s = Ok (tt, s') ->
  sc_stream_end s' = false -> sc_token_available s' = true ->
  next_token str_ops F s = next_token str_ops F s'.
Proof.
  intros H1 H2 H3 H4 H5. unfold next_token. cbn [bind get]. rewrite H1, H4. cbn [bind ret]. rewrite H2, H5. cbn [bind ret]. rewrite H3. reflexivity.
Qed.

(* ---------- no token of a JSON value is StreamEnd ---------- *)
Definition not_se (k : tok) : bool := match k with TStreamEnd => false | _ => true end.
Lemma forallb_flat_map {A B} (p : B -> bool) (g : A -> list B) l : forallb p (flat_map g l) = forallb (fun x => forallb p (g x)) l.
Proof. induction l as [|x l IH]; cbn [flat_map forallb]; [reflexivity|]. rewrite forallb_app, IH. reflexivity. Qed.

Lemma json_tokens_no_se : forall v, forallb not_se (json_tokens v) = true.
Proof.
  induction v using jvalue_ind3; try reflexivity.
  - rewrite json_tokens_arr. cbn [forallb not_se andb]. rewrite forallb_app. cbn [forallb not_se]. rewrite andb_true_r.
    destruct H as [|x r Hx Hr]; [reflexivity|]. cbn [etoks]. rewrite forallb_app, Hx, forallb_flat_map. cbn [andb].
    apply forallb_forall. intros y Hy. cbn [forallb not_se andb]. rewrite Forall_forall in Hr. apply Hr. exact Hy.
  - rewrite json_tokens_obj. cbn [forallb not_se andb]. rewrite forallb_app. cbn [forallb not_se]. rewrite andb_true_r.
    destruct H as [|x r Hx Hr]; [reflexivity|]. cbn [mtoks mtok]. cbn [app forallb not_se andb]. rewrite forallb_app, forallb_flat_map. cbn beta in Hx. unfold mtok. cbn [forallb not_se andb]. rewrite Hx. cbn [andb].
    apply forallb_forall. intros y Hy. cbn [forallb not_se andb]. rewrite Forall_forall in Hr. apply (Hr y Hy).
Qed.

Lemma no_se_spanned (q : list token) L : map snd q = L -> forallb not_se L = true -> Forall (fun t => snd t <> TStreamEnd) q.
Proof.
  intros <- H. rewrite forallb_forall in H. apply Forall_forall. intros t Ht E.
  specialize (H (snd t) (in_map snd _ _ Ht)). rewrite E in H. discriminate.
Qed.

(* ---------- the value at the top, every kind ---------- *)
Lemma top_value v t : json_text v t -> (json_depth v <= 255)%nat ->
  forall F w0 w2, wsb w0 = true -> wsb w2 = true -> (2 * length (w0 ++ t ++ w2) + 10 <= F)%nat ->
  runs F (mkst (w0 ++ t ++ w2) 1 m0 [] 0 true [dummy_key] 0 1 false true []) (top_done (length (w0 ++ t ++ w2)) v).
Proof.
  intros Ht Hd. destruct v.
  - inversion Ht; subst. apply top_plain; [apply literal_jword|reflexivity].
  - inversion Ht; subst. apply top_plain; [destruct b; apply literal_jword|reflexivity].
  - inversion Ht; subst. apply top_plain; [apply json_number_jword; assumption|reflexivity].
  - inversion Ht; subst. apply top_string. assumption.
  - apply top_coll; [|exact Hd]. apply coll_arr; [|exact Ht]. apply Forall_forall. intros x _. apply node_scan.
  - apply top_coll; [|exact Hd]. apply coll_obj; [|exact Ht]. apply Forall_forall. intros x _. apply node_scan.
Qed.

(* ---------- THE SCANNER HALF: every JSON text, the tokens of its value ---------- *)
Theorem scan_json_doc v s : json_doc_text v s -> (json_depth v < 256)%nat ->
  forall F, (2 * length s + 10 <= F)%nat ->
  exists toks, scan_all str_ops F (4 * F + 20) (init_sc {| si_chars := s; si_look := 0 |}) [] = (toks, SEnded)
               /\ map snd toks = wrap (json_tokens v) /\ (length toks + 2 < 4 * F + 20)%nat.
Proof.
  intros (w0 & t & w2 & Hw0 & Ht & Hw2 & ->) Hd F HF.
  destruct (top_value v t Ht ltac:(lia) F w0 w2 Hw0 Hw2 HF) as
    (k & V & R & (w2' & l' & mk' & adj' & ska' & lws' & km' & toks & -> & A & C & Hne & D & E & G)).
  unfold Resolver.str, Parser.str in *. unfold SBase.chr, Resolver.chr in *.
  set (S1 := mkst (w0 ++ t ++ w2) 1 m0 [] 0 true [dummy_key] 0 1 false true []) in *.
  assert (Hse : Forall (fun t => snd t <> TStreamEnd) toks) by (eapply no_se_spanned; [exact C|apply json_tokens_no_se]).
  assert (HFk : exists F2, F = (k + S (S F2))%nat) by (exists (F - k - 2)%nat; lia).
  destruct HFk as (F2 & EF).
  (* the fetch_more_tokens of the second next_token call brings in the whole document, and perhaps StreamEnd *)
  assert (Hfmt : exists s5, fetch_more_tokens str_ops F F S1 = Ok (tt, s5) /\
            ((exists l5 mk5 lws5 sp5, s5 = mkst [] l5 mk5 (toks ++ [(sp5, TStreamEnd)]) adj' false [skey false 1 km'] 0 1 true lws5 [])
             \/ s5 = mkst w2' l' mk' toks adj' ska' [skey false 1 km'] 0 1 true lws' [])).
  { replace (fetch_more_tokens str_ops F F S1) with (fetch_more_tokens str_ops F (k + S (S F2)) S1) by (rewrite <- EF; reflexivity).
    rewrite (fsteps_fmt F k S1 _ R (S (S F2))). rewrite fmt_S. cbn [bind].
    destruct toks as [|t0 toks0]; [congruence|].
    destruct (need_root w2' l' mk' t0 toks0 adj' ska' true km' false lws') as (p' & En). rewrite En. destruct p'.
    - destruct (final_fetch F w2' l' mk' (t0 :: toks0) adj' ska' true km' 1 lws' A ltac:(lia)) as (l5 & mk5 & lws5 & sp5 & E5).
      cbn [bind]. rewrite E5. rewrite fmt_S. cbn [bind app]. rewrite need_idle. cbn [bind modify set_ta set_flags mkst].
      eexists. split; [reflexivity|]. left. exists l5, mk5, lws5, sp5. reflexivity.
    - cbn [bind modify set_ta set_flags mkst]. eexists. split; [reflexivity|]. right. reflexivity. }
  destruct Hfmt as (s5 & E5 & Hs5).
  assert (Hnt : next_token str_ops F S1 = next_token str_ops F s5).
  { apply next_token_fmt; try reflexivity; try exact E5; destruct Hs5 as [(l5 & mk5 & lws5 & sp5 & ->) | ->]; reflexivity. }
  set (tot := (4 * F + 20)%nat).
  assert (Htot : exists rest, tot = S (length toks + S (S rest))) by (exists (tot - length toks - 3)%nat; unfold tot; lia).
  destruct Htot as (rest & Etot). rewrite Etot.
  rewrite scan_all_S. rewrite (first_token F (w0 ++ t ++ w2)) by lia. cbv beta iota.
  change (mkst (w0 ++ t ++ w2) 1 m0 [] 0 true [dummy_key] 0 1 false true []) with S1.
  destruct (length toks + S (S rest))%nat as [|fuel1] eqn:Efuel; [lia|].
  rewrite scan_all_S, Hnt, <- scan_all_S, <- Efuel.
  destruct Hs5 as [(l5 & mk5 & lws5 & sp5 & ->) | ->].
  - exists ((span_empty m0, TStreamStart) :: toks ++ [(sp5, TStreamEnd)]). split; [|split].
    + etransitivity; [exact (drain F toks [(sp5, TStreamEnd)] [] l5 mk5 adj' false km' 1 true lws5 [(span_empty m0, TStreamStart)] (S (S rest)) ltac:(lia) Hse)|].
      rewrite end_A by lia. f_equal. cbn [rev]. rewrite rev_app_distr, rev_involutive. reflexivity.
    + unfold token in *. cbn [map snd]. rewrite map_app, C. reflexivity.
    + cbn [length]. rewrite app_length. cbn [length]. unfold tot in *. lia.
  - pose proof (drain F toks [] w2' l' mk' adj' ska' km' 1 true lws' [(span_empty m0, TStreamStart)] (S (S rest)) ltac:(lia) Hse) as Ed.
    rewrite app_nil_r in Ed.
    assert (Eqq : forall (b : bool), match toks with [] => b | _ :: _ => false end = false) by (intros b; destruct toks; [congruence|reflexivity]).
    rewrite Eqq in Ed.
    destruct (end_B F w2' l' mk' adj' ska' km' (1 + N.of_nat (length toks)) lws' (rev toks ++ [(span_empty m0, TStreamStart)]) rest A ltac:(lia)) as (sp5 & Ee).
    exists ((span_empty m0, TStreamStart) :: toks ++ [(sp5, TStreamEnd)]). split; [|split].
    + etransitivity; [exact Ed|]. etransitivity; [exact Ee|]. f_equal. cbn [rev]. rewrite rev_app_distr, rev_involutive. reflexivity.
    + unfold token in *. cbn [map snd]. rewrite map_app, C. reflexivity.
    + cbn [length]. rewrite app_length. cbn [length]. unfold tot in *. lia.
Qed.
