(* C04 in document context, a FOLLOWER behind a QUOTED scalar: the scalar (single- or double-quoted, any allowed presentation)
   is the value of the first pair of a two-pair top-level mapping / the first entry of a two-entry top-level sequence; white
   space (spaces, line feeds) and a line feed separate it from the sibling line at column 0.  Method as for C05 and plain
   scalars (Proofs/ScalarContext2Pos.v), on top of [scan_flow_scalar_brk]; fetch_flow_scalar itself skips to the sibling line
   (skip_to_next_token), which allows a simple key there. *)
From Coq Require Import List NArith ZArith Bool Arith Lia.
Import ListNotations.
Require Import Parser SBase SPrim SDir SScalar SFetch Pipe Drivers TokenGrammar FlowText BlockText ScanFlowProofs ScanBlockProofs ScanFrame TokenGrammarProofs TokenStreamProofs BlockScalar BlockScalarProofs BlockScalarCase FlowFold FlowScalarProofs PlainScalarProofs QuotedFoldProofs ScalarContext ScalarContextBlock ScalarContextQuoted ScalarContextFlow ScalarContext2Plain ScalarContext2PlainDoc Positions ScanPos ScanPosPrim ScanPosFlow ScalarContext2Pos ScalarContext2BlockSib ScalarContext2PlainSib ScalarContext2PlainSibDoc ScalarContext2Quoted.
Open Scope N_scope.
Open Scope mon_scope.

#[local] Arguments N.eqb : simpl nomatch.
#[local] Arguments Nat.max : simpl nomatch.
#[local] Arguments Nat.leb : simpl nomatch.
#[local] Arguments Nat.ltb : simpl nomatch.
#[local] Arguments Nat.sub : simpl nomatch.
#[local] Arguments N.add : simpl never.
#[local] Arguments N.sub : simpl never.
#[local] Arguments N.mul : simpl never.
#[local] Arguments N.ltb : simpl nomatch.
#[local] Arguments N.leb : simpl nomatch.
#[local] Arguments Z.of_N : simpl never.
#[local] Arguments Z.ltb : simpl never.
#[local] Arguments Z.leb : simpl never.
#[local] Arguments Z.eqb : simpl never.
#[local] Arguments Z.add : simpl never.
#[local] Arguments bind {I A B} m f s /.
#[local] Arguments ret {I A} a s /.
#[local] Arguments get {I} s /.
#[local] Arguments put {I} s _ /.
#[local] Arguments modify {I} f s /.
#[local] Arguments gets {I A} f s /.
#[local] Arguments fail {I A} site m _ /.
#[local] Arguments upd {I} s i m t /.
#[local] Arguments set_in {I} i s /.
#[local] Arguments set_mark {I} m s /.
#[local] Arguments set_tokens {I} t s /.
#[local] Arguments set_flags {I} s ss se adj ska ta lws /.
#[local] Arguments set_ska {I} b s /.
#[local] Arguments set_lws {I} b s /.
#[local] Arguments set_adj {I} n s /.
#[local] Arguments set_ta {I} b s /.
#[local] Arguments set_ss {I} b s /.
#[local] Arguments set_se {I} b s /.
#[local] Arguments set_struct {I} s sks ind inds fl tp ifms /.
#[local] Arguments set_sks {I} l s /.
#[local] Arguments set_indent {I} z l s /.
#[local] Arguments set_fl {I} n s /.
#[local] Arguments set_tp {I} n s /.
#[local] Arguments set_ifms {I} l s /.
#[local] Arguments skip_to_next_token : simpl never.
#[local] Arguments stale_simple_keys : simpl never.
#[local] Arguments plain_chunk : simpl never.
#[local] Arguments plain_blanks : simpl never.
#[local] Arguments scan_plain_scalar : simpl never.
#[local] Arguments scan_block_scalar : simpl never.
#[local] Arguments scan_flow_scalar : simpl never.
#[local] Arguments fetch_stream_start : simpl never.
#[local] Arguments fetch_stream_end : simpl never.
#[local] Arguments fetch_directive : simpl never.
#[local] Arguments fetch_document_indicator : simpl never.
#[local] Arguments fetch_flow_collection_start : simpl never.
#[local] Arguments fetch_flow_collection_end : simpl never.
#[local] Arguments fetch_flow_entry : simpl never.
#[local] Arguments fetch_block_entry : simpl never.
#[local] Arguments fetch_key : simpl never.
#[local] Arguments fetch_value : simpl never.
#[local] Arguments fetch_flow_value : simpl never.
#[local] Arguments fetch_anchor : simpl never.
#[local] Arguments fetch_tag : simpl never.
#[local] Arguments fetch_block_scalar : simpl never.
#[local] Arguments fetch_flow_scalar : simpl never.
#[local] Arguments fetch_plain_scalar : simpl never.
#[local] Arguments fetch_next_token : simpl never.
#[local] Arguments fetch_more_tokens : simpl never.
#[local] Arguments next_token : simpl never.
#[local] Arguments scan_all : simpl never.
#[local] Arguments fnt_rest : simpl never.
#[local] Arguments skip_ws_to_eol : simpl never.
#[local] Arguments insert_token : simpl never.
#[local] Arguments need_comp : simpl never.
#[local] Arguments unroll_indent : simpl never.
#[local] Arguments roll_indent : simpl never.
#[local] Arguments roll_one_col_indent : simpl never.
#[local] Arguments unroll_non_block_indents : simpl never.
#[local] Arguments save_simple_key : simpl never.
#[local] Arguments popk : simpl never.
#[local] Arguments ntb : simpl never.

#[local] Arguments saved : simpl never.
#[local] Arguments q_text : simpl never.
#[local] Arguments dq_text : simpl never.
#[local] Arguments p_text : simpl never.
#[local] Arguments plain_text : simpl never.

(* ---------- spaces and line feeds up to the sibling line ---------- *)
Lemma skip_ws_sib x r : first_ok x -> forall ws F l mk q adj ska k ind inds tp ta lws,
  ws_only ws = true -> (length ws < F)%nat ->
  exists l' mk' ska' lws',
    skip_to_next_token str_ops F (mkb (ws ++ x :: r) l mk q adj ska k ind inds tp ta lws)
    = Ok (tt, mkb (x :: r) l' mk' q adj ska' k ind inds tp ta lws') /\ (ska = true -> ska' = true).
Proof.
  intros Hx. induction ws as [|c ws IH]; intros F l mk q adj ska k ind inds tp ta lws Hws HF.
  - cbn [app]. rewrite (skip_none F r l mk q adj ska k ind inds tp ta lws x ltac:(cbn in HF; lia) Hx).
    eexists; eexists; eexists; eexists. split; [reflexivity|tauto].
  - destruct F as [|F]; [cbn in HF; lia|].
    cbn [ws_only forallb] in Hws. apply andb_prop in Hws as [Hc Hws]. fold (ws_only ws) in Hws.
    unfold skip_to_next_token. fold (skip_to_next_token str_ops F). cbn [app].
    apply orb_prop in Hc as [Hc|Hc]; apply N.eqb_eq in Hc; subst c.
    + unfold mkb at 1. cbn. unfold skip_linebreak, next_2_are, assert_buflen. cbn. rewrite ltb_max2. cbn.
      destruct mk as [mi ml mc]. unfold nlm. cbn [m_index m_line m_col].
      destruct (IH F (Nat.max (Nat.max l 1) 2) {| m_index := mi + 1; m_line := ml + 1; m_col := 0 |} q adj true k ind inds tp ta true Hws ltac:(cbn in HF; lia))
        as (l' & mk' & ska' & lws' & E & Hs).
      unfold mkb in E. rewrite E. eexists; eexists; eexists; eexists. split; [reflexivity|]. intros _. apply Hs. reflexivity.
    + unfold mkb at 1. cbn. destruct mk as [mi ml mc]. unfold adv. cbn [m_index m_line m_col].
      destruct (IH F (Nat.max l 1) {| m_index := mi + 1; m_line := ml; m_col := mc + 1 |} q adj ska k ind inds tp ta lws Hws ltac:(cbn in HF; lia))
        as (l' & mk' & ska' & lws' & E & Hs).
      unfold mkb in E. rewrite E. eexists; eexists; eexists; eexists. split; [reflexivity|exact Hs].
Qed.

Lemma skip_nl_sib x r ws F l mk q adj ska k ind inds tp ta lws : first_ok x ->
  ws_only ws = true -> (S (length ws) < F)%nat ->
  exists l' mk' lws',
    skip_to_next_token str_ops F (mkb (10 :: ws ++ x :: r) l mk q adj ska k ind inds tp ta lws)
    = Ok (tt, mkb (x :: r) l' mk' q adj true k ind inds tp ta lws').
Proof.
  intros Hx Hws HF. destruct F as [|F]; [lia|].
  unfold skip_to_next_token. fold (skip_to_next_token str_ops F).
  unfold mkb at 1. cbn. unfold skip_linebreak, next_2_are, assert_buflen. cbn. rewrite ltb_max2. cbn.
  destruct mk as [mi ml mc]. unfold nlm. cbn [m_index m_line m_col].
  destruct (skip_ws_sib x r Hx ws F (Nat.max (Nat.max l 1) 2) {| m_index := mi + 1; m_line := ml + 1; m_col := 0 |} q adj true k ind inds tp ta true Hws ltac:(lia))
    as (l' & mk' & ska' & lws' & E & Hs).
  rewrite (Hs eq_refl) in E. unfold mkb in E. rewrite E. eexists; eexists; eexists. reflexivity.
Qed.

(* the text of a quoted scalar, white space, a line feed, the sibling line *)
Definition qs_text (single : bool) (first : list dq_item) (more : list (brk_layout * list dq_item)) (ws sib : list N) : list N :=
  q_text single first more (ws ++ 10 :: sib).

Lemma sib_brk_head ws x r : ws_only ws = true -> sib_head x -> brk_head (ws ++ 10 :: x :: r).
Proof. intros Hws Hx. destruct (sib_drop_leading x r Hx ws Hws) as (ws2 & _ & E & _). unfold brk_head. rewrite E. right. reflexivity. Qed.

Lemma sib_close ws x r : ws_only ws = true -> (nth 0 (ws ++ 10 :: x :: r) 0 =? 39) = false.
Proof.
  destruct ws as [|c ws]; [reflexivity|]. cbn [ws_only forallb app nth]. intros H. apply andb_prop in H as [Hc _].
  apply orb_prop in Hc as [Hc|Hc]; apply N.eqb_eq in Hc; subst c; reflexivity.
Qed.

(* ---------- fetch_flow_scalar with the position behind the scalar ---------- *)
Lemma fetch_quoted_case_pos F single n first more ws x r l mk q adj ska k ind inds tp lws orig pre0 :
  q_wf single n first more = true -> ws_only ws = true -> sib_head x -> first_ok x ->
  (ind < Z.of_nat n)%Z -> (ind <= Z.of_N (m_col mk) + 1)%Z ->
  (2 * length (qs_text single first more ws (x :: r)) + 10 <= F)%nat ->
  ((ind =? Z.of_N (m_col mk))%Z = true -> inds <> []) ->
  Forall (fun c => c <> 0) orig -> orig = pre0 ++ qs_text single first more ws (x :: r) -> m_index mk = N.of_nat (length pre0) ->
  (m_line mk, m_col mk) = pos_go orig (length pre0) 1 0 ->
  exists l' mk' sp adj' lws' ind' inds',
    fetch_flow_scalar str_ops F single (mkb (qs_text single first more ws (x :: r)) l mk q adj ska k ind inds tp false lws)
    = Ok (tt, mkb (x :: r) l' mk' (q ++ [(sp, TScalar (style_of single) (dq_text first more))]) adj' true (saved ska k ind inds tp q mk) ind' inds' tp false lws')
    /\ nbrel (ind, inds) (ind', inds') /\ m_col mk' = 0 /\ m_line mk < m_line mk'.
Proof.
  intros Hwf Hws Hx Hfo Hn Hcol HF Hreq Hnn Eo Hidx Hpos.
  unfold fetch_flow_scalar. cbn [bind].
  rewrite (save_key_b _ l mk q adj ska k ind inds tp false lws Hreq). unfold disallow_simple_key. unfold mkb at 1. cbn.
  set (S1 := {| sc_in := {| si_chars := qs_text single first more ws (x :: r); si_look := l |}; sc_mark := mk; sc_tokens := q; sc_stream_start := true;
                sc_stream_end := false; sc_adjacent := adj; sc_ska := false; sc_sks := [saved ska k ind inds tp q mk];
                sc_indent := ind; sc_indents := inds; sc_flow_level := 0; sc_tokens_parsed := tp; sc_token_available := false;
                sc_lws := lws; sc_ifms := [] |}).
  destruct (scan_flow_scalar_brk F single n first more (ws ++ 10 :: x :: r) S1 Hwf eq_refl (sib_brk_head ws x r Hws Hx)
              (fun _ => sib_close ws x r Hws) Hn Hcol HF) as (sp & s' & E & _ & Hin).
  pose proof (Fr_scan_flow_scalar str_ops F single S1 _ s' E) as Hfr.
  assert (HM1 : MarkAt orig pre0 S1) by (repeat split; [exact Eo | exact Hidx | exact Hpos]).
  assert (Hbz : is_breakz (rnth S1 0) = false) by (unfold rnth, rem, S1, qs_text, q_text; cbn [sc_in si_chars nth]; destruct single; reflexivity).
  pose proof (pos_scan_flow_scalar orig Hnn F single S1 (ex_intro _ pre0 HM1) Hbz) as Hp.
  unfold swp in Hp. rewrite E in Hp. destruct Hp as (HM' & _).
  destruct (sib_drop_leading x r Hx ws Hws) as (ws2 & Hws2 & Edrop & _). rewrite Edrop in Hin.
  rewrite E. cbn.
  destruct s' as [[chars look] mk' toks ss se adj' ska' sks' ind' inds' fl tp' ta' lws' ifms'].
  unfold frame in Hfr. cbn in Hfr, Hin.
  destruct Hfr as (A1 & A2 & A3 & A4 & A5 & A6 & A7 & A8 & A9 & A10 & A11). subst chars toks ss se adj' sks' fl tp' ta' ifms'.
  assert (Hlen : (S (length ws2) < F)%nat).
  { pose proof (split_leading (ws ++ 10 :: x :: r)) as [Hs _]. apply (f_equal (@length N)) in Hs.
    rewrite Edrop in Hs. rewrite (app_length (take_leading _)) in Hs.
    unfold qs_text, q_text in HF. cbn [length] in Hs, HF. unfold chr in *. repeat (rewrite app_length in Hs; cbn [length] in Hs). repeat (rewrite app_length in HF; cbn [length] in HF). lia. }
  set (S2 := mkb (10 :: ws2 ++ x :: r) look mk' q adj ska' (saved ska k ind inds tp q mk) ind' inds' tp false lws') in *.
  destruct (skip_nl_sib x r ws2 F look mk' q adj ska' (saved ska k ind inds tp q mk) ind' inds' tp false lws' Hfo Hws2 Hlen)
    as (l2 & mk2 & lws2 & E2).
  fold S2 in E2.
  assert (HM2 : MarkOK orig S2) by exact HM'.
  pose proof (pos_skip_to_next_token orig Hnn F S2 HM2) as Hp2. unfold swp in Hp2. rewrite E2 in Hp2. destruct Hp2 as (HM3 & _).
  assert (H10 : (hd 0 (x :: r) =? 10) = false).
  { cbn [hd]. destruct Hx as (_ & Hk & _). unfold is_break in Hk. apply orb_false_elim in Hk as [Hk _]. exact Hk. }
  destruct (mark_behind_break orig pre0 S1 _ (pre0 ++ quote_of single :: q_src single first more ++ quote_of single :: ws) 0 (x :: r) HM1 HM3 eq_refl
              ltac:(rewrite Eo; unfold qs_text, q_text; cbn [app]; rewrite <- !app_assoc; cbn [app]; rewrite <- !app_assoc; reflexivity)
              H10 ltac:(rewrite app_length; apply Nat.le_add_r)) as [Hc Hl].
  unfold S2, mkb in E2. rewrite E2. cbn.
  exists l2, mk2, sp, (m_index mk2), lws2, ind', inds'. split; [|split; [exact A11|split; [exact Hc|exact Hl]]].
  unfold push_tok, mkb. cbn. reflexivity.
Qed.

Lemma quote_nobreak single : is_break (quote_of single) = false.
Proof. destruct single; reflexivity. Qed.

(* T-value with a sibling pair:  kw: <quoted scalar> ws LF kw2: w tail   (continuation lines of the scalar indented by n >= 2) *)
Theorem scan_quoted_value_sib kw single n first more ws kw2 w tail :
  key_ok kw = true -> q_wf single n first more = true -> (2 <= n)%nat -> ws_only ws = true ->
  key_ok kw2 = true -> sib_wf w = true -> ws_only tail = true ->
  forallb (fun c => negb (c =? 0)) (kw ++ 58 :: 32 :: qs_text single first more ws (kw2 ++ 58 :: 32 :: w ++ tail)) = true ->
  exists toks, scan_str (kw ++ 58 :: 32 :: qs_text single first more ws (kw2 ++ 58 :: 32 :: w ++ tail)) = (toks, SEnded) /\
               map snd toks = wrap false false [TBlockMappingStart; TKey; TScalar Plain kw; TValue; q_tok single first more;
                                                TKey; TScalar Plain kw2; TValue; TScalar Plain w; TBlockEnd].
Proof.
  intros Hkw Hwf Hn Hws Hkw2 Hw Htail Hnul.
  destruct (key_ok_word kw Hkw) as (c0 & w0 & Ekw & Hw0 & Hlen0).
  destruct (key_ok_word kw2 Hkw2) as (c2 & w2 & Ekw2 & Hw2 & Hlen2).
  destruct (sib_wf_facts w Hw) as [Hpw _].
  destruct (quote_first single) as (Hfo & Hnz & _).
  pose proof Hw2 as Hw2'. cbn [forallb] in Hw2'. apply andb_prop in Hw2' as [Hc2 _]. destruct (wch_first_ok c2 Hc2) as [Hfo2 Hnz2].
  subst kw kw2. cbn [app] in *.
  set (sib := c2 :: w2 ++ 58 :: 32 :: w ++ tail) in *.
  set (body := qs_text single first more ws sib) in *.
  set (txt := c0 :: w0 ++ 58 :: 32 :: body) in *. set (F := (2 * length txt + 10)%nat).
  assert (Hlt : (length w0 + 3 + length body = length txt)%nat).
  { unfold txt. cbn [length]. rewrite app_length. cbn [length]. lia. }
  pose proof (start_at_tok_p txt) as Hat. unfold txt in Hat at 2.
  destruct (key_at_tok_p F (start_state txt) c0 w0 32 body 0 [] [] true 0 1 Hat Hw0 Hlen0 (or_introl eq_refl) ltac:(constructor)
              ltac:(split; cbn; lia) ltac:(unfold F; lia))
    as (pre & s' & Hd & Hmp & Hat').
  cbn [joined length repeat app] in Hat', Hmp.
  assert (Ebody : body = quote_of single :: q_src single first more ++ quote_of single :: ws ++ 10 :: sib) by reflexivity.
  rewrite Ebody in Hat'.
  destruct (arrive_blank_p F s' _ _ [N.of_nat 0] _ _ _ Hat' Hfo Hnz ltac:(unfold F; lia))
    as (Hcanon & l' & adj & ska & k & tp & top' & rest' & [= <- <-] & Hc1 & Hl' & Hk & Hf).
  rewrite rest_quote in Hf; [ | exact Hl' | apply Z.ltb_ge; cbn [Z.of_N N.of_nat]; lia ].
  rewrite <- Ebody in Hf. change (N.of_nat 0) with 0 in *.
  set (pre0 := c0 :: w0 ++ [58; 32]).
  assert (Eo : txt = pre0 ++ qs_text single first more ws sib) by (unfold txt, pre0, body; cbn [app]; rewrite <- app_assoc; reflexivity).
  assert (Hpl : length pre0 = (length w0 + 3)%nat) by (unfold pre0; cbn [length]; rewrite app_length; cbn [length]; lia).
  assert (Hnb : forallb (fun c => negb (is_break c)) pre0 = true).
  { unfold pre0. change (c0 :: w0 ++ [58; 32]) with ((c0 :: w0) ++ [58; 32]). rewrite forallb_app, (wch_nobreak _ Hw0). reflexivity. }
  destruct (fetch_quoted_case_pos F single n first more ws c2 (w2 ++ 58 :: 32 :: w ++ tail) l'
              (mkm (0 + wlen c0 w0 + 1 + 1) 1 (0 + wlen c0 w0 + 1 + 1)) [] adj ska k
              (Z.of_N 0 + 1)%Z (nbl (Z.of_N 0) :: snd (stk [0])) tp false txt pre0 Hwf Hws (wch_sib_head c2 Hc2) Hfo2
              ltac:(cbn; lia) ltac:(cbn [m_col mkm]; unfold wlen; lia)
              ltac:(fold sib; fold body; unfold F; lia) ltac:(discriminate) (forallb_nonul _ Hnul) Eo
              ltac:(cbn [m_index mkm]; rewrite Hpl; unfold wlen; cbn [length]; lia)
              ltac:(rewrite Eo, (pos_go_nobreak pre0 _ 1 0 Hnb); cbn [m_line m_col mkm]; rewrite Hpl; unfold wlen; cbn [length]; f_equal; lia))
    as (l2 & mk2 & sp & adj2 & lws2 & ind2 & inds2 & E & Hnbr & Hcol & Hline2).
  unfold body, sib in Hf. rewrite E in Hf. cbn [app] in Hf.
  destruct mk2 as [i2 ln2 c2']. cbn [m_col m_line mkm] in Hcol, Hline2. subst c2'.
  change {| m_index := i2; m_line := ln2; m_col := 0 |} with (mkm i2 ln2 0) in Hf.
  set (K := saved ska k (Z.of_N 0 + 1)%Z (nbl (Z.of_N 0) :: snd (stk [0])) tp []
                  (mkm (0 + wlen c0 w0 + 1 + 1) 1 (0 + wlen c0 w0 + 1 + 1))) in *.
  assert (HK : (stale_k K (mkm i2 ln2 0) && sk_required K) = false /\ sk_possible (staled K (mkm i2 ln2 0)) = false).
  { unfold K, saved. destruct ska.
    - unfold staled, stale_k, newkey, req. cbn [sk_possible sk_required sk_mark m_line m_index mkm nbl in_needs_block_end andb].
      replace (1 <? ln2) with true by (symmetry; apply N.ltb_lt; exact Hline2). cbn [orb andb]. rewrite andb_false_r. split; reflexivity.
    - unfold staled. rewrite (stale_k_not_possible k _ Hk). split; [reflexivity|exact Hk]. }
  destruct HK as [HK1 HK2].
  assert (Htxt : (S (length w2 + S (S (length w + length tail))) + length pre0 <= length txt)%nat).
  { rewrite Eo. unfold qs_text, q_text. rewrite app_length. cbn [length]. rewrite app_length. cbn [length]. rewrite app_length. cbn [length].
    unfold sib. cbn [length]. rewrite !app_length. cbn [length]. rewrite app_length. lia. }
  destruct Hfo2 as (H32 & H9 & H10 & H13 & H35).
  pose proof (sibling_tail F s' l2 i2 ln2 _ adj2 K ind2 inds2 tp lws2 c2 (w2 ++ 58 :: 32 :: w ++ tail)
                ([TKey; TScalar Plain (c2 :: w2); TValue] ++ p_tok w [] :: repeat TBlockEnd 1 ++ [TStreamEnd])
                ltac:(unfold F; lia) Hcanon Hf ltac:(discriminate) HK1 HK2 (nbrel_below0 _ _ Hnbr) (conj H32 (conj H9 (conj H10 (conj H13 H35))))) as He.
  assert (He' : ends_with F s' (q_tok single first more :: [TKey; TScalar Plain (c2 :: w2); TValue] ++ p_tok w [] :: repeat TBlockEnd 1 ++ [TStreamEnd])).
  { apply He. intros B HatB.
    destruct (key_at_tok F B c2 w2 32 (w ++ tail) 0 [] [0] false HatB Hw2 Hlen2 (or_introl eq_refl) ltac:(constructor)
                ltac:(exists []; reflexivity) ltac:(unfold F; lia)) as (pre2 & s2 & Hd2 & Hmp2 & Hat2).
    cbn [joined length repeat app] in Hat2, Hmp2. rewrite <- (p_text_nil w tail) in Hat2.
    pose proof (plain_end_below F s2 1 w [] tail 0 [] Hat2 ltac:(cbn; lia) Hpw Htail
                  ltac:(rewrite p_text_nil, app_length; unfold F; lia)) as He2.
    pose proof (ends_with_delivers F B pre2 s2 _ Hd2 He2) as He3. rewrite Hmp2 in He3. exact He3. }
  assert (Hlp : length pre = 4%nat) by (pose proof (f_equal (@length _) Hmp) as Hl; rewrite map_length in Hl; exact Hl).
  destruct (scan_str_units txt pre s' _ Hd He' ltac:(rewrite Hlp; cbn [length repeat app]; lia)) as (toks & Es & Hm).
  exists toks. split; [exact Es|]. rewrite Hm, Hmp. unfold p_tok. rewrite (plain_text_nil w). reflexivity.
Qed.

(* T-entry with a sibling entry:  - <quoted scalar> ws LF - w tail   (continuation lines indented by n >= 1) *)
Theorem scan_quoted_entry_sib single n first more ws w tail :
  q_wf single n first more = true -> (1 <= n)%nat -> ws_only ws = true -> sib_wf w = true -> ws_only tail = true ->
  forallb (fun c => negb (c =? 0)) (45 :: 32 :: qs_text single first more ws (45 :: 32 :: w ++ tail)) = true ->
  exists toks, scan_str (45 :: 32 :: qs_text single first more ws (45 :: 32 :: w ++ tail)) = (toks, SEnded) /\
               map snd toks = wrap false false [TBlockSequenceStart; TBlockEntry; q_tok single first more; TBlockEntry; TScalar Plain w; TBlockEnd].
Proof.
  intros Hwf Hn Hws Hw Htail Hnul.
  destruct (sib_wf_facts w Hw) as [Hpw _].
  destruct (quote_first single) as (Hfo & Hnz & Hnw & Hbr & Hfl).
  assert (Hwf1 := Hpw). unfold p_wf, plain_layout_wf in Hwf1. apply andb_prop in Hwf1 as [Hwf1 _]. apply andb_prop in Hwf1 as [Hfirstw Hlinew].
  destruct (plain_first_facts w Hfirstw Hlinew) as (xw & tw & Ew & Hfow & Hnzw & Hbrw & Hflw & _).
  set (sib := 45 :: 32 :: w ++ tail) in *.
  set (body := qs_text single first more ws sib) in *.
  set (txt := 45 :: 32 :: body) in *. set (F := (2 * length txt + 10)%nat).
  assert (Ebody : body = quote_of single :: q_src single first more ++ quote_of single :: ws ++ 10 :: sib) by reflexivity.
  pose proof (start_at_tok_p txt) as Hat. unfold txt in Hat at 2. rewrite Ebody in Hat.
  destruct (dash_sp_p F (start_state txt) _ _ 0 [] [] true 0 1 Hat ltac:(constructor) ltac:(split; cbn; lia)
              Hnw Hbr Hfl ltac:(unfold F; lia))
    as (pre & s' & Hd & Hmp & Hat').
  cbn [joined Nat.add] in Hat'. change (N.of_nat 0) with 0 in Hat'.
  assert (Hbase : base_le [0] (Z.of_nat 2)) by (cbn; lia).
  destruct (arrive_tok_p F s' _ _ 2 [] [0] (0 + 2) 1 Hat' Hfo Hnz ltac:(constructor) Hbase ltac:(unfold F; lia))
    as (Hcanon & l' & adj & k & tp & lws & Hl' & Hk & Hf).
  cbn [length repeat] in Hf.
  rewrite rest_quote in Hf; [ | exact Hl' | apply col_ge_top, Hbase ].
  rewrite <- Ebody in Hf.
  assert (Eo : txt = [45; 32] ++ qs_text single first more ws sib) by reflexivity.
  destruct (fetch_quoted_case_pos F single n first more ws 45 (32 :: w ++ tail) l' (mkm (0 + 2) 1 (N.of_nat 2)) [] adj true k
              (fst (stk [0])) (snd (stk [0])) tp lws txt [45; 32] Hwf Hws ltac:(repeat split; reflexivity) ltac:(repeat split; reflexivity)
              ltac:(cbn; lia) ltac:(cbn; lia)
              ltac:(fold sib; fold body; unfold F, txt; cbn [length]; lia) (stk_req_ne [0] (N.of_nat 2)) (forallb_nonul _ Hnul) Eo
              eq_refl ltac:(rewrite Eo, (pos_go_nobreak [45; 32] _ 1 0 eq_refl); reflexivity))
    as (l2 & mk2 & sp & adj2 & lws2 & ind2 & inds2 & E & Hnbr & Hcol & Hline2).
  unfold body, sib in Hf. rewrite E in Hf. cbn [app] in Hf.
  destruct mk2 as [i2 ln2 c2']. cbn [m_col m_line mkm] in Hcol, Hline2. subst c2'.
  change {| m_index := i2; m_line := ln2; m_col := 0 |} with (mkm i2 ln2 0) in Hf.
  set (K := saved true k (fst (stk [0])) (snd (stk [0])) tp [] (mkm (0 + 2) 1 (N.of_nat 2))) in *.
  assert (HK : (stale_k K (mkm i2 ln2 0) && sk_required K) = false /\ sk_possible (staled K (mkm i2 ln2 0)) = false).
  { unfold K, saved, staled, stale_k, newkey, req. cbn [sk_possible sk_required sk_mark m_line m_index m_col mkm andb stk fst snd].
    replace (1 <? ln2) with true by (symmetry; apply N.ltb_lt; exact Hline2). cbn [orb andb].
    change (Z.of_N 0 =? Z.of_N (N.of_nat 2))%Z with false. cbn [andb]. split; reflexivity. }
  destruct HK as [HK1 HK2].
  assert (Htxt : (S (S (length w + length tail)) + 2 <= length txt)%nat).
  { rewrite Eo. unfold qs_text, q_text. rewrite app_length. cbn [length]. rewrite app_length. cbn [length]. rewrite app_length. cbn [length].
    unfold sib. cbn [length]. rewrite !app_length. lia. }
  pose proof (sibling_tail F s' l2 i2 ln2 _ adj2 K ind2 inds2 tp lws2 45 (32 :: w ++ tail)
                ([TBlockEntry] ++ p_tok w [] :: repeat TBlockEnd 1 ++ [TStreamEnd])
                ltac:(unfold F; lia) Hcanon Hf ltac:(discriminate) HK1 HK2 (nbrel_stk0 _ _ Hnbr) ltac:(repeat split; reflexivity)) as He.
  assert (He' : ends_with F s' (q_tok single first more :: [TBlockEntry] ++ p_tok w [] :: repeat TBlockEnd 1 ++ [TStreamEnd])).
  { apply He. intros B HatB. rewrite Ew in HatB. cbn [app] in HatB.
    destruct (dash_sp F B xw (tw ++ tail) 0 [] [0] false (or_introl HatB) ltac:(constructor) ltac:(exists []; reflexivity)
                (first_ok_not_ws xw Hfow) Hbrw Hflw ltac:(unfold F; lia)) as (pre2 & s2 & Hd2 & Hmp2 & Hat2).
    cbn [joined Nat.add length repeat app dash_toks] in Hat2, Hmp2.
    change (xw :: tw ++ tail) with ((xw :: tw) ++ tail) in Hat2. rewrite <- Ew, <- (p_text_nil w tail) in Hat2.
    pose proof (plain_end_tok F s2 1 w [] tail 2 [0] Hat2 ltac:(cbn; lia) ltac:(cbn; lia) Hpw Htail ltac:(discriminate)
                  ltac:(rewrite p_text_nil, app_length; unfold F; lia)) as He2.
    pose proof (ends_with_delivers F B pre2 s2 _ Hd2 He2) as He3. rewrite Hmp2 in He3. exact He3. }
  assert (Hlp : length pre = 2%nat) by (pose proof (f_equal (@length _) Hmp) as Hl; rewrite map_length in Hl; exact Hl).
  destruct (scan_str_units txt pre s' _ Hd He' ltac:(rewrite Hlp; cbn [length repeat app]; lia)) as (toks & Es & Hm).
  exists toks. split; [exact Es|]. rewrite Hm, Hmp. unfold p_tok. rewrite (plain_text_nil w). reflexivity.
Qed.

(* ---------- text -> events ---------- *)
Theorem run_quoted_value_sib kw single n first more ws kw2 w tail :
  key_ok kw = true -> q_wf single n first more = true -> (2 <= n)%nat -> ws_only ws = true ->
  key_ok kw2 = true -> sib_wf w = true -> ws_only tail = true ->
  forallb (fun c => negb (c =? 0)) (kw ++ 58 :: 32 :: qs_text single first more ws (kw2 ++ 58 :: 32 :: w ++ tail)) = true ->
  map fst (fst (run_str (kw ++ 58 :: 32 :: qs_text single first more ws (kw2 ++ 58 :: 32 :: w ++ tail))))
  = [EStreamStart; EDocumentStart false; EMappingStart 0 None; EScalar kw Plain 0 None; EScalar (dq_text first more) (style_of single) 0 None;
     EScalar kw2 Plain 0 None; EScalar w Plain 0 None; EMappingEnd; EDocumentEnd; EStreamEnd]
  /\ snd (run_str (kw ++ 58 :: 32 :: qs_text single first more ws (kw2 ++ 58 :: 32 :: w ++ tail))) = PDone.
Proof.
  intros Hkw Hwf Hn Hws Hkw2 Hw Htail Hnul.
  destruct (scan_quoted_value_sib kw single n first more ws kw2 w tail Hkw Hwf Hn Hws Hkw2 Hw Htail Hnul) as (toks & Es & Hm).
  exact (run_of_scan _ (LBMap no_props [(true, lword kw, (true, q_node single first more)); (true, lword kw2, (true, lword w))])
           toks Es Hm eq_refl eq_refl ltac:(cbn; lia)).
Qed.

Theorem run_quoted_entry_sib single n first more ws w tail :
  q_wf single n first more = true -> (1 <= n)%nat -> ws_only ws = true -> sib_wf w = true -> ws_only tail = true ->
  forallb (fun c => negb (c =? 0)) (45 :: 32 :: qs_text single first more ws (45 :: 32 :: w ++ tail)) = true ->
  map fst (fst (run_str (45 :: 32 :: qs_text single first more ws (45 :: 32 :: w ++ tail))))
  = [EStreamStart; EDocumentStart false; ESequenceStart 0 None; EScalar (dq_text first more) (style_of single) 0 None; EScalar w Plain 0 None;
     ESequenceEnd; EDocumentEnd; EStreamEnd]
  /\ snd (run_str (45 :: 32 :: qs_text single first more ws (45 :: 32 :: w ++ tail))) = PDone.
Proof.
  intros Hwf Hn Hws Hw Htail Hnul.
  destruct (scan_quoted_entry_sib single n first more ws w tail Hwf Hn Hws Hw Htail Hnul) as (toks & Es & Hm).
  exact (run_of_scan _ (LBSeq no_props [q_node single first more; lword w]) toks Es Hm eq_refl eq_refl ltac:(cbn; lia)).
Qed.
