(* C15, text level, ANY number of streams: the n-ary form of [text_composition_final] (ScanPrefixFinalTop.v).

     glue_all_text A0 [A1; ...; An]  =  A0 ++ "...\n" ++ A1 ++ "...\n" ++ ... ++ An

     text_composition_many       every part accepted by run_str, every part except possibly the last one NUL-free and ending
                                 with a line break (or empty)  =>  the glued text is accepted and its events without spans are
                                 [glue_allE] of the parts' events - the SAME function the token-level theorem
                                 [doc_composition_many] (DocIndep.v) is stated with
     glue_allE_explicit          what that function computes on accepted streams: StreamStart, the documents of A0, the
                                 documents of A1 with every anchor / alias id raised by the number of anchored nodes of A0,
                                 the documents of A2 raised by the number of anchored nodes of A0 and A1, ..., StreamEnd
     text_composition_many_explicit   the two together *)
From Coq Require Import List NArith ZArith Bool Arith Lia.
Import ListNotations.
Require Import Parser SBase SPrim SDir SScalar SFetch Pipe C02run DocRun DocShift DocIndep DocIndepRun.
Require Import ScanShift ScanShiftTop ScanShiftDoc ScanPrefixDoc ScanPrefixFinalTop.
Local Open Scope nat_scope.

(* ================================================================================================ *)
(* 1. the glued text                                                                                 *)
(* ================================================================================================ *)
Fixpoint glue_all_text (A0 : list chr) (l : list (list chr)) : list chr :=
  match l with [] => A0 | A1 :: r => A0 ++ dots ++ glue_all_text A1 r end.

(* the same text, read as "glue the first two, go on": the form the induction uses *)
Lemma glue_all_text_left A0 A1 r : glue_all_text A0 (A1 :: r) = glue_all_text (glue_text A0 A1) r.
Proof.
  destruct r as [|A2 r]; cbn [glue_all_text]; unfold glue_text; [reflexivity|].
  rewrite <- !app_assoc. reflexivity.
Qed.

(* [glue_text A B] ends with a line break as soon as B does (an empty B: the break of the marker line) *)
Lemma last_app_ne {T} (a b : list T) d : b <> [] -> last (a ++ b) d = last b d.
Proof.
  intros Hb. induction a as [|x a IH]; [reflexivity|]. cbn [app]. rewrite <- IH.
  destruct (a ++ b) eqn:E; [|reflexivity]. apply app_eq_nil in E. destruct E as [_ E]. contradiction.
Qed.
Lemma glue_text_ends_with_break A B : ends_with_break B -> ends_with_break (glue_text A B).
Proof.
  intros [->|HB]; right; unfold glue_text.
  - rewrite app_nil_r, last_app_ne by discriminate. reflexivity.
  - destruct B as [|b B]; [rewrite app_nil_r, last_app_ne by discriminate; reflexivity|].
    rewrite app_assoc, last_app_ne by discriminate. exact HB.
Qed.
Lemma glue_text_nonul A B : nonul A -> nonul B -> nonul (glue_text A B).
Proof.
  intros HA HB. unfold nonul, glue_text. apply Forall_app. split; [exact HA|]. apply Forall_app. split; [|exact HB].
  unfold dots. repeat constructor; discriminate.
Qed.

(* ================================================================================================ *)
(* 2. the composition, any number of parts                                                           *)
(* ================================================================================================ *)
(* a part: its text and its events.  [glue_allE] takes (marker span, tokens, events) and reads the events only. *)
Definition part : Type := (list chr * list (event * span))%type.
Definition part_entry (x : part) : span * list token * list (event * span) :=
  (span_empty mk0, fst (str_scan (fst x)), snd x).
(* what is asked of every part that is followed by a marker line *)
Definition inner_ok (A : list chr) : Prop := ends_with_break A /\ nonul A.

Theorem text_composition_many (l : list part) : forall A0 E0,
  run_str A0 = (E0, PDone) -> Forall (fun x => run_str (fst x) = (snd x, PDone)) l ->
  Forall inner_ok (removelast (A0 :: map fst l)) ->
  exists EC, run_str (glue_all_text A0 (map fst l)) = (EC, PDone)
             /\ evs_of EC = glue_allE (evs_of E0) (map part_entry l).
Proof.
  induction l as [|[A1 E1] r IH]; intros A0 E0 H0 HL HI; [exists E0; split; [exact H0|reflexivity]|].
  inversion HL as [|? ? H1 HR]; subst. cbn [fst snd] in H1.
  cbn [map fst] in HI. change (removelast (A0 :: A1 :: map fst r)) with (A0 :: removelast (A1 :: map fst r)) in HI.
  inversion HI as [|? ? [HB0 HN0] HI']; subst.
  destruct (text_composition_final A0 A1 E0 E1 HB0 HN0 H0 H1) as (E01 & H01 & EV01).
  destruct (IH (glue_text A0 A1) E01 H01 HR) as (EC & HC & EV).
  { destruct r as [|x r]; [constructor|]. cbn [map] in *.
    change (removelast (A1 :: fst x :: map fst r)) with (A1 :: removelast (fst x :: map fst r)) in HI'.
    change (removelast (glue_text A0 A1 :: fst x :: map fst r))
      with (glue_text A0 A1 :: removelast (fst x :: map fst r)).
    inversion HI' as [|? ? [HB1 HN1] HI'']; subst. constructor; [|exact HI''].
    split; [exact (glue_text_ends_with_break A0 A1 HB1)|exact (glue_text_nonul A0 A1 HN0 HN1)]. }
  exists EC. split.
  - cbn [map fst]. rewrite glue_all_text_left. exact HC.
  - rewrite EV, EV01. reflexivity.
Qed.

(* ================================================================================================ *)
(* 3. [glue_allE] on accepted streams, explicitly                                                    *)
(* ================================================================================================ *)
(* the events of an accepted stream: StreamStart, documents, StreamEnd *)
Definition stream_shape (e : list event) : Prop := exists d, e = EStreamStart :: d ++ [EStreamEnd].
Definition docs_of (e : list event) : list event := removelast (tl e).
(* the documents of the parts one after the other, part i raised by the number of anchored nodes of the parts before *)
Fixpoint glue_docs (d : N) (l : list (list event)) : list event :=
  match l with [] => [] | e :: r => map (shift_ev d) (docs_of e) ++ glue_docs (d + count_anchored e) r end.

Lemma docs_of_shape d : docs_of (EStreamStart :: d ++ [EStreamEnd]) = d.
Proof. unfold docs_of. cbn [tl]. apply removelast_last. Qed.

Lemma shift_ev_0 e : shift_ev 0 e = e.
Proof.
  destruct e; cbn [shift_ev]; unfold sh; rewrite ?N.add_0_r; try reflexivity;
    match goal with |- context [N.eqb ?a 0] => destruct (N.eqb_spec a 0) as [->|_]; reflexivity end.
Qed.
Lemma map_shift_ev_0 l : map (shift_ev 0) l = l.
Proof. induction l as [|e l IH]; cbn [map]; [reflexivity|]. rewrite shift_ev_0, IH. reflexivity. Qed.
Lemma sh_eqb0 d a : (sh d a =? 0)%N = (a =? 0)%N.
Proof.
  unfold sh. destruct (N.eqb_spec a 0) as [->|Ha]; [reflexivity|]. apply N.eqb_neq. lia.
Qed.
Lemma anchored_shift d e : anchored (shift_ev d e) = anchored e.
Proof. destruct e; cbn [shift_ev anchored]; rewrite ?sh_eqb0; reflexivity. Qed.
Lemma count_anchored_shift d l : count_anchored (map (shift_ev d) l) = count_anchored l.
Proof.
  unfold count_anchored. f_equal. induction l as [|e l IH]; [reflexivity|]. cbn [map filter].
  rewrite anchored_shift. destruct (anchored e); cbn [length]; rewrite IH; reflexivity.
Qed.
Lemma count_anchored_app a b : count_anchored (a ++ b) = (count_anchored a + count_anchored b)%N.
Proof. unfold count_anchored. rewrite filter_app, app_length. lia. Qed.
Lemma count_anchored_shape d : count_anchored (EStreamStart :: d ++ [EStreamEnd]) = count_anchored d.
Proof.
  change (EStreamStart :: d ++ [EStreamEnd]) with ([EStreamStart] ++ d ++ [EStreamEnd]).
  rewrite !count_anchored_app. change (count_anchored [EStreamStart]) with 0%N.
  change (count_anchored [EStreamEnd]) with 0%N. lia.
Qed.

(* gluing two streams: the shape is kept, the documents are concatenated, the numbers of anchored nodes add up *)
Lemma glueE_shape da db :
  glueE (EStreamStart :: da ++ [EStreamEnd]) (EStreamStart :: db ++ [EStreamEnd])
  = EStreamStart :: (da ++ map (shift_ev (count_anchored da)) db) ++ [EStreamEnd].
Proof.
  unfold glueE. rewrite count_anchored_shape, app_comm_cons, removelast_last. cbn [tl].
  rewrite map_app. cbn [map shift_ev app]. rewrite <- app_assoc. reflexivity.
Qed.
Lemma count_anchored_glueE a b : stream_shape a -> stream_shape b ->
  count_anchored (glueE a b) = (count_anchored a + count_anchored b)%N.
Proof.
  intros [da ->] [db ->]. rewrite glueE_shape, !count_anchored_shape, count_anchored_app, count_anchored_shift.
  reflexivity.
Qed.

Theorem glue_allE_explicit (l : list (span * list token * list (event * span))) : forall e0,
  stream_shape e0 -> Forall (fun x => stream_shape (evs_of (snd x))) l ->
  glue_allE e0 l = EStreamStart :: glue_docs 0 (e0 :: map (fun x => evs_of (snd x)) l) ++ [EStreamEnd]
  /\ stream_shape (glue_allE e0 l).
Proof.
  induction l as [|[[spd T] E] r IH]; intros e0 H0 HL; cbn [glue_allE map snd glue_docs].
  - destruct H0 as [d0 ->]. rewrite docs_of_shape, map_shift_ev_0, app_nil_r. split; [reflexivity|exists d0; reflexivity].
  - inversion HL as [|? ? H1 HR]; subst. cbn [snd] in H1.
    assert (HS : stream_shape (glueE e0 (evs_of E))).
    { destruct H0 as [d0 ->], H1 as [d1 ->]. rewrite glueE_shape. eexists; reflexivity. }
    destruct (IH _ HS HR) as [EQ SH]. split; [|exact SH]. rewrite EQ. cbn [glue_docs].
    rewrite (count_anchored_glueE _ _ H0 H1).
    destruct H0 as [d0 E0], H1 as [d1 E1]. rewrite E0, E1, glueE_shape, !docs_of_shape, !count_anchored_shape.
    rewrite !map_shift_ev_0, !N.add_0_l, <- !app_assoc. reflexivity.
Qed.

(* the events of an accepted text have the shape: [doc_composition] of the text with itself *)
Lemma accepted_stream_shape A E : run_str A = (E, PDone) -> stream_shape (evs_of E).
Proof.
  intros HA. destruct (accepted_tokens_wf A E HA) as (ss & t & sps & ET & HSS & HNE).
  rewrite run_str_scan in HA. apply parse_all_steps in HA. destruct HA as (ea & pa & EvA & SA & EA).
  cbn [rev app] in EvA. subst ea.
  assert (AA : accepts (ss :: t ++ [(sps, TStreamEnd)]) false E) by (rewrite <- ET; exists pa; auto).
  destruct (doc_composition ss t sps sps ss t (sps, TStreamEnd) E E HSS HNE AA AA)
    as (pre & pre' & b & n & E1 & E2 & _).
  destruct pre as [|x pre]; [rewrite E1 in E2; discriminate E2|].
  rewrite E1 in E2. cbn [app] in E2. inversion E2 as [[Ex Eb]]. subst x.
  exists (evs_of pre). rewrite E1. unfold evs_of. cbn [app map fst]. rewrite map_app. reflexivity.
Qed.

Theorem text_composition_many_explicit (l : list part) A0 E0 :
  run_str A0 = (E0, PDone) -> Forall (fun x => run_str (fst x) = (snd x, PDone)) l ->
  Forall inner_ok (removelast (A0 :: map fst l)) ->
  exists EC, run_str (glue_all_text A0 (map fst l)) = (EC, PDone)
             /\ evs_of EC = EStreamStart :: glue_docs 0 (evs_of E0 :: map (fun x => evs_of (snd x)) l) ++ [EStreamEnd].
Proof.
  intros H0 HL HI. destruct (text_composition_many l A0 E0 H0 HL HI) as (EC & HC & EV).
  exists EC. split; [exact HC|]. rewrite EV.
  destruct (glue_allE_explicit (map part_entry l) (evs_of E0)) as [EQ _].
  - exact (accepted_stream_shape A0 E0 H0).
  - apply Forall_map. revert HL. apply Forall_impl. intros [A E] H. exact (accepted_stream_shape A E H).
  - rewrite EQ, map_map. reflexivity.
Qed.

Print Assumptions text_composition_many.
Print Assumptions glue_allE_explicit.
Print Assumptions text_composition_many_explicit.
