(* C15, parser half: runs of the parser's state machine as a relation (used by DocShift / DocSim / DocIndep). *)
From Coq Require Import List NArith Bool Lia.
Import ListNotations.
Require Import Parser.
Local Open Scope N_scope.

(* ---------------- runs of the state machine ---------------- *)
Inductive steps : parser -> list (event * span) -> parser -> Prop :=
| steps_nil p : steps p [] p
| steps_cons p e p1 l p2 : state_machine p = Ok (e, p1) -> steps p1 l p2 -> steps p (e :: l) p2.

Lemma steps_app p a p1 b p2 : steps p a p1 -> steps p1 b p2 -> steps p (a ++ b) p2.
Proof. induction 1; cbn; [auto|]. intros H2. econstructor; eauto. Qed.
Lemma steps_one p e p1 : state_machine p = Ok (e, p1) -> steps p [e] p1.
Proof. intros H. econstructor; [exact H|constructor]. Qed.

Definition start_parser (toks : list token) (keep : bool) : parser :=
  {| p_toks := toks; p_token := None; p_states := []; p_state := SStreamStart;
     p_anchors := []; p_anchor_id := 1; p_tags := []; p_keep_tags := keep |}.

Definition accepts (toks : list token) (keep : bool) (evs : list (event * span)) : Prop :=
  exists p', steps (start_parser toks keep) evs p' /\ p_state p' = SEnd.

Definition evs_of (l : list (event * span)) : list event := map fst l.

