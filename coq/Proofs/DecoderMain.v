(* C18 — the result of YamlDecoder::decode (model: Model/Decoders.v decode_model = encoding detection, a decoder
   made by new_decoder() with BOM sniffing, decode_loop) is the one-shot specification decode_spec of
   Spec/EncodingSpec.v, for every byte string, every trap and every callback; and what that specification says
   about encoded texts and about malformed input.

     decoder_call_ok         the sniffing decoder, once converting, meets the per-call specification
     sniff_first_step        the first call of a decoder that is AtStart = a call of a converting decoder after the
                             byte-order mark that Encoding::for_bom found
     decode_model_spec       result_of (decode_model trap input) = decode_spec trap input
     spec_*                  round trips (UTF-8, UTF-16LE/BE, with and without mark), Strict accepts exactly the
                             encodings of texts                                                          *)
From Coq Require Import List NArith Bool Lia Arith.
Import ListNotations.
Require Import Consts Decode TagSpec EncodingSpec Decoders DecodeProofs TagUtf8 DecoderLoop DecoderUtf8 DecoderUtf16.
Open Scope N_scope.
Arguments N.add : simpl never.
Arguments N.sub : simpl never.
Arguments N.mul : simpl never.
Arguments N.div : simpl never.
Arguments N.modulo : simpl never.
Arguments N.eqb : simpl never.
Arguments N.ltb : simpl never.
Arguments N.leb : simpl never.
Arguments N.max : simpl never.
Arguments N.to_nat : simpl never.
Arguments N.of_nat : simpl never.

(* ================================================================================================ *)
(* 1. The decoder once it is converting                                                              *)
(* ================================================================================================ *)
Definition dec_bnd (e : encoding) (d : decoder) (rem : list N) : Prop :=
  dc_at_start d = false /\
  match dc_variant d with
  | VUtf8 s => e = Utf8 /\ u8_bnd s rem
  | VUtf16 be s => e = (if be then Utf16BE else Utf16LE) /\ u16_bnd s rem
  end.

Lemma decoder_call_ok : forall e d rem spare, dec_bnd e d rem ->
    call_ok decoder decoder_step (next_piece e) (dec_bnd e) 4 d rem spare.
Proof.
  intros e [start v] rem spare [Hs Hv]. cbn [dc_at_start dc_variant] in Hs, Hv. subst start.
  unfold call_ok, decoder_step. cbn [dc_at_start dc_variant].
  destruct v as [s|be s].
  - destruct Hv as [-> Hb]. cbn [variant_step next_piece].
    pose proof (u8_call_ok s rem spare Hb) as H. unfold call_ok, u8_step in H.
    destruct (u8_raw true s rem spare) as [[s' r] cs].
    destruct H as (Hw & rd0 & Hg & Hr). split; [exact Hw|]. exists rd0. split; [exact Hg|].
    destruct r as [|rd|ml af rd].
    + exact Hr.
    + destruct Hr as (H1 & H2 & H3 & H4). repeat split; try assumption.
    + destruct Hr as (H1 & H2 & H3 & H4 & H5). repeat split; try assumption.
  - destruct Hv as [-> Hb]. cbn [variant_step].
    assert (En : next_piece (if be then Utf16BE else Utf16LE) = utf16_next be) by (destruct be; reflexivity).
    rewrite En.
    pose proof (u16_call_ok be s rem spare Hb) as H. unfold call_ok, u16_step in H.
    destruct (u16_raw be true s rem spare) as [[s' r] cs].
    destruct H as (Hw & rd0 & Hg & Hr). split; [exact Hw|]. exists rd0. split; [exact Hg|].
    destruct r as [|rd|ml af rd].
    + exact Hr.
    + destruct Hr as (H1 & H2 & H3 & H4). repeat split; try assumption.
    + destruct Hr as (H1 & H2 & H3 & H4 & H5). repeat split; try assumption.
Qed.

Lemma next_piece_size : forall e bs, bs <> [] -> 1 <= psize (next_piece e bs) <= nlen bs.
Proof. intros [] bs H; [apply utf8_next_size|apply utf16_next_size|apply utf16_next_size]; exact H. Qed.

Lemma next_piece_bad_small : forall e bs ml, next_piece e bs = PBad ml -> ml <= 255.
Proof. intros [] bs ml H; [eapply utf8_bad_small|eapply utf16_bad_small|eapply utf16_bad_small]; exact H. Qed.

Lemma new_variant_bnd : forall e rem, dec_bnd e (Decoder false (new_variant e)) rem.
Proof.
  intros [] rem; split; try reflexivity; cbn [dc_variant new_variant]; (split; [reflexivity|]);
    [left; reflexivity|reflexivity|reflexivity].
Qed.

(* ================================================================================================ *)
(* 2. BOM sniffing: the first call                                                                   *)
(* ================================================================================================ *)
Lemma for_bom_le : forall b e k, for_bom b = Some (e, k) -> k <= nlen b.
Proof.
  intros b e k H. unfold for_bom in H. destruct b as [|b0 [|b1 t]]; try discriminate.
  rewrite !nlen_cons.
  destruct ((b0 =? 239) && (b1 =? 187) && match t with b2 :: _ => b2 =? 191 | [] => false end) eqn:E1.
  - inversion H; subst. destruct t; [rewrite !andb_false_r in E1; discriminate|]. rewrite nlen_cons. lia.
  - destruct ((b0 =? 255) && (b1 =? 254)); [inversion H; lia|].
    destruct ((b0 =? 254) && (b1 =? 255)); [inversion H; lia|discriminate].
Qed.

Lemma choose_encoding_le : forall b, snd (choose_encoding b) <= nlen b.
Proof.
  intros b. unfold choose_encoding. destruct (for_bom b) as [[e k]|] eqn:E; cbn [snd]; [|lia].
  eapply for_bom_le; exact E.
Qed.

Lemma encoding_eqb_new : forall e, encoding_eqb (variant_encoding (new_variant e)) e = true.
Proof. intros []; reflexivity. Qed.

Lemma u8_raw_nil : forall spare, u8_raw true u8_new [] spare = (u8_new, XInputEmpty, []).
Proof. intros spare. reflexivity. Qed.

Section Sniff.
  Variables div min : N.
  Variable t : xtrap.
  Variable input : list N.

  Lemma sniff_first_step : forall cap,
      xloop_step decoder decoder_step div min t input
                 (XConfig 0 (new_decoder (fst (choose_encoding input))) [] cap)
      = xloop_step decoder decoder_step div min t input
                   (XConfig (snd (choose_encoding input)) (Decoder false (new_variant (fst (choose_encoding input)))) [] cap).
  Proof.
    intros cap. pose proof (choose_encoding_le input) as Hle.
    unfold xloop_step. cbn [x_total x_dec x_text x_cap text_len].
    destruct (N.ltb_spec (nlen input) 0) as [?|_]; [lia|].
    destruct (N.ltb_spec (nlen input) (snd (choose_encoding input))) as [?|_]; [lia|].
    replace (N.to_nat 0) with 0%nat by lia. cbn [skipn].
    unfold new_decoder, decoder_step at 1. cbn [dc_at_start dc_variant].
    destruct input as [|b0 tl].
    - (* no input: both give InputEmpty *)
      cbn [choose_encoding for_bom fst snd detect_utf16_endianness new_variant].
      replace (N.to_nat 0) with 0%nat by lia. cbn [skipn decoder_step dc_at_start dc_variant variant_step].
      rewrite u8_raw_nil. reflexivity.
    - unfold choose_encoding in *. destruct (for_bom (b0 :: tl)) as [[e k]|] eqn:Eb; cbn [fst snd] in *.
      + rewrite encoding_eqb_new.
        unfold decoder_step. cbn [dc_at_start dc_variant].
        destruct (variant_step (new_variant e) (skipn (N.to_nat k) (b0 :: tl)) (cap - 0)) as [[v' r] cs].
        destruct (cap - 0 <? text_len cs); [reflexivity|].
        destruct r as [|rd|ml af rd]; cbn [add_read]; [reflexivity| |].
        * replace (0 + (rd + k)) with (k + rd) by lia. reflexivity.
        * replace (0 + (rd + k)) with (k + rd) by lia. reflexivity.
      + replace (N.to_nat 0) with 0%nat by lia. cbn [skipn].
        unfold decoder_step. cbn [dc_at_start dc_variant]. reflexivity.
  Qed.

  Lemma sniff_loop : forall fuel cap,
      xloop_go decoder decoder_step div min fuel t input
               (XConfig 0 (new_decoder (fst (choose_encoding input))) [] cap)
      = xloop_go decoder decoder_step div min fuel t input
                 (XConfig (snd (choose_encoding input)) (Decoder false (new_variant (fst (choose_encoding input)))) [] cap).
  Proof.
    intros [|f] cap; [reflexivity|]. cbn [xloop_go]. rewrite sniff_first_step. reflexivity.
  Qed.
End Sniff.

(* ================================================================================================ *)
(* 3. decode_model = decode_spec                                                                     *)
(* ================================================================================================ *)
Lemma decode_model_spec : forall t g input,
    result_of input (decode_model (xtrap_of t g) input) = decode_spec t input.
Proof.
  intros t g input. unfold decode_model, decode_spec, decode_as, xdecode_loop_impl, xdecode_loop, xinitial_config.
  pose proof (sniff_loop RESERVE_DIV RESERVE_MIN (xtrap_of t g) input (decode_fuel input)
                         (reserve 0 0 (nlen input))) as Hs.
  pose proof (choose_encoding_le input) as Hle.
  destruct (choose_encoding input) as [e k] eqn:Ec. cbn [fst snd] in Hs, Hle. rewrite Hs.
  rewrite (xloop_go_result decoder decoder_step (next_piece e) (dec_bnd e) DECODER_K RESERVE_DIV RESERVE_MIN
             (next_piece_size e) (next_piece_bad_small e) reserve_min_covers_decoder (decoder_call_ok e) t g input);
    cbn [x_dec x_total x_text x_cap].
  - reflexivity.
  - apply new_variant_bnd.
  - exact Hle.
  - unfold xneed, decode_fuel. cbn [x_total x_text x_cap].
    destruct (reserve 0 0 (nlen input) - text_len [] <? DECODER_K); lia.
Qed.

(* ================================================================================================ *)
(* 4. The specification on encoded texts                                                             *)
(* ================================================================================================ *)
Definition enc_char (e : encoding) (c : N) : list N :=
  match e with
  | Utf8 => utf8_char c
  | Utf16LE => utf16_char false c
  | Utf16BE => utf16_char true c
  end.

Lemma encode_cons : forall e c text, encode e (c :: text) = enc_char e c ++ encode e text.
Proof. intros [] c text; reflexivity. Qed.

Lemma encode_nil : forall e, encode e [] = [].
Proof. intros []; reflexivity. Qed.

Lemma utf8_char_encode : forall c, utf8_char c = utf8_encode c.
Proof. reflexivity. Qed.

Lemma skipn_app_exact : forall (a b : list N), skipn (N.to_nat (nlen a)) (a ++ b) = b.
Proof.
  intros a b. unfold nlen. rewrite Nat2N.id. induction a as [|x a IH]; [reflexivity|]. cbn [length app skipn]. exact IH.
Qed.

Lemma firstn_app_exact : forall (a b : list N), firstn (length a) (a ++ b) = a.
Proof. induction a as [|x a IH]; intros b; [reflexivity|]. cbn [length app firstn]. rewrite IH. reflexivity. Qed.

Lemma unit_of_bytes : forall be u, exists x y, unit_bytes be u = [x; y] /\ unit_of be x y = u.
Proof.
  intros [] u; unfold unit_bytes, unit_of; eexists _, _; (split; [reflexivity|lia]).
Qed.

Lemma scalar_not_surrogate : forall c, is_scalar_value c = true -> is_high c = false /\ is_low c = false /\ c <= 1114111.
Proof.
  intros c H. pose proof (is_scalar_le _ H) as Hle. unfold is_scalar_value in H. unfold is_high, is_low.
  destruct (N.ltb_spec c 55296).
  - rewrite (proj2 (N.leb_gt 55296 c)) by lia. rewrite (proj2 (N.leb_gt 56320 c)) by lia. repeat split; lia.
  - cbn [orb] in H. apply andb_true_iff in H as [H1 _]. apply N.ltb_lt in H1.
    rewrite (proj2 (N.leb_gt c 56319)) by lia. rewrite (proj2 (N.leb_gt c 57343)) by lia.
    rewrite !andb_false_r. repeat split; lia.
Qed.

Lemma next_encoded : forall e c rest, is_scalar_value c = true ->
    enc_char e c <> [] /\ next_piece e (enc_char e c ++ rest) = PChar c (nlen (enc_char e c)).
Proof.
  intros e c rest Hv.
  assert (H16 : forall be, utf16_char be c <> [] /\
                           utf16_next be (utf16_char be c ++ rest) = PChar c (nlen (utf16_char be c))).
  { intros be. destruct (scalar_not_surrogate c Hv) as (Hnh & Hnl & Hmax).
    unfold utf16_char, utf16_units. destruct (N.ltb_spec c 65536) as [Hs|Hs].
    - cbn [flat_map]. rewrite app_nil_r. destruct (unit_of_bytes be c) as (x & y & -> & Hu).
      split; [discriminate|]. cbn [app]. unfold utf16_next. cbv zeta. rewrite Hu, Hnh, Hnl. reflexivity.
    - cbv zeta. cbn [flat_map]. rewrite app_nil_r.
      set (hi := 55296 + (c - 65536) / 1024). set (lo := 56320 + (c - 65536) mod 1024).
      destruct (unit_of_bytes be hi) as (x & y & -> & Hu). destruct (unit_of_bytes be lo) as (x2 & y2 & -> & Hu2).
      split; [discriminate|]. cbn [app]. unfold utf16_next. cbv zeta. rewrite Hu, Hu2.
      assert (Hh : is_high hi = true).
      { unfold is_high, hi. apply andb_true_iff. split; apply N.leb_le; lia. }
      assert (Hl : is_low lo = true).
      { unfold is_low, lo. apply andb_true_iff. split; apply N.leb_le; lia. }
      rewrite Hh, Hl. f_equal. unfold astral, hi, lo. lia. }
  destruct e; cbn [enc_char next_piece]; [|apply H16|apply H16].
  rewrite utf8_char_encode.
  pose proof (utf8_round_trip c Hv) as Hd.
  destruct (utf8_encode c) as [|b bs] eqn:Ee; [discriminate|].
  split; [discriminate|].
  pose proof (utf8_decode_length _ _ _ Hd) as Hs.
  assert (Hvh : valid_head ((b :: bs) ++ rest) = Some (c, S (length bs))).
  { cbn [app]. unfold valid_head. rewrite Hs.
    change (b :: bs ++ rest) with ((b :: bs) ++ rest).
    change (S (length bs)) with (length (b :: bs)). rewrite firstn_app_exact, Hd. reflexivity. }
  rewrite (utf8_next_char _ _ _ Hvh). reflexivity.
Qed.

Definition char_piece (e : encoding) (c : N) : piece := PChar c (nlen (enc_char e c)).

Lemma pieces_encode : forall e text, Forall (fun c => is_scalar_value c = true) text ->
    pieces (next_piece e) (encode e text) = map (char_piece e) text.
Proof.
  intros e text H. induction H as [|c text Hc _ IH].
  - rewrite encode_nil. reflexivity.
  - rewrite encode_cons. destruct (next_encoded e c (encode e text) Hc) as [Hne Hn].
    rewrite (pieces_unfold (next_piece e) (next_piece_size e)).
    + rewrite Hn. cbn [psize map]. rewrite skipn_app_exact, IH. reflexivity.
    + destruct (enc_char e c); [congruence|discriminate].
Qed.

Lemma apply_trap_chars : forall e t input text off acc,
    apply_trap t input off (map (char_piece e) text) acc = DText (acc ++ text).
Proof.
  intros e t input text. induction text as [|c text IH]; intros off acc; cbn [map apply_trap char_piece].
  - rewrite app_nil_r. reflexivity.
  - rewrite IH, <- app_assoc. reflexivity.
Qed.

(* every trap: a text encoded in e, behind any prefix that is skipped, decodes to itself *)
Lemma decode_as_encoded : forall e t pre text, Forall (fun c => is_scalar_value c = true) text ->
    decode_as e t (pre ++ encode e text) (nlen pre) = DText text.
Proof.
  intros e t pre text H. unfold decode_as. rewrite skipn_app_exact, (pieces_encode e text H).
  apply apply_trap_chars.
Qed.

Lemma spec_round_trip : forall e t text, Forall (fun c => is_scalar_value c = true) text ->
    choose_encoding (encode e text) = (e, 0) -> decode_spec t (encode e text) = DText text.
Proof.
  intros e t text H Hc. unfold decode_spec. rewrite Hc. exact (decode_as_encoded e t [] text H).
Qed.

Lemma spec_round_trip_bom : forall e t text, Forall (fun c => is_scalar_value c = true) text ->
    decode_spec t (bom e ++ encode e text) = DText text.
Proof.
  intros e t text H. unfold decode_spec. rewrite detect_bom. exact (decode_as_encoded e t (bom e) text H).
Qed.

(* ================================================================================================ *)
(* 5. Strict: Ok only for the encoding of a text, otherwise the first malformed sequence             *)
(* ================================================================================================ *)
Lemma strict_text : forall input ps off acc text,
    apply_trap SStrict input off ps acc = DText text -> exists cs, chars_of ps = Some cs /\ text = acc ++ cs.
Proof.
  intros input ps. induction ps as [|[c k|k] ps IH]; intros off acc text H; cbn [apply_trap] in H.
  - inversion H. exists []. split; [reflexivity|]. rewrite app_nil_r. reflexivity.
  - destruct (IH _ _ _ H) as (cs & Hc & ->). exists (c :: cs). cbn [chars_of fold_right].
    change (fold_right _ _ ps) with (chars_of ps). rewrite Hc. split; [reflexivity|].
    rewrite <- app_assoc. reflexivity.
  - discriminate.
Qed.

Lemma strict_error_or_text : forall input ps off acc,
    (exists text, apply_trap SStrict input off ps acc = DText text) \/
    (exists idx bad, apply_trap SStrict input off ps acc = DError idx bad).
Proof.
  intros input ps. induction ps as [|[c k|k] ps IH]; intros off acc; cbn [apply_trap].
  - left. eexists; reflexivity.
  - apply IH.
  - right. eexists _, _; reflexivity.
Qed.

(* the first piece is a character: its bytes are the encoding of a scalar value *)
Lemma next_char_inv : forall e rem c k, Forall (fun b => b < 256) rem -> next_piece e rem = PChar c k ->
    is_scalar_value c = true /\ k = nlen (enc_char e c) /\ firstn (N.to_nat k) rem = enc_char e c.
Proof.
  intros e rem c k Hb Hn.
  assert (H16 : forall be, utf16_next be rem = PChar c k ->
                           is_scalar_value c = true /\ k = nlen (utf16_char be c) /\ firstn (N.to_nat k) rem = utf16_char be c).
  { clear Hn. intros be Hn. destruct rem as [|b0 [|b1 tl]]; try discriminate.
    unfold utf16_next in Hn. cbv zeta in Hn.
    inversion Hb as [|? ? Hb0 Hb']; subst. inversion Hb' as [|? ? Hb1 Hb'']; subst.
    set (u := unit_of be b0 b1) in *.
    assert (Hu : u = b0 * 256 + b1 \/ u = b1 * 256 + b0) by (unfold u, unit_of; destruct be; lia).
    assert (Hbytes : unit_bytes be u = [b0; b1]).
    { unfold u, unit_bytes, unit_of. destruct be; f_equal; try lia; f_equal; lia. }
    destruct (is_high u) eqn:Hh.
    - destruct tl as [|c0 [|c1 tl2]]; try discriminate.
      inversion Hb'' as [|? ? Hc0 Hb3]; subst. inversion Hb3 as [|? ? Hc1 _]; subst.
      set (v := unit_of be c0 c1) in *.
      assert (Hbytes2 : unit_bytes be v = [c0; c1]).
      { unfold v, unit_bytes, unit_of. destruct be; f_equal; try lia; f_equal; lia. }
      destruct (is_low v) eqn:Hl; [|discriminate]. inversion Hn; subst c k. clear Hn.
      unfold is_high in Hh. unfold is_low in Hl.
      apply andb_true_iff in Hh as [Hh1 Hh2]. apply andb_true_iff in Hl as [Hl1 Hl2].
      apply N.leb_le in Hh1, Hh2, Hl1, Hl2.
      assert (Ha : 65536 <= astral u v <= 1114111) by (unfold astral; lia).
      split.
      { unfold is_scalar_value. rewrite (proj2 (N.ltb_ge (astral u v) 55296)) by lia.
        rewrite (proj2 (N.ltb_lt 57343 (astral u v))) by lia. rewrite (proj2 (N.leb_le (astral u v) 1114111)) by lia.
        reflexivity. }
      assert (Hchar : utf16_char be (astral u v) = [b0; b1; c0; c1]).
      { unfold utf16_char, utf16_units. rewrite (proj2 (N.ltb_ge (astral u v) 65536)) by lia. cbv zeta.
        replace (55296 + (astral u v - 65536) / 1024) with u by (unfold astral; lia).
        replace (56320 + (astral u v - 65536) mod 1024) with v by (unfold astral; lia).
        cbn [flat_map]. rewrite Hbytes, Hbytes2. reflexivity. }
      rewrite Hchar. split; [reflexivity|]. replace (N.to_nat 4) with 4%nat by lia. reflexivity.
    - destruct (is_low u) eqn:Hl; [discriminate|]. inversion Hn; subst c k. clear Hn.
      unfold is_high in Hh. unfold is_low in Hl.
      assert (Hs : u < 55296 \/ 57343 < u).
      { destruct (N.leb_spec 55296 u), (N.leb_spec u 56319), (N.leb_spec 56320 u), (N.leb_spec u 57343);
          cbn [andb] in *; try discriminate; lia. }
      assert (Hu16 : u < 65536) by lia.
      split.
      { unfold is_scalar_value. destruct Hs.
        - rewrite (proj2 (N.ltb_lt u 55296)) by lia. reflexivity.
        - rewrite (proj2 (N.ltb_ge u 55296)) by lia. rewrite (proj2 (N.ltb_lt 57343 u)) by lia.
          rewrite (proj2 (N.leb_le u 1114111)) by lia. reflexivity. }
      assert (Hchar : utf16_char be u = [b0; b1]).
      { unfold utf16_char, utf16_units. rewrite (proj2 (N.ltb_lt u 65536)) by lia.
        cbn [flat_map]. rewrite Hbytes. reflexivity. }
      rewrite Hchar. split; [reflexivity|]. replace (N.to_nat 2) with 2%nat by lia. reflexivity. }
  destruct e; cbn [next_piece enc_char] in *; [|apply H16; exact Hn|apply H16; exact Hn].
  destruct (valid_head rem) as [[c' k']|] eqn:Hv.
  - rewrite (utf8_next_char _ _ _ Hv) in Hn. inversion Hn; subst c' k. clear Hn.
    destruct (valid_head_facts _ _ _ Hv) as (_ & Hk & _ & Hlen & Hf & Hs).
    split; [exact Hs|]. rewrite utf8_char_encode, Nat2N.id. split; [|exact Hf].
    rewrite <- Hf. unfold nlen. rewrite firstn_length. f_equal. lia.
  - rewrite (utf8_next_bad _ Hv) in Hn. discriminate.
Qed.

Lemma Forall_skipn : forall (P : N -> Prop) k l, Forall P l -> Forall P (skipn k l).
Proof.
  intros P k. induction k as [|k IH]; intros l H; [exact H|]. destruct l; [constructor|].
  inversion H; subst. cbn [skipn]. apply IH. assumption.
Qed.

Lemma pieces_chars_encode : forall e n rem cs, (length rem <= n)%nat -> Forall (fun b => b < 256) rem ->
    chars_of (pieces (next_piece e) rem) = Some cs ->
    rem = encode e cs /\ Forall (fun c => is_scalar_value c = true) cs.
Proof.
  intros e. induction n as [|n IH]; intros rem cs Hlen Hb Hc.
  - destruct rem; [|cbn [length] in Hlen; lia]. cbn in Hc. inversion Hc. rewrite encode_nil. split; constructor.
  - destruct rem as [|b tl].
    { cbn in Hc. inversion Hc. rewrite encode_nil. split; constructor. }
    rewrite (pieces_unfold (next_piece e) (next_piece_size e)) in Hc by discriminate.
    cbn [chars_of fold_right] in Hc.
    destruct (next_piece e (b :: tl)) as [c k|k] eqn:Hn; [|discriminate].
    cbn [psize] in Hc.
    change (fold_right _ _ ?ps) with (chars_of ps) in Hc.
    destruct (chars_of (pieces (next_piece e) (skipn (N.to_nat k) (b :: tl)))) as [cs'|] eqn:Hc'; [|discriminate].
    inversion Hc; subst cs. clear Hc.
    destruct (next_char_inv e _ _ _ Hb Hn) as (Hs & Hk & Hf).
    pose proof (next_piece_size e (b :: tl) ltac:(discriminate)) as [Hk1 Hk2]. rewrite Hn in Hk1, Hk2. cbn [psize] in Hk1, Hk2.
    destruct (IH (skipn (N.to_nat k) (b :: tl)) cs') as [Hr Hsc].
    + rewrite skipn_length. cbn [length] in *. lia.
    + apply Forall_skipn. exact Hb.
    + exact Hc'.
    + split; [|constructor; assumption].
      rewrite encode_cons, <- Hf, <- Hr. symmetry. apply firstn_skipn.
Qed.

(* Strict returns a text only for the encoding of that text *)
Lemma strict_sound : forall input text, Forall (fun b => b < 256) input ->
    decode_spec SStrict input = DText text ->
    skipn (N.to_nat (snd (choose_encoding input))) input = encode (fst (choose_encoding input)) text
    /\ Forall (fun c => is_scalar_value c = true) text.
Proof.
  intros input text Hb H. unfold decode_spec in H. destruct (choose_encoding input) as [e k]. cbn [fst snd].
  unfold decode_as in H. destruct (strict_text _ _ _ _ _ H) as (cs & Hc & ->). cbn [app].
  apply (pieces_chars_encode e (length (skipn (N.to_nat k) input))); [lia|apply Forall_skipn; exact Hb|exact Hc].
Qed.

(* ... and otherwise reports the first malformed sequence: everything before it is the encoding of a text *)
Lemma strict_first_error : forall e n input off rem acc idx bad,
    (length rem <= n)%nat -> Forall (fun b => b < 256) rem ->
    apply_trap SStrict input off (pieces (next_piece e) rem) acc = DError idx bad ->
    exists text ml,
      off <= idx /\ firstn (N.to_nat (idx - off)) rem = encode e text /\
      Forall (fun c => is_scalar_value c = true) text /\
      next_piece e (skipn (N.to_nat (idx - off)) rem) = PBad ml /\ bad = slice input idx ml.
Proof.
  intros e. induction n as [|n IH]; intros input off rem acc idx bad Hlen Hb H.
  - destruct rem; [|cbn [length] in Hlen; lia]. cbn in H. discriminate.
  - destruct rem as [|b tl]; [cbn in H; discriminate|].
    rewrite (pieces_unfold (next_piece e) (next_piece_size e)) in H by discriminate.
    pose proof (next_piece_size e (b :: tl) ltac:(discriminate)) as [Hk1 Hk2].
    destruct (next_piece e (b :: tl)) as [c k|k] eqn:Hn; cbn [psize apply_trap] in *.
    + destruct (next_char_inv e _ _ _ Hb Hn) as (Hs & Hk & Hf).
      destruct (IH input (off + k) (skipn (N.to_nat k) (b :: tl)) (acc ++ [c]) idx bad) as (text & ml & Hle & Hpre & Hsc & Hbad & Hsl).
      * rewrite skipn_length. cbn [length] in *. lia.
      * apply Forall_skipn. exact Hb.
      * exact H.
      * exists (c :: text), ml. split; [lia|].
        replace (idx - off) with (k + (idx - (off + k))) by lia.
        split.
        { rewrite encode_cons, <- Hf, <- Hpre.
          rewrite N2Nat.inj_add. rewrite <- (firstn_skipn (N.to_nat k) (b :: tl)) at 1.
          rewrite firstn_app. rewrite firstn_length. rewrite firstn_firstn.
          replace (Init.Nat.min (N.to_nat k + N.to_nat (idx - (off + k))) (N.to_nat k)) with (N.to_nat k) by lia.
          f_equal. f_equal. unfold nlen in Hk2. cbn [length] in *. lia. }
        split; [constructor; assumption|]. split; [|exact Hsl].
        rewrite skipn_N_add. exact Hbad.
    + inversion H; subst idx bad. exists [], k. rewrite N.sub_diag. replace (N.to_nat 0) with 0%nat by lia.
      cbn [firstn skipn]. rewrite encode_nil. split; [lia|]. split; [reflexivity|]. split; [constructor|].
      split; [exact Hn|reflexivity].
Qed.

(* ================================================================================================ *)
(* 6. Consequences for the model of decode                                                           *)
(* ================================================================================================ *)
Lemma apply_trap_normal : forall t input ps off acc, apply_trap t input off ps acc <> DAbnormal.
Proof.
  intros t input ps. induction ps as [|[c k|k] ps IH]; intros off acc; cbn [apply_trap]; [discriminate|apply IH|].
  destruct t as [| | |cb]; [apply IH|discriminate|apply IH|].
  destruct (cb k 0 (skipn (N.to_nat off) input) acc) as [t2|[|]]; [apply IH|discriminate|discriminate].
Qed.

(* decode always ends, with a value of the specification: no panic of the loop, fuel left *)
Lemma decode_model_normal : forall t g input, result_of input (decode_model (xtrap_of t g) input) <> DAbnormal.
Proof.
  intros t g input. rewrite decode_model_spec. unfold decode_spec. destruct (choose_encoding input) as [e k].
  apply apply_trap_normal.
Qed.

Definition scalars (text : list N) : Prop := Forall (fun c => is_scalar_value c = true) text.
Definition bytes (input : list N) : Prop := Forall (fun b => b < 256) input.

Lemma model_round_trip : forall e t g text, scalars text -> detectable e text = true ->
    result_of (encode e text) (decode_model (xtrap_of t g) (encode e text)) = DText text.
Proof.
  intros e t g text Hs Hd. rewrite decode_model_spec. apply spec_round_trip; [exact Hs|].
  apply detect_no_bom. exact Hd.
Qed.

Lemma model_round_trip_bom : forall e t g text, scalars text ->
    result_of (bom e ++ encode e text) (decode_model (xtrap_of t g) (bom e ++ encode e text)) = DText text.
Proof. intros e t g text Hs. rewrite decode_model_spec. apply spec_round_trip_bom. exact Hs. Qed.

Lemma model_strict_sound : forall input text, bytes input ->
    result_of input (decode_model XStrict input) = DText text ->
    skipn (N.to_nat (snd (choose_encoding input))) input = encode (fst (choose_encoding input)) text /\ scalars text.
Proof.
  intros input text Hb H. change XStrict with (xtrap_of SStrict (fun _ _ _ _ => 0)) in H.
  rewrite decode_model_spec in H. apply strict_sound; assumption.
Qed.

Lemma model_strict_total : forall input,
    (exists text, result_of input (decode_model XStrict input) = DText text) \/
    (exists idx bad, result_of input (decode_model XStrict input) = DError idx bad).
Proof.
  intros input. change XStrict with (xtrap_of SStrict (fun _ _ _ _ => 0)). rewrite decode_model_spec.
  unfold decode_spec, decode_as. destruct (choose_encoding input) as [e k]. apply strict_error_or_text.
Qed.

Lemma model_strict_error : forall input idx bad, bytes input ->
    result_of input (decode_model XStrict input) = DError idx bad ->
    let e := fst (choose_encoding input) in
    let k := snd (choose_encoding input) in
    exists text ml,
      k <= idx /\ slice input k (idx - k) = encode e text /\ scalars text /\
      next_piece e (skipn (N.to_nat idx) input) = PBad ml /\ bad = slice input idx ml.
Proof.
  intros input idx bad Hb H. change XStrict with (xtrap_of SStrict (fun _ _ _ _ => 0)) in H.
  rewrite decode_model_spec in H. unfold decode_spec, decode_as in H.
  destruct (choose_encoding input) as [e k]. cbn [fst snd].
  destruct (strict_first_error e (length (skipn (N.to_nat k) input)) input k (skipn (N.to_nat k) input) [] idx bad
              (Nat.le_refl _) (Forall_skipn _ _ _ Hb) H) as (text & ml & Hle & Hpre & Hsc & Hbad & Hsl).
  exists text, ml. split; [exact Hle|]. split; [exact Hpre|]. split; [exact Hsc|]. split; [|exact Hsl].
  rewrite <- skipn_N_add in Hbad. replace (k + (idx - k)) with idx in Hbad by lia. exact Hbad.
Qed.
