(* C16 — scanner + parser composed at TEXT level.

   For every handle `!name!` (name of word characters, possibly empty: `!!`) or `!`... see [tag_doc_text]:
   the stream

       %TAG <handle> <prefix text>
       --- <handle><suffix text> x

   run through the scanner model (string back-end) and then the parser model yields exactly one node event whose
   tag is (percent_decode prefix, percent_decode suffix) and ends without error — for all such texts, with or
   without keep_tags ([tags_of_tag_doc]).  The token stream is given explicitly ([scan_tag_doc]). *)
From Coq Require Import List NArith ZArith Bool Lia.
Import ListNotations.
Require Import Parser TagSpec SBase SPrim SDir SScalar SFetch Pipe Drivers TagRun TagUtf8 TagScanText TagProofs.
Open Scope N_scope.
Open Scope mon_scope.

(* ========================================================================================== *)
(* 1. Top-level scanner states: block context, no indentation, no simple key pending              *)
(* ========================================================================================== *)
Definition sk0 : simple_key := {| sk_possible := false; sk_required := false; sk_token_number := 0; sk_mark := mk0 |}.

Definition base (toks : list token) (ska : bool) (tp : N) (ta : bool) : sc strin :=
  {| sc_in := {| si_chars := []; si_look := 0 |}; sc_mark := mk0; sc_tokens := toks;
     sc_stream_start := true; sc_stream_end := false; sc_adjacent := 0; sc_ska := ska;
     sc_sks := [sk0]; sc_indent := (-1)%Z; sc_indents := []; sc_flow_level := 0; sc_tokens_parsed := tp;
     sc_token_available := ta; sc_lws := false; sc_ifms := [] |}.

Definition top (l : list N) (lk : nat) (m : marker) (w : bool) (toks : list token) (ska : bool) (tp : N) (ta : bool)
  : sc strin := st l lk m w (base toks ska tp ta).

Lemma get_top : forall l lk m w toks ska tp ta,
  get (top l lk m w toks ska tp ta) = SBase.Ok (top l lk m w toks ska tp ta, top l lk m w toks ska tp ta).
Proof. reflexivity. Qed.
Lemma stale_top : forall l lk m w toks ska tp ta,
  stale_simple_keys (top l lk m w toks ska tp ta) = SBase.Ok (tt, top l lk m w toks ska tp ta).
Proof. reflexivity. Qed.
Lemma remove_sk_top : forall l lk m w toks ska tp ta,
  remove_simple_key (top l lk m w toks ska tp ta) = SBase.Ok (tt, top l lk m w toks ska tp ta).
Proof. reflexivity. Qed.
Lemma disallow_top : forall l lk m w toks ska tp ta,
  disallow_simple_key (top l lk m w toks ska tp ta) = SBase.Ok (tt, top l lk m w toks false tp ta).
Proof. reflexivity. Qed.
Lemma save_sk_top : forall l lk m w toks tp ta,
  save_simple_key (top l lk m w toks false tp ta) = SBase.Ok (tt, top l lk m w toks false tp ta).
Proof. reflexivity. Qed.
Lemma push_tok_top : forall t l lk m w toks ska tp ta,
  push_tok t (top l lk m w toks ska tp ta) = SBase.Ok (tt, top l lk m w (toks ++ [t]) ska tp ta).
Proof. reflexivity. Qed.
Lemma unroll_top : forall z l lk m w toks ska tp ta, (z <? -1)%Z = false ->
  unroll_indent z (top l lk m w toks ska tp ta) = SBase.Ok (tt, top l lk m w toks ska tp ta).
Proof.
  intros z l lk m w toks ska tp ta H. unfold unroll_indent, bind, get, top. cbn. rewrite H. reflexivity.
Qed.
Lemma unroll_top_col : forall c l lk m w toks ska tp ta,
  unroll_indent (Z.of_N c) (top l lk m w toks ska tp ta) = SBase.Ok (tt, top l lk m w toks ska tp ta).
Proof. intros. apply unroll_top. apply Z.ltb_ge. lia. Qed.

Lemma within_block_top : forall l lk m w toks ska tp ta,
  is_within_block (top l lk m w toks ska tp ta) = SBase.Ok (false, top l lk m w toks ska tp ta).
Proof. reflexivity. Qed.
Lemma get_any : forall (s : sc strin), get s = SBase.Ok (s, s).
Proof. reflexivity. Qed.

Ltac top_eq :=
  lazymatch goal with
  | |- get _ = _ => apply get_any
  | |- stale_simple_keys _ = _ => apply stale_top
  | |- remove_simple_key _ = _ => apply remove_sk_top
  | |- disallow_simple_key _ = _ => apply disallow_top
  | |- save_simple_key _ = _ => apply save_sk_top
  | |- push_tok _ _ = _ => apply push_tok_top
  | |- unroll_indent _ _ = _ => first [apply unroll_top_col | apply unroll_top; reflexivity]
  | |- is_within_block _ = _ => apply within_block_top
  | |- next_is _ _ _ = _ => apply next_is_st
  | _ => prim_eq
  end.
Ltac tstep := unfold chr in *; rewrite ?bind_bind; erewrite bind_eq; [|top_eq]; cbv beta.
(* projections of a state in top form *)
Ltac fld :=
  cbn [SBase.sc_in SBase.sc_mark SBase.sc_tokens SBase.sc_stream_start SBase.sc_stream_end SBase.sc_adjacent
       SBase.sc_ska SBase.sc_sks SBase.sc_indent SBase.sc_indents SBase.sc_flow_level SBase.sc_tokens_parsed
       SBase.sc_token_available SBase.sc_lws SBase.sc_ifms st base top set_lws set_flags set_mark set_in upd
       si_chars si_look].

(* skip_to_next_token at a character that is not a blank, a break or '#' *)
Lemma skip_to_next_token_none : forall F c l lk m w toks ska tp ta,
  F <> 0%nat -> c <> 9 -> c <> 32 -> c <> 10 -> c <> 13 -> c <> 35 ->
  skip_to_next_token str_ops F (top (c :: l) lk m w toks ska tp ta)
  = SBase.Ok (tt, top (c :: l) (Nat.max lk 1) m w toks ska tp ta).
Proof.
  intros F c l lk m w toks ska tp ta HF H9 H32 H10 H13 H35. destruct F as [|F]; [contradiction|].
  unfold top. cbn [skip_to_next_token]. tstep. cbn [nth]. tstep. tstep.
  rewrite (proj2 (N.eqb_neq _ _) H9), (proj2 (N.eqb_neq _ _) H32), (proj2 (N.eqb_neq _ _) H10),
          (proj2 (N.eqb_neq _ _) H13), (proj2 (N.eqb_neq _ _) H35). reflexivity.
Qed.

(* ... at the end of input *)
Lemma skip_to_next_token_eof : forall F lk m w toks ska tp ta,
  F <> 0%nat ->
  skip_to_next_token str_ops F (top [] lk m w toks ska tp ta) = SBase.Ok (tt, top [] (Nat.max lk 1) m w toks ska tp ta).
Proof. intros F lk m w toks ska tp ta HF. destruct F as [|F]; [contradiction|]. reflexivity. Qed.

(* ... at one space followed by such a character *)
Lemma skip_to_next_token_space : forall F c l lk m w toks ska tp ta,
  (2 <= F)%nat -> c <> 9 -> c <> 32 -> c <> 10 -> c <> 13 -> c <> 35 ->
  skip_to_next_token str_ops F (top (32 :: c :: l) lk m w toks ska tp ta)
  = SBase.Ok (tt, top (c :: l) (Nat.max lk 1) (adv 1 m) w toks ska tp ta).
Proof.
  intros F c l lk m w toks ska tp ta HF H9 H32 H10 H13 H35. destruct F as [|F]; [lia|].
  unfold top. cbn [skip_to_next_token]. tstep. cbn [nth]. tstep. tstep.
  change (32 =? 9) with false. change (32 =? 32) with true. cbn [andb orb]. tstep. cbn [tl].
  refine (eq_trans (skip_to_next_token_none F c l _ _ w toks ska tp ta ltac:(lia) H9 H32 H10 H13 H35) _).
  unfold top. rewrite <- Nat.max_assoc, Nat.max_id. reflexivity.
Qed.

(* ========================================================================================== *)
(* 2. One token at a time                                                                        *)
(* ========================================================================================== *)
Definition m1 : marker := {| m_index := 0; m_line := 1; m_col := 0 |}.

Lemma next_token_init : forall F text, (2 <= F)%nat ->
  next_token str_ops F (init_sc {| si_chars := text; si_look := 0 |})
  = SBase.Ok (Some (span_empty m1, TStreamStart), top text 1 m1 true [] true 1 false).
Proof. intros F text HF. destruct F as [|[|F]]; [lia|lia|]. reflexivity. Qed.

(* the generic step: if fetching from an empty queue produces exactly one token (and leaves no simple key
   possible), next_token delivers it *)
Lemma next_token_top : forall F l lk m w ska tp t l' lk' m' w' ska',
  (2 <= F)%nat ->
  fetch_next_token str_ops F (top l lk m w [] ska tp false) = SBase.Ok (tt, top l' lk' m' w' [t] ska' tp false) ->
  snd t <> TStreamEnd ->
  next_token str_ops F (top l lk m w [] ska tp false) = SBase.Ok (Some t, top l' lk' m' w' [] ska' (tp + 1) false).
Proof.
  intros F l lk m w ska tp t l' lk' m' w' ska' HF H Hne. destruct F as [|[|F]]; [lia|lia|].
  unfold next_token. erewrite bind_eq; [|apply get_any]. fld. cbv iota.
  cbn [fetch_more_tokens]. rewrite bind_bind. erewrite bind_eq; [|apply get_any]. fld.
  rewrite bind_bind. erewrite bind_eq; [|apply ret_st]. cbv iota.
  rewrite bind_bind. erewrite bind_eq; [|exact H].
  destruct t as [sp k]. cbn [snd] in Hne.
  destruct k; try contradiction; reflexivity.
Qed.

(* the last two calls *)
Lemma next_token_end : forall F l lk m w ska tp sp l' lk' m' w' ska',
  (2 <= F)%nat ->
  fetch_next_token str_ops F (top l lk m w [] ska tp false)
    = SBase.Ok (tt, top l' lk' m' w' [(sp, TStreamEnd)] ska' tp false) ->
  exists s', next_token str_ops F (top l lk m w [] ska tp false) = SBase.Ok (Some (sp, TStreamEnd), s')
             /\ next_token str_ops F s' = SBase.Ok (None, s').
Proof.
  intros F l lk m w ska tp sp l' lk' m' w' ska' HF H. destruct F as [|[|F]]; [lia|lia|].
  eexists. split.
  - unfold next_token. erewrite bind_eq; [|apply get_any]. fld. cbv iota.
    cbn [fetch_more_tokens]. rewrite bind_bind. erewrite bind_eq; [|apply get_any]. fld.
    rewrite bind_bind. erewrite bind_eq; [|apply ret_st]. cbv iota.
    rewrite bind_bind. erewrite bind_eq; [|exact H]. reflexivity.
  - reflexivity.
Qed.

(* ---- the common beginning of fetch_next_token at top level ---- *)
Lemma z_of_col_lt : forall c, (Z.of_N c <? -1)%Z = false.
Proof. intros c. apply Z.ltb_ge. lia. Qed.

Ltac eqb_false H := rewrite (proj2 (N.eqb_neq _ _) H).

(* %TAG line *)
Lemma fetch_tag_directive : forall F bl1 h bl2 l t rest lk i ln w ska tp,
  bl1 <> [] -> Forall (fun c => is_blank c = true) bl1 -> dir_handle h ->
  bl2 <> [] -> Forall (fun c => is_blank c = true) bl2 ->
  decodes l t -> prefix_text l ->
  (4 + length bl1 + length h + length bl2 + length l < F)%nat ->
  let m := {| m_index := i; m_line := ln; m_col := 0 |} in
  let n := N.of_nat (4 + length bl1 + length h + length bl2 + length l) in
  exists lk', (lk <= lk')%nat /\
    fetch_next_token str_ops F (top (s_tag_line ++ bl1 ++ h ++ bl2 ++ l ++ 10 :: rest) lk m w [] ska tp false)
    = SBase.Ok (tt, top rest lk' (nlm (adv n m)) true [(mkspan m (adv n m), TTagDirective h t)] false tp false).
Proof.
  intros F bl1 h bl2 l t rest lk i ln w ska tp Hne1 HB1 HH Hne2 HB2 HD HP HL m n.
  unfold fetch_next_token, s_tag_line. cbn [app]. unfold top.
  tstep. tstep. fld. cbn [negb].
  erewrite bind_eq; [|apply skip_to_next_token_none; [lia|discriminate..]]. unfold top.
  tstep. tstep. tstep. tstep. tstep. cbn [nth]. change (is_z 37) with false. cbv iota.
  tstep. tstep. cbn [nth]. fld. unfold m. cbn [m_col]. change (0 =? 0) with true. change (37 =? 37) with true.
  cbn [andb negb]. cbv iota. tstep. tstep. cbv iota.
  unfold fetch_directive. tstep. tstep. tstep.
  destruct (scan_directive_tag_text F bl1 h bl2 l t rest (Nat.max (Nat.max (Nat.max lk 1) 1) 4) m w (base [] false tp false)
              Hne1 HB1 HH Hne2 HB2 HD HP HL) as [lk' [Hlk E]]. cbv zeta in E.
  exists lk'. split; [lia|]. erewrite bind_eq; [|exact E]. apply push_tok_top.
Qed.

(* `--- ` at column 0 *)
Lemma next_is_document_start_st : forall c3 r lk m w s, (4 <= lk)%nat ->
  next_is_document_start str_ops (st (45 :: 45 :: 45 :: c3 :: r) lk m w s)
  = SBase.Ok (is_blank_or_breakz c3, st (45 :: 45 :: 45 :: c3 :: r) lk m w s).
Proof.
  intros c3 r lk m w s Hlk. unfold next_is_document_start, next_3_are. rewrite ?bind_bind.
  erewrite bind_eq; [|apply assert_buflen_st; exact Hlk]. rewrite ?bind_bind.
  erewrite bind_eq; [|apply assert_buflen_st; lia]. mstep. mstep. mstep. mstep. cbn [nth].
  change ((45 =? 45) && (45 =? 45) && (45 =? 45)) with true. cbv iota. mstep. reflexivity.
Qed.

Lemma fetch_document_start : forall F c3 rest lk i ln w ska tp,
  (1 <= F)%nat -> is_blank_or_breakz c3 = true ->
  let m := {| m_index := i; m_line := ln; m_col := 0 |} in
  exists lk', (lk <= lk')%nat /\
  fetch_next_token str_ops F (top (45 :: 45 :: 45 :: c3 :: rest) lk m w [] ska tp false)
  = SBase.Ok (tt, top (c3 :: rest) lk' (adv 3 m) false [(spn m (adv 3 m), TDocumentStart)] false tp false).
Proof.
  intros F c3 rest lk i ln w ska tp HF Hc3 m. eexists. split; cycle 1.
  unfold fetch_next_token. unfold top.
  tstep. tstep. fld. cbn [negb].
  erewrite bind_eq; [|apply skip_to_next_token_none; [lia|discriminate..]]. unfold top.
  tstep. tstep. tstep. tstep. tstep. cbn [nth]. change (is_z 45) with false. cbv iota.
  tstep. tstep. cbn [nth]. fld. unfold m. cbn [m_col]. change (0 =? 0) with true. change (45 =? 37) with false.
  cbv iota. rewrite ?bind_bind.
  erewrite bind_eq; [|apply next_is_document_start_st; lia]. rewrite Hc3. cbn [andb negb]. cbv iota.
  tstep. cbv iota.
  unfold fetch_document_indicator. tstep. tstep. tstep. tstep. tstep. tstep. cbn [skipn].
  refine (eq_trans (push_tok_top _ _ _ _ _ _ _ _ _) _). reflexivity. lia.
Qed.

Lemma col_adv1 : forall m, (m_col (adv 1 m) =? 0) = false.
Proof. intros [i l c]. cbn [adv m_col]. apply N.eqb_neq. lia. Qed.

Ltac chain := cbn [N.eqb Pos.eqb andb orb negb].

(* what it means that the scanner reads the tag text [ttext] as the tag (h, sfx): for every state whose text
   starts with it, followed by something that may follow a tag *)
Definition tag_scans (F : nat) (ttext h sfx : list N) : Prop :=
  forall rest lk m w s, tag_end (sc_flow_level s) (hd 0 rest) = true ->
  exists lk', (lk <= lk')%nat /\
    scan_tag str_ops F (st (ttext ++ rest) lk m w s)
    = SBase.Ok ((mkspan m (adv (N.of_nat (length ttext)) m), TTag h sfx),
                st rest lk' (adv (N.of_nat (length ttext)) m) false s).

(* the five spellings *)

Lemma tag_scans_verbatim : forall F l t,
  decodes l t -> Forall (fun c => is_uri_char c = true) l -> (length l < F)%nat ->
  tag_scans F (verbatim_text l) [] t.
Proof.
  intros F l t HD HF HL rest lk m w s HE. unfold verbatim_text.
  destruct (scan_tag_verbatim F l t rest lk m w s HD HF HL HE) as [lk' [Hlk E]].
  exists lk'. split; [exact Hlk|]. cbn [app]. rewrite <- app_assoc. cbn [app].
  refine (eq_trans E _). cbn [length]. rewrite app_length. cbn [length]. fin_eq.
Qed.

Lemma tag_scans_named : forall F name l t,
  Forall (fun c => is_alpha c = true) name -> decodes l t -> Forall (fun c => is_tag_char c = true) l -> l <> [] ->
  (length name + length l < F)%nat ->
  tag_scans F (named_text name l) (named_handle name) t.
Proof.
  intros F name l t HN HD HF Hne HL rest lk m w s HE. unfold named_text, named_handle.
  destruct (scan_tag_named F name l t rest lk m w s HN HD HF Hne HL HE) as [lk' [Hlk E]].
  exists lk'. split; [exact Hlk|]. cbn [app]. rewrite <- !app_assoc. cbn [app].
  refine (eq_trans E _). cbn [length]. rewrite !app_length. cbn [length]. fin_eq.
Qed.

Lemma tag_scans_local : forall F l t,
  decodes l t -> Forall (fun c => is_tag_char c = true) l -> l <> [] -> (length l < F)%nat ->
  tag_scans F (local_text l) [33] t.
Proof.
  intros F l t HD HF Hne HL rest lk m w s HE. unfold local_text.
  destruct (scan_tag_local F l t rest lk m w s HD HF HL HE) as [lk' [Hlk E]].
  exists lk'. split; [exact Hlk|]. cbn [app]. refine (eq_trans E _).
  pose proof (decodes_nonempty _ _ HD Hne) as Ht. destruct t; [contradiction|]. cbn [length]. fin_eq.
Qed.

Lemma tag_scans_nonspecific : forall F, (0 < F)%nat -> tag_scans F [33] [] [33].
Proof.
  intros F HF rest lk m w s HE.
  destruct (scan_tag_local F [] [] rest lk m w s dec_nil ltac:(constructor) HF HE) as [lk' [Hlk E]].
  exists lk'. split; [exact Hlk|]. exact E.
Qed.

(* ` <tag>` followed by a blank, a break or the end of input, after `---` *)
Lemma fetch_tag_gen : forall F ttext h sfx rest lk m w tp,
  tag_scans F (33 :: ttext) h sfx -> (2 <= F)%nat -> is_blank_or_breakz (hd 0 rest) = true ->
  let n := N.of_nat (length (33 :: ttext)) in
  exists lk', (lk <= lk')%nat /\
    fetch_next_token str_ops F (top (32 :: 33 :: ttext ++ rest) lk m w [] false tp false)
    = SBase.Ok (tt, top rest lk' (adv n (adv 1 m)) false
                      [(mkspan (adv 1 m) (adv n (adv 1 m)), TTag h sfx)] false tp false).
Proof.
  intros F ttext h sfx rest lk m w tp HS HF HR n.
  unfold fetch_next_token. unfold top.
  tstep. tstep. fld. cbn [negb].
  erewrite bind_eq; [|apply skip_to_next_token_space; [lia|discriminate..]]. unfold top.
  tstep. tstep. tstep. tstep. tstep. cbn [nth]. change (is_z 33) with false. cbv iota.
  tstep. tstep. cbn [nth]. fld. rewrite col_adv1. cbn [andb]. cbv iota. tstep. tstep. cbv iota.
  rewrite z_of_col_lt. tstep. tstep. cbn [nth]. chain. cbv iota.
  unfold fetch_tag. tstep. tstep.
  assert (HE : tag_end (sc_flow_level (base [] false tp false)) (hd 0 rest) = true).
  { unfold tag_end. rewrite HR. reflexivity. }
  destruct (HS rest (Nat.max (Nat.max (Nat.max lk 1) 1) 4) (adv 1 m) w (base [] false tp false) HE) as [lk' [Hlk E]].
  exists lk'. split; [lia|]. erewrite bind_eq; [|exact E]. apply push_tok_top.
Qed.

(* ` x` and the end of input *)
Lemma scan_plain_x : forall F lk m toks tp, (2 <= F)%nat ->
  scan_plain_scalar str_ops F (top [120] lk m false toks false tp false)
  = SBase.Ok ((mkspan m (adv 1 m), TScalar Plain [120]),
              top [] (Nat.max (Nat.max lk 4) 128) (adv 1 m) false toks false tp false).
Proof. intros F lk m toks tp HF. destruct F as [|[|F]]; [lia|lia|]. reflexivity. Qed.

Lemma fetch_plain_x : forall F lk m tp, (2 <= F)%nat ->
  exists lk', (lk <= lk')%nat /\
    fetch_next_token str_ops F (top [32; 120] lk m false [] false tp false)
    = SBase.Ok (tt, top [] lk' (adv 1 (adv 1 m)) false
                      [(mkspan (adv 1 m) (adv 1 (adv 1 m)), TScalar Plain [120])] false tp false).
Proof.
  intros F lk m tp HF.
  unfold fetch_next_token. unfold top.
  tstep. tstep. fld. cbn [negb].
  erewrite bind_eq; [|apply skip_to_next_token_space; [lia|discriminate..]]. unfold top.
  tstep. tstep. tstep. tstep. tstep. cbn [nth]. change (is_z 120) with false. cbv iota.
  tstep. tstep. cbn [nth]. fld. rewrite col_adv1. cbn [andb]. cbv iota. tstep. tstep. cbv iota.
  rewrite z_of_col_lt. tstep. tstep. cbn [nth]. chain. cbv iota.
  unfold fetch_plain_scalar. tstep. tstep.
  eexists. split; cycle 1.
  erewrite bind_eq; [|apply scan_plain_x; exact HF]. apply push_tok_top. lia.
Qed.

(* the end of input *)
Lemma col_adv_pos : forall k m, k <> 0 -> (m_col (adv k m) =? 0) = false.
Proof. intros k [i l c] H. cbn [adv m_col]. apply N.eqb_neq. lia. Qed.

Lemma fetch_stream_end_top : forall F lk m tp, (1 <= F)%nat -> (m_col m =? 0) = false ->
  let m' := {| m_index := m_index m; m_line := m_line m + 1; m_col := 0 |} in
  exists lk', (lk <= lk')%nat /\
    fetch_next_token str_ops F (top [] lk m false [] false tp false)
    = SBase.Ok (tt, top [] lk' m' false [(span_empty m', TStreamEnd)] false tp false).
Proof.
  intros F lk m tp HF Hc m'.
  unfold fetch_next_token. unfold top.
  tstep. tstep. fld. cbn [negb].
  erewrite bind_eq; [|apply skip_to_next_token_eof; lia]. unfold top.
  tstep. tstep. tstep. tstep. tstep. cbn [nth]. change (is_z 0) with true. cbv iota.
  unfold fetch_stream_end. unfold modify at 1. erewrite bind_eq; [|reflexivity]. fld. rewrite Hc.
  eexists. split; cycle 1. reflexivity. lia.
Qed.

(* ========================================================================================== *)
(* 3. Token streams of whole texts                                                               *)
(* ========================================================================================== *)
(* the document line: `--- <tag> x` (end of input) *)
(* the directive line: `%TAG<blanks><handle><blanks><prefix>LF` *)

(* the tokens of the document line, starting at the mark m (column 0) *)
Section DocMarks.
Variables (m : marker) (ttext : list N).
Definition mk_tag : marker := adv 1 (adv 3 m).
Definition mk_tag_end : marker := adv (N.of_nat (length ttext)) mk_tag.
Definition mk_scalar : marker := adv 1 mk_tag_end.
Definition mk_scalar_end : marker := adv 1 mk_scalar.
Definition mk_end : marker := {| m_index := m_index mk_scalar_end; m_line := m_line mk_scalar_end + 1; m_col := 0 |}.
Definition doc_tokens (h sfx : list N) : list token :=
  [ (spn m (adv 3 m), TDocumentStart);
    (mkspan mk_tag mk_tag_end, TTag h sfx);
    (mkspan mk_scalar mk_scalar_end, TScalar Plain [120]);
    (span_empty mk_end, TStreamEnd) ].
End DocMarks.

Lemma scan_all_doc_line : forall F fuel ttext h sfx lk i ln w ska tp acc,
  tag_scans F (33 :: ttext) h sfx -> (2 <= F)%nat -> (5 <= fuel)%nat ->
  let m := {| m_index := i; m_line := ln; m_col := 0 |} in
  scan_all str_ops F fuel (top (doc_line (33 :: ttext)) lk m w [] ska tp false) acc
  = (rev acc ++ doc_tokens m (33 :: ttext) h sfx, SEnded).
Proof.
  intros F fuel ttext h sfx lk i ln w ska tp acc HS HF Hfuel m. unfold doc_line. cbn [app].
  destruct fuel as [|[|[|[|[|fuel]]]]]; try lia.
  (* --- *)
  destruct (fetch_document_start F 32 (33 :: ttext ++ [32; 120]) lk i ln w ska tp ltac:(lia) eq_refl) as [lk2 [_ E2]].
  cbv zeta in E2. fold m in E2.
  cbn [scan_all]. rewrite (next_token_top F _ _ _ _ _ _ _ _ _ _ _ _ ltac:(lia) E2 ltac:(discriminate)).
  (* the tag *)
  destruct (fetch_tag_gen F ttext h sfx [32; 120] lk2 (adv 3 m) false (tp + 1) HS HF eq_refl) as [lk3 [_ E3]].
  cbv zeta in E3.
  cbn [scan_all]. rewrite (next_token_top F _ _ _ _ _ _ _ _ _ _ _ _ ltac:(lia) E3 ltac:(discriminate)).
  (* the scalar *)
  destruct (fetch_plain_x F lk3 (mk_tag_end m (33 :: ttext)) (tp + 1 + 1) ltac:(lia)) as [lk4 [_ E4]].
  change (adv (N.of_nat (length (33 :: ttext))) (adv 1 (adv 3 m))) with (mk_tag_end m (33 :: ttext)).
  cbn [scan_all]. rewrite (next_token_top F _ _ _ _ _ _ _ _ _ _ _ _ ltac:(lia) E4 ltac:(discriminate)).
  (* the end *)
  destruct (fetch_stream_end_top F lk4 (mk_scalar_end m (33 :: ttext)) (tp + 1 + 1 + 1) ltac:(lia)
              ltac:(apply col_adv_pos; discriminate)) as [lk5 [_ E5]].
  cbv zeta in E5.
  destruct (next_token_end F _ _ _ _ _ _ _ _ _ _ _ _ ltac:(lia) E5) as [s' [E6 E7]].
  change (adv 1 (adv 1 (mk_tag_end m (33 :: ttext)))) with (mk_scalar_end m (33 :: ttext)).
  cbn [scan_all]. rewrite E6. cbn [scan_all]. rewrite E7.
  cbn [rev]. rewrite <- !app_assoc. reflexivity.
Qed.

(* (i) a document without directives *)
Theorem scan_plain_doc : forall F fuel ttext h sfx,
  tag_scans F (33 :: ttext) h sfx -> (2 <= F)%nat -> (6 <= fuel)%nat ->
  scan_all str_ops F fuel (init_sc {| si_chars := doc_line (33 :: ttext); si_look := 0 |}) []
  = ((span_empty m1, TStreamStart) :: doc_tokens m1 (33 :: ttext) h sfx, SEnded).
Proof.
  intros F fuel ttext h sfx HS HF Hfuel. destruct fuel as [|fuel]; [lia|].
  cbn [scan_all]. rewrite next_token_init by lia.
  exact (scan_all_doc_line F fuel ttext h sfx 1 0 1 true true 1 [(span_empty m1, TStreamStart)] HS HF ltac:(lia)).
Qed.

(* (ii) a document with one %TAG directive *)
Record dir_line_ok (bl1 dh bl2 ptext p : list N) : Prop := {
  dlo_bl1 : bl1 <> [] /\ Forall (fun c => is_blank c = true) bl1;
  dlo_handle : dir_handle dh;
  dlo_bl2 : bl2 <> [] /\ Forall (fun c => is_blank c = true) bl2;
  dlo_prefix : prefix_text ptext /\ decodes ptext p
}.

Definition n_dir (bl1 dh bl2 ptext : list N) : N := N.of_nat (4 + length bl1 + length dh + length bl2 + length ptext).
Definition mk_doc (bl1 dh bl2 ptext : list N) : marker := nlm (adv (n_dir bl1 dh bl2 ptext) m1).

Theorem scan_dir_doc : forall F fuel bl1 dh bl2 ptext p ttext h sfx,
  dir_line_ok bl1 dh bl2 ptext p -> tag_scans F (33 :: ttext) h sfx ->
  (length (dir_line bl1 dh bl2 ptext) < F)%nat -> (7 <= fuel)%nat ->
  scan_all str_ops F fuel (init_sc {| si_chars := dir_line bl1 dh bl2 ptext ++ doc_line (33 :: ttext); si_look := 0 |}) []
  = ((span_empty m1, TStreamStart)
     :: (mkspan m1 (adv (n_dir bl1 dh bl2 ptext) m1), TTagDirective dh p)
     :: doc_tokens (mk_doc bl1 dh bl2 ptext) (33 :: ttext) h sfx, SEnded).
Proof.
  intros F fuel bl1 dh bl2 ptext p ttext h sfx [[Hn1 HB1] HH [Hn2 HB2] [HP HDp]] HS HF Hfuel.
  unfold dir_line in *. repeat (rewrite app_length in HF || cbn [length s_tag_line] in HF).
  destruct fuel as [|[|fuel]]; try lia.
  cbn [scan_all]. rewrite next_token_init by lia.
  replace ((s_tag_line ++ bl1 ++ dh ++ bl2 ++ ptext ++ [10]) ++ doc_line (33 :: ttext))
    with (s_tag_line ++ bl1 ++ dh ++ bl2 ++ ptext ++ 10 :: doc_line (33 :: ttext))
    by (rewrite <- !app_assoc; reflexivity).
  destruct (fetch_tag_directive F bl1 dh bl2 ptext p (doc_line (33 :: ttext)) 1 0 1 true true 1
              Hn1 HB1 HH Hn2 HB2 HDp HP ltac:(lia)) as [lk1 [_ E1]].
  cbv zeta in E1. fold m1 in E1.
  cbn [scan_all]. rewrite (next_token_top F _ _ _ _ _ _ _ _ _ _ _ _ ltac:(lia) E1 ltac:(discriminate)).
  exact (scan_all_doc_line F fuel ttext h sfx lk1 _ _ true false (1 + 1)
           [(mkspan m1 (adv (n_dir bl1 dh bl2 ptext) m1), TTagDirective dh p); (span_empty m1, TStreamStart)]
           HS ltac:(lia) ltac:(lia)).
Qed.

(* ========================================================================================== *)
(* 4. The parser model on these token streams                                                    *)
(* ========================================================================================== *)
Lemma parse_all_step : forall fuel p se acc ev p',
  p_state p <> SEnd -> state_machine p = Parser.Ok (ev, p') ->
  parse_all (S fuel) p se acc = parse_all fuel p' se (ev :: acc).
Proof.
  intros fuel p se acc ev p' Hs H. cbn [parse_all]. rewrite H. destruct (p_state p); try reflexivity. contradiction.
Qed.

Lemma parse_all_err : forall fuel p se acc site m,
  p_state p <> SEnd -> state_machine p = Parser.Err (PErr site m) ->
  parse_all (S fuel) p se acc = (rev acc, PParseErr site m).
Proof.
  intros fuel p se acc site m Hs H. cbn [parse_all]. rewrite H. destruct (p_state p); try reflexivity. contradiction.
Qed.

Definition P (keep : bool) (toks : list token) (tk : option token) (sts : list pstate) (st : pstate)
  (tags : list (str * str)) : parser :=
  {| p_toks := toks; p_token := tk; p_states := sts; p_state := st; p_anchors := []; p_anchor_id := 1;
     p_tags := tags; p_keep_tags := keep |}.

Lemma pstep_stream_start : forall keep sp1 r,
  state_machine (P keep ((sp1, TStreamStart) :: r) None [] SStreamStart [])
  = Parser.Ok ((EStreamStart, sp1), P keep r None [] SImplicitDocumentStart []).
Proof. reflexivity. Qed.

Lemma pstep_directive : forall keep sp2 sp3 h p r, h <> [] ->
  state_machine (P keep ((sp2, TTagDirective h p) :: (sp3, TDocumentStart) :: r) None [] SImplicitDocumentStart [])
  = Parser.Ok ((EDocumentStart true, sp3), P keep r None [SDocumentEnd] SDocumentContent [(h, p)]).
Proof. intros keep sp2 sp3 h p r Hh. destruct h as [|c h']; [contradiction|]. reflexivity. Qed.

Lemma pstep_no_directive : forall keep sp3 r,
  state_machine (P keep ((sp3, TDocumentStart) :: r) None [] SImplicitDocumentStart [])
  = Parser.Ok ((EDocumentStart true, sp3), P keep r None [SDocumentEnd] SDocumentContent []).
Proof. reflexivity. Qed.

(* the tagged scalar: the tag is [expand] of the specification on the table the parser holds *)
Lemma pstep_tagged_scalar : forall keep sp4 sp5 h sfx v r tags T,
  agree tags T -> kind_of h <> HMalformed ->
  state_machine (P keep ((sp4, TTag h sfx) :: (sp5, TScalar Plain v) :: r) None [SDocumentEnd] SDocumentContent tags)
  = match expand T h sfx with
    | Some (pre, suf) =>
        Parser.Ok ((EScalar v Plain 0 (Some {| tg_handle := pre; tg_suffix := suf |}), sp5),
                   P keep r None [] SDocumentEnd tags)
    | None => Parser.Err (PErr 20 (sp_start sp4))
    end.
Proof.
  intros keep sp4 sp5 h sfx v r tags T HA HK.
  unfold state_machine, P. cbn [p_state]. unfold document_content, Parser.peek. cbn [p_token p_toks].
  unfold parse_node, Parser.peek. cbn [p_token p_toks set_tok]. unfold node_props.
  erewrite resolve_tag_expand; [|exact HA|exact HK].
  destruct (expand T h sfx) as [[pre suf]|]; reflexivity.
Qed.

Lemma pstep_document_end : forall keep sp6 tags, exists tags',
  state_machine (P keep [(sp6, TStreamEnd)] None [] SDocumentEnd tags)
  = Parser.Ok ((EDocumentEnd, sp6), P keep [] (Some (sp6, TStreamEnd)) [] SDocumentStart tags').
Proof. intros keep sp6 tags. destruct keep; eexists; reflexivity. Qed.

Lemma pstep_stream_end : forall keep sp6 tags,
  state_machine (P keep [] (Some (sp6, TStreamEnd)) [] SDocumentStart tags)
  = Parser.Ok ((EStreamEnd, sp6), P keep [] None [] SEnd tags).
Proof. reflexivity. Qed.

(* what the run reports: the tag of the one node and how it ended *)
Definition tag_outcome (o : option (list N * list N)) (m : marker) : list (option (list N * list N)) * pend :=
  match o with
  | Some r => ([Some r], PDone)
  | None => ([], PParseErr 20 m)
  end.

Lemma node_tags_app : forall l1 l2, node_tags (l1 ++ l2) = node_tags l1 ++ node_tags l2.
Proof.
  induction l1 as [|[e s] l1 IH]; intros l2; [reflexivity|]. cbn [app node_tags].
  destruct (tag_of_event e) as [[tg|]|]; cbn [app]; rewrite IH; reflexivity.
Qed.

Lemma parse_from_content : forall keep fuel sp4 sp5 sp6 h sfx v tags T acc,
  agree tags T -> kind_of h <> HMalformed -> (4 <= fuel)%nat ->
  let r := parse_all fuel (P keep [(sp4, TTag h sfx); (sp5, TScalar Plain v); (sp6, TStreamEnd)] None
                             [SDocumentEnd] SDocumentContent tags) SEnded acc in
  (node_tags (fst r), snd r) =
  (node_tags (rev acc) ++ fst (tag_outcome (expand T h sfx) (sp_start sp4)), snd (tag_outcome (expand T h sfx) (sp_start sp4))).
Proof.
  intros keep fuel sp4 sp5 sp6 h sfx v tags T acc HA HK Hfuel. cbv zeta.
  destruct fuel as [|[|[|[|fuel]]]]; try lia.
  pose proof (pstep_tagged_scalar keep sp4 sp5 h sfx v [(sp6, TStreamEnd)] tags T HA HK) as E3.
  destruct (expand T h sfx) as [[pre suf]|].
  - erewrite parse_all_step; [|discriminate|exact E3].
    destruct (pstep_document_end keep sp6 tags) as [tags' E4].
    erewrite parse_all_step; [|discriminate|exact E4].
    erewrite parse_all_step; [|discriminate|apply pstep_stream_end].
    cbn [parse_all P p_state fst snd rev tag_outcome].
    rewrite <- !app_assoc. cbn [app]. rewrite node_tags_app. reflexivity.
  - erewrite parse_all_err; [|discriminate|exact E3]. cbn [fst snd tag_outcome]. rewrite app_nil_r. reflexivity.
Qed.

(* ========================================================================================== *)
(* 5. Scanner and parser composed                                                                *)
(* ========================================================================================== *)
(* the spellings of a tag, each with the (handle, suffix) the scanner reports: the suffix is DECODED *)
Inductive tag_spelling : list N -> list N -> list N -> Prop :=
| ts_verbatim : forall l t, Forall (fun c => is_uri_char c = true) l -> decodes l t ->
    tag_spelling (verbatim_text l) [] t
| ts_named : forall name l t, Forall (fun c => is_alpha c = true) name ->
    l <> [] -> Forall (fun c => is_tag_char c = true) l -> decodes l t ->
    tag_spelling (named_text name l) (named_handle name) t
| ts_local : forall l t, l <> [] -> Forall (fun c => is_tag_char c = true) l -> decodes l t ->
    tag_spelling (local_text l) [33] t
| ts_nonspecific : tag_spelling [33] [] [33].

Lemma tag_spelling_scans : forall ttext h sfx F, tag_spelling ttext h sfx -> (length ttext < F)%nat ->
  exists t', ttext = 33 :: t' /\ tag_scans F (33 :: t') h sfx /\ kind_of h <> HMalformed.
Proof.
  intros ttext h sfx F HS HL. inversion HS as [l t HF HD|name l t HN Hne HF HD|l t Hne HF HD|]; subst.
  - eexists. split; [reflexivity|]. split; [|discriminate].
    apply tag_scans_verbatim; [exact HD|exact HF|].
    unfold verbatim_text in HL. cbn [length] in HL. rewrite app_length in HL. cbn [length] in HL. lia.
  - eexists. split; [reflexivity|].
    unfold named_text, named_handle in HL. cbn [app length] in HL. rewrite !app_length in HL. cbn [length] in HL.
    split; [apply tag_scans_named; [exact HN|exact HD|exact HF|exact Hne|lia]|].
    apply kind_of_named. unfold named_handle.
    change (33 :: name ++ [33]) with ((33 :: name) ++ [33]). rewrite last_app1. cbn [app hd length].
    rewrite app_length. cbn [length].
    rewrite (proj2 (N.leb_le 2 _)) by lia. reflexivity.
  - eexists. split; [reflexivity|]. split; [|discriminate].
    apply tag_scans_local; [exact HD|exact HF|exact Hne|]. unfold local_text in HL. cbn [length] in HL. lia.
  - exists []. split; [reflexivity|]. split; [|discriminate]. apply tag_scans_nonspecific. lia.
Qed.

Lemma doc_line_length : forall ttext, length (doc_line ttext) = (6 + length ttext)%nat.
Proof. intros. unfold doc_line. cbn [app length]. rewrite app_length. cbn [length]. lia. Qed.

(* (i) `--- <tag> x` : the tag resolves through the default table *)
Theorem tags_of_plain_doc : forall keep ttext h sfx,
  tag_spelling ttext h sfx ->
  tags_of_run keep (doc_line ttext) = tag_outcome (expand [] h sfx) (mk_tag m1).
Proof.
  intros keep ttext h sfx HS.
  destruct (tag_spelling_scans ttext h sfx (2 * length (doc_line ttext) + 10) HS
              ltac:(rewrite doc_line_length; lia)) as [t' [-> [HSc HK]]].
  unfold tags_of_run, run_str_keep, scan_str.
  rewrite (scan_plain_doc (2 * length (doc_line (33 :: t')) + 10)
             (4 * (2 * length (doc_line (33 :: t')) + 10) + 20) t' h sfx HSc ltac:(lia) ltac:(lia)).
  unfold parse_tokens, doc_tokens. cbn [length].
  change (4 * 5 + 40)%nat with (S (S 58)).
  fold (P keep ((span_empty m1, TStreamStart)
                :: (spn m1 (adv 3 m1), TDocumentStart)
                :: (mkspan (mk_tag m1) (mk_tag_end m1 (33 :: t')), TTag h sfx)
                :: (mkspan (mk_scalar m1 (33 :: t')) (mk_scalar_end m1 (33 :: t')), TScalar Plain [120])
                :: [(span_empty (mk_end m1 (33 :: t')), TStreamEnd)]) None [] SStreamStart []).
  erewrite parse_all_step; [|discriminate|apply pstep_stream_start].
  erewrite parse_all_step; [|discriminate|apply pstep_no_directive].
  rewrite (parse_from_content keep 58 _ _ _ h sfx [120] [] [] _ agree_nil HK ltac:(lia)).
  cbn [sp_start mkspan rev app node_tags tag_of_event].
  destruct (tag_outcome (expand [] h sfx) (mk_tag m1)); reflexivity.
Qed.

(* (ii) `%TAG <dh> <prefix>` LF `--- <tag> x` : the tag resolves through the table of that directive *)
Theorem tags_of_dir_doc : forall keep bl1 dh bl2 ptext p ttext h sfx,
  dir_line_ok bl1 dh bl2 ptext p -> tag_spelling ttext h sfx ->
  tags_of_run keep (dir_line bl1 dh bl2 ptext ++ doc_line ttext)
  = tag_outcome (expand [(dh, p)] h sfx) (mk_tag (mk_doc bl1 dh bl2 ptext)).
Proof.
  intros keep bl1 dh bl2 ptext p ttext h sfx HD HS.
  assert (HLt : length (dir_line bl1 dh bl2 ptext ++ doc_line ttext)
                = (length (dir_line bl1 dh bl2 ptext) + (6 + length ttext))%nat)
    by (rewrite app_length, doc_line_length; reflexivity).
  destruct (tag_spelling_scans ttext h sfx (2 * length (dir_line bl1 dh bl2 ptext ++ doc_line ttext) + 10) HS ltac:(lia))
    as [t' [-> [HSc HK]]].
  unfold tags_of_run, run_str_keep, scan_str.
  rewrite (scan_dir_doc (2 * length (dir_line bl1 dh bl2 ptext ++ doc_line (33 :: t')) + 10)
             (4 * (2 * length (dir_line bl1 dh bl2 ptext ++ doc_line (33 :: t')) + 10) + 20)
             bl1 dh bl2 ptext p t' h sfx HD HSc ltac:(lia) ltac:(lia)).
  unfold parse_tokens, doc_tokens. cbn [length].
  change (4 * 6 + 40)%nat with (S (S 62)).
  set (md := mk_doc bl1 dh bl2 ptext).
  fold (P keep ((span_empty m1, TStreamStart)
                :: (mkspan m1 (adv (n_dir bl1 dh bl2 ptext) m1), TTagDirective dh p)
                :: (spn md (adv 3 md), TDocumentStart)
                :: (mkspan (mk_tag md) (mk_tag_end md (33 :: t')), TTag h sfx)
                :: (mkspan (mk_scalar md (33 :: t')) (mk_scalar_end md (33 :: t')), TScalar Plain [120])
                :: [(span_empty (mk_end md (33 :: t')), TStreamEnd)]) None [] SStreamStart []).
  assert (Hdh : dh <> []) by (destruct HD as [_ HH _ _]; inversion HH; discriminate).
  erewrite parse_all_step; [|discriminate|apply pstep_stream_start].
  erewrite parse_all_step; [|discriminate|apply pstep_directive; exact Hdh].
  assert (HA : agree [(dh, p)] [(dh, p)]).
  { split.
    - intros h0 Hn. cbn [assoc lookup]. rewrite str_eqb_text_eqb. reflexivity.
    - left. cbn [assoc]. rewrite str_eqb_neq by (intros E; apply Hdh; symmetry; exact E). reflexivity. }
  rewrite (parse_from_content keep 62 _ _ _ h sfx [120] [(dh, p)] [(dh, p)] _ HA HK ltac:(lia)).
  cbn [sp_start mkspan rev app node_tags tag_of_event].
  destruct (tag_outcome (expand [(dh, p)] h sfx) (mk_tag md)); reflexivity.
Qed.

(* ========================================================================================== *)
(* 6. In the words of the specification (Spec/TagSpec.v section 4)                                *)
(* ========================================================================================== *)
(* the character classes generated from char_traits.rs are the productions of the YAML specification *)
Ltac class_big :=
  repeat match goal with
         | |- context [?a <=? ?b] => destruct (N.leb_spec a b); try lia
         | |- context [?a =? ?b] => destruct (N.eqb_spec a b); try lia
         end; reflexivity.

Lemma alpha_is_handle_name_char : forall c, is_alpha c = handle_name_char c.
Proof.
  intros c. destruct (N.ltb_spec c 128) as [H|H].
  - apply Bool.eqb_prop. revert c H. apply (below_spec 128). vm_compute. reflexivity.
  - unfold is_alpha, handle_name_char, ns_word_char, ns_dec_digit, ns_ascii_letter, between. class_big.
Qed.
Lemma uri_char_is_ns_uri_char : forall c, is_uri_char c = ns_uri_char c.
Proof.
  intros c. destruct (N.ltb_spec c 128) as [H|H].
  - apply Bool.eqb_prop. revert c H. apply (below_spec 128). vm_compute. reflexivity.
  - unfold is_uri_char, is_word_char, is_alpha, ns_uri_char, ns_word_char, ns_dec_digit, ns_ascii_letter, between,
      uri_punctuation, percent. cbn [existsb member]. class_big.
Qed.
Lemma tag_char_is_ns_tag_char : forall c, is_tag_char c = ns_tag_char c.
Proof.
  intros c. destruct (N.ltb_spec c 128) as [H|H].
  - apply Bool.eqb_prop. revert c H. apply (below_spec 128). vm_compute. reflexivity.
  - unfold is_tag_char, is_flow, ns_tag_char, c_flow_indicator, bang. rewrite uri_char_is_ns_uri_char.
    cbn [member]. class_big.
Qed.
Lemma blank_is_s_white : forall c, is_blank c = s_white c.
Proof. reflexivity. Qed.

Lemma char_classes : forall c,
  is_tag_char c = ns_tag_char c /\ is_uri_char c = ns_uri_char c /\ is_alpha c = handle_name_char c
  /\ is_blank c = s_white c.
Proof.
  intros c. exact (conj (tag_char_is_ns_tag_char c) (conj (uri_char_is_ns_uri_char c)
                    (conj (alpha_is_handle_name_char c) (blank_is_s_white c)))).
Qed.

Lemma all_Forall : forall p q l, (forall c, q c = p c) -> all p l = true -> Forall (fun c => q c = true) l.
Proof.
  intros p q l H. induction l as [|c l IH]; intros HA; [constructor|].
  cbn [all] in HA. apply andb_true_iff in HA. destruct HA as [H1 H2].
  constructor; [rewrite H; exact H1|apply IH; exact H2].
Qed.
Lemma nonempty_ne : forall l, nonempty l = true -> l <> [].
Proof. intros [|c l] H; [discriminate|discriminate]. Qed.

Lemma tag_text_spelling : forall ttext h sfx, tag_text ttext h sfx -> tag_spelling ttext h sfx.
Proof.
  intros ttext h sfx H. inversion H as [uri t HU HD|name suffix t HN Hne HT HD|suffix t Hne HT HD|]; subst.
  - apply ts_verbatim; [apply (all_Forall _ _ _ uri_char_is_ns_uri_char HU)|apply percent_decode_decodes; exact HD].
  - apply ts_named; [apply (all_Forall _ _ _ alpha_is_handle_name_char HN)|apply nonempty_ne; exact Hne
                    |apply (all_Forall _ _ _ tag_char_is_ns_tag_char HT)|apply percent_decode_decodes; exact HD].
  - apply ts_local; [apply nonempty_ne; exact Hne|apply (all_Forall _ _ _ tag_char_is_ns_tag_char HT)
                    |apply percent_decode_decodes; exact HD].
  - apply ts_nonspecific.
Qed.

Lemma tag_directive_text_ok : forall line dh p, tag_directive_text line dh p ->
  exists bl1 bl2 ptext, line = dir_line bl1 dh bl2 ptext /\ dir_line_ok bl1 dh bl2 ptext p.
Proof.
  intros line dh p H. inversion H as [ws1 handle ws2 prefix p0 Hn1 HW1 Hn2 HW2 HH HP0 HPU HD]; subst.
  exists ws1, ws2, prefix. split; [reflexivity|]. constructor.
  - split; [apply nonempty_ne; exact Hn1|apply (all_Forall _ _ _ blank_is_s_white HW1)].
  - destruct HH as [->|[name [-> HN]]]; [constructor|].
    apply dh_named. apply (all_Forall _ _ _ alpha_is_handle_name_char HN).
  - split; [apply nonempty_ne; exact Hn2|apply (all_Forall _ _ _ blank_is_s_white HW2)].
  - split; [|apply percent_decode_decodes; exact HD].
    destruct prefix as [|c0 pr]; [discriminate|]. split; [discriminate|]. split.
    + cbn [hd]. apply orb_true_iff in HP0. destruct HP0 as [HP0|HP0].
      * left. apply N.eqb_eq in HP0. exact HP0.
      * right. rewrite tag_char_is_ns_tag_char. exact HP0.
    + apply (all_Forall _ _ _ uri_char_is_ns_uri_char HPU).
Qed.

(* where the tag of the document line begins, after a directive line [line] (possibly empty) *)
Definition tag_mark (line : list N) : marker :=
  {| m_index := N.of_nat (length line) + 4; m_line := match line with [] => 1 | _ => 2 end; m_col := 4 |}.

Lemma dir_line_length : forall bl1 dh bl2 ptext,
  length (dir_line bl1 dh bl2 ptext) = (4 + length bl1 + length dh + length bl2 + length ptext + 1)%nat.
Proof. intros. unfold dir_line, s_tag_line. repeat (rewrite app_length || cbn [length]). lia. Qed.

Lemma mk_tag_dir : forall bl1 dh bl2 ptext, mk_tag (mk_doc bl1 dh bl2 ptext) = tag_mark (dir_line bl1 dh bl2 ptext).
Proof.
  intros. unfold mk_tag, mk_doc, tag_mark, n_dir, nlm, adv, m1. cbn [m_index m_line m_col].
  rewrite dir_line_length. unfold dir_line, s_tag_line. cbn [app]. f_equal; lia.
Qed.
Lemma mk_tag_plain : mk_tag m1 = tag_mark [].
Proof. reflexivity. Qed.

(* THE text-level theorems *)
Theorem text_plain_document : forall keep ttext h sfx,
  tag_text ttext h sfx ->
  tags_of_run keep (doc_line ttext) = tag_outcome (expand [] h sfx) (tag_mark []).
Proof. intros keep ttext h sfx H. rewrite <- mk_tag_plain. apply tags_of_plain_doc. apply tag_text_spelling. exact H. Qed.

Theorem text_directive_document : forall keep line dh p ttext h sfx,
  tag_directive_text line dh p -> tag_text ttext h sfx ->
  tags_of_run keep (line ++ doc_line ttext) = tag_outcome (expand [(dh, p)] h sfx) (tag_mark line).
Proof.
  intros keep line dh p ttext h sfx HD HT.
  destruct (tag_directive_text_ok _ _ _ HD) as [bl1 [bl2 [ptext [-> HOK]]]].
  rewrite <- mk_tag_dir. apply tags_of_dir_doc; [exact HOK|apply tag_text_spelling; exact HT].
Qed.

(* the headline: a named (or secondary) handle declared by the %TAG line of the document resolves to the decoded
   prefix followed by the decoded suffix *)
Lemma expand_declared : forall name p sfx, expand [(named_handle name, p)] (named_handle name) sfx = Some (p, sfx).
Proof.
  intros name p sfx. unfold expand.
  assert (HL : lookup (named_handle name) [(named_handle name, p)] = Some p) by (cbn [lookup]; rewrite text_eqb_refl; reflexivity).
  unfold named_handle in *. cbn [kind_of].
  destruct (name ++ [33]) as [|b r] eqn:E; [destruct name; discriminate|].
  assert (HB : last (b :: r) 0 = 33) by (rewrite <- E; apply last_app1).
  unfold bang. cbn [N.eqb Pos.eqb andb]. rewrite HB. cbn [N.eqb Pos.eqb].
  destruct r; cbn [or_default]; rewrite HL; reflexivity.
Qed.

Theorem text_named_handle_resolves : forall keep line name p suffix t,
  tag_directive_text line (named_handle name) p ->
  tag_text (named_text name suffix) (named_handle name) t ->
  tags_of_run keep (line ++ doc_line (named_text name suffix)) = ([Some (p, t)], PDone).
Proof.
  intros keep line name p suffix t HD HT.
  rewrite (text_directive_document keep line _ p _ _ t HD HT), expand_declared. reflexivity.
Qed.

(* the scanner half alone, in the words of the specification *)
Theorem scan_tag_text : forall F ttext h sfx rest lk m w s,
  tag_text ttext h sfx -> (length ttext < F)%nat -> tag_end (sc_flow_level s) (hd 0 rest) = true ->
  exists lk', (lk <= lk')%nat /\
    scan_tag str_ops F (st (ttext ++ rest) lk m w s)
    = SBase.Ok ((mkspan m (adv (N.of_nat (length ttext)) m), TTag h sfx),
                st rest lk' (adv (N.of_nat (length ttext)) m) false s).
Proof.
  intros F ttext h sfx rest lk m w s HT HL HE.
  destruct (tag_spelling_scans ttext h sfx F (tag_text_spelling _ _ _ HT) HL) as [t' [-> [HS _]]].
  exact (HS rest lk m w s HE).
Qed.

Theorem scan_directive_text : forall F line dh p rest lk m w s,
  tag_directive_text line dh p -> (length line < F)%nat ->
  exists lk', (lk <= lk')%nat /\
    scan_directive str_ops F (st (line ++ rest) lk m w s)
    = SBase.Ok ((mkspan m (adv (N.of_nat (length line - 1)) m), TTagDirective dh p),
                st rest lk' (nlm (adv (N.of_nat (length line - 1)) m)) true s).
Proof.
  intros F line dh p rest lk m w s HD HL.
  destruct (tag_directive_text_ok _ _ _ HD) as [bl1 [bl2 [ptext [-> [[Hn1 HB1] HH [Hn2 HB2] [HP HDp]]]]]].
  rewrite dir_line_length in *.
  destruct (scan_directive_tag_text F bl1 dh bl2 ptext p rest lk m w s Hn1 HB1 HH Hn2 HB2 HDp HP ltac:(lia)) as [lk' [Hlk E]].
  cbv zeta in E. exists lk'. split; [exact Hlk|].
  replace (dir_line bl1 dh bl2 ptext ++ rest) with (s_tag_line ++ bl1 ++ dh ++ bl2 ++ ptext ++ 10 :: rest)
    by (unfold dir_line; rewrite <- !app_assoc; reflexivity).
  refine (eq_trans E _).
  replace (4 + length bl1 + length dh + length bl2 + length ptext + 1 - 1)%nat
    with (4 + length bl1 + length dh + length bl2 + length ptext)%nat by lia. reflexivity.
Qed.

(* more corollaries of [text_directive_document] *)
Theorem text_primary_handle_resolves : forall keep line p suffix t,
  tag_directive_text line [bang] p -> tag_text (local_text suffix) [bang] t ->
  tags_of_run keep (line ++ doc_line (local_text suffix)) = ([Some (p, t)], PDone).
Proof.
  intros keep line p suffix t HD HT. rewrite (text_directive_document keep line _ p _ _ t HD HT). reflexivity.
Qed.

(* the scanner half on the whole text: the exact token stream *)
Theorem token_stream_directive_document : forall line dh p ttext h sfx,
  tag_directive_text line dh p -> tag_text ttext h sfx ->
  let md := nlm (adv (N.of_nat (length line - 1)) m1) in
  scan_str (line ++ doc_line ttext)
  = ((span_empty m1, TStreamStart)
     :: (mkspan m1 (adv (N.of_nat (length line - 1)) m1), TTagDirective dh p)
     :: doc_tokens md ttext h sfx, SEnded).
Proof.
  intros line dh p ttext h sfx HD HT md.
  destruct (tag_directive_text_ok _ _ _ HD) as [bl1 [bl2 [ptext [-> HOK]]]].
  assert (HLt : length (dir_line bl1 dh bl2 ptext ++ doc_line ttext)
                = (length (dir_line bl1 dh bl2 ptext) + (6 + length ttext))%nat)
    by (rewrite app_length, doc_line_length; reflexivity).
  destruct (tag_spelling_scans ttext h sfx (2 * length (dir_line bl1 dh bl2 ptext ++ doc_line ttext) + 10)
              (tag_text_spelling _ _ _ HT) ltac:(lia)) as [t' [-> [HSc HK]]].
  unfold scan_str.
  rewrite (scan_dir_doc (2 * length (dir_line bl1 dh bl2 ptext ++ doc_line (33 :: t')) + 10)
             (4 * (2 * length (dir_line bl1 dh bl2 ptext ++ doc_line (33 :: t')) + 10) + 20)
             bl1 dh bl2 ptext p t' h sfx HOK HSc ltac:(lia) ltac:(lia)).
  unfold md, mk_doc, n_dir. rewrite dir_line_length.
  replace (4 + length bl1 + length dh + length bl2 + length ptext + 1 - 1)%nat
    with (4 + length bl1 + length dh + length bl2 + length ptext)%nat by lia. reflexivity.
Qed.

Theorem token_stream_plain_document : forall ttext h sfx,
  tag_text ttext h sfx ->
  scan_str (doc_line ttext) = ((span_empty m1, TStreamStart) :: doc_tokens m1 ttext h sfx, SEnded).
Proof.
  intros ttext h sfx HT.
  destruct (tag_spelling_scans ttext h sfx (2 * length (doc_line ttext) + 10)
              (tag_text_spelling _ _ _ HT) ltac:(rewrite doc_line_length; lia)) as [t' [-> [HSc HK]]].
  unfold scan_str. apply scan_plain_doc; [exact HSc|lia|lia].
Qed.
