(* Joint proof "the scanner never exhausts its (linear) fuel" (see SCANFUEL.md): the whitespace / comment skipping
   family of Model/SPrim.v.
   Part (a): reusable rules in [fwp] form for the primitives and primitive loops of SPrim.v.  All of them are in
   continuation style: [ (forall a s', <facts about rl/lk/frem of s' relative to s> -> Q a s') -> fwp m Q s ].
   A loop rule takes the hypothesis [rl s < f] on the loop's own fuel argument f (from [fuel_ok F s]: [fuel_ok_lt]).
   Part (b): the three contracts fuel_skip_to_next_token, fuel_skip_ws_to_eol, fuel_skip_yaml_whitespace, each also
   in a sharper form (hypothesis [rl s < f] only; postcondition [sk_post]: additionally [1 <= lk s'], and for
   skip_ws_to_eol strict decrease when the first character is a blank that the loop takes). *)
From Coq Require Import List NArith ZArith Bool Arith Lia.
Import ListNotations.
Require Import Parser SBase SPrim SDir SScalar SFetch ScanFuel.
Local Open Scope nat_scope.

Arguments Nat.ltb : simpl never.
Arguments Nat.leb : simpl never.
Arguments Nat.eqb : simpl never.
Arguments Nat.sub : simpl never.
Arguments Nat.max : simpl never.

(* ---------------- character classes ---------------- *)
(* a predicate that rejects NUL only accepts characters that are really there *)
Lemma pred_nz (p : chr -> bool) c : p 0%N = false -> p c = true -> c <> 0%N.
Proof. intros H0 H E. subst c. congruence. Qed.
Lemma break_nz c : is_break c = true -> c <> 0%N.
Proof. apply pred_nz. reflexivity. Qed.
Lemma blank_nz c : is_blank c = true -> c <> 0%N.
Proof. apply pred_nz. reflexivity. Qed.
Lemma alpha_nz c : is_alpha c = true -> c <> 0%N.
Proof. apply pred_nz. reflexivity. Qed.
Lemma not_breakz_nz c : is_breakz c = false -> c <> 0%N.
Proof. intros H E. subst c. discriminate H. Qed.
Lemma not_blank_or_breakz_nz c : is_blank_or_breakz c = false -> c <> 0%N.
Proof. intros H E. subst c. discriminate H. Qed.

(* ---------------- the measure under "same remaining input" ---------------- *)
Lemma rl_eq s s' : frem s' = frem s -> rl s' = rl s.
Proof. unfold rl. intros ->. reflexivity. Qed.
Lemma fnth_eq s s' i : frem s' = frem s -> fnth s' i = fnth s i.
Proof. unfold fnth. intros ->. reflexivity. Qed.
Lemma rl_skipn n s s' : frem s' = skipn n (frem s) -> rl s' = rl s - n.
Proof. unfold rl. intros ->. apply skipn_length. Qed.
Lemma fnth_nonzero_rl s i : fnth s i <> 0%N -> i < rl s.
Proof.
  intros H. destruct (Nat.lt_ge_cases i (rl s)) as [L|G]; [exact L|]. exfalso. apply H. unfold fnth. apply nth_overflow. exact G.
Qed.
Lemma fuel_ok_lt F s : fuel_ok F s -> rl s < F.
Proof. unfold fuel_ok. lia. Qed.

(* "only the input changed" (same shape as the last hypothesis the framework's input rules provide) *)
Definition inonly (s s' : fst_) : Prop := s' = set_in (sc_in s') s.
Lemma inonly_refl s : inonly s s.
Proof. unfold inonly. destruct s; reflexivity. Qed.
Lemma inonly_trans a b c : inonly a b -> inonly b c -> inonly a c.
Proof.
  unfold inonly. intros H1 H2. transitivity (set_in (sc_in c) (set_in (sc_in b) a)); [rewrite <- H1; exact H2|reflexivity].
Qed.
Ltac ino :=
  match goal with
  | |- inonly ?a ?a => apply inonly_refl
  | H : inonly ?a ?b |- inonly ?a ?b => exact H
  | H : ?b = set_in (sc_in ?b) ?a |- inonly ?a ?b => exact H
  | H : inonly ?a ?b |- inonly ?a ?c => apply (inonly_trans a b c H); ino
  | H : ?b = set_in (sc_in ?b) ?a |- inonly ?a ?c => apply (inonly_trans a b c H); ino
  end.

(* the postcondition of the skipping functions: [le_post], the lookahead counter is at least 1 at the exit (every
   exit is preceded by a [look_ch]), and - under the condition [strict] on the start state - something was consumed *)
Definition sk_post (s : fst_) (strict : Prop) (s' : fst_) : Prop :=
  rl s' <= rl s /\ lk s <= lk s' /\ 1 <= lk s' /\ (strict -> rl s' < rl s).
Lemma sk_post_le s P {A} (a : A) s' : sk_post s P s' -> le_post s a s'.
Proof. unfold sk_post, le_post. tauto. Qed.

(* composing contracts: a contract established from a later state is a contract from an earlier one *)
Lemma le_post_trans s0 s {A B} (a : A) (b : B) s' : le_post s0 a s -> le_post s b s' -> le_post s0 b s'.
Proof. unfold le_post. lia. Qed.
Lemma lt_le_post s0 s {A B} (a : A) (b : B) s' : lt_post s0 a s -> le_post s b s' -> lt_post s0 b s'.
Proof. unfold le_post, lt_post. lia. Qed.
Lemma le_lt_post s0 s {A B} (a : A) (b : B) s' : le_post s0 a s -> lt_post s b s' -> lt_post s0 b s'.
Proof. unfold le_post, lt_post. lia. Qed.
Lemma fwp_le_from {A} (m : FM A) s0 s : rl s <= rl s0 -> lk s0 <= lk s -> fwp m (le_post s) s -> fwp m (le_post s0) s.
Proof. intros H1 H2 H. eapply fwp_mono; [exact H|]. intros a s'. unfold le_post. lia. Qed.
Lemma fwp_lt_from {A} (m : FM A) s0 s : rl s <= rl s0 -> lk s0 <= lk s -> fwp m (lt_post s) s -> fwp m (lt_post s0) s.
Proof. intros H1 H2 H. eapply fwp_mono; [exact H|]. intros a s'. unfold lt_post. lia. Qed.
Lemma fwp_lt_from_le {A} (m : FM A) s0 s : rl s < rl s0 -> lk s0 <= lk s -> fwp m (le_post s) s -> fwp m (lt_post s0) s.
Proof. intros H1 H2 H. eapply fwp_mono; [exact H|]. intros a s'. unfold le_post, lt_post. lia. Qed.

(* ================= (a) rules for the primitives ================= *)
(* in_skip on a character that is not NUL really consumes it *)
Lemma fwp_in_skip_real (Q : unit -> fst_ -> Prop) s :
  fnth s 0 <> 0%N ->
  (forall s', S (rl s') = rl s -> frem s' = tl (frem s) -> lk s' = lk s -> inonly s s' -> Q tt s') ->
  fwp (in_skip str_ops) Q s.
Proof.
  intros Hnz HQ. apply fwp_in_skip. intros s' R L I'. apply HQ; auto.
  pose proof (fnth0_nonzero_rl s Hnz). rewrite (rl_tl s s' R) by assumption. lia.
Qed.

(* lookahead, with the consequences spelled out: same input (hence same measure and same characters), counter raised *)
Lemma fwp_look_rl n (Q : unit -> fst_ -> Prop) s :
  (forall s', frem s' = frem s -> rl s' = rl s -> (forall i, fnth s' i = fnth s i) -> lk s <= lk s' -> n <= lk s' ->
              inonly s s' -> Q tt s') -> fwp (look str_ops n) Q s.
Proof.
  intros HQ. apply fwp_look. intros s' R L I'. apply HQ; [exact R|apply rl_eq; exact R|intros i; apply fnth_eq; exact R|lia|lia|exact I'].
Qed.
Lemma fwp_look_ch_rl (Q : chr -> fst_ -> Prop) s :
  (forall s', frem s' = frem s -> rl s' = rl s -> (forall i, fnth s' i = fnth s i) -> lk s <= lk s' -> 1 <= lk s' ->
              inonly s s' -> Q (fnth s 0) s') -> fwp (look_ch str_ops) Q s.
Proof.
  intros HQ. apply fwp_look_ch. intros s' R L I'. rewrite (fnth_eq _ _ 0 R).
  apply HQ; [exact R|apply rl_eq; exact R|intros i; apply fnth_eq; exact R|lia|lia|exact I'].
Qed.

(* state accessors / flag setters: the input is untouched *)
Lemma fwp_mark (Q : marker -> fst_ -> Prop) s : Q (sc_mark s) s -> fwp (mark (I:=strin)) Q s.
Proof. intros H. exact H. Qed.
Lemma fwp_flow_level (Q : N -> fst_ -> Prop) s : Q (sc_flow_level s) s -> fwp (flow_level (I:=strin)) Q s.
Proof. intros H. exact H. Qed.
Lemma fwp_in_flow (Q : bool -> fst_ -> Prop) s : Q (0 <? sc_flow_level s)%N s -> fwp (in_flow (I:=strin)) Q s.
Proof. intros H. exact H. Qed.
Lemma fwp_is_within_block (Q : bool -> fst_ -> Prop) s :
  Q (match sc_indents s with [] => false | _ => true end) s -> fwp (is_within_block (I:=strin)) Q s.
Proof. intros H. exact H. Qed.
Lemma fwp_adv_mark n (Q : unit -> fst_ -> Prop) s :
  (forall s', frem s' = frem s -> lk s' = lk s -> Q tt s') -> fwp (adv_mark (I:=strin) n) Q s.
Proof. intros HQ. unfold adv_mark. apply fwp_modify. apply HQ; reflexivity. Qed.
Lemma fwp_allow_simple_key (Q : unit -> fst_ -> Prop) s :
  (forall s', frem s' = frem s -> lk s' = lk s -> Q tt s') -> fwp (allow_simple_key (I:=strin)) Q s.
Proof. intros HQ. unfold allow_simple_key. apply fwp_modify. apply HQ; reflexivity. Qed.
Lemma fwp_disallow_simple_key (Q : unit -> fst_ -> Prop) s :
  (forall s', frem s' = frem s -> lk s' = lk s -> Q tt s') -> fwp (disallow_simple_key (I:=strin)) Q s.
Proof. intros HQ. unfold disallow_simple_key. apply fwp_modify. apply HQ; reflexivity. Qed.
Lemma fwp_set_lws b (Q : unit -> fst_ -> Prop) s :
  (forall s', frem s' = frem s -> lk s' = lk s -> Q tt s') -> fwp (modify (set_lws (I:=strin) b)) Q s.
Proof. intros HQ. apply fwp_modify. apply HQ; reflexivity. Qed.

Lemma fwp_unroll_non_block_indents (Q : unit -> fst_ -> Prop) s :
  (forall s', frem s' = frem s -> lk s' = lk s -> Q tt s') -> fwp (unroll_non_block_indents (I:=strin)) Q s.
Proof.
  intros HQ. unfold unroll_non_block_indents. apply fwp_modify. destruct (unroll_nb (sc_indents s) (sc_indent s)) as [ind l].
  apply HQ; reflexivity.
Qed.

(* pure look-at-the-input tests: the state is unchanged (they may panic on a short buffer: not our concern) *)
Lemma fwp_next_is p (Q : bool -> fst_ -> Prop) s : Q (p (fnth s 0)) s -> fwp (next_is str_ops p) Q s.
Proof. intros H. exact H. Qed.
Lemma fwp_next_char_is c (Q : bool -> fst_ -> Prop) s : Q (fnth s 0 =? c)%N s -> fwp (next_char_is str_ops c) Q s.
Proof. intros H. exact H. Qed.
Lemma fwp_nth_char_is n c (Q : bool -> fst_ -> Prop) s : Q (fnth s n =? c)%N s -> fwp (nth_char_is str_ops n c) Q s.
Proof. intros H. exact H. Qed.
Lemma fwp_next_2_are a b (Q : bool -> fst_ -> Prop) s :
  Q ((fnth s 0 =? a) && (fnth s 1 =? b))%N s -> fwp (next_2_are str_ops a b) Q s.
Proof.
  intros H. unfold next_2_are. apply fwp_bind. apply fwp_assert_buflen. apply fwp_bind. apply fwp_peek.
  apply fwp_bind. apply fwp_peekn. apply fwp_ret. exact H.
Qed.
Lemma fwp_next_3_are a b c (Q : bool -> fst_ -> Prop) s :
  Q ((fnth s 0 =? a) && (fnth s 1 =? b) && (fnth s 2 =? c))%N s -> fwp (next_3_are str_ops a b c) Q s.
Proof.
  intros H. unfold next_3_are. apply fwp_bind. apply fwp_assert_buflen. apply fwp_bind. apply fwp_peek.
  apply fwp_bind. apply fwp_peekn. apply fwp_bind. apply fwp_peekn. apply fwp_ret. exact H.
Qed.
Lemma fwp_next_is_document_indicator (Q : bool -> fst_ -> Prop) s :
  (forall b, Q b s) -> fwp (next_is_document_indicator str_ops) Q s.
Proof.
  intros H. unfold next_is_document_indicator. apply fwp_bind. apply fwp_assert_buflen. apply fwp_bind. apply fwp_peekn.
  destruct (is_blank_or_breakz (fnth s 3)); [|apply fwp_ret; apply H].
  apply fwp_bind. apply fwp_next_3_are. match goal with |- fwp (if ?b then _ else _) _ _ => destruct b end.
  - apply fwp_ret. apply H.
  - apply fwp_next_3_are. apply H.
Qed.
Lemma fwp_next_is_document_start (Q : bool -> fst_ -> Prop) s :
  (forall b, Q b s) -> fwp (next_is_document_start str_ops) Q s.
Proof.
  intros H. unfold next_is_document_start. apply fwp_bind. apply fwp_assert_buflen. apply fwp_bind. apply fwp_next_3_are.
  match goal with |- fwp (if ?b then _ else _) _ _ => destruct b end; [apply fwp_bind; apply fwp_peekn|]; apply fwp_ret; apply H.
Qed.
Lemma fwp_next_is_document_end (Q : bool -> fst_ -> Prop) s :
  (forall b, Q b s) -> fwp (next_is_document_end str_ops) Q s.
Proof.
  intros H. unfold next_is_document_end. apply fwp_bind. apply fwp_assert_buflen. apply fwp_bind. apply fwp_next_3_are.
  match goal with |- fwp (if ?b then _ else _) _ _ => destruct b end; [apply fwp_bind; apply fwp_peekn|]; apply fwp_ret; apply H.
Qed.
(* [true] is only returned on a character that is not blank / break / NUL ... unless it is not ':' etc.: the callers
   that need "the character is real" test [is_blank_or_breakz] themselves, so only the value is exposed *)
Lemma fwp_next_can_be_plain_scalar fl (Q : bool -> fst_ -> Prop) s :
  Q (if ((fnth s 0 =? 58) && (is_blank_or_breakz (fnth s 1) || (fl && is_flow (fnth s 1))))%N then false
     else if fl && is_flow (fnth s 0) then false else true) s ->
  fwp (next_can_be_plain_scalar str_ops fl) Q s.
Proof.
  intros H. unfold next_can_be_plain_scalar. apply fwp_bind. apply fwp_peekn. apply fwp_bind. apply fwp_peek.
  match goal with |- fwp (if ?b then _ else _) _ _ => destruct b end; [apply fwp_ret; exact H|].
  match goal with |- fwp (if ?b then _ else _) _ _ => destruct b end; apply fwp_ret; exact H.
Qed.

(* the one-character skips.  General form (the tail of the remaining input) and the form for a character that is
   known not to be NUL (the measure decreases by exactly one) *)
Lemma fwp_skip_blank (Q : unit -> fst_ -> Prop) s :
  (forall s', frem s' = tl (frem s) -> lk s' = lk s -> Q tt s') -> fwp (skip_blank str_ops) Q s.
Proof.
  intros HQ. unfold skip_blank. apply fwp_bind. apply fwp_in_skip. intros s1 R1 L1 _. apply fwp_adv_mark. intros s2 R2 L2.
  apply HQ; congruence.
Qed.
Lemma fwp_skip_non_blank (Q : unit -> fst_ -> Prop) s :
  (forall s', frem s' = tl (frem s) -> lk s' = lk s -> Q tt s') -> fwp (skip_non_blank str_ops) Q s.
Proof.
  intros HQ. unfold skip_non_blank. apply fwp_bind. apply fwp_in_skip. intros s1 R1 L1 _. apply fwp_bind. apply fwp_adv_mark.
  intros s2 R2 L2. apply fwp_set_lws. intros s3 R3 L3. apply HQ; congruence.
Qed.
Lemma fwp_skip_nl (Q : unit -> fst_ -> Prop) s :
  (forall s', frem s' = tl (frem s) -> lk s' = lk s -> Q tt s') -> fwp (skip_nl str_ops) Q s.
Proof.
  intros HQ. unfold skip_nl. apply fwp_bind. apply fwp_in_skip. intros s1 R1 L1 _. apply fwp_modify. apply HQ; assumption.
Qed.
Lemma tl_real s s' : fnth s 0 <> 0%N -> frem s' = tl (frem s) -> S (rl s') = rl s.
Proof. intros Hnz R. pose proof (fnth0_nonzero_rl s Hnz). rewrite (rl_tl s s' R) by assumption. lia. Qed.
Lemma fwp_skip_blank_real (Q : unit -> fst_ -> Prop) s :
  fnth s 0 <> 0%N -> (forall s', S (rl s') = rl s -> frem s' = tl (frem s) -> lk s' = lk s -> Q tt s') -> fwp (skip_blank str_ops) Q s.
Proof. intros Hnz HQ. apply fwp_skip_blank. intros s' R L. apply HQ; auto. apply tl_real; assumption. Qed.
Lemma fwp_skip_non_blank_real (Q : unit -> fst_ -> Prop) s :
  fnth s 0 <> 0%N -> (forall s', S (rl s') = rl s -> frem s' = tl (frem s) -> lk s' = lk s -> Q tt s') -> fwp (skip_non_blank str_ops) Q s.
Proof. intros Hnz HQ. apply fwp_skip_non_blank. intros s' R L. apply HQ; auto. apply tl_real; assumption. Qed.
Lemma fwp_skip_nl_real (Q : unit -> fst_ -> Prop) s :
  fnth s 0 <> 0%N -> (forall s', S (rl s') = rl s -> frem s' = tl (frem s) -> lk s' = lk s -> Q tt s') -> fwp (skip_nl str_ops) Q s.
Proof. intros Hnz HQ. apply fwp_skip_nl. intros s' R L. apply HQ; auto. apply tl_real; assumption. Qed.
(* n characters at once; [rl s - n] is truncated subtraction: with [fnth s (n-1) <> 0] (fnth_nonzero_rl) n <= rl s *)
Lemma fwp_skip_n_non_blank n (Q : unit -> fst_ -> Prop) s :
  (forall s', rl s' = rl s - n -> frem s' = skipn n (frem s) -> lk s' = lk s -> Q tt s') -> fwp (skip_n_non_blank str_ops n) Q s.
Proof.
  intros HQ. unfold skip_n_non_blank. apply fwp_bind. apply fwp_in_skip_n. intros s1 R1 L1 _. apply fwp_bind. apply fwp_adv_mark.
  intros s2 R2 L2. apply fwp_set_lws. intros s3 R3 L3. apply HQ; [|congruence|congruence].
  rewrite (rl_eq _ _ R3), (rl_eq _ _ R2). apply rl_skipn. exact R1.
Qed.

(* skip_linebreak: consumes a break if there is one (CR LF as a unit), otherwise nothing *)
Lemma fwp_skip_linebreak (Q : unit -> fst_ -> Prop) s :
  (forall s', rl s' <= rl s -> lk s' = lk s -> (is_break (fnth s 0) = true -> rl s' < rl s) ->
              (is_break (fnth s 0) = false -> frem s' = frem s) -> Q tt s') ->
  fwp (skip_linebreak str_ops) Q s.
Proof.
  intros HQ. unfold skip_linebreak. apply fwp_bind. apply fwp_next_2_are.
  match goal with |- fwp (if ?b then _ else _) _ _ => destruct b eqn:Ecrlf end.
  - apply andb_true_iff in Ecrlf as [E13 _]. apply N.eqb_eq in E13.
    assert (Hnz : fnth s 0 <> 0%N) by (rewrite E13; discriminate).
    apply fwp_bind. apply fwp_skip_blank_real; [exact Hnz|]. intros s1 D1 R1 L1.
    apply fwp_skip_nl. intros s2 R2 L2. pose proof (rl_tl_le _ _ R2).
    apply HQ; [lia|congruence|intros _; lia|rewrite E13; discriminate].
  - apply fwp_bind. apply fwp_peek. destruct (is_break (fnth s 0)) eqn:Eb.
    + apply fwp_skip_nl_real; [apply break_nz; exact Eb|]. intros s1 D1 R1 L1.
      apply HQ; [lia|exact L1|intros _; lia|discriminate].
    + apply fwp_ret. apply HQ; [lia|reflexivity|discriminate|reflexivity].
Qed.

(* skip_break: panics (debug_assert) unless a break is there; consumes it *)
Lemma fwp_skip_break (Q : unit -> fst_ -> Prop) s :
  (is_break (fnth s 0) = true -> forall s', rl s' < rl s -> lk s' = lk s -> Q tt s') -> fwp (skip_break str_ops) Q s.
Proof.
  intros HQ. unfold skip_break. apply fwp_bind. apply fwp_peek. apply fwp_bind. apply fwp_peekn.
  destruct (is_break (fnth s 0)) eqn:Eb; [|apply fwp_bind; apply fwp_panic].
  specialize (HQ eq_refl). pose proof (break_nz _ Eb) as Hnz.
  apply fwp_bind. apply fwp_ret. apply fwp_bind.
  match goal with |- fwp (if ?b then _ else _) _ _ => destruct b end.
  - apply fwp_skip_blank_real; [exact Hnz|]. intros s1 D1 R1 L1.
    apply fwp_skip_nl. intros s2 R2 L2. pose proof (rl_tl_le _ _ R2). apply HQ; [lia|congruence].
  - apply fwp_ret. apply fwp_skip_nl_real; [exact Hnz|]. intros s1 D1 R1 L1. apply HQ; [lia|exact L1].
Qed.

(* ---------------- the primitive loops ---------------- *)
(* in_skip_while p (p rejects NUL): ends within fuel f > rl s; at the exit the next character fails p *)
Lemma fwp_in_skip_while f p (Q : N -> fst_ -> Prop) s :
  p 0%N = false -> rl s < f ->
  (forall k s', rl s' <= rl s -> lk s <= lk s' -> 1 <= lk s' -> (p (fnth s 0) = true -> rl s' < rl s) ->
                p (fnth s' 0) = false -> inonly s s' -> Q k s') ->
  fwp (in_skip_while str_ops f p) Q s.
Proof.
  intros Hp Hf HQ. unfold in_skip_while.
  match goal with |- fwp (?L f 0%N) _ _ =>
    assert (HL : forall g k s1, rl s1 < g ->
              fwp (L g k) (fun _ s' => sk_post s1 (p (fnth s1 0) = true) s' /\ p (fnth s' 0) = false /\ inonly s1 s') s1) end.
  { induction g as [|g IHg]; intros k s1 Hg; [exfalso; lia|]. lazy beta iota.
    apply fwp_bind. apply fwp_look_ch. intros s2 R2 L2 I2.
    pose proof (rl_eq _ _ R2) as D2. pose proof (fnth_eq _ _ 0 R2) as C2.
    destruct (p (fnth s2 0)) eqn:Ep.
    - apply fwp_bind. apply fwp_in_skip_real; [apply (pred_nz p); assumption|]. intros s3 D3 R3 L3 I3.
      eapply fwp_mono; [apply IHg; lia|]. cbv beta. intros _ s' [P [E' I']].
      split; [|split; [exact E'|ino]]. unfold sk_post in *. lia.
    - apply fwp_ret. split; [|split; [exact Ep|ino]]. unfold sk_post. rewrite <- C2, Ep. repeat split; try lia; try discriminate. }
  eapply fwp_mono; [apply HL; exact Hf|]. cbv beta. intros k s' [[P1 [P2 [P3 P4]]] [E' I']]. apply HQ; assumption.
Qed.
Lemma fwp_in_skip_while_non_breakz f (Q : N -> fst_ -> Prop) s :
  rl s < f ->
  (forall k s', rl s' <= rl s -> lk s <= lk s' -> 1 <= lk s' -> (is_breakz (fnth s 0) = false -> rl s' < rl s) ->
                is_breakz (fnth s' 0) = true -> inonly s s' -> Q k s') ->
  fwp (in_skip_while_non_breakz str_ops f) Q s.
Proof.
  intros Hf HQ. unfold in_skip_while_non_breakz. apply fwp_in_skip_while; [reflexivity|exact Hf|].
  intros k s' P1 P2 P3 P4 E' I'. apply HQ; try assumption.
  - intros Z. apply P4. rewrite Z. reflexivity.
  - apply negb_false_iff. exact E'.
Qed.
Lemma fwp_in_skip_while_blank f (Q : N -> fst_ -> Prop) s :
  rl s < f ->
  (forall k s', rl s' <= rl s -> lk s <= lk s' -> 1 <= lk s' -> (is_blank (fnth s 0) = true -> rl s' < rl s) ->
                is_blank (fnth s' 0) = false -> inonly s s' -> Q k s') ->
  fwp (in_skip_while_blank str_ops f) Q s.
Proof. intros Hf HQ. unfold in_skip_while_blank. apply fwp_in_skip_while; [reflexivity|exact Hf|exact HQ]. Qed.

Lemma fwp_in_fetch_while_alpha f acc (Q : list chr * N -> fst_ -> Prop) s :
  rl s < f ->
  (forall r s', rl s' <= rl s -> lk s <= lk s' -> 1 <= lk s' -> (is_alpha (fnth s 0) = true -> rl s' < rl s) ->
                is_alpha (fnth s' 0) = false -> inonly s s' -> Q r s') ->
  fwp (in_fetch_while_alpha str_ops f acc) Q s.
Proof.
  intros Hf HQ. unfold in_fetch_while_alpha.
  match goal with |- fwp (?L f acc 0%N) _ _ =>
    assert (HL : forall g a k s1, rl s1 < g ->
              fwp (L g a k) (fun _ s' => sk_post s1 (is_alpha (fnth s1 0) = true) s' /\ is_alpha (fnth s' 0) = false /\ inonly s1 s') s1) end.
  { induction g as [|g IHg]; intros a k s1 Hg; [exfalso; lia|]. lazy beta iota.
    apply fwp_bind. apply fwp_look_ch. intros s2 R2 L2 I2.
    pose proof (rl_eq _ _ R2) as D2. pose proof (fnth_eq _ _ 0 R2) as C2.
    destruct (is_alpha (fnth s2 0)) eqn:Ep.
    - apply fwp_bind. apply fwp_in_skip_real; [apply alpha_nz; assumption|]. intros s3 D3 R3 L3 I3.
      eapply fwp_mono; [apply IHg; lia|]. cbv beta. intros _ s' [P [E' I']].
      split; [|split; [exact E'|ino]]. unfold sk_post in *. lia.
    - apply fwp_ret. split; [|split; [exact Ep|ino]]. unfold sk_post. rewrite <- C2, Ep. repeat split; try lia; try discriminate. }
  eapply fwp_mono; [apply HL; exact Hf|]. cbv beta. intros r s' [[P1 [P2 [P3 P4]]] [E' I']]. apply HQ; assumption.
Qed.

(* in_skip_ws_to_eol with its nested comment loop.  [eol_strict]: the first character is one the loop takes *)
Definition eol_strict (st : skiptabs) (c : chr) : Prop := c = 32%N \/ (c = 9%N /\ st = SkipYes).

Lemma in_skip_ws_to_eol_fuel : forall f st tab ws n s, rl s < f ->
  fwp (in_skip_ws_to_eol str_ops f st tab ws n) (fun _ s' => sk_post s (eol_strict st (fnth s 0)) s' /\ inonly s s') s.
Proof.
  induction f as [|f IH]; intros st tab ws n s Hf; [exfalso; lia|].
  cbn [in_skip_ws_to_eol].
  apply fwp_bind. apply fwp_look_ch. intros s1 R1 L1 I1.
  pose proof (rl_eq _ _ R1) as D1. pose proof (fnth_eq _ _ 0 R1) as C1.
  (* a consumed character followed by a callee that only consumes *)
  assert (STEP : forall s2 s', S (rl s2) = rl s1 -> lk s2 = lk s1 -> inonly s1 s2 ->
            sk_post s2 False s' /\ inonly s2 s' -> sk_post s (eol_strict st (fnth s 0)) s' /\ inonly s s').
  { intros s2 s' D2 L2 I2 [P I']. split; [|ino]. unfold sk_post in *. lia. }
  destruct (N.eqb_spec (fnth s1 0) 32) as [E32|N32].
  { apply fwp_bind. apply fwp_in_skip_real; [rewrite E32; discriminate|]. intros s2 D2 R2 L2 I2.
    eapply fwp_mono; [apply IH; lia|]. cbv beta. intros _ s' [P I']. apply (STEP s2 s'); auto.
    split; [|exact I']. unfold sk_post in *. tauto. }
  match goal with |- fwp (if ?b then _ else _) _ _ => destruct b eqn:E9 end.
  { apply andb_true_iff in E9 as [E9 _]. apply N.eqb_eq in E9.
    apply fwp_bind. apply fwp_in_skip_real; [rewrite E9; discriminate|]. intros s2 D2 R2 L2 I2.
    eapply fwp_mono; [apply IH; lia|]. cbv beta. intros _ s' [P I']. apply (STEP s2 s'); auto.
    split; [|exact I']. unfold sk_post in *. tauto. }
  assert (NOSTRICT : ~ eol_strict st (fnth s 0)).
  { rewrite <- C1. intros [E|[E Est]]; [contradiction|]. rewrite E, Est in E9. discriminate E9. }
  assert (STOP : sk_post s (eol_strict st (fnth s 0)) s1 /\ inonly s s1).
  { split; [|ino]. unfold sk_post. repeat split; try lia. intros X. contradiction. }
  destruct (N.eqb_spec (fnth s1 0) 35) as [E35|N35]; [|apply fwp_ret; exact STOP].
  destruct (negb tab && negb ws); [apply fwp_ret; exact STOP|].
  apply fwp_bind. apply fwp_in_skip_real; [rewrite E35; discriminate|]. intros s2 D2 R2 L2 I2.
  match goal with |- fwp (?L f n) _ _ =>
    assert (HL : forall g k s3, rl s3 < g -> rl s3 < f ->
              fwp (L g k) (fun _ s' => sk_post s3 False s' /\ inonly s3 s') s3) end.
  { induction g as [|g IHg]; intros k s3 Hg Hf3; [exfalso; lia|]. lazy beta iota.
    apply fwp_bind. apply fwp_look_ch. intros s4 R4 L4 I4.
    pose proof (rl_eq _ _ R4) as D4.
    destruct (is_breakz (fnth s4 0)) eqn:Z4.
    - eapply fwp_mono; [apply IH; lia|]. cbv beta. intros _ s' [P I']. split; [|ino]. unfold sk_post in *. lia.
    - apply fwp_bind. apply fwp_in_skip_real; [apply not_breakz_nz; exact Z4|]. intros s5 D5 R5 L5 I5.
      eapply fwp_mono; [apply IHg; lia|]. cbv beta. intros _ s' [P I']. split; [|ino]. unfold sk_post in *. lia. }
  eapply fwp_mono; [apply HL; lia|]. cbv beta. intros _ s' H. apply (STEP s2 s'); auto.
Qed.

Lemma fwp_in_skip_ws_to_eol f st tab ws n (Q : N * option (bool * bool) -> fst_ -> Prop) s :
  rl s < f ->
  (forall r s', rl s' <= rl s -> lk s <= lk s' -> 1 <= lk s' -> (eol_strict st (fnth s 0) -> rl s' < rl s) ->
                inonly s s' -> Q r s') ->
  fwp (in_skip_ws_to_eol str_ops f st tab ws n) Q s.
Proof.
  intros Hf HQ. eapply fwp_mono; [apply in_skip_ws_to_eol_fuel; exact Hf|]. cbv beta.
  intros r s' [[P1 [P2 [P3 P4]]] I']. apply HQ; assumption.
Qed.

(* ================= (b) the contracts ================= *)
(* skip_ws_to_eol: sharper form (fuel hypothesis [rl s < f]; strict when the first character is taken) *)
Theorem skip_ws_to_eol_lt : forall f stb s, rl s < f ->
  fwp (skip_ws_to_eol str_ops f stb) (fun _ s' => sk_post s (eol_strict stb (fnth s 0)) s') s.
Proof.
  intros f stb s Hf. unfold skip_ws_to_eol.
  apply fwp_bind. apply fwp_in_skip_ws_to_eol; [exact Hf|]. intros r s1 P1 P2 P3 P4 I1.
  apply fwp_bind. apply fwp_adv_mark. intros s2 R2 L2.
  pose proof (rl_eq _ _ R2) as D2.
  destruct (snd r) as [tw|].
  - apply fwp_ret. unfold sk_post. rewrite D2, L2. tauto.
  - apply fwp_bind. apply fwp_mark. apply fwp_fail.
Qed.

(* continuation form for the callers *)
Lemma fwp_skip_ws_to_eol f stb (Q : bool * bool -> fst_ -> Prop) s :
  rl s < f ->
  (forall r s', rl s' <= rl s -> lk s <= lk s' -> 1 <= lk s' -> (eol_strict stb (fnth s 0) -> rl s' < rl s) -> Q r s') ->
  fwp (skip_ws_to_eol str_ops f stb) Q s.
Proof.
  intros Hf HQ. eapply fwp_mono; [apply skip_ws_to_eol_lt; exact Hf|]. cbv beta.
  intros r s' [P1 [P2 [P3 P4]]]. apply HQ; assumption.
Qed.

Theorem skip_ws_to_eol_ok : fuel_skip_ws_to_eol.
Proof.
  intros F stb s HF. eapply fwp_mono; [apply skip_ws_to_eol_lt; apply fuel_ok_lt; exact HF|].
  intros a s'. apply sk_post_le.
Qed.

(* skip_to_next_token: the inner loops are started with the CURRENT fuel of the outer loop, and every iteration of
   the outer loop but the last consumes at least one character: [rl s < f] is invariant *)
Theorem skip_to_next_token_lt : forall f s, rl s < f ->
  fwp (skip_to_next_token str_ops f) (fun _ s' => sk_post s False s') s.
Proof.
  induction f as [|f IHf]; intros s Hf; [exfalso; lia|].
  cbn [skip_to_next_token].
  apply fwp_bind. apply fwp_look_ch. intros s1 R1 L1 I1.
  pose proof (rl_eq _ _ R1) as D1.
  apply fwp_bind. apply fwp_get. apply fwp_bind. apply fwp_is_within_block.
  (* a callee state that has consumed, then the rest of the loop *)
  assert (NEXT : forall s2, rl s2 < rl s1 -> lk s1 <= lk s2 ->
            fwp (skip_to_next_token str_ops f) (fun _ s' => sk_post s False s') s2).
  { intros s2 D2 L2. eapply fwp_mono; [apply IHf; lia|]. cbv beta. intros _ s'. unfold sk_post. lia. }
  match goal with |- fwp (if ?b then _ else _) _ _ => destruct b eqn:Etab end.
  { (* a tab in the indentation *)
    assert (E9 : fnth s1 0 = 9%N).
    { apply andb_true_iff in Etab as [Etab _]. apply andb_true_iff in Etab as [Etab _].
      apply andb_true_iff in Etab as [Etab _]. apply N.eqb_eq. exact Etab. }
    apply fwp_bind. apply fwp_skip_ws_to_eol; [lia|]. intros tw s2 P1 P2 P3 P4.
    assert (D2 : rl s2 < rl s1) by (apply P4; right; split; [exact E9|reflexivity]).
    apply fwp_bind. apply fwp_next_is.
    destruct (is_breakz (fnth s2 0)).
    - apply NEXT; assumption.
    - apply fwp_bind. apply fwp_mark. apply fwp_fail. }
  match goal with |- fwp (if ?b then _ else _) _ _ => destruct b eqn:Ebl end.
  { (* tab or space *)
    assert (Hnz : fnth s1 0 <> 0%N).
    { apply orb_true_iff in Ebl as [E|E]; apply N.eqb_eq in E; rewrite E; discriminate. }
    apply fwp_bind. apply fwp_skip_blank_real; [exact Hnz|]. intros s2 D2 R2 L2. apply NEXT; lia. }
  match goal with |- fwp (if ?b then _ else _) _ _ => destruct b eqn:Ebr end.
  { (* a line break *)
    apply fwp_bind. apply fwp_look. intros s2 R2 L2 I2.
    pose proof (rl_eq _ _ R2) as D2. pose proof (fnth_eq _ _ 0 R2) as C2.
    apply fwp_bind. apply fwp_skip_linebreak. intros s3 P1 L3 P3 _.
    assert (D3 : rl s3 < rl s2) by (apply P3; rewrite C2; exact Ebr).
    apply fwp_bind. apply fwp_flow_level. apply fwp_bind.
    destruct (sc_flow_level s3 =? 0)%N.
    - apply fwp_allow_simple_key. intros s4 R4 L4. apply NEXT; [rewrite (rl_eq _ _ R4)|]; lia.
    - apply fwp_ret. apply NEXT; lia. }
  match goal with |- fwp (if ?b then _ else _) _ _ => destruct b eqn:E35 end.
  { (* a comment *)
    apply N.eqb_eq in E35.
    apply fwp_bind. apply fwp_in_skip_while_non_breakz; [lia|]. intros k s2 P1 P2 P3 P4 _ _.
    assert (D2 : rl s2 < rl s1) by (apply P4; rewrite E35; reflexivity).
    apply fwp_bind. apply fwp_adv_mark. intros s3 R3 L3. apply NEXT; [rewrite (rl_eq _ _ R3)|]; lia. }
  apply fwp_ret. unfold sk_post. lia.
Qed.

Theorem skip_to_next_token_ok : fuel_skip_to_next_token.
Proof.
  intros F s HF. eapply fwp_mono; [apply skip_to_next_token_lt; apply fuel_ok_lt; exact HF|].
  intros a s'. apply sk_post_le.
Qed.

(* skip_yaml_whitespace: the comment loop gets the function's fuel F, the outer loop counts down from F; every
   iteration of the outer loop but the last consumes *)
Theorem skip_yaml_whitespace_lt : forall F s, rl s < F ->
  fwp (skip_yaml_whitespace str_ops F) (fun _ s' => sk_post s False s') s.
Proof.
  intros F s HF. unfold skip_yaml_whitespace.
  match goal with |- fwp (?L F true) _ _ => set (LL := L) end.
  assert (HL : forall f need s1, rl s1 < F -> rl s1 < f -> fwp (LL f need) (fun _ s' => sk_post s1 False s') s1).
  { clear s HF. induction f as [|f IHf]; intros need s HF Hf; [exfalso; lia|]. unfold LL. lazy beta iota. fold LL.
    apply fwp_bind. apply fwp_look_ch. intros s1 R1 L1 I1.
    pose proof (rl_eq _ _ R1) as D1.
    assert (NEXT : forall nd s2, rl s2 < rl s1 -> lk s1 <= lk s2 -> fwp (LL f nd) (fun _ s' => sk_post s False s') s2).
    { intros nd s2 D2 L2. eapply fwp_mono; [apply IHf; lia|]. cbv beta. intros _ s'. unfold sk_post. lia. }
    destruct (N.eqb_spec (fnth s1 0) 32) as [E32|N32].
    { apply fwp_bind. apply fwp_skip_blank_real; [rewrite E32; discriminate|]. intros s2 D2 R2 L2. apply NEXT; lia. }
    match goal with |- fwp (if ?b then _ else _) _ _ => destruct b eqn:Ebr end.
    { apply fwp_bind. apply fwp_look. intros s2 R2 L2 I2.
      pose proof (rl_eq _ _ R2) as D2. pose proof (fnth_eq _ _ 0 R2) as C2.
      apply fwp_bind. apply fwp_skip_linebreak. intros s3 P1 L3 P3 _.
      assert (D3 : rl s3 < rl s2) by (apply P3; rewrite C2; exact Ebr).
      apply fwp_bind. apply fwp_flow_level. apply fwp_bind.
      destruct (sc_flow_level s3 =? 0)%N.
      - apply fwp_allow_simple_key. intros s4 R4 L4. apply NEXT; [rewrite (rl_eq _ _ R4)|]; lia.
      - apply fwp_ret. apply NEXT; lia. }
    destruct (N.eqb_spec (fnth s1 0) 35) as [E35|N35].
    { apply fwp_bind. apply fwp_in_skip_while_non_breakz; [lia|]. intros k s2 P1 P2 P3 P4 _ _.
      assert (D2 : rl s2 < rl s1) by (apply P4; rewrite E35; reflexivity).
      apply fwp_bind. apply fwp_adv_mark. intros s3 R3 L3. apply NEXT; [rewrite (rl_eq _ _ R3)|]; lia. }
    destruct need.
    - apply fwp_bind. apply fwp_mark. apply fwp_fail.
    - apply fwp_ret. unfold sk_post. lia. }
  apply HL; exact HF.
Qed.

Theorem skip_yaml_whitespace_ok : fuel_skip_yaml_whitespace.
Proof.
  intros F s HF. eapply fwp_mono; [apply skip_yaml_whitespace_lt; apply fuel_ok_lt; exact HF|].
  intros a s'. apply sk_post_le.
Qed.

Print Assumptions skip_ws_to_eol_ok.
Print Assumptions skip_to_next_token_ok.
Print Assumptions skip_yaml_whitespace_ok.
Print Assumptions skip_ws_to_eol_lt.
Print Assumptions skip_to_next_token_lt.
Print Assumptions skip_yaml_whitespace_lt.
