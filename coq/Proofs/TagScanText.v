(* C16 — the scanner half at TEXT level: what the scanner model (string back-end) returns on tag texts.

   For every tag text built from tag characters and percent-escapes — verbatim `!<uri>`, named `!name!suffix`
   (including `!!suffix`), local `!suffix`, lone `!` — [scan_tag] returns the TTag token with the handle and the
   percent-DECODED suffix ([scan_tag_verbatim], [scan_tag_named], [scan_tag_local]); for every `%TAG` line
   [scan_directive] returns the TTagDirective token with the handle and the decoded prefix
   ([scan_tag_directive_value_text], [scan_directive_tag_text]).  "Decoded" is the specification's
   [percent_decode] (Spec/TagSpec.v), through the exactness theorem of Proofs/TagUtf8.v.

   Technique: states are kept in the form [st l lk m w s] (text left, lookahead counter, mark, leading-whitespace
   flag over a base state s); each primitive of the monad has an equation on that form; loops have one lemma each,
   for any fuel larger than the text they consume. *)
From Coq Require Import List NArith ZArith Bool Lia.
Import ListNotations.
Require Import Parser TagSpec SBase SPrim SDir TagUtf8.
Open Scope N_scope.
Open Scope mon_scope.

(* ========================================================================================== *)
(* 0. The specification's percent_decode as a relation                                          *)
(* ========================================================================================== *)
Inductive decodes : list N -> list N -> Prop :=
| dec_nil : decodes [] []
| dec_char : forall c l t, c <> 37 -> decodes l t -> decodes (c :: l) (c :: t)
| dec_esc : forall l d r t, take_escaped_char l = Some (d, r) -> decodes r t -> decodes l (d :: t).

Lemma take_escaped_char_shorter : forall l d r, take_escaped_char l = Some (d, r) -> (length r < length l)%nat.
Proof.
  intros l d r H. apply take_escaped_char_spells in H. destruct H as [es [bs [-> [HS HD]]]].
  rewrite app_length, (spells_length _ _ HS). destruct bs; [discriminate|]. cbn [length]. lia.
Qed.

Lemma take_escaped_char_head : forall l d r, take_escaped_char l = Some (d, r) -> exists l', l = 37 :: l'.
Proof.
  intros l d r H. unfold take_escaped_char in H. destruct (take_escape l) as [[b r1]|] eqn:E; [|discriminate].
  destruct (take_escape_inv _ _ _ E) as [x [y [hi [lo [-> _]]]]]. eexists. reflexivity.
Qed.

Lemma percent_decode_fuel_decodes : forall fuel l t,
  (length l <= fuel)%nat -> (percent_decode_fuel fuel l = Some t <-> decodes l t).
Proof.
  induction fuel as [|fuel IH]; intros l t HL.
  - destruct l; [|cbn in HL; lia]. cbn. split; intros H.
    + inversion H. constructor.
    + inversion H as [| |l0 d r t0 HE]; subst; [reflexivity|]. discriminate.
  - cbn [percent_decode_fuel]. destruct l as [|c r].
    + split; intros H.
      * inversion H. constructor.
      * inversion H as [| |l0 d r t0 HE]; subst; [reflexivity|]. discriminate.
    + unfold percent. destruct (N.eqb_spec c 37) as [->|Hc].
      * destruct (take_escaped_char (37 :: r)) as [[d r']|] eqn:E.
        -- pose proof (take_escaped_char_shorter _ _ _ E) as HS. cbn [length] in HS, HL.
           split; intros H.
           ++ destruct (percent_decode_fuel fuel r') as [t'|] eqn:E2; [|discriminate]. inversion H; subst.
              eapply dec_esc; [exact E|]. apply IH; [lia|exact E2].
           ++ inversion H as [|c0 l0 t0 Hne|l0 d0 r0 t0 HE HD]; subst; [congruence|].
              rewrite E in HE. inversion HE; subst. apply IH in HD; [|lia]. rewrite HD. reflexivity.
        -- split; intros H; [discriminate|].
           inversion H as [|c0 l0 t0 Hne|l0 d0 r0 t0 HE HD]; subst; [congruence|]. rewrite E in HE. discriminate.
      * cbn [length] in HL. split; intros H.
        -- destruct (percent_decode_fuel fuel r) as [t'|] eqn:E2; [|discriminate]. inversion H; subst.
           apply dec_char; [exact Hc|]. apply IH; [lia|exact E2].
        -- inversion H as [|c0 l0 t0 Hne HD|l0 d0 r0 t0 HE HD]; subst.
           ++ apply IH in HD; [|lia]. rewrite HD. reflexivity.
           ++ destruct (take_escaped_char_head _ _ _ HE) as [l' E']. inversion E'; subst. congruence.
Qed.

Theorem percent_decode_decodes : forall l t, percent_decode l = Some t <-> decodes l t.
Proof. intros l t. unfold percent_decode. apply percent_decode_fuel_decodes. lia. Qed.

Lemma decodes_fun : forall l t1, decodes l t1 -> forall t2, decodes l t2 -> t1 = t2.
Proof.
  intros l t1 H1 t2 H2. apply percent_decode_decodes in H1. apply percent_decode_decodes in H2. congruence.
Qed.

(* a text without '%' decodes to itself *)
Lemma decodes_plain : forall l, ~ In 37 l -> decodes l l.
Proof.
  induction l as [|c l IH]; intros H; [constructor|].
  apply dec_char; [intros ->; apply H; left; reflexivity|]. apply IH. intros HI. apply H. right. exact HI.
Qed.

Lemma decodes_app_plain : forall w l t, ~ In 37 w -> decodes l t -> decodes (w ++ l) (w ++ t).
Proof.
  induction w as [|c w IH]; intros l t H HD; [exact HD|]. cbn [app].
  apply dec_char; [intros ->; apply H; left; reflexivity|]. apply IH; [|exact HD]. intros HI. apply H. right. exact HI.
Qed.

(* reading an escaped character does not depend on what follows it *)
Lemma take_escaped_char_app : forall l d r rest,
  take_escaped_char l = Some (d, r) -> take_escaped_char (l ++ rest) = Some (d, r ++ rest).
Proof.
  intros l d r rest H. apply take_escaped_char_spells in H. destruct H as [es [bs [-> [HS HD]]]].
  apply take_escaped_char_spells. exists es, bs. rewrite app_assoc. auto.
Qed.

(* ========================================================================================== *)
(* 1. Scanner states in the form [st l lk m w s] and the primitives on them                     *)
(* ========================================================================================== *)
Definition st (l : list N) (lk : nat) (m : marker) (w : bool) (s : sc strin) : sc strin :=
  set_lws w (set_mark m (set_in {| si_chars := l; si_look := lk |} s)).

Lemma st_st : forall l lk m w l' lk' m' w' s, st l lk m w (st l' lk' m' w' s) = st l lk m w s.
Proof. intros. destruct s. reflexivity. Qed.

Lemma st_self : forall s, st (si_chars (sc_in s)) (si_look (sc_in s)) (sc_mark s) (sc_lws s) s = s.
Proof. intros s. destruct s as [[chars lk] ? ? ? ? ? ? ? ? ? ? ? ? ? ?]. reflexivity. Qed.

Lemma st_chars : forall l lk m w s, si_chars (sc_in (st l lk m w s)) = l.
Proof. reflexivity. Qed.
Lemma st_look : forall l lk m w s, si_look (sc_in (st l lk m w s)) = lk.
Proof. reflexivity. Qed.
Lemma st_mark : forall l lk m w s, sc_mark (st l lk m w s) = m.
Proof. reflexivity. Qed.
Lemma st_lws : forall l lk m w s, sc_lws (st l lk m w s) = w.
Proof. reflexivity. Qed.
Lemma st_flow_level : forall l lk m w s, sc_flow_level (st l lk m w s) = sc_flow_level s.
Proof. reflexivity. Qed.

Lemma adv_adv : forall a b m, adv a (adv b m) = adv (b + a) m.
Proof. intros a b [i l c]. unfold adv. cbn [m_index m_line m_col]. f_equal; lia. Qed.
Lemma adv_0 : forall m, adv 0 m = m.
Proof. intros [i l c]. unfold adv. cbn [m_index m_line m_col]. f_equal; lia. Qed.

Lemma bind_eq : forall {A B} (m : @M strin A) (f : A -> @M strin B) s a s1,
  m s = SBase.Ok (a, s1) -> bind m f s = f a s1.
Proof. intros A B m f s a s1 H. unfold bind. rewrite H. reflexivity. Qed.

Lemma look_st : forall n l lk m w s, look str_ops n (st l lk m w s) = SBase.Ok (tt, st l (Nat.max lk n) m w s).
Proof. intros. destruct s. reflexivity. Qed.
Lemma peekn_st : forall k l lk m w s, peekn str_ops k (st l lk m w s) = SBase.Ok (@nth N k l 0, st l lk m w s).
Proof. intros. destruct s. reflexivity. Qed.
Lemma peek_st : forall l lk m w s, peek str_ops (st l lk m w s) = SBase.Ok (@nth N 0 l 0, st l lk m w s).
Proof. intros. destruct s. reflexivity. Qed.
Lemma look_ch_st : forall l lk m w s,
  look_ch str_ops (st l lk m w s) = SBase.Ok (@nth N 0 l 0, st l (Nat.max lk 1) m w s).
Proof. intros. destruct s. reflexivity. Qed.
Lemma mark_st : forall l lk m w s, mark (st l lk m w s) = SBase.Ok (m, st l lk m w s).
Proof. intros. destruct s. reflexivity. Qed.
Lemma flow_level_st : forall l lk m w s, flow_level (st l lk m w s) = SBase.Ok (sc_flow_level s, st l lk m w s).
Proof. intros. destruct s. reflexivity. Qed.
Lemma in_skip_st : forall l lk m w s, in_skip str_ops (st l lk m w s) = SBase.Ok (tt, st (tl l) lk m w s).
Proof. intros. destruct s. reflexivity. Qed.
Lemma adv_mark_st : forall n l lk m w s, adv_mark n (st l lk m w s) = SBase.Ok (tt, st l lk (adv n m) w s).
Proof. intros. destruct s. reflexivity. Qed.
Lemma skip_non_blank_st : forall l lk m w s,
  skip_non_blank str_ops (st l lk m w s) = SBase.Ok (tt, st (tl l) lk (adv 1 m) false s).
Proof. intros. destruct s. reflexivity. Qed.
Lemma skip_blank_st : forall l lk m w s,
  skip_blank str_ops (st l lk m w s) = SBase.Ok (tt, st (tl l) lk (adv 1 m) w s).
Proof. intros. destruct s. reflexivity. Qed.
Lemma skip_n_non_blank_st : forall n l lk m w s,
  skip_n_non_blank str_ops n (st l lk m w s) = SBase.Ok (tt, st (skipn n l) lk (adv (N.of_nat n) m) false s).
Proof. intros. destruct s. reflexivity. Qed.
Lemma nth_char_is_st : forall k c l lk m w s,
  nth_char_is str_ops k c (st l lk m w s) = SBase.Ok (@nth N k l 0 =? c, st l lk m w s).
Proof. intros. destruct s. reflexivity. Qed.
Lemma ret_st : forall {A} (a : A) (s : sc strin), ret a s = SBase.Ok (a, s).
Proof. reflexivity. Qed.

(* the states of Proofs/TagUtf8.v in this form *)
Lemma eat3_st : forall l lk m w s, eat 3 (st l lk m w s) = st (skipn 3 l) (Nat.max lk 3) (adv 3 m) false s.
Proof. intros. destruct s. reflexivity. Qed.

Lemma eats_st : forall n l lk m w s, (0 < n)%nat ->
  eats n (st l lk m w s) = st (skipn (3 * n) l) (Nat.max lk 3) (adv (N.of_nat (3 * n)) m) false s.
Proof.
  induction n as [|n IH]; intros l lk m w s Hn; [lia|].
  cbn [eats]. rewrite eat3_st. destruct n as [|n].
  - cbn [eats]. reflexivity.
  - rewrite IH by lia. rewrite skipn_add, adv_adv, <- Nat.max_assoc, Nat.max_id.
    f_equal; [f_equal; lia|f_equal; lia].
Qed.

Lemma bind_bind : forall {A B C} (m : @M strin A) (f : A -> @M strin B) (g : B -> @M strin C) s,
  bind (bind m f) g s = bind m (fun x => bind (f x) g) s.
Proof. intros. unfold bind. destruct (m s) as [[a s']| | |]; reflexivity. Qed.

(* one step of a tactic that runs straight-line monadic code on a state in [st] form *)
Ltac prim_eq :=
  lazymatch goal with
  | |- look _ _ _ = _ => apply look_st
  | |- peekn _ _ _ = _ => apply peekn_st
  | |- peek _ _ = _ => apply peek_st
  | |- look_ch _ _ = _ => apply look_ch_st
  | |- mark _ = _ => apply mark_st
  | |- flow_level _ = _ => apply flow_level_st
  | |- in_skip _ _ = _ => apply in_skip_st
  | |- adv_mark _ _ = _ => apply adv_mark_st
  | |- skip_non_blank _ _ = _ => apply skip_non_blank_st
  | |- skip_blank _ _ = _ => apply skip_blank_st
  | |- skip_n_non_blank _ _ _ = _ => apply skip_n_non_blank_st
  | |- nth_char_is _ _ _ _ = _ => apply nth_char_is_st
  | |- ret _ _ = _ => apply ret_st
  end.
Ltac mstep := unfold chr in *; rewrite ?bind_bind; erewrite bind_eq; [|prim_eq]; cbv beta.
Ltac msteps := repeat mstep.
(* equalities of results that differ only in arithmetic *)
Ltac fin_eq := solve [ reflexivity | lia | f_equal; fin_eq ].

(* ========================================================================================== *)
(* 2. The uri loop: `while is_X(look_ch) { push the character, or decode an escape }`            *)
(* ========================================================================================== *)
Section UL.
Variables (p : N -> bool) (mk : marker).
Fixpoint ul_go (f : nat) (acc : list N) (n : N) : @M strin (list N * N) :=
  match f with
  | O => oof
  | S f =>
    c <- look_ch str_ops ;;
    if p c then
      if c =? 37 then e <- scan_uri_escapes str_ops mk ;; ul_go f (e :: acc) (n + 1)
      else skip_non_blank str_ops ;;; ul_go f (c :: acc) (n + 1)
    else ret (acc, n)
  end.
End UL.

Lemma uri_loop_go : forall F p mk acc, uri_loop str_ops F p mk acc = ul_go p mk F acc 0.
Proof. reflexivity. Qed.

Lemma skipn_spells_app : forall es bs (r : list N), spells es bs -> skipn (3 * length bs) (es ++ r) = r.
Proof.
  intros es bs r HS. rewrite <- (spells_length _ _ HS), skipn_app, skipn_all, Nat.sub_diag. reflexivity.
Qed.

Definition lws_after (l : list N) (w : bool) : bool := match l with [] => w | _ => false end.

(* the loop on a text [l] of characters of the class (escapes included) that decodes to [t], followed by a
   character outside the class (or the end of input): it returns the decoded text, pushed in reverse on the
   accumulator, counts the characters, and has consumed exactly [l] *)
Lemma ul_go_text : forall p mk l t, decodes l t -> Forall (fun c => p c = true) l ->
  forall f acc n rest lk m w s, p (hd 0 rest) = false -> (length l < f)%nat ->
  exists lk', (lk <= lk')%nat /\
    ul_go p mk f acc n (st (l ++ rest) lk m w s) =
    SBase.Ok ((rev t ++ acc, n + N.of_nat (length t)),
              st rest lk' (adv (N.of_nat (length l)) m) (lws_after l w) s).
Proof.
  intros p mk l t HD. induction HD as [|c l t Hc HD IH|l d r t HE HD IH]; intros HF f acc n rest lk m w s HR HL.
  - destruct f as [|f]; [cbn in HL; lia|]. cbn [ul_go app length lws_after rev]. mstep.
    replace (@nth N 0 rest 0) with (hd 0 rest) by (destruct rest; reflexivity). rewrite HR.
    exists (Nat.max lk 1). split; [lia|]. change (N.of_nat 0) with 0. rewrite adv_0, N.add_0_r. reflexivity.
  - destruct f as [|f]; [cbn in HL; lia|]. cbn [length] in HL. inversion HF as [|? ? Hpc HF']; subst.
    cbn [ul_go app]. mstep. cbn [nth]. rewrite Hpc. rewrite (proj2 (N.eqb_neq c 37) Hc). mstep. cbn [tl].
    destruct (IH HF' f (c :: acc) (n + 1) rest (Nat.max lk 1) (adv 1 m) false s HR ltac:(lia)) as [lk' [Hlk E]].
    exists lk'. split; [lia|]. refine (eq_trans E _). cbn [lws_after length rev]. rewrite adv_adv.
    replace (lws_after l false) with false by (destruct l; reflexivity).
    rewrite <- app_assoc. cbn [app]. fin_eq.
  - destruct f as [|f]; [cbn in HL; lia|].
    destruct (proj1 (take_escaped_char_spells _ _ _) HE) as [es [bs [-> [HS HU]]]].
    assert (Hbs : (0 < length bs)%nat) by (destruct bs; [discriminate|cbn; lia]).
    destruct es as [|e0 es']; [inversion HS; subst; cbn in Hbs; lia|].
    assert (e0 = 37) by (inversion HS; reflexivity). subst e0.
    inversion HF as [|? ? Hp37 HF0]; subst.
    assert (HFr : Forall (fun c => p c = true) r) by (apply Forall_app in HF0; apply HF0).
    rewrite <- app_assoc. cbn [ul_go app]. mstep. cbn [nth]. rewrite Hp37. change (37 =? 37) with true. cbv iota. unfold chr in *.
    erewrite bind_eq;
      [|apply (scan_uri_escapes_decodes bs d (37 :: es') (r ++ rest)); [exact HU|exact HS|reflexivity]].
    rewrite eats_st by exact Hbs.
    change (37 :: es' ++ r ++ rest) with ((37 :: es') ++ r ++ rest). rewrite (skipn_spells_app _ _ _ HS).
    assert (HLr : (length r < f)%nat).
    { rewrite app_length, (spells_length _ _ HS) in HL. lia. }
    destruct (IH HFr f (d :: acc) (n + 1) rest (Nat.max (Nat.max lk 1) 3) (adv (N.of_nat (3 * length bs)) m) false s HR HLr)
      as [lk' [Hlk E]].
    exists lk'. split; [lia|]. refine (eq_trans E _). cbn [lws_after length rev]. rewrite adv_adv.
    replace (lws_after r false) with false by (destruct r; reflexivity).
    rewrite <- app_assoc. cbn [app].
    pose proof (spells_length _ _ HS) as HLs. cbn [length] in HLs.
    rewrite app_length. fin_eq.
Qed.

(* ========================================================================================== *)
(* 3. The counting loops of input.rs                                                            *)
(* ========================================================================================== *)
Fixpoint fa_go (f : nat) (acc : list N) (k : N) : @M strin (list N * N) :=
  match f with
  | O => oof
  | S f => c <- look_ch str_ops ;; if is_alpha c then in_skip str_ops ;;; fa_go f (c :: acc) (k + 1) else ret (acc, k)
  end.
Lemma in_fetch_while_alpha_go : forall fuel acc, in_fetch_while_alpha str_ops fuel acc = fa_go fuel acc 0.
Proof. reflexivity. Qed.

Lemma nth0_hd : forall (l : list N), @nth N 0 l 0 = hd 0 l.
Proof. destruct l; reflexivity. Qed.

Lemma fa_go_text : forall w, Forall (fun c => is_alpha c = true) w ->
  forall f acc k rest lk m ws s, is_alpha (hd 0 rest) = false -> (length w < f)%nat ->
  fa_go f acc k (st (w ++ rest) lk m ws s) =
  SBase.Ok ((rev w ++ acc, k + N.of_nat (length w)), st rest (Nat.max lk 1) m ws s).
Proof.
  induction w as [|c w IH]; intros HF f acc k rest lk m ws s HR HL.
  - destruct f as [|f]; [cbn in HL; lia|]. cbn [fa_go app length rev]. mstep. rewrite nth0_hd, HR.
    change (N.of_nat 0) with 0. rewrite N.add_0_r. reflexivity.
  - destruct f as [|f]; [cbn in HL; lia|]. cbn [length] in HL. inversion HF as [|? ? Hc HF']; subst.
    cbn [fa_go app]. mstep. cbn [nth]. rewrite Hc. mstep. cbn [tl].
    refine (eq_trans (IH HF' f (c :: acc) (k + 1) rest (Nat.max lk 1) m ws s HR ltac:(lia)) _).
    rewrite <- Nat.max_assoc, Nat.max_id. cbn [rev length]. rewrite <- app_assoc. cbn [app]. fin_eq.
Qed.

Section SW.
Variable p : N -> bool.
Fixpoint sw_go (f : nat) (k : N) : @M strin N :=
  match f with
  | O => oof
  | S f => c <- look_ch str_ops ;; if p c then in_skip str_ops ;;; sw_go f (k + 1) else ret k
  end.
End SW.
Lemma in_skip_while_go : forall fuel p, in_skip_while str_ops fuel p = sw_go p fuel 0.
Proof. reflexivity. Qed.

Lemma sw_go_text : forall p w, Forall (fun c => p c = true) w ->
  forall f k rest lk m ws s, p (hd 0 rest) = false -> (length w < f)%nat ->
  sw_go p f k (st (w ++ rest) lk m ws s) = SBase.Ok (k + N.of_nat (length w), st rest (Nat.max lk 1) m ws s).
Proof.
  intros p. induction w as [|c w IH]; intros HF f k rest lk m ws s HR HL.
  - destruct f as [|f]; [cbn in HL; lia|]. cbn [sw_go app length]. mstep. rewrite nth0_hd, HR.
    change (N.of_nat 0) with 0. rewrite N.add_0_r. reflexivity.
  - destruct f as [|f]; [cbn in HL; lia|]. cbn [length] in HL. inversion HF as [|? ? Hc HF']; subst.
    cbn [sw_go app]. mstep. cbn [nth]. rewrite Hc. mstep. cbn [tl].
    refine (eq_trans (IH HF' f (k + 1) rest (Nat.max lk 1) m ws s HR ltac:(lia)) _).
    rewrite <- Nat.max_assoc, Nat.max_id. cbn [length]. fin_eq.
Qed.

(* blanks, then the mark is moved: `n <- in_skip_while_blank ;; adv_mark n` *)
Lemma skip_blanks_text : forall F w rest lk m ws s (A : Type) (k : @M strin A),
  Forall (fun c => is_blank c = true) w -> is_blank (hd 0 rest) = false -> (length w < F)%nat ->
  (n <- in_skip_while_blank str_ops F ;; adv_mark n ;;; k) (st (w ++ rest) lk m ws s)
  = k (st rest (Nat.max lk 1) (adv (N.of_nat (length w)) m) ws s).
Proof.
  intros F w rest lk m ws s A k HF HR HL. unfold in_skip_while_blank. rewrite in_skip_while_go.
  erewrite bind_eq; [|apply sw_go_text; assumption]. mstep. rewrite N.add_0_l. reflexivity.
Qed.

(* ========================================================================================== *)
(* 4. scan_tag_handle                                                                            *)
(* ========================================================================================== *)
Lemma is_alpha_33 : is_alpha 33 = false.
Proof. reflexivity. Qed.

(* `!name!` (name possibly empty: `!!`) *)
Lemma scan_tag_handle_named : forall F directive mk name rest lk m w s,
  Forall (fun c => is_alpha c = true) name -> (length name < F)%nat ->
  scan_tag_handle str_ops F directive mk (st (33 :: name ++ 33 :: rest) lk m w s)
  = SBase.Ok (33 :: name ++ [33], st rest (Nat.max lk 1) (adv (2 + N.of_nat (length name)) m) false s).
Proof.
  intros F directive mk name rest lk m w s HF HL. unfold scan_tag_handle.
  mstep. cbn [nth]. change (negb (33 =? 33)) with false. cbv iota. mstep. cbn [tl].
  rewrite in_fetch_while_alpha_go.
  erewrite bind_eq; [|apply fa_go_text; [exact HF|reflexivity|exact HL]]. cbn [fst snd].
  mstep. mstep. cbn [nth]. change (33 =? 33) with true. cbv iota. mstep. cbn [tl].
  unfold ret. rewrite <- Nat.max_assoc, Nat.max_id, !adv_adv.
  cbn [rev]. rewrite rev_app_distr, rev_involutive. cbn [rev app]. rewrite N.add_0_l. fin_eq.
Qed.

(* `!` followed by word characters and then neither a word character nor `!`: the primary handle, which the
   scanner reports together with the word characters it has already consumed *)
Lemma scan_tag_handle_primary : forall F directive mk wd rest lk m w s,
  Forall (fun c => is_alpha c = true) wd -> (length wd < F)%nat ->
  is_alpha (hd 0 rest) = false -> hd 0 rest <> 33 -> (directive = true -> wd = []) ->
  scan_tag_handle str_ops F directive mk (st (33 :: wd ++ rest) lk m w s)
  = SBase.Ok (33 :: wd, st rest (Nat.max lk 1) (adv (1 + N.of_nat (length wd)) m) false s).
Proof.
  intros F directive mk wd rest lk m w s HF HL HR H33 HD. unfold scan_tag_handle.
  mstep. cbn [nth]. change (negb (33 =? 33)) with false. cbv iota. mstep. cbn [tl].
  rewrite in_fetch_while_alpha_go.
  erewrite bind_eq; [|apply fa_go_text; [exact HF|exact HR|exact HL]]. cbn [fst snd].
  mstep. mstep. rewrite nth0_hd. rewrite (proj2 (N.eqb_neq _ _) H33).
  assert (HX : directive && negb (match rev wd ++ [33] with [33] => true | _ => false end) = false).
  { destruct directive; [|reflexivity]. rewrite (HD eq_refl). reflexivity. }
  rewrite HX. unfold ret. rewrite <- Nat.max_assoc, Nat.max_id, !adv_adv.
  rewrite rev_app_distr, rev_involutive. cbn [rev app]. rewrite N.add_0_l. fin_eq.
Qed.

(* ========================================================================================== *)
(* 5. Character classes (generated from char_traits.rs): the few facts needed                    *)
(* ========================================================================================== *)
Lemma bbz_cases : forall c, is_blank_or_breakz c = true -> c = 32 \/ c = 9 \/ c = 10 \/ c = 13 \/ c = 0.
Proof.
  intros c H. unfold is_blank_or_breakz, is_blank, is_breakz, is_break, is_z in H.
  repeat (apply orb_true_iff in H; destruct H as [H|H]); apply N.eqb_eq in H; auto.
Qed.
Lemma flow_cases : forall c, is_flow c = true -> c = 44 \/ c = 91 \/ c = 93 \/ c = 123 \/ c = 125.
Proof.
  intros c H. unfold is_flow in H.
  repeat (apply orb_true_iff in H; destruct H as [H|H]); apply N.eqb_eq in H; auto.
Qed.

(* what may follow a tag: a blank, a break, the end of input, or (in flow context) a flow indicator *)
Definition tag_end (fl : N) (c : N) : bool := is_blank_or_breakz c || ((0 <? fl) && is_flow c).

Lemma tag_end_facts : forall fl c, tag_end fl c = true ->
  is_tag_char c = false /\ is_alpha c = false /\ c <> 33 /\ c <> 60.
Proof.
  intros fl c H. unfold tag_end in H. apply orb_true_iff in H. destruct H as [H|H].
  - apply bbz_cases in H. destruct H as [->|[->|[->|[->| ->]]]]; repeat split; try reflexivity; discriminate.
  - apply andb_true_iff in H. destruct H as [_ H]. apply flow_cases in H.
    destruct H as [->|[->|[->|[->| ->]]]]; repeat split; try reflexivity; discriminate.
Qed.

Lemma bbz_not_uri : forall c, is_blank_or_breakz c = true -> is_uri_char c = false.
Proof. intros c H. apply bbz_cases in H. destruct H as [->|[->|[->|[->| ->]]]]; reflexivity. Qed.
Lemma bbz_not_alpha : forall c, is_blank_or_breakz c = true -> is_alpha c = false /\ c <> 33.
Proof. intros c H. apply bbz_cases in H. destruct H as [->|[->|[->|[->| ->]]]]; split; try reflexivity; discriminate. Qed.

Lemma tag_char_uri : forall c, is_tag_char c = true -> is_uri_char c = true.
Proof.
  intros c H. unfold is_tag_char in H. apply andb_true_iff in H. destruct H as [H _].
  apply andb_true_iff in H. destruct H as [H _]. exact H.
Qed.
Lemma tag_char_not : forall c, is_tag_char c = true -> c <> 33 /\ c <> 60.
Proof. intros c H. split; intros ->; discriminate H. Qed.
Lemma alpha_not : forall c, is_alpha c = true -> c <> 37 /\ c <> 33 /\ c <> 60.
Proof. intros c H. repeat split; intros ->; discriminate H. Qed.
Lemma alpha_tag_char : forall c, is_alpha c = true -> is_tag_char c = true.
Proof.
  intros c H. unfold is_tag_char, is_uri_char, is_word_char.
  destruct (N.eqb_spec c 95) as [->|H95]; [reflexivity|].
  rewrite H. cbn [negb andb orb].
  destruct (is_flow c) eqn:EF; [apply flow_cases in EF; destruct EF as [->|[->|[->|[->| ->]]]]; discriminate H|].
  destruct (N.eqb_spec c 33) as [->|]; [discriminate H|]. reflexivity.
Qed.

(* ========================================================================================== *)
(* 6. Suffixes, verbatim tags, prefixes                                                          *)
(* ========================================================================================== *)
Lemma decodes_nonempty : forall l t, decodes l t -> l <> [] -> t <> [].
Proof. intros l t H Hn. inversion H; subst; [contradiction|discriminate|discriminate]. Qed.

Lemma decodes_length : forall l t, decodes l t -> (length t <= length l)%nat.
Proof.
  intros l t H. induction H as [|c l t Hc HD IH|l d r t HE HD IH]; cbn [length]; [lia|lia|].
  pose proof (take_escaped_char_shorter _ _ _ HE). lia.
Qed.

(* `!name!` was read: the suffix must not be empty *)
Lemma shorthand_suffix_named : forall F mk l t rest lk m w s,
  decodes l t -> Forall (fun c => is_tag_char c = true) l -> l <> [] ->
  is_tag_char (hd 0 rest) = false -> (length l < F)%nat ->
  exists lk', (lk <= lk')%nat /\
    scan_tag_shorthand_suffix str_ops F [] mk (st (l ++ rest) lk m w s)
    = SBase.Ok (t, st rest lk' (adv (N.of_nat (length l)) m) false s).
Proof.
  intros F mk l t rest lk m w s HD HF Hne HR HL. unfold scan_tag_shorthand_suffix. cbv zeta. cbn [length tl]. unfold chr in *.
  change (1 <? N.of_nat 0) with false. cbv iota. rewrite uri_loop_go.
  destruct (ul_go_text _ mk l t HD HF F [] 0 rest lk m w s HR HL) as [lk' [Hlk E]].
  exists lk'. split; [exact Hlk|]. erewrite bind_eq; [|exact E]. cbn [fst snd].
  pose proof (decodes_nonempty _ _ HD Hne) as Ht.
  destruct t as [|t0 t]; [contradiction|].
  replace (N.of_nat 0 + (0 + N.of_nat (length (t0 :: t))) =? 0) with false
    by (symmetry; apply N.eqb_neq; cbn [length]; lia).
  unfold ret. rewrite app_nil_r, rev_involutive.
  replace (lws_after l w) with false by (destruct l; [contradiction|reflexivity]). reflexivity.
Qed.

(* `!` and the word characters [wd] were read by the handle scanner: they are the beginning of the suffix *)
Lemma shorthand_suffix_primary : forall F mk wd l t rest lk m w s,
  decodes l t -> Forall (fun c => is_tag_char c = true) l ->
  is_tag_char (hd 0 rest) = false -> (length l < F)%nat ->
  exists lk', (lk <= lk')%nat /\
    scan_tag_shorthand_suffix str_ops F (33 :: wd) mk (st (l ++ rest) lk m w s)
    = SBase.Ok (wd ++ t, st rest lk' (adv (N.of_nat (length l)) m) (lws_after l w) s).
Proof.
  intros F mk wd l t rest lk m w s HD HF HR HL. unfold scan_tag_shorthand_suffix. cbv zeta. cbn [length tl]. unfold chr in *.
  assert (HA : (if 1 <? N.of_nat (S (length wd)) then rev wd else []) = rev wd).
  { destruct wd as [|c wd]; [reflexivity|]. rewrite (proj2 (N.ltb_lt 1 _)) by (cbn [length]; lia). reflexivity. }
  rewrite HA. rewrite uri_loop_go.
  destruct (ul_go_text _ mk l t HD HF F (rev wd) 0 rest lk m w s HR HL) as [lk' [Hlk E]].
  exists lk'. split; [exact Hlk|]. erewrite bind_eq; [|exact E]. cbn [fst snd].
  replace (N.of_nat (S (length wd)) + (0 + N.of_nat (length t)) =? 0) with false
    by (symmetry; apply N.eqb_neq; lia).
  unfold ret. rewrite rev_app_distr, !rev_involutive. reflexivity.
Qed.

(* `!<` uri `>` *)
Lemma scan_verbatim_tag_text : forall F mk l t rest lk m w s,
  decodes l t -> Forall (fun c => is_uri_char c = true) l -> (length l < F)%nat ->
  exists lk', (lk <= lk')%nat /\
    scan_verbatim_tag str_ops F mk (st (33 :: 60 :: l ++ 62 :: rest) lk m w s)
    = SBase.Ok (t, st rest lk' (adv (3 + N.of_nat (length l)) m) false s).
Proof.
  intros F mk l t rest lk m w s HD HF HL. unfold scan_verbatim_tag.
  mstep. mstep. cbn [tl]. rewrite uri_loop_go.
  destruct (ul_go_text _ mk l t HD HF F [] 0 (62 :: rest) lk (adv 1 (adv 1 m)) false s eq_refl HL) as [lk' [Hlk E]].
  exists lk'. split; [exact Hlk|]. erewrite bind_eq; [|exact E]. cbn [fst snd].
  mstep. cbn [nth]. change (negb (62 =? 62)) with false. cbv iota. mstep. cbn [tl].
  unfold ret. rewrite app_nil_r, rev_involutive, !adv_adv. fin_eq.
Qed.

(* the prefix of a %TAG directive: `!` or a tag character (or escape) first, then uri characters *)
Definition prefix_text (l : list N) : Prop :=
  l <> [] /\ (hd 0 l = 33 \/ is_tag_char (hd 0 l) = true) /\ Forall (fun c => is_uri_char c = true) l.

Lemma scan_tag_prefix_text : forall F mk l t rest lk m w s,
  decodes l t -> prefix_text l -> is_uri_char (hd 0 rest) = false -> (length l < F)%nat ->
  exists lk', (lk <= lk')%nat /\
    scan_tag_prefix str_ops F mk (st (l ++ rest) lk m w s)
    = SBase.Ok (t, st rest lk' (adv (N.of_nat (length l)) m) false s).
Proof.
  intros F mk l t rest lk m w s HD [Hne [Hhd HF]] HR HL. unfold scan_tag_prefix.
  inversion HD as [|c l1 t1 Hc HD1|l0 d r t1 HE HD1]; subst; [contradiction| |].
  - (* an ordinary first character *)
    inversion HF as [|? ? Hu HF1]; subst. cbn [length] in HL. cbn [hd] in Hhd.
    cbn [app]. mstep. cbn [nth].
    destruct (ul_go_text _ mk l1 t1 HD1 HF1 F [c] 0 rest (Nat.max lk 1) (adv 1 m) false s HR ltac:(lia)) as [lk' [Hlk E]].
    exists lk'. split; [lia|].
    destruct (N.eqb_spec c 33) as [->|H33].
    + mstep. cbn [tl]. mstep. rewrite uri_loop_go. erewrite bind_eq; [|exact E]. cbn [fst]. unfold ret.
      rewrite rev_app_distr, rev_involutive, adv_adv. cbn [rev app length].
      replace (lws_after l1 false) with false by (destruct l1; reflexivity). fin_eq.
    + destruct Hhd as [Hhd|Hhd]; [contradiction|]. rewrite Hhd. cbn [negb].
      rewrite (proj2 (N.eqb_neq c 37) Hc). mstep. cbn [tl]. mstep.
      rewrite uri_loop_go. erewrite bind_eq; [|exact E]. cbn [fst]. unfold ret.
      rewrite rev_app_distr, rev_involutive, adv_adv. cbn [rev app length].
      replace (lws_after l1 false) with false by (destruct l1; reflexivity). fin_eq.
  - (* an escape first *)
    destruct (proj1 (take_escaped_char_spells _ _ _) HE) as [es [bs [-> [HS HU]]]].
    assert (Hbs : (0 < length bs)%nat) by (destruct bs; [discriminate|cbn; lia]).
    destruct es as [|e0 es']; [inversion HS; subst; cbn in Hbs; lia|].
    assert (e0 = 37) by (inversion HS; reflexivity). subst e0.
    assert (HFr : Forall (fun c => is_uri_char c = true) r) by (apply Forall_app in HF; apply HF).
    rewrite <- app_assoc. cbn [app]. mstep. cbn [nth].
    change (37 =? 33) with false. change (negb (is_tag_char 37)) with false. change (37 =? 37) with true. cbv iota.
    unfold chr in *.
    rewrite bind_bind.
    erewrite bind_eq;
      [|apply (scan_uri_escapes_decodes bs d (37 :: es') (r ++ rest)); [exact HU|exact HS|reflexivity]].
    mstep. rewrite eats_st by exact Hbs.
    change (37 :: es' ++ r ++ rest) with ((37 :: es') ++ r ++ rest). rewrite (skipn_spells_app _ _ _ HS).
    assert (HLr : (length r < F)%nat).
    { rewrite app_length, (spells_length _ _ HS) in HL. lia. }
    rewrite uri_loop_go.
    destruct (ul_go_text _ mk r t1 HD1 HFr F [d] 0 rest (Nat.max (Nat.max lk 1) 3)
                (adv (N.of_nat (3 * length bs)) m) false s HR HLr) as [lk' [Hlk E]].
    exists lk'. split; [lia|]. erewrite bind_eq; [|exact E]. cbn [fst]. unfold ret.
    rewrite rev_app_distr, rev_involutive, adv_adv. cbn [rev app].
    replace (lws_after r false) with false by (destruct r; reflexivity).
    pose proof (spells_length _ _ HS) as HLs. cbn [length] in *. rewrite app_length. fin_eq.
Qed.

(* ========================================================================================== *)
(* 7. scan_tag on the three spellings                                                            *)
(* ========================================================================================== *)
Lemma scan_tag_tail : forall start h sfx rest lk m w s,
  tag_end (sc_flow_level s) (hd 0 rest) = true ->
  (c <- look_ch str_ops ;; fl <- flow_level ;;
   if is_blank_or_breakz c || ((0 <? fl) && is_flow c) then
     m <- mark ;; ret (mkspan start m, TTag h sfx)
   else fail 59 start) (st rest lk m w s)
  = SBase.Ok ((mkspan start m, TTag h sfx), st rest (Nat.max lk 1) m w s).
Proof.
  intros start h sfx rest lk m w s HE. mstep. mstep. rewrite nth0_hd. unfold tag_end in HE. rewrite HE.
  mstep. reflexivity.
Qed.

(* verbatim: `!<` uri `>` — the tag ("", decoded uri) *)
Theorem scan_tag_verbatim : forall F l t rest lk m w s,
  decodes l t -> Forall (fun c => is_uri_char c = true) l -> (length l < F)%nat ->
  tag_end (sc_flow_level s) (hd 0 rest) = true ->
  exists lk', (lk <= lk')%nat /\
    scan_tag str_ops F (st (33 :: 60 :: l ++ 62 :: rest) lk m w s)
    = SBase.Ok ((mkspan m (adv (3 + N.of_nat (length l)) m), TTag [] t),
                st rest lk' (adv (3 + N.of_nat (length l)) m) false s).
Proof.
  intros F l t rest lk m w s HD HF HL HE. unfold scan_tag.
  mstep. mstep. mstep. cbn [nth]. change (60 =? 60) with true. cbv iota.
  destruct (scan_verbatim_tag_text F m l t rest (Nat.max lk 2) m w s HD HF HL) as [lk' [Hlk E]].
  rewrite bind_bind. erewrite bind_eq; [|exact E]. mstep. cbn [fst snd].
  exists (Nat.max lk' 1). split; [lia|]. apply scan_tag_tail. exact HE.
Qed.

Lemma alpha_head_not_60 : forall name x, Forall (fun c => is_alpha c = true) name ->
  (@nth N 0 (name ++ 33 :: x) 0 =? 60) = false.
Proof.
  intros name x HF. destruct name as [|c name]; [reflexivity|]. cbn [app nth].
  inversion HF as [|? ? Hc _]; subst. apply N.eqb_neq. apply (alpha_not c Hc).
Qed.

Lemma last_app1 : forall (l : list N) a d, last (l ++ [a]) d = a.
Proof. induction l as [|x l IH]; intros a d; [reflexivity|]. cbn [app]. destruct (l ++ [a]) eqn:E; [destruct l; discriminate|]. rewrite <- E. cbn [last]. rewrite E. rewrite <- E. apply IH. Qed.

Lemma named_cond : forall name,
  (2 <=? N.of_nat (length (33 :: name ++ [33]))) && (hd 0 (33 :: name ++ [33]) =? 33)
  && (last (33 :: name ++ [33]) 0 =? 33) = true.
Proof.
  intros name. change (33 :: name ++ [33]) with ((33 :: name) ++ [33]). rewrite last_app1.
  cbn [app hd]. rewrite (proj2 (N.leb_le 2 _)) by (cbn [length]; rewrite app_length; cbn [length]; lia).
  reflexivity.
Qed.

(* named and secondary handles: `!name!suffix`, `!!suffix` — the tag ("!name!", decoded suffix) *)
Theorem scan_tag_named : forall F name l t rest lk m w s,
  Forall (fun c => is_alpha c = true) name -> decodes l t -> Forall (fun c => is_tag_char c = true) l -> l <> [] ->
  (length name + length l < F)%nat -> tag_end (sc_flow_level s) (hd 0 rest) = true ->
  exists lk', (lk <= lk')%nat /\
    scan_tag str_ops F (st (33 :: name ++ 33 :: l ++ rest) lk m w s)
    = SBase.Ok ((mkspan m (adv (2 + N.of_nat (length name) + N.of_nat (length l)) m), TTag (33 :: name ++ [33]) t),
                st rest lk' (adv (2 + N.of_nat (length name) + N.of_nat (length l)) m) false s).
Proof.
  intros F name l t rest lk m w s HN HD HF Hne HL HE. unfold scan_tag.
  mstep. mstep. mstep. cbn [nth]. rewrite (alpha_head_not_60 _ _ HN). cbv iota.
  rewrite bind_bind. erewrite bind_eq; [|apply scan_tag_handle_named; [exact HN|lia]].
  rewrite named_cond.
  destruct (tag_end_facts _ _ HE) as [HT _].
  destruct (shorthand_suffix_named F m l t rest (Nat.max (Nat.max lk 2) 1) (adv (2 + N.of_nat (length name)) m) false s
              HD HF Hne HT ltac:(lia)) as [lk' [Hlk E]].
  rewrite bind_bind. erewrite bind_eq; [|exact E]. mstep. cbn [fst snd].
  exists (Nat.max lk' 1). split; [lia|]. rewrite adv_adv. apply scan_tag_tail. exact HE.
Qed.

(* the longest prefix of word characters *)
Fixpoint alpha_split (l : list N) : list N * list N :=
  match l with
  | c :: r => if is_alpha c then let '(a, b) := alpha_split r in (c :: a, b) else ([], l)
  | [] => ([], [])
  end.
Lemma alpha_split_spec : forall l,
  l = fst (alpha_split l) ++ snd (alpha_split l) /\ Forall (fun c => is_alpha c = true) (fst (alpha_split l))
  /\ (snd (alpha_split l) <> [] -> is_alpha (hd 0 (snd (alpha_split l))) = false).
Proof.
  induction l as [|c l IH]; cbn [alpha_split].
  - split; [reflexivity|]. split; [constructor|]. intros H. contradiction.
  - destruct (is_alpha c) eqn:Ec.
    + destruct (alpha_split l) as [a b]. cbn [fst snd] in *. destruct IH as [H1 [H2 H3]].
      split; [cbn [app]; congruence|]. split; [constructor; assumption|exact H3].
    + cbn [fst snd app hd]. split; [reflexivity|]. split; [constructor|]. intros _. exact Ec.
Qed.

Lemma decodes_alpha_prefix : forall wd l t, Forall (fun c => is_alpha c = true) wd -> decodes (wd ++ l) t ->
  exists t2, t = wd ++ t2 /\ decodes l t2.
Proof.
  induction wd as [|c wd IH]; intros l t HF HD; [exists t; split; [reflexivity|exact HD]|].
  inversion HF as [|? ? Hc HF']; subst. cbn [app] in HD.
  inversion HD as [|c0 l0 t0 Hne HD0|l0 d r t0 HE HD0]; subst.
  - destruct (IH _ _ HF' HD0) as [t2 [-> H2]]. exists t2. split; [reflexivity|exact H2].
  - destruct (take_escaped_char_head _ _ _ HE) as [l' E]. inversion E; subst. discriminate Hc.
Qed.

(* local tags `!suffix` and the non-specific tag `!` *)
Theorem scan_tag_local : forall F l t rest lk m w s,
  decodes l t -> Forall (fun c => is_tag_char c = true) l -> (length l < F)%nat ->
  tag_end (sc_flow_level s) (hd 0 rest) = true ->
  exists lk', (lk <= lk')%nat /\
    scan_tag str_ops F (st (33 :: l ++ rest) lk m w s)
    = SBase.Ok ((mkspan m (adv (1 + N.of_nat (length l)) m), match t with [] => TTag [] [33] | _ => TTag [33] t end),
                st rest lk' (adv (1 + N.of_nat (length l)) m) false s).
Proof.
  intros F l t rest lk m w s HD HF HL HE. unfold scan_tag.
  destruct (tag_end_facts _ _ HE) as [HT [HA [H33 H60]]].
  destruct (alpha_split_spec l) as [Hl [Hwd Hl2]].
  set (wd := fst (alpha_split l)) in *. set (l2 := snd (alpha_split l)) in *. clearbody wd l2.
  assert (HF2 : Forall (fun c => is_tag_char c = true) l2) by (rewrite Hl in HF; apply Forall_app in HF; apply HF).
  rewrite Hl in HD. destruct (decodes_alpha_prefix _ _ _ Hwd HD) as [t2 [-> HD2]].
  assert (Hhd : forall x, x = hd 0 (l2 ++ rest) -> is_alpha x = false /\ x <> 33 /\ x <> 60).
  { intros x ->. destruct l2 as [|c l2']; [cbn [app]; auto|]. cbn [app hd].
    inversion HF2 as [|? ? Hc _]; subst. split; [apply Hl2; discriminate|]. apply (tag_char_not c Hc). }
  destruct (Hhd _ eq_refl) as [Ha [H3 H6]].
  mstep. mstep. mstep. cbn [nth].
  assert (H1 : (@nth N 0 (l ++ rest) 0 =? 60) = false).
  { rewrite nth0_hd. apply N.eqb_neq. rewrite Hl, <- app_assoc.
    destruct wd as [|c wd']; [exact H6|]. cbn [app hd]. inversion Hwd as [|? ? Hc _]; subst. apply (alpha_not c Hc). }
  rewrite H1. cbv iota.
  assert (HLl : (length l = length wd + length l2)%nat) by (rewrite Hl at 1; apply app_length).
  replace (33 :: l ++ rest) with (33 :: wd ++ l2 ++ rest) by (rewrite Hl, <- app_assoc; reflexivity).
  rewrite bind_bind. erewrite bind_eq; [|apply scan_tag_handle_primary; [exact Hwd|lia|exact Ha|exact H3|discriminate]].
  assert (HC : (2 <=? N.of_nat (length (33 :: wd))) && (hd 0 (33 :: wd) =? 33) && (last (33 :: wd) 0 =? 33) = false).
  { destruct wd as [|c wd'] eqn:Ew; [reflexivity|].
    assert (HX : last (33 :: c :: wd') 0 <> 33).
    { change (last (33 :: c :: wd') 0) with (last (c :: wd') 0).
      destruct (exists_last (l := c :: wd') ltac:(discriminate)) as [x [y E]]. rewrite E, last_app1.
      rewrite E in Hwd. apply Forall_app in Hwd. destruct Hwd as [_ Hy]. inversion Hy as [|? ? Hyy _]; subst.
      apply (alpha_not y Hyy). }
    rewrite (proj2 (N.eqb_neq _ _) HX). apply andb_false_r. }
  rewrite HC.
  destruct (shorthand_suffix_primary F m wd l2 t2 rest (Nat.max (Nat.max lk 2) 1) (adv (1 + N.of_nat (length wd)) m) false s
              HD2 HF2 HT ltac:(lia)) as [lk' [Hlk E]].
  rewrite bind_bind. erewrite bind_eq; [|exact E].
  replace (lws_after l2 false) with false by (destruct l2; reflexivity).
  exists (Nat.max lk' 1). split; [lia|].
  replace (adv (1 + N.of_nat (length l)) m) with (adv (N.of_nat (length l2)) (adv (1 + N.of_nat (length wd)) m))
    by (rewrite adv_adv; f_equal; lia).
  destruct (wd ++ t2); mstep; cbn [fst snd]; apply scan_tag_tail; exact HE.
Qed.

(* ========================================================================================== *)
(* 8. The %TAG directive line                                                                    *)
(* ========================================================================================== *)
Lemma next_is_st : forall p l lk m w s, next_is str_ops p (st l lk m w s) = SBase.Ok (p (@nth N 0 l 0), st l lk m w s).
Proof. intros. destruct s. reflexivity. Qed.

Lemma blank_not_prefix_head : forall l, prefix_text l -> is_blank (hd 0 l) = false.
Proof.
  intros l [Hne [[H|H] _]]; [rewrite H; reflexivity|].
  destruct (is_blank (hd 0 l)) eqn:E; [|reflexivity].
  unfold is_blank in E. apply orb_true_iff in E. destruct E as [E|E]; apply N.eqb_eq in E; rewrite E in H; discriminate H.
Qed.

(* the handle of a directive: `!`, `!!` or `!name!` *)
Inductive dir_handle : list N -> Prop :=
| dh_primary : dir_handle [33]
| dh_named : forall name, Forall (fun c => is_alpha c = true) name -> dir_handle (33 :: name ++ [33]).

Lemma scan_tag_handle_directive : forall F mk h bl rest lk m w s,
  dir_handle h -> bl <> [] -> Forall (fun c => is_blank c = true) bl -> (length h < F)%nat ->
  scan_tag_handle str_ops F true mk (st (h ++ bl ++ rest) lk m w s)
  = SBase.Ok (h, st (bl ++ rest) (Nat.max lk 1) (adv (N.of_nat (length h)) m) false s).
Proof.
  intros F mk h bl rest lk m w s HH Hbl HB HL.
  destruct bl as [|b bl]; [contradiction|]. inversion HB as [|? ? Hb _]; subst.
  assert (Hb' : is_alpha b = false /\ b <> 33).
  { apply bbz_not_alpha. unfold is_blank_or_breakz. rewrite Hb. reflexivity. }
  inversion HH as [|name HN]; subst.
  - change ([33] ++ (b :: bl) ++ rest) with (33 :: [] ++ (b :: bl) ++ rest).
    refine (eq_trans (scan_tag_handle_primary F true mk [] ((b :: bl) ++ rest) lk m w s ltac:(constructor) ltac:(cbn; lia)
                        (proj1 Hb') (proj2 Hb') ltac:(reflexivity)) _). reflexivity.
  - cbn [length] in HL. rewrite app_length in HL. cbn [length] in HL.
    replace ((33 :: name ++ [33]) ++ (b :: bl) ++ rest) with (33 :: name ++ 33 :: (b :: bl) ++ rest)
      by (cbn [app]; rewrite <- app_assoc; reflexivity).
    refine (eq_trans (scan_tag_handle_named F true mk name ((b :: bl) ++ rest) lk m w s HN ltac:(lia)) _).
    cbn [length]. rewrite app_length. cbn [length]. fin_eq.
Qed.

(* `[blanks] handle blanks prefix` followed by a blank, a break or the end of input *)
Theorem scan_tag_directive_value_text : forall F mk bl1 h bl2 l t rest lk m w s,
  Forall (fun c => is_blank c = true) bl1 -> dir_handle h ->
  bl2 <> [] -> Forall (fun c => is_blank c = true) bl2 ->
  decodes l t -> prefix_text l -> is_blank_or_breakz (hd 0 rest) = true ->
  (length bl1 + length h + length bl2 + length l < F)%nat ->
  let n := N.of_nat (length bl1 + length h + length bl2 + length l) in
  exists lk', (lk <= lk')%nat /\
    scan_tag_directive_value str_ops F mk (st (bl1 ++ h ++ bl2 ++ l ++ rest) lk m w s)
    = SBase.Ok ((mkspan mk (adv n m), TTagDirective h t), st rest lk' (adv n m) false s).
Proof.
  intros F mk bl1 h bl2 l t rest lk m w s HB1 HH Hne2 HB2 HD HP HR HL n. unfold scan_tag_directive_value.
  assert (Hh : is_blank (hd 0 (h ++ bl2 ++ l ++ rest)) = false) by (inversion HH; reflexivity).
  rewrite (skip_blanks_text F bl1 _ lk m w s _ _ HB1 Hh ltac:(lia)).
  erewrite bind_eq; [|apply scan_tag_handle_directive; [exact HH|exact Hne2|exact HB2|lia]].
  assert (Hl : is_blank (hd 0 (l ++ rest)) = false).
  { destruct l as [|c l']; [destruct HP as [HP _]; contradiction|]. exact (blank_not_prefix_head _ HP). }
  rewrite (skip_blanks_text F bl2 _ _ _ _ s _ _ HB2 Hl ltac:(lia)).
  destruct (scan_tag_prefix_text F mk l t rest (Nat.max (Nat.max (Nat.max lk 1) 1) 1)
              (adv (N.of_nat (length bl2)) (adv (N.of_nat (length h)) (adv (N.of_nat (length bl1)) m))) false s
              HD HP (bbz_not_uri _ HR) ltac:(lia)) as [lk' [Hlk E]].
  erewrite bind_eq; [|exact E]. mstep. mstep. rewrite nth0_hd, HR. mstep.
  exists (Nat.max lk' 1). split; [lia|]. unfold ret. rewrite !adv_adv. unfold n. fin_eq.
Qed.

(* the rest of the line: nothing but the line feed *)
Lemma skip_ws_to_eol_none : forall F mode l lk m w s,
  F <> 0%nat -> hd 0 l <> 32 -> hd 0 l <> 9 -> hd 0 l <> 35 ->
  skip_ws_to_eol str_ops F mode (st l lk m w s) = SBase.Ok ((false, false), st l (Nat.max lk 1) m w s).
Proof.
  intros F mode l lk m w s HF H32 H9 H35. destruct F as [|F]; [contradiction|].
  unfold skip_ws_to_eol. cbn [in_skip_ws_to_eol]. rewrite bind_bind. mstep. rewrite nth0_hd.
  rewrite (proj2 (N.eqb_neq _ _) H32), (proj2 (N.eqb_neq _ _) H9), (proj2 (N.eqb_neq _ _) H35).
  cbn [andb]. mstep. cbn [fst snd]. mstep. rewrite adv_0. reflexivity.
Qed.

Lemma assert_buflen_st : forall n site l lk m w s, (n <= lk)%nat ->
  assert_buflen str_ops n site (st l lk m w s) = SBase.Ok (tt, st l lk m w s).
Proof.
  intros n site l lk m w s H. unfold assert_buflen. change (buflen str_ops (sc_in (st l lk m w s))) with lk.
  rewrite (proj2 (Nat.ltb_ge lk n) H). reflexivity.
Qed.
Lemma skip_nl_st : forall l lk m w s, skip_nl str_ops (st l lk m w s) = SBase.Ok (tt, st (tl l) lk (nlm m) true s).
Proof. intros. destruct s. reflexivity. Qed.

Lemma skip_linebreak_lf : forall rest lk m w s, (2 <= lk)%nat ->
  skip_linebreak str_ops (st (10 :: rest) lk m w s) = SBase.Ok (tt, st rest lk (nlm m) true s).
Proof.
  intros rest lk m w s Hlk. unfold skip_linebreak, next_2_are. rewrite !bind_bind.
  erewrite bind_eq; [|apply assert_buflen_st; exact Hlk]. mstep. mstep. mstep. cbn [nth].
  change ((10 =? 13) && (@nth N 0 rest 0 =? 10)) with false. cbv iota. mstep. cbn [nth].
  change (is_break 10) with true. cbv iota. apply skip_nl_st.
Qed.


(* `%TAG blanks handle blanks prefix LF` *)
Theorem scan_directive_tag_text : forall F bl1 h bl2 l t rest lk m w s,
  bl1 <> [] -> Forall (fun c => is_blank c = true) bl1 -> dir_handle h ->
  bl2 <> [] -> Forall (fun c => is_blank c = true) bl2 ->
  decodes l t -> prefix_text l ->
  (4 + length bl1 + length h + length bl2 + length l < F)%nat ->
  let n := N.of_nat (4 + length bl1 + length h + length bl2 + length l) in
  exists lk', (lk <= lk')%nat /\
    scan_directive str_ops F (st (s_tag_line ++ bl1 ++ h ++ bl2 ++ l ++ 10 :: rest) lk m w s)
    = SBase.Ok ((mkspan m (adv n m), TTagDirective h t), st rest lk' (nlm (adv n m)) true s).
Proof.
  intros F bl1 h bl2 l t rest lk m w s Hne1 HB1 HH Hne2 HB2 HD HP HL n. unfold scan_directive, s_tag_line.
  cbn [app]. mstep. mstep. cbn [tl].
  (* the name *)
  unfold scan_directive_name. rewrite bind_bind. mstep. rewrite in_fetch_while_alpha_go.
  assert (Hb1 : is_alpha (hd 0 (bl1 ++ h ++ bl2 ++ l ++ 10 :: rest)) = false
                /\ is_blank_or_breakz (hd 0 (bl1 ++ h ++ bl2 ++ l ++ 10 :: rest)) = true).
  { destruct bl1 as [|b bl1']; [contradiction|]. inversion HB1 as [|? ? Hb _]; subst. cbn [app hd].
    assert (Hz : is_blank_or_breakz b = true) by (unfold is_blank_or_breakz; rewrite Hb; reflexivity).
    split; [apply (bbz_not_alpha b Hz)|exact Hz]. }
  rewrite bind_bind.
  erewrite bind_eq;
    [|apply (fa_go_text [84; 65; 71] ltac:(repeat constructor) F [] 0 _ _ _ _ _ (proj1 Hb1) ltac:(cbn [length]; lia))].
  cbn [fst snd rev app length]. rewrite bind_bind. mstep. rewrite bind_bind. mstep. rewrite nth0_hd, (proj2 Hb1). mstep.
  change (str_eqb [84; 65; 71] s_YAML) with false. change (str_eqb [84; 65; 71] s_TAG) with true. cbv iota.
  (* the value *)
  destruct (scan_tag_directive_value_text F m bl1 h bl2 l t (10 :: rest) (Nat.max lk 1) (adv (0 + N.of_nat 3) (adv 1 m)) false s
              HB1 HH Hne2 HB2 HD HP eq_refl ltac:(lia)) as [lk' [Hlk E]]. cbv zeta in E.
  erewrite bind_eq; [|exact E].
  erewrite bind_eq; [|apply skip_ws_to_eol_none; [lia|discriminate|discriminate|discriminate]]. cbv beta iota.
  erewrite bind_eq; [|apply next_is_st]. cbn [nth]. change (is_breakz 10) with true. cbv iota.
  mstep. erewrite bind_eq; [|apply skip_linebreak_lf; lia]. unfold ret.
  exists (Nat.max (Nat.max lk' 1) 2). split; [lia|]. rewrite !adv_adv. unfold n. fin_eq.
Qed.
