(* C13, scanner half (1): states in normal form, insignificant whitespace, the dispatch of fetch_next_token.
   The scanner model (Model/SFetch.v over the string input) is executed symbolically on states [mkst] in which everything
   a JSON text never touches is fixed (indent -1, no block indents, stream started, not ended). *)
From Coq Require Import List NArith ZArith Bool Arith Lia.
Import ListNotations.
Require Import Parser SBase SPrim SDir SScalar SFetch Pipe Json FlowFold FlowScalarProofs PlainScalarProofs QuotedFoldProofs.
Open Scope N_scope.
Open Scope mon_scope.

Arguments N.add : simpl never.
Arguments N.sub : simpl never.
Arguments N.mul : simpl never.
Arguments N.eqb n m : simpl nomatch.
Arguments Nat.ltb n m : simpl nomatch.
Arguments Nat.leb n m : simpl nomatch.
Arguments Nat.sub n m : simpl nomatch.
Arguments N.ltb x y : simpl nomatch.
Arguments N.leb x y : simpl nomatch.
Arguments Z.of_N : simpl never.
Arguments Z.ltb : simpl never.
Arguments Z.leb : simpl never.
Arguments Z.eqb : simpl never.
Arguments Nat.max : simpl never.

(* ---------- states in normal form ---------- *)
Definition mkst (chars : list N) (look : nat) (mk : marker) (toks : list token) (adj : N) (ska : bool)
   (sks : list simple_key) (fl : N) (tp : N) (ta : bool) (lws : bool) (ifms : list ims) : sc strin :=
  {| sc_in := {| si_chars := chars; si_look := look |}; sc_mark := mk; sc_tokens := toks;
     sc_stream_start := true; sc_stream_end := false; sc_adjacent := adj; sc_ska := ska; sc_sks := sks;
     sc_indent := (-1)%Z; sc_indents := []; sc_flow_level := fl; sc_tokens_parsed := tp;
     sc_token_available := ta; sc_lws := lws; sc_ifms := ifms |}.

Definition skey (p : bool) (tn : N) (m : marker) : simple_key :=
  {| sk_possible := p; sk_required := false; sk_token_number := tn; sk_mark := m |}.
Definition dummy_key : simple_key := skey false 0 mk0.

Lemma mkst_st chars l mk q adj ska sks fl tp ta lws ifms :
  mkst chars l mk q adj ska sks fl tp ta lws ifms = st_with (mkst [] 0 mk0 q adj ska sks fl tp ta false ifms) chars l mk lws.
Proof. reflexivity. Qed.

(* ---------- characters ---------- *)
Definition wsb (w : list N) : bool := forallb is_ws w.
(* the first character of what follows insignificant whitespace: not whitespace, not '#'; the end of the input counts *)
Definition tokstart (rest : list N) : Prop := is_ws (nth 0 rest 0) = false /\ (nth 0 rest 0 =? 35) = false.

Lemma is_ws_cases c : is_ws c = true -> c = 32 \/ c = 9 \/ c = 10 \/ c = 13.
Proof.
  unfold is_ws, Resolver.ch. intros H. repeat (apply orb_prop in H; destruct H as [H|H]); apply N.eqb_eq in H; auto.
Qed.
Lemma is_ws_false c : is_ws c = false -> (c =? 32) = false /\ (c =? 9) = false /\ (c =? 10) = false /\ (c =? 13) = false.
Proof. unfold is_ws, Resolver.ch. intros H. repeat (apply orb_false_elim in H; destruct H as [H ?]). tauto. Qed.

Lemma wsb_app a b : wsb (a ++ b) = wsb a && wsb b.
Proof. apply forallb_app. Qed.

Ltac rwf := repeat match goal with H : @eq bool _ _ |- _ => rewrite H end.
Ltac ev := repeat (cbn; unfold chr in *; rwf).

Arguments bind {I A B} m f s /.
Arguments ret {I A} a s /.
Arguments get {I} s /.
Arguments put {I} s _ /.
Arguments modify {I} f s /.
Arguments gets {I A} f s /.
Arguments fail {I A} site m _ /.
Arguments upd {I} s i m t /.
Arguments set_in {I} i s /.
Arguments set_mark {I} m s /.
Arguments set_tokens {I} t s /.
Arguments set_flags {I} s ss se adj ska ta lws /.
Arguments set_ska {I} b s /.
Arguments set_lws {I} b s /.
Arguments set_adj {I} n s /.
Arguments set_ta {I} b s /.
Arguments set_ss {I} b s /.
Arguments set_se {I} b s /.
Arguments set_struct {I} s sks ind inds fl tp ifms /.
Arguments set_sks {I} l s /.
Arguments set_indent {I} z l s /.
Arguments set_fl {I} n s /.
Arguments set_tp {I} n s /.
Arguments set_ifms {I} l s /.
Arguments skip_to_next_token : simpl never.
Arguments stale_simple_keys : simpl never.

(* ---------- insignificant whitespace in front of a token: skip_to_next_token ---------- *)
Lemma stnt_S F (s : sc strin) :
  skip_to_next_token str_ops (S F) s =
  (c <- look_ch str_ops ;;
    s <- get ;;
    wb <- is_within_block ;;
    if (c =? 9) && wb && sc_lws s && (Z.of_N (m_col (sc_mark s)) <? sc_indent s)%Z then
      skip_ws_to_eol str_ops (S F) SkipYes ;;; b <- next_is str_ops is_breakz ;;
      if b then skip_to_next_token str_ops F else m <- mark ;; fail 41 m
    else if (c =? 9) || (c =? 32) then skip_blank str_ops ;;; skip_to_next_token str_ops F
    else if (c =? 10) || (c =? 13) then
      look str_ops 2 ;;; skip_linebreak str_ops ;;; fl <- flow_level ;;
      (if fl =? 0 then allow_simple_key else ret tt) ;;; skip_to_next_token str_ops F
    else if c =? 35 then
      n <- in_skip_while_non_breakz str_ops (S F) ;; adv_mark n ;;; skip_to_next_token str_ops F
    else ret tt) s.
Proof. reflexivity. Qed.

Arguments skip_linebreak : simpl never.
Lemma skip_linebreak_rec c r l m toks ss se adj ska sks ind inds fl tp ta lws ifms :
  (2 <= l)%nat -> is_break c = true ->
  skip_linebreak str_ops
    {| sc_in := {| si_chars := c :: r; si_look := l |}; sc_mark := m; sc_tokens := toks; sc_stream_start := ss; sc_stream_end := se;
       sc_adjacent := adj; sc_ska := ska; sc_sks := sks; sc_indent := ind; sc_indents := inds; sc_flow_level := fl;
       sc_tokens_parsed := tp; sc_token_available := ta; sc_lws := lws; sc_ifms := ifms |}
  = Ok (tt, {| sc_in := {| si_chars := if (c =? 13) && (nth 0 r 0 =? 10) then tl r else r; si_look := l |};
               sc_mark := if (c =? 13) && (nth 0 r 0 =? 10) then nlm (adv 1 m) else nlm m;
               sc_tokens := toks; sc_stream_start := ss; sc_stream_end := se;
               sc_adjacent := adj; sc_ska := ska; sc_sks := sks; sc_indent := ind; sc_indents := inds; sc_flow_level := fl;
               sc_tokens_parsed := tp; sc_token_available := ta; sc_lws := true; sc_ifms := ifms |}).
Proof.
  intros Hl Hc. destruct l as [|[|l]]; [lia|lia|]. unfold skip_linebreak, next_2_are, assert_buflen. cbn. unfold chr in *.
  destruct ((c =? 13) && (nth 0 r 0 =? 10)) eqn:E; cbn.
  - reflexivity.
  - rewrite Hc. reflexivity.
Qed.

Ltac brk := rewrite stnt_S; unfold mkst; ev; rewrite skip_linebreak_rec by (try reflexivity; lia); ev.

Lemma skip_ws_mk : forall n w, (length w <= n)%nat -> forall F rest l mk q adj ska sks fl tp ta lws ifms,
  (n < F)%nat -> wsb w = true -> tokstart rest ->
  exists l' mk' lws' ska',
    skip_to_next_token str_ops F (mkst (w ++ rest) l mk q adj ska sks fl tp ta lws ifms)
    = Ok (tt, mkst rest l' mk' q adj ska' sks fl tp ta lws' ifms)
    /\ (0 < fl -> ska' = ska) /\ (ska = true -> ska' = true) /\ (w = [] -> mk' = mk /\ lws' = lws).
Proof.
  induction n as [|n IH]; intros w Hlen F rest l mk q adj ska sks fl tp ta lws ifms HF Hw [Hts H35].
  - destruct w; [|cbn in Hlen; lia]. destruct F as [|F]; [lia|].
    apply is_ws_false in Hts as (H32 & H9 & H10 & H13).
    exists (Nat.max l 1), mk, lws, ska. cbn [app]. rewrite stnt_S. unfold mkst. ev. auto.
  - destruct w as [|c w].
    + apply (IH [] ltac:(cbn; lia) F rest l mk q adj ska sks fl tp ta lws ifms); [lia|exact Hw|split; assumption].
    + destruct F as [|F]; [lia|]. cbn [wsb forallb] in Hw. apply andb_prop in Hw as [Hc Hw].
      cbn [length] in Hlen.
      destruct (is_ws_cases c Hc) as [-> | [-> | [-> | ->]]].
      * destruct (IH w ltac:(lia) F rest (Nat.max l 1) (adv 1 mk) q adj ska sks fl tp ta lws ifms ltac:(lia) Hw (conj Hts H35))
          as (l' & mk' & lws' & ska' & E & H1 & H2 & _).
        exists l', mk', lws', ska'. split; [|split; [exact H1|split; [exact H2|discriminate]]].
        cbn [app]. rewrite stnt_S. unfold mkst. ev. exact E.
      * destruct (IH w ltac:(lia) F rest (Nat.max l 1) (adv 1 mk) q adj ska sks fl tp ta lws ifms ltac:(lia) Hw (conj Hts H35))
          as (l' & mk' & lws' & ska' & E & H1 & H2 & _).
        exists l', mk', lws', ska'. split; [|split; [exact H1|split; [exact H2|discriminate]]].
        cbn [app]. rewrite stnt_S. unfold mkst. ev. exact E.
      * destruct (IH w ltac:(lia) F rest (Nat.max (Nat.max l 1) 2) (nlm mk) q adj (if fl =? 0 then true else ska) sks fl tp ta true ifms ltac:(lia) Hw (conj Hts H35))
          as (l' & mk' & lws' & ska' & E & H1 & H2 & _).
        exists l', mk', lws', ska'. split; [|split; [|split; [|discriminate]]].
        -- cbn [app]. brk. destruct (fl =? 0); exact E.
        -- intros Hfl. rewrite (H1 Hfl). replace (fl =? 0) with false; [reflexivity|]. symmetry. apply N.eqb_neq. lia.
        -- intros Hs. apply H2. rewrite Hs. destruct (fl =? 0); reflexivity.
      * (* CR, possibly followed by LF *)
        destruct w as [|c2 w].
        -- destruct (IH [] ltac:(cbn; lia) F rest (Nat.max (Nat.max l 1) 2) (nlm mk) q adj (if fl =? 0 then true else ska) sks fl tp ta true ifms ltac:(lia) eq_refl (conj Hts H35))
             as (l' & mk' & lws' & ska' & E & H1 & H2 & _).
           exists l', mk', lws', ska'. split; [|split; [|split; [|discriminate]]].
           ++ cbn [app] in *. assert (Hne : (nth 0 rest 0 =? 10) = false) by (apply is_ws_false in Hts; tauto).
              brk. destruct (fl =? 0); exact E.
           ++ intros Hfl. rewrite (H1 Hfl). replace (fl =? 0) with false; [reflexivity|]. symmetry. apply N.eqb_neq. lia.
           ++ intros Hs. apply H2. rewrite Hs. destruct (fl =? 0); reflexivity.
        -- cbn [forallb] in Hw. apply andb_prop in Hw as [Hc2 Hw]. cbn [length] in Hlen.
           destruct (N.eqb_spec c2 10) as [->|Hne].
           ++ destruct (IH w ltac:(lia) F rest (Nat.max (Nat.max l 1) 2) (nlm (adv 1 mk)) q adj (if fl =? 0 then true else ska) sks fl tp ta true ifms ltac:(lia) Hw (conj Hts H35))
                as (l' & mk' & lws' & ska' & E & H1 & H2 & _).
              exists l', mk', lws', ska'. split; [|split; [|split; [|discriminate]]].
              ** cbn [app]. brk. destruct (fl =? 0); exact E.
              ** intros Hfl. rewrite (H1 Hfl). replace (fl =? 0) with false; [reflexivity|]. symmetry. apply N.eqb_neq. lia.
              ** intros Hs. apply H2. rewrite Hs. destruct (fl =? 0); reflexivity.
           ++ destruct (IH (c2 :: w) ltac:(cbn [length]; lia) F rest (Nat.max (Nat.max l 1) 2) (nlm mk) q adj (if fl =? 0 then true else ska) sks fl tp ta true ifms ltac:(lia)
                          ltac:(cbn [wsb forallb]; rewrite Hc2; exact Hw) (conj Hts H35))
                as (l' & mk' & lws' & ska' & E & H1 & H2 & _).
              exists l', mk', lws', ska'. split; [|split; [|split; [|discriminate]]].
              ** apply N.eqb_neq in Hne. cbn [app] in *. brk. destruct (fl =? 0); exact E.
              ** intros Hfl. rewrite (H1 Hfl). replace (fl =? 0) with false; [reflexivity|]. symmetry. apply N.eqb_neq. lia.
              ** intros Hs. apply H2. rewrite Hs. destruct (fl =? 0); reflexivity.
Qed.

(* ---------- blanks behind a token: skip_ws_to_eol ---------- *)
Arguments skip_ws_to_eol : simpl never.

Lemma ws_split w : wsb w = true ->
  exists b w', w = b ++ w' /\ forallb is_sp b = true /\ wsb w' = true /\ (w' = [] \/ is_break (nth 0 w' 0) = true).
Proof.
  induction w as [|c w IH]; intros H.
  - exists [], []. repeat split; auto.
  - cbn [wsb forallb] in H. apply andb_prop in H as [Hc H]. destruct (IH H) as (b & w' & E & Hb & Hw' & Hs).
    destruct (is_ws_cases c Hc) as [-> | [-> | [-> | ->]]].
    + exists (32 :: b), w'. subst w. repeat split; auto.
    + exists (9 :: b), w'. subst w. repeat split; auto.
    + exists [], (10 :: w). repeat split; auto.
    + exists [], (13 :: w). repeat split; auto.
Qed.

Lemma eol_blanks F b rest l mk q adj ska sks fl tp ta lws ifms :
  forallb is_sp b = true -> (nth 0 rest 0 =? 32) = false -> (nth 0 rest 0 =? 9) = false -> (nth 0 rest 0 =? 35) = false ->
  (length b < F)%nat ->
  exists l' tw,
    skip_ws_to_eol str_ops F SkipYes (mkst (b ++ rest) l mk q adj ska sks fl tp ta lws ifms)
    = Ok (tw, mkst rest l' (adv (N.of_nat (length b)) mk) q adj ska sks fl tp ta lws ifms).
Proof.
  intros Hb H32 H9 H35 HF. unfold skip_ws_to_eol. rewrite (mkst_st (b ++ rest)).
  destruct (ws_blanks (mkst [] 0 mk0 q adj ska sks fl tp ta false ifms) b (F - length b) false false 0 rest l mk lws Hb) as (l1 & E1).
  replace (length b + (F - length b))%nat with F in E1 by lia.
  replace (F - length b)%nat with (S (F - length b - 1)) in E1 by lia.
  rewrite ws_stop in E1 by assumption.
  exists (Nat.max l1 1), (false || has 9 b, false || has 32 b).
  rewrite (bind_Ok _ _ _ _ _ E1). cbn. rewrite N.add_0_l. reflexivity.
Qed.

Lemma eol_ws F w rest l mk q adj ska sks fl tp ta lws ifms :
  wsb w = true -> tokstart rest -> (length w < F)%nat ->
  exists l' mk' w' tw,
    skip_ws_to_eol str_ops F SkipYes (mkst (w ++ rest) l mk q adj ska sks fl tp ta lws ifms)
    = Ok (tw, mkst (w' ++ rest) l' mk' q adj ska sks fl tp ta lws ifms)
    /\ wsb w' = true /\ (length w' <= length w)%nat.
Proof.
  intros Hw [Hts H35] HF. destruct (ws_split w Hw) as (b & w' & -> & Hb & Hw' & Hs).
  rewrite app_length in HF.
  assert (Hstop : (nth 0 (w' ++ rest) 0 =? 32) = false /\ (nth 0 (w' ++ rest) 0 =? 9) = false /\ (nth 0 (w' ++ rest) 0 =? 35) = false).
  { destruct Hs as [-> | Hs].
    - cbn [app]. apply is_ws_false in Hts. tauto.
    - destruct w' as [|c w']; [discriminate|]. cbn [app nth] in *. unfold is_break in Hs.
      apply orb_prop in Hs as [Hs|Hs]; apply N.eqb_eq in Hs; subst c; repeat split. }
  destruct Hstop as (A & B & C).
  destruct (eol_blanks F b (w' ++ rest) l mk q adj ska sks fl tp ta lws ifms Hb A B C ltac:(lia)) as (l' & tw & E).
  exists l', (adv (N.of_nat (length b)) mk), w', tw. rewrite <- app_assoc. split; [exact E|]. split; [exact Hw'|].
  rewrite app_length. lia.
Qed.

(* ---------- simple keys do not go stale in flow context, nor when none is possible ---------- *)
Lemma existsb_false {A} (f : A -> bool) l : (forall x, In x l -> f x = false) -> existsb f l = false.
Proof. intros H. induction l as [|x l IH]; cbn; [reflexivity|]. rewrite H by (left; reflexivity). apply IH. intros; apply H; right; assumption. Qed.
Lemma map_same {A} (f : A -> A) l : (forall x, In x l -> f x = x) -> map f l = l.
Proof. intros H. induction l as [|x l IH]; cbn; [reflexivity|]. rewrite H by (left; reflexivity). f_equal. apply IH. intros; apply H; right; assumption. Qed.

Lemma fl_pos_facts fl : 0 < fl -> (fl =? 0) = false /\ (0 <? fl) = true.
Proof. intros H. split; [apply N.eqb_neq; lia | apply N.ltb_lt; exact H]. Qed.

Definition calm (fl : N) (sks : list simple_key) : Prop := 0 < fl \/ Forall (fun k => sk_possible k = false) sks.

Lemma stale_calm cs l mk q adj ska sks fl tp ta lws ifms : calm fl sks ->
  stale_simple_keys (mkst cs l mk q adj ska sks fl tp ta lws ifms) = Ok (tt, mkst cs l mk q adj ska sks fl tp ta lws ifms).
Proof.
  intros Hc. unfold stale_simple_keys, mkst. cbn.
  assert (Hst : forall k, In k sks -> sk_possible k && (fl =? 0) = false).
  { intros k Hk. destruct Hc as [Hfl | Hall].
    - destruct (fl_pos_facts fl Hfl) as [H0 _]. rewrite H0. apply andb_false_r.
    - rewrite Forall_forall in Hall. rewrite (Hall k Hk). reflexivity. }
  rewrite existsb_false by (intros x Hx; rewrite (Hst x Hx); reflexivity).
  rewrite map_same by (intros x Hx; rewrite (Hst x Hx); reflexivity). reflexivity.
Qed.

Lemma col_not_lt_indent n : (Z.of_N n <? -1)%Z = false.
Proof. apply Z.ltb_ge. lia. Qed.
Lemma col_not_neg n : (Z.of_N n <? 0)%Z = false.
Proof. apply Z.ltb_ge. lia. Qed.
Lemma indent_ne_col n : (-1 =? Z.of_N n)%Z = false.
Proof. apply Z.eqb_neq. lia. Qed.

(* ---------- fetch_next_token: the part before the dispatch on the first character ---------- *)
Arguments fetch_stream_start : simpl never.
Arguments fetch_stream_end : simpl never.
Arguments fetch_directive : simpl never.
Arguments fetch_document_indicator : simpl never.
Arguments fetch_flow_collection_start : simpl never.
Arguments fetch_flow_collection_end : simpl never.
Arguments fetch_flow_entry : simpl never.
Arguments fetch_block_entry : simpl never.
Arguments fetch_key : simpl never.
Arguments fetch_value : simpl never.
Arguments fetch_flow_value : simpl never.
Arguments fetch_anchor : simpl never.
Arguments fetch_tag : simpl never.
Arguments fetch_block_scalar : simpl never.
Arguments fetch_flow_scalar : simpl never.
Arguments fetch_plain_scalar : simpl never.
Arguments fetch_next_token : simpl never.
Arguments fetch_more_tokens : simpl never.
Arguments next_token : simpl never.
Arguments scan_all : simpl never.
Arguments next_is_document_start : simpl never.
Arguments next_is_document_end : simpl never.

(* what is done once the document markers and the directive are excluded *)
Definition disp (F : nat) (s : sc strin) : @M strin unit :=
  if (Z.of_N (m_col (sc_mark s)) <? sc_indent s)%Z then fail 102 (sc_mark s) else
  c <- peek str_ops ;; nc <- peekn str_ops 1 ;;
  let fl := 0 <? sc_flow_level s in
  let bz := is_blank_or_breakz nc in
  if c =? 91 then fetch_flow_collection_start str_ops F true
  else if c =? 123 then fetch_flow_collection_start str_ops F false
  else if c =? 93 then fetch_flow_collection_end str_ops F true
  else if c =? 125 then fetch_flow_collection_end str_ops F false
  else if c =? 44 then fetch_flow_entry str_ops F
  else if (c =? 45) && bz then fetch_block_entry str_ops F
  else if (c =? 63) && bz then fetch_key str_ops F
  else if (c =? 58) && bz then fetch_value str_ops F
  else if (c =? 58) && fl && (is_flow nc || (m_index (sc_mark s) =? sc_adjacent s)) then fetch_flow_value str_ops F
  else if c =? 42 then fetch_anchor str_ops F true
  else if c =? 38 then fetch_anchor str_ops F false
  else if c =? 33 then fetch_tag str_ops F
  else if (c =? 124) && negb fl then fetch_block_scalar str_ops F true
  else if (c =? 62) && negb fl then fetch_block_scalar str_ops F false
  else if c =? 39 then fetch_flow_scalar str_ops F true
  else if c =? 34 then fetch_flow_scalar str_ops F false
  else if (c =? 45) && negb bz then fetch_plain_scalar str_ops F
  else if ((c =? 58) || (c =? 63)) && negb bz && negb fl then fetch_plain_scalar str_ops F
  else if (c =? 37) || (c =? 64) || (c =? 96) then fail 103 (sc_mark s)
  else fetch_plain_scalar str_ops F.
Arguments disp : simpl never.
Definition fnt_tail (F : nat) : @M strin unit := s <- get ;; disp F s.

Definition fnt_rest (F : nat) : @M strin unit :=
  s <- get ;;
  c0 <- peek str_ops ;;
  dstart <- (if m_col (sc_mark s) =? 0 then if c0 =? 37 then ret false else next_is_document_start str_ops else ret false) ;;
  dend <- (if (m_col (sc_mark s) =? 0) && negb (c0 =? 37) && negb dstart then next_is_document_end str_ops else ret false) ;;
  if (m_col (sc_mark s) =? 0) && (c0 =? 37) then fetch_directive str_ops F
  else if dstart then fetch_document_indicator str_ops TDocumentStart
  else if dend then
    fetch_document_indicator str_ops TDocumentEnd ;;;
    skip_ws_to_eol str_ops F SkipYes ;;;
    b <- next_is str_ops is_breakz ;;
    if b then ret tt else m <- mark ;; fail 101 m
  else disp F s.
Arguments fnt_rest : simpl never.

Lemma fnt_unfold F :
  fetch_next_token str_ops F =
  (look str_ops 1 ;;;
   s <- get ;;
   if negb (sc_stream_start s) then fetch_stream_start else
   skip_to_next_token str_ops F ;;;
   stale_simple_keys ;;;
   m <- mark ;;
   unroll_indent (Z.of_N (m_col m)) ;;;
   look str_ops 4 ;;;
   z <- next_is str_ops is_z ;;
   if z then fetch_stream_end else fnt_rest F).
Proof. reflexivity. Qed.

(* the first characters of a JSON token are not those of a document marker or a directive *)
Definition nodoc (cs : list N) : Prop :=
  (nth 0 cs 0 =? 37) = false /\ (nth 0 cs 0 =? 46) = false /\ ((nth 0 cs 0 =? 45) && (nth 1 cs 0 =? 45)) = false.

Lemma next_doc_start_no (s : sc strin) : (4 <= si_look (sc_in s))%nat ->
  ((nth 0 (si_chars (sc_in s)) 0 =? 45) && (nth 1 (si_chars (sc_in s)) 0 =? 45)) = false ->
  next_is_document_start str_ops s = Ok (false, s).
Proof.
  intros Hl H. unfold next_is_document_start, next_3_are, assert_buflen. destruct s as [[cs l] mk]. cbn in *.
  destruct l as [|[|[|[|l]]]]; try lia. cbn. unfold chr in *.
  destruct (nth 0 cs 0 =? 45); cbn in *; [rewrite H|]; reflexivity.
Qed.
Lemma next_doc_end_no (s : sc strin) : (4 <= si_look (sc_in s))%nat ->
  (nth 0 (si_chars (sc_in s)) 0 =? 46) = false ->
  next_is_document_end str_ops s = Ok (false, s).
Proof.
  intros Hl H. unfold next_is_document_end, next_3_are, assert_buflen. destruct s as [[cs l] mk]. cbn in *.
  destruct l as [|[|[|[|l]]]]; try lia. cbn. unfold chr in *. rewrite H. reflexivity.
Qed.

Lemma fnt_rest_nodoc F cs l mk q adj ska sks fl tp ta lws ifms :
  nodoc cs -> (4 <= l)%nat ->
  fnt_rest F (mkst cs l mk q adj ska sks fl tp ta lws ifms) = fnt_tail F (mkst cs l mk q adj ska sks fl tp ta lws ifms).
Proof.
  intros (H37 & H46 & H45) Hl. unfold fnt_rest, mkst. cbn. unfold chr in *. rewrite H37.
  destruct (m_col mk =? 0); cbn.
  - rewrite next_doc_start_no by (cbn; assumption). cbn. rewrite next_doc_end_no by (cbn; assumption). cbn. reflexivity.
  - reflexivity.
Qed.

Lemma fnt_prefix F w c cs l mk q adj ska sks fl tp ta lws ifms :
  (length w < F)%nat -> wsb w = true -> tokstart (c :: cs) -> is_z c = false -> nodoc (c :: cs) -> calm fl sks ->
  exists l' mk' lws' ska',
    fetch_next_token str_ops F (mkst (w ++ c :: cs) l mk q adj ska sks fl tp ta lws ifms)
    = fnt_tail F (mkst (c :: cs) l' mk' q adj ska' sks fl tp ta lws' ifms)
    /\ (0 < fl -> ska' = ska) /\ (ska = true -> ska' = true) /\ (w = [] -> mk' = mk) /\ (4 <= l')%nat.
Proof.
  intros HF Hw Hts Hz Hnd Hcalm.
  destruct (skip_ws_mk (length w) w (le_n _) F (c :: cs) (Nat.max l 1) mk q adj ska sks fl tp ta lws ifms HF Hw Hts)
    as (l1 & mk' & lws' & ska' & E & H1 & H2 & H3).
  exists (Nat.max l1 4), mk', lws', ska'. split; [|split; [exact H1|split; [exact H2|split; [intros Hn; exact (proj1 (H3 Hn))|lia]]]].
  rewrite fnt_unfold. unfold mkst at 1. cbn. fold (mkst (w ++ c :: cs) (Nat.max l 1) mk q adj ska sks fl tp ta lws ifms).
  rewrite E. rewrite stale_calm by exact Hcalm. unfold mkst at 1. cbn.
  destruct (0 <? fl); cbn; rewrite ?col_not_lt_indent; cbn; unfold chr in *; rewrite Hz; cbn;
    fold (mkst (c :: cs) (Nat.max l1 4) mk' q adj ska' sks fl tp ta lws' ifms); apply fnt_rest_nodoc; try assumption; lia.
Qed.
