(* C15, scanner level: TAIL INDEPENDENCE of the scanner (position-shift equivariance).

   Two runs of the scanner model over the STRING input are related: both read the SAME remaining characters, but
   side 2 is "the same situation further down the stream": every marker of side 2 is the marker of side 1 with
   [sh_i d] added to the character index and [sh_l d] added to the line (same column), and the token counter
   [sc_tokens_parsed] (and the token number of every live simple key) is [sh_k d] larger.  Relational
   partial-correctness calculus [swp] (the calculus [bwp] of ScanBrk.v with the marker relation replaced by the
   shift): when both runs end properly the values / states satisfy the postcondition, or the errors are the same
   error site at shifted markers; a run that ends in OutOfFuel or Panic (either side) is not this proof's concern
   (ScanFuel*.v / ScanSafe*.v).

   The file is a port of ScanBrk.v.  Since the remaining text is IDENTICAL on the two sides every character test
   agrees trivially; the alignment vocabulary of ScanBrk.v ([b1], [noLF], [bblind], [lit]) is kept as a
   compatibility layer ([b1] is the identity here) so that the family files port mechanically - the premises
   [rn s1 0 <> 10] / [noLF k (rm s1)] of some rules and contracts are NOT needed for the shift and are simply
   always available at the call sites.  What is genuinely different from ScanBrk.v:
     - [MS d]: exact shift of index and line (ScanBrk: same line/column, unrelated index);
     - [KS d]: the mark and the token number of a simple key are related only while the key is possible (a dead
       key may be the unshifted placeholder 0:0:0 / number 0 of fetch_stream_start and increase_flow_level);
     - [sc_tokens_parsed] is shifted by [sh_k d] (so is the [number] argument of roll_indent);
     - [ADJ]: adjacent_value_allowed_at is compared with the current index only inside a flow collection; at flow
       level 0 nothing is required beyond "not in the future" (at a document boundary side 1 is at index 0 =
       the initial value of the field while side 2 holds a stale value);
     - the lookahead counters of the string input need only agree on being zero;
     - the text may contain CR (ScanBrk's side 1 is CR-free). *)
From Coq Require Import List NArith ZArith Bool Arith Lia.
Import ListNotations.
Require Import Parser SBase SPrim SDir SScalar SFetch.
Local Open Scope nat_scope.

Notation bst := (sc strin).
Notation BM := (@M strin).
Notation sops := str_ops.

Arguments N.add : simpl never.
Arguments N.sub : simpl never.
Arguments N.eqb : simpl never.
Arguments N.ltb : simpl never.
Arguments N.leb : simpl never.
Arguments Nat.ltb : simpl never.
Arguments Nat.leb : simpl never.
Arguments Nat.eqb : simpl never.
Arguments Nat.max : simpl never.

(* ================================================================================================ *)
(* 1. The shift; compatibility layer for the alignment vocabulary of ScanBrk.v                      *)
(* ================================================================================================ *)
Record shift := { sh_i : N;     (* characters consumed before *)
                  sh_l : N;     (* lines before *)
                  sh_k : N }.   (* tokens delivered before *)

(* what side 2 shows where side 1 shows [c]: the same character *)
Definition b1 (c : chr) : chr := c.
Definition noLF (k : nat) (l : list chr) : Prop := forall i, i < k -> nth i l 0%N <> 10%N.

Lemma b1_other c : c <> 10%N -> b1 c = c.
Proof. reflexivity. Qed.
Lemma b1_0 : b1 0%N = 0%N.
Proof. reflexivity. Qed.

Lemma noLF_0 l : noLF 0 l.
Proof. intros i Hi. lia. Qed.
Lemma noLF_1 l : nth 0 l 0%N <> 10%N -> noLF 1 l.
Proof. intros H i Hi. assert (i = 0) as -> by lia. exact H. Qed.
Lemma noLF_le k k' l : noLF k l -> k' <= k -> noLF k' l.
Proof. intros H Hk i Hi. apply H. lia. Qed.
Lemma noLF_S k l : noLF k l -> nth k l 0%N <> 10%N -> noLF (S k) l.
Proof. intros H Hk i Hi. destruct (Nat.eq_dec i k) as [->|Hne]; [exact Hk|apply H; lia]. Qed.
Lemma noLF_cons k c l : noLF (S k) (c :: l) <-> c <> 10%N /\ noLF k l.
Proof.
  split.
  - intros H. split; [exact (H 0 ltac:(lia))|]. intros i Hi. exact (H (S i) ltac:(lia)).
  - intros [Hc H] i Hi. destruct i as [|i]; [exact Hc|]. cbn [nth]. apply H. lia.
Qed.
Lemma noLF_nil k : noLF k [].
Proof. intros i _. destruct i; discriminate. Qed.
Lemma noLF_skipn k n l : noLF (n + k) l -> noLF k (skipn n l).
Proof.
  revert l. induction n as [|n IH]; intros l H; [exact H|].
  destruct l as [|c l]; [apply noLF_nil|]. cbn [skipn]. apply IH. apply (noLF_cons (n + k) c l). exact H.
Qed.
Lemma noLF_tl k l : noLF (S k) l -> noLF k (tl l).
Proof. intros H. destruct l as [|c l]; [apply noLF_nil|]. apply (noLF_cons k c l). exact H. Qed.

Definition bblind (p : chr -> bool) : Prop := forall c, p (b1 c) = p c.
Lemma bblind_any p : bblind p. Proof. intros c. reflexivity. Qed.
Lemma b1_is_z : bblind is_z. Proof. apply bblind_any. Qed.
Lemma b1_is_break : bblind is_break. Proof. apply bblind_any. Qed.
Lemma b1_is_breakz : bblind is_breakz. Proof. apply bblind_any. Qed.
Lemma b1_is_blank : bblind is_blank. Proof. apply bblind_any. Qed.
Lemma b1_is_blank_or_breakz : bblind is_blank_or_breakz. Proof. apply bblind_any. Qed.
Lemma b1_is_digit : bblind is_digit. Proof. apply bblind_any. Qed.
Lemma b1_is_alpha : bblind is_alpha. Proof. apply bblind_any. Qed.
Lemma b1_is_hex : bblind is_hex. Proof. apply bblind_any. Qed.
Lemma b1_is_flow : bblind is_flow. Proof. apply bblind_any. Qed.
Lemma b1_is_anchor_char : bblind is_anchor_char. Proof. apply bblind_any. Qed.
Lemma b1_is_uri_char : bblind is_uri_char. Proof. apply bblind_any. Qed.
Lemma b1_is_tag_char : bblind is_tag_char. Proof. apply bblind_any. Qed.
Lemma b1_not_breakz : bblind (fun c => negb (is_breakz c)). Proof. apply bblind_any. Qed.
Lemma b1_eqb c k : ((k =? 10) || (k =? 13))%N = false -> (b1 c =? k)%N = (c =? k)%N.
Proof. reflexivity. Qed.
Lemma b1_eqb_blind k : ((k =? 10) || (k =? 13))%N = false -> bblind (fun c => (c =? k)%N).
Proof. intros _. apply bblind_any. Qed.
Lemma b1_lf_or_cr c : ((b1 c =? 10) || (b1 c =? 13))%N = ((c =? 10) || (c =? 13))%N.
Proof. reflexivity. Qed.
Lemma b1_as_hex c : as_hex (b1 c) = as_hex c.
Proof. reflexivity. Qed.
(* [b1_norm]: remove every [b1] under a character class / a comparison with a literal in the goal *)
Ltac b1_norm :=
  rewrite ?b1_is_z, ?b1_is_break, ?b1_is_breakz, ?b1_is_blank, ?b1_is_blank_or_breakz, ?b1_is_digit, ?b1_is_alpha,
          ?b1_is_hex, ?b1_is_flow, ?b1_is_anchor_char, ?b1_is_uri_char, ?b1_is_tag_char, ?b1_lf_or_cr, ?b1_as_hex;
  repeat match goal with |- context [(b1 ?c =? ?k)%N] => rewrite (b1_eqb c k) by reflexivity end.

(* ================================================================================================ *)
(* 2. The relations                                                                                 *)
(* ================================================================================================ *)
Definition rm (s : bst) : list chr := si_chars (sc_in s).         (* remaining characters *)
Definition rn (s : bst) (i : nat) : chr := nth i (rm s) 0%N.        (* the i-th of them, NUL beyond the end *)
Definition lk (s : bst) : nat := si_look (sc_in s).                 (* the string input's lookahead counter *)

(* inputs: the same remaining text; the lookahead counters (only observable through [buf_is_empty] and the
   [assert_buflen] panics) agree on being zero *)
Record IS (i1 i2 : strin) : Prop := {
  is_chars : si_chars i2 = si_chars i1;
  is_look : Nat.eqb (si_look i2) 0 = Nat.eqb (si_look i1) 0 }.

(* markers: index and line shifted, same column *)
Definition shm (d : shift) (m : marker) : marker :=
  {| m_index := m_index m + sh_i d; m_line := m_line m + sh_l d; m_col := m_col m |}.
Definition shsp (d : shift) (sp : span) : span := {| sp_start := shm d (sp_start sp); sp_end := shm d (sp_end sp) |}.
Definition sht (d : shift) (t : token) : token := (shsp d (fst t), snd t).

Definition MS (d : shift) (m1 m2 : marker) : Prop :=
  (m_line m1 + sh_l d = m_line m2 /\ m_col m1 = m_col m2 /\ m_index m1 + sh_i d = m_index m2)%N.
Definition SPS (d : shift) (a b : span) : Prop := MS d (sp_start a) (sp_start b) /\ MS d (sp_end a) (sp_end b).
Definition TS (d : shift) (t1 t2 : token) : Prop := SPS d (fst t1) (fst t2) /\ snd t1 = snd t2.

(* simple keys: the same "possible" flag; the "required" flag, the mark (shifted) and the token number (shifted) are
   related while the key is possible - the scanner never reads them on a dead key (every test is guarded by
   sk_possible), and a dead key may be the placeholder of fetch_stream_start / increase_flow_level on one side and
   a removed key on the other *)
Record KS (d : shift) (k1 k2 : simple_key) : Prop := {
  ks_possible : sk_possible k1 = sk_possible k2;
  ks_required : sk_possible k1 = true -> sk_required k1 = sk_required k2;
  ks_number : sk_possible k1 = true -> (sk_token_number k1 + sh_k d)%N = sk_token_number k2;
  ks_mark : sk_possible k1 = true -> MS d (sk_mark k1) (sk_mark k2) }.

(* adjacent_value_allowed_at is only ever compared for equality with the current index, and only inside a flow
   collection ([fl] = flow level) *)
Definition ADJ (a1 i1 a2 i2 fl : N) : Prop := (a1 <= i1 /\ a2 <= i2 /\ (fl = 0 \/ (a1 = i1 <-> a2 = i2)))%N.

(* the fields that are plainly equal *)
Definition skel (s : bst) :=
  (sc_stream_start s, sc_stream_end s, sc_ska s, sc_indent s, sc_indents s, sc_flow_level s,
   sc_token_available s, sc_lws s, sc_ifms s).

(* THE STATE RELATION *)
Record SH (d : shift) (s1 s2 : bst) : Prop := {
  sh_in : IS (sc_in s1) (sc_in s2);
  sh_mark : MS d (sc_mark s1) (sc_mark s2);
  sh_tokens : Forall2 (TS d) (sc_tokens s1) (sc_tokens s2);
  sh_sks : Forall2 (KS d) (sc_sks s1) (sc_sks s2);
  sh_adj : ADJ (sc_adjacent s1) (m_index (sc_mark s1)) (sc_adjacent s2) (m_index (sc_mark s2)) (sc_flow_level s1);
  sh_tp : (sc_tokens_parsed s1 + sh_k d)%N = sc_tokens_parsed s2;
  sh_skel : skel s1 = skel s2 }.
Arguments sh_in {d s1 s2}. Arguments sh_mark {d s1 s2}. Arguments sh_tokens {d s1 s2}.
Arguments sh_sks {d s1 s2}. Arguments sh_adj {d s1 s2}. Arguments sh_tp {d s1 s2}. Arguments sh_skel {d s1 s2}.
Arguments is_chars {i1 i2}. Arguments is_look {i1 i2}.
Arguments ks_possible {d k1 k2}. Arguments ks_required {d k1 k2}. Arguments ks_number {d k1 k2}.
Arguments ks_mark {d k1 k2}.

(* everything but the input (frame conditions of the input primitives: [ers t = ers s]) *)
Definition ers {I} (s : sc I) : sc unit :=
  {| sc_in := tt; sc_mark := sc_mark s; sc_tokens := sc_tokens s;
     sc_stream_start := sc_stream_start s; sc_stream_end := sc_stream_end s; sc_adjacent := sc_adjacent s;
     sc_ska := sc_ska s; sc_sks := sc_sks s; sc_indent := sc_indent s; sc_indents := sc_indents s;
     sc_flow_level := sc_flow_level s; sc_tokens_parsed := sc_tokens_parsed s;
     sc_token_available := sc_token_available s; sc_lws := sc_lws s; sc_ifms := sc_ifms s |}.
Lemma ers_set_in {I} (i : I) (s : sc I) : ers (set_in i s) = ers s.
Proof. reflexivity. Qed.
Lemma ers_fields {I J} (s : sc I) (t : sc J) : ers s = ers t ->
  sc_mark s = sc_mark t /\ sc_tokens s = sc_tokens t /\ sc_stream_start s = sc_stream_start t
  /\ sc_stream_end s = sc_stream_end t /\ sc_adjacent s = sc_adjacent t /\ sc_ska s = sc_ska t
  /\ sc_sks s = sc_sks t /\ sc_indent s = sc_indent t /\ sc_indents s = sc_indents t
  /\ sc_flow_level s = sc_flow_level t /\ sc_tokens_parsed s = sc_tokens_parsed t
  /\ sc_token_available s = sc_token_available t /\ sc_lws s = sc_lws t
  /\ sc_ifms s = sc_ifms t.
Proof. unfold ers. intros H. inversion H. repeat split; assumption. Qed.

(* ---- markers ---- *)
Section Markers.
Variable d : shift.
Lemma MS_shm m : MS d m (shm d m).
Proof. unfold MS, shm. cbn [m_index m_line m_col]. auto. Qed.
Lemma MS_eq m1 m2 : MS d m1 m2 -> m2 = shm d m1.
Proof. unfold MS, shm. destruct m1 as [i1 l1 c1], m2 as [i2 l2 c2]. cbn [m_index m_line m_col]. intros (L & C & X). subst. reflexivity. Qed.
Lemma MS_line m1 m2 : MS d m1 m2 -> (m_line m1 + sh_l d)%N = m_line m2. Proof. intros H. apply H. Qed.
Lemma MS_col m1 m2 : MS d m1 m2 -> m_col m1 = m_col m2. Proof. intros H. apply H. Qed.
Lemma MS_index m1 m2 : MS d m1 m2 -> (m_index m1 + sh_i d)%N = m_index m2. Proof. intros H. apply H. Qed.
Lemma MS_adv n m1 m2 : MS d m1 m2 -> MS d (adv n m1) (adv n m2).
Proof. intros (L & C & X). unfold MS. cbn [adv m_line m_col m_index]. lia. Qed.
Lemma MS_nlm m1 m2 : MS d m1 m2 -> MS d (nlm m1) (nlm m2).
Proof. intros (L & C & X). unfold MS. cbn [nlm m_line m_col m_index]. lia. Qed.
(* lines of two related pairs compare alike *)
Lemma MS_line_eqb a1 a2 b1' b2 : MS d a1 a2 -> MS d b1' b2 -> (m_line a2 =? m_line b2)%N = (m_line a1 =? m_line b1')%N.
Proof.
  intros (L1 & _) (L2 & _). rewrite <- L1, <- L2.
  destruct (N.eqb_spec (m_line a1) (m_line b1')); destruct (N.eqb_spec (m_line a1 + sh_l d) (m_line b1' + sh_l d))%N;
    try reflexivity; lia.
Qed.
Lemma MS_line_ltb a1 a2 b1' b2 : MS d a1 a2 -> MS d b1' b2 -> (m_line a2 <? m_line b2)%N = (m_line a1 <? m_line b1')%N.
Proof.
  intros (L1 & _) (L2 & _). rewrite <- L1, <- L2.
  destruct (N.ltb_spec (m_line a1) (m_line b1')); destruct (N.ltb_spec (m_line a1 + sh_l d) (m_line b1' + sh_l d))%N;
    try reflexivity; lia.
Qed.
Lemma MS_index_far a1 a2 b1' b2 k : MS d a1 a2 -> MS d b1' b2 ->
  (m_index a2 + k <? m_index b2)%N = (m_index a1 + k <? m_index b1')%N.
Proof.
  intros (_ & _ & X1) (_ & _ & X2). rewrite <- X1, <- X2.
  destruct (N.ltb_spec (m_index a1 + k) (m_index b1')); destruct (N.ltb_spec (m_index a1 + sh_i d + k) (m_index b1' + sh_i d))%N;
    try reflexivity; lia.
Qed.
Lemma SPS_empty m1 m2 : MS d m1 m2 -> SPS d (span_empty m1) (span_empty m2).
Proof. intros H. split; exact H. Qed.
Lemma SPS_mk a1 b1' a2 b2 : MS d a1 a2 -> MS d b1' b2 ->
  SPS d {| sp_start := a1; sp_end := b1' |} {| sp_start := a2; sp_end := b2 |}.
Proof. intros H1 H2. split; assumption. Qed.
Lemma SPS_eq a b : SPS d a b -> b = shsp d a.
Proof. destruct a as [a1 a2], b as [b1' b2]. unfold SPS, shsp. cbn [sp_start sp_end]. intros [H1 H2]. rewrite (MS_eq _ _ H1), (MS_eq _ _ H2). reflexivity. Qed.
Lemma SPS_shsp a : SPS d a (shsp d a).
Proof. split; apply MS_shm. Qed.
Lemma TS_mk sp1 sp2 t : SPS d sp1 sp2 -> TS d (sp1, t) (sp2, t).
Proof. intros H. split; [exact H|reflexivity]. Qed.
Lemma TS_empty m1 m2 t : MS d m1 m2 -> TS d (span_empty m1, t) (span_empty m2, t).
Proof. intros H. apply TS_mk. apply SPS_empty. exact H. Qed.
Lemma TS_eq t1 t2 : TS d t1 t2 -> t2 = sht d t1.
Proof. destruct t1 as [sp1 k1], t2 as [sp2 k2]. unfold TS, sht. cbn [fst snd]. intros [H <-]. rewrite (SPS_eq _ _ H). reflexivity. Qed.
Lemma TS_sht t : TS d t (sht d t).
Proof. split; [apply SPS_shsp|reflexivity]. Qed.
Lemma TSs_eq l1 l2 : Forall2 (TS d) l1 l2 -> l2 = map (sht d) l1.
Proof. induction 1 as [|a b l1 l2 H _ IH]; [reflexivity|]. cbn [map]. rewrite (TS_eq _ _ H), IH. reflexivity. Qed.
Lemma TSs_map l : Forall2 (TS d) l (map (sht d) l).
Proof. induction l; cbn [map]; constructor; [apply TS_sht|assumption]. Qed.

(* ---- how the mark may move: [mark_step c1 c2 m1 m2] (old marks c, new marks m) ---- *)
Definition mark_step (c1 c2 m1 m2 : marker) : Prop := MS d m1 m2 /\ (m_index c1 <= m_index m1)%N.
Lemma mark_step_refl c1 c2 : MS d c1 c2 -> mark_step c1 c2 c1 c2.
Proof. intros H. split; [exact H|lia]. Qed.
Lemma mark_step_adv n c1 c2 : MS d c1 c2 -> mark_step c1 c2 (adv n c1) (adv n c2).
Proof. intros H. split; [apply MS_adv; exact H|]. cbn [adv m_index]. lia. Qed.
Lemma mark_step_nl0 c1 c2 : MS d c1 c2 -> mark_step c1 c2 (nlm c1) (nlm c2).
Proof. intros H. split; [apply MS_nlm; exact H|]. cbn [nlm m_index]. lia. Qed.
(* fetch_stream_end: a new line without consuming anything *)
Lemma mark_step_eol c1 c2 : MS d c1 c2 ->
  mark_step c1 c2 {| m_index := m_index c1; m_line := m_line c1 + 1; m_col := 0 |}
                  {| m_index := m_index c2; m_line := m_line c2 + 1; m_col := 0 |}.
Proof. intros (L & C & X). unfold mark_step, MS. cbn [m_index m_line m_col]. lia. Qed.
Lemma ADJ_step c1 c2 m1 m2 a1 a2 fl : MS d c1 c2 -> mark_step c1 c2 m1 m2 ->
  ADJ a1 (m_index c1) a2 (m_index c2) fl -> ADJ a1 (m_index m1) a2 (m_index m2) fl.
Proof. intros (_ & _ & X) ((_ & _ & X') & HI) (A1 & A2 & AE). unfold ADJ. lia. Qed.
(* after a strict advance the stored value is stale on both sides, whatever the flow level *)
Lemma ADJ_stale c1 c2 m1 m2 a1 a2 fl fl' : MS d c1 c2 -> MS d m1 m2 -> (m_index c1 < m_index m1)%N ->
  ADJ a1 (m_index c1) a2 (m_index c2) fl -> ADJ a1 (m_index m1) a2 (m_index m2) fl'.
Proof. intros (_ & _ & X) (_ & _ & X') HI (A1 & A2 & AE). unfold ADJ. lia. Qed.
Lemma ADJ_here i1 i2 fl : ADJ i1 i1 i2 i2 fl.
Proof. unfold ADJ. lia. Qed.
(* a key saved at the current mark *)
Lemma KS_here c1 c2 p r n1 n2 : MS d c1 c2 -> (n1 + sh_k d)%N = n2 ->
  KS d {| sk_possible := p; sk_required := r; sk_token_number := n1; sk_mark := c1 |}
       {| sk_possible := p; sk_required := r; sk_token_number := n2; sk_mark := c2 |}.
Proof. intros H HN. split; cbn [sk_possible sk_required sk_token_number sk_mark]; auto. Qed.
(* a key that is not possible: nothing but the flags matters *)
Lemma KS_dead r1 r2 n1 n2 m1 m2 :
  KS d {| sk_possible := false; sk_required := r1; sk_token_number := n1; sk_mark := m1 |}
       {| sk_possible := false; sk_required := r2; sk_token_number := n2; sk_mark := m2 |}.
Proof. split; cbn [sk_possible sk_required sk_token_number sk_mark]; auto; intros; discriminate. Qed.
Lemma KS_kill k1 k2 : KS d k1 k2 ->
  KS d {| sk_possible := false; sk_required := sk_required k1; sk_token_number := sk_token_number k1; sk_mark := sk_mark k1 |}
       {| sk_possible := false; sk_required := sk_required k2; sk_token_number := sk_token_number k2; sk_mark := sk_mark k2 |}.
Proof.
  intros [P R N' M]. split; cbn [sk_possible sk_required sk_token_number sk_mark]; auto; intros; discriminate.
Qed.
(* the guarded reads of the "required" flag *)
Lemma KS_pr k1 k2 : KS d k1 k2 -> sk_possible k2 && sk_required k2 = sk_possible k1 && sk_required k1.
Proof. intros [P R _ _]. rewrite <- P. destruct (sk_possible k1); [rewrite (R eq_refl)|]; reflexivity. Qed.
Lemma KS_rp k1 k2 : KS d k1 k2 -> sk_required k2 && sk_possible k2 = sk_required k1 && sk_possible k1.
Proof. intros H. rewrite (andb_comm (sk_required k2)), (andb_comm (sk_required k1)). apply KS_pr. exact H. Qed.
Lemma KS_dead_any k1 k2 : sk_possible k1 = false -> sk_possible k2 = false -> KS d k1 k2.
Proof. intros P1 P2. split; rewrite ?P1, ?P2; auto; intros; discriminate. Qed.
End Markers.

(* ================================================================================================ *)
(* 3. Reading the state relation                                                                    *)
(* ================================================================================================ *)
Ltac skel_cbn :=
  cbn [sc_in sc_mark sc_tokens sc_stream_start sc_stream_end sc_adjacent sc_ska sc_sks sc_indent sc_indents
       sc_flow_level sc_tokens_parsed sc_token_available sc_lws sc_ifms
       upd set_in set_mark set_tokens set_flags set_ska set_lws set_adj set_ta set_ss set_se
       set_struct set_sks set_indent set_fl set_tp set_ifms].

Lemma skel_fields (s t : bst) : skel s = skel t ->
  sc_stream_start s = sc_stream_start t /\ sc_stream_end s = sc_stream_end t /\ sc_ska s = sc_ska t
  /\ sc_indent s = sc_indent t /\ sc_indents s = sc_indents t /\ sc_flow_level s = sc_flow_level t
  /\ sc_token_available s = sc_token_available t
  /\ sc_lws s = sc_lws t /\ sc_ifms s = sc_ifms t.
Proof. unfold skel. intros H. inversion H. repeat split; assumption. Qed.

Lemma F2_length {A B} (R : A -> B -> Prop) l1 l2 : Forall2 R l1 l2 -> length l1 = length l2.
Proof. induction 1; cbn [length]; congruence. Qed.

Section Read.
Context {d : shift} {s1 s2 : bst} (H : SH d s1 s2).
Lemma SH_line : (m_line (sc_mark s1) + sh_l d)%N = m_line (sc_mark s2). Proof. exact (MS_line _ _ _ (sh_mark H)). Qed.
Lemma SH_col : m_col (sc_mark s1) = m_col (sc_mark s2). Proof. exact (MS_col _ _ _ (sh_mark H)). Qed.
Lemma SH_index : (m_index (sc_mark s1) + sh_i d)%N = m_index (sc_mark s2). Proof. exact (MS_index _ _ _ (sh_mark H)). Qed.
Lemma SH_stream_start : sc_stream_start s1 = sc_stream_start s2. Proof. pose proof (skel_fields _ _ (sh_skel H)). tauto. Qed.
Lemma SH_stream_end : sc_stream_end s1 = sc_stream_end s2. Proof. pose proof (skel_fields _ _ (sh_skel H)). tauto. Qed.
Lemma SH_ska : sc_ska s1 = sc_ska s2. Proof. pose proof (skel_fields _ _ (sh_skel H)). tauto. Qed.
Lemma SH_indent : sc_indent s1 = sc_indent s2. Proof. pose proof (skel_fields _ _ (sh_skel H)). tauto. Qed.
Lemma SH_indents : sc_indents s1 = sc_indents s2. Proof. pose proof (skel_fields _ _ (sh_skel H)). tauto. Qed.
Lemma SH_flow_level : sc_flow_level s1 = sc_flow_level s2. Proof. pose proof (skel_fields _ _ (sh_skel H)). tauto. Qed.
Lemma SH_tokens_parsed : (sc_tokens_parsed s1 + sh_k d)%N = sc_tokens_parsed s2. Proof. exact (sh_tp H). Qed.
Lemma SH_token_available : sc_token_available s1 = sc_token_available s2. Proof. pose proof (skel_fields _ _ (sh_skel H)). tauto. Qed.
Lemma SH_lws : sc_lws s1 = sc_lws s2. Proof. pose proof (skel_fields _ _ (sh_skel H)). tauto. Qed.
Lemma SH_ifms : sc_ifms s1 = sc_ifms s2. Proof. pose proof (skel_fields _ _ (sh_skel H)). tauto. Qed.
(* adjacent_value_allowed_at = the current index: the same answer on both sides inside a flow collection *)
Lemma SH_adj_eqb : sc_flow_level s1 <> 0%N ->
  (m_index (sc_mark s2) =? sc_adjacent s2)%N = (m_index (sc_mark s1) =? sc_adjacent s1)%N.
Proof.
  intros HF. destruct (sh_adj H) as (A1 & A2 & [AE|AE]); [contradiction|].
  destruct (N.eqb_spec (m_index (sc_mark s2)) (sc_adjacent s2)) as [E2|N2];
    destruct (N.eqb_spec (m_index (sc_mark s1)) (sc_adjacent s1)) as [E1|N1]; try reflexivity; exfalso.
  - apply N1. symmetry. apply AE. symmetry. exact E2.
  - apply N2. symmetry. apply AE. symmetry. exact E1.
Qed.
(* the way the dispatcher and fetch_flow_value use it: guarded by "inside a flow collection" *)
Lemma SH_adj_guard (x : bool) :
  ((0 <? sc_flow_level s1)%N && (x || (m_index (sc_mark s2) =? sc_adjacent s2)%N))
  = ((0 <? sc_flow_level s1)%N && (x || (m_index (sc_mark s1) =? sc_adjacent s1)%N)).
Proof.
  destruct (N.ltb_spec 0 (sc_flow_level s1)) as [HL|HL]; [|reflexivity]. cbn [andb].
  rewrite SH_adj_eqb by lia. reflexivity.
Qed.
Lemma SH_tokens_len : length (sc_tokens s1) = length (sc_tokens s2). Proof. exact (F2_length _ _ _ (sh_tokens H)). Qed.
(* the inputs *)
Lemma SH_rm : rm s2 = rm s1. Proof. exact (is_chars (sh_in H)). Qed.
Lemma SH_lk0 : Nat.eqb (lk s2) 0 = Nat.eqb (lk s1) 0. Proof. exact (is_look (sh_in H)). Qed.
Lemma SH_rn_eq k : rn s2 k = rn s1 k. Proof. unfold rn. rewrite SH_rm. reflexivity. Qed.
Lemma SH_rn k : noLF k (rm s1) -> rn s2 k = b1 (rn s1 k). Proof. intros _. apply SH_rn_eq. Qed.
Lemma SH_rn0 : rn s2 0 = b1 (rn s1 0). Proof. apply SH_rn_eq. Qed.
Lemma SH_rn1 : rn s1 0 <> 10%N -> rn s2 1 = b1 (rn s1 1). Proof. intros _. apply SH_rn_eq. Qed.
Lemma SH_rn0_other : rn s1 0 <> 10%N -> rn s2 0 = rn s1 0. Proof. intros _. apply SH_rn_eq. Qed.
End Read.

(* [sh_sync H]: H : SH d s1 s2; every equal-valued field of s2 in the goal (the column of the mark included) becomes
   the field of s1; the line of the mark of s2 becomes [line of s1 + sh_l d], its token counter
   [sc_tokens_parsed s1 + sh_k d].  [sh_fwd H] rewrites the equal-valued fields the other way round. *)
Ltac sh_sync H :=
  rewrite <- ?(SH_line H), <- ?(SH_col H), <- ?(SH_stream_start H), <- ?(SH_stream_end H), <- ?(SH_ska H),
          <- ?(SH_indent H), <- ?(SH_indents H), <- ?(SH_flow_level H), <- ?(SH_tokens_parsed H),
          <- ?(SH_token_available H), <- ?(SH_lws H), <- ?(SH_ifms H), <- ?(SH_tokens_len H).
Ltac sh_fwd H :=
  rewrite ?(SH_col H), ?(SH_stream_start H), ?(SH_stream_end H), ?(SH_ska H),
          ?(SH_indent H), ?(SH_indents H), ?(SH_flow_level H),
          ?(SH_token_available H), ?(SH_lws H), ?(SH_ifms H), ?(SH_tokens_len H).
Ltac sh_eq :=
  first [ reflexivity
        | match goal with H : SH _ _ _ |- _ = _ => solve [skel_cbn; sh_fwd H; reflexivity] end ].
Ltac skel_eq H := unfold skel; skel_cbn; sh_fwd H; reflexivity.

(* ================================================================================================ *)
(* 4. The state relation under updates                                                              *)
(* ================================================================================================ *)
Section Upd.
Variable d : shift.

Lemma SH_set_in i1 i2 s1 s2 : SH d s1 s2 -> IS i1 i2 -> SH d (set_in i1 s1) (set_in i2 s2).
Proof. intros H HI. constructor; skel_cbn; try apply H. exact HI. Qed.
Lemma SH_set_mark m1 m2 s1 s2 : SH d s1 s2 -> mark_step d (sc_mark s1) (sc_mark s2) m1 m2 ->
  SH d (set_mark m1 s1) (set_mark m2 s2).
Proof.
  intros H HM. constructor; skel_cbn; try apply H.
  - exact (proj1 HM).
  - eapply ADJ_step; [exact (sh_mark H)|exact HM|apply H].
Qed.
Lemma SH_set_tokens l1 l2 s1 s2 : SH d s1 s2 -> Forall2 (TS d) l1 l2 -> SH d (set_tokens l1 s1) (set_tokens l2 s2).
Proof. intros H HL. constructor; skel_cbn; try apply H. exact HL. Qed.
Lemma SH_push s1 s2 t1 t2 : SH d s1 s2 -> TS d t1 t2 ->
  SH d (set_tokens (sc_tokens s1 ++ [t1]) s1) (set_tokens (sc_tokens s2 ++ [t2]) s2).
Proof. intros H HT. apply SH_set_tokens; [exact H|]. apply Forall2_app; [apply H|]. constructor; [exact HT|constructor]. Qed.
Lemma SH_set_sks l1 l2 s1 s2 : SH d s1 s2 -> Forall2 (KS d) l1 l2 -> SH d (set_sks l1 s1) (set_sks l2 s2).
Proof. intros H HL. constructor; skel_cbn; try apply H; try exact HL; skel_eq H. Qed.
Lemma SH_set_ska b s1 s2 : SH d s1 s2 -> SH d (set_ska b s1) (set_ska b s2).
Proof. intros H. constructor; skel_cbn; try apply H. skel_eq H. Qed.
Lemma SH_set_lws b s1 s2 : SH d s1 s2 -> SH d (set_lws b s1) (set_lws b s2).
Proof. intros H. constructor; skel_cbn; try apply H. skel_eq H. Qed.
Lemma SH_set_ta b s1 s2 : SH d s1 s2 -> SH d (set_ta b s1) (set_ta b s2).
Proof. intros H. constructor; skel_cbn; try apply H. skel_eq H. Qed.
Lemma SH_set_ss b s1 s2 : SH d s1 s2 -> SH d (set_ss b s1) (set_ss b s2).
Proof. intros H. constructor; skel_cbn; try apply H. skel_eq H. Qed.
Lemma SH_set_se b s1 s2 : SH d s1 s2 -> SH d (set_se b s1) (set_se b s2).
Proof. intros H. constructor; skel_cbn; try apply H. skel_eq H. Qed.
(* adjacent_value_allowed_at := the current index (the only value it is ever given) *)
Lemma SH_set_adj_here s1 s2 : SH d s1 s2 ->
  SH d (set_adj (m_index (sc_mark s1)) s1) (set_adj (m_index (sc_mark s2)) s2).
Proof. intros H. constructor; skel_cbn; try apply H; try apply ADJ_here; skel_eq H. Qed.
Lemma SH_set_indent z l s1 s2 : SH d s1 s2 -> SH d (set_indent z l s1) (set_indent z l s2).
Proof. intros H. constructor; skel_cbn; try apply H. skel_eq H. Qed.
(* the flow level may change to anything when the adjacency information is already meaningful (we are inside a
   flow collection), and to 0 in any case; the step 0 -> 1 is [SH_flow_open] below *)
Lemma SH_set_fl n s1 s2 : SH d s1 s2 -> (n = 0%N \/ sc_flow_level s1 <> 0%N) -> SH d (set_fl n s1) (set_fl n s2).
Proof.
  intros H HN. constructor; skel_cbn; try apply H; [|skel_eq H].
  destruct (sh_adj H) as (A1 & A2 & AE). unfold ADJ. split; [exact A1|split; [exact A2|]].
  destruct HN as [->|HN]; [left; reflexivity|]. destruct AE as [AE|AE]; [contradiction|right; exact AE].
Qed.
Lemma SH_set_tp n1 n2 s1 s2 : SH d s1 s2 -> (n1 + sh_k d)%N = n2 -> SH d (set_tp n1 s1) (set_tp n2 s2).
Proof. intros H HN. constructor; skel_cbn; try apply H; try exact HN; skel_eq H. Qed.
Lemma SH_set_ifms l s1 s2 : SH d s1 s2 -> SH d (set_ifms l s1) (set_ifms l s2).
Proof. intros H. constructor; skel_cbn; try apply H. skel_eq H. Qed.
End Upd.

Ltac sh_upd_step :=
  first [ eassumption
        | apply SH_set_ska | apply SH_set_lws | apply SH_set_ta | apply SH_set_ss | apply SH_set_se
        | apply SH_set_indent | apply SH_set_ifms
        | apply SH_set_adj_here ].
Ltac sh_upd := repeat sh_upd_step.

(* ================================================================================================ *)
(* 5. The relational calculus                                                                       *)
(* ================================================================================================ *)
Definition swp (d : shift) {A1 A2} (m1 : BM A1) (m2 : BM A2) (Q : A1 -> bst -> A2 -> bst -> Prop) (s1 s2 : bst) : Prop :=
  match m1 s1 with
  | Panic _ => True
  | OutOfFuel => True
  | Ok (a1, t1) => match m2 s2 with
                   | Ok (a2, t2) => Q a1 t1 a2 t2
                   | Err _ _ => False
                   | _ => True
                   end
  | Err e1 k1 => match m2 s2 with
                 | Err e2 k2 => e1 = e2 /\ MS d k1 k2
                 | Ok _ => False
                 | _ => True
                 end
  end.

Definition Qe {A} (P : A -> bst -> bst -> Prop) : A -> bst -> A -> bst -> Prop :=
  fun a1 t1 a2 t2 => a1 = a2 /\ P a1 t1 t2.

Section Calculus.
Variable d : shift.
Local Notation bwp := (swp d).

Lemma bwp_ret {A1 A2} (a1 : A1) (a2 : A2) (Q : A1 -> bst -> A2 -> bst -> Prop) s1 s2 :
  Q a1 s1 a2 s2 -> bwp (ret a1) (ret a2) Q s1 s2.
Proof. auto. Qed.
Lemma bwp_bind {A1 A2 B1 B2} (m1 : BM A1) (m2 : BM A2) (f1 : A1 -> BM B1) (f2 : A2 -> BM B2)
  (Q : B1 -> bst -> B2 -> bst -> Prop) s1 s2 :
  bwp m1 m2 (fun a1 t1 a2 t2 => bwp (f1 a1) (f2 a2) Q t1 t2) s1 s2 -> bwp (bind m1 f1) (bind m2 f2) Q s1 s2.
Proof.
  unfold swp, bind. destruct (m1 s1) as [[a1 t1]|e1 k1|n1|]; auto.
  - destruct (m2 s2) as [[a2 t2]|e2 k2|n2|]; auto; try tauto.
    + destruct (f1 a1 t1) as [[c1 u1]|? ?|?|]; auto.
    + destruct (f1 a1 t1) as [[c1 u1]|? ?|?|]; auto.
  - destruct (m2 s2) as [[a2 t2]|e2 k2|n2|]; auto; try tauto.
Qed.
Lemma bwp_bind_e {A B1 B2} (m1 m2 : BM A) (f1 : A -> BM B1) (f2 : A -> BM B2) (Q : B1 -> bst -> B2 -> bst -> Prop) s1 s2 :
  bwp m1 m2 (Qe (fun a t1 t2 => bwp (f1 a) (f2 a) Q t1 t2)) s1 s2 -> bwp (bind m1 f1) (bind m2 f2) Q s1 s2.
Proof.
  intros H. apply bwp_bind. unfold swp in *. destruct (m1 s1) as [[a1 t1]|e1 k1|n1|]; auto.
  destruct (m2 s2) as [[a2 t2]|e2 k2|n2|]; auto. destruct H as [-> H]. exact H.
Qed.
Lemma bwp_mono {A1 A2} (m1 : BM A1) (m2 : BM A2) (Q Q' : A1 -> bst -> A2 -> bst -> Prop) s1 s2 :
  bwp m1 m2 Q s1 s2 -> (forall a1 t1 a2 t2, Q a1 t1 a2 t2 -> Q' a1 t1 a2 t2) -> bwp m1 m2 Q' s1 s2.
Proof.
  unfold swp. intros H HQ. destruct (m1 s1) as [[a1 t1]|e1 k1|n1|]; auto.
  destruct (m2 s2) as [[a2 t2]|e2 k2|n2|]; auto.
Qed.
Lemma bwp_fail {A1 A2} site k1 k2 (Q : A1 -> bst -> A2 -> bst -> Prop) s1 s2 :
  MS d k1 k2 -> bwp (@fail strin A1 site k1) (@fail strin A2 site k2) Q s1 s2.
Proof. intros H. unfold swp, fail. auto. Qed.
Lemma bwp_panic_l {A1 A2} site (m2 : BM A2) (Q : A1 -> bst -> A2 -> bst -> Prop) s1 s2 : bwp (@panic strin A1 site) m2 Q s1 s2.
Proof. exact I. Qed.
Lemma bwp_oof_l {A1 A2} (m2 : BM A2) (Q : A1 -> bst -> A2 -> bst -> Prop) s1 s2 : bwp (@oof strin A1) m2 Q s1 s2.
Proof. exact I. Qed.
Lemma bwp_oof_r {A1 A2} (m1 : BM A1) (Q : A1 -> bst -> A2 -> bst -> Prop) s1 s2 : bwp m1 (@oof strin A2) Q s1 s2.
Proof. unfold swp, oof. destruct (m1 s1) as [[a1 t1]|e1 k1|n1|]; auto. Qed.
Lemma bwp_panic_r {A1 A2} site (m1 : BM A1) (Q : A1 -> bst -> A2 -> bst -> Prop) s1 s2 : bwp m1 (@panic strin A2 site) Q s1 s2.
Proof. unfold swp, panic. destruct (m1 s1) as [[a1 t1]|e1 k1|n1|]; auto. Qed.
Lemma bwp_get (Q : bst -> bst -> bst -> bst -> Prop) s1 s2 : Q s1 s1 s2 s2 -> bwp get get Q s1 s2.
Proof. auto. Qed.
Lemma bwp_gets {A1 A2} (f1 : bst -> A1) (f2 : bst -> A2) (Q : A1 -> bst -> A2 -> bst -> Prop) s1 s2 :
  Q (f1 s1) s1 (f2 s2) s2 -> bwp (gets f1) (gets f2) Q s1 s2.
Proof. auto. Qed.
Lemma bwp_put t1 t2 (Q : unit -> bst -> unit -> bst -> Prop) s1 s2 : Q tt t1 tt t2 -> bwp (put t1) (put t2) Q s1 s2.
Proof. auto. Qed.
Lemma bwp_modify f1 f2 (Q : unit -> bst -> unit -> bst -> Prop) s1 s2 :
  Q tt (f1 s1) tt (f2 s2) -> bwp (modify f1) (modify f2) Q s1 s2.
Proof. auto. Qed.

Lemma bwp_elim {A1 A2} (m1 : BM A1) (m2 : BM A2) (Q : A1 -> bst -> A2 -> bst -> Prop) s1 s2 : bwp m1 m2 Q s1 s2 ->
  match m1 s1, m2 s2 with
  | Ok (a1, t1), Ok (a2, t2) => Q a1 t1 a2 t2
  | Err e1 k1, Err e2 k2 => e1 = e2 /\ MS d k1 k2
  | Ok _, Err _ _ => False
  | Err _ _, Ok _ => False
  | _, _ => True
  end.
Proof.
  unfold swp. destruct (m1 s1) as [[a1 t1]|e1 k1|n1|]; destruct (m2 s2) as [[a2 t2]|e2 k2|n2|]; auto.
Qed.
Lemma bwp_intro {A1 A2} (m1 : BM A1) (m2 : BM A2) (Q : A1 -> bst -> A2 -> bst -> Prop) s1 s2 :
  match m1 s1, m2 s2 with
  | Ok (a1, t1), Ok (a2, t2) => Q a1 t1 a2 t2
  | Err e1 k1, Err e2 k2 => e1 = e2 /\ MS d k1 k2
  | Ok _, Err _ _ => False
  | Err _ _, Ok _ => False
  | _, _ => True
  end -> bwp m1 m2 Q s1 s2.
Proof.
  unfold swp. destruct (m1 s1) as [[a1 t1]|e1 k1|n1|]; destruct (m2 s2) as [[a2 t2]|e2 k2|n2|]; auto.
Qed.

Lemma bwp_step_l {A B1 B2} (m : BM A) (f1 : A -> BM B1) (m2 : BM B2) (Q : B1 -> bst -> B2 -> bst -> Prop) s1 s2 a t1 :
  m s1 = Ok (a, t1) -> bwp (f1 a) m2 Q t1 s2 -> bwp (bind m f1) m2 Q s1 s2.
Proof. intros Hm H. unfold swp, bind in *. rewrite Hm. exact H. Qed.
Lemma bwp_step_r {A B1 B2} (m : BM A) (m1 : BM B1) (f2 : A -> BM B2) (Q : B1 -> bst -> B2 -> bst -> Prop) s1 s2 a t2 :
  m s2 = Ok (a, t2) -> bwp m1 (f2 a) Q s1 t2 -> bwp m1 (bind m f2) Q s1 s2.
Proof. intros Hm H. unfold swp, bind in *. rewrite Hm. exact H. Qed.
Lemma bwp_eval {A1 A2} (m1 : BM A1) (m2 : BM A2) (Q : A1 -> bst -> A2 -> bst -> Prop) s1 s2 a1 t1 a2 t2 :
  m1 s1 = Ok (a1, t1) -> m2 s2 = Ok (a2, t2) -> Q a1 t1 a2 t2 -> bwp m1 m2 Q s1 s2.
Proof. intros H1 H2 HQ. unfold swp. rewrite H1, H2. exact HQ. Qed.
Lemma bwp_bind_eval {A1 A2 B1 B2} (m1 : BM A1) (m2 : BM A2) (f1 : A1 -> BM B1) (f2 : A2 -> BM B2)
  (Q : B1 -> bst -> B2 -> bst -> Prop) s1 s2 a1 t1 a2 t2 :
  m1 s1 = Ok (a1, t1) -> m2 s2 = Ok (a2, t2) -> bwp (f1 a1) (f2 a2) Q t1 t2 -> bwp (bind m1 f1) (bind m2 f2) Q s1 s2.
Proof. intros H1 H2 HQ. apply bwp_bind. eapply bwp_eval; eassumption. Qed.
(* the two runs are given as outcomes: equal outcomes of side 2 may be exchanged *)
Lemma bwp_ext_r {A1 A2} (m1 : BM A1) (m2 m2' : BM A2) (Q : A1 -> bst -> A2 -> bst -> Prop) s1 s2 s2' :
  m2 s2 = m2' s2' -> bwp m1 m2' Q s1 s2' -> bwp m1 m2 Q s1 s2.
Proof. intros E H. unfold swp in *. rewrite E. exact H. Qed.
Lemma bwp_ext_l {A1 A2} (m1 m1' : BM A1) (m2 : BM A2) (Q : A1 -> bst -> A2 -> bst -> Prop) s1 s1' s2 :
  m1 s1 = m1' s1' -> bwp m1' m2 Q s1' s2 -> bwp m1 m2 Q s1 s2.
Proof. intros E H. unfold swp in *. rewrite E. exact H. Qed.
End Calculus.

(* ================================================================================================ *)
(* 6. Closed forms of the string back-end's primitives                                              *)
(* ================================================================================================ *)
Definition bump (n : nat) (s : bst) : bst := set_in {| si_chars := rm s; si_look := Nat.max (lk s) n |} s.
Definition drop1 (s : bst) : bst := set_in {| si_chars := tl (rm s); si_look := lk s |} s.
Definition dropn (n : nat) (s : bst) : bst := set_in {| si_chars := skipn n (rm s); si_look := lk s |} s.
Definition bl1 (s : bst) : bst := set_mark (adv 1 (sc_mark s)) (drop1 s).
Definition nb1 (s : bst) : bst := set_lws false (bl1 s).
Definition nl1 (s : bst) : bst := set_lws true (set_mark (nlm (sc_mark s)) (drop1 s)).

Lemma look_ok n s : look sops n s = Ok (tt, bump n s). Proof. reflexivity. Qed.
Lemma peekn_ok k s : peekn sops k s = Ok (rn s k, s). Proof. reflexivity. Qed.
Lemma peek_ok s : SPrim.peek sops s = Ok (rn s 0, s). Proof. reflexivity. Qed.
Lemma look_ch_ok s : look_ch sops s = Ok (rn s 0, bump 1 s). Proof. reflexivity. Qed.
Lemma in_skip_ok s : in_skip sops s = Ok (tt, drop1 s). Proof. reflexivity. Qed.
Lemma in_skip_n_ok n s : in_skip_n sops n s = Ok (tt, dropn n s). Proof. reflexivity. Qed.
Lemma skip_blank_ok s : skip_blank sops s = Ok (tt, bl1 s). Proof. reflexivity. Qed.
Lemma skip_non_blank_ok s : skip_non_blank sops s = Ok (tt, nb1 s). Proof. reflexivity. Qed.
Lemma skip_nl_ok s : skip_nl sops s = Ok (tt, nl1 s). Proof. reflexivity. Qed.
Lemma adv_mark_ok n (s : bst) : adv_mark n s = Ok (tt, set_mark (adv n (sc_mark s)) s). Proof. reflexivity. Qed.

Lemma rm_bump n s : rm (bump n s) = rm s. Proof. reflexivity. Qed.
Lemma rm_drop1 s : rm (drop1 s) = tl (rm s). Proof. reflexivity. Qed.
Lemma rm_dropn n s : rm (dropn n s) = skipn n (rm s). Proof. reflexivity. Qed.
Lemma rm_bl1 s : rm (bl1 s) = tl (rm s). Proof. reflexivity. Qed.
Lemma rm_nb1 s : rm (nb1 s) = tl (rm s). Proof. reflexivity. Qed.
Lemma rm_nl1 s : rm (nl1 s) = tl (rm s). Proof. reflexivity. Qed.
Lemma lk_bump n s : lk (bump n s) = Nat.max (lk s) n. Proof. reflexivity. Qed.
Lemma ers_bump n s : ers (bump n s) = ers s. Proof. reflexivity. Qed.
Lemma ers_drop1 s : ers (drop1 s) = ers s. Proof. reflexivity. Qed.
Lemma ers_dropn n s : ers (dropn n s) = ers s. Proof. reflexivity. Qed.
Lemma rn_tl (t s : bst) i : rm t = tl (rm s) -> rn t i = rn s (S i).
Proof. unfold rn. intros ->. destruct (rm s); [destruct i; reflexivity|reflexivity]. Qed.
Lemma rn_eq (t s : bst) i : rm t = rm s -> rn t i = rn s i.
Proof. unfold rn. intros ->. reflexivity. Qed.
Lemma nth_skipn {A} n i (l : list A) d : nth i (skipn n l) d = nth (n + i) l d.
Proof.
  revert l; induction n as [|n IH]; intros l; [reflexivity|].
  destruct l as [|a l]; [destruct i; reflexivity|]. cbn [skipn]. cbn [Nat.add nth]. apply IH.
Qed.
Lemma rn_skipn (t s : bst) n i : rm t = skipn n (rm s) -> rn t i = rn s (n + i).
Proof. unfold rn. intros ->. apply nth_skipn. Qed.

(* skip_linebreak / skip_break, evaluated *)
Definition slb (s : bst) : bst :=
  if ((rn s 0 =? 13) && (rn s 1 =? 10))%N then nl1 (bl1 s) else if is_break (rn s 0) then nl1 s else s.
Definition sbk (s : bst) : bst := if ((rn s 0 =? 13) && (rn s 1 =? 10))%N then nl1 (bl1 s) else nl1 s.
Lemma skip_linebreak_eval s : skip_linebreak sops s = if Nat.ltb (lk s) 2 then Panic 103%N else Ok (tt, slb s).
Proof.
  unfold skip_linebreak, next_2_are, assert_buflen, bind, slb. cbn [buflen str_ops]. fold (lk s).
  destruct (Nat.ltb (lk s) 2); [reflexivity|].
  rewrite peek_ok, peekn_ok. unfold ret.
  destruct ((rn s 0 =? 13) && (rn s 1 =? 10))%N; [reflexivity|].
  rewrite peek_ok. destruct (is_break (rn s 0)); reflexivity.
Qed.
Lemma skip_break_eval s : skip_break sops s = if is_break (rn s 0) then Ok (tt, sbk s) else Panic 110%N.
Proof.
  unfold skip_break, bind, sbk. rewrite peek_ok, peekn_ok.
  destruct (is_break (rn s 0)); [|reflexivity]. unfold ret.
  destruct ((rn s 0 =? 13) && (rn s 1 =? 10))%N; reflexivity.
Qed.

(* ================================================================================================ *)
(* 7. The input primitives under the relation                                                       *)
(* ================================================================================================ *)
Lemma max_eqb0 a b n : Nat.eqb b 0 = Nat.eqb a 0 -> Nat.eqb (Nat.max b n) 0 = Nat.eqb (Nat.max a n) 0.
Proof.
  intros H. destruct n as [|n]; [rewrite !Nat.max_0_r; exact H|].
  destruct (Nat.eqb_spec (Nat.max b (S n)) 0); destruct (Nat.eqb_spec (Nat.max a (S n)) 0); try reflexivity; lia.
Qed.

Section Rules.
Variable d : shift.
Local Notation bwp := (swp d).

(* the two sides apply the same function to their inputs and move their marks alike *)
Lemma SH_jump s1 s2 i1 i2 m1 m2 : SH d s1 s2 -> IS i1 i2 -> mark_step d (sc_mark s1) (sc_mark s2) m1 m2 ->
  SH d (set_mark m1 (set_in i1 s1)) (set_mark m2 (set_in i2 s2)).
Proof. intros H HI HM. apply SH_set_mark; [apply SH_set_in; assumption|exact HM]. Qed.

Lemma SH_bump n s1 s2 : SH d s1 s2 -> SH d (bump n s1) (bump n s2).
Proof.
  intros H. unfold bump. apply SH_set_in; [exact H|].
  constructor; cbn [si_chars si_look]; [exact (SH_rm H)|apply max_eqb0; exact (SH_lk0 H)].
Qed.
Lemma SH_drop1' s1 s2 : SH d s1 s2 -> SH d (drop1 s1) (drop1 s2).
Proof.
  intros H. unfold drop1. apply SH_set_in; [exact H|]. constructor; cbn [si_chars si_look].
  - rewrite (SH_rm H). reflexivity.
  - exact (SH_lk0 H).
Qed.
Lemma SH_drop1 s1 s2 : SH d s1 s2 -> rn s1 0 <> 10%N -> SH d (drop1 s1) (drop1 s2).
Proof. intros H _. apply SH_drop1'. exact H. Qed.
Lemma SH_dropn s1 s2 n : SH d s1 s2 -> noLF n (rm s1) -> SH d (dropn n s1) (dropn n s2).
Proof.
  intros H _. unfold dropn. apply SH_set_in; [exact H|]. constructor; cbn [si_chars si_look].
  - rewrite (SH_rm H). reflexivity.
  - exact (SH_lk0 H).
Qed.
Lemma SH_adv n s1 s2 : SH d s1 s2 -> SH d (set_mark (adv n (sc_mark s1)) s1) (set_mark (adv n (sc_mark s2)) s2).
Proof. intros H. apply SH_set_mark; [exact H|]. apply mark_step_adv. exact (sh_mark H). Qed.
Lemma SH_bl1' s1 s2 : SH d s1 s2 -> SH d (bl1 s1) (bl1 s2).
Proof. intros H. unfold bl1. apply (SH_adv 1 (drop1 s1) (drop1 s2)). apply SH_drop1'; assumption. Qed.
Lemma SH_bl1 s1 s2 : SH d s1 s2 -> rn s1 0 <> 10%N -> SH d (bl1 s1) (bl1 s2).
Proof. intros H _. apply SH_bl1'. exact H. Qed.
Lemma SH_nb1' s1 s2 : SH d s1 s2 -> SH d (nb1 s1) (nb1 s2).
Proof. intros H. unfold nb1. apply SH_set_lws. apply SH_bl1'; assumption. Qed.
Lemma SH_nb1 s1 s2 : SH d s1 s2 -> rn s1 0 <> 10%N -> SH d (nb1 s1) (nb1 s2).
Proof. intros H _. apply SH_nb1'. exact H. Qed.
Lemma SH_nl1 s1 s2 : SH d s1 s2 -> SH d (nl1 s1) (nl1 s2).
Proof.
  intros H. unfold nl1. apply SH_set_lws.
  apply (SH_set_mark d _ _ (drop1 s1) (drop1 s2)); [apply SH_drop1'; exact H|].
  apply mark_step_nl0. exact (sh_mark H).
Qed.
Lemma SH_slb s1 s2 : SH d s1 s2 -> SH d (slb s1) (slb s2).
Proof.
  intros H. unfold slb. rewrite !(SH_rn_eq H).
  destruct ((rn s1 0 =? 13) && (rn s1 1 =? 10))%N; [apply SH_nl1; apply SH_bl1'; exact H|].
  destruct (is_break (rn s1 0)); [apply SH_nl1; exact H|exact H].
Qed.
Lemma SH_sbk s1 s2 : SH d s1 s2 -> SH d (sbk s1) (sbk s2).
Proof.
  intros H. unfold sbk. rewrite !(SH_rn_eq H).
  destruct ((rn s1 0 =? 13) && (rn s1 1 =? 10))%N; [apply SH_nl1; apply SH_bl1'; exact H|apply SH_nl1; exact H].
Qed.
(* the step 0 -> 1 of the flow level: what fetch_flow_collection_start does between save_simple_key and the
   skipping of the bracket, as ONE update (the bracket is consumed, so a stale adjacency value stays stale) *)
Lemma SH_flow_open s1 s2 k1 k2 : SH d s1 s2 -> KS d k1 k2 ->
  SH d (nb1 (set_ska true (set_fl (sc_flow_level s1 + 1) (set_sks (k1 :: sc_sks s1) s1))))
       (nb1 (set_ska true (set_fl (sc_flow_level s2 + 1) (set_sks (k2 :: sc_sks s2) s2)))).
Proof.
  intros H HK. pose proof (sh_mark H) as HM.
  constructor; unfold nb1, bl1, drop1, rm, lk; skel_cbn.
  - constructor; cbn [si_chars si_look]; [rewrite (is_chars (sh_in H)); reflexivity|exact (is_look (sh_in H))].
  - apply MS_adv. exact HM.
  - exact (sh_tokens H).
  - constructor; [exact HK|exact (sh_sks H)].
  - eapply ADJ_stale; [exact HM|apply MS_adv; exact HM| |exact (sh_adj H)]. cbn [adv m_index]. lia.
  - exact (sh_tp H).
  - unfold skel. skel_cbn. sh_fwd H. reflexivity.
Qed.

(* ---- look / peek ---- *)
Lemma bwp_look n (Q : unit -> bst -> unit -> bst -> Prop) s1 s2 :
  SH d s1 s2 ->
  (forall t1 t2, SH d t1 t2 -> rm t1 = rm s1 -> ers t1 = ers s1 -> ers t2 = ers s2 -> n <= lk t1 -> lk s1 <= lk t1 ->
                 Q tt t1 tt t2) ->
  bwp (look sops n) (look sops n) Q s1 s2.
Proof.
  intros H HQ. eapply bwp_eval; [apply look_ok|apply look_ok|].
  apply HQ; [apply SH_bump; exact H|reflexivity|reflexivity|reflexivity|rewrite lk_bump; lia|rewrite lk_bump; lia].
Qed.
Lemma bwp_peekn_raw k (Q : chr -> bst -> chr -> bst -> Prop) s1 s2 :
  Q (rn s1 k) s1 (rn s2 k) s2 -> bwp (peekn sops k) (peekn sops k) Q s1 s2.
Proof. intros HQ. exact HQ. Qed.
Lemma bwp_peekn k (Q : chr -> bst -> chr -> bst -> Prop) s1 s2 :
  SH d s1 s2 -> noLF k (rm s1) -> Q (rn s1 k) s1 (b1 (rn s1 k)) s2 -> bwp (peekn sops k) (peekn sops k) Q s1 s2.
Proof. intros H HL HQ. apply bwp_peekn_raw. rewrite (SH_rn H k HL). exact HQ. Qed.
Lemma bwp_peek (Q : chr -> bst -> chr -> bst -> Prop) s1 s2 :
  SH d s1 s2 -> Q (rn s1 0) s1 (b1 (rn s1 0)) s2 -> bwp (SPrim.peek sops) (SPrim.peek sops) Q s1 s2.
Proof. intros H HQ. apply bwp_peekn; [exact H|apply noLF_0|exact HQ]. Qed.
Lemma bwp_look_ch (Q : chr -> bst -> chr -> bst -> Prop) s1 s2 :
  SH d s1 s2 ->
  (forall t1 t2, SH d t1 t2 -> rm t1 = rm s1 -> ers t1 = ers s1 -> ers t2 = ers s2 -> 1 <= lk t1 ->
                 Q (rn t1 0) t1 (b1 (rn t1 0)) t2) ->
  bwp (look_ch sops) (look_ch sops) Q s1 s2.
Proof.
  intros H HQ. unfold look_ch. apply bwp_bind. apply bwp_look; [exact H|].
  intros t1 t2 HT R1 E1 E2 L1 _. apply bwp_peek; [exact HT|]. apply HQ; assumption.
Qed.
Lemma bwp_next_is p (Q : bool -> bst -> bool -> bst -> Prop) s1 s2 :
  SH d s1 s2 -> bblind p -> Q (p (rn s1 0)) s1 (p (rn s1 0)) s2 -> bwp (next_is sops p) (next_is sops p) Q s1 s2.
Proof.
  intros H Hp HQ. unfold next_is. apply bwp_bind. apply bwp_peek; [exact H|]. apply bwp_ret. rewrite Hp. exact HQ.
Qed.

(* ---- skipping ---- *)
Lemma bwp_in_skip (Q : unit -> bst -> unit -> bst -> Prop) s1 s2 :
  SH d s1 s2 -> rn s1 0 <> 10%N ->
  (forall t1 t2, SH d t1 t2 -> rm t1 = tl (rm s1) -> ers t1 = ers s1 -> ers t2 = ers s2 -> Q tt t1 tt t2) ->
  bwp (in_skip sops) (in_skip sops) Q s1 s2.
Proof.
  intros H H0 HQ. eapply bwp_eval; [apply in_skip_ok|apply in_skip_ok|].
  apply HQ; [apply SH_drop1; assumption|reflexivity|reflexivity|reflexivity].
Qed.
Lemma bwp_in_skip_n n (Q : unit -> bst -> unit -> bst -> Prop) s1 s2 :
  SH d s1 s2 -> noLF n (rm s1) ->
  (forall t1 t2, SH d t1 t2 -> rm t1 = skipn n (rm s1) -> ers t1 = ers s1 -> ers t2 = ers s2 -> Q tt t1 tt t2) ->
  bwp (in_skip_n sops n) (in_skip_n sops n) Q s1 s2.
Proof.
  intros H H0 HQ. eapply bwp_eval; [apply in_skip_n_ok|apply in_skip_n_ok|].
  apply HQ; [apply SH_dropn; assumption|reflexivity|reflexivity|reflexivity].
Qed.
Lemma bwp_adv_mark n (Q : unit -> bst -> unit -> bst -> Prop) s1 s2 :
  SH d s1 s2 -> (forall t1 t2, SH d t1 t2 -> rm t1 = rm s1 -> Q tt t1 tt t2) -> bwp (adv_mark n) (adv_mark n) Q s1 s2.
Proof. intros H HQ. unfold adv_mark. apply bwp_modify. apply HQ; [apply SH_adv; exact H|reflexivity]. Qed.
Lemma bwp_skip_blank (Q : unit -> bst -> unit -> bst -> Prop) s1 s2 :
  SH d s1 s2 -> rn s1 0 <> 10%N ->
  (forall t1 t2, SH d t1 t2 -> rm t1 = tl (rm s1) -> Q tt t1 tt t2) -> bwp (skip_blank sops) (skip_blank sops) Q s1 s2.
Proof.
  intros H H0 HQ. eapply bwp_eval; [apply skip_blank_ok|apply skip_blank_ok|].
  apply HQ; [apply SH_bl1; assumption|reflexivity].
Qed.
Lemma bwp_skip_non_blank (Q : unit -> bst -> unit -> bst -> Prop) s1 s2 :
  SH d s1 s2 -> rn s1 0 <> 10%N ->
  (forall t1 t2, SH d t1 t2 -> rm t1 = tl (rm s1) -> Q tt t1 tt t2) ->
  bwp (skip_non_blank sops) (skip_non_blank sops) Q s1 s2.
Proof.
  intros H H0 HQ. eapply bwp_eval; [apply skip_non_blank_ok|apply skip_non_blank_ok|].
  apply HQ; [apply SH_nb1; assumption|reflexivity].
Qed.
Lemma bwp_skip_n_non_blank n (Q : unit -> bst -> unit -> bst -> Prop) s1 s2 :
  SH d s1 s2 -> noLF n (rm s1) ->
  (forall t1 t2, SH d t1 t2 -> rm t1 = skipn n (rm s1) -> Q tt t1 tt t2) ->
  bwp (skip_n_non_blank sops n) (skip_n_non_blank sops n) Q s1 s2.
Proof.
  intros H H0 HQ. unfold skip_n_non_blank. apply bwp_bind. apply bwp_in_skip_n; [exact H|exact H0|].
  intros u1 u2 HU R1 _ _. apply bwp_bind. apply bwp_adv_mark; [exact HU|]. intros v1 v2 HV R2.
  apply bwp_modify. apply HQ; [apply SH_set_lws; exact HV|].
  change (rm (set_lws false v1)) with (rm v1). rewrite R2, R1. reflexivity.
Qed.

(* ---- the line break: the same characters are consumed on both sides ---- *)
Lemma bwp_skip_nl (Q : unit -> bst -> unit -> bst -> Prop) s1 s2 :
  SH d s1 s2 -> (forall t1 t2, SH d t1 t2 -> rm t1 = tl (rm s1) -> Q tt t1 tt t2) -> bwp (skip_nl sops) (skip_nl sops) Q s1 s2.
Proof.
  intros H HQ. eapply bwp_eval; [apply skip_nl_ok|apply skip_nl_ok|]. apply HQ; [apply SH_nl1; exact H|reflexivity].
Qed.
Lemma bwp_skip_linebreak (Q : unit -> bst -> unit -> bst -> Prop) s1 s2 :
  SH d s1 s2 -> (forall t1 t2, SH d t1 t2 -> rm t1 = rm (slb s1) -> Q tt t1 tt t2) ->
  bwp (skip_linebreak sops) (skip_linebreak sops) Q s1 s2.
Proof.
  intros H HQ. unfold swp. rewrite !skip_linebreak_eval.
  destruct (Nat.ltb (lk s1) 2); [exact I|]. destruct (Nat.ltb (lk s2) 2); [exact I|].
  apply HQ; [apply SH_slb; exact H|reflexivity].
Qed.
Lemma bwp_skip_break (Q : unit -> bst -> unit -> bst -> Prop) s1 s2 :
  SH d s1 s2 ->
  (forall t1 t2, SH d t1 t2 -> is_break (rn s1 0) = true -> rm t1 = rm (sbk s1) -> Q tt t1 tt t2) ->
  bwp (skip_break sops) (skip_break sops) Q s1 s2.
Proof.
  intros H HQ. unfold swp. rewrite !skip_break_eval, (SH_rn_eq H).
  destruct (is_break (rn s1 0)) eqn:E; [|exact I]. apply HQ; [apply SH_sbk; exact H|reflexivity|reflexivity].
Qed.

(* ---- raw_read / buf_is_empty / assert_buflen ---- *)
Lemma bwp_raw_read (Q : option chr -> bst -> option chr -> bst -> Prop) s1 s2 :
  SH d s1 s2 ->
  (forall c t1 t2, SH d t1 t2 -> ers t1 = ers s1 -> ers t2 = ers s2 ->
     match c with
     | Some x => rm s1 = x :: rm t1 /\ is_breakz x = false
     | None => rm t1 = rm s1 /\ is_breakz (rn s1 0) = true
     end -> Q c t1 c t2) ->
  bwp (raw_read sops) (raw_read sops) Q s1 s2.
Proof.
  intros H HQ. unfold swp, raw_read. cbn [raw_read_non_breakz str_ops].
  change (si_chars (sc_in s2)) with (rm s2). rewrite (SH_rm H). change (rm s1) with (si_chars (sc_in s1)).
  change (si_chars (sc_in s1)) with (rm s1).
  assert (HSame : SH d (set_in (sc_in s1) s1) (set_in (sc_in s2) s2)) by (apply SH_set_in; [exact H|exact (sh_in H)]).
  destruct (rm s1) as [|c r] eqn:E1.
  - apply HQ; [exact HSame|reflexivity|reflexivity|]. split; [exact E1|]. unfold rn. rewrite E1. reflexivity.
  - destruct (is_breakz c) eqn:Eb.
    + apply HQ; [exact HSame|reflexivity|reflexivity|]. split; [exact E1|]. unfold rn. rewrite E1. exact Eb.
    + apply HQ; [|reflexivity|reflexivity|split; [reflexivity|exact Eb]].
      apply SH_set_in; [exact H|]. constructor; cbn [si_chars si_look]; [reflexivity|exact (SH_lk0 H)].
Qed.
Lemma bwp_buf_is_empty (Q : bool -> bst -> bool -> bst -> Prop) s1 s2 :
  SH d s1 s2 -> Q (Nat.eqb (lk s1) 0) s1 (Nat.eqb (lk s1) 0) s2 -> bwp (buf_is_empty sops) (buf_is_empty sops) Q s1 s2.
Proof.
  intros H HQ. unfold buf_is_empty. apply bwp_gets. cbn [buflen str_ops]. fold (lk s1). fold (lk s2).
  rewrite (SH_lk0 H). exact HQ.
Qed.
(* an assertion that fails on either side is a panic: not this proof's concern *)
Lemma bwp_assert_buflen n site (Q : unit -> bst -> unit -> bst -> Prop) s1 s2 :
  SH d s1 s2 -> Q tt s1 tt s2 -> bwp (assert_buflen sops n site) (assert_buflen sops n site) Q s1 s2.
Proof.
  intros H HQ. unfold swp, assert_buflen. cbn [buflen str_ops].
  destruct (Nat.ltb (si_look (sc_in s1)) n); [exact I|]. destruct (Nat.ltb (si_look (sc_in s2)) n); [exact I|exact HQ].
Qed.

End Rules.

(* ================================================================================================ *)
(* 8. The Input default methods (input.rs): tests on the next characters                            *)
(* ================================================================================================ *)
Definition n2are (s : bst) (a b : chr) : bool := ((rn s 0 =? a) && (rn s 1 =? b))%N.
Definition n3are (s : bst) (a b c : chr) : bool := ((rn s 0 =? a) && (rn s 1 =? b) && (rn s 2 =? c))%N.
Definition docind_val (s : bst) : bool :=
  if is_blank_or_breakz (rn s 3) then (if n3are s 46%N 46%N 46%N then true else n3are s 45%N 45%N 45%N) else false.
Definition docstart_val (s : bst) : bool := if n3are s 45%N 45%N 45%N then is_blank_or_breakz (rn s 3) else false.
Definition docend_val (s : bst) : bool := if n3are s 46%N 46%N 46%N then is_blank_or_breakz (rn s 3) else false.
Definition plain_ok_val (fl : bool) (s : bst) : bool :=
  if ((rn s 0 =? 58)%N && (is_blank_or_breakz (rn s 1) || (fl && is_flow (rn s 1)))) then false
  else if fl && is_flow (rn s 0) then false else true.
Definition lit (k : chr) : Prop := ((k =? 10) || (k =? 13))%N = false.
Lemma lit_lf k : lit k -> (10 =? k)%N = false.
Proof. unfold lit. intros H. apply orb_false_iff in H. rewrite N.eqb_sym. tauto. Qed.
Lemma lit_cr k : lit k -> (13 =? k)%N = false.
Proof. unfold lit. intros H. apply orb_false_iff in H. rewrite N.eqb_sym. tauto. Qed.
Lemma lit_eq_noLF c k : lit k -> (c =? k)%N = true -> c <> 10%N.
Proof. intros H E ->. rewrite (lit_lf k H) in E. discriminate. Qed.

Lemma next_2_are_eval s a b : next_2_are sops a b s = if Nat.ltb (lk s) 2 then Panic 103%N else Ok (n2are s a b, s).
Proof. unfold next_2_are, assert_buflen, bind. cbn [buflen str_ops]. fold (lk s). destruct (Nat.ltb (lk s) 2); reflexivity. Qed.
Lemma next_3_are_eval s a b c : next_3_are sops a b c s = if Nat.ltb (lk s) 3 then Panic 104%N else Ok (n3are s a b c, s).
Proof. unfold next_3_are, assert_buflen, bind. cbn [buflen str_ops]. fold (lk s). destruct (Nat.ltb (lk s) 3); reflexivity. Qed.
Lemma ltb4_3 n : Nat.ltb n 4 = false -> Nat.ltb n 3 = false.
Proof. intros H. apply Nat.ltb_ge in H. apply Nat.ltb_ge. lia. Qed.
Lemma docind_eval s : next_is_document_indicator sops s = if Nat.ltb (lk s) 4 then Panic 105%N else Ok (docind_val s, s).
Proof.
  unfold next_is_document_indicator, assert_buflen, bind. cbn [buflen str_ops]. fold (lk s).
  destruct (Nat.ltb (lk s) 4) eqn:E; [reflexivity|]. rewrite peekn_ok. unfold docind_val.
  destruct (is_blank_or_breakz (rn s 3)); [|reflexivity].
  rewrite next_3_are_eval, (ltb4_3 _ E). destruct (n3are s 46%N 46%N 46%N); [reflexivity|].
  rewrite next_3_are_eval, (ltb4_3 _ E). reflexivity.
Qed.
Lemma docstart_eval s : next_is_document_start sops s = if Nat.ltb (lk s) 4 then Panic 106%N else Ok (docstart_val s, s).
Proof.
  unfold next_is_document_start, assert_buflen, bind. cbn [buflen str_ops]. fold (lk s).
  destruct (Nat.ltb (lk s) 4) eqn:E; [reflexivity|]. rewrite next_3_are_eval, (ltb4_3 _ E). unfold docstart_val.
  destruct (n3are s 45%N 45%N 45%N); reflexivity.
Qed.
Lemma docend_eval s : next_is_document_end sops s = if Nat.ltb (lk s) 4 then Panic 107%N else Ok (docend_val s, s).
Proof.
  unfold next_is_document_end, assert_buflen, bind. cbn [buflen str_ops]. fold (lk s).
  destruct (Nat.ltb (lk s) 4) eqn:E; [reflexivity|]. rewrite next_3_are_eval, (ltb4_3 _ E). unfold docend_val.
  destruct (n3are s 46%N 46%N 46%N); reflexivity.
Qed.
Lemma plain_ok_eval fl s : next_can_be_plain_scalar sops fl s = Ok (plain_ok_val fl s, s).
Proof.
  unfold next_can_be_plain_scalar, bind. rewrite peekn_ok, peek_ok. unfold plain_ok_val.
  destruct ((rn s 0 =? 58)%N && (is_blank_or_breakz (rn s 1) || fl && is_flow (rn s 1))); [reflexivity|].
  destruct (fl && is_flow (rn s 0)); reflexivity.
Qed.

Section Tests.
Variable d : shift.
Local Notation bwp := (swp d).

(* a value computed from the remaining text alone is the same on both sides *)
Lemma rm_fun {A} (f : bst -> A) s1 s2 : SH d s1 s2 -> (forall s t : bst, rm s = rm t -> f s = f t) -> f s2 = f s1.
Proof. intros H Hf. apply Hf. exact (SH_rm H). Qed.
Lemma n2are_brk s1 s2 a b : SH d s1 s2 -> lit a -> lit b -> n2are s2 a b = n2are s1 a b.
Proof. intros H _ _. unfold n2are. rewrite !(SH_rn_eq H). reflexivity. Qed.
Lemma n3are_brk s1 s2 a b c : SH d s1 s2 -> lit a -> lit b -> lit c -> n3are s2 a b c = n3are s1 a b c.
Proof. intros H _ _ _. unfold n3are. rewrite !(SH_rn_eq H). reflexivity. Qed.
Lemma n3are_noLF (s : bst) a b c : lit a -> lit b -> lit c -> n3are s a b c = true -> noLF 3 (rm s).
Proof.
  intros La Lb Lc E. unfold n3are in E. apply andb_true_iff in E. destruct E as [E Ec].
  apply andb_true_iff in E. destruct E as [Ea Eb].
  apply noLF_S; [apply noLF_S; [apply noLF_1; exact (lit_eq_noLF _ a La Ea)|exact (lit_eq_noLF _ b Lb Eb)]
                |exact (lit_eq_noLF _ c Lc Ec)].
Qed.
Lemma docstart_brk s1 s2 : SH d s1 s2 -> docstart_val s2 = docstart_val s1.
Proof. intros H. unfold docstart_val, n3are. rewrite !(SH_rn_eq H). reflexivity. Qed.
Lemma docend_brk s1 s2 : SH d s1 s2 -> docend_val s2 = docend_val s1.
Proof. intros H. unfold docend_val, n3are. rewrite !(SH_rn_eq H). reflexivity. Qed.
Lemma docind_brk s1 s2 : SH d s1 s2 -> docind_val s2 = docind_val s1.
Proof. intros H. unfold docind_val, n3are. rewrite !(SH_rn_eq H). reflexivity. Qed.
Lemma plain_ok_brk fl s1 s2 : SH d s1 s2 -> rn s1 0 <> 10%N -> plain_ok_val fl s2 = plain_ok_val fl s1.
Proof. intros H _. unfold plain_ok_val. rewrite !(SH_rn_eq H). reflexivity. Qed.
Lemma guard1_brk p k s1 s2 : SH d s1 s2 -> lit k -> bblind p ->
  ((rn s2 0 =? k)%N && p (rn s2 1)) = ((rn s1 0 =? k)%N && p (rn s1 1)).
Proof. intros H _ _. rewrite !(SH_rn_eq H). reflexivity. Qed.

Lemma bwp_next_char_is c (Q : bool -> bst -> bool -> bst -> Prop) s1 s2 :
  SH d s1 s2 -> lit c -> Q (rn s1 0 =? c)%N s1 (rn s1 0 =? c)%N s2 -> bwp (next_char_is sops c) (next_char_is sops c) Q s1 s2.
Proof.
  intros H Lc HQ. unfold next_char_is. apply bwp_bind. apply (bwp_peek d); [exact H|]. apply bwp_ret. exact HQ.
Qed.
Lemma bwp_nth_char_is n c (Q : bool -> bst -> bool -> bst -> Prop) s1 s2 :
  SH d s1 s2 -> noLF n (rm s1) -> lit c -> Q (rn s1 n =? c)%N s1 (rn s1 n =? c)%N s2 ->
  bwp (nth_char_is sops n c) (nth_char_is sops n c) Q s1 s2.
Proof.
  intros H HL Lc HQ. unfold nth_char_is. apply bwp_bind. apply (bwp_peekn d); [exact H|exact HL|]. apply bwp_ret. exact HQ.
Qed.
Lemma bwp_next_2_are a b (Q : bool -> bst -> bool -> bst -> Prop) s1 s2 :
  SH d s1 s2 -> lit a -> lit b -> Q (n2are s1 a b) s1 (n2are s1 a b) s2 -> bwp (next_2_are sops a b) (next_2_are sops a b) Q s1 s2.
Proof.
  intros H La Lb HQ. unfold swp. rewrite !next_2_are_eval. destruct (Nat.ltb (lk s1) 2); [exact I|].
  destruct (Nat.ltb (lk s2) 2); [exact I|]. rewrite (n2are_brk _ _ a b H La Lb). exact HQ.
Qed.
Lemma bwp_next_3_are a b c (Q : bool -> bst -> bool -> bst -> Prop) s1 s2 :
  SH d s1 s2 -> lit a -> lit b -> lit c -> Q (n3are s1 a b c) s1 (n3are s1 a b c) s2 ->
  bwp (next_3_are sops a b c) (next_3_are sops a b c) Q s1 s2.
Proof.
  intros H La Lb Lc HQ. unfold swp. rewrite !next_3_are_eval. destruct (Nat.ltb (lk s1) 3); [exact I|].
  destruct (Nat.ltb (lk s2) 3); [exact I|]. rewrite (n3are_brk _ _ a b c H La Lb Lc). exact HQ.
Qed.
Lemma bwp_next_is_document_indicator (Q : bool -> bst -> bool -> bst -> Prop) s1 s2 :
  SH d s1 s2 -> Q (docind_val s1) s1 (docind_val s1) s2 ->
  bwp (next_is_document_indicator sops) (next_is_document_indicator sops) Q s1 s2.
Proof.
  intros H HQ. unfold swp. rewrite !docind_eval. destruct (Nat.ltb (lk s1) 4); [exact I|].
  destruct (Nat.ltb (lk s2) 4); [exact I|]. rewrite (docind_brk _ _ H). exact HQ.
Qed.
Lemma bwp_next_is_document_start (Q : bool -> bst -> bool -> bst -> Prop) s1 s2 :
  SH d s1 s2 -> Q (docstart_val s1) s1 (docstart_val s1) s2 ->
  bwp (next_is_document_start sops) (next_is_document_start sops) Q s1 s2.
Proof.
  intros H HQ. unfold swp. rewrite !docstart_eval. destruct (Nat.ltb (lk s1) 4); [exact I|].
  destruct (Nat.ltb (lk s2) 4); [exact I|]. rewrite (docstart_brk _ _ H). exact HQ.
Qed.
Lemma bwp_next_is_document_end (Q : bool -> bst -> bool -> bst -> Prop) s1 s2 :
  SH d s1 s2 -> Q (docend_val s1) s1 (docend_val s1) s2 ->
  bwp (next_is_document_end sops) (next_is_document_end sops) Q s1 s2.
Proof.
  intros H HQ. unfold swp. rewrite !docend_eval. destruct (Nat.ltb (lk s1) 4); [exact I|].
  destruct (Nat.ltb (lk s2) 4); [exact I|]. rewrite (docend_brk _ _ H). exact HQ.
Qed.
Lemma bwp_next_can_be_plain_scalar fl (Q : bool -> bst -> bool -> bst -> Prop) s1 s2 :
  SH d s1 s2 -> rn s1 0 <> 10%N -> Q (plain_ok_val fl s1) s1 (plain_ok_val fl s1) s2 ->
  bwp (next_can_be_plain_scalar sops fl) (next_can_be_plain_scalar sops fl) Q s1 s2.
Proof.
  intros H N0 HQ. unfold swp. rewrite !plain_ok_eval. rewrite (plain_ok_brk fl _ _ H N0). exact HQ.
Qed.
End Tests.

(* ================================================================================================ *)
(* 9. Contracts (proved in the ScanShift*.v files)                                                  *)
(*    TWO independent fuels everywhere: a text and the tail of a longer text are given different    *)
(*    by [run_str] (the texts have different lengths); all loops are in lockstep, so the proofs are  *)
(*    by induction on the first fuel and case analysis on the second.                               *)
(* ================================================================================================ *)
(* how two scans end *)
Definition ES (d : shift) (e1 e2 : scan_end) : Prop :=
  match e1, e2 with
  | SEnded, SEnded => True
  | SError a k1, SError b k2 => a = b /\ MS d k1 k2
  | SPanic _, _ | _, SPanic _ | SFuel, _ | _, SFuel => True
  | _, _ => False
  end.
Definition proper_end (e : scan_end) : Prop := match e with SEnded | SError _ _ => True | _ => False end.
Definition OTS (d : shift) (o1 o2 : option token) : Prop :=
  match o1, o2 with Some t1, Some t2 => TS d t1 t2 | None, None => True | _, _ => False end.

Section Contracts.
Variable d : shift.
Local Notation bwp := (swp d).

(* [bpost VR]: values related by [VR], states related;  [bpost_al VR]: moreover the next character of side 1 is
   not a line feed, i.e. positions 0 and 1 of the two inputs are aligned (what every scan_* / fetch_* entry needs) *)
Definition bpost {A1 A2} (VR : A1 -> A2 -> Prop) : A1 -> bst -> A2 -> bst -> Prop :=
  fun a1 t1 a2 t2 => VR a1 a2 /\ SH d t1 t2.
Definition bpost_al {A1 A2} (VR : A1 -> A2 -> Prop) : A1 -> bst -> A2 -> bst -> Prop :=
  fun a1 t1 a2 t2 => VR a1 a2 /\ SH d t1 t2 /\ rn t1 0 <> 10%N.

(* --- primitives family (ScanBrkPrim.v) --- *)
Definition shf_skip_to_next_token : Prop := forall F1 F2 s1 s2, SH d s1 s2 ->
  bwp (skip_to_next_token sops F1) (skip_to_next_token sops F2) (bpost_al eq) s1 s2.
Definition shf_skip_ws_to_eol : Prop := forall F1 F2 stb s1 s2, SH d s1 s2 ->
  bwp (skip_ws_to_eol sops F1 stb) (skip_ws_to_eol sops F2 stb) (bpost eq) s1 s2.
Definition shf_skip_yaml_whitespace : Prop := forall F1 F2 s1 s2, SH d s1 s2 ->
  bwp (skip_yaml_whitespace sops F1) (skip_yaml_whitespace sops F2) (bpost_al eq) s1 s2.

(* --- scanners: entered at a character that is not a line feed; the same token up to [MS d] --- *)
Definition shf_scan_directive : Prop := forall F1 F2 s1 s2, SH d s1 s2 -> rn s1 0 <> 10%N ->
  bwp (scan_directive sops F1) (scan_directive sops F2) (bpost (TS d)) s1 s2.
Definition shf_scan_tag : Prop := forall F1 F2 s1 s2, SH d s1 s2 -> rn s1 0 <> 10%N ->
  bwp (scan_tag sops F1) (scan_tag sops F2) (bpost (TS d)) s1 s2.
Definition shf_scan_anchor : Prop := forall F1 F2 alias s1 s2, SH d s1 s2 -> rn s1 0 <> 10%N ->
  bwp (scan_anchor sops F1 alias) (scan_anchor sops F2 alias) (bpost (TS d)) s1 s2.
Definition shf_scan_flow_scalar : Prop := forall F1 F2 single s1 s2, SH d s1 s2 -> rn s1 0 <> 10%N ->
  bwp (scan_flow_scalar sops F1 single) (scan_flow_scalar sops F2 single) (bpost (TS d)) s1 s2.
Definition shf_scan_plain_scalar : Prop := forall F1 F2 s1 s2, SH d s1 s2 -> rn s1 0 <> 10%N ->
  bwp (scan_plain_scalar sops F1) (scan_plain_scalar sops F2) (bpost (TS d)) s1 s2.
Definition shf_scan_block_scalar : Prop := forall F1 F2 literal s1 s2, SH d s1 s2 -> rn s1 0 <> 10%N ->
  bwp (scan_block_scalar sops F1 literal) (scan_block_scalar sops F2 literal) (bpost (TS d)) s1 s2.

(* --- skeleton (top family) --- *)
Definition shf_fetch_stream_start : Prop := forall s1 s2, SH d s1 s2 ->
  bwp fetch_stream_start fetch_stream_start (bpost eq) s1 s2.
Definition shf_fetch_stream_end : Prop := forall s1 s2, SH d s1 s2 ->
  bwp fetch_stream_end fetch_stream_end (bpost eq) s1 s2.
Definition shf_fetch_directive : Prop := forall F1 F2 s1 s2, SH d s1 s2 -> rn s1 0 <> 10%N ->
  bwp (fetch_directive sops F1) (fetch_directive sops F2) (bpost eq) s1 s2.
Definition shf_fetch_tag : Prop := forall F1 F2 s1 s2, SH d s1 s2 -> rn s1 0 <> 10%N ->
  bwp (fetch_tag sops F1) (fetch_tag sops F2) (bpost eq) s1 s2.
Definition shf_fetch_anchor : Prop := forall F1 F2 alias s1 s2, SH d s1 s2 -> rn s1 0 <> 10%N ->
  bwp (fetch_anchor sops F1 alias) (fetch_anchor sops F2 alias) (bpost eq) s1 s2.
Definition shf_fetch_flow_collection_start : Prop := forall F1 F2 seq s1 s2, SH d s1 s2 -> rn s1 0 <> 10%N ->
  bwp (fetch_flow_collection_start sops F1 seq) (fetch_flow_collection_start sops F2 seq) (bpost eq) s1 s2.
Definition shf_fetch_flow_collection_end : Prop := forall F1 F2 seq s1 s2, SH d s1 s2 -> rn s1 0 <> 10%N ->
  bwp (fetch_flow_collection_end sops F1 seq) (fetch_flow_collection_end sops F2 seq) (bpost eq) s1 s2.
Definition shf_fetch_flow_entry : Prop := forall F1 F2 s1 s2, SH d s1 s2 -> rn s1 0 <> 10%N ->
  bwp (fetch_flow_entry sops F1) (fetch_flow_entry sops F2) (bpost eq) s1 s2.
Definition shf_fetch_block_entry : Prop := forall F1 F2 s1 s2, SH d s1 s2 -> rn s1 0 <> 10%N ->
  bwp (fetch_block_entry sops F1) (fetch_block_entry sops F2) (bpost eq) s1 s2.
(* three characters are consumed blindly: they are the marker just recognised, none of them a line feed *)
Definition shf_fetch_document_indicator : Prop := forall t s1 s2, SH d s1 s2 -> noLF 3 (rm s1) ->
  bwp (fetch_document_indicator sops t) (fetch_document_indicator sops t) (bpost eq) s1 s2.
Definition shf_fetch_block_scalar : Prop := forall F1 F2 literal s1 s2, SH d s1 s2 -> rn s1 0 <> 10%N ->
  bwp (fetch_block_scalar sops F1 literal) (fetch_block_scalar sops F2 literal) (bpost eq) s1 s2.
Definition shf_fetch_flow_scalar : Prop := forall F1 F2 single s1 s2, SH d s1 s2 -> rn s1 0 <> 10%N ->
  bwp (fetch_flow_scalar sops F1 single) (fetch_flow_scalar sops F2 single) (bpost eq) s1 s2.
Definition shf_fetch_plain_scalar : Prop := forall F1 F2 s1 s2, SH d s1 s2 -> rn s1 0 <> 10%N ->
  bwp (fetch_plain_scalar sops F1) (fetch_plain_scalar sops F2) (bpost eq) s1 s2.
Definition shf_fetch_key : Prop := forall F1 F2 s1 s2, SH d s1 s2 -> rn s1 0 <> 10%N ->
  bwp (fetch_key sops F1) (fetch_key sops F2) (bpost eq) s1 s2.
Definition shf_fetch_value : Prop := forall F1 F2 s1 s2, SH d s1 s2 -> rn s1 0 <> 10%N ->
  bwp (fetch_value sops F1) (fetch_value sops F2) (bpost eq) s1 s2.
Definition shf_fetch_flow_value : Prop := forall F1 F2 s1 s2, SH d s1 s2 -> rn s1 0 <> 10%N ->
  (0 <? sc_flow_level s1)%N = true ->
  bwp (fetch_flow_value sops F1) (fetch_flow_value sops F2) (bpost eq) s1 s2.
Definition shf_fetch_next_token : Prop := forall F1 F2 s1 s2, SH d s1 s2 ->
  bwp (fetch_next_token sops F1) (fetch_next_token sops F2) (bpost eq) s1 s2.
Definition shf_fetch_more_tokens : Prop := forall F1 F2 n1 n2 s1 s2, SH d s1 s2 ->
  bwp (fetch_more_tokens sops F1 n1) (fetch_more_tokens sops F2 n2) (bpost eq) s1 s2.
Definition shf_next_token : Prop := forall F1 F2 s1 s2, SH d s1 s2 ->
  bwp (next_token sops F1) (next_token sops F2) (bpost (OTS d)) s1 s2.
(* the whole scan: the two ends are related, and when both are proper (ended / error) so are the token lists *)
Definition shf_scan_all : Prop := forall F1 F2 n1 n2 s1 s2 acc1 acc2, SH d s1 s2 -> Forall2 (TS d) acc1 acc2 ->
  ES d (snd (scan_all sops F1 n1 s1 acc1)) (snd (scan_all sops F2 n2 s2 acc2))
  /\ (proper_end (snd (scan_all sops F1 n1 s1 acc1)) -> proper_end (snd (scan_all sops F2 n2 s2 acc2)) ->
      Forall2 (TS d) (fst (scan_all sops F1 n1 s1 acc1)) (fst (scan_all sops F2 n2 s2 acc2))).

End Contracts.
