(* C11 — for EVERY token stream the pull parser nests no deeper than (twice) the nesting of the tokens it has
   taken: a collection is only ever opened by a collection-start token (BlockSequenceStart, BlockMappingStart,
   FlowSequenceStart, FlowMappingStart) — plus at most one "free" collection directly inside it (the indentless
   sequence of a block mapping value, the single-pair mapping of a flow sequence entry) — and a collection-end
   token (BlockEnd, FlowSequenceEnd, FlowMappingEnd) is only ever consumed by closing the collection it ends.
   The second half is exactly what the defect repaired by c5ad60c violated (flow_sequence_entry_mapping_key
   consumed a FlowSequenceEnd without closing anything). *)
From Coq Require Import List NArith Bool Lia PeanoNat.
Import ListNotations.
Require Import Parser SFetch Pipe Drivers Grammar C02base C02rest C02tail C02run Depth DepthProofs.
Local Open Scope nat_scope.

(* ------------------------------------------------------------------------------------------------ *)
(* 1. counters over token lists                                                                      *)
(* ------------------------------------------------------------------------------------------------ *)
(* the running nesting counter of Model/Depth.v, without the maximum *)
Definition cnt (c : nat) (used : list token) : nat := fold_left (fun c t => tok_nest_next c (snd t)) used c.

Lemma cnt_app c a b : cnt c (a ++ b) = cnt (cnt c a) b.
Proof. unfold cnt. apply fold_left_app. Qed.

Lemma tok_nest_run_fst toks : forall c m, fst (tok_nest_run toks (c, m)) = cnt c toks.
Proof.
  induction toks as [|t r IH]; intros c m; [reflexivity|].
  unfold tok_nest_run, cnt in *. cbn [fold_left]. unfold tok_nest_step at 2. cbn [fst snd]. apply IH.
Qed.

Lemma tok_nest_run_snd_ge toks : forall c m, m <= snd (tok_nest_run toks (c, m)).
Proof.
  induction toks as [|t r IH]; intros c m; [apply le_n|].
  unfold tok_nest_run in *. cbn [fold_left]. unfold tok_nest_step at 2. cbn [fst snd].
  etransitivity; [|apply IH]. lia.
Qed.

Lemma tok_nest_run_cur_le_max toks : forall c m, c <= m -> fst (tok_nest_run toks (c, m)) <= snd (tok_nest_run toks (c, m)).
Proof.
  induction toks as [|t r IH]; intros c m H; [exact H|].
  unfold tok_nest_run in *. cbn [fold_left]. unfold tok_nest_step at 2 4. cbn [fst snd]. apply IH. lia.
Qed.

Lemma tok_nest_run_app a b cm : tok_nest_run (a ++ b) cm = tok_nest_run b (tok_nest_run a cm).
Proof. unfold tok_nest_run. apply fold_left_app. Qed.

(* the counter after any prefix is at most the maximum over the whole list *)
Lemma cnt_prefix_le_max a b : cnt 0 a <= tok_nest_max (a ++ b).
Proof.
  unfold tok_nest_max. rewrite tok_nest_run_app.
  destruct (tok_nest_run a (0, 0)) as [c m] eqn:E.
  pose proof (tok_nest_run_cur_le_max a 0 0 (le_n 0)) as H. rewrite E in H. cbn [fst snd] in H.
  pose proof (tok_nest_run_fst a 0 0) as F. rewrite E in F. cbn [fst] in F. rewrite <- F.
  etransitivity; [exact H|]. apply tok_nest_run_snd_ge.
Qed.

(* ------------------------------------------------------------------------------------------------ *)
(* 2. what the parser stack stands for                                                               *)
(* ------------------------------------------------------------------------------------------------ *)
(* tokens the parser has not consumed: the one-token cache and the rest of the stream *)
Definition remaining (p : parser) : list token :=
  match p_token p with Some t => t :: p_toks p | None => p_toks p end.

(* states entered with the collection-start token still in the cache *)
Definition is_first (s : pstate) : bool :=
  match s with
  | SBlockSequenceFirstEntry | SBlockMappingFirstKey | SFlowSequenceFirstEntry | SFlowMappingFirstKey => true
  | _ => false
  end.

(* collections opened by a TOKEN that a state (current, or continuation on the heap stack) stands for *)
Definition tframe (s : pstate) : nat :=
  match s with
  | SBlockSequenceFirstEntry | SBlockSequenceEntry
  | SBlockMappingFirstKey | SBlockMappingKey | SBlockMappingValue
  | SFlowSequenceFirstEntry | SFlowSequenceEntry
  | SFlowSequenceEntryMappingKey | SFlowSequenceEntryMappingValue | SFlowSequenceEntryMappingEnd _
  | SFlowMappingFirstKey | SFlowMappingKey | SFlowMappingValue | SFlowMappingEmptyValue => 1
  | _ => 0
  end.
(* collections OPEN IN THE EVENTS that it stands for: the indentless sequence has no token of its own, the
   single-pair mapping of a flow sequence entry ("[ a: b ]", "[ ? a ]") neither *)
Definition eframe (s : pstate) : nat :=
  match s with
  | SIndentlessSequenceEntry => 1
  | SFlowSequenceEntryMappingKey | SFlowSequenceEntryMappingValue | SFlowSequenceEntryMappingEnd _ => 2
  | _ => tframe s
  end.
Definition sumf (f : pstate -> nat) (l : list pstate) : nat := fold_right (fun s n => f s + n) 0 l.

Definition is_bm (s : pstate) : bool := match s with SBlockMappingKey | SBlockMappingValue => true | _ => false end.
Definition head_bm (l : list pstate) : bool := match l with s :: _ => is_bm s | [] => false end.
(* an indentless sequence sits directly on a block mapping *)
Fixpoint shape (l : list pstate) : bool :=
  match l with
  | [] => true
  | s :: r => (match s with SIndentlessSequenceEntry => head_bm r | _ => true end) && shape r
  end.
Definition nofirst (l : list pstate) : bool := forallb (fun s => negb (is_first s)) l.

Lemma shape_bound l : shape l = true ->
  sumf eframe l <= 2 * sumf tframe l /\ (head_bm l = true -> sumf eframe l + 1 <= 2 * sumf tframe l).
Proof.
  induction l as [|s r IH]; intros H; [cbn; split; [lia|discriminate]|].
  cbn [shape] in H. apply andb_prop in H as [H1 H2]. destruct (IH H2) as [A B].
  cbn [sumf fold_right]. fold (sumf eframe r). fold (sumf tframe r).
  destruct s; cbn [eframe tframe head_bm is_bm] in *; split; try discriminate; try lia;
    try (intros _; lia).
  specialize (B H1). lia.
Qed.

(* the invariant: [c] is the nesting counter of the tokens consumed so far *)
Definition first_ok (p : parser) : Prop :=
  is_first (p_state p) = true -> exists t, p_token p = Some t /\ tok_open (snd t) = true.
Definition K (p : parser) (c : nat) : Prop :=
  shape (p_state p :: p_states p) = true
  /\ nofirst (p_states p) = true
  /\ tframe (p_state p) + sumf tframe (p_states p) <= c + (if is_first (p_state p) then 1 else 0)
  /\ first_ok p.

Definition kpost (p : parser) (c : nat) (r : res ((event * span) * parser)) : Prop :=
  match r with
  | Parser.Ok (_, p') => exists used, remaining p = used ++ remaining p' /\ K p' (cnt c used)
  | _ => True
  end.

Lemma kpost_frame p c q used r :
  remaining p = used ++ remaining q -> kpost q (cnt c used) r -> kpost p c r.
Proof.
  intros E H. destruct r as [[ev p']|e|n]; cbn [kpost] in *; auto.
  destruct H as (u & E2 & HK). exists (used ++ u). split.
  - rewrite E, E2, app_assoc. reflexivity.
  - rewrite cnt_app. exact HK.
Qed.

Lemma used_nil {A} (R : list A) : R = [] ++ R.
Proof. reflexivity. Qed.
Lemma used_cons {A} (t : A) R R' u : R = u ++ R' -> t :: R = (t :: u) ++ R'.
Proof. intros ->. reflexivity. Qed.
Ltac solve_used := cbn [remaining p_token p_toks]; repeat first [ apply used_nil | apply used_cons ].

(* ------------------------------------------------------------------------------------------------ *)
(* 3. symbolic execution of the parser functions on an explicit parser record                         *)
(* ------------------------------------------------------------------------------------------------ *)
Ltac pcbn :=
  unfold Parser.peek, skip, push_state, pop_state, register_anchor, set_tok, set_state, set_states, set_anchors, set_tags;
  cbn [p_toks p_token p_states p_state p_anchors p_anchor_id p_tags p_keep_tags fst snd].

Ltac kx :=
  repeat (pcbn;
          match goal with
          | |- kpost _ _ (Parser.Err _) => exact I
          | |- kpost _ _ (Parser.Panic _) => exact I
          | |- kpost _ _ (Parser.Ok _) => fail 1
          | |- context [match ?x with _ => _ end] => is_var x; destruct x
          | |- context [resolve_tag ?a ?b ?c ?d] => destruct (resolve_tag a b c d)
          | |- context [assoc ?a ?b] => destruct (assoc a b)
          | |- context [has_props ?a ?b] => destruct (has_props a b)
          end).

Ltac kcnt := cbn [cnt fold_left tok_nest_next tok_open tok_close snd Nat.pred].

(* a leaf: the function returned an event and an explicit parser *)
Ltac kleaf :=
  cbn [kpost]; eexists; split; [solve_used|];
  kcnt; unfold K, first_ok;
  cbn [p_state p_states p_token is_first shape nofirst forallb negb tframe sumf fold_right head_bm is_bm andb] in *;
  repeat match goal with H : _ && _ = true |- _ => apply andb_prop in H; destruct H end;
  repeat split;
  first [ assumption | discriminate | lia
        | intros _; eexists; split; reflexivity
        | apply andb_true_intro; split; assumption
        | idtac ].

(* precondition of parse_node: only the heap stack matters, the current state is overwritten *)
Definition PreNode (p : parser) (c : nat) (indentless : bool) : Prop :=
  shape (p_states p) = true /\ nofirst (p_states p) = true /\ sumf tframe (p_states p) <= c
  /\ (indentless = true -> head_bm (p_states p) = true).

Lemma nofirst_head s r : nofirst (s :: r) = true -> is_first s = false /\ nofirst r = true.
Proof.
  cbn [nofirst forallb]. intros H. apply andb_prop in H as [A B]. split; [|exact B].
  destruct (is_first s); [discriminate|reflexivity].
Qed.

(* popping the continuation: the popped state becomes current *)
Lemma K_pop l ca s r an aid tg kt c :
  shape (s :: r) = true -> nofirst (s :: r) = true -> tframe s + sumf tframe r <= c ->
  K {| p_toks := l; p_token := ca; p_states := r; p_state := s; p_anchors := an; p_anchor_id := aid;
       p_tags := tg; p_keep_tags := kt |} c.
Proof.
  intros HS HN HT. destruct (nofirst_head _ _ HN) as [F N]. unfold K, first_ok. cbn [p_state p_states p_token].
  rewrite F. repeat split; auto; [lia|discriminate].
Qed.

Ltac kpop :=
  cbn [kpost]; eexists; split; [solve_used|]; kcnt; apply K_pop;
  cbn [sumf fold_right] in *; first [assumption | lia].

Lemma parse_node_k p c b i : PreNode p c i -> kpost p c (parse_node p b i).
Proof.
  intros (HS & HN & HT & HI). destruct p as [l ca stk st an aid tg kt]. cbn [p_states] in *.
  unfold parse_node, node_props, node_content, empty_or_err.
  kx; try kpop;
    try (cbn [kpost]; eexists; split; [solve_used|]; kcnt; unfold K, first_ok;
         cbn [p_state p_states p_token is_first shape tframe];
         repeat split; try assumption; try lia; try discriminate;
         try (intros _; eexists; split; reflexivity);
         try (rewrite HS; try rewrite (HI eq_refl); reflexivity)).
Qed.

(* what the invariant says for an explicit parser record *)
Lemma K_inv l ca stk st an aid tg kt c :
  K {| p_toks := l; p_token := ca; p_states := stk; p_state := st; p_anchors := an; p_anchor_id := aid;
       p_tags := tg; p_keep_tags := kt |} c ->
  shape stk = true /\ (st = SIndentlessSequenceEntry -> head_bm stk = true) /\ nofirst stk = true
  /\ tframe st + sumf tframe stk <= c + (if is_first st then 1 else 0)
  /\ (is_first st = true -> exists sp tk, ca = Some (sp, tk) /\ tok_open tk = true).
Proof.
  unfold K, first_ok. cbn [p_state p_states p_token shape]. intros (HS & HN & HT & HF).
  apply andb_prop in HS as [H1 H2]. repeat split; auto.
  - intros ->. exact H1.
  - intros H. destruct (HF H) as ([sp tk] & E & O). eauto.
Qed.

Ltac kside :=
  kcnt;
  cbn [p_state p_states p_token shape nofirst forallb is_first negb andb tframe sumf fold_right head_bm is_bm] in *;
  repeat match goal with
         | H : shape ?s = true |- context [shape ?s] => rewrite H
         | H : head_bm ?s = true |- context [head_bm ?s] => rewrite H
         end;
  unfold sumf, nofirst in *; rewrite ?Nat.add_0_r;
  first [ assumption | reflexivity | discriminate | lia | (intros; discriminate) | idtac ].

(* leaves of the symbolic execution *)
Ltac kfin :=
  pcbn;
  lazymatch goal with
  | |- kpost _ _ (Parser.Err _) => exact I
  | |- kpost _ _ (Parser.Panic _) => exact I
  | |- kpost _ _ (parse_node ?q _ _) =>
      eapply (kpost_frame _ _ q); [solve_used | apply parse_node_k; unfold PreNode; repeat split; kside]
  | |- kpost {| p_toks := _; p_token := _; p_states := ?a :: ?b; p_state := _; p_anchors := _; p_anchor_id := _; p_tags := _; p_keep_tags := _ |} _
             (Parser.Ok (_, {| p_toks := _; p_token := _; p_states := ?b; p_state := ?a; p_anchors := _; p_anchor_id := _; p_tags := _; p_keep_tags := _ |})) =>
      cbn [kpost]; eexists; split; [solve_used|]; apply K_pop; kside
  | |- kpost _ _ (Parser.Ok _) =>
      cbn [kpost]; eexists; split; [solve_used|]; unfold K, first_ok; repeat split; kside
  end.

Ltac kstart HK :=
  let HB := fresh "HB" in
  apply K_inv in HK; destruct HK as (HS & HB & HN & HT & HF);
  cbn [is_first tframe] in HT, HF; rewrite ?Nat.add_0_r, ?Nat.add_1_r in HT;
  first [specialize (HB eq_refl) | clear HB].

Lemma block_mapping_key_k l ca stk st an aid tg kt c (first : bool) :
  st = (if first then SBlockMappingFirstKey else SBlockMappingKey) ->
  let p := {| p_toks := l; p_token := ca; p_states := stk; p_state := st; p_anchors := an; p_anchor_id := aid;
              p_tags := tg; p_keep_tags := kt |} in
  K p c -> kpost p c (block_mapping_key p first).
Proof.
  intros -> p HK. subst p. destruct first; kstart HK.
  - destruct (HF eq_refl) as (sp0 & tk0 & -> & HO). destruct tk0; try discriminate HO;
      unfold block_mapping_key; kx; kfin.
  - unfold block_mapping_key; kx; kfin.
Qed.

Lemma flow_mapping_key_k l ca stk st an aid tg kt c (first : bool) :
  st = (if first then SFlowMappingFirstKey else SFlowMappingKey) ->
  let p := {| p_toks := l; p_token := ca; p_states := stk; p_state := st; p_anchors := an; p_anchor_id := aid;
              p_tags := tg; p_keep_tags := kt |} in
  K p c -> kpost p c (flow_mapping_key p first).
Proof.
  intros -> p HK. subst p. destruct first; kstart HK.
  - destruct (HF eq_refl) as (sp0 & tk0 & -> & HO). destruct tk0; try discriminate HO;
      unfold flow_mapping_key; kx; kfin.
  - unfold flow_mapping_key; kx; kfin.
Qed.

Lemma flow_sequence_entry_k l ca stk st an aid tg kt c (first : bool) :
  st = (if first then SFlowSequenceFirstEntry else SFlowSequenceEntry) ->
  let p := {| p_toks := l; p_token := ca; p_states := stk; p_state := st; p_anchors := an; p_anchor_id := aid;
              p_tags := tg; p_keep_tags := kt |} in
  K p c -> kpost p c (flow_sequence_entry p first).
Proof.
  intros -> p HK. subst p. destruct first; kstart HK.
  - destruct (HF eq_refl) as (sp0 & tk0 & -> & HO). destruct tk0; try discriminate HO;
      unfold flow_sequence_entry; kx; kfin.
  - unfold flow_sequence_entry; kx; kfin.
Qed.

Lemma block_sequence_entry_k l ca stk st an aid tg kt c (first : bool) :
  st = (if first then SBlockSequenceFirstEntry else SBlockSequenceEntry) ->
  let p := {| p_toks := l; p_token := ca; p_states := stk; p_state := st; p_anchors := an; p_anchor_id := aid;
              p_tags := tg; p_keep_tags := kt |} in
  K p c -> kpost p c (block_sequence_entry p first).
Proof.
  intros -> p HK. subst p. destruct first; kstart HK.
  - destruct (HF eq_refl) as (sp0 & tk0 & -> & HO). destruct tk0; try discriminate HO;
      unfold block_sequence_entry; kx; kfin.
  - unfold block_sequence_entry; kx; kfin.
Qed.

Lemma block_mapping_value_k l ca stk st an aid tg kt c :
  st = SBlockMappingValue ->
  let p := {| p_toks := l; p_token := ca; p_states := stk; p_state := st; p_anchors := an; p_anchor_id := aid;
              p_tags := tg; p_keep_tags := kt |} in
  K p c -> kpost p c (block_mapping_value p).
Proof.
  intros -> p HK. subst p. kstart HK. unfold block_mapping_value; kx; kfin.
Qed.

Lemma flow_mapping_value_k l ca stk st an aid tg kt c :
  st = SFlowMappingValue ->
  let p := {| p_toks := l; p_token := ca; p_states := stk; p_state := st; p_anchors := an; p_anchor_id := aid;
              p_tags := tg; p_keep_tags := kt |} in
  K p c -> kpost p c (flow_mapping_value p false).
Proof.
  intros -> p HK. subst p. kstart HK. unfold flow_mapping_value; kx; kfin.
Qed.

Lemma flow_mapping_empty_value_k l ca stk st an aid tg kt c :
  st = SFlowMappingEmptyValue ->
  let p := {| p_toks := l; p_token := ca; p_states := stk; p_state := st; p_anchors := an; p_anchor_id := aid;
              p_tags := tg; p_keep_tags := kt |} in
  K p c -> kpost p c (flow_mapping_value p true).
Proof.
  intros -> p HK. subst p. kstart HK. unfold flow_mapping_value; kx; kfin.
Qed.

Lemma indentless_sequence_entry_k l ca stk st an aid tg kt c :
  st = SIndentlessSequenceEntry ->
  let p := {| p_toks := l; p_token := ca; p_states := stk; p_state := st; p_anchors := an; p_anchor_id := aid;
              p_tags := tg; p_keep_tags := kt |} in
  K p c -> kpost p c (indentless_sequence_entry p).
Proof.
  intros -> p HK. subst p. kstart HK. unfold indentless_sequence_entry; kx; kfin.
Qed.

Lemma fsem_key_k l ca stk st an aid tg kt c :
  st = SFlowSequenceEntryMappingKey ->
  let p := {| p_toks := l; p_token := ca; p_states := stk; p_state := st; p_anchors := an; p_anchor_id := aid;
              p_tags := tg; p_keep_tags := kt |} in
  K p c -> kpost p c (flow_sequence_entry_mapping_key p).
Proof.
  intros -> p HK. subst p. kstart HK. unfold flow_sequence_entry_mapping_key; kx; kfin.
Qed.

Lemma fsem_value_k l ca stk st an aid tg kt c :
  st = SFlowSequenceEntryMappingValue ->
  let p := {| p_toks := l; p_token := ca; p_states := stk; p_state := st; p_anchors := an; p_anchor_id := aid;
              p_tags := tg; p_keep_tags := kt |} in
  K p c -> kpost p c (flow_sequence_entry_mapping_value p).
Proof.
  intros -> p HK. subst p. kstart HK. unfold flow_sequence_entry_mapping_value; kx; kfin.
Qed.

Lemma stream_start_k l ca stk st an aid tg kt c :
  st = SStreamStart ->
  let p := {| p_toks := l; p_token := ca; p_states := stk; p_state := st; p_anchors := an; p_anchor_id := aid;
              p_tags := tg; p_keep_tags := kt |} in
  K p c -> kpost p c (stream_start p).
Proof.
  intros -> p HK. subst p. kstart HK. unfold stream_start; kx; kfin.
Qed.

Lemma document_content_k l ca stk st an aid tg kt c :
  st = SDocumentContent ->
  let p := {| p_toks := l; p_token := ca; p_states := stk; p_state := st; p_anchors := an; p_anchor_id := aid;
              p_tags := tg; p_keep_tags := kt |} in
  K p c -> kpost p c (document_content p).
Proof.
  intros -> p HK. subst p. kstart HK. unfold document_content; kx; kfin.
Qed.

Lemma document_end_k l ca stk st an aid tg kt c :
  st = SDocumentEnd ->
  let p := {| p_toks := l; p_token := ca; p_states := stk; p_state := st; p_anchors := an; p_anchor_id := aid;
              p_tags := tg; p_keep_tags := kt |} in
  K p c -> kpost p c (document_end p).
Proof.
  intros -> p HK. subst p. destruct kt; kstart HK; unfold document_end; kx; kfin.
Qed.

Lemma fsem_end_k l ca stk st an aid tg kt c m :
  st = SFlowSequenceEntryMappingEnd m ->
  let p := {| p_toks := l; p_token := ca; p_states := stk; p_state := st; p_anchors := an; p_anchor_id := aid;
              p_tags := tg; p_keep_tags := kt |} in
  K p c -> kpost p c (flow_sequence_entry_mapping_end p m).
Proof.
  intros -> p HK. subst p. kstart HK. unfold flow_sequence_entry_mapping_end; kx; kfin.
Qed.

Lemma block_node_k l ca stk st an aid tg kt c :
  st = SBlockNode ->
  let p := {| p_toks := l; p_token := ca; p_states := stk; p_state := st; p_anchors := an; p_anchor_id := aid;
              p_tags := tg; p_keep_tags := kt |} in
  K p c -> kpost p c (parse_node p true false).
Proof.
  intros -> p HK. subst p. kstart HK. kfin.
Qed.

