(* C09, parser half of the round trip: Parser::load (PipeL.parse_load: the event loop that clears the anchor table after
   every DocumentStart) run on the token list of one explicit document "--- <root>" emits exactly the events the layout
   tree denotes; composed with the scanner hypothesis for the text  "---\n" ++ block text without its last break. *)
From Coq Require Import List NArith ZArith Bool Arith Lia.
Import ListNotations.
Require Import Parser SBase SPrim SDir SScalar SFetch Pipe Resolver Loader PipeL Drivers C02run
               TokenGrammar FlowText BlockText TokenGrammarProofs TokenStreamProofs ScanFlowProofs ScanBlockProofs
               EmitterRoundTripDefs.

(* ---------- the state machine is a function: runs are deterministic ---------- *)
Lemma steps_split p a b q p1 : steps p (a ++ b) q -> steps p a p1 -> steps p1 b q.
Proof.
  intros Hab Ha. revert b q Hab.
  induction Ha as [p | p e sp p' evs p'' Hs Hst IH]; intros b q Hab.
  - exact Hab.
  - cbn [app] in Hab. inversion Hab as [| p0 e0 sp0 q' evs0 q0 Hs' Hst' ]; subst.
    rewrite Hs in Hs'. injection Hs' as _ Ep. subst q'. apply IH. exact Hst'.
Qed.

(* ---------- events other than DocumentStart: parse_load is the plain event loop ---------- *)
Definition not_doc_start (e : event) : Prop := match e with EDocumentStart _ => False | _ => True end.

Lemma steps_parse_load_plain p evs q : steps p evs q -> Forall not_doc_start evs ->
  forall f se acc, parse_load (length evs + f) p se acc = parse_load f q se (rev evs ++ acc).
Proof.
  induction 1 as [p | p e sp p' evs p'' Hs Hst IH]; intros Hall f se acc.
  - reflexivity.
  - inversion Hall as [| e0 l0 He Hl]; subst.
    assert (Hne : p_state p <> SEnd).
    { intros E. unfold state_machine in Hs. rewrite E in Hs. discriminate. }
    cbn [length plus parse_load]. rewrite Hs.
    assert (Hc : match e with EDocumentStart _ => clear_anchors p' | _ => p' end = p').
    { destruct e; try reflexivity. contradiction He. }
    rewrite Hc. specialize (IH Hl f se (e :: acc)).
    cbn [rev]. rewrite <- app_assoc. cbn [app].
    destruct (p_state p); try exact IH. contradiction Hne; reflexivity.
Qed.

(* one step after which the anchor table is empty *)
Lemma clear_anchors_nil p : p_anchors p = [] -> clear_anchors p = p.
Proof. destruct p; cbn. intros ->. reflexivity. Qed.

Lemma step_parse_load p e sp p' : state_machine p = Parser.Ok ((e, sp), p') -> p_anchors p' = [] ->
  forall f se acc, parse_load (S f) p se acc = parse_load f p' se (e :: acc).
Proof.
  intros Hs Ha f se acc.
  assert (Hne : p_state p <> SEnd).
  { intros E. unfold state_machine in Hs. rewrite E in Hs. discriminate. }
  cbn [parse_load]. rewrite Hs.
  assert (Hc : match e with EDocumentStart _ => clear_anchors p' | _ => p' end = p').
  { destruct e; try reflexivity. apply clear_anchors_nil. exact Ha. }
  rewrite Hc. destruct (p_state p); try reflexivity. contradiction Hne; reflexivity.
Qed.

(* ---------- the events of a tree contain no DocumentStart ---------- *)
Lemma number_not_doc_start tg l : forall e, Forall not_doc_start (number tg e l).
Proof.
  induction l as [|x l IH]; intros e; cbn [number]; constructor.
  - destruct x; exact I.
  - apply IH.
Qed.

Lemma events_of_not_doc_start t : Forall not_doc_start (events_of t).
Proof. apply number_not_doc_start. Qed.

Lemma init_parser_init_p toks keep : init_parser toks keep = init_p toks keep.
Proof. reflexivity. Qed.

(* ---------- statement 1 ---------- *)
Theorem parse_load_wrap : forall t ee toks se fuel,
  wf_root true t = true -> bound [] env0 (pre_events t) = true ->
  map snd toks = wrap true ee (tokens_of t) ->
  (length (wrap_events true (events_of t)) < fuel)%nat ->
  parse_load fuel (init_parser toks false) se [] = (wrap_events true (events_of t), PDone).
Proof.
  intros t ee toks se fuel Hw Hb Hm Hf.
  destruct (doc_steps t true ee toks false Hw Hb Hm) as (p3 & R & E3).
  (* the first two tokens: StreamStart, DocumentStart *)
  pose proof Hm as Hm0. unfold wrap in Hm0. cbn [flag app] in Hm0.
  apply map_snd_cons in Hm0 as (sp0 & t1 & Et & Hm1).
  apply map_snd_cons in Hm1 as (sd & u & Et1 & _). subst t1.
  destruct (doc_open true sp0 [(sd, TDocumentStart)] u false eq_refl (or_introl eq_refl)) as (p1 & R1 & V1).
  cbn [app] in R1. subst toks.
  assert (Ha1 : p_anchors p1 = []).
  { unfold view in V1. inversion V1. reflexivity. }
  unfold wrap_events in R.
  change (EStreamStart :: EDocumentStart true :: events_of t ++ [EDocumentEnd; EStreamEnd])
    with ([EStreamStart; EDocumentStart true] ++ events_of t ++ [EDocumentEnd; EStreamEnd]) in R.
  pose proof (steps_split _ _ _ _ _ R R1) as R2.
  assert (Hrest : Forall not_doc_start (events_of t ++ [EDocumentEnd; EStreamEnd])).
  { apply Forall_app. split; [apply events_of_not_doc_start|]. repeat constructor. }
  (* the two opening steps *)
  inversion R1 as [| pa ea spa pb evsa pc Hsa Hsta]; subst.
  inversion Hsta as [| pa' ea' spb pb' evsb pc' Hsb Hstb]; subst.
  inversion Hstb; subst.
  assert (Hab : p_anchors pb = []).
  { (* the anchor table after StreamStart: computed *)
    cbn in Hsa. injection Hsa as _ <-. reflexivity. }
  set (rest := events_of t ++ [EDocumentEnd; EStreamEnd]) in *.
  assert (Hlen : (length (wrap_events true (events_of t)) = 2 + length rest)%nat) by reflexivity.
  rewrite Hlen in Hf.
  replace fuel with (S (S (length rest + (fuel - 2 - length rest))))%nat by lia.
  rewrite init_parser_init_p.
  rewrite (step_parse_load _ _ _ _ Hsa Hab).
  rewrite (step_parse_load _ _ _ _ Hsb Ha1).
  rewrite (steps_parse_load_plain _ _ _ R2 Hrest).
  destruct (fuel - 2 - length rest)%nat as [|f] eqn:Ef; [lia|].
  cbn [parse_load]. rewrite E3. f_equal.
  rewrite rev_app_distr, rev_involutive. cbn [rev app]. unfold wrap_events. reflexivity.
Qed.

(* ---------- statement 2 ---------- *)
Lemma run_load_parse s :
  run_load s = (let F := (2 * length s + 10)%nat in
                let '(toks, se) := scan_str s in
                match parse_load (4 * F + 20) (init_parser toks false) se [] with
                | (evs, PDone) => match load_events evs l0 with LOk ld => LDocs (rev (l_docs ld)) | LPanic n => LBad n end
                | (_, PPanic n) => LBad n
                | (_, PFuel) => LBad 999
                | _ => LErr
                end).
Proof. reflexivity. Qed.

Lemma removelast_length {A} (l : list A) : length (removelast l) = pred (length l).
Proof.
  induction l as [|x l IH]; [reflexivity|]. cbn [removelast]. destruct l as [|y l]; [reflexivity|].
  cbn [length] in *. rewrite IH. reflexivity.
Qed.

Theorem run_load_block_doc : forall n, bwf_root n = true ->
  (exists toks, scan_str (doc_header ++ blast n) = (toks, SEnded) /\ map snd toks = wrap true false (tokens_of (blt n))) ->
  run_load (doc_header ++ blast n) =
    match load_events (wrap_events true (events_of (blt n))) l0 with LOk ld => LDocs (rev (l_docs ld)) | LPanic k => LBad k end.
Proof.
  intros n Hroot (toks & Es & Hm).
  rewrite run_load_parse. cbv zeta. rewrite Es.
  unfold bwf_root in Hroot. apply andb_prop in Hroot as [Hcoll Hwf].
  rewrite (parse_load_wrap (blt n) false toks SEnded _); [reflexivity | | | exact Hm | ].
  - clear Es Hm. unfold wf_root. pose proof (blt_wf n true Hwf) as W. cbn [negb] in W.
    destruct n; try discriminate Hcoll; exact W.
  - apply bound_plain, blt_plain.
  - unfold wrap_events, events_of. cbn [length]. rewrite app_length, number_length. cbn [length].
    pose proof (events_le_text n true 0%nat Hwf) as Hle.
    rewrite app_length. unfold blast, bdoc_text. rewrite removelast_length.
    unfold doc_header. cbn [length]. unfold str in *. lia.
Qed.

Print Assumptions parse_load_wrap.
Print Assumptions run_load_block_doc.
