(* Assembly of the joint proof (SCANPOS.md, property C12): for every NUL-free input, every position the scanner model
   reports over the string input - both markers of every token span, the marker of the error the scan may end with -
   is a true position of the input (Spec/Positions.v: [marker_ok]); and so is every position the whole pipeline
   [run_str] (scanner + parser) reports: both markers of every event span, the marker of a scanner error, the marker
   of a parser error.
   [PScanErr 0 mk0] is the pipeline model's placeholder for "the token list ended without an error" (the parser asks
   for a token after the scanner has stopped normally): it is not a position reported by the library, and it is
   excluded here by the side condition [site <> 0] (all real scanner error sites are >= 40). *)
From Coq Require Import List NArith ZArith Bool Arith Lia.
Import ListNotations.
Require Import Parser SBase SPrim SDir SScalar SFetch Pipe Positions ScanPos.
Require Import ScanPosPrim ScanPosDir ScanPosFlow ScanPosPlain ScanPosBlock ScanPosFetch ScanPosParse.
Local Open Scope nat_scope.

Theorem scanner_positions_true : forall orig, Forall (fun c => c <> 0%N) orig -> forall F fuel,
  let '(toks, se) := scan_all str_ops F fuel (init_sc {| si_chars := orig; si_look := 0 |}) [] in
  Forall (true_tok orig) toks /\ (forall site m, se = SError site m -> true_mark orig m).
Proof.
  intros orig no_nul.
  exact (scan_all_true_positions orig no_nul
           (pos_scan_directive orig no_nul) (pos_scan_tag orig no_nul) (pos_scan_anchor orig no_nul)
           (pos_scan_flow_scalar orig no_nul) (pos_scan_plain_scalar orig no_nul) (pos_scan_block_scalar orig no_nul)).
Qed.

Theorem pipeline_positions_true : forall orig, Forall (fun c => c <> 0%N) orig ->
  let '(evs, r) := run_str orig in
  Forall (fun es => true_span orig (snd es)) evs
  /\ (forall site m, r = PScanErr site m -> site <> 0%N -> true_mark orig m)
  /\ (forall site m, r = PParseErr site m -> true_mark orig m).
Proof.
  intros orig no_nul. unfold run_str. cbv zeta.
  pose proof (scanner_positions_true orig no_nul (2 * length orig + 10) (4 * (2 * length orig + 10) + 20)) as HS.
  destruct (scan_all str_ops _ _ _ _) as [toks se]. destruct HS as [HT HE].
  apply (parse_all_true_positions orig); [apply marks_of_tokens_true; exact HT|exact HE].
Qed.

Print Assumptions scanner_positions_true.
Print Assumptions pipeline_positions_true.
