(* Joint proof "every position the scanner reports is a true position" (see SCANPOS.md): the QUOTED (flow) SCALAR
   family of Model/SScalar.v - read_hex, resolve_escape, consume_nonws, flow_blanks, the main loop of
   scan_flow_scalar and scan_flow_scalar itself.  Every skip is justified by the character(s) just peeked:
   - the opening quote: the contract's precondition; the closing quote: the loop exits only on the quote;
   - consume_nonws: ordinary characters are checked [negb (is_blank_or_breakz c)], [''] is two quotes, the
     backslash of an escape is a backslash, the escape character is a key of the generated [escape_table] or one
     of x/u/U (all of them neither a break nor NUL: finite check over the concrete tables), the hex digits are
     checked by [is_hex], the escaped line break goes through [skip_linebreak];
   - flow_blanks: [skip_blank] after [is_blank c], [skip_break] after [is_break c];
   - errors are raised at [start] (a true mark: captured under the invariant) or at the current mark. *)
From Coq Require Import List NArith ZArith Bool Arith Lia.
Import ListNotations.
Require Import Parser SBase SPrim SDir SScalar SFetch Positions ScanPos ScanPosPrim.
Local Open Scope nat_scope.

Arguments Nat.ltb : simpl never.
Arguments Nat.leb : simpl never.
Arguments Nat.eqb : simpl never.
Arguments Nat.sub : simpl never.

(* the main loop of scan_flow_scalar (a local [fix] in the model) restated as a top-level Fixpoint; the equation
   [pscan_flow_scalar_unfold] is proved by reflexivity, so this is the model's loop verbatim *)
Section Loop.
Context {I : Type} (ops : InputOps I).
Local Open Scope N_scope.
Local Open Scope mon_scope.
Section Go.
Variables (F : nat) (single : bool) (start : marker).
Fixpoint pflow_go (f : nat) (acc : list chr) (lb : bool) (tb : N)
  (ws : list chr) : @M I (list chr) :=
  match f with
  | O => oof
  | S f =>
    look ops 4 ;;;
    s <- get ;;
    di <- (if m_col (sc_mark s) =? 0 then next_is_document_indicator ops else ret false) ;;
    if di then fail 70 start else
    z <- next_is ops is_z ;;
    if z then fail 71 start else
    lt <- col_lt_indent ;;
    if lt then fail 72 start else
    r <- consume_nonws ops F single acc start ;;
    let '(acc, lbl) := r in
    c <- look_ch ops ;;
    if (single && (c =? 39)) || (negb single && (c =? 34)) then ret acc
    else
      r <- flow_blanks ops F lbl lb tb ws ;;
      let '(lbl, lb, tb, ws) := r in
      if lbl then
        if negb lb then pflow_go f (nls tb acc) false 0 ws
        else if tb =? 0 then pflow_go f (32 :: acc) false 0 ws
        else pflow_go f (nls tb acc) false 0 ws
      else pflow_go f (ws ++ acc) lb tb []
  end.
End Go.

Lemma pscan_flow_scalar_unfold F single :
  scan_flow_scalar ops F single =
  (start <- mark ;;
   skip_non_blank ops ;;;
   str <- pflow_go F single start F [] false 0 [] ;;
   skip_non_blank ops ;;;
   skip_ws_to_eol ops F SkipYes ;;;
   c <- SPrim.peek ops ;; s <- get ;;
   let fl := 0 <? sc_flow_level s in
   if (((c =? 44) || (c =? 125) || (c =? 93)) && fl) || is_breakz c
      || ((c =? 58) && negb fl && (m_line start =? m_line (sc_mark s))) || ((c =? 58) && fl)
   then ret ({| sp_start := start; sp_end := sc_mark s |},
             TScalar (if single then SingleQuoted else DoubleQuoted) (rev str))
   else fail 74 (sc_mark s)).
Proof. reflexivity. Qed.
End Loop.

(* ---------------- the escape tables: every key is a real, non-break character ---------------- *)
Lemma assocc_key (P : chr -> bool) (l : list (chr * chr)) :
  forallb (fun p => P (fst p)) l = true -> forall k r, assocc k l = Some r -> P k = true.
Proof.
  induction l as [|[a b] l IH]; intros H k r; cbn [assocc]; [discriminate|].
  cbn [forallb fst] in H. apply andb_true_iff in H as [Ha Hl].
  destruct (N.eqb_spec a k) as [<-|_]; [intros _; exact Ha|apply IH; exact Hl].
Qed.
Lemma assocn_key (P : chr -> bool) (l : list (chr * nat)) :
  forallb (fun p => P (fst p)) l = true -> forall k, assocn k l <> O -> P k = true.
Proof.
  induction l as [|[a b] l IH]; intros H k; cbn [assocn]; [congruence|].
  cbn [forallb fst] in H. apply andb_true_iff in H as [Ha Hl].
  destruct (N.eqb_spec a k) as [<-|_]; [intros _; exact Ha|apply IH; exact Hl].
Qed.

(* the bridging facts about the generated tables (Gen/Escapes.v): checked by computation over the concrete tables *)
Lemma escape_table_keys_ok : forallb (fun p => negb (is_breakz (fst p))) escape_table = true.
Proof. vm_compute. reflexivity. Qed.
Lemma code_length_table_keys_ok : forallb (fun p => negb (is_breakz (fst p))) code_length_table = true.
Proof. vm_compute. reflexivity. Qed.

Lemma escape_key_not_breakz e r : assocc e escape_table = Some r -> is_breakz e = false.
Proof.
  intros H. apply negb_true_iff.
  exact (assocc_key (fun c => negb (is_breakz c)) escape_table escape_table_keys_ok e r H).
Qed.
Lemma code_length_key_not_breakz e : Nat.eqb (code_length e) 0 = false -> is_breakz e = false.
Proof.
  intros H. apply Nat.eqb_neq in H. apply negb_true_iff.
  exact (assocn_key (fun c => negb (is_breakz c)) code_length_table code_length_table_keys_ok e H).
Qed.

Lemma hex_not_breakz c : is_hex c = true -> is_breakz c = false.
Proof.
  intros H. destruct (is_breakz c) eqn:B; [|reflexivity]. exfalso. unfold is_breakz, is_break, is_z in B.
  repeat (apply orb_true_iff in B as [B|B]); apply N.eqb_eq in B; subst c; vm_compute in H; discriminate H.
Qed.

Lemma quote_not_breakz (single : bool) c :
  (single && (c =? 39)%N) || (negb single && (c =? 34)%N) = true -> is_breakz c = false.
Proof.
  intros H. apply orb_true_iff in H as [H|H]; apply andb_true_iff in H as [_ H]; apply N.eqb_eq in H; subst c; reflexivity.
Qed.

(* state-preserving input tests (any error predicate) *)
Lemma swp_next_3_are E a b c (Q : bool -> sst -> Prop) s : (forall r, Q r s) -> swp E (next_3_are str_ops a b c) Q s.
Proof.
  intros HQ. unfold next_3_are. apply swp_bind. apply swp_assert_buflen. apply swp_bind. apply swp_peek.
  apply swp_bind. apply swp_peekn. apply swp_bind. apply swp_peekn. apply swp_ret. apply HQ.
Qed.
Lemma swp_next_is_document_indicator E (Q : bool -> sst -> Prop) s :
  (forall r, Q r s) -> swp E (next_is_document_indicator str_ops) Q s.
Proof.
  intros HQ. unfold next_is_document_indicator. apply swp_bind. apply swp_assert_buflen. apply swp_bind. apply swp_peekn.
  match goal with |- swp _ (if ?b then _ else _) _ _ => destruct b end; [|apply swp_ret; apply HQ].
  apply swp_bind. apply swp_next_3_are. intros [|]; [apply swp_ret; apply HQ|apply swp_next_3_are; exact HQ].
Qed.

Section PosFlow.
Variable orig : list chr.
Hypothesis no_nul : Forall (fun c => c <> 0%N) orig.
Notation pwp := (swp (true_mark orig)).
Notation MarkAt := (ScanPos.MarkAt orig).
Notation MarkOK := (ScanPos.MarkOK orig).

Ltac case_if E := match goal with |- swp _ (if ?b then _ else _) _ _ => destruct b eqn:E end.

(* ---------------- escapes ---------------- *)
(* read_hex n i peeks at offsets i .. i+n-1, does not touch the state, and succeeds only if all of them are hex
   digits; its only error is raised at [start] *)
Lemma pwp_read_hex start n : forall i acc (Q : N -> sst -> Prop) s,
  true_mark orig start ->
  ((forall j, i <= j < i + n -> is_hex (rnth s j) = true) -> forall v, Q v s) ->
  pwp (read_hex str_ops n i acc start) Q s.
Proof using no_nul.
  induction n as [|n IH]; intros i acc Q s Hst HQ; cbn [read_hex].
  - apply swp_ret. apply HQ. intros j Hj. lia.
  - apply swp_bind. apply swp_peekn. cbv beta.
    destruct (is_hex (rnth s i)) eqn:Eh; [|apply swp_fail; exact Hst].
    apply IH; [exact Hst|]. intros Hj v. apply HQ. intros j Hj'.
    destruct (Nat.eq_dec j i) as [->|Hne]; [exact Eh|apply Hj; lia].
Qed.

(* resolve_escape is called with a backslash at offset 0 (all that matters: a real, non-break character) *)
Lemma pwp_resolve_escape start pre (Q : chr -> sst -> Prop) s :
  true_mark orig start -> MarkAt pre s -> is_breakz (rnth s 0) = false ->
  (forall r s', MarkOK s' -> pkeeps s s' -> Q r s') -> pwp (resolve_escape str_ops start) Q s.
Proof using no_nul.
  intros Hst HM Z0 HQ. unfold resolve_escape. apply swp_bind. apply swp_peekn. cbv beta.
  destruct (assocc (rnth s 1) escape_table) as [r|] eqn:Ea.
  - apply swp_bind. apply (pwp_skip_n_non_blank_z orig no_nul 2 pre); [exact HM| |].
    + intros i Hi. destruct i as [|[|i]]; [exact Z0|exact (escape_key_not_breakz _ _ Ea)|lia].
    + intros s1 M1 R1 K1. apply swp_ret. apply HQ; [eexists; exact M1|exact K1].
  - cbv zeta. destruct (Nat.eqb (code_length (rnth s 1)) 0) eqn:En; [apply swp_fail; exact Hst|].
    apply swp_bind. apply (pwp_skip_n_non_blank_z orig no_nul 2 pre); [exact HM| |].
    + intros i Hi. destruct i as [|[|i]]; [exact Z0|exact (code_length_key_not_breakz _ En)|lia].
    + intros s1 M1 R1 K1.
      apply swp_bind. apply (pwp_look orig no_nul _ _ _ _ M1). intros s2 M2 R2 I2.
      apply swp_bind. apply pwp_read_hex; [exact Hst|]. intros Hhex v.
      destruct (is_scalar_value v); [|apply swp_fail; exact Hst].
      apply swp_bind. apply (pwp_skip_n_non_blank_z orig no_nul _ _ _ _ M2).
      * intros i Hi. apply hex_not_breakz. apply Hhex. lia.
      * intros s3 M3 R3 K3. apply swp_ret. apply HQ; [eexists; exact M3|pk].
Qed.

(* ---------------- consume_flow_scalar_non_whitespace_chars ---------------- *)
Lemma pwp_consume_nonws start fuel : forall single acc (Q : list chr * bool -> sst -> Prop) s,
  true_mark orig start -> MarkOK s ->
  (forall r s', MarkOK s' -> pkeeps s s' -> Q r s') -> pwp (consume_nonws str_ops fuel single acc start) Q s.
Proof using no_nul.
  induction fuel as [|fuel IH]; intros single acc Q s Hst [pre HM] HQ; cbn [consume_nonws]; [exact I|].
  apply swp_bind. apply (pwp_look orig no_nul 2 pre); [exact HM|]. intros s1 M1 R1 I1.
  apply swp_bind. apply swp_peek. cbv beta.
  destruct (is_blank_or_breakz (rnth s1 0)) eqn:Ebb; [apply swp_ret; apply HQ; [exists pre; exact M1|pk]|].
  assert (Z0 : is_breakz (rnth s1 0) = false).
  { unfold is_blank_or_breakz in Ebb. apply orb_false_iff in Ebb. apply Ebb. }
  apply swp_bind. apply swp_peekn. cbv beta.
  case_if E1.
  { (* '' *)
    apply andb_true_iff in E1 as [E1 _]. apply andb_true_iff in E1 as [_ E1]. apply N.eqb_eq in E1.
    apply swp_bind. apply (pwp_skip_n_non_blank_z orig no_nul 2 pre); [exact M1| |].
    - intros i Hi. destruct i as [|[|i]]; [exact Z0|rewrite E1; reflexivity|lia].
    - intros s2 M2 R2 K2. apply IH; [exact Hst|eexists; exact M2|].
      intros r s' MOK' K'. apply HQ; [exact MOK'|pk]. }
  case_if E2; [apply swp_ret; apply HQ; [exists pre; exact M1|pk]|].
  case_if E3; [apply swp_ret; apply HQ; [exists pre; exact M1|pk]|].
  case_if E4.
  { (* escaped line break *)
    apply swp_bind. apply (pwp_look orig no_nul 3 pre); [exact M1|]. intros s2 M2 R2 I2.
    apply swp_bind. apply (pwp_skip_plain_z orig no_nul (skip_non_blank str_ops) pre); [right; reflexivity|exact M2| |].
    - rewrite (rnth_eq s1 s2 0 R2). exact Z0.
    - intros s3 M3 R3 K3.
      apply swp_bind. apply (pwp_skip_linebreak orig no_nul _ _ _ M3).
      + intros _. apply swp_ret. apply HQ; [eexists; exact M3|pk].
      + intros s4 b rest Rb Ub Hb M4 R4 K4. apply swp_ret. apply HQ; [eexists; exact M4|pk]. }
  case_if E5.
  { (* escape sequence *)
    apply swp_bind. apply (pwp_resolve_escape start pre); [exact Hst|exact M1|exact Z0|].
    intros r s2 MOK2 K2. apply IH; [exact Hst|exact MOK2|].
    intros r' s' MOK' K'. apply HQ; [exact MOK'|pk]. }
  (* ordinary character *)
  apply swp_bind. apply (pwp_skip_plain_z orig no_nul (skip_non_blank str_ops) pre); [right; reflexivity|exact M1|exact Z0|].
  intros s2 M2 R2 K2. apply IH; [exact Hst|eexists; exact M2|].
  intros r s' MOK' K'. apply HQ; [exact MOK'|pk].
Qed.

(* ---------------- the blank-consuming loop ---------------- *)
Lemma pwp_flow_blanks fuel : forall lbl lb tb ws (Q : bool * bool * N * list chr -> sst -> Prop) s,
  MarkOK s -> (forall r s', MarkOK s' -> pkeeps s s' -> Q r s') -> pwp (flow_blanks str_ops fuel lbl lb tb ws) Q s.
Proof using no_nul.
  induction fuel as [|fuel IH]; intros lbl lb tb ws Q s [pre HM] HQ; cbn [flow_blanks]; [exact I|].
  apply swp_bind. apply swp_peek. cbv beta.
  destruct (is_blank (rnth s 0)) eqn:Ebl.
  - assert (Z0 : is_breakz (rnth s 0) = false) by (apply blank_not_breakz; exact Ebl).
    destruct lbl.
    + apply swp_bind. unfold col_lt_indent. apply swp_gets. cbv beta.
      case_if Et.
      { apply swp_bind. unfold mark. apply swp_gets. apply swp_fail. apply markok_true. exists pre. exact HM. }
      apply swp_bind. apply (pwp_skip_plain_z orig no_nul (skip_blank str_ops) pre); [left; reflexivity|exact HM|exact Z0|].
      intros s1 M1 R1 K1.
      apply swp_bind. apply (pwp_look orig no_nul _ _ _ _ M1). intros s2 M2 R2 I2.
      apply IH; [eexists; exact M2|]. intros r s' MOK' K'. apply HQ; [exact MOK'|pk].
    + apply swp_bind. apply (pwp_skip_plain_z orig no_nul (skip_blank str_ops) pre); [left; reflexivity|exact HM|exact Z0|].
      intros s1 M1 R1 K1.
      apply swp_bind. apply (pwp_look orig no_nul _ _ _ _ M1). intros s2 M2 R2 I2.
      apply IH; [eexists; exact M2|]. intros r s' MOK' K'. apply HQ; [exact MOK'|pk].
  - destruct (is_break (rnth s 0)) eqn:Eb; [|apply swp_ret; apply HQ; [exists pre; exact HM|pk]].
    apply swp_bind. apply (pwp_look orig no_nul 2 pre); [exact HM|]. intros s1 M1 R1 I1.
    assert (Eb1 : is_break (rnth s1 0) = true) by (rewrite (rnth_eq s s1 0 R1); exact Eb).
    destruct lbl.
    + apply swp_bind. apply (pwp_skip_break orig pre); [exact M1|exact Eb1|].
      intros s2 b rest Rb Ub Hb M2 R2 K2.
      apply swp_bind. apply (pwp_look orig no_nul _ _ _ _ M2). intros s3 M3 R3 I3.
      apply IH; [eexists; exact M3|]. intros r s' MOK' K'. apply HQ; [exact MOK'|pk].
    + apply swp_bind. apply (pwp_skip_break orig pre); [exact M1|exact Eb1|].
      intros s2 b rest Rb Ub Hb M2 R2 K2.
      apply swp_bind. apply (pwp_look orig no_nul _ _ _ _ M2). intros s3 M3 R3 I3.
      apply IH; [eexists; exact M3|]. intros r s' MOK' K'. apply HQ; [exact MOK'|pk].
Qed.

(* ---------------- the main loop: it exits only with the closing quote as the next character ---------------- *)
Lemma pwp_flow_go F single start f : forall acc lb tb ws (Q : list chr -> sst -> Prop) s,
  true_mark orig start -> MarkOK s ->
  (forall r s', MarkOK s' -> is_breakz (rnth s' 0) = false -> pkeeps s s' -> Q r s') ->
  pwp (pflow_go str_ops F single start f acc lb tb ws) Q s.
Proof using no_nul.
  induction f as [|f IH]; intros acc lb tb ws Q s Hst [pre HM] HQ; cbn [pflow_go]; [exact I|].
  apply swp_bind. apply (pwp_look orig no_nul 4 pre); [exact HM|]. intros s1 M1 R1 I1.
  apply swp_bind. apply swp_get.
  apply swp_bind.
  apply swp_mono with (Q := fun (_ : bool) s' => s' = s1).
  { match goal with |- swp _ (if ?b then _ else _) _ _ => destruct b end;
      [apply swp_next_is_document_indicator; reflexivity|apply swp_ret; reflexivity]. }
  intros di s1' ->.
  destruct di; [apply swp_fail; exact Hst|].
  apply swp_bind. unfold next_is. apply swp_bind. apply swp_peek. apply swp_ret.
  destruct (is_z (rnth s1 0)); [apply swp_fail; exact Hst|].
  apply swp_bind. unfold col_lt_indent. apply swp_gets. cbv beta.
  match goal with |- swp _ (if ?b then _ else _) _ _ => destruct b end; [apply swp_fail; exact Hst|].
  apply swp_bind. apply pwp_consume_nonws; [exact Hst|exists pre; exact M1|].
  intros [acc' lbl] s2 [pre2 M2] K2. cbv beta iota.
  apply swp_bind. apply (pwp_look_ch orig no_nul pre2); [exact M2|]. intros s3 M3 R3 I3.
  case_if Equ.
  { apply swp_ret. apply HQ; [exists pre2; exact M3|exact (quote_not_breakz _ _ Equ)|pk]. }
  apply swp_bind. apply pwp_flow_blanks; [exists pre2; exact M3|].
  intros [[[lbl' lb'] tb'] ws'] s4 MOK4 K4. cbv beta iota.
  assert (K : forall r s', MarkOK s' -> is_breakz (rnth s' 0) = false -> pkeeps s4 s' -> Q r s').
  { intros r s' MOK' Z' K'. apply HQ; [exact MOK'|exact Z'|pk]. }
  destruct lbl'; [|apply IH; [exact Hst|exact MOK4|exact K]].
  match goal with |- swp _ (if ?b then _ else _) _ _ => destruct b end; [apply IH; [exact Hst|exact MOK4|exact K]|].
  match goal with |- swp _ (if ?b then _ else _) _ _ => destruct b end; apply IH; [exact Hst|exact MOK4|exact K|exact Hst|exact MOK4|exact K].
Qed.

(* ---------------- scan_flow_scalar ---------------- *)
Theorem pos_scan_flow_scalar : forall F single s,
  MarkOK s -> is_breakz (rnth s 0) = false -> pwp (scan_flow_scalar str_ops F single) (ppost orig s) s.
Proof using no_nul.
  intros F single s [pre HM] Hz. rewrite pscan_flow_scalar_unfold.
  assert (Hst : true_mark orig (sc_mark s)) by (apply markok_true; exists pre; exact HM).
  apply swp_bind. unfold mark. apply swp_gets.
  (* the opening quote *)
  apply swp_bind. apply (pwp_skip_plain_z orig no_nul (skip_non_blank str_ops) pre); [right; reflexivity|exact HM|exact Hz|].
  intros s1 M1 R1 K1.
  apply swp_bind. apply pwp_flow_go; [exact Hst|eexists; exact M1|]. intros str s2 [pre2 M2] Z2 K2.
  (* the closing quote *)
  apply swp_bind. apply (pwp_skip_plain_z orig no_nul (skip_non_blank str_ops) pre2); [right; reflexivity|exact M2|exact Z2|].
  intros s3 M3 R3 K3.
  apply swp_bind. eapply swp_mono; [apply (pos_skip_ws_to_eol orig no_nul); eexists; exact M3|].
  intros tw s4 [MOK4 K4].
  apply swp_bind. apply swp_peek. apply swp_bind. apply swp_get. cbv zeta.
  match goal with |- swp _ (if ?b then _ else _) _ _ => destruct b end.
  - apply swp_ret. split; [exact MOK4|]. split; [|pk].
    unfold true_tok, true_span. cbn [fst sp_start sp_end]. split; [exact Hst|apply markok_true; exact MOK4].
  - apply swp_fail. apply markok_true. exact MOK4.
Qed.

End PosFlow.

Print Assumptions pos_scan_flow_scalar.
